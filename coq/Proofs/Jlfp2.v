(* Jlfp2.v — variant of Jlfp.v (generic busy-window response-time theorem for a job j under a
   job-level fixed-priority policy with bounded priority inversion and a run-to-completion threshold):
   * the priority-inversion hypothesis [Hblock] is only required while j is incomplete
     ([service j t < cost j]); this is what limited-preemptive fixed-priority schedules provide
     (a later job of j's own task counts as "lower priority" and of course runs after j completes);
   * [jlfp_response_time_bound'] : the theorem of Jlfp.v under the weaker [Hblock];
   * [jlfp_busy_window_bound] : the busy-window length hypothesis [HL] DERIVED from a bound [wlL] on
     the higher-or-equal-priority workload released in any window of length L with [B + wlL <= L]
     (the classical argument);
   * [jlfp_response_time_bound2] combines both. *)
From Coq Require Import List Arith Lia Bool.
From RTA.Spec Require Import Sched.
Import ListNotations.

Section Jlfp2.
  Variable jobs : list job.
  Variable sched : nat -> option nat.
  Notation n := (length jobs).
  Notation arr := (arr jobs).
  Notation cost := (cost jobs).
  Notation service := (service sched).
  Notation pending := (pending jobs sched).

  Hypothesis Hvalid : valid jobs sched.
  Hypothesis Hwc : work_conserving jobs sched.

  Variable j : nat.                      (* the job under analysis *)
  Hypothesis Hj : j < n.
  Hypothesis Hcostj : 0 < cost j.
  Variable hep : nat -> bool.            (* hep k = true: k has higher-or-equal priority than j *)
  Hypothesis hep_j : hep j = true.
  Let a := arr j.

  (* bounded priority inversion, observational form, required only while j is incomplete *)
  Variable B : nat.
  Hypothesis Hblock : forall t k k', sched t = Some k -> hep k = false ->
      pending k' t -> hep k' = true -> service j t < cost j ->
      exists t0, t0 < t /\ t <= t0 + B /\ (forall k'', pending k'' t0 -> hep k'' = false).

  Definition in_win (t1 d k : nat) : bool := (t1 <=? arr k) && (arr k <? t1 + d).
  Definition quiet (t : nat) := forall k, k < n -> hep k = true -> arr k < t -> cost k <= service k t.

  Definition quietb (t : nat) : bool :=
    forallb (fun k => negb (hep k) || negb (arr k <? t) || (cost k <=? service k t)) (seq 0 n).
  Lemma quietP t : quietb t = true <-> quiet t.
  Proof.
    unfold quietb, quiet. rewrite forallb_forall. split.
    - intros H k Hk Hh Ha. specialize (H k). rewrite in_seq in H. specialize (H ltac:(lia)).
      rewrite Hh in H. simpl in H. destruct (Nat.ltb_spec (arr k) t); [|lia]. simpl in H. apply Nat.leb_le in H. exact H.
    - intros H k Hk. rewrite in_seq in Hk. destruct (hep k) eqn:Hh; [|reflexivity]. simpl.
      destruct (Nat.ltb_spec (arr k) t); simpl; [|reflexivity]. apply Nat.leb_le. apply H; auto; lia.
  Qed.
  Lemma quiet0 : quiet 0. Proof. intros k _ _ H. lia. Qed.
  Lemma last_quiet : exists t1, t1 <= a /\ quiet t1 /\ forall t, t1 < t <= a -> ~ quiet t.
  Proof.
    generalize a. intros b. induction b as [|b [t1 (H1 & H2 & H3)]].
    - exists 0. split; [lia|]. split; [apply quiet0|]. intros; lia.
    - destruct (quietb (S b)) eqn:E.
      + exists (S b). split; [lia|]. split; [apply quietP; exact E|]. intros; lia.
      + exists t1. split; [lia|]. split; [exact H2|]. intros t Ht.
        destruct (Nat.eq_dec t (S b)) as [->|]; [|apply H3; lia].
        intros Hq. apply quietP in Hq. congruence.
  Qed.
  (* a non-quiet instant has a witness: a hep job released earlier and still incomplete *)
  Lemma not_quiet_ex t : ~ quiet t -> exists k, k < n /\ hep k = true /\ arr k < t /\ service k t < cost k.
  Proof.
    intros Hnq. assert (E : quietb t = false).
    { destruct (quietb t) eqn:E; [|reflexivity]. exfalso. apply Hnq, quietP, E. }
    unfold quietb in E.
    assert (exists k, In k (seq 0 n) /\ (negb (hep k) || negb (arr k <? t) || (cost k <=? service k t)) = false) as [k [Hin Hk]].
    { clear -E. induction (seq 0 n) as [|x l IH]; simpl in E; [discriminate|].
      apply andb_false_iff in E. destruct E as [E|E]; [exists x; split; [left; reflexivity|exact E]|].
      destruct (IH E) as [k [? ?]]. exists k. split; [right|]; assumption. }
    apply in_seq in Hin. apply orb_false_iff in Hk. destruct Hk as [Hk Hc]. apply orb_false_iff in Hk. destruct Hk as [Hh Ha].
    apply negb_false_iff in Hh. apply negb_false_iff, Nat.ltb_lt in Ha. apply Nat.leb_gt in Hc.
    exists k. split; [lia|]. split; [exact Hh|]. split; [exact Ha|exact Hc].
  Qed.
  Lemma not_quiet_pending t : ~ quiet (S t) -> exists k, pending k t /\ hep k = true.
  Proof.
    intros Hnq. destruct (not_quiet_ex _ Hnq) as (k & Hk & Hh & Ha & Hc).
    exists k. split; [|exact Hh]. split; [lia|]. split; [lia|].
    assert (service k t <= service k (S t)) by (apply service_mono; lia). lia.
  Qed.

  (* a sum of 0/1 indicators that vanish from index B on is at most B *)
  Lemma sumn_indicator_le d B' f : (forall i, i < d -> f i <= 1) -> (forall i, i < d -> B' <= i -> f i = 0) -> sumn d f <= B'.
  Proof.
    intros H1 H0. induction d as [|d IH]; simpl; [lia|].
    assert (IH' : sumn d f <= B') by (apply IH; intros; [apply H1|apply H0]; lia).
    destruct (Nat.le_gt_cases B' d) as [Hle|Hgt]; [rewrite (H0 d); lia|].
    assert (sumn d f <= d).
    { clear -H1. induction d as [|d IH]; simpl; [lia|]. assert (f d <= 1) by (apply H1; lia).
      assert (sumn d f <= d) by (apply IH; intros; apply H1; lia). lia. }
    assert (f d <= 1) by (apply H1; lia). lia.
  Qed.

  Lemma sumn_single m k0 v : sumn m (fun k => if k =? k0 then v else 0) <= v.
  Proof.
    induction m as [|m IH]; simpl; [lia|]. destruct (Nat.eqb_spec m k0) as [->|Hne]; [|lia].
    rewrite sumn_const0; [lia|]. intros i Hi. destruct (Nat.eqb_spec i k0); lia.
  Qed.

  Lemma service_before_arr k t : t <= arr k -> service k t = 0.
  Proof.
    induction t as [|t IH]; intros Ht; [reflexivity|].
    rewrite service_S, IH by lia. unfold runs. destruct (sched t) as [k'|] eqn:E; [|reflexivity].
    destruct (Nat.eqb_spec k' k) as [->|]; [|reflexivity].
    destruct (Hvalid _ _ E) as (_ & Ha & _). lia.
  Qed.

  (* hep jobs released before a quiet time never run at or after it *)
  Lemma hep_old t1 t k : quiet t1 -> t1 <= t -> sched t = Some k -> hep k = true -> t1 <= arr k.
  Proof.
    intros Hq Ht Ek Hh. destruct (Nat.le_gt_cases t1 (arr k)) as [|Hlt]; [assumption|].
    destruct (Hvalid _ _ Ek) as (Hk & _ & Hs). specialize (Hq k Hk Hh Hlt).
    assert (service k t1 <= service k t) by (apply service_mono; lia). lia.
  Qed.

  (* In a window [t1, t1+d) that starts at a quiet time, throughout which some hep job is pending and
     j is incomplete, all but at most B slots serve hep jobs released inside the window. *)
  Lemma window_service t1 d : quiet t1 ->
    (forall i, i < d -> exists k, pending k (t1 + i) /\ hep k = true) ->
    (forall i, i < d -> service j (t1 + i) < cost j) ->
    d <= svcP jobs sched (fun k => hep k && in_win t1 d k) t1 d + B.
  Proof.
    intros Hq Hhp Hinc.
    set (S := fun k => hep k && in_win t1 d k).
    set (LP := fun k => negb (hep k)).
    set (P := fun k => S k || LP k).
    assert (Hb : forall i, i < d -> busyP sched P (t1 + i)).
    { intros i Hi. destruct (Hhp i Hi) as [k [Hk Hkh]].
      destruct (sched (t1 + i)) as [k'|] eqn:E; [|exfalso; eapply Hwc; eauto].
      exists k'. split; [exact E|]. unfold P, S, LP. destruct (hep k') eqn:Hh'; simpl; [|reflexivity].
      rewrite orb_false_r. unfold in_win.
      destruct (Hvalid _ _ E) as (_ & Ha' & _). assert (t1 <= arr k') by (eapply (hep_old t1 (t1 + i)); [exact Hq|lia|exact E|exact Hh']).
      apply andb_true_iff. split; [apply Nat.leb_le|apply Nat.ltb_lt]; lia. }
    assert (Hs := svcP_busy jobs sched Hvalid P t1 d Hb).
    assert (Hsplit : svcP jobs sched P t1 d = svcP jobs sched S t1 d + svcP jobs sched LP t1 d).
    { unfold svcP. rewrite <- sumn_add. apply sumn_ext. intros k _. unfold P, S, LP.
      destruct (hep k); simpl; [rewrite orb_false_r; destruct (in_win t1 d k); lia|lia]. }
    (* lower-priority service is confined to the first B slots *)
    assert (Hlp : svcP jobs sched LP t1 d <= B).
    { unfold svcP, svc.
      rewrite (sumn_ext n _ (fun k => sumn d (fun i => if LP k then runs sched k (t1 + i) else 0))).
      2:{ intros k _. destruct (LP k); [reflexivity|]. symmetry. apply sumn_const0; auto. }
      rewrite sumn_exch. apply sumn_indicator_le.
      - intros i Hi.
        transitivity (sumn n (fun k => runs sched k (t1 + i))).
        + apply sumn_le. intros k _. destruct (LP k); lia.
        + rewrite (runs_total jobs sched Hvalid). destruct (sched (t1 + i)); lia.
      - intros i Hi HBi. apply sumn_const0. intros k Hk. destruct (LP k) eqn:Hlpk; [|reflexivity].
        unfold runs. destruct (sched (t1 + i)) as [k'|] eqn:E; [|reflexivity].
        destruct (Nat.eqb_spec k' k) as [->|]; [|reflexivity]. exfalso.
        unfold LP in Hlpk. apply negb_true_iff in Hlpk.
        destruct (Hhp i Hi) as [kh [Hkh Hkhh]].
        destruct (Hblock _ _ _ E Hlpk Hkh Hkhh (Hinc i Hi)) as [t0 (Ht0 & Ht0B & Hnone)].
        destruct (Nat.lt_ge_cases t0 t1) as [Hlt|Hge]; [lia|].
        destruct (Hhp (t0 - t1)) as [kh' [Hkh' Hkhh']]; [lia|].
        replace (t1 + (t0 - t1)) with t0 in Hkh' by lia.
        rewrite (Hnone _ Hkh') in Hkhh'. discriminate. }
    fold S. lia.
  Qed.

  (* ---------------------------------------------------------------------------------------- *)
  (* the busy window is shorter than any L with B + (hep workload of a window of length L) <= L *)
  (* ---------------------------------------------------------------------------------------- *)
  Section BusyWindow.
    Variables L wlL : nat.
    Hypothesis HL0 : 0 < L.
    Hypothesis HwlL : forall t1, workP jobs (fun k => hep k && in_win t1 L k) <= wlL.
    Hypothesis HLfix : B + wlL <= L.

    Lemma jlfp_busy_window_bound :
      forall t1, quiet t1 -> t1 <= a -> (forall t, t1 < t <= a -> ~ quiet t) -> a - t1 < L.
    Proof.
      intros t1 Hq Ht1 Hnq. destruct (Nat.lt_ge_cases (a - t1) L) as [|Hge]; [assumption|exfalso].
      assert (Hhp : forall i, i < L -> exists k, pending k (t1 + i) /\ hep k = true).
      { intros i Hi. apply not_quiet_pending, Hnq. lia. }
      assert (Hinc : forall i, i < L -> service j (t1 + i) < cost j).
      { intros i Hi. rewrite service_before_arr; [exact Hcostj|fold a; lia]. }
      assert (Hw := window_service t1 L Hq Hhp Hinc).
      set (S := fun k => hep k && in_win t1 L k) in *.
      destruct (not_quiet_ex (t1 + L)) as (k & Hk & Hh & Ha & Hc); [apply Hnq; lia|].
      assert (Hka : t1 <= arr k).
      { destruct (Nat.le_gt_cases t1 (arr k)) as [|Hlt]; [assumption|].
        specialize (Hq k Hk Hh Hlt).
        assert (service k t1 <= service k (t1 + L)) by (apply service_mono; lia). lia. }
      assert (HSk : S k = true).
      { unfold S, in_win. rewrite Hh. simpl. apply andb_true_iff. split; [apply Nat.leb_le|apply Nat.ltb_lt]; lia. }
      assert (Hlt : svcP jobs sched S t1 L < workP jobs S).
      { unfold svcP, workP. apply sumn_lt.
        - intros k' Hk'. destruct (S k'); [|lia].
          assert (H := service_le_cost jobs sched Hvalid k' (t1 + L) Hk'). unfold Sched.service in H.
          rewrite svc_split in H. simpl in H. lia.
        - exists k. split; [exact Hk|]. rewrite HSk. unfold Sched.service in Hc. rewrite svc_split in Hc. simpl in Hc. lia. }
      specialize (HwlL t1). fold S in HwlL. lia.
    Qed.
  End BusyWindow.

  (* ---------------------------------------------------------------------------------------- *)
  (* the response-time theorem                                                                 *)
  (* ---------------------------------------------------------------------------------------- *)
  Section ResponseTime.
    (* run-to-completion threshold *)
    Variables rtct rem : nat.
    Hypothesis Hrtct_rem : cost j <= rtct + rem.
    Hypothesis Hrtc : forall t, rtct <= service j t -> service j t < cost j -> sched t = Some j.

    (* interference bound: hep jobs other than j released in [t1,t1+x), plus rtct *)
    Variable wl : nat -> nat -> nat.
    Hypothesis Hwl : forall t1 x, t1 <= a ->
        workP jobs (fun k => hep k && in_win t1 x k && negb (k =? j)) + rtct <= wl (a - t1) x.

    Variable L : nat.
    Hypothesis HL : forall t1, quiet t1 -> t1 <= a -> (forall t, t1 < t <= a -> ~ quiet t) -> a - t1 < L.
    Variable R : nat.
    (* for every offset A < L some positive AF solves the offset inequality and R covers it *)
    Hypothesis HR : forall A, A < L -> exists AF, 0 < AF /\ B + wl A AF <= AF /\ AF + rem <= A + R.

    Theorem jlfp_response_time_bound' : cost j <= service j (a + R).
    Proof.
      destruct last_quiet as [t1 (Ht1 & Hq & Hnq)].
      assert (HA := HL t1 Hq Ht1 Hnq). set (A := a - t1) in *.
      destruct (HR A HA) as [AF (HAF0 & HAF & HRA)].
      assert (Hbusy_pre : forall t, t1 <= t < a -> exists k, pending k t /\ hep k = true).
      { intros t Ht. apply not_quiet_pending. apply Hnq. lia. }
      (* Step A: by t1 + AF the job has reached its run-to-completion threshold (or is complete) *)
      assert (Hthr : rtct <= service j (t1 + AF) \/ cost j <= service j (t1 + AF)).
      { destruct (Nat.le_gt_cases rtct (service j (t1 + AF))) as [|Hlow]; [left; assumption|].
        destruct (Nat.le_gt_cases (cost j) (service j (t1 + AF))) as [|Hinc]; [right; assumption|]. exfalso.
        assert (Hjinc : forall i, i < AF -> service j (t1 + i) < cost j).
        { intros i Hi. assert (service j (t1 + i) <= service j (t1 + AF)) by (apply service_mono; lia). lia. }
        assert (Hjp : forall t, a <= t < t1 + AF -> pending j t).
        { intros t Ht. split; [exact Hj|]. split; [unfold a in *; lia|].
          assert (service j t <= service j (t1 + AF)) by (apply service_mono; lia). lia. }
        assert (Hhp : forall i, i < AF -> exists k, pending k (t1 + i) /\ hep k = true).
        { intros i Hi. destruct (Nat.lt_ge_cases (t1 + i) a); [apply Hbusy_pre; lia|].
          exists j. split; [apply Hjp; lia|exact hep_j]. }
        assert (Hws := window_service t1 AF Hq Hhp Hjinc).
        set (S := fun k => hep k && in_win t1 AF k) in *.
        set (S' := fun k => hep k && in_win t1 AF k && negb (k =? j)).
        assert (Hw := Hwl t1 AF Ht1). fold S' in Hw. fold A in Hw.
        assert (HSw : svcP jobs sched S t1 AF <= workP jobs S' + service j (t1 + AF)).
        { unfold svcP, workP.
          transitivity (sumn n (fun k => (if S' k then cost k else 0) + (if k =? j then service j (t1 + AF) else 0))).
          - apply sumn_le. intros k Hk. unfold S', S. destruct (Nat.eqb_spec k j) as [->|Hne].
            + rewrite andb_false_r. simpl. destruct (hep j && in_win t1 AF j); [|lia].
              unfold Sched.service. rewrite svc_split. simpl. lia.
            + rewrite andb_true_r. destruct (hep k && in_win t1 AF k); [|lia].
              assert (H := service_le_cost jobs sched Hvalid k (t1 + AF) Hk). unfold Sched.service in H. rewrite svc_split in H. simpl in H. lia.
          - rewrite sumn_add. apply Nat.add_le_mono_l.
            apply sumn_single. }
        lia. }
      (* Step B: from the threshold on the job runs to completion within rem slots *)
      assert (Hrun : forall i, cost j <= service j (t1 + AF + i) \/ (rtct <= service j (t1 + AF) /\ service j (t1 + AF) + i <= service j (t1 + AF + i))).
      { induction i as [|i IH].
        - rewrite Nat.add_0_r. destruct Hthr; [right; split; [assumption|lia]|left; assumption].
        - destruct IH as [IH|[Hth IH]].
          + left. assert (service j (t1 + AF + i) <= service j (t1 + AF + S i)) by (apply service_mono; lia). lia.
          + destruct (Nat.le_gt_cases (cost j) (service j (t1 + AF + i))) as [Hc|Hc].
            * left. assert (service j (t1 + AF + i) <= service j (t1 + AF + S i)) by (apply service_mono; lia). lia.
            * right. split; [exact Hth|].
              assert (E : sched (t1 + AF + i) = Some j) by (apply Hrtc; lia).
              replace (t1 + AF + S i) with (S (t1 + AF + i)) by lia. rewrite service_S. unfold runs. rewrite E, Nat.eqb_refl. lia. }
      assert (Hfin : cost j <= service j (t1 + AF + rem)).
      { destruct (Hrun rem) as [|[Hth Hs]]; [assumption|]. lia. }
      apply Nat.le_trans with (service j (t1 + AF + rem)); [exact Hfin|]. apply service_mono. unfold A in HRA. lia.
    Qed.
  End ResponseTime.

  (* both together: the busy-window bound L comes from the workload bound wlL *)
  Theorem jlfp_response_time_bound2 : forall rtct rem wl L wlL R,
    cost j <= rtct + rem ->
    (forall t, rtct <= service j t -> service j t < cost j -> sched t = Some j) ->
    (forall t1 x, t1 <= a ->
        workP jobs (fun k => hep k && in_win t1 x k && negb (k =? j)) + rtct <= wl (a - t1) x) ->
    0 < L -> (forall t1, workP jobs (fun k => hep k && in_win t1 L k) <= wlL) -> B + wlL <= L ->
    (forall A, A < L -> exists AF, 0 < AF /\ B + wl A AF <= AF /\ AF + rem <= A + R) ->
    cost j <= service j (a + R).
  Proof.
    intros rtct rem wl L wlL R H1 H2 H3 H4 H5 H6 H7.
    apply (jlfp_response_time_bound' rtct rem H1 H2 wl H3 L); [|exact H7].
    apply (jlfp_busy_window_bound L wlL H4 H5 H6).
  Qed.
End Jlfp2.
Print Assumptions jlfp_response_time_bound'.
Print Assumptions jlfp_busy_window_bound.
Print Assumptions jlfp_response_time_bound2.
