(* Jlfp3.v — variant of Jlfp2.v (generic busy-window response-time theorem for a job j under a
   job-level fixed-priority policy) in which the priority-inversion bound may depend on the position
   of j in its busy window: with t1 the start of the busy window (last quiet time before the release
   a of j) and A = a - t1, lower-priority jobs run only in the first [Bf A] slots of the window.
   This is what EDF with non-preemptive segments provides: a job that blocks in the busy window was
   released before t1 and has a later absolute deadline than j, so its relative deadline exceeds
   D + A — the fewer tasks qualify the larger A is.

   * [Hblock] (observational, relative to the busy window): if a job that is not hep runs at
     t >= t1 while j is incomplete and throughout [t1, t] some hep job is pending, then
     t < t1 + Bf (a - t1);
   * [window_service3]: in such a window all but Bf (a - t1) slots serve hep jobs released inside;
   * [jlfp_response_time_bound3]: the response-time theorem; the busy-window length bound [HL] is
     a hypothesis (for EDF it is derived from the TOTAL busy window, see EdfSound.v);
   * [total_busy_window_bound]: a - t1 < L for the hep-busy window of j whenever the workload of ALL
     jobs released in any window of length L is at most L (no blocking term). *)
From Coq Require Import List Arith Lia Bool.
From RTA.Spec Require Import Sched.
From RTA.Proofs Require Import Jlfp2.
Import ListNotations.

Section Jlfp3.
  Variable jobs : list job.
  Variable sched : nat -> option nat.
  Notation n := (length jobs).
  Notation arr := (arr jobs).
  Notation cost := (cost jobs).
  Notation service := (service sched).
  Notation pending := (pending jobs sched).

  Hypothesis Hvalid : valid jobs sched.
  Hypothesis Hwc : work_conserving jobs sched.

  Variable j : nat.                      (* the job under analysis *)
  Hypothesis Hj : j < n.
  Hypothesis Hcostj : 0 < cost j.
  Variable hep : nat -> bool.            (* hep k = true: k has higher-or-equal priority than j *)
  Hypothesis hep_j : hep j = true.
  Notation a := (arr j).
  Notation quiet := (quiet jobs sched hep).
  Notation in_win := (in_win jobs).

  (* offset-dependent bounded priority inversion *)
  Variable Bf : nat -> nat.
  Hypothesis Hblock : forall t1 t k, quiet t1 -> t1 <= a -> t1 <= t -> sched t = Some k -> hep k = false ->
      service j t < cost j ->
      (forall u, t1 <= u <= t -> exists k', pending k' u /\ hep k' = true) ->
      t < t1 + Bf (a - t1).

  Lemma window_service3 t1 d : quiet t1 -> t1 <= a ->
    (forall i, i < d -> exists k, pending k (t1 + i) /\ hep k = true) ->
    (forall i, i < d -> service j (t1 + i) < cost j) ->
    d <= svcP jobs sched (fun k => hep k && in_win t1 d k) t1 d + Bf (a - t1).
  Proof.
    intros Hq Ht1 Hhp Hinc.
    set (S := fun k => hep k && in_win t1 d k).
    set (LP := fun k => negb (hep k)).
    set (P := fun k => S k || LP k).
    assert (Hb : forall i, i < d -> busyP sched P (t1 + i)).
    { intros i Hi. destruct (Hhp i Hi) as [k [Hk Hkh]].
      destruct (sched (t1 + i)) as [k'|] eqn:E; [|exfalso; eapply Hwc; eauto].
      exists k'. split; [exact E|]. unfold P, S, LP. destruct (hep k') eqn:Hh'; simpl; [|reflexivity].
      rewrite orb_false_r. unfold Jlfp2.in_win.
      destruct (Hvalid _ _ E) as (_ & Ha' & _).
      assert (t1 <= arr k') by (eapply (hep_old jobs sched Hvalid j Hj Hcostj hep t1 (t1 + i)); [exact Hq|lia|exact E|exact Hh']).
      apply andb_true_iff. split; [apply Nat.leb_le|apply Nat.ltb_lt]; lia. }
    assert (Hs := svcP_busy jobs sched Hvalid P t1 d Hb).
    assert (Hsplit : svcP jobs sched P t1 d = svcP jobs sched S t1 d + svcP jobs sched LP t1 d).
    { unfold svcP. rewrite <- sumn_add. apply sumn_ext. intros k _. unfold P, S, LP.
      destruct (hep k); simpl; [rewrite orb_false_r; destruct (in_win t1 d k); lia|lia]. }
    (* lower-priority service is confined to the first Bf (a - t1) slots *)
    assert (Hlp : svcP jobs sched LP t1 d <= Bf (a - t1)).
    { unfold svcP, svc.
      rewrite (sumn_ext n _ (fun k => sumn d (fun i => if LP k then runs sched k (t1 + i) else 0))).
      2:{ intros k _. destruct (LP k); [reflexivity|]. symmetry. apply sumn_const0; auto. }
      rewrite sumn_exch. apply (sumn_indicator_le jobs j Hj Hcostj).
      - intros i Hi.
        transitivity (sumn n (fun k => runs sched k (t1 + i))).
        + apply sumn_le. intros k _. destruct (LP k); lia.
        + rewrite (runs_total jobs sched Hvalid). destruct (sched (t1 + i)); lia.
      - intros i Hi HBi. apply sumn_const0. intros k Hk. destruct (LP k) eqn:Hlpk; [|reflexivity].
        unfold runs. destruct (sched (t1 + i)) as [k'|] eqn:E; [|reflexivity].
        destruct (Nat.eqb_spec k' k) as [->|]; [|reflexivity]. exfalso.
        unfold LP in Hlpk. apply negb_true_iff in Hlpk.
        assert (Hlt : t1 + i < t1 + Bf (a - t1)).
        { apply (Hblock t1 (t1 + i) k Hq Ht1); [lia|exact E|exact Hlpk|apply Hinc; exact Hi|].
          intros u Hu. replace u with (t1 + (u - t1)) by lia. apply Hhp. lia. }
        lia. }
    fold S. lia.
  Qed.

  Section ResponseTime.
    (* run-to-completion threshold *)
    Variables rtct rem : nat.
    Hypothesis Hrtct_rem : cost j <= rtct + rem.
    Hypothesis Hrtc : forall t, rtct <= service j t -> service j t < cost j -> sched t = Some j.

    (* interference bound: hep jobs other than j released in [t1,t1+x), plus rtct *)
    Variable wl : nat -> nat -> nat.
    Hypothesis Hwl : forall t1 x, t1 <= a ->
        workP jobs (fun k => hep k && in_win t1 x k && negb (k =? j)) + rtct <= wl (a - t1) x.

    Variable L : nat.
    Hypothesis HL : forall t1, quiet t1 -> t1 <= a -> (forall t, t1 < t <= a -> ~ quiet t) -> a - t1 < L.
    Variable R : nat.
    (* for every offset A < L some positive AF solves the offset inequality and R covers it *)
    Hypothesis HR : forall A, A < L -> exists AF, 0 < AF /\ Bf A + wl A AF <= AF /\ AF + rem <= A + R.

    Theorem jlfp_response_time_bound3 : cost j <= service j (a + R).
    Proof.
      destruct (last_quiet jobs sched j Hj Hcostj hep) as [t1 (Ht1 & Hq & Hnq)].
      assert (HA := HL t1 Hq Ht1 Hnq). set (A := a - t1) in *.
      destruct (HR A HA) as [AF (HAF0 & HAF & HRA)].
      assert (Hbusy_pre : forall t, t1 <= t < a -> exists k, pending k t /\ hep k = true).
      { intros t Ht. apply (not_quiet_pending jobs sched j Hj Hcostj). apply Hnq. lia. }
      (* Step A: by t1 + AF the job has reached its run-to-completion threshold (or is complete) *)
      assert (Hthr : rtct <= service j (t1 + AF) \/ cost j <= service j (t1 + AF)).
      { destruct (Nat.le_gt_cases rtct (service j (t1 + AF))) as [|Hlow]; [left; assumption|].
        destruct (Nat.le_gt_cases (cost j) (service j (t1 + AF))) as [|Hinc]; [right; assumption|]. exfalso.
        assert (Hjinc : forall i, i < AF -> service j (t1 + i) < cost j).
        { intros i Hi. assert (service j (t1 + i) <= service j (t1 + AF)) by (apply service_mono; lia). lia. }
        assert (Hjp : forall t, a <= t < t1 + AF -> pending j t).
        { intros t Ht. split; [exact Hj|]. split; [lia|].
          assert (service j t <= service j (t1 + AF)) by (apply service_mono; lia). lia. }
        assert (Hhp : forall i, i < AF -> exists k, pending k (t1 + i) /\ hep k = true).
        { intros i Hi. destruct (Nat.lt_ge_cases (t1 + i) a); [apply Hbusy_pre; lia|].
          exists j. split; [apply Hjp; lia|exact hep_j]. }
        assert (Hws := window_service3 t1 AF Hq Ht1 Hhp Hjinc). fold A in Hws.
        set (S := fun k => hep k && in_win t1 AF k) in *.
        set (S' := fun k => hep k && in_win t1 AF k && negb (k =? j)).
        assert (Hw := Hwl t1 AF Ht1). fold S' in Hw. fold A in Hw.
        assert (HSw : svcP jobs sched S t1 AF <= workP jobs S' + service j (t1 + AF)).
        { unfold svcP, workP.
          transitivity (sumn n (fun k => (if S' k then cost k else 0) + (if k =? j then service j (t1 + AF) else 0))).
          - apply sumn_le. intros k Hk. unfold S', S. destruct (Nat.eqb_spec k j) as [->|Hne].
            + rewrite andb_false_r. simpl. destruct (hep j && in_win t1 AF j); [|lia].
              unfold Sched.service. rewrite svc_split. simpl. lia.
            + rewrite andb_true_r. destruct (hep k && in_win t1 AF k); [|lia].
              assert (H := service_le_cost jobs sched Hvalid k (t1 + AF) Hk). unfold Sched.service in H. rewrite svc_split in H. simpl in H. lia.
          - rewrite sumn_add. apply Nat.add_le_mono_l.
            apply (sumn_single jobs j Hj Hcostj). }
        lia. }
      (* Step B: from the threshold on the job runs to completion within rem slots *)
      assert (Hrun : forall i, cost j <= service j (t1 + AF + i) \/ (rtct <= service j (t1 + AF) /\ service j (t1 + AF) + i <= service j (t1 + AF + i))).
      { induction i as [|i IH].
        - rewrite Nat.add_0_r. destruct Hthr; [right; split; [assumption|lia]|left; assumption].
        - destruct IH as [IH|[Hth IH]].
          + left. assert (service j (t1 + AF + i) <= service j (t1 + AF + S i)) by (apply service_mono; lia). lia.
          + destruct (Nat.le_gt_cases (cost j) (service j (t1 + AF + i))) as [Hc|Hc].
            * left. assert (service j (t1 + AF + i) <= service j (t1 + AF + S i)) by (apply service_mono; lia). lia.
            * right. split; [exact Hth|].
              assert (E : sched (t1 + AF + i) = Some j) by (apply Hrtc; lia).
              replace (t1 + AF + S i) with (S (t1 + AF + i)) by lia. rewrite service_S. unfold runs. rewrite E, Nat.eqb_refl. lia. }
      assert (Hfin : cost j <= service j (t1 + AF + rem)).
      { destruct (Hrun rem) as [|[Hth Hs]]; [assumption|]. lia. }
      apply Nat.le_trans with (service j (t1 + AF + rem)); [exact Hfin|]. apply service_mono. unfold A in HRA. lia.
    Qed.
  End ResponseTime.

  (* ---------------------------------------------------------------------------------------- *)
  (* the hep-busy window of j lies inside the busy window of ALL jobs, which is shorter than any
     L > 0 such that the total workload released in a window of length L is at most L *)
  (* ---------------------------------------------------------------------------------------- *)
  Section TotalBusyWindow.
    Variables L wlL : nat.
    Hypothesis HL0 : 0 < L.
    Hypothesis HwlL : forall t1, workP jobs (in_win t1 L) <= wlL.
    Hypothesis HLfix : wlL <= L.

    Lemma total_busy_window_bound :
      forall t1, quiet t1 -> t1 <= a -> (forall t, t1 < t <= a -> ~ quiet t) -> a - t1 < L.
    Proof.
      intros t1 Hq Ht1 Hnq.
      set (all := fun _ : nat => true).
      destruct (last_quiet jobs sched j Hj Hcostj all) as [t0 (Ht0 & Hq0 & Hnq0)].
      assert (Hlen : a - t0 < L).
      { apply (jlfp_busy_window_bound jobs sched Hvalid Hwc j Hj Hcostj all 0) with (wlL := wlL) (t1 := t0).
        - intros t k k' _ Hk. discriminate Hk.
        - exact HL0.
        - intros t. unfold all. cbn [andb]. apply HwlL.
        - lia.
        - exact Hq0.
        - exact Ht0.
        - exact Hnq0. }
      (* a time that is quiet for all jobs is quiet for the hep jobs *)
      assert (Hq0' : quiet t0).
      { intros k Hk _ Ha. apply Hq0; [exact Hk|reflexivity|exact Ha]. }
      destruct (Nat.le_gt_cases t0 t1) as [|Hgt]; [lia|].
      exfalso. apply (Hnq t0); [lia|exact Hq0'].
    Qed.
  End TotalBusyWindow.
End Jlfp3.
Print Assumptions window_service3.
Print Assumptions jlfp_response_time_bound3.
Print Assumptions total_busy_window_bound.
