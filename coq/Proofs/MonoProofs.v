(* MonoProofs.v — C17: response-time bounds are monotone in workload and supply, and an Ok result
   never changes when the divergence limit is raised.

   Contents
   1. the order [rle] on results, [ple] on curves; [least_fix_mono], [least_fix_limit];
   2. the generic exhaustive evaluator is monotone and stable in the limit ([exhaustive_mono],
      [exhaustive_limit]); instances [exh_fp_mono], [exh_fp_mono_np_wcet], [exh_fifo_mono],
      [exh_edf_mono], [exh_edf_add_task], [exh_fp_limit], [exh_edf_limit], [exh_fifo_limit];
   3. transfer to the models of the analyses through C06: [fp_generic_mono], [fp_generic_limit],
      [fifo_rta_mono], [fifo_rta_limit], [edf_generic_mono], [edf_generic_add_task],
      [edf_generic_limit], and the named instances [fp_fp_mono], [fp_fnp_mono], [fp_np_mono],
      [fp_lp_mono];
   4. ROS 2: [search_with_offset_mono] (monotone in the workload, antitone in the supply),
      [rr_subchain_mono] (round-robin analysis: workload and supply together) with the corollaries
      [rr_subchain_mono_supply], [rr_subchain_mono_demand], [rr_subchain_limit], and
      [rta_event_source_mono] (event-source analysis: demand and supply together) with
      [rta_event_source_limit]; instances [rr_subchain_dedicated_best],
      [rta_event_source_dedicated_best] (any well-formed supply of the crate against a dedicated
      processor).

   Why [rr_subchain] is monotone although [omega] and [sbf S] are not: on a 1-Lipschitz supply a
   successful busy-window search stops where [sbf S = rr_rhs S] ([search_ok_tight]), hence
   [sbf S - 1 + omega = sum of the direct interference at S + cost of (self instances at S) + 1 jobs],
   which is monotone in S, in the workload, and is then mapped through the service-time function. *)
From Coq Require Import List NArith Lia Bool.
From RTA.Model Require Import Base FixedPoint Analyses Ros2.
From RTA.Spec Require Import Exhaustive.
From RTA.Proofs Require Import FixedPointProofs ExhFP ExhCorollaries ExhEDF.

(* "at least as pessimistic": Ok a <= Ok b when a <= b; an Ok result is below any divergence error;
   a divergence error is only below a divergence error; panics are unrelated *)
Definition rle (a b : result) : Prop :=
  match a, b with
  | ROk x, ROk y => x <= y
  | ROk _, RErr _ _ => True
  | RErr _ _, RErr _ _ => True
  | _, _ => False
  end.
Definition ple (f g : N -> N) : Prop := forall x, f x <= g x.      (* pointwise order on curves *)

Lemma ple_refl : forall f, ple f f.
Proof. intros f x. apply N.le_refl. Qed.

Lemma rle_refl : forall r, r <> RPanic -> rle r r.
Proof. intros [x|o l|] H; cbn [rle]; [apply N.le_refl|exact I|congruence]. Qed.

(* ------------------------------------------------------------------------------------------ *)
(* 1. least solutions                                                                          *)
(* ------------------------------------------------------------------------------------------ *)

Theorem least_fix_mono : forall limit f g, ple f g ->
  match least_fix limit f, least_fix limit g with
  | Some x, Some y => x <= y | None, Some _ => False | _, None => True end.
Proof.
  intros limit f g Hfg. destruct (least_fix limit g) as [y|] eqn:Eg.
  - destruct (least_fix_le limit f g y Hfg Eg) as (x & -> & Hxy). exact Hxy.
  - destruct (least_fix limit f); exact I.
Qed.
Print Assumptions least_fix_mono.

Lemma least_fix_limit : forall limit limit' f x, limit <= limit' ->
  least_fix limit f = Some x -> least_fix limit' f = Some x.
Proof.
  intros limit limit' f x Hl H. apply least_fix_spec in H. apply least_fix_spec.
  destruct H as (H1 & H2 & H3 & H4). repeat split; try assumption. lia.
Qed.

(* ------------------------------------------------------------------------------------------ *)
(* 2. the exhaustive evaluators                                                                *)
(* ------------------------------------------------------------------------------------------ *)

Lemma exhaustive_shape : forall limit bw rhs bound,
  (exists R, exhaustive limit bw rhs bound = ROk R) \/ exhaustive limit bw rhs bound = RErr 0 limit.
Proof.
  intros limit bw rhs bound. unfold exhaustive.
  destruct (least_fix limit bw) as [L|]; [|right; reflexivity].
  cbv zeta. destruct (existsb _ _); [right; reflexivity|left; eexists; reflexivity].
Qed.

Lemma exhaustive_ok : forall limit bw rhs bound R,
  exhaustive limit bw rhs bound = ROk R <->
  exists L, least_fix limit bw = Some L /\
            (forall A, A < L -> exists AF, least_fix limit (rhs A) = Some AF) /\
            R = maxN (map (fun A => bound A (oval (least_fix limit (rhs A)))) (rangeN 0 L)).
Proof.
  intros limit bw rhs bound R. unfold exhaustive.
  destruct (least_fix limit bw) as [L|].
  2:{ split; [discriminate|]. intros (L & HL & _). discriminate HL. }
  cbv zeta. rewrite map_map. cbn [fst snd].
  set (sols := map (fun A => (A, least_fix limit (rhs A))) (rangeN 0 L)).
  destruct (existsb (fun p => is_none (snd p)) sols) eqn:EX.
  - split; [discriminate|]. intros (L0 & HL & Hall & _). exfalso. injection HL as <-.
    apply existsb_exists in EX. destruct EX as (p & Hp & Hnone).
    unfold sols in Hp. apply in_map_iff in Hp. destruct Hp as (A & <- & HA).
    apply in_rangeN in HA. cbn [snd] in Hnone.
    destruct (Hall A) as (AF & E); [lia|]. rewrite E in Hnone. discriminate Hnone.
  - split.
    + intros H. injection H as <-. exists L. split; [reflexivity|]. split; [|reflexivity].
      intros A HA. destruct (least_fix limit (rhs A)) as [AF|] eqn:E; [exists AF; reflexivity|].
      exfalso. assert (HT : existsb (fun p => is_none (snd p)) sols = true); [|congruence].
      apply existsb_exists. exists (A, least_fix limit (rhs A)). split.
      * unfold sols. apply (in_map (fun A => (A, least_fix limit (rhs A)))). apply in_rangeN. lia.
      * cbn [snd]. rewrite E. reflexivity.
    + intros (L0 & HL & _ & ->). injection HL as <-. reflexivity.
Qed.

(* the generic evaluator is monotone in the busy-window equation, the offset equations and the bound *)
Lemma exhaustive_mono : forall limit bw bw' rhs rhs' bound bound',
  ple bw bw' -> (forall A, ple (rhs A) (rhs' A)) ->
  (forall A x y, x <= y -> bound A x <= bound' A y) ->
  rle (exhaustive limit bw rhs bound) (exhaustive limit bw' rhs' bound').
Proof.
  intros limit bw bw' rhs rhs' bound bound' Hbw Hrhs Hbound.
  destruct (exhaustive_shape limit bw' rhs' bound') as [(R' & E')|E'].
  2:{ rewrite E'. destruct (exhaustive_shape limit bw rhs bound) as [(R & ->)| ->]; exact I. }
  rewrite E'. apply exhaustive_ok in E'. destruct E' as (L' & HL' & Hall' & ->).
  destruct (least_fix_le limit bw bw' L' Hbw HL') as (L & HL & HLL').
  assert (Hall : forall A, A < L -> exists AF AF', least_fix limit (rhs A) = Some AF /\
                   least_fix limit (rhs' A) = Some AF' /\ AF <= AF').
  { intros A HA. destruct (Hall' A) as (AF' & EA'); [lia|].
    destruct (least_fix_le limit (rhs A) (rhs' A) AF' (Hrhs A) EA') as (AF & EA & Hle).
    exists AF, AF'. repeat split; assumption. }
  assert (E : exhaustive limit bw rhs bound =
              ROk (maxN (map (fun A => bound A (oval (least_fix limit (rhs A)))) (rangeN 0 L)))).
  { apply exhaustive_ok. exists L. split; [exact HL|]. split; [|reflexivity].
    intros A HA. destruct (Hall A HA) as (AF & _ & EA & _). exists AF. exact EA. }
  rewrite E. cbn [rle]. apply maxN_le_maxN. intros x Hx.
  apply in_map_iff in Hx. destruct Hx as (A & <- & HA). apply in_rangeN in HA.
  exists (bound' A (oval (least_fix limit (rhs' A)))). split.
  - apply (in_map (fun A => bound' A (oval (least_fix limit (rhs' A))))). apply in_rangeN. lia.
  - destruct (Hall A) as (AF & AF' & -> & -> & Hle); [lia|]. cbn [oval]. apply Hbound. exact Hle.
Qed.

Lemma exhaustive_limit : forall limit limit' bw rhs bound R, limit <= limit' ->
  exhaustive limit bw rhs bound = ROk R -> exhaustive limit' bw rhs bound = ROk R.
Proof.
  intros limit limit' bw rhs bound R Hl H. apply exhaustive_ok in H.
  destruct H as (L & HL & Hall & ->). apply exhaustive_ok. exists L.
  split; [apply (least_fix_limit limit limit' bw L Hl HL)|]. split.
  - intros A HA. destruct (Hall A HA) as (AF & E). exists AF.
    apply (least_fix_limit limit limit' _ AF Hl E).
  - f_equal. apply map_ext_in. intros A HA. apply in_rangeN in HA.
    destruct (Hall A) as (AF & E); [lia|].
    rewrite E, (least_fix_limit limit limit' _ AF Hl E). reflexivity.
Qed.

(* ---------------- fixed priority ---------------- *)

Theorem exh_fp_mono : forall B B' rem tua tua' hp hp' limit,
  B <= B' -> ple tua tua' -> ple hp hp' -> mono tua -> mono tua' -> mono hp -> mono hp' ->
  rle (exh_fp B rem tua hp limit) (exh_fp B' rem tua' hp' limit).
Proof.
  intros B B' rem tua tua' hp hp' limit HB Ht Hh _ _ _ _. unfold exh_fp.
  apply exhaustive_mono.
  - intros L. pose proof (Ht L). pose proof (Hh L). lia.
  - intros A AF. pose proof (Ht (A + 1)). pose proof (Hh AF). lia.
  - intros A x y Hxy. lia.
Qed.
Print Assumptions exh_fp_mono.

(* a larger WCET of the task under analysis in the non-preemptive analysis also enlarges rem = C - 1 *)
Theorem exh_fp_mono_np_wcet : forall B C C' arr hp limit, 1 <= C -> C <= C' -> mono arr -> mono hp ->
  rle (exh_fp B (C - 1) (fun d => C * arr d) hp limit) (exh_fp B (C' - 1) (fun d => C' * arr d) hp limit).
Proof.
  intros B C C' arr hp limit H1 HC _ _. unfold exh_fp.
  apply exhaustive_mono.
  - intros L. assert (C * arr L <= C' * arr L) by (apply N.mul_le_mono_r; exact HC). lia.
  - intros A AF.
    assert (C * arr (A + 1) - (C - 1) <= C' * arr (A + 1) - (C' - 1)); [|lia].
    destruct (N.eq_dec (arr (A + 1)) 0) as [->|Hne].
    + rewrite !N.mul_0_r. lia.
    + generalize dependent (arr (A + 1)). intros n Hne.
      assert (E : forall c, 1 <= c -> c * n - (c - 1) = c * (n - 1) + 1).
      { intros c Hc. assert (En : n = (n - 1) + 1) by lia. rewrite En at 1.
        rewrite N.mul_add_distr_l, N.mul_1_r. generalize (c * (n - 1)). intros X. lia. }
      rewrite (E C H1), (E C') by lia.
      assert (HX : C * (n - 1) <= C' * (n - 1)) by (apply N.mul_le_mono_r; exact HC).
      revert HX. generalize (C * (n - 1)) (C' * (n - 1)). intros X X' HX. lia.
  - intros A x y Hxy. lia.
Qed.
Print Assumptions exh_fp_mono_np_wcet.

Theorem exh_fp_limit : forall B rem tua hp limit limit' R, limit <= limit' ->
  exh_fp B rem tua hp limit = ROk R -> exh_fp B rem tua hp limit' = ROk R.
Proof. intros B rem tua hp limit limit' R. unfold exh_fp. apply exhaustive_limit. Qed.
Print Assumptions exh_fp_limit.

(* ---------------- FIFO ---------------- *)

Theorem exh_fifo_mono : forall total total' limit, ple total total' -> mono total -> mono total' ->
  rle (exh_fifo total limit) (exh_fifo total' limit).
Proof.
  intros total total' limit Ht _ _. unfold exh_fifo.
  destruct (least_fix limit total') as [L'|] eqn:E'.
  2:{ destruct (least_fix limit total); exact I. }
  destruct (least_fix_le limit total total' L' Ht E') as (L & -> & HLL').
  cbn [rle]. apply maxN_le_maxN. intros x Hx.
  apply in_map_iff in Hx. destruct Hx as (A & <- & HA). apply in_rangeN in HA.
  exists (total' (A + 1) - A). split.
  - apply (in_map (fun A => total' (A + 1) - A)). apply in_rangeN. lia.
  - pose proof (Ht (A + 1)). lia.
Qed.
Print Assumptions exh_fifo_mono.

Theorem exh_fifo_limit : forall total limit limit' R, limit <= limit' ->
  exh_fifo total limit = ROk R -> exh_fifo total limit' = ROk R.
Proof.
  intros total limit limit' R Hl. unfold exh_fifo.
  destruct (least_fix limit total) as [L|] eqn:E; [|discriminate].
  rewrite (least_fix_limit limit limit' total L Hl E). intros H; exact H.
Qed.
Print Assumptions exh_fifo_limit.

(* ---------------- EDF ---------------- *)

(* other tasks compared position-wise (same deadlines; larger RBFs, longer segments) *)
Definition other_le (o o' : (N -> N) * N * N) : Prop :=
  ple (fst (fst o)) (fst (fst o')) /\ snd (fst o) = snd (fst o') /\ snd o <= snd o'.

Lemma sumN_cons : forall x l, sumN (x :: l) = x + sumN l.
Proof. reflexivity. Qed.

Lemma sumN_Forall2 : forall {A B} (R : A -> B -> Prop) (f : A -> N) (g : B -> N) l l',
  Forall2 R l l' -> (forall a b, R a b -> f a <= g b) -> sumN (map f l) <= sumN (map g l').
Proof.
  intros A B R f g l l' H Hfg. induction H as [|a b l l' Hab _ IH]; [apply N.le_refl|].
  cbn [map]. rewrite !sumN_cons. specialize (Hfg a b Hab). lia.
Qed.

Lemma exh_blocking_Forall2 : forall ub D others others' A, Forall2 other_le others others' ->
  exh_edf_blocking ub D others A <= exh_edf_blocking ub D others' A.
Proof.
  intros ub D others others' A H. unfold exh_edf_blocking. destruct ub; [|apply N.le_refl].
  induction H as [|o o' l l' Hoo _ IH]; [apply N.le_refl|].
  destruct Hoo as (Hr & Hd & Hs). cbn [filter]. rewrite <- Hd.
  destruct (N.ltb_spec (D + A) (snd (fst o))) as [Hlt|Hge]; cbn [andb].
  - destruct (N.ltb_spec 0 (fst (fst o) 1)) as [Hp|Hnp].
    + destruct (N.ltb_spec 0 (fst (fst o') 1)) as [Hp'|Hnp'].
      * cbn [map]. rewrite !maxN_cons. lia.
      * pose proof (Hr 1). lia.
    + destruct (0 <? fst (fst o') 1); [|exact IH].
      cbn [map]. rewrite maxN_cons. lia.
  - exact IH.
Qed.

Theorem exh_edf_mono : forall ub rem tua tua' D others others' limit,
  ple tua tua' -> mono tua -> mono tua' -> Forall2 other_le others others' ->
  (forall o, In o others -> mono (fst (fst o))) -> (forall o, In o others' -> mono (fst (fst o))) ->
  rle (exh_edf ub rem tua D others limit) (exh_edf ub rem tua' D others' limit).
Proof.
  intros ub rem tua tua' D others others' limit Ht _ _ HF _ _. unfold exh_edf.
  apply exhaustive_mono.
  - intros L. pose proof (Ht L).
    assert (sumN (map (fun o => fst (fst o) L) others) <= sumN (map (fun o => fst (fst o) L) others')).
    { apply (sumN_Forall2 other_le); [exact HF|]. intros a b (Hab & _). apply Hab. }
    lia.
  - intros A AF. pose proof (Ht (A + 1)).
    pose proof (exh_blocking_Forall2 ub D others others' A HF).
    assert (sumN (map (fun o => fst (fst o) (N.min AF (A + 1 + D - snd (fst o)))) others)
            <= sumN (map (fun o => fst (fst o) (N.min AF (A + 1 + D - snd (fst o)))) others')).
    { apply (sumN_Forall2 other_le); [exact HF|]. intros a b (Hab & Hd & _). rewrite Hd. apply Hab. }
    lia.
  - intros A x y Hxy. lia.
Qed.
Print Assumptions exh_edf_mono.

Theorem exh_edf_add_task : forall ub rem tua D others o limit, mono tua -> mono (fst (fst o)) ->
  (forall o', In o' others -> mono (fst (fst o'))) ->
  rle (exh_edf ub rem tua D others limit) (exh_edf ub rem tua D (o :: others) limit).
Proof.
  intros ub rem tua D others o limit _ _ _. unfold exh_edf.
  apply exhaustive_mono.
  - intros L. cbn [map]. rewrite sumN_cons. lia.
  - intros A AF. cbn [map]. rewrite sumN_cons.
    assert (exh_edf_blocking ub D others A <= exh_edf_blocking ub D (o :: others) A); [|lia].
    unfold exh_edf_blocking. destruct ub; [|apply N.le_refl].
    cbn [filter]. destruct (_ && _); [|apply N.le_refl].
    cbn [map]. rewrite maxN_cons. lia.
  - intros A x y Hxy. lia.
Qed.
Print Assumptions exh_edf_add_task.

Theorem exh_edf_limit : forall ub rem tua D others limit limit' R, limit <= limit' ->
  exh_edf ub rem tua D others limit = ROk R -> exh_edf ub rem tua D others limit' = ROk R.
Proof. intros ub rem tua D others limit limit' R. unfold exh_edf. apply exhaustive_limit. Qed.
Print Assumptions exh_edf_limit.

(* ------------------------------------------------------------------------------------------ *)
(* 3. transfer to the models of the analyses (through C06)                                     *)
(* ------------------------------------------------------------------------------------------ *)

(* two inputs that both satisfy the hypotheses of the exhaustive characterisation *)
Theorem fp_generic_mono : forall dbg B B' rem tua tua' hp hp' steps steps' limit,
  B <= B' -> ple tua tua' -> ple hp hp' ->
  mono tua -> mono hp -> steps_exact tua steps -> 0 < tua 1 -> tua 0 = 0 -> (forall d, tua (d - 1) < tua d -> tua (d - 1) + rem < tua d) ->
  mono tua' -> mono hp' -> steps_exact tua' steps' -> tua' 0 = 0 -> (forall d, tua' (d - 1) < tua' d -> tua' (d - 1) + rem < tua' d) ->
  rle (fp_generic dbg true B rem tua hp steps limit) (fp_generic dbg true B' rem tua' hp' steps' limit).
Proof.
  intros dbg B B' rem tua tua' hp hp' steps steps' limit HB Ht Hh Hm Hmh Hs H1 H0 Hr Hm' Hmh' Hs' H0' Hr'.
  assert (H1' : 0 < tua' 1) by (pose proof (Ht 1); lia).
  rewrite (fp_generic_exhaustive B rem tua hp steps limit Hm Hmh Hs H1 H0 Hr dbg).
  rewrite (fp_generic_exhaustive B' rem tua' hp' steps' limit Hm' Hmh' Hs' H1' H0' Hr' dbg).
  apply exh_fp_mono; assumption.
Qed.
Print Assumptions fp_generic_mono.

Theorem fp_generic_limit : forall dbg B rem tua hp steps limit limit' R, limit <= limit' ->
  mono tua -> mono hp -> steps_exact tua steps -> 0 < tua 1 -> tua 0 = 0 -> (forall d, tua (d - 1) < tua d -> tua (d - 1) + rem < tua d) ->
  fp_generic dbg true B rem tua hp steps limit = ROk R -> fp_generic dbg true B rem tua hp steps limit' = ROk R.
Proof.
  intros dbg B rem tua hp steps limit limit' R Hl Hm Hmh Hs H1 H0 Hr.
  rewrite !(fun l => fp_generic_exhaustive B rem tua hp steps l Hm Hmh Hs H1 H0 Hr dbg).
  apply exh_fp_limit. exact Hl.
Qed.
Print Assumptions fp_generic_limit.

Theorem fifo_rta_mono : forall dbg total total' steps steps' limit,
  ple total total' -> mono total -> mono total' -> steps_exact total steps -> steps_exact total' steps' ->
  0 < total 1 -> total 0 = 0 -> total' 0 = 0 ->
  rle (fifo_rta dbg total steps limit) (fifo_rta dbg total' steps' limit).
Proof.
  intros dbg total total' steps steps' limit Ht Hm Hm' Hs Hs' H1 H0 H0'.
  assert (H1' : 0 < total' 1) by (pose proof (Ht 1); lia).
  rewrite (fifo_exhaustive total steps limit Hm Hs H1 H0 dbg).
  rewrite (fifo_exhaustive total' steps' limit Hm' Hs' H1' H0' dbg).
  apply exh_fifo_mono; assumption.
Qed.
Print Assumptions fifo_rta_mono.

Theorem fifo_rta_limit : forall dbg total steps limit limit' R, limit <= limit' ->
  mono total -> steps_exact total steps -> 0 < total 1 -> total 0 = 0 ->
  fifo_rta dbg total steps limit = ROk R -> fifo_rta dbg total steps limit' = ROk R.
Proof.
  intros dbg total steps limit limit' R Hl Hm Hs H1 H0.
  rewrite !(fun l => fifo_exhaustive total steps l Hm Hs H1 H0 dbg).
  apply exh_fifo_limit. exact Hl.
Qed.
Print Assumptions fifo_rta_limit.

(* EDF: record-level version of [other_le] *)
Definition other_rec_le (o o' : edf_other) : Prop :=
  ple (o_rbf o) (o_rbf o') /\ o_dl o = o_dl o' /\ o_seg o <= o_seg o'.
(* the hypothesis of [edf_generic_exhaustive] on the other tasks *)
Definition others_wf (others : list edf_other) : Prop :=
  forall o, In o others -> mono (o_rbf o) /\ steps_exact (o_rbf o) (o_steps o).

Lemma other_triple_Forall2 : forall others others',
  Forall2 other_rec_le others others' -> Forall2 other_le (map other_triple others) (map other_triple others').
Proof.
  intros others others' H. induction H as [|o o' l l' Hoo _ IH]; [constructor|].
  cbn [map]. constructor; [exact Hoo|exact IH].
Qed.

Lemma other_triple_mono : forall others, others_wf others ->
  forall o, In o (map other_triple others) -> mono (fst (fst o)).
Proof.
  intros others H o Ho. apply in_map_iff in Ho. destruct Ho as (r & <- & Hr).
  exact (proj1 (H r Hr)).
Qed.

Theorem edf_generic_mono : forall dbg ub rem tua tua' steps steps' D others others' limit,
  ple tua tua' -> Forall2 other_rec_le others others' ->
  mono tua -> steps_exact tua steps -> tua 0 = 0 -> 0 < tua 1 ->
  (forall d, tua (d - 1) < tua d -> tua (d - 1) + rem < tua d) -> others_wf others ->
  mono tua' -> steps_exact tua' steps' -> tua' 0 = 0 ->
  (forall d, tua' (d - 1) < tua' d -> tua' (d - 1) + rem < tua' d) -> others_wf others' ->
  rle (edf_generic dbg ub true rem tua steps D others limit)
      (edf_generic dbg ub true rem tua' steps' D others' limit).
Proof.
  intros dbg ub rem tua tua' steps steps' D others others' limit Ht HF Hm Hs H0 H1 Hr Ho Hm' Hs' H0' Hr' Ho'.
  assert (H1' : 0 < tua' 1) by (pose proof (Ht 1); lia).
  rewrite (edf_generic_exhaustive ub rem tua steps D others limit Hm Hs H0 H1 Hr Ho dbg).
  rewrite (edf_generic_exhaustive ub rem tua' steps' D others' limit Hm' Hs' H0' H1' Hr' Ho' dbg).
  apply exh_edf_mono; try assumption.
  - apply other_triple_Forall2. exact HF.
  - apply other_triple_mono. exact Ho.
  - apply other_triple_mono. exact Ho'.
Qed.
Print Assumptions edf_generic_mono.

Theorem edf_generic_add_task : forall dbg ub rem tua steps D others o limit,
  mono tua -> steps_exact tua steps -> tua 0 = 0 -> 0 < tua 1 ->
  (forall d, tua (d - 1) < tua d -> tua (d - 1) + rem < tua d) -> others_wf (o :: others) ->
  rle (edf_generic dbg ub true rem tua steps D others limit)
      (edf_generic dbg ub true rem tua steps D (o :: others) limit).
Proof.
  intros dbg ub rem tua steps D others o limit Hm Hs H0 H1 Hr Ho'.
  assert (Ho : others_wf others) by (intros x Hx; apply Ho'; right; exact Hx).
  rewrite (edf_generic_exhaustive ub rem tua steps D others limit Hm Hs H0 H1 Hr Ho dbg).
  rewrite (edf_generic_exhaustive ub rem tua steps D (o :: others) limit Hm Hs H0 H1 Hr Ho' dbg).
  cbn [map]. apply exh_edf_add_task.
  - exact Hm.
  - exact (proj1 (Ho' o (or_introl eq_refl))).
  - apply other_triple_mono. exact Ho.
Qed.
Print Assumptions edf_generic_add_task.

Theorem edf_generic_limit : forall dbg ub rem tua steps D others limit limit' R, limit <= limit' ->
  mono tua -> steps_exact tua steps -> tua 0 = 0 -> 0 < tua 1 ->
  (forall d, tua (d - 1) < tua d -> tua (d - 1) + rem < tua d) -> others_wf others ->
  edf_generic dbg ub true rem tua steps D others limit = ROk R ->
  edf_generic dbg ub true rem tua steps D others limit' = ROk R.
Proof.
  intros dbg ub rem tua steps D others limit limit' R Hl Hm Hs H0 H1 Hr Ho.
  rewrite !(fun l => edf_generic_exhaustive ub rem tua steps D others l Hm Hs H0 H1 Hr Ho dbg).
  apply exh_edf_limit. exact Hl.
Qed.
Print Assumptions edf_generic_limit.

(* ---------------- the named fixed-priority analyses ---------------- *)

Section NamedMono.
  Variables (tua tua' hp hp' : N -> N) (steps steps' : N -> list N) (limit : N).
  Hypothesis Ht : ple tua tua'.
  Hypothesis Hh : ple hp hp'.
  Hypothesis Hm : mono tua.    Hypothesis Hm' : mono tua'.
  Hypothesis Hmh : mono hp.    Hypothesis Hmh' : mono hp'.
  Hypothesis H0 : tua 0 = 0.   Hypothesis H0' : tua' 0 = 0.
  Hypothesis H1 : 0 < tua 1.
  Hypothesis Hs : steps_exact tua steps.
  Hypothesis Hs' : steps_exact tua' steps'.

  (* fully preemptive: larger RBFs (of the task under analysis and of the interfering tasks) *)
  Theorem fp_fp_mono : forall dbg, rle (fp_fp dbg tua hp steps limit) (fp_fp dbg tua' hp' steps' limit).
  Proof.
    intros dbg. unfold fp_fp. apply fp_generic_mono; try assumption; try apply N.le_refl; intros d H; lia.
  Qed.

  (* floating non-preemptive: larger RBFs and a larger blocking bound *)
  Theorem fp_fnp_mono : forall dbg B B', B <= B' ->
    rle (fp_fnp dbg B tua hp steps limit) (fp_fnp dbg B' tua' hp' steps' limit).
  Proof.
    intros dbg B B' HB. unfold fp_fnp. apply fp_generic_mono; try assumption; intros d H; lia.
  Qed.

  (* fully non-preemptive, [tua]/[tua'] being the arrival curves: larger arrival curve, larger WCET,
     larger blocking bound, larger interference *)
  Theorem fp_np_mono : forall dbg C C' B B', 1 <= C -> C <= C' -> B <= B' ->
    rle (fp_np dbg C B tua hp steps limit) (fp_np dbg C' B' tua' hp' steps' limit).
  Proof.
    intros dbg C C' B B' HC1 HC HB.
    assert (H1' : 0 < tua' 1) by (pose proof (Ht 1); lia).
    rewrite (fp_np_exhaustive tua hp steps limit Hm Hmh H0 H1 Hs dbg C B HC1).
    rewrite (fp_np_exhaustive tua' hp' steps' limit Hm' Hmh' H0' H1' Hs' dbg C' B') by lia.
    (* first the WCET (which also moves rem), then everything else *)
    pose proof (exh_fp_mono_np_wcet B C C' tua hp limit HC1 HC Hm Hmh) as HA.
    assert (HB' : rle (exh_fp B (C' - 1) (fun d => C' * tua d) hp limit)
                      (exh_fp B' (C' - 1) (fun d => C' * tua' d) hp' limit)).
    { apply exh_fp_mono; try assumption.
      - intros x. apply N.mul_le_mono_l. apply Ht.
      - apply scaled_mono. exact Hm.
      - apply scaled_mono. exact Hm'. }
    destruct (exh_fp B (C - 1) _ hp limit) as [a| |], (exh_fp B (C' - 1) (fun d => C' * tua d) hp limit) as [b| |],
             (exh_fp B' (C' - 1) _ hp' limit) as [c| |]; cbn [rle] in *; try tauto. lia.
  Qed.

  (* limited preemptive with the same last segment: larger arrival curve, WCET, blocking, interference *)
  Theorem fp_lp_mono : forall dbg C C' last B B', 1 <= last -> last <= C -> C <= C' -> B <= B' ->
    rle (fp_lp dbg C last B tua hp steps limit) (fp_lp dbg C' last B' tua' hp' steps' limit).
  Proof.
    intros dbg C C' last B B' Hl HC HCC HB.
    assert (H1' : 0 < tua' 1) by (pose proof (Ht 1); lia).
    rewrite (fp_lp_exhaustive tua hp steps limit Hm Hmh H0 H1 Hs dbg C last B Hl HC).
    rewrite (fp_lp_exhaustive tua' hp' steps' limit Hm' Hmh' H0' H1' Hs' dbg C' last B' Hl) by lia.
    apply exh_fp_mono; try assumption.
    - intros x. apply N.mul_le_mono; [exact HCC|apply Ht].
    - apply scaled_mono. exact Hm.
    - apply scaled_mono. exact Hm'.
  Qed.
End NamedMono.
Print Assumptions fp_fp_mono.
Print Assumptions fp_fnp_mono.
Print Assumptions fp_np_mono.
Print Assumptions fp_lp_mono.

(* ------------------------------------------------------------------------------------------ *)
(* 4. ROS 2                                                                                    *)
(* ------------------------------------------------------------------------------------------ *)

(* a successful busy-window search on a 1-Lipschitz supply stops where supply meets demand exactly *)
Lemma search_ok_tight : forall (sbf w : N -> N) lim S,
  sbf 0 = 0 -> (forall t, sbf (t + 1) <= sbf t + 1) -> mono w -> (forall x, 1 <= w x) ->
  swo_spec sbf w 0 lim (ROk S) -> 1 <= S /\ sbf S = w S.
Proof.
  intros sbf w lim S Hsbf0 Hlip Hm Hpos H. cbn [swo_spec] in H.
  destruct H as (_ & _ & Hsol & Hleast). unfold sol in Hsol. rewrite N.add_0_l in Hsol.
  assert (HS : 1 <= S).
  { destruct (N.eq_dec S 0) as [->|Hne]; [|lia].
    rewrite Hsbf0 in Hsol. pose proof (Hpos (N.max 0 1)). lia. }
  rewrite N.max_l in Hsol by exact HS. split; [exact HS|].
  apply N.le_antisymm; [|exact Hsol].
  pose proof (Hlip (S - 1)) as HL. replace (S - 1 + 1) with S in HL by lia.
  destruct (N.eq_dec S 1) as [->|Hne].
  - change (1 - 1) with 0 in HL. rewrite Hsbf0 in HL. pose proof (Hpos 1). lia.
  - assert (Hn : ~ sol sbf w 0 (S - 1)).
    { intros Hs. apply Hleast in Hs. lia. }
    unfold sol in Hn. rewrite N.add_0_l, N.max_l in Hn by lia.
    pose proof (Hm (S - 1) S). lia.
Qed.

(* ---------------- callbacks and workloads ---------------- *)

Definition cb_le (c c' : callback) : Prop :=
  cb_kind c = cb_kind c' /\ cb_R c <= cb_R c' /\ ple (cb_na c) (cb_na c') /\ ple (cb_cost c) (cb_cost c').
Definition cb_mono (c : callback) : Prop := mono (cb_na c) /\ mono (cb_cost c).

Lemma cb_le_refl : forall c, cb_le c c.
Proof. intros c. repeat split; try apply ple_refl. apply N.le_refl. Qed.

Lemma Forall2_refl_in : forall {A} (R : A -> A -> Prop) l, (forall x, In x l -> R x x) -> Forall2 R l l.
Proof.
  intros A R l. induction l as [|x l IH]; intros H; constructor.
  - apply H. left. reflexivity.
  - apply IH. intros y Hy. apply H. right. exact Hy.
Qed.

Lemma Forall2_and_l : forall {A B} (R : A -> B -> Prop) (P : A -> Prop) l l',
  Forall2 R l l' -> (forall x, In x l -> P x) -> Forall2 (fun a b => R a b /\ P a) l l'.
Proof.
  intros A B R P l l' H. induction H as [|a b l l' Hab _ IH]; intros HP; constructor.
  - split; [exact Hab|]. apply HP. left. reflexivity.
  - apply IH. intros y Hy. apply HP. right. exact Hy.
Qed.

Lemma cb_at_rel : forall (R : callback -> callback -> Prop) wl wl' i,
  R (cb_at [] i) (cb_at [] i) -> Forall2 R wl wl' -> R (cb_at wl i) (cb_at wl' i).
Proof.
  intros R wl wl' i Hd H. revert i Hd. induction H as [|a b l l' Hab _ IH]; intros i Hd; [exact Hd|].
  destruct i as [|i]; [exact Hab|]. unfold cb_at in *. cbn [nth]. apply IH.
  destruct i; exact Hd.
Qed.

Lemma cb_at_nil : forall i, cb_at [] i = mkCb 0 (fun _ => 0) (fun _ => []) (fun _ => 0) KTimer.
Proof. intros [|i]; reflexivity. Qed.

Lemma cb_at_rel_le : forall wl wl' i, Forall2 (fun a b => cb_le a b /\ cb_mono a) wl wl' ->
  cb_le (cb_at wl i) (cb_at wl' i) /\ cb_mono (cb_at wl i).
Proof.
  intros wl wl' i H. apply (cb_at_rel (fun a b => cb_le a b /\ cb_mono a)); [|exact H].
  split; [apply cb_le_refl|]. rewrite cb_at_nil. split; intros a b _; apply N.le_refl.
Qed.

Lemma others_rel : forall (R : callback -> callback -> Prop) wl wl' sc,
  Forall2 R wl wl' -> Forall2 R (others wl sc) (others wl' sc).
Proof.
  intros R wl wl' sc H. unfold others, indexed. generalize 0%nat.
  induction H as [|a b l l' Hab _ IH]; intros k; [constructor|].
  cbn [length seq combine filter fst].
  destruct (negb (Nat.eqb k (eoc_idx sc))); cbn [map snd]; [constructor; [exact Hab|]|]; apply IH.
Qed.

Lemma capped_mono : forall k k2 a a' b b', a <= a' -> b <= b' -> capped k k2 a b <= capped k k2 a' b'.
Proof.
  intros k k2 a a' b b' Ha Hb. unfold capped. destruct k as [| | |p]; try lia.
  destruct k2 as [| | |q]; lia.
Qed.

Section RRWorkloads.
  Variables (wl wl' : list callback) (sc : list nat).
  Hypothesis Hwl : Forall2 (fun a b => cb_le a b /\ cb_mono a) wl wl'.

  Lemma max_pp_le : max_pp wl sc <= max_pp wl' sc.
  Proof.
    unfold max_pp. apply sumN_map_le. intros i _.
    destruct (cb_at_rel_le wl wl' i Hwl) as ((_ & HR & Hna & _) & (Hm & _)).
    pose proof (Hm _ _ HR). pose proof (Hna (cb_R (cb_at wl' i))). lia.
  Qed.

  Lemma eoc_le : cb_le (eoc wl sc) (eoc wl' sc) /\ cb_mono (eoc wl sc).
  Proof. unfold eoc. apply cb_at_rel_le. exact Hwl. Qed.

  Lemma rr_direct_le : forall cb cb' d d', cb_le cb cb' -> cb_mono cb -> d <= d' ->
    rr_direct wl sc cb d <= rr_direct wl' sc cb' d'.
  Proof.
    intros cb cb' d d' (Hk & HR & Hna & Hc) (Hmn & Hmc) Hd. unfold rr_direct. cbv zeta.
    destruct eoc_le as ((Hke & _) & _). rewrite <- Hk, <- Hke.
    pose proof max_pp_le as Hpp.
    set (x := cb_na cb (d + cb_R cb - 1)). set (x' := cb_na cb' (d' + cb_R cb' - 1)).
    assert (Hx : x <= x').
    { unfold x, x'. pose proof (Hmn (d + cb_R cb - 1) (d' + cb_R cb' - 1)).
      pose proof (Hna (d' + cb_R cb' - 1)). lia. }
    pose proof (capped_mono (cb_kind cb) (cb_kind (eoc wl sc)) x x' _ _ Hx Hpp) as Hcap.
    pose proof (Hmc _ _ Hcap). pose proof (Hc (capped (cb_kind cb) (cb_kind (eoc wl sc)) x' (max_pp wl' sc))).
    lia.
  Qed.

  Lemma rr_self_le : forall d d', d <= d' -> rr_self_instances wl sc d <= rr_self_instances wl' sc d'.
  Proof.
    intros d d' Hd. unfold rr_self_instances.
    destruct eoc_le as ((_ & HR & Hna & _) & (Hmn & _)).
    pose proof (Hmn (d + cb_R (eoc wl sc) - 1) (d' + cb_R (eoc wl' sc) - 1)).
    pose proof (Hna (d' + cb_R (eoc wl' sc) - 1)). lia.
  Qed.

  Lemma eoc_cost_le : forall n n', n <= n' -> cb_cost (eoc wl sc) n <= cb_cost (eoc wl' sc) n'.
  Proof.
    intros n n' Hn. destruct eoc_le as ((_ & _ & _ & Hc) & (_ & Hmc)).
    pose proof (Hmc n n' Hn). pose proof (Hc n'). lia.
  Qed.

  Lemma rr_others_le : forall d d', d <= d' ->
    sumN (map (fun cb => rr_direct wl sc cb d) (others wl sc))
    <= sumN (map (fun cb => rr_direct wl' sc cb d') (others wl' sc)).
  Proof.
    intros d d' Hd. apply (sumN_Forall2 (fun a b => cb_le a b /\ cb_mono a)).
    - apply others_rel. exact Hwl.
    - intros a b (Hab & Ha). apply rr_direct_le; assumption.
  Qed.

  Lemma rr_rhs_le : forall d d', d <= d' -> rr_rhs wl sc d <= rr_rhs wl' sc d'.
  Proof.
    intros d d' Hd. unfold rr_rhs.
    pose proof (rr_others_le d d' Hd). pose proof (eoc_cost_le _ _ (rr_self_le d d' Hd)). lia.
  Qed.
End RRWorkloads.

Lemma rr_rhs_mono : forall wl sc, (forall cb, In cb wl -> cb_mono cb) -> mono (rr_rhs wl sc).
Proof.
  intros wl sc H a b Hab. apply rr_rhs_le; [|exact Hab].
  apply Forall2_refl_in. intros x Hx. split; [apply cb_le_refl|apply H; exact Hx].
Qed.

Lemma rr_rhs_pos : forall wl sc x, 1 <= rr_rhs wl sc x.
Proof. intros wl sc x. unfold rr_rhs. lia. Qed.

(* the last step of a curve at or before a point where it is positive *)
Lemma step_before : forall f, mono f -> f 0 = 0 ->
  forall A, 0 < f (A + 1) -> exists A', A' <= A /\ f A' < f (A' + 1) /\ f (A' + 1) = f (A + 1).
Proof.
  intros f Hm H0 A. induction A as [|A IH] using N.peano_ind; intros Hpos.
  - exists 0. split; [lia|]. split; [|reflexivity]. change (0 + 1) with 1 in *. lia.
  - destruct (N.lt_ge_cases (f (N.succ A)) (f (N.succ A + 1))) as [Hlt|Hge].
    + exists (N.succ A). split; [lia|]. split; [exact Hlt|reflexivity].
    + pose proof (Hm (N.succ A) (N.succ A + 1)) as Hle.
      assert (E : f (N.succ A + 1) = f (A + 1)) by (replace (A + 1) with (N.succ A) by lia; lia).
      destruct IH as (A' & H1 & H2 & H3); [lia|].
      exists A'. split; [lia|]. split; [exact H2|]. rewrite H3, E. reflexivity.
Qed.

(* ---------------- the event-source analysis (ecrts19, Lemma 1), one supply ---------------- *)

Section EventSource.
  Variables (sbf st : N -> N).
  Hypothesis Hinv : forall d t, st d <= t <-> d <= sbf t.
  Hypothesis Hsbf0 : sbf 0 = 0.
  Hypothesis Hlip : forall t, sbf (t + 1) <= sbf t + 1.
  Variables (demand : N -> N) (steps : N -> list N).
  Hypothesis Hm : mono demand.
  Hypothesis Hs : steps_exact demand steps.

  (* the search for one offset, and the offsets considered for a busy window of length M *)
  Definition es_off (limit A : N) : result := search_with_offset st A limit (fun _ => demand (A + 1)).
  Definition es_offs (M : N) : list N := map (fun d => d - 1) (steps (M + 1)).

  Lemma es_unfold : forall dbg limit,
    rta_event_source dbg sbf st limit demand steps =
    rbind (search_with_offset st 0 limit demand) (fun M => max_response_time (map (es_off limit) (es_offs M))).
  Proof.
    intros dbg limit. unfold rta_event_source, bound_response_time.
    rewrite (search_dbg_irrelevant sbf st Hinv Hsbf0 Hlip demand Hm dbg limit).
    destruct (search_with_offset st 0 limit demand) as [M|o l|]; cbn [rbind]; try reflexivity.
    cbv zeta. rewrite filter_pos_id by (intros d Hd; apply Hs in Hd; lia). reflexivity.
  Qed.

  Lemma es_offs_in : forall M A, In A (es_offs M) <-> A <= M /\ demand A < demand (A + 1).
  Proof.
    intros M A. unfold es_offs. rewrite in_map_iff. split.
    - intros (d & <- & Hd). apply Hs in Hd. destruct Hd as (H1 & H2 & H3).
      replace (d - 1 + 1) with d by lia. split; [lia|exact H3].
    - intros (H1 & H2). exists (A + 1). split; [lia|]. apply Hs.
      replace (A + 1 - 1) with A by lia. split; [lia|]. split; [lia|exact H2].
  Qed.

  (* every offset up to the busy-window length lies before the service time of its own demand *)
  Lemma es_off_in_bw : forall limit M A, search_with_offset st 0 limit demand = ROk M ->
    A <= M -> A <= st (demand (A + 1)).
  Proof.
    clear Hsbf0 Hlip Hs.
    intros limit M A E HA.
    pose proof (swo_spec_holds sbf st Hinv demand Hm 0 (N.le_0_l _) limit) as HS.
    rewrite E in HS. cbn [swo_spec] in HS. destruct HS as (_ & _ & _ & Hleast).
    destruct (N.eq_dec A 0) as [->|HA0]; [apply N.le_0_l|].
    destruct (N.le_gt_cases A (st (demand (A + 1)))) as [Hle|Hgt]; [exact Hle|exfalso].
    assert (Hst : st (demand (A + 1)) <= A - 1) by lia.
    apply Hinv in Hst.
    assert (Hsol : sol sbf demand 0 (A - 1)).
    { unfold sol. rewrite N.add_0_l. pose proof (Hm (N.max (A - 1) 1) (A + 1)). lia. }
    apply Hleast in Hsol. lia.
  Qed.

  Lemma es_off_spec : forall limit limit2 M A, search_with_offset st 0 limit demand = ROk M ->
    A <= M -> swo_spec sbf (fun _ => demand (A + 1)) A limit2 (es_off limit2 A).
  Proof.
    intros limit limit2 M A E HA. unfold es_off. apply (swo_spec_holds sbf st Hinv).
    - intros a b _. apply N.le_refl.
    - apply (es_off_in_bw limit M A E HA).
  Qed.

  Lemma es_no_panic : forall limit limit2 M, search_with_offset st 0 limit demand = ROk M ->
    existsb is_panic (map (es_off limit2) (es_offs M)) = false.
  Proof.
    intros limit limit2 M E. destruct (existsb _ _) eqn:EX; [exfalso|reflexivity].
    apply existsb_exists in EX. destruct EX as (r & Hr & Hp).
    apply in_map_iff in Hr. destruct Hr as (A & <- & HA). apply es_offs_in in HA.
    pose proof (es_off_spec limit limit2 M A E (proj1 HA)) as HS.
    destruct (es_off limit2 A); try discriminate Hp. exact HS.
  Qed.

  Lemma es_shape : forall dbg limit,
    (exists R, rta_event_source dbg sbf st limit demand steps = ROk R) \/
    (exists o l, rta_event_source dbg sbf st limit demand steps = RErr o l).
  Proof.
    intros dbg limit. rewrite es_unfold.
    pose proof (swo_spec_holds sbf st Hinv demand Hm 0 (N.le_0_l _) limit) as HS.
    destruct (search_with_offset st 0 limit demand) as [M|o l|] eqn:E; cbn [rbind].
    - rewrite (mrt_spec _ (es_no_panic limit limit M E)).
      destruct (find is_err _) as [e|] eqn:EF.
      + apply find_some in EF. destruct EF as (_ & He).
        destruct e as [x|o l|]; try discriminate He. right. exists o, l. reflexivity.
      + left. eexists. reflexivity.
    - right. exists o, l. reflexivity.
    - destruct HS.
  Qed.

  Lemma es_ok_elim : forall dbg limit R, rta_event_source dbg sbf st limit demand steps = ROk R ->
    exists M, search_with_offset st 0 limit demand = ROk M /\
      forall A, A <= M -> demand A < demand (A + 1) -> exists b, es_off limit A = ROk b /\ b <= R.
  Proof.
    intros dbg limit R. rewrite es_unfold.
    destruct (search_with_offset st 0 limit demand) as [M|o l|] eqn:E; cbn [rbind]; try discriminate.
    rewrite (mrt_spec _ (es_no_panic limit limit M E)).
    destruct (find is_err _) as [e|] eqn:EF.
    - apply find_some in EF. destruct EF as (_ & He). intros ->. discriminate He.
    - intros H. injection H as <-. exists M. split; [reflexivity|]. intros A HA Hstep.
      assert (Hin : In (es_off limit A) (map (es_off limit) (es_offs M))).
      { apply in_map. apply es_offs_in. split; assumption. }
      pose proof (find_none _ _ EF _ Hin) as Hne.
      pose proof (es_off_spec limit limit M A E HA) as HS.
      destruct (es_off limit A) as [b|o l|] eqn:EA; [|discriminate Hne|destruct HS].
      exists b. split; [reflexivity|]. apply maxN_ub.
      change b with (val_of (ROk b)). apply in_map. exact Hin.
  Qed.

  Lemma es_ok_intro : forall dbg limit M R0, search_with_offset st 0 limit demand = ROk M ->
    (forall A, A <= M -> demand A < demand (A + 1) -> exists b, es_off limit A = ROk b /\ b <= R0) ->
    exists R, rta_event_source dbg sbf st limit demand steps = ROk R /\ R <= R0.
  Proof.
    intros dbg limit M R0 E Hall. rewrite es_unfold, E. cbn [rbind].
    rewrite (mrt_spec _ (es_no_panic limit limit M E)).
    destruct (find is_err _) as [e|] eqn:EF.
    - exfalso. apply find_some in EF. destruct EF as (Hin & He).
      apply in_map_iff in Hin. destruct Hin as (A & <- & HA). apply es_offs_in in HA.
      destruct (Hall A (proj1 HA) (proj2 HA)) as (b & Eb & _). rewrite Eb in He. discriminate He.
    - eexists. split; [reflexivity|]. apply maxN_le. intros x Hx.
      apply in_map_iff in Hx. destruct Hx as (r & <- & Hr).
      apply in_map_iff in Hr. destruct Hr as (A & <- & HA). apply es_offs_in in HA.
      destruct (Hall A (proj1 HA) (proj2 HA)) as (b & -> & Hb). exact Hb.
  Qed.

  (* raising the limit never changes an Ok result *)
  Theorem rta_event_source_limit : forall dbg limit limit' R, limit <= limit' ->
    rta_event_source dbg sbf st limit demand steps = ROk R ->
    rta_event_source dbg sbf st limit' demand steps = ROk R.
  Proof.
    intros dbg limit limit' R Hl H. pose proof (es_ok_elim dbg limit R H) as (M & E & Hall).
    pose proof (swo_limit_mono sbf st Hinv demand Hm 0 limit (N.le_0_l _) M limit' Hl E) as E'.
    rewrite es_unfold, E in H. rewrite es_unfold, E'. cbn [rbind] in *. rewrite <- H. f_equal.
    apply map_ext_in. intros A HA. apply es_offs_in in HA. destruct HA as (HA & Hstep).
    destruct (Hall A HA Hstep) as (b & Eb & _). rewrite Eb. unfold es_off in *.
    apply (swo_limit_mono sbf st Hinv (fun _ => demand (A + 1))) with (limit := limit); try assumption.
    - intros x y _. apply N.le_refl.
    - apply (es_off_in_bw limit M A E HA).
  Qed.
End EventSource.
Print Assumptions rta_event_source_limit.

(* a supply that provides less service in every window: smaller sbf, larger service time *)
Section RosMono.
  Variables (sbf st sbf' st' : N -> N).
  Hypothesis Hinv : forall d t, st d <= t <-> d <= sbf t.
  Hypothesis Hinv' : forall d t, st' d <= t <-> d <= sbf' t.
  Hypothesis Hless : ple sbf' sbf.
  Hypothesis Hsbf0 : sbf 0 = 0.  Hypothesis Hsbf0' : sbf' 0 = 0.
  Hypothesis Hlip : forall t, sbf (t + 1) <= sbf t + 1.  Hypothesis Hlip' : forall t, sbf' (t + 1) <= sbf' t + 1.

  Lemma st_le_st' : forall d d', d <= d' -> st d <= st' d'.
  Proof.
    clear Hsbf0 Hsbf0' Hlip Hlip'.
    intros d d' Hd. apply Hinv. pose proof (st_sbf sbf' st' Hinv' d'). pose proof (Hless (st' d')). lia.
  Qed.

  Lemma sbf_mono_of_inv : forall a b, a <= b -> sbf a <= sbf b.
  Proof.
    clear Hinv' Hless Hsbf0 Hsbf0' Hlip Hlip'.
    intros a b Hab. apply Hinv. transitivity a; [|exact Hab]. apply Hinv. apply N.le_refl.
  Qed.

  Lemma sol_transfer : forall off w w' s, ple w w' -> sol sbf' w' off s -> sol sbf w off s.
  Proof.
    clear Hinv Hinv' Hsbf0 Hsbf0' Hlip Hlip'.
    intros off w w' s Hw H. unfold sol in *.
    pose proof (Hw (N.max s 1)). pose proof (Hless (off + s)). lia.
  Qed.

  (* search_with_offset is monotone in the workload and antitone in the supply *)
  Theorem search_with_offset_mono : forall off limit w w', ple w w' -> mono w -> mono w' ->
    off <= st (w 1) -> off <= st' (w' 1) ->
    rle (search_with_offset st off limit w) (search_with_offset st' off limit w').
  Proof.
    clear Hsbf0 Hsbf0' Hlip Hlip'.
    intros off limit w w' Hw Hm Hm' Hoff Hoff'.
    pose proof (swo_spec_holds sbf st Hinv w Hm off Hoff limit) as H1.
    pose proof (swo_spec_holds sbf' st' Hinv' w' Hm' off Hoff' limit) as H2.
    destruct (search_with_offset st off limit w) as [b|o l|];
      destruct (search_with_offset st' off limit w') as [b'|o' l'|]; cbn [swo_spec rle] in *; try tauto.
    - destruct H1 as (_ & _ & _ & Hleast). destruct H2 as (_ & _ & Hs' & _).
      apply Hleast. apply (sol_transfer off w w' b' Hw Hs').
    - destruct H1 as (_ & _ & Hnone). destruct H2 as (Hl1 & Hbl & Hs' & _).
      specialize (Hnone b' (sol_transfer off w w' b' Hw Hs')). lia.
  Qed.

  (* the round-robin analysis is monotone in the workload (every callback, including the one under
     analysis: larger assumed response-time bounds, arrival curves and cost functions) and antitone
     in the supply *)
  Theorem rr_subchain_mono : forall dbg wl wl' sc limit,
    Forall2 cb_le wl wl' ->
    (forall cb, In cb wl -> cb_mono cb) -> (forall cb, In cb wl' -> cb_mono cb) ->
    rle (rr_subchain dbg sbf st wl sc limit) (rr_subchain dbg sbf' st' wl' sc limit).
  Proof.
    intros dbg wl wl' sc limit HF Hwm Hwm'.
    pose proof (Forall2_and_l cb_le cb_mono wl wl' HF Hwm) as HF2.
    pose proof (rr_rhs_mono wl sc Hwm) as Hm. pose proof (rr_rhs_mono wl' sc Hwm') as Hm'.
    assert (Hw : ple (rr_rhs wl sc) (rr_rhs wl' sc)).
    { intros x. apply (rr_rhs_le wl wl' sc HF2). apply N.le_refl. }
    unfold rr_subchain.
    rewrite (search_dbg_irrelevant sbf st Hinv Hsbf0 Hlip (rr_rhs wl sc) Hm dbg limit).
    rewrite (search_dbg_irrelevant sbf' st' Hinv' Hsbf0' Hlip' (rr_rhs wl' sc) Hm' dbg limit).
    pose proof (search_with_offset_mono 0 limit _ _ Hw Hm Hm' (N.le_0_l _) (N.le_0_l _)) as HM.
    pose proof (swo_spec_holds sbf st Hinv _ Hm 0 (N.le_0_l _) limit) as H1.
    pose proof (swo_spec_holds sbf' st' Hinv' _ Hm' 0 (N.le_0_l _) limit) as H2.
    (* the cost function of the callback under analysis is monotone: no underflow *)
    assert (Hnp : forall n, (cb_cost (eoc wl sc) (n + 1) <? cb_cost (eoc wl sc) n) = false).
    { intros n. apply N.ltb_ge. destruct (eoc_le wl wl' sc HF2) as (_ & (_ & Hmc)). apply Hmc. lia. }
    assert (Hnp' : forall n, (cb_cost (eoc wl' sc) (n + 1) <? cb_cost (eoc wl' sc) n) = false).
    { intros n. apply N.ltb_ge.
      assert (HF3 : Forall2 (fun a b => cb_le a b /\ cb_mono a) wl' wl').
      { apply Forall2_refl_in. intros x Hx. split; [apply cb_le_refl|apply Hwm'; exact Hx]. }
      destruct (eoc_le wl' wl' sc HF3) as (_ & (_ & Hmc)). apply Hmc. lia. }
    destruct (search_with_offset st 0 limit (rr_rhs wl sc)) as [S|o l|];
      destruct (search_with_offset st' 0 limit (rr_rhs wl' sc)) as [S'|o' l'|];
      cbn [rbind]; cbv zeta; rewrite ?Hnp, ?Hnp'; cbn [rle] in *; try tauto.
    destruct (search_ok_tight sbf _ limit S Hsbf0 Hlip Hm (rr_rhs_pos wl sc) H1) as (HS1 & ->).
    destruct (search_ok_tight sbf' _ limit S' Hsbf0' Hlip' Hm' (rr_rhs_pos wl' sc) H2) as (HS1' & ->).
    apply st_le_st'. unfold rr_rhs.
    pose proof (rr_others_le wl wl' sc HF2 S S' HM) as Ho.
    pose proof (rr_self_le wl wl' sc HF2 S S' HM) as Hn.
    set (n := rr_self_instances wl sc S) in *. set (n' := rr_self_instances wl' sc S') in *.
    assert (Hc1 : cb_cost (eoc wl sc) (n + 1) <= cb_cost (eoc wl' sc) (n' + 1)).
    { apply (eoc_cost_le wl wl' sc HF2). lia. }
    specialize (Hnp n). specialize (Hnp' n'). apply N.ltb_ge in Hnp, Hnp'. lia.
  Qed.

  Theorem rr_subchain_mono_supply : forall dbg wl sc limit,
    (forall cb, In cb wl -> mono (cb_na cb) /\ mono (cb_cost cb)) ->
    rle (rr_subchain dbg sbf st wl sc limit) (rr_subchain dbg sbf' st' wl sc limit).
  Proof.
    intros dbg wl sc limit H. apply rr_subchain_mono; try exact H.
    apply Forall2_refl_in. intros x _. apply cb_le_refl.
  Qed.
  (* the event-source analysis is monotone in the demand and antitone in the supply *)
  Theorem rta_event_source_mono : forall dbg demand demand' steps steps' limit,
    ple demand demand' -> mono demand -> mono demand' ->
    steps_exact demand steps -> steps_exact demand' steps' -> demand' 0 = 0 ->
    rle (rta_event_source dbg sbf st limit demand steps) (rta_event_source dbg sbf' st' limit demand' steps').
  Proof.
    intros dbg demand demand' steps steps' limit Hd Hm Hm' Hs Hs' Hd0.
    destruct (es_shape sbf' st' Hinv' Hsbf0' Hlip' demand' steps' Hm' Hs' dbg limit) as [(R' & E')|(o' & l' & E')].
    2:{ rewrite E'.
        destruct (es_shape sbf st Hinv Hsbf0 Hlip demand steps Hm Hs dbg limit) as [(R & ->)|(o & l & ->)]; exact I. }
    rewrite E'.
    destruct (es_ok_elim sbf' st' Hinv' Hsbf0' Hlip' demand' steps' Hm' Hs' dbg limit R' E') as (M' & EM' & Hall').
    (* the busy window of the easier system is shorter *)
    pose proof (search_with_offset_mono 0 limit demand demand' Hd Hm Hm' (N.le_0_l _) (N.le_0_l _)) as HM.
    rewrite EM' in HM.
    destruct (search_with_offset st 0 limit demand) as [M|o l|] eqn:EM; cbn [rle] in HM; try tauto.
    destruct (es_ok_intro sbf st Hinv Hsbf0 Hlip demand steps Hm Hs dbg limit M R' EM) as (R & -> & HR);
      [|exact HR].
    intros A HA Hstep.
    (* the step of demand' at or before A *)
    assert (Hpos : 0 < demand' (A + 1)) by (pose proof (Hd (A + 1)); lia).
    destruct (step_before demand' Hm' Hd0 A Hpos) as (A' & HA' & Hstep' & Heq).
    destruct (Hall' A') as (b' & Eb' & Hb'); [lia|exact Hstep'|].
    assert (HA'M : A' <= M') by lia.
    pose proof (es_off_spec sbf' st' Hinv' demand' Hm' limit limit M' A' EM' HA'M) as HS'.
    rewrite Eb' in HS'. cbn [swo_spec] in HS'. destruct HS' as (Hl1 & Hbl' & Hsol' & _).
    assert (Hsol : sol sbf (fun _ => demand (A + 1)) A b').
    { unfold sol in *. rewrite Heq in Hsol'.
      pose proof (Hd (A + 1)). pose proof (Hless (A' + b')).
      pose proof (sbf_mono_of_inv (A' + b') (A + b')). lia. }
    pose proof (es_off_spec sbf st Hinv demand Hm limit limit M A EM HA) as HS.
    destruct (es_off st demand limit A) as [b|o l|]; cbn [swo_spec] in HS.
    - exists b. split; [reflexivity|]. destruct HS as (_ & _ & _ & Hleast).
      specialize (Hleast b' Hsol). lia.
    - destruct HS as (_ & _ & Hnone). specialize (Hnone b' Hsol). lia.
    - destruct HS.
  Qed.
End RosMono.
Print Assumptions search_with_offset_mono.
Print Assumptions rr_subchain_mono.
Print Assumptions rr_subchain_mono_supply.
Print Assumptions rta_event_source_mono.

(* round robin, fixed supply: monotone in the workload *)
Theorem rr_subchain_mono_demand : forall dbg (sbf st : N -> N) wl wl' sc limit,
  (forall d t, st d <= t <-> d <= sbf t) -> sbf 0 = 0 -> (forall t, sbf (t + 1) <= sbf t + 1) ->
  Forall2 cb_le wl wl' ->
  (forall cb, In cb wl -> cb_mono cb) -> (forall cb, In cb wl' -> cb_mono cb) ->
  rle (rr_subchain dbg sbf st wl sc limit) (rr_subchain dbg sbf st wl' sc limit).
Proof.
  intros dbg sbf st wl wl' sc limit Hinv H0 Hlip. apply rr_subchain_mono; try assumption. apply ple_refl.
Qed.
Print Assumptions rr_subchain_mono_demand.

(* round robin: raising the limit never changes an Ok result *)
Theorem rr_subchain_limit : forall dbg (sbf st : N -> N) wl sc limit limit' R,
  (forall d t, st d <= t <-> d <= sbf t) -> sbf 0 = 0 -> (forall t, sbf (t + 1) <= sbf t + 1) ->
  (forall cb, In cb wl -> cb_mono cb) -> limit <= limit' ->
  rr_subchain dbg sbf st wl sc limit = ROk R -> rr_subchain dbg sbf st wl sc limit' = ROk R.
Proof.
  intros dbg sbf st wl sc limit limit' R Hinv H0 Hlip Hwm Hl.
  pose proof (rr_rhs_mono wl sc Hwm) as Hm. unfold rr_subchain.
  rewrite !(search_dbg_irrelevant sbf st Hinv H0 Hlip (rr_rhs wl sc) Hm dbg).
  destruct (search_with_offset st 0 limit (rr_rhs wl sc)) as [S|o l|] eqn:E; cbn [rbind]; try discriminate.
  rewrite (swo_limit_mono sbf st Hinv _ Hm 0 limit (N.le_0_l _) S limit' Hl E). cbn [rbind].
  intros H; exact H.
Qed.
Print Assumptions rr_subchain_limit.

(* ---------------- instances: every well-formed supply is worse than a dedicated processor ---------------- *)
(* (these also show that the hypotheses of Section RosMono are satisfiable by the supplies of the crate) *)
From RTA.Model Require Supply.
From RTA.Proofs Require SupplyProofs.

Theorem rr_subchain_dedicated_best : forall dbg sb wl sc limit, SupplyProofs.wf_sb sb ->
  (forall cb, In cb wl -> mono (cb_na cb) /\ mono (cb_cost cb)) ->
  rle (rr_subchain dbg (fun d => d) (fun d => d) wl sc limit)
      (rr_subchain dbg (Supply.sbf sb) (Supply.st sb) wl sc limit).
Proof.
  intros dbg sb wl sc limit Hwf Hwl.
  destruct (SupplyProofs.sbf_wf_ok sb Hwf) as (H0 & Hmono & Hlip).
  assert (Hbelow : ple (Supply.sbf sb) (fun d => d)).
  { intros t. apply SupplyProofs.sp_below_id. repeat split; assumption. }
  apply (rr_subchain_mono_supply (fun d => d) (fun d => d) (Supply.sbf sb) (Supply.st sb)
           (fun d t => iff_refl _) (SupplyProofs.st_wf_exact sb Hwf) Hbelow eq_refl H0
           (fun t => N.le_refl _) Hlip).
  exact Hwl.
Qed.
Print Assumptions rr_subchain_dedicated_best.

Theorem rta_event_source_dedicated_best : forall dbg sb demand steps limit, SupplyProofs.wf_sb sb ->
  mono demand -> steps_exact demand steps -> demand 0 = 0 ->
  rle (rta_event_source dbg (fun d => d) (fun d => d) limit demand steps)
      (rta_event_source dbg (Supply.sbf sb) (Supply.st sb) limit demand steps).
Proof.
  intros dbg sb demand steps limit Hwf Hm Hs Hd0.
  destruct (SupplyProofs.sbf_wf_ok sb Hwf) as (H0 & Hmono & Hlip).
  assert (Hbelow : ple (Supply.sbf sb) (fun d => d)).
  { intros t. apply SupplyProofs.sp_below_id. repeat split; assumption. }
  apply (rta_event_source_mono (fun d => d) (fun d => d) (Supply.sbf sb) (Supply.st sb)
           (fun d t => iff_refl _) (SupplyProofs.st_wf_exact sb Hwf) Hbelow eq_refl H0
           (fun t => N.le_refl _) Hlip); try assumption.
  apply ple_refl.
Qed.
Print Assumptions rta_event_source_dedicated_best.
