(* MonoRos.v — C17 for the remaining ROS 2 analyses of Model/Ros2.v: rta_timer, rta_pp
   (rta_polling_point_callback), rta_chain (rta_processing_chain) and bw_subchain.
   "Harder" is the order of Proofs/MonoProofs.v: [rle] on results, [ple] on curves, [cb_le] on callbacks,
   a supply with [ple sbf' sbf].

   Results
   * [timer_mono] (also: a larger blocking bound), [pp_mono], [chain_mono]: monotone in the own demand,
     the interfering demand and the blocking bound, antitone in the supply, for own demands whose
     least-WCET function [lw] is constant on non-empty intervals (scalar cost models and aggregates of
     them; c, c' below are these constants).  The order on the own demand that makes the theorem true:
       ple own own',  c <= c',
       own x + (c' - c) <= own' x wherever 0 < own x  (a larger least WCET is paid for by every job), and
       every step of own is at least c high.
     Instances for own = C * arrivals: [timer_mono_scalar], [pp_mono_scalar] (larger WCET, larger arrival
     curve = more jitter / shorter period, larger or added interference, larger blocking, smaller supply)
     and, on the entry points of Model/Eval.v, [e_timer_mono_scalar], [e_pp_mono_scalar].
   * [timer_limit], [pp_limit], [chain_limit]: raising the divergence limit never changes an Ok result
     (under the hypothesis of C07: the interference interval is monotone in the response time).
   * [chain_mono] needs the extra hypothesis that every step of the full chain's demand is a step of the
     last callback's demand (true when all callbacks of the chain share one arrival curve).
     [chain_mono_refuted] shows that it cannot be dropped: shortening the period of the PREFIX callback
     from 10 to 9 turns Ok 14 into Ok 10.
   * [pp_mono_refuted], [timer_mono_refuted], [chain_mono_multiframe_refuted]: with a NON-SCALAR cost model
     of the own demand the three analyses are not monotone in the WCETs — raising the WCET of one frame of a
     multiframe model ([2;1;1] -> [2;2;1]) raises least_wcet_in_interval, shortens the interference interval
     and turns Ok 6 into Ok 5.  This is the class excluded by the third line of the order above.
   * [bw_subchain_mono], [bw_subchain_limit] (through the exhaustive characterisation of C07, hence under
     its hypotheses [bw_wf]).
   For scalar cost models no counterexample exists (theorems above); the two worries of the task (a step
   offset crossing the end of the busy window; the own WCET subtracted inside the interference interval)
   are exactly the two cases of [ecrts_core] below.

   Why the three ECRTS'19 analyses are monotone although they only look at the step offsets of the own
   demand and although the own WCET is subtracted inside the interference interval: see [ecrts_core].
   Given a step offset A of the easier system inside its busy window, take the last step offset A' <= A
   of the harder system (same number of own jobs or more).  If the job analysed at A' starts (finish time
   minus its WCET) at or after A, the same start time is feasible for the job analysed at A in the easier
   system (the larger WCET is absorbed by the 1-Lipschitz supply and by the additional own demand), hence
   its response time is not larger.  If it starts before A, then at the start time g the supply has caught
   up with everything released before g except the job itself, which contradicts the fact that g lies
   strictly inside the busy window of the easier system. *)
From Coq Require Import List NArith Lia Bool.
From RTA.Model Require Import Base FixedPoint Ros2.
From RTA.Spec Require Import Exhaustive ExhaustiveRos.
From RTA.Proofs Require Import FixedPointProofs SupplyProofs ExhFP ExhCorollaries ExhEDF ExhRos MonoProofs.

(* ------------------------------------------------------------------------------------------ *)
(* 0. helpers                                                                                  *)
(* ------------------------------------------------------------------------------------------ *)

Lemma mr_maxN_in : forall l x, In x l -> x <= maxN l.
Proof.
  induction l as [|y l IH]; intros x H; [destruct H|].
  cbn [maxN fold_right]. fold (maxN l). destruct H as [->|H]; [lia|]. specialize (IH x H). lia.
Qed.

Lemma mr_maxN_le : forall l b, (forall x, In x l -> x <= b) -> maxN l <= b.
Proof.
  induction l as [|y l IH]; intros b H; [cbn; lia|].
  cbn [maxN fold_right]. fold (maxN l).
  assert (y <= b) by (apply H; left; reflexivity).
  assert (maxN l <= b) by (apply IH; intros x Hx; apply H; right; exact Hx). lia.
Qed.

(* a solution within the limit yields a least solution *)
Lemma least_sol_exists_le : forall sbf limit off w r2, 1 <= limit -> r2 <= limit -> sol sbf w off r2 ->
  exists r, least_sol sbf limit off w = Some r /\ r <= r2.
Proof.
  intros sbf limit off w r2 Hl Hr Hs. destruct (least_sol sbf limit off w) as [r|] eqn:E.
  - exists r. split; [reflexivity|]. apply least_sol_some in E. destruct E as (_ & _ & _ & Hmin).
    destruct (N.le_gt_cases r r2) as [H|H]; [exact H|]. exfalso. exact (Hmin r2 H Hs).
  - exfalso. apply least_sol_none in E. destruct E as [E|E]; [lia|]. exact (E r2 Hr Hs).
Qed.

Lemma least_sol_limit : forall sbf limit limit' off w r, limit <= limit' ->
  least_sol sbf limit off w = Some r -> least_sol sbf limit' off w = Some r.
Proof.
  intros sbf limit limit' off w r Hl H. apply least_sol_some in H. apply least_sol_some.
  destruct H as (H1 & H2 & H3 & H4). repeat split; try assumption; lia.
Qed.

(* least solutions are monotone in the workload and antitone in the supply *)
Lemma least_sol_le : forall sbf sbf' limit off w w' r',
  (forall s, sol sbf' w' off s -> sol sbf w off s) ->
  least_sol sbf' limit off w' = Some r' -> exists r, least_sol sbf limit off w = Some r /\ r <= r'.
Proof.
  intros sbf sbf' limit off w w' r' Hs H. apply least_sol_some in H. destruct H as (H1 & H2 & H3 & _).
  apply least_sol_exists_le; [exact H1|exact H2|apply Hs; exact H3].
Qed.

Section SupplyFacts.
  Variables (sbf st : N -> N).
  Hypothesis Hinv : forall d t, st d <= t <-> d <= sbf t.
  Hypothesis Hsbf0 : sbf 0 = 0.
  Hypothesis Hlip : forall t, sbf (t + 1) <= sbf t + 1.

  Lemma mr_sbf_mono : forall a b, a <= b -> sbf a <= sbf b.
  Proof.
    clear Hsbf0 Hlip.
    intros a b Hab. apply Hinv. transitivity a; [|exact Hab]. apply Hinv. apply N.le_refl.
  Qed.

  Lemma mr_sbf_ok : sbf_ok sbf.
  Proof. split; [exact Hsbf0|]. split; [exact mr_sbf_mono|exact Hlip]. Qed.

  Lemma mr_lip_add : forall x d, sbf (x + d) <= sbf x + d.
  Proof.
    clear Hinv Hsbf0.
    intros x d. induction d as [|d IH] using N.peano_ind.
    - rewrite !N.add_0_r. apply N.le_refl.
    - replace (x + N.succ d) with (x + d + 1) by lia. pose proof (Hlip (x + d)). lia.
  Qed.

  (* a successful busy-window scan on a 1-Lipschitz supply stops where supply meets demand exactly *)
  Lemma least_sol_tight : forall limit w S, mono w -> (forall x, 1 <= w x) ->
    least_sol sbf limit 0 w = Some S -> 1 <= S /\ sbf S = w S.
  Proof.
    clear Hinv.
    intros limit w S Hm Hpos E. apply (search_ok_tight sbf w limit S Hsbf0 Hlip Hm Hpos).
    pose proof (swo_spec_least_sol sbf 0 limit w) as H. rewrite E in H. exact H.
  Qed.
End SupplyFacts.

(* ------------------------------------------------------------------------------------------ *)
(* 1. the ECRTS'19 driver [bound_response_time]: elimination / introduction of Ok results      *)
(* ------------------------------------------------------------------------------------------ *)

Section Brt.
  Variables (sbf st : N -> N).
  Hypothesis Hinv : forall d t, st d <= t <-> d <= sbf t.
  Hypothesis Hsbf0 : sbf 0 = 0.
  Hypothesis Hlip : forall t, sbf (t + 1) <= sbf t + 1.
  Variables (demand : N -> N) (steps : N -> list N) (bw_rhs : N -> N) (rhs : N -> N -> N).
  Hypothesis Hs : steps_exact demand steps.
  Hypothesis Hbw : mono bw_rhs.
  Hypothesis Hrhs : forall A, mono (rhs A).
  Hypothesis Hpre : forall limit max_bw A, least_sol sbf limit 0 bw_rhs = Some max_bw -> A <= max_bw ->
    demand A < demand (A + 1) -> A <= st (rhs A 1).

  Definition brt_offs (M : N) : list N := map (fun d => d - 1) (steps (M + 1)).

  Lemma brt_form : forall dbg limit,
    bound_response_time dbg sbf st limit steps bw_rhs rhs =
    match least_sol sbf limit 0 bw_rhs with
    | None => RErr 0 limit
    | Some M => max_response_time (map (fun A => off_res sbf limit A (rhs A)) (brt_offs M))
    end.
  Proof.
    intros dbg limit.
    apply (brt_unfold sbf st (mr_sbf_ok sbf st Hinv Hsbf0 Hlip) Hinv dbg limit demand steps bw_rhs rhs
             Hs Hbw Hrhs (Hpre limit)).
  Qed.

  Lemma brt_offs_in : forall M A, In A (brt_offs M) <-> A <= M /\ demand A < demand (A + 1).
  Proof. intros M A. apply in_step_offsets. exact Hs. Qed.

  Lemma brt_shape : forall dbg limit,
    (exists R, bound_response_time dbg sbf st limit steps bw_rhs rhs = ROk R) \/
    (exists o l, bound_response_time dbg sbf st limit steps bw_rhs rhs = RErr o l).
  Proof.
    intros dbg limit. rewrite brt_form.
    destruct (least_sol sbf limit 0 bw_rhs) as [M|]; [|right; exists 0, limit; reflexivity].
    rewrite (mrt_spec _ (off_res_not_panic sbf limit rhs _)).
    destruct (find is_err _) as [e|] eqn:EF.
    - apply find_some in EF. destruct EF as (_ & He).
      destruct e as [x|o l|]; try discriminate He. right. exists o, l. reflexivity.
    - left. eexists. reflexivity.
  Qed.

  Lemma brt_ok_elim : forall dbg limit R,
    bound_response_time dbg sbf st limit steps bw_rhs rhs = ROk R ->
    exists M, least_sol sbf limit 0 bw_rhs = Some M /\ 1 <= limit /\ R <= limit /\
      forall A, A <= M -> demand A < demand (A + 1) ->
        exists b, least_sol sbf limit A (rhs A) = Some b /\ b <= R.
  Proof.
    intros dbg limit R. rewrite brt_form.
    destruct (least_sol sbf limit 0 bw_rhs) as [M|] eqn:E; [|discriminate].
    rewrite (mrt_spec _ (off_res_not_panic sbf limit rhs _)).
    destruct (find is_err _) as [e|] eqn:EF.
    - apply find_some in EF. destruct EF as (_ & He). intros ->. discriminate He.
    - intros H. injection H as <-. exists M. split; [reflexivity|].
      assert (Hl : 1 <= limit) by (apply least_sol_some in E; tauto).
      split; [exact Hl|]. split.
      + apply mr_maxN_le. intros x Hx. apply in_map_iff in Hx. destruct Hx as (r & <- & Hr).
        apply in_map_iff in Hr. destruct Hr as (A & <- & _). unfold off_res.
        destruct (least_sol sbf limit A (rhs A)) as [b|] eqn:Eb; cbn [val_of]; [|lia].
        apply least_sol_some in Eb. tauto.
      + intros A HA Hstep.
        assert (Hin : In (off_res sbf limit A (rhs A)) (map (fun A => off_res sbf limit A (rhs A)) (brt_offs M))).
        { apply (in_map (fun A => off_res sbf limit A (rhs A))). apply brt_offs_in. split; assumption. }
        pose proof (find_none _ _ EF _ Hin) as Hne.
        assert (Hv : val_of (off_res sbf limit A (rhs A)) <=
                     maxN (map val_of (map (fun A => off_res sbf limit A (rhs A)) (brt_offs M)))).
        { apply mr_maxN_in. apply in_map. exact Hin. }
        unfold off_res in Hne, Hv.
        destruct (least_sol sbf limit A (rhs A)) as [b|]; [|discriminate Hne].
        exists b. split; [reflexivity|exact Hv].
  Qed.

  Lemma brt_ok_intro : forall dbg limit M R0, least_sol sbf limit 0 bw_rhs = Some M ->
    (forall A, A <= M -> demand A < demand (A + 1) ->
       exists b, least_sol sbf limit A (rhs A) = Some b /\ b <= R0) ->
    exists R, bound_response_time dbg sbf st limit steps bw_rhs rhs = ROk R /\ R <= R0.
  Proof.
    intros dbg limit M R0 E Hall. rewrite brt_form, E.
    rewrite (mrt_spec _ (off_res_not_panic sbf limit rhs _)).
    destruct (find is_err _) as [e|] eqn:EF.
    - exfalso. apply find_some in EF. destruct EF as (Hin & He).
      apply in_map_iff in Hin. destruct Hin as (A & <- & HA). apply brt_offs_in in HA.
      destruct (Hall A (proj1 HA) (proj2 HA)) as (b & Eb & _).
      unfold off_res in He. rewrite Eb in He. discriminate He.
    - eexists. split; [reflexivity|]. apply mr_maxN_le. intros x Hx.
      apply in_map_iff in Hx. destruct Hx as (r & <- & Hr).
      apply in_map_iff in Hr. destruct Hr as (A & <- & HA). apply brt_offs_in in HA.
      destruct (Hall A (proj1 HA) (proj2 HA)) as (b & Eb & Hb).
      unfold off_res. rewrite Eb. exact Hb.
  Qed.

  (* raising the limit never changes an Ok result *)
  Lemma brt_limit : forall dbg limit limit' R, limit <= limit' ->
    bound_response_time dbg sbf st limit steps bw_rhs rhs = ROk R ->
    bound_response_time dbg sbf st limit' steps bw_rhs rhs = ROk R.
  Proof.
    intros dbg limit limit' R Hl H.
    destruct (brt_ok_elim dbg limit R H) as (M & E & _ & _ & Hall).
    rewrite brt_form, E in H.
    rewrite brt_form, (least_sol_limit sbf limit limit' 0 bw_rhs M Hl E).
    rewrite <- H. f_equal. apply map_ext_in. intros A HA. apply brt_offs_in in HA.
    destruct (Hall A (proj1 HA) (proj2 HA)) as (b & Eb & _).
    unfold off_res. rewrite Eb, (least_sol_limit sbf limit limit' A (rhs A) b Hl Eb). reflexivity.
  Qed.
End Brt.

(* two instances of the driver, the second on a harder system *)
Section BrtMono.
  Variables (sbf st sbf' st' : N -> N).
  Hypothesis Hinv : forall d t, st d <= t <-> d <= sbf t.
  Hypothesis Hinv' : forall d t, st' d <= t <-> d <= sbf' t.
  Hypothesis Hless : ple sbf' sbf.
  Hypothesis Hsbf0 : sbf 0 = 0.  Hypothesis Hsbf0' : sbf' 0 = 0.
  Hypothesis Hlip : forall t, sbf (t + 1) <= sbf t + 1.  Hypothesis Hlip' : forall t, sbf' (t + 1) <= sbf' t + 1.
  Variables (demand : N -> N) (steps : N -> list N) (bw_rhs : N -> N) (rhs : N -> N -> N).
  Variables (demand' : N -> N) (steps' : N -> list N) (bw_rhs' : N -> N) (rhs' : N -> N -> N).
  Hypothesis Hs : steps_exact demand steps.
  Hypothesis Hbw : mono bw_rhs.
  Hypothesis Hrhs : forall A, mono (rhs A).
  Hypothesis Hpre : forall limit max_bw A, least_sol sbf limit 0 bw_rhs = Some max_bw -> A <= max_bw ->
    demand A < demand (A + 1) -> A <= st (rhs A 1).
  Hypothesis Hs' : steps_exact demand' steps'.
  Hypothesis Hbw' : mono bw_rhs'.
  Hypothesis Hrhs' : forall A, mono (rhs' A).
  Hypothesis Hpre' : forall limit max_bw A, least_sol sbf' limit 0 bw_rhs' = Some max_bw -> A <= max_bw ->
    demand' A < demand' (A + 1) -> A <= st' (rhs' A 1).
  Hypothesis Hbwle : ple bw_rhs bw_rhs'.
  (* every step offset in the busy window of the easier system has a solution below the bound of the harder one *)
  Hypothesis Hcore : forall limit L L' R',
    least_sol sbf limit 0 bw_rhs = Some L -> least_sol sbf' limit 0 bw_rhs' = Some L' -> L <= L' ->
    (forall A', A' <= L' -> demand' A' < demand' (A' + 1) -> exists b, b <= R' /\ sol sbf' (rhs' A') A' b) ->
    forall A, A <= L -> demand A < demand (A + 1) -> exists r2, r2 <= R' /\ sol sbf (rhs A) A r2.

  Theorem brt_mono : forall dbg limit,
    rle (bound_response_time dbg sbf st limit steps bw_rhs rhs)
        (bound_response_time dbg sbf' st' limit steps' bw_rhs' rhs').
  Proof.
    intros dbg limit.
    destruct (brt_shape sbf' st' Hinv' Hsbf0' Hlip' demand' steps' bw_rhs' rhs' Hs' Hbw' Hrhs' Hpre' dbg limit)
      as [(R' & E')|(o' & l' & E')].
    2:{ rewrite E'.
        destruct (brt_shape sbf st Hinv Hsbf0 Hlip demand steps bw_rhs rhs Hs Hbw Hrhs Hpre dbg limit)
          as [(R & ->)|(o & l & ->)]; exact I. }
    rewrite E'.
    destruct (brt_ok_elim sbf' st' Hinv' Hsbf0' Hlip' demand' steps' bw_rhs' rhs' Hs' Hbw' Hrhs' Hpre' dbg limit R' E')
      as (L' & EL' & Hl1 & HR' & Hall').
    destruct (least_sol_le sbf sbf' limit 0 bw_rhs bw_rhs' L') as (L & EL & HLL'); [|exact EL'|].
    { intros s. unfold sol. pose proof (Hbwle (N.max s 1)). pose proof (Hless (0 + s)). lia. }
    destruct (brt_ok_intro sbf st Hinv Hsbf0 Hlip demand steps bw_rhs rhs Hs Hbw Hrhs Hpre dbg limit L R' EL)
      as (R & -> & HR); [|exact HR].
    intros A HA Hstep.
    destruct (Hcore limit L L' R' EL EL' HLL') with (A := A) as (r2 & Hr2 & Hsol); [|exact HA|exact Hstep|].
    { intros A' HA' Hstep'. destruct (Hall' A' HA' Hstep') as (b & Eb & Hb).
      exists b. split; [exact Hb|]. apply least_sol_some in Eb. tauto. }
    destruct (least_sol_exists_le sbf limit A (rhs A) r2 Hl1 ltac:(lia) Hsol) as (b & Eb & Hb).
    exists b. split; [exact Eb|lia].
  Qed.
End BrtMono.

(* ------------------------------------------------------------------------------------------ *)
(* 2. the arithmetic core                                                                      *)
(* ------------------------------------------------------------------------------------------ *)

(* A: a step offset of the easier system, K = own (A + 1); A' <= A: an offset of the harder system with
   K' >= K + (c' - c) own demand; c, c': the (constant) least WCETs; X, X': interference; r': a solution
   of the harder system at A'.  Then the easier system has a solution r2 <= r' at A. *)
Lemma ecrts_core : forall (sbf sbf' own X X' : N -> N) B B' c c' A A' K' r',
  (forall x, sbf' x <= sbf x) -> (forall a b, a <= b -> sbf a <= sbf b) ->
  (forall x d, sbf (x + d) <= sbf x + d) -> sbf 0 = 0 ->
  mono own -> mono X -> (forall x, X x <= X' x) ->
  1 <= c -> c <= c' -> B <= B' -> A' <= A ->
  own (A + 1) + (c' - c) <= K' ->
  own A + c <= own (A + 1) ->
  0 < own 1 ->
  (forall x, 1 <= x -> x < A -> sbf x < own x + B + X x) ->
  K' + X' (A' + (N.max r' 1 - c') + 1) + B' <= sbf' (A' + r') ->
  exists r2, r2 <= r' /\ own (A + 1) + X (A + (N.max r2 1 - c) + 1) + B <= sbf (A + r2).
Proof.
  intros sbf sbf' own X X' B B' c c' A A' K' r' Hless Hsm Hlip Hsbf0 Hmo HmX HX Hc1 Hcc HB HAA HK Hstep Hown1 Hbusy Hsol.
  set (g' := A' + (N.max r' 1 - c')) in *.
  destruct (N.le_gt_cases A g') as [Hg|Hg].
  - (* the job of the harder system starts at or after A *)
    destruct (N.le_gt_cases r' c') as [Hcl|Hun].
    + (* clamped: g' = A' = A *)
      assert (E0 : N.max r' 1 - c' = 0) by lia.
      assert (EA : A' = A) by (unfold g' in Hg; lia).
      unfold g' in Hsol. rewrite E0, EA, N.add_0_r in Hsol.
      exists (r' - (c' - c)). split; [lia|].
      assert (E1 : N.max (r' - (c' - c)) 1 - c = 0) by lia.
      rewrite E1, N.add_0_r.
      pose proof (Hless (A + r')) as H1.
      pose proof (Hsm (A + r') (A + (r' - (c' - c)) + (c' - c)) ltac:(lia)) as H2.
      pose proof (Hlip (A + (r' - (c' - c))) (c' - c)) as H3.
      pose proof (HX (A + 1)) as H4. lia.
    + (* not clamped *)
      assert (E0 : N.max r' 1 = r') by lia.
      unfold g' in Hg, Hsol. rewrite E0 in Hg, Hsol.
      exists (A' + (r' - c') + c - A). split; [lia|].
      assert (E1 : A + (N.max (A' + (r' - c') + c - A) 1 - c) + 1 = A' + (r' - c') + 1) by lia.
      rewrite E1.
      pose proof (Hless (A' + r')) as H1.
      pose proof (Hsm (A' + r') (A + (A' + (r' - c') + c - A) + (c' - c)) ltac:(lia)) as H2.
      pose proof (Hlip (A + (A' + (r' - c') + c - A)) (c' - c)) as H3.
      pose proof (HX (A' + (r' - c') + 1)) as H4. lia.
  - (* the job of the harder system starts before A: impossible inside the busy window *)
    exfalso.
    assert (Hf : A' + r' <= g' + c') by (unfold g'; lia).
    pose proof (Hless (A' + r')) as H1.
    pose proof (Hsm _ _ Hf) as H2.
    pose proof (Hlip g' c') as H3.
    pose proof (HX (g' + 1)) as H4.
    pose proof (HmX g' (g' + 1) ltac:(lia)) as H5.
    pose proof (Hmo g' A ltac:(lia)) as H6.
    destruct (N.eq_dec g' 0) as [Eg|Hg0].
    + assert (Hs0 : sbf g' = 0) by (rewrite Eg; exact Hsbf0).
      pose proof (Hmo 1 A ltac:(lia)) as H7. lia.
    + pose proof (Hbusy g' ltac:(lia) Hg) as H7. lia.
Qed.

Lemma ii_const_eq : forall lw c, (forall d, 1 <= d -> lw d = c) ->
  forall A r, 1 <= r -> interference_interval lw A r = A + (r - c) + 1.
Proof.
  intros lw c Hc A r Hr. unfold interference_interval. cbv zeta. rewrite (Hc (A + r)) by lia.
  destruct (N.ltb_spec c r); lia.
Qed.

(* ------------------------------------------------------------------------------------------ *)
(* 3. the common shape of rta_timer / rta_pp / rta_chain                                       *)
(* ------------------------------------------------------------------------------------------ *)

(* one system: busy-window equation own + B + X, offset equation own (A + 1) + X (interval) + B, offsets =
   steps of [dem]; [bw_rhs] and [rhs] are only required to be pointwise equal to these forms *)
Section EcrtsOne.
  Variables (sbf st : N -> N).
  Hypothesis Hinv : forall d t, st d <= t <-> d <= sbf t.
  Hypothesis Hsbf0 : sbf 0 = 0.
  Hypothesis Hlip : forall t, sbf (t + 1) <= sbf t + 1.
  Variables (dem own X lw : N -> N) (B c : N) (bw_rhs : N -> N) (rhs : N -> N -> N).
  Hypothesis Hmo : mono own.
  Hypothesis HmX : mono X.
  Hypothesis Hii : forall off, mono (interference_interval lw off).
  Hypothesis Hlw : forall d, 1 <= d -> lw d = c.
  Hypothesis Hbwf : forall d, bw_rhs d = own d + B + X d.
  Hypothesis Hrhsf : forall A r, rhs A r = own (A + 1) + X (interference_interval lw A r) + B.
  Hypothesis Hstepw : forall x, dem x < dem (x + 1) -> own x + X x < own (x + 1) + X (x + 1).

  Lemma e1_bw_mono : mono bw_rhs.
  Proof.
    clear Hinv Hsbf0 Hlip Hlw Hii Hrhsf Hstepw.
    intros a b Hab. rewrite !Hbwf. pose proof (Hmo a b Hab). pose proof (HmX a b Hab). lia.
  Qed.

  Lemma e1_rhs_mono : forall A, mono (rhs A).
  Proof.
    clear Hinv Hsbf0 Hlip Hbwf Hstepw Hmo Hlw.
    intros A a b Hab. rewrite !Hrhsf.
    pose proof (Hii A a b Hab) as H. pose proof (HmX _ _ H). lia.
  Qed.

  Lemma e1_pre : forall limit max_bw A, least_sol sbf limit 0 bw_rhs = Some max_bw -> A <= max_bw ->
    dem A < dem (A + 1) -> A <= st (rhs A 1).
  Proof.
    clear Hlw Hii.
    intros limit max_bw A E HA Hstep.
    apply (offset_in_bw sbf st (mr_sbf_ok sbf st Hinv Hsbf0 Hlip) Hinv limit bw_rhs max_bw);
      [exact e1_bw_mono|exact E|exact HA|].
    intros _. rewrite Hbwf, Hrhsf. pose proof (ii_ge lw A 1) as Hge.
    pose proof (HmX _ _ Hge). pose proof (Hstepw A Hstep). lia.
  Qed.

  Lemma e1_sol : forall A r, sol sbf (rhs A) A r <->
    own (A + 1) + X (A + (N.max r 1 - c) + 1) + B <= sbf (A + r).
  Proof.
    clear Hinv Hsbf0 Hlip Hbwf Hstepw Hmo HmX Hii.
    intros A r. unfold sol. rewrite Hrhsf, (ii_const_eq lw c Hlw) by lia. reflexivity.
  Qed.

  (* raising the limit *)
  Lemma e1_limit : forall dbg steps limit limit' R, steps_exact dem steps -> limit <= limit' ->
    bound_response_time dbg sbf st limit steps bw_rhs rhs = ROk R ->
    bound_response_time dbg sbf st limit' steps bw_rhs rhs = ROk R.
  Proof.
    clear Hlw.
    intros dbg steps limit limit' R Hs.
    apply (brt_limit sbf st Hinv Hsbf0 Hlip dem steps bw_rhs rhs Hs e1_bw_mono e1_rhs_mono e1_pre).
  Qed.
End EcrtsOne.

Section EcrtsTwo.
  Variables (sbf st sbf' st' : N -> N).
  Hypothesis Hinv : forall d t, st d <= t <-> d <= sbf t.
  Hypothesis Hinv' : forall d t, st' d <= t <-> d <= sbf' t.
  Hypothesis Hless : ple sbf' sbf.
  Hypothesis Hsbf0 : sbf 0 = 0.  Hypothesis Hsbf0' : sbf' 0 = 0.
  Hypothesis Hlip : forall t, sbf (t + 1) <= sbf t + 1.  Hypothesis Hlip' : forall t, sbf' (t + 1) <= sbf' t + 1.
  Variables (dem own X lw : N -> N) (B c : N) (bw_rhs : N -> N) (rhs : N -> N -> N) (steps : N -> list N).
  Variables (dem' own' X' lw' : N -> N) (B' c' : N) (bw_rhs' : N -> N) (rhs' : N -> N -> N) (steps' : N -> list N).
  Hypothesis Hmo : mono own.     Hypothesis Hmo' : mono own'.
  Hypothesis HmX : mono X.       Hypothesis HmX' : mono X'.
  Hypothesis Hmd' : mono dem'.
  Hypothesis Hlw : forall d, 1 <= d -> lw d = c.
  Hypothesis Hlw' : forall d, 1 <= d -> lw' d = c'.
  Hypothesis Hbwf : forall d, bw_rhs d = own d + B + X d.
  Hypothesis Hbwf' : forall d, bw_rhs' d = own' d + B' + X' d.
  Hypothesis Hrhsf : forall A r, rhs A r = own (A + 1) + X (interference_interval lw A r) + B.
  Hypothesis Hrhsf' : forall A r, rhs' A r = own' (A + 1) + X' (interference_interval lw' A r) + B'.
  Hypothesis Hs : steps_exact dem steps.
  Hypothesis Hs' : steps_exact dem' steps'.
  (* the order between the two systems *)
  Hypothesis Hown : ple own own'.
  Hypothesis HX : ple X X'.
  Hypothesis Hdem : ple dem dem'.
  Hypothesis HB : B <= B'.
  Hypothesis Hc1 : 1 <= c.
  Hypothesis Hcc : c <= c'.
  (* a larger least WCET comes with at least that much more own demand wherever there is any *)
  Hypothesis Hgain : forall x, 0 < own x -> own x + (c' - c) <= own' x.
  (* every offset considered in the easier system is a step of its own demand, at least c high *)
  Hypothesis Hstep : forall x, dem x < dem (x + 1) -> own x + c <= own (x + 1).
  (* the offsets of the harder system: steps of the total demand; none of them is missed by dem' *)
  Hypothesis Hstepw' : forall x, dem' x < dem' (x + 1) -> own' x + X' x < own' (x + 1) + X' (x + 1).
  Hypothesis Hflat' : forall a b, a <= b -> dem' a = dem' b -> own' a = own' b.
  Hypothesis Hdem0' : dem' 0 = 0.
  Hypothesis Hown1 : 0 < own 1.

  Lemma e2_stepw : forall x, dem x < dem (x + 1) -> own x + X x < own (x + 1) + X (x + 1).
  Proof.
    intros x Hx. pose proof (Hstep x Hx). pose proof (HmX x (x + 1) ltac:(lia)). lia.
  Qed.

  Theorem ecrts_mono : forall dbg limit,
    rle (bound_response_time dbg sbf st limit steps bw_rhs rhs)
        (bound_response_time dbg sbf' st' limit steps' bw_rhs' rhs').
  Proof.
    intros dbg limit.
    apply (brt_mono sbf st sbf' st' Hinv Hinv' Hless Hsbf0 Hsbf0' Hlip Hlip' dem steps bw_rhs rhs dem' steps' bw_rhs' rhs').
    - exact Hs.
    - apply e1_bw_mono with (own := own) (X := X) (B := B); assumption.
    - apply e1_rhs_mono with (own := own) (X := X) (lw := lw) (B := B); try assumption.
      intros off. apply (ii_mono_const lw c off Hlw).
    - apply e1_pre with (sbf := sbf) (dem := dem) (own := own) (X := X) (lw := lw) (B := B) (bw_rhs := bw_rhs);
        try assumption. exact e2_stepw.
    - exact Hs'.
    - apply e1_bw_mono with (own := own') (X := X') (B := B'); assumption.
    - apply e1_rhs_mono with (own := own') (X := X') (lw := lw') (B := B'); try assumption.
      intros off. apply (ii_mono_const lw' c' off Hlw').
    - apply e1_pre with (sbf := sbf') (dem := dem') (own := own') (X := X') (lw := lw') (B := B') (bw_rhs := bw_rhs');
        assumption.
    - intros x. rewrite Hbwf, Hbwf'. pose proof (Hown x). pose proof (HX x). lia.
    - intros lim L L' R' EL EL' HLL' Hall' A HA HstepA.
      (* the last step of dem' at or before A *)
      pose proof (Hstep A HstepA) as HstA.
      assert (Hpos : 0 < dem' (A + 1)) by (pose proof (Hdem (A + 1)); lia).
      destruct (step_before dem' Hmd' Hdem0' A Hpos) as (A' & HA' & Hstep' & Heq).
      assert (EK : own' (A' + 1) = own' (A + 1)) by (apply Hflat'; [lia|exact Heq]).
      destruct (Hall' A' ltac:(lia) Hstep') as (b & Hb & Hsol').
      apply (proj1 (e1_sol sbf' own' X' lw' B' c' rhs' Hlw' Hrhsf' A' b)) in Hsol'.
      destruct (ecrts_core sbf sbf' own X X' B B' c c' A A' (own' (A' + 1)) b) as (r2 & Hr2 & Hsol); try assumption.
      + exact (mr_sbf_mono sbf st Hinv).
      + exact (mr_lip_add sbf Hlip).
      + rewrite EK. apply Hgain. lia.
      + intros x Hx1 HxA. apply least_sol_some in EL. destruct EL as (_ & _ & _ & Hmin).
        assert (Hn : ~ sol sbf bw_rhs 0 x) by (apply Hmin; lia).
        unfold sol in Hn. rewrite N.add_0_l, N.max_l, Hbwf in Hn by lia. lia.
      + exists r2. split; [lia|].
        apply (e1_sol sbf own X lw B c rhs Hlw Hrhsf). exact Hsol.
  Qed.
End EcrtsTwo.

(* ------------------------------------------------------------------------------------------ *)
(* 4. rta_pp, rta_timer, rta_chain                                                             *)
(* ------------------------------------------------------------------------------------------ *)

Lemma scaled_steps_exact : forall C na steps, 1 <= C -> steps_exact na steps ->
  steps_exact (fun d => C * na d) steps.
Proof.
  intros C na steps HC Hs h d. rewrite (Hs h d). rewrite <- N.mul_lt_mono_pos_l by lia. reflexivity.
Qed.

(* a supply that provides less service in every window: smaller sbf, larger service time *)
Section Ecrts19Mono.
  Variables (sbf st sbf' st' : N -> N).
  Hypothesis Hinv : forall d t, st d <= t <-> d <= sbf t.
  Hypothesis Hinv' : forall d t, st' d <= t <-> d <= sbf' t.
  Hypothesis Hless : ple sbf' sbf.
  Hypothesis Hsbf0 : sbf 0 = 0.  Hypothesis Hsbf0' : sbf' 0 = 0.
  Hypothesis Hlip : forall t, sbf (t + 1) <= sbf t + 1.  Hypothesis Hlip' : forall t, sbf' (t + 1) <= sbf' t + 1.

  (* the timer analysis (Lemma 3): own demand, interfering demand, blocking bound, supply.
     [c], [c']: the least WCETs of the own demand (constant on non-empty intervals) *)
  Theorem timer_mono : forall dbg own own' lw lw' steps steps' intf intf' B B' c c' limit,
    ple own own' -> ple intf intf' -> B <= B' ->
    mono own -> mono own' -> mono intf -> mono intf' ->
    steps_exact own steps -> steps_exact own' steps' -> own' 0 = 0 -> 0 < own 1 ->
    (forall d, 1 <= d -> lw d = c) -> (forall d, 1 <= d -> lw' d = c') -> 1 <= c -> c <= c' ->
    (forall x, 0 < own x -> own x + (c' - c) <= own' x) ->
    (forall x, own x < own (x + 1) -> own x + c <= own (x + 1)) ->
    rle (rta_timer dbg sbf st limit own lw steps intf B) (rta_timer dbg sbf' st' limit own' lw' steps' intf' B').
  Proof.
    intros dbg own own' lw lw' steps steps' intf intf' B B' c c' limit
           Hown Hintf HB Hmo Hmo' Hmi Hmi' Hs Hs' H0' H1 Hlw Hlw' Hc1 Hcc Hgain Hstep.
    unfold rta_timer.
    apply (ecrts_mono sbf st sbf' st' Hinv Hinv' Hless Hsbf0 Hsbf0' Hlip Hlip')
      with (dem := own) (own := own) (X := intf) (lw := lw) (B := B) (c := c)
           (dem' := own') (own' := own') (X' := intf') (lw' := lw') (B' := B') (c' := c'); try assumption.
    - intros d. reflexivity.
    - intros d. reflexivity.
    - intros A r. reflexivity.
    - intros A r. reflexivity.
    - intros x Hx. pose proof (Hmi' x (x + 1) ltac:(lia)). lia.
    - intros a b _ E. exact E.
  Qed.

  (* the polling-point analysis (Lemmas 4 and 5) *)
  Theorem pp_mono : forall dbg own own' lw lw' steps steps' intf intf' c c' limit,
    ple own own' -> ple intf intf' ->
    mono own -> mono own' -> mono intf -> mono intf' ->
    steps_exact own steps -> steps_exact own' steps' -> own' 0 = 0 -> 0 < own 1 ->
    (forall d, 1 <= d -> lw d = c) -> (forall d, 1 <= d -> lw' d = c') -> 1 <= c -> c <= c' ->
    (forall x, 0 < own x -> own x + (c' - c) <= own' x) ->
    (forall x, own x < own (x + 1) -> own x + c <= own (x + 1)) ->
    rle (rta_pp dbg sbf st limit own lw steps intf) (rta_pp dbg sbf' st' limit own' lw' steps' intf').
  Proof.
    intros dbg own own' lw lw' steps steps' intf intf' c c' limit
           Hown Hintf Hmo Hmo' Hmi Hmi' Hs Hs' H0' H1 Hlw Hlw' Hc1 Hcc Hgain Hstep.
    unfold rta_pp.
    apply (ecrts_mono sbf st sbf' st' Hinv Hinv' Hless Hsbf0 Hsbf0' Hlip Hlip')
      with (dem := own) (own := own) (X := intf) (lw := lw) (B := 0) (c := c)
           (dem' := own') (own' := own') (X' := intf') (lw' := lw') (B' := 0) (c' := c'); try assumption.
    - intros d. lia.
    - intros d. lia.
    - intros A r. lia.
    - intros A r. lia.
    - apply N.le_refl.
    - intros x Hx. pose proof (Hmi' x (x + 1) ltac:(lia)). lia.
    - intros a b _ E. exact E.
  Qed.

  (* the chain analysis (Lemma 8); [full = prefix + lastcb] is the caller's obligation (a debug_assert
     of the crate).  Extra hypothesis [Hstep]: every step of the full chain's demand is a step of the last
     callback's demand (at least c high) — see [chain_mono_refuted] *)
  Theorem chain_mono : forall dbg lastcb lastcb' lw lw' prefix prefix' full full' fsteps fsteps' other other' c c' limit,
    (forall d, full d = prefix d + lastcb d) -> (forall d, full' d = prefix' d + lastcb' d) ->
    ple lastcb lastcb' -> ple prefix prefix' -> ple other other' ->
    mono lastcb -> mono lastcb' -> mono prefix -> mono prefix' -> mono other -> mono other' ->
    steps_exact full fsteps -> steps_exact full' fsteps' -> full' 0 = 0 -> 0 < lastcb 1 ->
    (forall d, 1 <= d -> lw d = c) -> (forall d, 1 <= d -> lw' d = c') -> 1 <= c -> c <= c' ->
    (forall x, 0 < lastcb x -> lastcb x + (c' - c) <= lastcb' x) ->
    (forall x, full x < full (x + 1) -> lastcb x + c <= lastcb (x + 1)) ->
    rle (rta_chain dbg sbf st limit lastcb lw prefix full fsteps other)
        (rta_chain dbg sbf' st' limit lastcb' lw' prefix' full' fsteps' other').
  Proof.
    intros dbg lastcb lastcb' lw lw' prefix prefix' full full' fsteps fsteps' other other' c c' limit
           Hfull Hfull' Hl Hp Ho Hml Hml' Hmp Hmp' Hmo Hmo' Hs Hs' H0' H1 Hlw Hlw' Hc1 Hcc Hgain Hstep.
    unfold rta_chain.
    apply (ecrts_mono sbf st sbf' st' Hinv Hinv' Hless Hsbf0 Hsbf0' Hlip Hlip')
      with (dem := full) (own := lastcb) (X := fun d => prefix d + other d) (lw := lw) (B := 0) (c := c)
           (dem' := full') (own' := lastcb') (X' := fun d => prefix' d + other' d) (lw' := lw') (B' := 0) (c' := c');
      try assumption.
    - intros a b Hab. pose proof (Hmp a b Hab). pose proof (Hmo a b Hab). lia.
    - intros a b Hab. pose proof (Hmp' a b Hab). pose proof (Hmo' a b Hab). lia.
    - intros a b Hab. rewrite !Hfull'. pose proof (Hmp' a b Hab). pose proof (Hml' a b Hab). lia.
    - intros d. rewrite Hfull. lia.
    - intros d. rewrite Hfull'. lia.
    - intros A r. cbv zeta. lia.
    - intros A r. cbv zeta. lia.
    - intros x. pose proof (Hp x). pose proof (Ho x). lia.
    - intros x. rewrite Hfull, Hfull'. pose proof (Hp x). pose proof (Hl x). lia.
    - apply N.le_refl.
    - intros x Hx. rewrite !Hfull' in Hx. pose proof (Hmo' x (x + 1) ltac:(lia)). lia.
    - intros a b Hab E. rewrite !Hfull' in E. pose proof (Hmp' a b Hab). pose proof (Hml' a b Hab). lia.
  Qed.

  (* instances: own demand = scalar cost times an arrival curve (larger WCET, larger arrival curve) *)
  Theorem timer_mono_scalar : forall dbg na na' C C' steps steps' intf intf' B B' limit,
    ple na na' -> ple intf intf' -> B <= B' -> mono na -> mono na' -> mono intf -> mono intf' ->
    steps_exact na steps -> steps_exact na' steps' -> na' 0 = 0 -> 0 < na 1 -> 1 <= C -> C <= C' ->
    rle (rta_timer dbg sbf st limit (fun d => C * na d) (fun d => if 0 <? na d then C else 0) steps intf B)
        (rta_timer dbg sbf' st' limit (fun d => C' * na' d) (fun d => if 0 <? na' d then C' else 0) steps' intf' B').
  Proof.
    intros dbg na na' C C' steps steps' intf intf' B B' limit Hna Hintf HB Hm Hm' Hmi Hmi' Hs Hs' H0' H1 HC HCC.
    assert (Hp : forall d, 1 <= d -> 0 < na d) by (intros d Hd; pose proof (Hm 1 d Hd); lia).
    assert (Hp' : forall d, 1 <= d -> 0 < na' d) by (intros d Hd; pose proof (Hp d Hd); pose proof (Hna d); lia).
    apply timer_mono with (c := C) (c' := C'); try assumption.
    - intros x. pose proof (Hna x). apply N.mul_le_mono; assumption.
    - apply scaled_mono. exact Hm.
    - apply scaled_mono. exact Hm'.
    - apply scaled_steps_exact; assumption.
    - apply scaled_steps_exact; [lia|assumption].
    - rewrite H0'. apply N.mul_0_r.
    - apply N.mul_pos_pos; lia.
    - intros d Hd. destruct (N.ltb_spec 0 (na d)) as [_|H]; [reflexivity|]. specialize (Hp d Hd). lia.
    - intros d Hd. destruct (N.ltb_spec 0 (na' d)) as [_|H]; [reflexivity|]. specialize (Hp' d Hd). lia.
    - intros x Hx. assert (Hnx : 1 <= na x) by (destruct (na x); [rewrite N.mul_0_r in Hx|]; lia).
      pose proof (Hna x) as Hle.
      assert (E1 : C' * na x <= C' * na' x) by (apply N.mul_le_mono_l; exact Hle).
      assert (E2 : C' * na x = C * na x + (C' - C) * na x).
      { rewrite <- N.mul_add_distr_r. f_equal. lia. }
      assert (E3 : (C' - C) * 1 <= (C' - C) * na x) by (apply N.mul_le_mono_l; exact Hnx).
      lia.
    - intros x Hx. apply N.mul_lt_mono_pos_l in Hx; [|lia].
      assert (E : C * (na x + 1) <= C * na (x + 1)) by (apply N.mul_le_mono_l; lia).
      rewrite N.mul_add_distr_l, N.mul_1_r in E. exact E.
  Qed.

  Theorem pp_mono_scalar : forall dbg na na' C C' steps steps' intf intf' limit,
    ple na na' -> ple intf intf' -> mono na -> mono na' -> mono intf -> mono intf' ->
    steps_exact na steps -> steps_exact na' steps' -> na' 0 = 0 -> 0 < na 1 -> 1 <= C -> C <= C' ->
    rle (rta_pp dbg sbf st limit (fun d => C * na d) (fun d => if 0 <? na d then C else 0) steps intf)
        (rta_pp dbg sbf' st' limit (fun d => C' * na' d) (fun d => if 0 <? na' d then C' else 0) steps' intf').
  Proof.
    intros dbg na na' C C' steps steps' intf intf' limit Hna Hintf Hm Hm' Hmi Hmi' Hs Hs' H0' H1 HC HCC.
    assert (Hp : forall d, 1 <= d -> 0 < na d) by (intros d Hd; pose proof (Hm 1 d Hd); lia).
    assert (Hp' : forall d, 1 <= d -> 0 < na' d) by (intros d Hd; pose proof (Hp d Hd); pose proof (Hna d); lia).
    apply pp_mono with (c := C) (c' := C'); try assumption.
    - intros x. pose proof (Hna x). apply N.mul_le_mono; assumption.
    - apply scaled_mono. exact Hm.
    - apply scaled_mono. exact Hm'.
    - apply scaled_steps_exact; assumption.
    - apply scaled_steps_exact; [lia|assumption].
    - rewrite H0'. apply N.mul_0_r.
    - apply N.mul_pos_pos; lia.
    - intros d Hd. destruct (N.ltb_spec 0 (na d)) as [_|H]; [reflexivity|]. specialize (Hp d Hd). lia.
    - intros d Hd. destruct (N.ltb_spec 0 (na' d)) as [_|H]; [reflexivity|]. specialize (Hp' d Hd). lia.
    - intros x Hx. assert (Hnx : 1 <= na x) by (destruct (na x); [rewrite N.mul_0_r in Hx|]; lia).
      pose proof (Hna x) as Hle.
      assert (E1 : C' * na x <= C' * na' x) by (apply N.mul_le_mono_l; exact Hle).
      assert (E2 : C' * na x = C * na x + (C' - C) * na x).
      { rewrite <- N.mul_add_distr_r. f_equal. lia. }
      assert (E3 : (C' - C) * 1 <= (C' - C) * na x) by (apply N.mul_le_mono_l; exact Hnx).
      lia.
    - intros x Hx. apply N.mul_lt_mono_pos_l in Hx; [|lia].
      assert (E : C * (na x + 1) <= C * na (x + 1)) by (apply N.mul_le_mono_l; lia).
      rewrite N.mul_add_distr_l, N.mul_1_r in E. exact E.
  Qed.
  (* a chain whose callbacks share one arrival curve, scalar costs: larger WCETs (last callback, prefix),
     larger arrival curve, larger interference, smaller supply *)
  Theorem chain_mono_scalar : forall dbg na na' Cl Cl' Cp Cp' full full' fsteps fsteps' other other' limit,
    (forall d, full d = Cp * na d + Cl * na d) -> (forall d, full' d = Cp' * na' d + Cl' * na' d) ->
    ple na na' -> ple other other' -> mono na -> mono na' -> mono other -> mono other' ->
    steps_exact full fsteps -> steps_exact full' fsteps' -> na' 0 = 0 -> 0 < na 1 ->
    1 <= Cl -> Cl <= Cl' -> Cp <= Cp' ->
    rle (rta_chain dbg sbf st limit (fun d => Cl * na d) (fun d => if 0 <? na d then Cl else 0)
                   (fun d => Cp * na d) full fsteps other)
        (rta_chain dbg sbf' st' limit (fun d => Cl' * na' d) (fun d => if 0 <? na' d then Cl' else 0)
                   (fun d => Cp' * na' d) full' fsteps' other').
  Proof.
    intros dbg na na' Cl Cl' Cp Cp' full full' fsteps fsteps' other other' limit
           Hfull Hfull' Hna Ho Hm Hm' Hmo Hmo' Hs Hs' H0' H1 HC HCC HP.
    assert (Hp : forall d, 1 <= d -> 0 < na d) by (intros d Hd; pose proof (Hm 1 d Hd); lia).
    assert (Hp' : forall d, 1 <= d -> 0 < na' d) by (intros d Hd; pose proof (Hp d Hd); pose proof (Hna d); lia).
    apply chain_mono with (c := Cl) (c' := Cl'); try assumption.
    - intros x. pose proof (Hna x). apply N.mul_le_mono; assumption.
    - intros x. pose proof (Hna x). apply N.mul_le_mono; assumption.
    - apply scaled_mono. exact Hm.
    - apply scaled_mono. exact Hm'.
    - apply scaled_mono. exact Hm.
    - apply scaled_mono. exact Hm'.
    - rewrite Hfull', H0', !N.mul_0_r. reflexivity.
    - apply N.mul_pos_pos; lia.
    - intros d Hd. destruct (N.ltb_spec 0 (na d)) as [_|H]; [reflexivity|]. specialize (Hp d Hd). lia.
    - intros d Hd. destruct (N.ltb_spec 0 (na' d)) as [_|H]; [reflexivity|]. specialize (Hp' d Hd). lia.
    - intros x Hx. assert (Hnx : 1 <= na x) by (destruct (na x); [rewrite N.mul_0_r in Hx|]; lia).
      pose proof (Hna x) as Hle.
      assert (E1 : Cl' * na x <= Cl' * na' x) by (apply N.mul_le_mono_l; exact Hle).
      assert (E2 : Cl' * na x = Cl * na x + (Cl' - Cl) * na x).
      { rewrite <- N.mul_add_distr_r. f_equal. lia. }
      assert (E3 : (Cl' - Cl) * 1 <= (Cl' - Cl) * na x) by (apply N.mul_le_mono_l; exact Hnx).
      lia.
    - intros x Hx. rewrite !Hfull in Hx.
      destruct (N.lt_ge_cases (na x) (na (x + 1))) as [Hlt|Hge].
      + assert (E : Cl * (na x + 1) <= Cl * na (x + 1)) by (apply N.mul_le_mono_l; lia).
        rewrite N.mul_add_distr_l, N.mul_1_r in E. exact E.
      + exfalso. pose proof (Hm x (x + 1) ltac:(lia)) as Hle.
        assert (E : na (x + 1) = na x) by lia. rewrite E in Hx. lia.
  Qed.
End Ecrts19Mono.
Print Assumptions timer_mono.
Print Assumptions pp_mono.
Print Assumptions chain_mono.
Print Assumptions timer_mono_scalar.
Print Assumptions pp_mono_scalar.
Print Assumptions chain_mono_scalar.

(* raising the divergence limit never changes an Ok result (any least-WCET function for which the
   interference interval is monotone in the response time: the hypothesis of C07) *)
Section Ecrts19Limit.
  Variables (sbf st : N -> N).
  Hypothesis Hinv : forall d t, st d <= t <-> d <= sbf t.
  Hypothesis Hsbf0 : sbf 0 = 0.
  Hypothesis Hlip : forall t, sbf (t + 1) <= sbf t + 1.

  Theorem timer_limit : forall dbg own lw steps intf B limit limit' R,
    mono own -> mono intf -> steps_exact own steps -> (forall off, mono (interference_interval lw off)) ->
    limit <= limit' ->
    rta_timer dbg sbf st limit own lw steps intf B = ROk R -> rta_timer dbg sbf st limit' own lw steps intf B = ROk R.
  Proof.
    intros dbg own lw steps intf B limit limit' R Hmo Hmi Hs Hii Hl. unfold rta_timer.
    apply (e1_limit sbf st Hinv Hsbf0 Hlip) with (dem := own) (own := own) (X := intf) (lw := lw) (B := B);
      try assumption.
    - intros d. reflexivity.
    - intros A r. reflexivity.
    - intros x Hx. pose proof (Hmi x (x + 1) ltac:(lia)). lia.
  Qed.

  Theorem pp_limit : forall dbg own lw steps intf limit limit' R,
    mono own -> mono intf -> steps_exact own steps -> (forall off, mono (interference_interval lw off)) ->
    limit <= limit' ->
    rta_pp dbg sbf st limit own lw steps intf = ROk R -> rta_pp dbg sbf st limit' own lw steps intf = ROk R.
  Proof.
    intros dbg own lw steps intf limit limit' R Hmo Hmi Hs Hii Hl. unfold rta_pp.
    apply (e1_limit sbf st Hinv Hsbf0 Hlip) with (dem := own) (own := own) (X := intf) (lw := lw) (B := 0);
      try assumption.
    - intros d. lia.
    - intros A r. lia.
    - intros x Hx. pose proof (Hmi x (x + 1) ltac:(lia)). lia.
  Qed.

  Theorem chain_limit : forall dbg lastcb lw prefix full fsteps other limit limit' R,
    (forall d, full d = prefix d + lastcb d) ->
    mono lastcb -> mono prefix -> mono other -> steps_exact full fsteps ->
    (forall off, mono (interference_interval lw off)) -> limit <= limit' ->
    rta_chain dbg sbf st limit lastcb lw prefix full fsteps other = ROk R ->
    rta_chain dbg sbf st limit' lastcb lw prefix full fsteps other = ROk R.
  Proof.
    intros dbg lastcb lw prefix full fsteps other limit limit' R Hfull Hml Hmp Hmo Hs Hii Hl. unfold rta_chain.
    apply (e1_limit sbf st Hinv Hsbf0 Hlip) with (dem := full) (own := lastcb) (X := fun d => prefix d + other d)
                                                  (lw := lw) (B := 0); try assumption.
    - intros a b Hab. pose proof (Hmp a b Hab). pose proof (Hmo a b Hab). lia.
    - intros d. rewrite Hfull. lia.
    - intros A r. cbv zeta. lia.
    - intros x Hx. rewrite !Hfull in Hx. pose proof (Hmo x (x + 1) ltac:(lia)). lia.
  Qed.
End Ecrts19Limit.
Print Assumptions timer_limit.
Print Assumptions pp_limit.
Print Assumptions chain_limit.

(* ------------------------------------------------------------------------------------------ *)
(* 5. the entry points of the crate (deep embedding), and the counterexample for the chain     *)
(* ------------------------------------------------------------------------------------------ *)
From RTA.Model Require Arrival Wcet Demand Supply Eval WellFormed.
From RTA.Proofs Require EntryPoints.

(* FINDING.  rta_processing_chain is NOT monotone in the arrival curve of the prefix callbacks: a step of
   the full chain's demand that is not a step of the last callback's demand makes the analysis re-examine
   the same job of the last callback at a later offset, against all the interference released up to that
   offset; shortening the period of the prefix callback moves that step away from the end of the busy
   window and the artefact disappears.  (The interfering curve used here, delta-min [10; 10; 200], is a
   burst of two further jobs 10 time units after the first.)  Case language (docs/CASELANG.md):
     (chain (dedicated) (rbf (periodic 100) (scalar 3)) (rbf (periodic 10) (scalar 1))
            (agg ((rbf (periodic 10) (scalar 1)) (rbf (periodic 100) (scalar 3))))
            (rbf (curve (dmin (10 10 200))) (scalar 6)) 100)                          = ok 14
     (chain (dedicated) (rbf (periodic 100) (scalar 3)) (rbf (periodic 9) (scalar 1))
            (agg ((rbf (periodic 9) (scalar 1)) (rbf (periodic 100) (scalar 3))))
            (rbf (curve (dmin (10 10 200))) (scalar 6)) 100)                          = ok 10
   In the first system the busy window is 10 long, the step offset 10 of the prefix callback lies exactly at
   its end and yields 14; in the second the busy window is 24 long, the offsets are 0, 9, 18 and the
   maximum is the 10 of offset 0. *)
Definition cx_last : Demand.RB := Demand.RBF (Arrival.Periodic 100) (Wcet.Scalar 3).
Definition cx_prefix (T : N) : Demand.RB := Demand.RBF (Arrival.Periodic T) (Wcet.Scalar 1).
Definition cx_other : Demand.RB := Demand.RBF (Arrival.CurveAB [10; 10; 200]) (Wcet.Scalar 6).

Lemma cx_prefix_ple : ple (Demand.sn (cx_prefix 10)) (Demand.sn (cx_prefix 9)).
Proof.
  intros d. cbn [Demand.sn cx_prefix Wcet.cost_of_jobs Arrival.na]. unfold div_ceil.
  pose proof (N.div_mod d 10 ltac:(lia)) as H1. pose proof (N.div_mod d 9 ltac:(lia)) as H2.
  pose proof (N.mod_lt d 10 ltac:(lia)) as H3. pose proof (N.mod_lt d 9 ltac:(lia)) as H4.
  generalize dependent (d / 10). generalize dependent (d / 9).
  generalize dependent (d mod 10). generalize dependent (d mod 9).
  intros s Hs r Hr q Hq p Hp.
  destruct (N.ltb_spec 0 r), (N.ltb_spec 0 s); lia.
Qed.

(* the harder system (shorter period of the prefix callback: a pointwise larger request bound of the prefix
   and of the full chain, everything else unchanged) gets the SMALLER bound, in both build profiles *)
Theorem chain_mono_refuted : forall dbg,
  Eval.e_chain dbg Supply.Dedicated cx_last (cx_prefix 10) (Demand.Agg [cx_prefix 10; cx_last]) cx_other 100 = ROk 14 /\
  Eval.e_chain dbg Supply.Dedicated cx_last (cx_prefix 9) (Demand.Agg [cx_prefix 9; cx_last]) cx_other 100 = ROk 10 /\
  ple (Demand.sn (cx_prefix 10)) (Demand.sn (cx_prefix 9)).
Proof.
  intros dbg. split; [|split].
  - destruct dbg; vm_compute; reflexivity.
  - destruct dbg; vm_compute; reflexivity.
  - exact cx_prefix_ple.
Qed.
Print Assumptions chain_mono_refuted.

(* FINDING.  With a NON-SCALAR cost model of the own demand, rta_polling_point_callback, rta_timer and
   rta_processing_chain are NOT monotone in the WCETs.  least_wcet_in_interval is the least WCET of ANY own
   job released in the interval, not the WCET of the job under analysis; raising the WCET of another
   frame (here the second frame, 1 -> 2) raises that minimum, which shortens the interference interval
   `A + R - own_wcet + 1` of the first job (WCET 2) although its own demand is unchanged: at offset 0 the
   least solution drops from 6 to 4, the overall bound from 6 to 5.  Case language (docs/CASELANG.md):
     (pp (dedicated) (rbf (periodic 3) (multiframe (2 1 1))) (agg ((rbf (sporadic 5 2) (scalar 2)))) 100)  = ok 6
     (pp (dedicated) (rbf (periodic 3) (multiframe (2 2 1))) (agg ((rbf (sporadic 5 2) (scalar 2)))) 100)  = ok 5
     (timer (dedicated) (rbf (periodic 3) (multiframe (2 1 1))) (agg ((rbf (sporadic 5 2) (scalar 2)))) 0 100) = ok 6
     (timer (dedicated) (rbf (periodic 3) (multiframe (2 2 1))) (agg ((rbf (sporadic 5 2) (scalar 2)))) 0 100) = ok 5
     (chain (dedicated) (rbf (periodic 3) (multiframe (2 1 1))) (agg ()) (agg ((agg ()) (rbf (periodic 3) (multiframe (2 1 1)))))
            (agg ((rbf (sporadic 5 2) (scalar 2)))) 100)                                                    = ok 6
     (chain ... (multiframe (2 2 1)) ... 100)                                                               = ok 5
   This is the class excluded by the hypothesis [Hgain] of [pp_mono] / [timer_mono] / [chain_mono]
   (own x + (c' - c) <= own' x: a larger least WCET must be paid for by every job).  In the tested
   multiframe families, hardening the arrival curve, the interference or the supply (frames unchanged)
   never produced a counterexample. *)
Definition mf_own (fr : list N) : Demand.RB := Demand.RBF (Arrival.Periodic 3) (Wcet.Multiframe fr).
Definition mf_intf : Demand.RB := Demand.Agg [Demand.RBF (Arrival.Sporadic 5 2) (Wcet.Scalar 2)].

Lemma mf_cost_le : forall n,
  Wcet.cost_of_jobs (Wcet.Multiframe [2; 1; 1]) n <= Wcet.cost_of_jobs (Wcet.Multiframe [2; 2; 1]) n.
Proof.
  intros n. unfold Wcet.cost_of_jobs.
  change (lenN [2; 1; 1]) with 3. change (lenN [2; 2; 1]) with 3. change (3 =? 0) with false. cbv iota.
  change (sumN [2; 1; 1]) with 4. change (sumN [2; 2; 1]) with 5.
  assert (Hm : forall m, m < 3 -> sumN (firstn (N.to_nat m) [2; 1; 1]) <= sumN (firstn (N.to_nat m) [2; 2; 1])).
  { intros m Hlt. assert (Hc : m = 0 \/ m = 1 \/ m = 2) by lia.
    destruct Hc as [-> | [-> | ->]]; vm_compute; intros H; discriminate H. }
  pose proof (Hm (n mod 3) (N.mod_lt n 3 ltac:(lia))) as H.
  revert H. generalize (sumN (firstn (N.to_nat (n mod 3)) [2; 1; 1])) (sumN (firstn (N.to_nat (n mod 3)) [2; 2; 1])) (n / 3).
  intros a b q H. lia.
Qed.

Lemma mf_own_ple : ple (Demand.sn (mf_own [2; 1; 1])) (Demand.sn (mf_own [2; 2; 1])).
Proof. intros d. cbn [Demand.sn mf_own]. apply mf_cost_le. Qed.

Theorem pp_mono_refuted : forall dbg,
  Eval.e_pp dbg Supply.Dedicated (mf_own [2; 1; 1]) mf_intf 100 = ROk 6 /\
  Eval.e_pp dbg Supply.Dedicated (mf_own [2; 2; 1]) mf_intf 100 = ROk 5 /\
  ple (Demand.sn (mf_own [2; 1; 1])) (Demand.sn (mf_own [2; 2; 1])).
Proof.
  intros dbg. split; [|split].
  - destruct dbg; vm_compute; reflexivity.
  - destruct dbg; vm_compute; reflexivity.
  - exact mf_own_ple.
Qed.
Print Assumptions pp_mono_refuted.

Theorem timer_mono_refuted : forall dbg,
  Eval.e_timer dbg Supply.Dedicated (mf_own [2; 1; 1]) mf_intf 0 100 = ROk 6 /\
  Eval.e_timer dbg Supply.Dedicated (mf_own [2; 2; 1]) mf_intf 0 100 = ROk 5 /\
  ple (Demand.sn (mf_own [2; 1; 1])) (Demand.sn (mf_own [2; 2; 1])).
Proof.
  intros dbg. split; [|split].
  - destruct dbg; vm_compute; reflexivity.
  - destruct dbg; vm_compute; reflexivity.
  - exact mf_own_ple.
Qed.
Print Assumptions timer_mono_refuted.

(* the same pair as a chain with an empty prefix *)
Theorem chain_mono_multiframe_refuted : forall dbg,
  Eval.e_chain dbg Supply.Dedicated (mf_own [2; 1; 1]) (Demand.Agg []) (Demand.Agg [Demand.Agg []; mf_own [2; 1; 1]]) mf_intf 100 = ROk 6 /\
  Eval.e_chain dbg Supply.Dedicated (mf_own [2; 2; 1]) (Demand.Agg []) (Demand.Agg [Demand.Agg []; mf_own [2; 2; 1]]) mf_intf 100 = ROk 5.
Proof.
  intros dbg. split; destruct dbg; vm_compute; reflexivity.
Qed.
Print Assumptions chain_mono_multiframe_refuted.

Lemma wf_supply_facts : forall sb, SupplyProofs.wf_sb sb ->
  (forall d t, Supply.st sb d <= t <-> d <= Supply.sbf sb t) /\ Supply.sbf sb 0 = 0 /\
  (forall t, Supply.sbf sb (t + 1) <= Supply.sbf sb t + 1).
Proof.
  intros sb Hwf. destruct (SupplyProofs.sbf_wf_ok sb Hwf) as (H0 & _ & Hlip).
  split; [exact (SupplyProofs.st_wf_exact sb Hwf)|]. split; assumption.
Qed.

Lemma na_zero_wf : forall ab, WellFormed.wf_ab ab -> Arrival.na ab 0 = 0.
Proof.
  intros ab Hwf.
  pose proof (EntryPoints.sn_zero (Demand.RBF ab (Wcet.Scalar 1))) as H.
  cbn [Demand.sn Wcet.cost_of_jobs WellFormed.wf_rb WellFormed.wf_cm] in H.
  specialize (H (conj Hwf I)). lia.
Qed.

(* own demand = one RBF with a scalar cost: a larger WCET, a larger arrival curve (more jitter, a shorter
   period), a larger interfering demand (larger parameters, added callbacks), a smaller supply *)
Theorem e_pp_mono_scalar : forall dbg sb sb' ab ab' C C' intf intf' limit,
  SupplyProofs.wf_sb sb -> SupplyProofs.wf_sb sb' -> ple (Supply.sbf sb') (Supply.sbf sb) ->
  WellFormed.wf_ab ab -> WellFormed.wf_ab ab' -> WellFormed.steps_exact_class ab -> WellFormed.steps_exact_class ab' ->
  ple (Arrival.na ab) (Arrival.na ab') -> 0 < Arrival.na ab 1 ->
  WellFormed.wf_rb intf -> WellFormed.wf_rb intf' -> ple (Demand.sn intf) (Demand.sn intf') ->
  1 <= C -> C <= C' ->
  rle (Eval.e_pp dbg sb (Demand.RBF ab (Wcet.Scalar C)) intf limit)
      (Eval.e_pp dbg sb' (Demand.RBF ab' (Wcet.Scalar C')) intf' limit).
Proof.
  intros dbg sb sb' ab ab' C C' intf intf' limit Hsb Hsb' Hless Hab Hab' Hcl Hcl' Hna H1 Hi Hi' Hintf HC HCC.
  destruct (wf_supply_facts sb Hsb) as (Hinv & H0 & Hlip).
  destruct (wf_supply_facts sb' Hsb') as (Hinv' & H0' & Hlip').
  unfold Eval.e_pp.
  change (Demand.sn (Demand.RBF ab (Wcet.Scalar C))) with (fun d => C * Arrival.na ab d).
  change (Demand.sn (Demand.RBF ab' (Wcet.Scalar C'))) with (fun d => C' * Arrival.na ab' d).
  change (Demand.lw (Demand.RBF ab (Wcet.Scalar C))) with (fun d => if 0 <? Arrival.na ab d then C else 0).
  change (Demand.lw (Demand.RBF ab' (Wcet.Scalar C'))) with (fun d => if 0 <? Arrival.na ab' d then C' else 0).
  change (Demand.rb_steps_upto (Demand.RBF ab (Wcet.Scalar C))) with (Arrival.steps_upto ab).
  change (Demand.rb_steps_upto (Demand.RBF ab' (Wcet.Scalar C'))) with (Arrival.steps_upto ab').
  apply (pp_mono_scalar _ _ _ _ Hinv Hinv' Hless H0 H0' Hlip Hlip'); try assumption.
  - apply EntryPoints.na_mono'. exact Hab.
  - apply EntryPoints.na_mono'. exact Hab'.
  - apply EntryPoints.sn_mono. exact Hi.
  - apply EntryPoints.sn_mono. exact Hi'.
  - apply EntryPoints.ab_steps_exact; assumption.
  - apply EntryPoints.ab_steps_exact; assumption.
  - apply na_zero_wf. exact Hab'.
Qed.
Print Assumptions e_pp_mono_scalar.

Theorem e_timer_mono_scalar : forall dbg sb sb' ab ab' C C' intf intf' B B' limit,
  SupplyProofs.wf_sb sb -> SupplyProofs.wf_sb sb' -> ple (Supply.sbf sb') (Supply.sbf sb) ->
  WellFormed.wf_ab ab -> WellFormed.wf_ab ab' -> WellFormed.steps_exact_class ab -> WellFormed.steps_exact_class ab' ->
  ple (Arrival.na ab) (Arrival.na ab') -> 0 < Arrival.na ab 1 ->
  WellFormed.wf_rb intf -> WellFormed.wf_rb intf' -> ple (Demand.sn intf) (Demand.sn intf') ->
  1 <= C -> C <= C' -> B <= B' ->
  rle (Eval.e_timer dbg sb (Demand.RBF ab (Wcet.Scalar C)) intf B limit)
      (Eval.e_timer dbg sb' (Demand.RBF ab' (Wcet.Scalar C')) intf' B' limit).
Proof.
  intros dbg sb sb' ab ab' C C' intf intf' B B' limit Hsb Hsb' Hless Hab Hab' Hcl Hcl' Hna H1 Hi Hi' Hintf HC HCC HB.
  destruct (wf_supply_facts sb Hsb) as (Hinv & H0 & Hlip).
  destruct (wf_supply_facts sb' Hsb') as (Hinv' & H0' & Hlip').
  unfold Eval.e_timer.
  change (Demand.sn (Demand.RBF ab (Wcet.Scalar C))) with (fun d => C * Arrival.na ab d).
  change (Demand.sn (Demand.RBF ab' (Wcet.Scalar C'))) with (fun d => C' * Arrival.na ab' d).
  change (Demand.lw (Demand.RBF ab (Wcet.Scalar C))) with (fun d => if 0 <? Arrival.na ab d then C else 0).
  change (Demand.lw (Demand.RBF ab' (Wcet.Scalar C'))) with (fun d => if 0 <? Arrival.na ab' d then C' else 0).
  change (Demand.rb_steps_upto (Demand.RBF ab (Wcet.Scalar C))) with (Arrival.steps_upto ab).
  change (Demand.rb_steps_upto (Demand.RBF ab' (Wcet.Scalar C'))) with (Arrival.steps_upto ab').
  apply (timer_mono_scalar _ _ _ _ Hinv Hinv' Hless H0 H0' Hlip Hlip'); try assumption.
  - apply EntryPoints.na_mono'. exact Hab.
  - apply EntryPoints.na_mono'. exact Hab'.
  - apply EntryPoints.sn_mono. exact Hi.
  - apply EntryPoints.sn_mono. exact Hi'.
  - apply EntryPoints.ab_steps_exact; assumption.
  - apply EntryPoints.ab_steps_exact; assumption.
  - apply na_zero_wf. exact Hab'.
Qed.
Print Assumptions e_timer_mono_scalar.

(* ------------------------------------------------------------------------------------------ *)
(* 6. the busy-window subchain analysis (RTSS'21, Theorem 3)                                   *)
(* ------------------------------------------------------------------------------------------ *)
From RTA.Proofs Require StepsProofs.

(* the hypotheses of the exhaustive characterisation C07_bw_subchain *)
Definition bw_wf (wl : list callback) (sc : list nat) : Prop :=
  (forall cb, In cb wl -> mono (cb_na cb) /\ mono (cb_cost cb) /\
                          forall h, StepsProofs.steps_spec (cb_na cb) (cb_steps cb h) h) /\
  (let e := eoc wl sc in mono (cb_na e) /\ mono (cb_cost e) /\
                         forall h, StepsProofs.steps_spec (cb_na e) (cb_steps e h) h) /\
  cb_na (eoc wl sc) 0 < cb_na (eoc wl sc) 1.

Lemma bw_wf_mono : forall wl sc, bw_wf wl sc -> forall cb, In cb wl -> cb_mono cb.
Proof. intros wl sc (H & _) cb Hcb. destruct (H cb Hcb) as (H1 & H2 & _). split; assumption. Qed.

Lemma bw_is_exh : forall sbf st, (forall d t, st d <= t <-> d <= sbf t) -> sbf 0 = 0 ->
  (forall t, sbf (t + 1) <= sbf t + 1) -> forall dbg wl sc limit, bw_wf wl sc ->
  bw_subchain dbg sbf st wl sc limit = exh_bw sbf (fun d => st d + 1) wl sc limit.
Proof.
  intros sbf st Hinv H0 Hlip dbg wl sc limit (H1 & H2 & H3).
  apply (bw_exhaustive_any_build sbf st (mr_sbf_ok sbf st Hinv H0 Hlip) Hinv); try assumption.
  intros d. lia.
Qed.

Section BwWorkloads.
  Variables (wl wl' : list callback) (sc : list nat).
  Hypothesis Hwl : Forall2 (fun a b => cb_le a b /\ cb_mono a) wl wl'.

  Lemma bw_rbf_le : forall cb cb' d d' a a', cb_le cb cb' -> cb_mono cb -> d <= d' -> a <= a' ->
    bw_rbf wl sc cb d a <= bw_rbf wl' sc cb' d' a'.
  Proof.
    intros cb cb' d d' a a' (Hk & _ & Hna & Hc) (Hmn & Hmc) Hd Ha. unfold bw_rbf.
    destruct (eoc_le wl wl' sc Hwl) as ((Hke & _) & _). rewrite <- Hk, <- Hke.
    pose proof (max_pp_le wl wl' sc Hwl) as Hpp.
    assert (H1 : cb_na cb d <= cb_na cb' d') by (pose proof (Hmn d d' Hd); pose proof (Hna d'); lia).
    assert (H2 : cb_na cb a + max_pp wl sc <= cb_na cb' a' + max_pp wl' sc)
      by (pose proof (Hmn a a' Ha); pose proof (Hna a'); lia).
    pose proof (capped_mono2 (cb_kind cb) (cb_kind (eoc wl sc)) _ _ _ _ H1 H2) as Hcap.
    pose proof (Hmc _ _ Hcap) as H3.
    pose proof (Hc (capped (cb_kind cb) (cb_kind (eoc wl sc)) (cb_na cb' d') (cb_na cb' a' + max_pp wl' sc))). lia.
  Qed.

  Lemma bw_interference_le : forall d d' a a', d <= d' -> a <= a' ->
    bw_interference wl sc d a <= bw_interference wl' sc d' a'.
  Proof.
    intros d d' a a' Hd Ha. unfold bw_interference.
    apply (sumN_Forall2 (fun a b => cb_le a b /\ cb_mono a)).
    - apply others_rel. exact Hwl.
    - intros x y (Hxy & Hx). apply bw_rbf_le; assumption.
  Qed.

  Lemma bw_self_le : forall a a', a <= a' -> bw_self_instances wl sc a <= bw_self_instances wl' sc a'.
  Proof.
    intros a a' Ha. unfold bw_self_instances.
    destruct (eoc_le wl wl' sc Hwl) as ((_ & _ & Hna & _) & (Hmn & _)).
    pose proof (Hmn (a + 1) (a' + 1) ltac:(lia)). pose proof (Hna (a' + 1)). lia.
  Qed.

  Lemma bw_max_rhs_le : forall a a', a <= a' -> bw_max_rhs wl sc a <= bw_max_rhs wl' sc a'.
  Proof.
    intros a a' Ha. unfold bw_max_rhs.
    pose proof (bw_interference_le a a' a a' Ha Ha).
    destruct (eoc_le wl wl' sc Hwl) as ((_ & _ & Hna & _) & (Hmn & _)).
    assert (Hn : cb_na (eoc wl sc) a <= cb_na (eoc wl' sc) a') by (pose proof (Hmn a a' Ha); pose proof (Hna a'); lia).
    pose proof (eoc_cost_le wl wl' sc Hwl _ _ Hn). lia.
  Qed.
End BwWorkloads.

Lemma Forall2_cb_refl : forall wl, (forall cb, In cb wl -> cb_mono cb) ->
  Forall2 (fun a b => cb_le a b /\ cb_mono a) wl wl.
Proof.
  intros wl H. apply Forall2_refl_in. intros x Hx. split; [apply cb_le_refl|apply H; exact Hx].
Qed.

Section BwMono.
  Variables (sbf st sbf' st' : N -> N).
  Hypothesis Hinv : forall d t, st d <= t <-> d <= sbf t.
  Hypothesis Hinv' : forall d t, st' d <= t <-> d <= sbf' t.
  Hypothesis Hless : ple sbf' sbf.
  Hypothesis Hsbf0 : sbf 0 = 0.  Hypothesis Hsbf0' : sbf' 0 = 0.
  Hypothesis Hlip : forall t, sbf (t + 1) <= sbf t + 1.  Hypothesis Hlip' : forall t, sbf' (t + 1) <= sbf' t + 1.
  Variables (wl wl' : list callback) (sc : list nat).
  Hypothesis HF : Forall2 cb_le wl wl'.
  Hypothesis Hwm : forall cb, In cb wl -> cb_mono cb.
  Hypothesis Hwm' : forall cb, In cb wl' -> cb_mono cb.

  Let HF2 : Forall2 (fun a b => cb_le a b /\ cb_mono a) wl wl' := Forall2_and_l cb_le cb_mono wl wl' HF Hwm.

  (* the analysis of one activation offset *)
  Lemma exh_bw_at_le : forall limit s ta v',
    exh_bw_at sbf' (fun d => st' d + 1) wl' sc limit s ta = Some v' ->
    exists v, exh_bw_at sbf (fun d => st d + 1) wl sc limit s ta = Some v /\ v <= v'.
  Proof.
    intros limit s ta v'. unfold exh_bw_at. cbv zeta.
    set (n := bw_self_instances wl sc ta). set (n' := bw_self_instances wl' sc ta).
    set (w := fun x => 1 + bw_interference wl sc x ta + cb_cost (eoc wl sc) n).
    set (w' := fun x => 1 + bw_interference wl' sc x ta + cb_cost (eoc wl' sc) n').
    destruct (least_sol sbf' limit 0 w') as [S'|] eqn:E'; [|discriminate].
    intros Hv'. injection Hv' as <-.
    assert (Hn : n <= n') by (apply (bw_self_le wl wl' sc HF2); apply N.le_refl).
    assert (Hww : forall x x', x <= x' -> w x <= w' x').
    { intros x x' Hx. unfold w, w'.
      pose proof (bw_interference_le wl wl' sc HF2 x x' ta ta Hx (N.le_refl _)).
      pose proof (eoc_cost_le wl wl' sc HF2 n n' Hn). lia. }
    assert (Hmw : mono w).
    { intros x y Hxy. unfold w.
      pose proof (bw_interference_le wl wl sc (Forall2_cb_refl wl Hwm) x y ta ta Hxy (N.le_refl _)). lia. }
    assert (Hmw' : mono w').
    { intros x y Hxy. unfold w'.
      pose proof (bw_interference_le wl' wl' sc (Forall2_cb_refl wl' Hwm') x y ta ta Hxy (N.le_refl _)). lia. }
    destruct (least_sol_le sbf sbf' limit 0 w w' S') as (S & E & HSS); [|exact E'|].
    { intros x. unfold sol. pose proof (Hww (N.max x 1) (N.max x 1) (N.le_refl _)). pose proof (Hless (0 + x)). lia. }
    rewrite E.
    destruct (least_sol_tight sbf Hsbf0 Hlip limit w S Hmw ltac:(intros x; unfold w; lia) E) as (_ & ET).
    destruct (least_sol_tight sbf' Hsbf0' Hlip' limit w' S' Hmw' ltac:(intros x; unfold w'; lia) E') as (_ & ET').
    rewrite ET, ET'.
    rewrite <- (st_is_inv_scan sbf st Hinv) by lia.
    rewrite <- (st_is_inv_scan sbf' st' Hinv') by lia.
    (* the cost function of the callback under analysis is monotone *)
    assert (Hc : cb_cost (eoc wl sc) n <= cb_cost (eoc wl sc) (n + 1)).
    { destruct (eoc_le wl wl' sc HF2) as (_ & (_ & Hmc)). apply Hmc. lia. }
    assert (Hc' : cb_cost (eoc wl' sc) n' <= cb_cost (eoc wl' sc) (n' + 1)).
    { destruct (eoc_le wl' wl' sc (Forall2_cb_refl wl' Hwm')) as (_ & (_ & Hmc)). apply Hmc. lia. }
    assert (Hc1 : cb_cost (eoc wl sc) (n + 1) <= cb_cost (eoc wl' sc) (n' + 1)).
    { apply (eoc_cost_le wl wl' sc HF2). lia. }
    pose proof (bw_interference_le wl wl' sc HF2 S S' ta ta HSS (N.le_refl _)) as HI.
    assert (Hst : st (w S - 1 + (cb_cost (eoc wl sc) (n + 1) - cb_cost (eoc wl sc) n))
                  <= st' (w' S' - 1 + (cb_cost (eoc wl' sc) (n' + 1) - cb_cost (eoc wl' sc) n'))).
    { apply (st_le_st' sbf st sbf' st' Hinv Hinv' Hless). unfold w, w'. lia. }
    eexists. split; [reflexivity|]. destruct s; lia.
  Qed.

  Theorem bw_subchain_mono : forall dbg limit, bw_wf wl sc -> bw_wf wl' sc ->
    rle (bw_subchain dbg sbf st wl sc limit) (bw_subchain dbg sbf' st' wl' sc limit).
  Proof.
    intros dbg limit Hwf Hwf'.
    rewrite (bw_is_exh sbf st Hinv Hsbf0 Hlip dbg wl sc limit Hwf).
    rewrite (bw_is_exh sbf' st' Hinv' Hsbf0' Hlip' dbg wl' sc limit Hwf').
    unfold exh_bw. cbv zeta.
    destruct (least_sol sbf' limit 0 (bw_max_rhs wl' sc)) as [m'|] eqn:E'.
    2:{ destruct (least_sol sbf limit 0 (bw_max_rhs wl sc)); [|exact I].
        match goal with |- rle (if ?b then _ else _) _ => destruct b end; exact I. }
    destruct (existsb is_none (map (exh_bw_at sbf' (fun d => st' d + 1) wl' sc limit (Nat.eqb (length sc) 1)) (rangeN 0 m')))
      eqn:EX'.
    { destruct (least_sol sbf limit 0 (bw_max_rhs wl sc)); [|exact I].
      match goal with |- rle (if ?b then _ else _) _ => destruct b end; exact I. }
    destruct (least_sol_le sbf sbf' limit 0 (bw_max_rhs wl sc) (bw_max_rhs wl' sc) m') as (m & E & Hmm); [|exact E'|].
    { intros x. unfold sol.
      pose proof (bw_max_rhs_le wl wl' sc HF2 (N.max x 1) (N.max x 1) (N.le_refl _)). pose proof (Hless (0 + x)). lia. }
    rewrite E.
    assert (Hall : forall ta, ta < m -> exists v v',
              exh_bw_at sbf (fun d => st d + 1) wl sc limit (Nat.eqb (length sc) 1) ta = Some v /\
              exh_bw_at sbf' (fun d => st' d + 1) wl' sc limit (Nat.eqb (length sc) 1) ta = Some v' /\ v <= v').
    { intros ta Hta.
      destruct (exh_bw_at sbf' (fun d => st' d + 1) wl' sc limit (Nat.eqb (length sc) 1) ta) as [v'|] eqn:Ev'.
      - destruct (exh_bw_at_le limit _ ta v' Ev') as (v & Ev & Hv). exists v, v'. repeat split; assumption.
      - exfalso. assert (HT : existsb is_none (map (exh_bw_at sbf' (fun d => st' d + 1) wl' sc limit (Nat.eqb (length sc) 1)) (rangeN 0 m')) = true); [|congruence].
        apply existsb_exists. exists None. split; [|reflexivity].
        rewrite <- Ev'. apply in_map. apply in_rangeN. lia. }
    destruct (existsb is_none (map (exh_bw_at sbf (fun d => st d + 1) wl sc limit (Nat.eqb (length sc) 1)) (rangeN 0 m))) eqn:EX.
    { exfalso. apply existsb_exists in EX. destruct EX as (o & Ho & Hnone).
      apply in_map_iff in Ho. destruct Ho as (ta & <- & Hta). apply in_rangeN in Hta.
      destruct (Hall ta ltac:(lia)) as (v & _ & Ev & _). rewrite Ev in Hnone. discriminate Hnone. }
    cbn [rle]. apply mr_maxN_le. intros x Hx.
    apply in_map_iff in Hx. destruct Hx as (o & <- & Ho).
    apply in_map_iff in Ho. destruct Ho as (ta & <- & Hta). apply in_rangeN in Hta.
    destruct (Hall ta ltac:(lia)) as (v & v' & Ev & Ev' & Hv). rewrite Ev. cbn [oval].
    transitivity v'; [exact Hv|]. apply mr_maxN_in.
    change v' with (oval (Some v')). apply in_map. rewrite <- Ev'. apply in_map. apply in_rangeN. lia.
  Qed.
End BwMono.
Print Assumptions bw_subchain_mono.

(* raising the limit never changes an Ok result *)
Theorem bw_subchain_limit : forall dbg (sbf st : N -> N) wl sc limit limit' R,
  (forall d t, st d <= t <-> d <= sbf t) -> sbf 0 = 0 -> (forall t, sbf (t + 1) <= sbf t + 1) ->
  bw_wf wl sc -> limit <= limit' ->
  bw_subchain dbg sbf st wl sc limit = ROk R -> bw_subchain dbg sbf st wl sc limit' = ROk R.
Proof.
  intros dbg sbf st wl sc limit limit' R Hinv H0 Hlip Hwf Hl.
  rewrite !(fun l => bw_is_exh sbf st Hinv H0 Hlip dbg wl sc l Hwf).
  unfold exh_bw. cbv zeta.
  destruct (least_sol sbf limit 0 (bw_max_rhs wl sc)) as [m|] eqn:E; [|discriminate].
  rewrite (least_sol_limit sbf limit limit' 0 _ m Hl E).
  destruct (existsb is_none (map (exh_bw_at sbf (fun d => st d + 1) wl sc limit (Nat.eqb (length sc) 1)) (rangeN 0 m))) eqn:EX;
    [discriminate|].
  assert (Eq : map (exh_bw_at sbf (fun d => st d + 1) wl sc limit' (Nat.eqb (length sc) 1)) (rangeN 0 m) =
               map (exh_bw_at sbf (fun d => st d + 1) wl sc limit (Nat.eqb (length sc) 1)) (rangeN 0 m)).
  { apply map_ext_in. intros ta Hta.
    assert (Hs : is_none (exh_bw_at sbf (fun d => st d + 1) wl sc limit (Nat.eqb (length sc) 1) ta) = false).
    { destruct (is_none _) eqn:EN; [|reflexivity]. exfalso.
      assert (HT : existsb is_none (map (exh_bw_at sbf (fun d => st d + 1) wl sc limit (Nat.eqb (length sc) 1)) (rangeN 0 m)) = true);
        [|congruence].
      apply existsb_exists. eexists. split; [apply in_map; exact Hta|exact EN]. }
    unfold exh_bw_at in Hs |- *. cbv zeta in Hs |- *.
    match type of Hs with is_none (match ?x with _ => _ end) = false => destruct x as [S|] eqn:ES end;
      [|discriminate Hs].
    rewrite (least_sol_limit sbf limit limit' 0 _ S Hl ES). reflexivity. }
  rewrite Eq, EX. intros H; exact H.
Qed.
Print Assumptions bw_subchain_limit.
