(* MultiframeBridge.v — the positive counterpart of [multiframe_first_frames_refuted] (GeneralCosts.v):
   jobs of a wcet::Multiframe task that cycle through a NON-INCREASING frame vector — starting at ANY
   frame, each job costing at most its frame — satisfy [blocks_bounded], i.e. what
   JobCostModel::cost_of_jobs promises and what the general-cost soundness theorems of C01-C05 assume
   ([respects_cost_models]).  Built on Proofs/MultiframeWindow.v (every cyclic window of n frames is
   bounded by cost_of_jobs n).  No axioms. *)
From Coq Require Import Arith NArith List Lia Bool.
From RTA.Model Require Import Base Arrival Wcet Demand Analyses Eval WellFormed.
From RTA.Spec Require Import Sched Events TaskModel Policies.
From RTA.Proofs Require Import GeneralCosts MultiframeWindow.
Import ListNotations.
Local Close Scope N_scope.
Local Open Scope nat_scope.

Definition jd : job := mkJob 0 0 0.

Lemma nth_skipn_shift : forall p (js : list job) i, nth i (skipn p js) jd = nth (p + i) js jd.
Proof.
  induction p as [|p IH]; intros js i; [reflexivity|].
  destruct js as [|x js]; [cbn [skipn]; destruct i; reflexivity|].
  cbn [skipn plus nth]. apply IH.
Qed.

Lemma firstn_cost_le : forall m (js : list job) (G : nat -> N), m <= length js ->
  (forall i, i < m -> (N.of_nat (j_cost (nth i js jd)) <= G i)%N) ->
  (N.of_nat (total_cost (firstn m js)) <= sumN (map G (seq 0 m)))%N.
Proof.
  induction m as [|m IH]; intros js G Hm HG.
  - cbn. lia.
  - destruct js as [|x js]; [cbn [length] in Hm; lia|].
    cbn [firstn]. unfold total_cost. cbn [map list_sum fold_right seq].
    rewrite <- seq_shift, map_map. cbn [sumN fold_right].
    assert (H0 : (N.of_nat (j_cost x) <= G O)%N) by (apply (HG O); lia).
    assert (H1 : (N.of_nat (total_cost (firstn m js)) <= sumN (map (fun i => G (S i)) (seq 0 m)))%N).
    { apply IH; [cbn [length] in Hm; lia|]. intros i Hi. apply (HG (S i)). lia. }
    unfold total_cost, sumN in H1. rewrite Nnat.Nat2N.inj_add.
    change (fold_right Init.Nat.add 0 (map j_cost (firstn m js))) with (list_sum (map j_cost (firstn m js))).
    lia.
Qed.

(* jobs cycling through a non-increasing frame vector from any starting frame s respect the cost model *)
Theorem multiframe_jobs_blocks_bounded : forall (l : list N) (s : N) (js : list job),
  l <> [] -> nonincreasing l ->
  (forall p, p < length js -> (N.of_nat (j_cost (nth p js jd)) <= frame_at l (s + N.of_nat p))%N) ->
  blocks_bounded (Multiframe l) js.
Proof.
  intros l s js Hl Hni Hjs p m Hpm.
  eapply N.le_trans; [|apply (multiframe_window_bound l (s + N.of_nat p)%N (N.of_nat m) Hl Hni)].
  unfold rangeN. rewrite Nnat.Nat2N.id, map_map. unfold block.
  apply firstn_cost_le.
  - rewrite skipn_length. lia.
  - intros i Hi. rewrite nth_skipn_shift.
    replace (s + N.of_nat p + (0 + N.of_nat i))%N with (s + N.of_nat (p + i))%N by lia.
    apply Hjs. lia.
Qed.
Print Assumptions multiframe_jobs_blocks_bounded.

(* non-vacuity: frames [3;1] (the reversal of the refuted vector [1;3]); two jobs costing 1 and 3, i.e. the
   cycle entered at the SECOND frame, are admitted *)
Example multiframe_bridge_example :
  blocks_bounded (Multiframe [3; 1]%N) [mkJob 0 0 1; mkJob 0 10 3].
Proof.
  apply (multiframe_jobs_blocks_bounded [3; 1]%N 1%N); [discriminate| |].
  - intros i j Hij Hj. cbn [length] in Hj. unfold nthN.
    destruct i as [|[|i]]; destruct j as [|[|j]]; cbn [nth]; lia.
  - intros p Hp. cbn [length] in Hp. destruct p as [|[|p]]; [vm_compute; discriminate|vm_compute; discriminate|lia].
Qed.

(* task-set level: if every task carries a non-increasing Multiframe cost model and its jobs, in SOME release order, cycle through
   the frames from SOME starting frame (each job costing at least 1 and at most its frame), the job set satisfies
   [respects_cost_models] -- the hypothesis of the general-cost soundness theorems (fifo_rta_sound_gen etc.) *)
Theorem multiframe_tasks_respect_cost_models : forall (tasks : list gtask) (jobs : list job),
  (forall j, In j jobs -> j_task j < length tasks /\ 1 <= j_cost j) ->
  (forall i, i < length tasks ->
     exists js l s, Permutation.Permutation js (jobs_of jobs i) /\ release_sorted js /\
       snd (nth i tasks gdflt) = Multiframe l /\ l <> [] /\ nonincreasing l /\
       forall p, p < length js -> (N.of_nat (j_cost (nth p js jd)) <= frame_at l (s + N.of_nat p))%N) ->
  respects_cost_models tasks jobs.
Proof.
  intros tasks jobs Hj Ht. split; [exact Hj|]. intros i Hi.
  destruct (Ht i Hi) as (js & l & s & Hp & Hs & Hcm & Hl & Hni & Hc).
  exists js. split; [exact Hp|]. split; [exact Hs|]. rewrite Hcm.
  apply (multiframe_jobs_blocks_bounded l s js Hl Hni Hc).
Qed.
Print Assumptions multiframe_tasks_respect_cost_models.

(* end to end, with no hypothesis about cost models left: the FIFO bound computed by the entry point is safe for every job set whose
   tasks' jobs cycle through their (non-increasing) Multiframe vectors *)
Theorem fifo_rta_sound_multiframe : forall dbg (tasks : list gtask) limit R jobs sched,
  Forall gtask_ok tasks ->
  e_fifo dbg (Agg (map grb_of tasks)) limit = ROk R ->
  valid jobs sched -> work_conserving jobs sched -> fifo_policy jobs sched ->
  respects_gcurves tasks jobs ->
  (forall j, In j jobs -> j_task j < length tasks /\ 1 <= j_cost j) ->
  (forall i, i < length tasks ->
     exists js l s, Permutation.Permutation js (jobs_of jobs i) /\ release_sorted js /\
       snd (nth i tasks gdflt) = Multiframe l /\ l <> [] /\ nonincreasing l /\
       forall p, p < length js -> (N.of_nat (j_cost (nth p js jd)) <= frame_at l (s + N.of_nat p))%N) ->
  forall k, k < length jobs -> completes_within jobs sched k (N.to_nat R).
Proof.
  intros dbg tasks limit R jobs sched Hok He Hv Hwc Hf Hc Hj Ht.
  apply (fifo_rta_sound_gen dbg tasks limit R jobs sched Hok He Hv Hwc Hf Hc).
  apply multiframe_tasks_respect_cost_models; assumption.
Qed.
Print Assumptions fifo_rta_sound_multiframe.
