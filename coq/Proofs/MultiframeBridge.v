(* MultiframeBridge.v — the positive counterpart of [multiframe_first_frames_refuted] (GeneralCosts.v):
   jobs of a wcet::Multiframe task that cycle through a NON-INCREASING frame vector — starting at ANY
   frame, each job costing at most its frame — satisfy [blocks_bounded], i.e. what
   JobCostModel::cost_of_jobs promises and what the general-cost soundness theorems of C01-C05 assume
   ([respects_cost_models]).  Built on Proofs/MultiframeWindow.v (every cyclic window of n frames is
   bounded by cost_of_jobs n).  No axioms. *)
From Coq Require Import Arith NArith List Lia Bool.
From RTA.Model Require Import Base Wcet.
From RTA.Spec Require Import Sched.
From RTA.Proofs Require Import GeneralCosts MultiframeWindow.
Import ListNotations.
Local Close Scope N_scope.
Local Open Scope nat_scope.

Definition jd : job := mkJob 0 0 0.

Lemma nth_skipn_shift : forall p (js : list job) i, nth i (skipn p js) jd = nth (p + i) js jd.
Proof.
  induction p as [|p IH]; intros js i; [reflexivity|].
  destruct js as [|x js]; [cbn [skipn]; destruct i; reflexivity|].
  cbn [skipn plus nth]. apply IH.
Qed.

Lemma firstn_cost_le : forall m (js : list job) (G : nat -> N), m <= length js ->
  (forall i, i < m -> (N.of_nat (j_cost (nth i js jd)) <= G i)%N) ->
  (N.of_nat (total_cost (firstn m js)) <= sumN (map G (seq 0 m)))%N.
Proof.
  induction m as [|m IH]; intros js G Hm HG.
  - cbn. lia.
  - destruct js as [|x js]; [cbn [length] in Hm; lia|].
    cbn [firstn]. unfold total_cost. cbn [map list_sum fold_right seq].
    rewrite <- seq_shift, map_map. cbn [sumN fold_right].
    assert (H0 : (N.of_nat (j_cost x) <= G O)%N) by (apply (HG O); lia).
    assert (H1 : (N.of_nat (total_cost (firstn m js)) <= sumN (map (fun i => G (S i)) (seq 0 m)))%N).
    { apply IH; [cbn [length] in Hm; lia|]. intros i Hi. apply (HG (S i)). lia. }
    unfold total_cost, sumN in H1. rewrite Nnat.Nat2N.inj_add.
    change (fold_right Init.Nat.add 0 (map j_cost (firstn m js))) with (list_sum (map j_cost (firstn m js))).
    lia.
Qed.

(* jobs cycling through a non-increasing frame vector from any starting frame s respect the cost model *)
Theorem multiframe_jobs_blocks_bounded : forall (l : list N) (s : N) (js : list job),
  l <> [] -> nonincreasing l ->
  (forall p, p < length js -> (N.of_nat (j_cost (nth p js jd)) <= frame_at l (s + N.of_nat p))%N) ->
  blocks_bounded (Multiframe l) js.
Proof.
  intros l s js Hl Hni Hjs p m Hpm.
  eapply N.le_trans; [|apply (multiframe_window_bound l (s + N.of_nat p)%N (N.of_nat m) Hl Hni)].
  unfold rangeN. rewrite Nnat.Nat2N.id, map_map. unfold block.
  apply firstn_cost_le.
  - rewrite skipn_length. lia.
  - intros i Hi. rewrite nth_skipn_shift.
    replace (s + N.of_nat p + (0 + N.of_nat i))%N with (s + N.of_nat (p + i))%N by lia.
    apply Hjs. lia.
Qed.
Print Assumptions multiframe_jobs_blocks_bounded.

(* non-vacuity: frames [3;1] (the reversal of the refuted vector [1;3]); two jobs costing 1 and 3, i.e. the
   cycle entered at the SECOND frame, are admitted *)
Example multiframe_bridge_example :
  blocks_bounded (Multiframe [3; 1]%N) [mkJob 0 0 1; mkJob 0 10 3].
Proof.
  apply (multiframe_jobs_blocks_bounded [3; 1]%N 1%N); [discriminate| |].
  - intros i j Hij Hj. cbn [length] in Hj. unfold nthN.
    destruct i as [|[|i]]; destruct j as [|[|j]]; cbn [nth]; lia.
  - intros p Hp. cbn [length] in Hp. destruct p as [|[|p]]; [vm_compute; discriminate|vm_compute; discriminate|lia].
Qed.
