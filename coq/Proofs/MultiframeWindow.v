(* MultiframeWindow.v — for a multiframe task with a non-increasing frame vector,
   cost_of_jobs n (the sum of the first n frames of the cyclic sequence) bounds the cost of EVERY
   run of n consecutive jobs, whatever frame the run starts at. *)
From Coq Require Import List NArith Arith Lia.
From RTA.Model Require Import Base Wcet.
Import ListNotations.

(* frame of the i-th job of a multiframe task whose jobs cycle through the vector l *)
Definition frame_at (l : list N) (i : N) : N := nthN l (N.to_nat (i mod lenN l)).

(* the frame vector is non-increasing *)
Definition nonincreasing (l : list N) : Prop :=
  forall i j, (i <= j)%nat -> (j < length l)%nat -> nthN l j <= nthN l i.

(* ------------------------------------------------------------------ concrete tests *)
Definition mfw_window (l : list N) (s n : N) : N :=
  sumN (map (fun i => frame_at l (s + i)) (rangeN 0 n)).
Definition mfw_check (l : list N) (S Nn : N) : bool :=
  forallb (fun s => forallb (fun n =>
     (mfw_window l s n <=? cost_of_jobs (Multiframe l) n)
     && (mfw_window l 0 n =? cost_of_jobs (Multiframe l) n)) (rangeN 0 Nn)) (rangeN 0 S).
Example mfw_tests :
  mfw_check [5;3;3;1] 9 12 = true /\ mfw_check [7] 4 6 = true /\
  mfw_check [4;4;2;2;2;0] 14 20 = true /\ mfw_check [9;1] 5 9 = true /\
  mfw_check [1;3] 3 3 = false.
Proof. vm_compute. repeat split. Qed.

(* ------------------------------------------------------------------ nat-indexed sums *)
Fixpoint sumf (n : nat) (f : nat -> N) : N :=
  match n with O => 0 | S k => sumf k f + f k end.

Lemma sumf_ext n f g : (forall i, (i < n)%nat -> f i = g i) -> sumf n f = sumf n g.
Proof.
  induction n as [|n IH]; intros H; cbn [sumf]; [reflexivity|].
  rewrite IH by (intros; apply H; lia). rewrite H by lia. reflexivity.
Qed.

Lemma sumf_le n f g : (forall i, (i < n)%nat -> f i <= g i) -> sumf n f <= sumf n g.
Proof.
  induction n as [|n IH]; intros H; cbn [sumf]; [lia|].
  assert (sumf n f <= sumf n g) by (apply IH; intros; apply H; lia).
  specialize (H n ltac:(lia)). lia.
Qed.

Lemma sumf_add a b f : sumf (a + b) f = sumf a f + sumf b (fun i => f (a + i)%nat).
Proof.
  induction b as [|b IH].
  - rewrite Nat.add_0_r. cbn [sumf]. lia.
  - rewrite Nat.add_succ_r. cbn [sumf]. rewrite IH. lia.
Qed.

Lemma sumf_head n f : sumf (S n) f = f O + sumf n (fun i => f (S i)).
Proof.
  change (S n) with (1 + n)%nat. rewrite sumf_add. cbn [sumf Nat.add]. lia.
Qed.

Lemma sumN_cons a l : sumN (a :: l) = a + sumN l.
Proof. reflexivity. Qed.

Lemma sumN_app a b : sumN (a ++ b) = sumN a + sumN b.
Proof.
  induction a as [|x a IH]; cbn [app].
  - change (sumN []) with 0. lia.
  - rewrite !sumN_cons, IH. lia.
Qed.

Lemma sumf_firstn : forall l r, (r <= length l)%nat ->
  sumf r (fun i => nth i l 0) = sumN (firstn r l).
Proof.
  induction l as [|a l IH]; intros r Hr.
  - destruct r; [reflexivity | cbn in Hr; lia].
  - destruct r as [|r]; [reflexivity|].
    rewrite sumf_head. cbv beta. cbn [nth firstn]. rewrite sumN_cons.
    rewrite IH by (cbn in Hr; lia). reflexivity.
Qed.

Lemma sumN_range g a n :
  sumN (map g (rangeN a n)) = sumf (N.to_nat n) (fun i => g (a + N.of_nat i)).
Proof.
  unfold rangeN. generalize (N.to_nat n) as k. induction k as [|k IH]; [reflexivity|].
  rewrite seq_S, !map_app, sumN_app, IH. cbn [map Nat.add]. rewrite sumN_cons.
  change (sumN []) with 0. cbn [sumf]. lia.
Qed.

(* ------------------------------------------------------------------ the cyclic sequence on nat *)
Definition fn (l : list N) (i : nat) : N := nth (i mod length l)%nat l 0.

Lemma fn_small l i : (i < length l)%nat -> fn l i = nth i l 0.
Proof. intros H. unfold fn. rewrite Nat.mod_small; auto. Qed.

Lemma fn_shift l i : length l <> O -> fn l (i + length l) = fn l i.
Proof.
  intros H. unfold fn. replace (i + length l)%nat with (i + 1 * length l)%nat by lia.
  rewrite Nat.mod_add by assumption. reflexivity.
Qed.

Lemma fn_mod l a i : length l <> O -> fn l (a mod length l + i) = fn l (a + i).
Proof. intros H. unfold fn. rewrite Nat.add_mod_idemp_l; auto. Qed.

(* (a) a full period sums to sumN l whatever its start *)
Lemma W_full l : length l <> O -> forall s,
  sumf (length l) (fun i => fn l (s + i)) = sumN l.
Proof.
  intros Hm. induction s as [|s IH].
  - rewrite (sumf_ext _ _ (fun i => nth i l 0)).
    + rewrite sumf_firstn by lia. rewrite firstn_all. reflexivity.
    + intros i Hi. cbn [Nat.add]. apply fn_small; auto.
  - rewrite (sumf_ext _ _ (fun i => fn l (s + S i))) by (intros; f_equal; lia).
    pose proof (sumf_head (length l) (fun i => fn l (s + i))) as H1.
    cbn [sumf] in H1. cbv beta in H1. rewrite fn_shift in H1 by assumption.
    rewrite Nat.add_0_r in H1. rewrite IH in H1. lia.
Qed.

Lemma W_mult l : length l <> O -> forall q r s,
  sumf (q * length l + r) (fun i => fn l (s + i))
  = N.of_nat q * sumN l + sumf r (fun i => fn l (s + i)).
Proof.
  intros Hm. induction q as [|q IH]; intros r s.
  - cbn [Nat.mul Nat.add]. lia.
  - replace (S q * length l + r)%nat with (length l + (q * length l + r))%nat by lia.
    rewrite sumf_add. cbv beta. rewrite W_full by assumption.
    rewrite (sumf_ext (q * length l + r) (fun i => fn l (s + (length l + i)))
                      (fun i => fn l (s + i))).
    + rewrite IH. lia.
    + intros i Hi. replace (s + (length l + i))%nat with (s + i + length l)%nat by lia.
      apply fn_shift; auto.
Qed.

(* (b) wrapped partial window *)
Lemma W_wrap l : nonincreasing l -> forall s k, (s < length l)%nat -> (k <= s)%nat ->
  sumf ((length l - s) + k) (fun i => fn l (s + i))
  <= sumf ((length l - s) + k) (fun i => nth i l 0).
Proof.
  intros H s k Hs Hk. unfold nonincreasing, nthN in H.
  assert (E1 : sumf ((length l - s) + k) (fun i => fn l (s + i))
               = sumf (length l - s) (fun i => fn l (s + i)) + sumf k (fun i => nth i l 0)).
  { rewrite sumf_add. f_equal. apply sumf_ext; intros i Hi. cbv beta.
    replace (s + (length l - s + i))%nat with (i + length l)%nat by lia.
    rewrite fn_shift by lia. apply fn_small; lia. }
  assert (E2 : sumf ((length l - s) + k) (fun i => nth i l 0)
               = sumf k (fun i => nth i l 0) + sumf (length l - s) (fun i => nth (k + i) l 0)).
  { rewrite (Nat.add_comm (length l - s) k). rewrite sumf_add. reflexivity. }
  assert (E3 : sumf (length l - s) (fun i => fn l (s + i))
               <= sumf (length l - s) (fun i => nth (k + i) l 0)).
  { apply sumf_le; intros i Hi. rewrite fn_small by lia. apply H; lia. }
  rewrite E1, E2. lia.
Qed.

Lemma W_part l : nonincreasing l -> forall s r, (s < length l)%nat -> (r <= length l)%nat ->
  sumf r (fun i => fn l (s + i)) <= sumf r (fun i => nth i l 0).
Proof.
  intros H s r Hs Hr. destruct (le_lt_dec (s + r) (length l)) as [Hc|Hc].
  - unfold nonincreasing, nthN in H.
    apply sumf_le; intros i Hi. rewrite fn_small by lia. apply H; lia.
  - replace r with ((length l - s) + (s + r - length l))%nat by lia.
    apply W_wrap; auto; lia.
Qed.

(* (c) *)
Lemma W_bound l s n : length l <> O -> nonincreasing l ->
  sumf n (fun i => fn l (s + i))
  <= N.of_nat (n / length l) * sumN l + sumN (firstn (n mod length l) l).
Proof.
  intros Hm H.
  pose proof (Nat.div_mod n (length l) Hm) as E.
  pose proof (Nat.mod_upper_bound n (length l) Hm) as Hr.
  remember (n / length l)%nat as q. remember (n mod length l)%nat as r.
  rewrite E. rewrite (Nat.mul_comm (length l) q). rewrite W_mult by assumption.
  apply N.add_le_mono_l.
  rewrite <- sumf_firstn by lia.
  rewrite (sumf_ext _ _ (fun i => fn l (s mod length l + i)))
    by (intros; symmetry; apply fn_mod; auto).
  apply W_part; auto; [apply Nat.mod_upper_bound; auto | lia].
Qed.

Lemma W_first l n : length l <> O ->
  sumf n (fun i => fn l (0 + i))
  = N.of_nat (n / length l) * sumN l + sumN (firstn (n mod length l) l).
Proof.
  intros Hm.
  pose proof (Nat.div_mod n (length l) Hm) as E.
  pose proof (Nat.mod_upper_bound n (length l) Hm) as Hr.
  remember (n / length l)%nat as q. remember (n mod length l)%nat as r.
  rewrite E. rewrite (Nat.mul_comm (length l) q). rewrite W_mult by assumption.
  f_equal. rewrite <- sumf_firstn by lia.
  apply sumf_ext; intros i Hi. cbn [Nat.add]. apply fn_small; lia.
Qed.

(* ------------------------------------------------------------------ bridge to the model *)
Lemma length_nz (l : list N) : l <> [] -> length l <> O.
Proof. destruct l; [congruence | cbn; discriminate]. Qed.

Lemma frame_fn l s i : frame_at l (s + N.of_nat i) = fn l (N.to_nat s + i).
Proof.
  unfold frame_at, fn, nthN, lenN. f_equal.
  rewrite Nnat.N2Nat.inj_mod, Nnat.N2Nat.inj_add, !Nnat.Nat2N.id. reflexivity.
Qed.

Lemma cost_unfold l n : l <> [] ->
  cost_of_jobs (Multiframe l) n
  = N.of_nat (N.to_nat n / length l) * sumN l
    + sumN (firstn (N.to_nat n mod length l) l).
Proof.
  intros Hl. pose proof (length_nz l Hl) as Hm.
  unfold cost_of_jobs. destruct (N.eqb_spec (lenN l) 0) as [E|E]; [unfold lenN in E; lia|].
  unfold lenN. rewrite Nnat.N2Nat.inj_mod, Nnat.Nat2N.id.
  rewrite Nnat.Nat2N.inj_div, Nnat.N2Nat.id. lia.
Qed.

(* 1. job_cost_iter of the model is the cyclic frame sequence starting at the first frame *)
Lemma job_costs_multiframe : forall l n, l <> [] ->
  job_costs (Multiframe l) n = map (frame_at l) (rangeN 0 n).
Proof.
  intros l n Hl. pose proof (length_nz l Hl) as Hm.
  unfold job_costs. destruct (N.eqb_spec (lenN l) 0) as [E|E]; [unfold lenN in E; lia|].
  reflexivity.
Qed.

(* 2. MAIN THEOREM *)
Theorem multiframe_window_bound : forall l s n, l <> [] -> nonincreasing l ->
  sumN (map (fun i => frame_at l (s + i)) (rangeN 0 n)) <= cost_of_jobs (Multiframe l) n.
Proof.
  intros l s n Hl Hni. pose proof (length_nz l Hl) as Hm.
  rewrite sumN_range.
  rewrite (sumf_ext _ _ (fun i => fn l (N.to_nat s + i)))
    by (intros; rewrite N.add_0_l; apply frame_fn).
  rewrite cost_unfold by assumption.
  apply W_bound; auto.
Qed.
Print Assumptions multiframe_window_bound.

(* 3. attained by the run that starts at the first frame *)
Theorem multiframe_cost_is_first_window : forall l n, l <> [] ->
  cost_of_jobs (Multiframe l) n = sumN (map (frame_at l) (rangeN 0 n)).
Proof.
  intros l n Hl. pose proof (length_nz l Hl) as Hm.
  rewrite sumN_range.
  rewrite (sumf_ext _ _ (fun i => fn l (0 + i))).
  - rewrite cost_unfold by assumption. symmetry. apply W_first; auto.
  - intros i Hi. rewrite N.add_0_l. cbn [Nat.add].
    rewrite <- (N.add_0_l (N.of_nat i)). rewrite frame_fn. reflexivity.
Qed.
Print Assumptions multiframe_cost_is_first_window.

(* 4. non-vacuity / sharpness *)
Example mfw_example : nonincreasing [3; 1] /\
  sumN (map (fun i => frame_at [1; 3] (1 + i)) (rangeN 0 1)) = 3 /\
  cost_of_jobs (Multiframe [1; 3]) 1 = 1.
Proof.
  split; [|split; vm_compute; reflexivity].
  intros i j Hij Hj. cbn [length] in Hj. unfold nthN.
  destruct j as [|[|j]]; destruct i as [|[|i]]; try lia; cbn [nth]; lia.
Qed.
