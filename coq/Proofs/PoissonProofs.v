(* PoissonProofs.v — property C15: the Poisson quantile computed by
   arrival::ApproximatedPoisson::number_arrivals.

   Part A (real numbers): pmf, cdf, is_quantile; the probabilities are non-negative and sum to 1,
   the (1-eps) quantile exists and is unique, is 0 for mean 0, and is non-decreasing in the mean
   (d/dm cdf m n = - pmf m n).
   Link to Model/Poisson.v: the exact rational partial sums (psum_correct), the enclosure of e^m
   (exp_enclosure: geometric remainder bound), soundness of the exact band test
   (quantile_band_sound), of the fast fixed-point band test (band_fast_sound), of the automatic
   choice of parameters (quantile_band_auto_sound) and of the harness entry point
   (poisson_check_sound).

   This file uses the real numbers of the standard library and Coquelicot (allowed for this task);
   the only axioms are those of these libraries (see the Print Assumptions at the end). *)
From Coq Require Import ZArith QArith Qround Qreals Reals Lra Lia List Bool Psatz Wf_nat.
From Coquelicot Require Import Coquelicot.
From RTA.Model Require Import Poisson.
Local Open Scope R_scope.

Definition pmf (m : R) (k : nat) : R := exp (- m) * m ^ k / INR (fact k).
Definition cdf (m : R) (n : nat) : R := sum_f_R0 (pmf m) n.
Definition is_quantile (m eps : R) (n : nat) : Prop :=
  1 - eps <= cdf m n /\ forall k, (k < n)%nat -> cdf m k < 1 - eps.

Definition eterm (m : R) (k : nat) : R := m ^ k / INR (fact k).
Definition esum (m : R) (n : nat) : R := sum_f_R0 (eterm m) n.

Ltac nz := repeat split; first [apply INR_fact_neq_0 | apply not_0_INR; discriminate].

Lemma eterm_nonneg m k : 0 <= m -> 0 <= eterm m k.
Proof.
  intros Hm. unfold eterm. apply Rmult_le_pos.
  - apply pow_le; exact Hm.
  - left. apply Rinv_0_lt_compat, INR_fact_lt_0.
Qed.

Lemma eterm_pos m k : 0 < m -> 0 < eterm m k.
Proof.
  intros Hm. unfold eterm. apply Rmult_lt_0_compat.
  - apply pow_lt; exact Hm.
  - apply Rinv_0_lt_compat, INR_fact_lt_0.
Qed.

Lemma eterm_S m k : eterm m (S k) = eterm m k * (m / INR (S k)).
Proof.
  unfold eterm. rewrite fact_simpl, mult_INR. simpl pow.
  field. nz.
Qed.

Lemma pmf_eterm m k : pmf m k = exp (- m) * eterm m k.
Proof. unfold pmf, eterm. field. apply INR_fact_neq_0. Qed.

Lemma cdf_esum m n : cdf m n = exp (- m) * esum m n.
Proof.
  unfold cdf, esum. induction n as [|n IH].
  - simpl. apply pmf_eterm.
  - rewrite !tech5, IH, pmf_eterm. ring.
Qed.

Lemma esum_S m n : esum m (S n) = esum m n + eterm m (S n).
Proof. unfold esum. apply tech5. Qed.

Lemma esum_0 m : esum m 0 = 1.
Proof. unfold esum, eterm. simpl. field. Qed.

Lemma esum_pos m n : 0 <= m -> 1 <= esum m n.
Proof.
  intros Hm. induction n as [|n IH].
  - rewrite esum_0. lra.
  - rewrite esum_S. pose proof (eterm_nonneg m (S n) Hm). lra.
Qed.

Lemma esum_mono m n1 n2 : 0 <= m -> (n1 <= n2)%nat -> esum m n1 <= esum m n2.
Proof.
  intros Hm Hle. induction Hle as [|n2 Hle IH].
  - lra.
  - rewrite esum_S. pose proof (eterm_nonneg m (S n2) Hm). lra.
Qed.

Lemma esum_cv m : Un_cv (esum m) (exp m).
Proof.
  unfold exp. destruct (exist_exp m) as [l Hl]. simpl.
  unfold exp_in, infinite_sum in Hl. intros eps Heps.
  destruct (Hl eps Heps) as [N HN]. exists N. intros n Hn.
  replace (esum m n) with (sum_f_R0 (fun i : nat => / INR (fact i) * m ^ i) n).
  - apply HN, Hn.
  - unfold esum. apply sum_eq. intros i _. unfold eterm. field. apply INR_fact_neq_0.
Qed.

Lemma esum_le_exp m n : 0 <= m -> esum m n <= exp m.
Proof.
  intros Hm. unfold esum. apply sum_incr.
  - exact (esum_cv m).
  - intros k. apply eterm_nonneg, Hm.
Qed.

Lemma esum_lt_exp m n : 0 < m -> esum m n < exp m.
Proof.
  intros Hm. apply Rlt_le_trans with (esum m (S n)).
  - rewrite esum_S. pose proof (eterm_pos m (S n) Hm). lra.
  - apply esum_le_exp. lra.
Qed.

Lemma exp_neg_mul m : exp (- m) * exp m = 1.
Proof. rewrite <- exp_plus. replace (- m + m) with 0 by ring. apply exp_0. Qed.

Theorem pmf_nonneg : forall m k, 0 <= m -> 0 <= pmf m k.
Proof.
  intros m k Hm. rewrite pmf_eterm. apply Rmult_le_pos.
  - left. apply exp_pos.
  - apply eterm_nonneg, Hm.
Qed.

Theorem cdf_mono_n : forall m n1 n2, 0 <= m -> (n1 <= n2)%nat -> cdf m n1 <= cdf m n2.
Proof.
  intros m n1 n2 Hm Hle. rewrite !cdf_esum. apply Rmult_le_compat_l.
  - left. apply exp_pos.
  - apply esum_mono; assumption.
Qed.

Theorem cdf_pos : forall m n, 0 <= m -> 0 < cdf m n.
Proof.
  intros m n Hm. rewrite cdf_esum. apply Rmult_lt_0_compat.
  - apply exp_pos.
  - pose proof (esum_pos m n Hm). lra.
Qed.

Theorem cdf_le_1 : forall m n, 0 <= m -> cdf m n <= 1.
Proof.
  intros m n Hm. rewrite cdf_esum, <- (exp_neg_mul m). apply Rmult_le_compat_l.
  - left. apply exp_pos.
  - apply esum_le_exp, Hm.
Qed.

Theorem cdf_lt_1 : forall m n, 0 < m -> cdf m n < 1.
Proof.
  intros m n Hm. rewrite cdf_esum, <- (exp_neg_mul m). apply Rmult_lt_compat_l.
  - apply exp_pos.
  - apply esum_lt_exp, Hm.
Qed.

(* the Poisson probabilities sum to 1 *)
Theorem cdf_tends_to_1 : forall m, Un_cv (cdf m) 1.
Proof.
  intros m. rewrite <- (exp_neg_mul m).
  assert (H : Un_cv (fun i => exp (- m) * esum m i) (exp (- m) * exp m)).
  { apply CV_mult with (An := fun _ => exp (- m)).
    - intros eps Heps. exists 0%nat. intros n _. unfold R_dist.
      rewrite Rminus_diag_eq by reflexivity. rewrite Rabs_R0. exact Heps.
    - apply esum_cv. }
  intros eps Heps. destruct (H eps Heps) as [N HN]. exists N. intros n Hn.
  rewrite cdf_esum. apply HN, Hn.
Qed.

Theorem cdf_zero_mean : forall n, cdf 0 n = 1.
Proof.
  intros n. rewrite cdf_esum. rewrite Ropp_0, exp_0, Rmult_1_l.
  induction n as [|n IH].
  - apply esum_0.
  - rewrite esum_S, IH. unfold eterm. simpl pow. rewrite Rmult_0_l. unfold Rdiv. ring.
Qed.

(* existence and uniqueness of the quantile *)
Lemma quantile_reached m eps : 0 < eps -> exists n, 1 - eps <= cdf m n.
Proof.
  intros Heps. destruct (cdf_tends_to_1 m eps Heps) as [N HN].
  exists N. specialize (HN N (Nat.le_refl N)). unfold R_dist in HN.
  apply Rabs_def2 in HN. lra.
Qed.

Theorem quantile_exists_unique :
  forall m eps, 0 <= m -> 0 < eps < 1 -> exists! n, is_quantile m eps n.
Proof.
  intros m eps Hm [Heps0 Heps1].
  destruct (dec_inh_nat_subset_has_unique_least_element (fun n => 1 - eps <= cdf m n))
    as [n [[Hn Hleast] Huniq]].
  - intros n. destruct (Rle_dec (1 - eps) (cdf m n)); [left | right]; assumption.
  - apply quantile_reached, Heps0.
  - exists n. split.
    + split; [exact Hn|]. intros k Hk. apply Rnot_le_lt. intros Hc.
      specialize (Hleast k Hc). lia.
    + intros n' [Hn' Hlt']. apply Huniq. split; [exact Hn'|].
      intros k Hk. destruct (le_lt_dec n' k) as [Hle|Hlt]; [exact Hle|].
      specialize (Hlt' k Hlt). lra.
Qed.

Theorem quantile_zero_mean : forall eps, 0 < eps < 1 -> is_quantile 0 eps 0.
Proof.
  intros eps [H0 H1]. split.
  - rewrite cdf_zero_mean. lra.
  - intros k Hk. lia.
Qed.

(* d/dm cdf m n = - pmf m n *)
Lemma is_derive_exp_pow (n : nat) (c m : R) :
  is_derive (fun x : R => exp (- x) * x ^ n * c) m
            (exp (- m) * (INR n * m ^ pred n) * c - exp (- m) * m ^ n * c).
Proof.
  auto_derive; [exact I|]. ring.
Qed.

Lemma is_derive_pmf_0 m : is_derive (fun x => pmf x 0) m (- pmf m 0).
Proof.
  apply is_derive_ext with (f := fun x : R => exp (- x) * x ^ 0 * / INR (fact 0)).
  - intros t. reflexivity.
  - replace (- pmf m 0) with
      (exp (- m) * (INR 0 * m ^ pred 0) * / INR (fact 0) - exp (- m) * m ^ 0 * / INR (fact 0)).
    + apply is_derive_exp_pow.
    + unfold pmf. simpl. field.
Qed.

Lemma is_derive_pmf_S m k : is_derive (fun x => pmf x (S k)) m (pmf m k - pmf m (S k)).
Proof.
  apply is_derive_ext with (f := fun x : R => exp (- x) * x ^ (S k) * / INR (fact (S k))).
  - intros t. reflexivity.
  - replace (pmf m k - pmf m (S k)) with
      (exp (- m) * (INR (S k) * m ^ pred (S k)) * / INR (fact (S k))
       - exp (- m) * m ^ (S k) * / INR (fact (S k))).
    + apply is_derive_exp_pow.
    + unfold pmf. replace (pred (S k)) with k by reflexivity.
      rewrite fact_simpl, mult_INR. field. nz.
Qed.

Lemma is_derive_cdf n m : is_derive (fun x => cdf x n) m (- pmf m n).
Proof.
  induction n as [|n IH].
  - unfold cdf. simpl. apply is_derive_pmf_0.
  - unfold cdf in *. 
    apply is_derive_ext with (f := fun x => plus (sum_f_R0 (pmf x) n) (pmf x (S n))).
    + intros t. rewrite tech5. reflexivity.
    + replace (- pmf m (S n)) with (plus (- pmf m n) (pmf m n - pmf m (S n))) by (unfold plus; simpl; ring).
      apply (is_derive_plus (fun x => sum_f_R0 (pmf x) n) (fun x => pmf x (S n))).
      * exact IH.
      * apply is_derive_pmf_S.
Qed.

Theorem cdf_antitone_in_mean : forall n m1 m2, 0 <= m1 <= m2 -> cdf m2 n <= cdf m1 n.
Proof.
  intros n m1 m2 [H1 H12].
  destruct (MVT_gen (fun x => cdf x n) m1 m2 (fun x => - pmf x n)) as [c [Hc Heq]].
  - intros x _. apply is_derive_cdf.
  - intros x _. apply continuity_pt_filterlim.
    apply (ex_derive_continuous (fun x => cdf x n)). eexists. apply is_derive_cdf.
  - rewrite Rmin_left, Rmax_right in Hc by exact H12.
    assert (Hp : 0 <= pmf c n) by (apply pmf_nonneg; lra).
    assert (0 <= pmf c n * (m2 - m1)) by (apply Rmult_le_pos; lra).
    lra.
Qed.

Corollary quantile_monotone_in_mean :
  forall eps m1 m2 n1 n2, 0 <= m1 <= m2 ->
    is_quantile m1 eps n1 -> is_quantile m2 eps n2 -> (n1 <= n2)%nat.
Proof.
  intros eps m1 m2 n1 n2 Hm [_ Hlt1] [Hge2 _].
  destruct (le_lt_dec n1 n2) as [Hle|Hlt]; [exact Hle|].
  specialize (Hlt1 n2 Hlt). pose proof (cdf_antitone_in_mean n2 m1 m2 Hm). lra.
Qed.


(* the band test with tolerance 0 characterises the quantile; with tolerance tau it places n between
   the quantiles for eps+tau and eps-tau *)
Theorem is_quantile_iff_band :
  forall m eps n, 0 <= m ->
    (is_quantile m eps n <->
     1 - eps <= cdf m n /\ (n = 0%nat \/ cdf m (n - 1) < 1 - eps)).
Proof.
  intros m eps n Hm. split.
  - intros [H1 H2]. split; [exact H1|]. destruct n as [|n]; [left; reflexivity | right].
    apply H2. lia.
  - intros [H1 H2]. split; [exact H1|]. intros k Hk. destruct H2 as [H2|H2]; [lia|].
    apply Rle_lt_trans with (cdf m (n - 1)); [|exact H2]. apply cdf_mono_n; [exact Hm | lia].
Qed.

Theorem band_between_quantiles :
  forall m eps tau n nlo nhi, 0 <= m ->
    1 - eps - tau <= cdf m n ->
    (n = 0%nat \/ cdf m (n - 1) < 1 - eps + tau) ->
    is_quantile m (eps + tau) nlo -> is_quantile m (eps - tau) nhi ->
    (nlo <= n <= nhi)%nat.
Proof.
  intros m eps tau n nlo nhi Hm H1 H2 [_ Hlo] [Hhi _]. split.
  - destruct (le_lt_dec nlo n) as [Hle|Hlt]; [exact Hle|]. specialize (Hlo n Hlt). lra.
  - destruct (le_lt_dec n nhi) as [Hle|Hlt]; [exact Hle|]. destruct H2 as [H2|H2]; [lia|].
    assert (cdf m nhi <= cdf m (n - 1)) by (apply cdf_mono_n; [exact Hm | lia]). lra.
Qed.

(* ================================================================================= *)
(* Remainder bound for the exponential series                                          *)
(* ================================================================================= *)

Lemma eterm_tail m N j :
  0 <= m -> eterm m (S N + j) <= eterm m (S N) * (m / (INR N + 2)) ^ j.
Proof.
  intros Hm. induction j as [|j IH].
  - rewrite Nat.add_0_r. simpl. lra.
  - replace (S N + S j)%nat with (S (S N + j)) by lia. rewrite eterm_S. simpl pow.
    assert (Hpos : 0 < INR N + 2) by (pose proof (pos_INR N); lra).
    assert (Hr : m / INR (S (S N + j)) <= m / (INR N + 2)).
    { unfold Rdiv. apply Rmult_le_compat_l; [exact Hm|].
      apply Rinv_le_contravar; [exact Hpos|].
      rewrite !S_INR, plus_INR, S_INR. pose proof (pos_INR j). lra. }
    assert (H0 : 0 <= m / INR (S (S N + j))).
    { apply Rmult_le_pos; [exact Hm|]. left. apply Rinv_0_lt_compat, lt_0_INR. lia. }
    pose proof (eterm_nonneg m (S N + j) Hm) as Ht.
    apply Rle_trans with (eterm m (S N + j) * (m / (INR N + 2))).
    + apply Rmult_le_compat_l; assumption.
    + replace (eterm m (S N) * (m / (INR N + 2) * (m / (INR N + 2)) ^ j))
        with (eterm m (S N) * (m / (INR N + 2)) ^ j * (m / (INR N + 2))) by ring.
      apply Rmult_le_compat_r; [|exact IH].
      apply Rmult_le_pos; [exact Hm|]. left. apply Rinv_0_lt_compat, Hpos.
Qed.

Lemma esum_tail m N J :
  0 <= m ->
  esum m (S N + J) <= esum m N + eterm m (S N) * sum_f_R0 (pow (m / (INR N + 2))) J.
Proof.
  intros Hm. induction J as [|J IH].
  - rewrite Nat.add_0_r, esum_S. simpl. lra.
  - replace (S N + S J)%nat with (S (S N + J)) by lia. rewrite esum_S, tech5.
    pose proof (eterm_tail m N (S J) Hm) as Ht.
    replace (S N + S J)%nat with (S (S N + J)) in Ht by lia. lra.
Qed.

Lemma geo_sum_bound r J : 0 <= r < 1 -> sum_f_R0 (pow r) J <= / (1 - r).
Proof.
  intros [H0 H1]. rewrite tech3 by lra. unfold Rdiv.
  rewrite <- (Rmult_1_l (/ (1 - r))) at 2.
  apply Rmult_le_compat_r.
  - left. apply Rinv_0_lt_compat. lra.
  - pose proof (pow_le r (S J) H0). lra.
Qed.

Lemma exp_upper m N :
  0 <= m -> m < INR N + 2 ->
  exp m <= esum m N + eterm m (S N) * ((INR N + 2) / (INR N + 2 - m)).
Proof.
  intros Hm HN.
  assert (Hpos : 0 < INR N + 2) by (pose proof (pos_INR N); lra).
  set (r := m / (INR N + 2)).
  assert (Hr : 0 <= r < 1).
  { unfold r. split.
    - apply Rmult_le_pos; [exact Hm|]. left. apply Rinv_0_lt_compat, Hpos.
    - apply Rmult_lt_reg_r with (INR N + 2); [exact Hpos|].
      unfold Rdiv. rewrite Rmult_assoc, Rinv_l by lra. lra. }
  replace ((INR N + 2) / (INR N + 2 - m)) with (/ (1 - r)) by (unfold r; field; lra).
  set (B := esum m N + eterm m (S N) * / (1 - r)).
  apply Rle_cv_lim with (Un := esum m) (Vn := fun _ : nat => B).
  - intros n. apply Rle_trans with (esum m (S N + n)).
    + apply esum_mono; [exact Hm | lia].
    + apply Rle_trans with (esum m N + eterm m (S N) * sum_f_R0 (pow r) n).
      * apply esum_tail, Hm.
      * unfold B. apply Rplus_le_compat_l, Rmult_le_compat_l.
        -- apply eterm_nonneg, Hm.
        -- apply geo_sum_bound, Hr.
  - apply esum_cv.
  - intros eps Heps. exists 0%nat. intros n _. unfold R_dist.
    rewrite Rminus_diag_eq by reflexivity. rewrite Rabs_R0. exact Heps.
Qed.

(* ================================================================================= *)
(* Link to the executable rational arithmetic of Model/Poisson.v                        *)
(* ================================================================================= *)

Lemma Q2R_make (x : Z) (d : positive) : Q2R (x # d) = IZR x / IZR (Zpos d).
Proof. reflexivity. Qed.

Lemma Q2R_inject_Z z : Q2R (inject_Z z) = IZR z.
Proof. unfold Q2R, inject_Z. simpl. field. Qed.

Lemma IZR_pos_gt0 p : 0 < IZR (Zpos p).
Proof. apply IZR_lt. reflexivity. Qed.

Lemma IZR_of_succ_nat k : IZR (Zpos (Pos.of_succ_nat k)) = INR (S k).
Proof. rewrite Zpos_P_of_succ_nat, <- Nat2Z.inj_succ, <- INR_IZR_INZ. reflexivity. Qed.

Lemma psum_go_spec a b n :
  let '(A, P, D) := psum_go a b n in
  IZR A = IZR a ^ n /\
  IZR (Zpos D) = IZR (Zpos b) ^ n * INR (fact n) /\
  IZR P = esum (IZR a / IZR (Zpos b)) n * IZR (Zpos D).
Proof.
  induction n as [|n IH].
  - simpl. rewrite esum_0. repeat split; ring.
  - cbn [psum_go]. destruct (psum_go a b n) as [[A P] D]. destruct IH as [HA [HD HP]].
    pose proof (IZR_pos_gt0 b) as Hb.
    assert (Hc : IZR (Zpos (b * Pos.of_succ_nat n)) = IZR (Zpos b) * INR (S n)).
    { rewrite Pos2Z.inj_mul, mult_IZR, IZR_of_succ_nat. reflexivity. }
    assert (HA' : IZR (A * a) = IZR a ^ S n) by (rewrite mult_IZR, HA; simpl; ring).
    assert (HD' : IZR (Zpos (D * (b * Pos.of_succ_nat n))) = IZR (Zpos b) ^ S n * INR (fact (S n))).
    { rewrite Pos2Z.inj_mul, mult_IZR, Hc, HD, fact_simpl, mult_INR. simpl. ring. }
    repeat split; [exact HA' | exact HD' |].
    rewrite plus_IZR, mult_IZR, HP, HA', esum_S, HD'.
    rewrite Hc, HD.
    unfold eterm. rewrite fact_simpl, mult_INR. unfold Rdiv. rewrite Rpow_mult_distr, pow_inv.
    simpl pow. field. repeat split; try nz; try lra.
    apply pow_nonzero. lra.
Qed.

Lemma Q2R_num_den (m : Q) : Q2R m = IZR (Qnum m) / IZR (Zpos (Qden m)).
Proof. reflexivity. Qed.

Lemma psum_esum m n : Q2R (psum m n) = esum (Q2R m) n.
Proof.
  unfold psum. pose proof (psum_go_spec (Qnum m) (Qden m) n) as H.
  destruct (psum_go (Qnum m) (Qden m) n) as [[A P] D]. destruct H as [_ [_ HP]].
  rewrite Q2R_make, HP, Q2R_num_den. field. pose proof (IZR_pos_gt0 D). lra.
Qed.

Lemma pterm_eterm m k : Q2R (pterm m k) = eterm (Q2R m) k.
Proof.
  unfold pterm. pose proof (psum_go_spec (Qnum m) (Qden m) k) as H.
  destruct (psum_go (Qnum m) (Qden m) k) as [[A P] D]. destruct H as [HA [HD _]].
  rewrite Q2R_make, HA, HD, Q2R_num_den. unfold eterm, Rdiv. rewrite Rpow_mult_distr, pow_inv.
  field. pose proof (IZR_pos_gt0 (Qden m)). repeat split; try nz.
  apply pow_nonzero. lra.
Qed.

Theorem psum_correct :
  forall m n, Q2R (psum m n) = sum_f_R0 (fun k => Q2R m ^ k / INR (fact k)) n.
Proof. intros m n. apply psum_esum. Qed.

Theorem pterm_correct : forall m k, Q2R (pterm m k) = Q2R m ^ k / INR (fact k).
Proof. intros m k. apply pterm_eterm. Qed.

Lemma IZR_nat_plus2 N : IZR (Z.of_nat N + 2) = INR N + 2.
Proof. rewrite plus_IZR, <- INR_IZR_INZ. reflexivity. Qed.

Lemma geo_factor_correct m N :
  Q2R m < INR N + 2 ->
  Q2R (geo_factor m N) = (INR N + 2) / (INR N + 2 - Q2R m).
Proof.
  intros Hm. unfold geo_factor. rewrite Q2R_div.
  - rewrite Q2R_minus, Q2R_inject_Z, IZR_nat_plus2. reflexivity.
  - intros Heq. apply Qeq_eqR in Heq.
    rewrite Q2R_minus, Q2R_inject_Z, IZR_nat_plus2 in Heq.
    change (Q2R 0) with (0 / 1) in Heq. lra.
Qed.

Lemma exp_hi_correct m N :
  Q2R m < INR N + 2 ->
  Q2R (exp_hi m N) =
  esum (Q2R m) N + eterm (Q2R m) (S N) * ((INR N + 2) / (INR N + 2 - Q2R m)).
Proof.
  intros Hm. pose proof (psum_esum m (S N)) as HP. pose proof (pterm_eterm m (S N)) as HT.
  unfold exp_hi, psum, pterm in *.
  destruct (psum_go (Qnum m) (Qden m) (S N)) as [[A P] D].
  rewrite Q2R_plus, Q2R_mult, Q2R_minus, HP, HT, geo_factor_correct by exact Hm.
  rewrite esum_S. change (Q2R 1) with (1 / 1). field. lra.
Qed.

Theorem exp_enclosure :
  forall m N, 0 <= Q2R m -> Q2R m < INR N + 2 ->
    Q2R (exp_lo m N) <= exp (Q2R m) <= Q2R (exp_hi m N).
Proof.
  intros m N H0 HN. split.
  - unfold exp_lo. rewrite psum_esum. apply esum_le_exp, H0.
  - rewrite exp_hi_correct by exact HN. apply exp_upper; assumption.
Qed.

(* ---------- from bounds on the partial sums and on e^m to bounds on the cdf ---------- *)

Lemma cdf_lower_from_bounds m n q C L U :
  0 <= m -> 0 < C ->
  L <= C * esum m n -> C * exp m <= U -> q * U <= L ->
  q <= cdf m n.
Proof.
  intros Hm HC HL HU Hq.
  destruct (Rle_lt_dec 0 q) as [Hq0|Hq0].
  - rewrite cdf_esum.
    assert (H1 : q * (C * exp m) <= q * U) by (apply Rmult_le_compat_l; assumption).
    assert (H2 : C * (q * exp m) <= C * esum m n) by lra.
    apply Rmult_le_reg_l in H2; [|exact HC].
    pose proof (exp_pos (- m)) as He.
    assert (H3 : exp (- m) * (q * exp m) <= exp (- m) * esum m n)
      by (apply Rmult_le_compat_l; lra).
    replace (exp (- m) * (q * exp m)) with (q * (exp (- m) * exp m)) in H3 by ring.
    rewrite exp_neg_mul in H3. lra.
  - pose proof (cdf_pos m n Hm). lra.
Qed.

Lemma cdf_upper_from_bounds m n q C L U :
  0 <= m -> 0 < C -> 0 <= L ->
  C * esum m n <= U -> L <= C * exp m -> U < q * L ->
  cdf m n < q.
Proof.
  intros Hm HC HL0 HU HL Hq.
  pose proof (esum_pos m n Hm) as Hs.
  assert (HU0 : 0 < U).
  { apply Rlt_le_trans with (C * esum m n); [|exact HU]. apply Rmult_lt_0_compat; lra. }
  destruct (Rle_lt_dec q 0) as [Hq0|Hq0].
  - exfalso. assert (q * L <= 0).
    { replace (q * L) with (- ((- q) * L)) by ring.
      assert (0 <= - q * L) by (apply Rmult_le_pos; lra). lra. }
    lra.
  - rewrite cdf_esum.
    assert (H1 : q * L <= q * (C * exp m)) by (apply Rmult_le_compat_l; lra).
    assert (H2 : C * esum m n < C * (q * exp m)) by lra.
    apply Rmult_lt_reg_l in H2; [|exact HC].
    pose proof (exp_pos (- m)) as He.
    assert (H3 : exp (- m) * esum m n < exp (- m) * (q * exp m))
      by (apply Rmult_lt_compat_l; lra).
    replace (exp (- m) * (q * exp m)) with (q * (exp (- m) * exp m)) in H3 by ring.
    rewrite exp_neg_mul in H3. lra.
Qed.

Lemma Qlt_bool_Rlt x y : Qlt_bool x y = true -> Q2R x < Q2R y.
Proof.
  unfold Qlt_bool. intros H. apply Qlt_Rlt, Qnot_le_lt. intros Hle.
  apply Qle_bool_iff in Hle. rewrite Hle in H. discriminate.
Qed.

Lemma Qle_bool_Rle x y : Qle_bool x y = true -> Q2R x <= Q2R y.
Proof. intros H. apply Qle_Rle, Qle_bool_iff, H. Qed.

Lemma Q2R_1 : Q2R 1 = 1.
Proof. unfold Q2R. simpl. field. Qed.

Lemma Q2R_0 : Q2R 0 = 0.
Proof. unfold Q2R. simpl. field. Qed.

Lemma mean_in_range_sound m N :
  mean_in_range m N = true -> 0 <= Q2R m /\ Q2R m < INR N + 2.
Proof.
  unfold mean_in_range. intros H. apply andb_prop in H. destruct H as [H0 H1].
  apply Qle_bool_Rle in H0. apply Qlt_bool_Rlt in H1.
  rewrite Q2R_0 in H0. rewrite Q2R_inject_Z, IZR_nat_plus2 in H1. split; assumption.
Qed.

Theorem quantile_band_sound :
  forall m eps tau n N,
    quantile_band_ok m eps tau n N = true ->
    1 - Q2R eps - Q2R tau <= cdf (Q2R m) n /\
    (n = 0%nat \/ cdf (Q2R m) (n - 1) < 1 - Q2R eps + Q2R tau).
Proof.
  intros m eps tau n N H. unfold quantile_band_ok in H.
  apply andb_prop in H. destruct H as [H H2]. apply andb_prop in H. destruct H as [Hr H1].
  apply mean_in_range_sound in Hr. destruct Hr as [Hm0 HmN].
  destruct (exp_enclosure m N Hm0 HmN) as [Hlo Hhi].
  split.
  - apply Qle_bool_Rle in H1.
    rewrite Q2R_mult, !Q2R_minus, Q2R_1, psum_esum in H1.
    apply cdf_lower_from_bounds with (C := 1) (L := esum (Q2R m) n) (U := Q2R (exp_hi m N));
      try lra.
  - destruct n as [|n']; [left; reflexivity | right].
    replace (S n' - 1)%nat with n' by lia.
    apply Qlt_bool_Rlt in H2.
    rewrite Q2R_mult, Q2R_plus, Q2R_minus, Q2R_1, psum_esum in H2.
    apply cdf_upper_from_bounds with (C := 1) (L := Q2R (exp_lo m N)) (U := esum (Q2R m) n');
      try lra.
    unfold exp_lo. rewrite psum_esum. pose proof (esum_pos (Q2R m) N Hm0). lra.
Qed.

(* enclosures of the probability mass and of the cdf *)
Theorem pmf_enclosure_sound :
  forall m k N, mean_in_range m N = true ->
    Q2R (fst (pmf_enclosure m k N)) <= pmf (Q2R m) k <= Q2R (snd (pmf_enclosure m k N)).
Proof.
  intros m k N Hr. apply mean_in_range_sound in Hr. destruct Hr as [Hm0 HmN].
  destruct (exp_enclosure m N Hm0 HmN) as [Hlo Hhi].
  assert (Hlo1 : 1 <= Q2R (exp_lo m N)).
  { unfold exp_lo. rewrite psum_esum. apply esum_pos, Hm0. }
  pose proof (exp_pos (Q2R m)) as Hexp.
  assert (Hnz : forall x : Q, 0 < Q2R x -> ~ x == 0).
  { intros x Hx Heq. apply Qeq_eqR in Heq. rewrite Q2R_0 in Heq. lra. }
  unfold pmf_enclosure. cbn [fst snd].
  rewrite !Q2R_div by (apply Hnz; lra). rewrite pterm_eterm, pmf_eterm.
  pose proof (eterm_nonneg (Q2R m) k Hm0) as Ht.
  assert (Hinv : exp (- Q2R m) = / exp (Q2R m)) by apply exp_Ropp.
  rewrite Hinv. unfold Rdiv. rewrite (Rmult_comm (/ exp (Q2R m))).
  split; apply Rmult_le_compat_l; try exact Ht; apply Rinv_le_contravar; lra.
Qed.

(* ================================================================================= *)
(* Soundness of the fast fixed-point checker                                            *)
(* ================================================================================= *)

Ltac nz2 := repeat split;
  first [lra | apply INR_fact_neq_0 | apply not_0_INR; discriminate | (apply pow_nonzero; lra)].

(* weight of k relative to the weight of M *)
Definition tw (m : R) (M k : nat) : R := eterm m k / eterm m M.

Lemma tw_S m M k : 0 < m -> tw m M (S k) = tw m M k * (m / INR (S k)).
Proof.
  intros Hm. unfold tw. rewrite eterm_S. pose proof (eterm_pos m M Hm). field. nz2.
Qed.

Lemma tw_M m M : 0 < m -> tw m M M = 1.
Proof. intros Hm. unfold tw. pose proof (eterm_pos m M Hm). field. lra. Qed.

Lemma wscale_pos : 0 < IZR wscale.
Proof. apply IZR_lt. reflexivity. Qed.
Local Opaque wscale.

Definition encl (m : R) (M k : nat) (p : Z * Z) : Prop :=
  IZR (fst p) <= IZR wscale * tw m M k <= IZR (snd p).

Fixpoint enclosed (m : R) (M start : nat) (l : list (Z * Z)) : Prop :=
  match l with
  | nil => True
  | p :: r => encl m M start p /\ enclosed m M (S start) r
  end.

Lemma Zdiv_lo x c : (0 < c)%Z -> IZR (x / c) <= IZR x / IZR c.
Proof.
  intros Hc. pose proof (Z.mul_div_le x c Hc) as H. apply IZR_le in H.
  rewrite mult_IZR in H. apply IZR_lt in Hc.
  apply Rmult_le_reg_l with (IZR c); [exact Hc|].
  replace (IZR c * (IZR x / IZR c)) with (IZR x) by (field; lra). exact H.
Qed.

Lemma Zdiv_hi x c : (0 < c)%Z -> IZR x / IZR c <= IZR (x / c + 1).
Proof.
  intros Hc. pose proof (Z.mul_succ_div_gt x c Hc) as H. apply IZR_lt in H.
  unfold Z.succ in H. rewrite mult_IZR in H. apply IZR_lt in Hc.
  apply Rmult_le_reg_l with (IZR c); [exact Hc|].
  replace (IZR c * (IZR x / IZR c)) with (IZR x) by (field; lra). lra.
Qed.

(* one rounding step: multiply an enclosed value by the rational num/den *)
Lemma step_encl lo hi num den v :
  (0 <= num)%Z -> (0 < den)%Z ->
  IZR lo <= v <= IZR hi ->
  IZR (lo * num / den) <= v * (IZR num / IZR den) <= IZR (hi * num / den + 1).
Proof.
  intros Hnum Hden [Hlo Hhi].
  pose proof (Zdiv_lo (lo * num) den Hden) as H1.
  pose proof (Zdiv_hi (hi * num) den Hden) as H2.
  rewrite mult_IZR in H1, H2. apply IZR_le in Hnum. apply IZR_lt in Hden.
  assert (Hr : 0 <= IZR num / IZR den).
  { apply Rmult_le_pos; [exact Hnum|]. left. apply Rinv_0_lt_compat, Hden. }
  split.
  - apply Rle_trans with (IZR lo * IZR num / IZR den); [exact H1|].
    unfold Rdiv in *. rewrite Rmult_assoc. apply Rmult_le_compat_r; assumption.
  - apply Rle_trans with (IZR hi * IZR num / IZR den); [|exact H2].
    unfold Rdiv in *. rewrite (Rmult_assoc (IZR hi)). apply Rmult_le_compat_r; assumption.
Qed.

Lemma up_ws_enclosed a b M fuel : forall idx lo hi,
  (0 < a)%Z -> (0 < b)%Z ->
  encl (IZR a / IZR b) M idx (lo, hi) ->
  enclosed (IZR a / IZR b) M (S idx) (up_ws a b fuel (Z.of_nat idx) lo hi).
Proof.
  induction fuel as [|fuel IH]; intros idx lo hi Ha Hb He.
  - exact I.
  - cbn [up_ws enclosed].
    assert (Hm : 0 < IZR a / IZR b).
    { apply IZR_lt in Ha, Hb. apply Rmult_lt_0_compat; [lra|]. apply Rinv_0_lt_compat. lra. }
    assert (Hk : (Z.of_nat idx + 1)%Z = Z.of_nat (S idx)) by lia.
    assert (He' : encl (IZR a / IZR b) M (S idx)
              ((lo * a / (b * (Z.of_nat idx + 1)))%Z, (hi * a / (b * (Z.of_nat idx + 1)) + 1)%Z)).
    { unfold encl in *. cbn [fst snd] in *. rewrite tw_S by exact Hm.
      replace (IZR wscale * (tw (IZR a / IZR b) M idx * (IZR a / IZR b / INR (S idx))))
        with (IZR wscale * tw (IZR a / IZR b) M idx * (IZR a / IZR (b * (Z.of_nat idx + 1)))).
      - apply step_encl; [lia | lia | exact He].
      - rewrite mult_IZR, Hk, <- INR_IZR_INZ. apply IZR_lt in Hb. field. nz2. }
    split; [exact He'|]. rewrite Hk. apply IH; try assumption. rewrite <- Hk. exact He'.
Qed.

Lemma down_ws_enclosed a b M fuel : forall idx lo hi acc,
  (0 < a)%Z -> (0 < b)%Z -> (fuel <= idx)%nat ->
  encl (IZR a / IZR b) M idx (lo, hi) ->
  enclosed (IZR a / IZR b) M idx acc ->
  enclosed (IZR a / IZR b) M (idx - fuel) (down_ws a b fuel (Z.of_nat idx) lo hi acc).
Proof.
  induction fuel as [|fuel IH]; intros idx lo hi acc Ha Hb Hle He Hacc.
  - cbn [down_ws]. rewrite Nat.sub_0_r. exact Hacc.
  - cbn [down_ws]. destruct idx as [|j]; [lia|].
    assert (Hm : 0 < IZR a / IZR b).
    { apply IZR_lt in Ha, Hb. apply Rmult_lt_0_compat; [lra|]. apply Rinv_0_lt_compat. lra. }
    assert (Hk : (Z.of_nat (S j) - 1)%Z = Z.of_nat j) by lia.
    assert (He' : encl (IZR a / IZR b) M j
              ((lo * (b * Z.of_nat (S j)) / a)%Z, (hi * (b * Z.of_nat (S j)) / a + 1)%Z)).
    { unfold encl in *. cbn [fst snd] in *. rewrite tw_S in He by exact Hm.
      replace (IZR wscale * tw (IZR a / IZR b) M j)
        with (IZR wscale * (tw (IZR a / IZR b) M j * (IZR a / IZR b / INR (S j)))
              * (IZR (b * Z.of_nat (S j)) / IZR a)).
      - apply step_encl; [lia | lia | exact He].
      - rewrite mult_IZR, <- INR_IZR_INZ. apply IZR_lt in Ha, Hb. field. nz2. }
    rewrite Hk. replace (S j - S fuel)%nat with (j - fuel)%nat by lia.
    apply IH; try assumption; [lia|]. cbn [enclosed]. split; assumption.
Qed.

Lemma up_ws_length a b fuel : forall k lo hi, length (up_ws a b fuel k lo hi) = fuel.
Proof. induction fuel as [|f IH]; intros; cbn [up_ws length]; [reflexivity | rewrite IH; reflexivity]. Qed.

Lemma down_ws_length a b fuel : forall k lo hi acc,
  length (down_ws a b fuel k lo hi acc) = (fuel + length acc)%nat.
Proof.
  induction fuel as [|f IH]; intros; cbn [down_ws]; [reflexivity|].
  rewrite IH. cbn [length]. lia.
Qed.

Lemma weights_enclosed a b M ups :
  (0 < a)%Z -> (0 < b)%Z -> enclosed (IZR a / IZR b) M 0 (weights a b M ups).
Proof.
  intros Ha Hb. unfold weights.
  assert (Hm : 0 < IZR a / IZR b).
  { apply IZR_lt in Ha, Hb. apply Rmult_lt_0_compat; [lra|]. apply Rinv_0_lt_compat. lra. }
  assert (He : encl (IZR a / IZR b) M M (wscale, wscale)).
  { unfold encl. cbn [fst snd]. rewrite tw_M by exact Hm. lra. }
  replace 0%nat with (M - M)%nat by lia.
  apply down_ws_enclosed; try assumption; [lia|].
  cbn [enclosed]. split; [exact He|]. apply up_ws_enclosed; assumption.
Qed.

Lemma weights_length a b M ups : length (weights a b M ups) = (M + S ups)%nat.
Proof. unfold weights. rewrite down_ws_length. cbn [length]. rewrite up_ws_length. reflexivity. Qed.

(* sums *)
Fixpoint rsum (t : nat -> R) (start len : nat) : R :=
  match len with
  | O => 0
  | S l => t start + rsum t (S start) l
  end.

Lemma rsum_snoc t len : forall start, rsum t start (S len) = rsum t start len + t (start + len)%nat.
Proof.
  induction len as [|len IH]; intros start.
  - simpl. rewrite Nat.add_0_r. ring.
  - change (rsum t start (S (S len))) with (t start + rsum t (S start) (S len)).
    rewrite IH. simpl. replace (start + S len)%nat with (S (start + len)) by lia. ring.
Qed.

Lemma rsum_sum_f_R0 t n : rsum t 0 (S n) = sum_f_R0 t n.
Proof.
  induction n as [|n IH].
  - simpl. ring.
  - rewrite rsum_snoc, IH. simpl. reflexivity.
Qed.

Lemma sumZ_cons x l : sumZ (x :: l) = (x + sumZ l)%Z.
Proof.
  unfold sumZ. cbn [fold_left].
  assert (H : forall l acc, fold_left Z.add l acc = (acc + fold_left Z.add l 0)%Z).
  { clear. induction l as [|y l IH]; intros acc; cbn [fold_left].
    - lia.
    - rewrite IH, (IH (0 + y)%Z). lia. }
  rewrite H. lia.
Qed.

Lemma enclosed_sums m M l : forall start len,
  enclosed m M start l -> (len <= length l)%nat ->
  IZR (sumZ (firstn len (map fst l))) <= IZR wscale * rsum (tw m M) start len
  /\ IZR wscale * rsum (tw m M) start len <= IZR (sumZ (firstn len (map snd l))).
Proof.
  induction l as [|p l IH]; intros start len He Hlen.
  - cbn [length] in Hlen. replace len with 0%nat by lia.
    cbn [map firstn rsum]. unfold sumZ. cbn [fold_left]. rewrite Rmult_0_r. lra.
  - destruct len as [|len].
    + cbn [map firstn rsum]. unfold sumZ. cbn [fold_left]. rewrite Rmult_0_r. lra.
    + cbn [map firstn rsum]. rewrite !sumZ_cons, !plus_IZR.
      destruct He as [[Hlo Hhi] Hr]. cbn [length] in Hlen.
      destruct (IH (S start) len Hr ltac:(lia)) as [H1 H2].
      rewrite Rmult_plus_distr_l. lra.
Qed.

Lemma enclosed_nth m M l : forall start i,
  enclosed m M start l -> (i < length l)%nat ->
  IZR wscale * tw m M (start + i) <= IZR (nth i (map snd l) 0%Z).
Proof.
  induction l as [|p l IH]; intros start i He Hi.
  - cbn [length] in Hi. lia.
  - destruct He as [[_ Hhi] Hr]. destruct i as [|i].
    + rewrite Nat.add_0_r. exact Hhi.
    + cbn [map nth]. replace (start + S i)%nat with (S start + i)%nat by lia.
      apply IH; [exact Hr | cbn [length] in Hi; lia].
Qed.

Lemma tw_sum m M n : 0 < m -> sum_f_R0 (tw m M) n = / eterm m M * esum m n.
Proof.
  intros Hm. unfold esum. rewrite scal_sum. apply sum_eq. intros i _. unfold tw, Rdiv. ring.
Qed.

Theorem band_fast_sound :
  forall a b eps tau n N M,
    band_fast a b eps tau n N M = true ->
    1 - Q2R eps - Q2R tau <= cdf (Q2R (a # b)) n /\
    (n = 0%nat \/ cdf (Q2R (a # b)) (n - 1) < 1 - Q2R eps + Q2R tau).
Proof.
  intros a b eps tau n N M H. unfold band_fast in H.
  set (ws := weights a (Zpos b) M (S N - M)) in H.
  apply andb_prop in H. destruct H as [H Hbody].
  apply andb_prop in H. destruct H as [H HnN].
  apply andb_prop in H. destruct H as [H HMN].
  apply andb_prop in H. destruct H as [H HaN].
  cbv zeta in Hbody.
  apply andb_prop in Hbody. destruct Hbody as [Hbody Hc2].
  apply andb_prop in Hbody. destruct Hbody as [HLN0 Hc1].
  apply Z.ltb_lt in H, HaN. apply Nat.leb_le in HMN, HnN. apply Z.leb_le in HLN0.
  assert (Hb : (0 < Zpos b)%Z) by reflexivity.
  set (m := Q2R (a # b)) in *.
  assert (Hmdef : m = IZR a / IZR (Zpos b)) by reflexivity.
  assert (Hm : 0 < m).
  { rewrite Hmdef. apply IZR_lt in H, Hb. apply Rmult_lt_0_compat; [lra|].
    apply Rinv_0_lt_compat. lra. }
  assert (HmN : m < INR N + 2).
  { rewrite Hmdef. apply IZR_lt in HaN, Hb. rewrite mult_IZR, IZR_nat_plus2 in HaN.
    apply Rmult_lt_reg_r with (IZR (Zpos b)); [lra|].
    unfold Rdiv. rewrite Rmult_assoc, Rinv_l by lra. lra. }
  pose proof (weights_enclosed a (Zpos b) M (S N - M) H Hb) as Hencl.
  fold ws in Hencl. rewrite <- Hmdef in Hencl.
  assert (Hlen : length ws = S (S N)).
  { unfold ws. rewrite weights_length. lia. }
  set (C := IZR wscale * / eterm m M).
  assert (HC : 0 < C).
  { unfold C. apply Rmult_lt_0_compat.
    - apply wscale_pos.
    - apply Rinv_0_lt_compat, eterm_pos, Hm. }
  assert (Hsum : forall k, IZR wscale * rsum (tw m M) 0 (S k) = C * esum m k).
  { intros k. rewrite rsum_sum_f_R0, tw_sum by exact Hm. unfold C. ring. }
  (* bounds *)
  destruct (enclosed_sums m M ws 0 (S n) Hencl ltac:(lia)) as [HL1 _].
  destruct (enclosed_sums m M ws 0 (S N) Hencl ltac:(lia)) as [HLN HUN].
  rewrite Hsum in HL1, HLN, HUN.
  pose proof (enclosed_nth m M ws 0 (S N) Hencl ltac:(lia)) as HhN1.
  cbn [Nat.add] in HhN1.
  assert (HtwSN : IZR wscale * tw m M (S N) = C * eterm m (S N)).
  { unfold tw, C. unfold Rdiv. ring. }
  rewrite HtwSN in HhN1.
  pose proof (exp_upper m N (Rlt_le _ _ Hm) HmN) as Hexp_hi.
  pose proof (esum_le_exp m N (Rlt_le _ _ Hm)) as Hexp_lo.
  set (g := (INR N + 2) / (INR N + 2 - m)) in *.
  assert (Hg : 0 < g).
  { unfold g. apply Rmult_lt_0_compat; [lra|]. apply Rinv_0_lt_compat. lra. }
  split.
  - apply Qle_bool_Rle in Hc1.
    rewrite Q2R_mult, !Q2R_minus, Q2R_1, Q2R_plus, Q2R_mult, !Q2R_inject_Z in Hc1.
    rewrite geo_factor_correct in Hc1 by exact HmN. fold m in Hc1. fold g in Hc1.
    eapply cdf_lower_from_bounds with (C := C); [lra | exact HC | exact HL1 | | exact Hc1].
    apply Rle_trans with (C * (esum m N + eterm m (S N) * g)).
    + apply Rmult_le_compat_l; lra.
    + assert (C * eterm m (S N) * g <= IZR (nth (S N) (map snd ws) 0%Z) * g)
        by (apply Rmult_le_compat_r; lra).
      lra.
  - destruct n as [|n']; [left; reflexivity | right].
    replace (S n' - 1)%nat with n' by lia.
    apply Qlt_bool_Rlt in Hc2.
    rewrite Q2R_mult, Q2R_plus, Q2R_minus, Q2R_1, !Q2R_inject_Z in Hc2.
    destruct (enclosed_sums m M ws 0 (S n') Hencl ltac:(lia)) as [_ HU2].
    rewrite Hsum in HU2.
    eapply cdf_upper_from_bounds with (C := C);
      [lra | exact HC | apply IZR_le, HLN0 | exact HU2 | | exact Hc2].
    apply Rle_trans with (C * esum m N); [exact HLN|]. apply Rmult_le_compat_l; lra.
Qed.

(* ---------- the checker with automatically chosen N and M, and the harness entry point ---------- *)

Lemma Q2R_Qred q : Q2R (Qred q) = Q2R q.
Proof. apply Qeq_eqR, Qred_correct. Qed.

Theorem quantile_band_auto_sound :
  forall m eps tau n,
    quantile_band_auto m eps tau n = true ->
    1 - Q2R eps - Q2R tau <= cdf (Q2R m) n /\
    (n = 0%nat \/ cdf (Q2R m) (n - 1) < 1 - Q2R eps + Q2R tau).
Proof.
  intros m eps tau n H. unfold quantile_band_auto in H. cbv zeta in H.
  rewrite <- (Q2R_Qred m). destruct (Qnum (Qred m) =? 0)%Z.
  - eapply quantile_band_sound. exact H.
  - apply band_fast_sound in H. destruct (Qred m) as [a b]. exact H.
Qed.

Definition NR (x : N) : R := IZR (Z.of_N x).

Theorem poisson_check_sound :
  forall rn rd en ed tn td delta n,
    poisson_check rn rd en ed tn td delta n = true ->
    let m := NR rn * NR delta / NR rd in
    let eps := NR en / NR ed in
    let tau := NR tn / NR td in
    (rd <> 0 /\ ed <> 0 /\ td <> 0)%N /\
    1 - eps - tau <= cdf m (N.to_nat n) /\
    (n = 0%N \/ cdf m (N.to_nat n - 1) < 1 - eps + tau).
Proof.
  intros rn rd en ed tn td delta n H. unfold poisson_check, QofN in H.
  destruct rd as [|rd]; [discriminate|].
  destruct ed as [|ed]; [discriminate|].
  destruct td as [|td]; [discriminate|].
  cbv zeta in H.
  destruct (Z.of_N n <=? _)%Z; [|discriminate].
  apply quantile_band_auto_sound in H. rewrite Q2R_Qred in H.
  cbv zeta. unfold NR.
  assert (Hm : Q2R (Z.of_N (rn * delta) # rd)
               = IZR (Z.of_N rn) * IZR (Z.of_N delta) / IZR (Z.of_N (N.pos rd))).
  { rewrite Q2R_make, N2Z.inj_mul, mult_IZR. reflexivity. }
  rewrite Hm in H. rewrite !Q2R_make in H.
  change (Z.of_N (N.pos ed)) with (Zpos ed). change (Z.of_N (N.pos td)) with (Zpos td).
  split; [repeat split; discriminate|].
  destruct H as [H1 H2]. split; [exact H1|].
  destruct H2 as [H2|H2]; [left | right; exact H2].
  apply Nnat.N2Nat.inj. rewrite H2. reflexivity.
Qed.

(* the diagnostic quantile search returns a conservative value *)
Lemma first_reaching_spec target l : forall k acc r,
  first_reaching target l k acc = Some r ->
  exists j, r = (k + j)%nat /\ (j < length l)%nat /\
            (target <= inject_Z (acc + sumZ (firstn (S j) l)))%Q.
Proof.
  induction l as [|x l IH]; intros k acc r H; cbn [first_reaching] in H.
  - discriminate.
  - destruct (Qle_bool target (inject_Z (acc + x))) eqn:E.
    + inversion H; subst r. exists 0%nat. repeat split; [lia | cbn [length]; lia |].
      apply Qle_bool_iff in E. cbn [firstn]. rewrite sumZ_cons.
      unfold sumZ. cbn [fold_left]. rewrite Z.add_0_r. exact E.
    + apply IH in H. destruct H as [j [Hr [Hj Ht]]]. exists (S j).
      repeat split; [lia | cbn [length]; lia |].
      change (firstn (S (S j)) (x :: l)) with (x :: firstn (S j) l).
      rewrite sumZ_cons, Z.add_assoc. exact Ht.
Qed.

Theorem quantile_fast_sound :
  forall m eps n, 0 <= Q2R m -> 0 <= Q2R eps ->
    quantile_fast m eps = Some n -> 1 - Q2R eps <= cdf (Q2R m) n.
Proof.
  intros m eps n Hm0 Heps H. unfold quantile_fast in H. cbv zeta in H.
  rewrite <- (Q2R_Qred m) in *. set (m' := Qred m) in *.
  destruct (Qle_bool m' 0) eqn:E.
  - inversion H; subst n. apply Qle_bool_Rle in E. rewrite Q2R_0 in E.
    replace (Q2R m') with 0 by lra. rewrite cdf_zero_mean. lra.
  - assert (Hm : 0 < Q2R m').
    { apply Rnot_le_lt. intros Hle. rewrite <- Q2R_0 in Hle. apply Rle_Qle in Hle.
      apply Qle_bool_iff in Hle. rewrite Hle in E. discriminate. }
    set (N := terms_for m') in *. set (M := Qfloor_nat m') in *.
    set (ws := weights (Qnum m') (Zpos (Qden m')) M (S N - M)) in *.
    apply first_reaching_spec in H. destruct H as [j [Hn [Hj Ht]]]. simpl in Hn. subst j.
    rewrite firstn_length in Hj.
    assert (HnN : (n < S N)%nat) by lia.
    assert (Hlenws : (S N < length ws)%nat) by (unfold ws; rewrite weights_length; lia).
    rewrite firstn_firstn, Nat.min_l, Z.add_0_l in Ht by lia.
    assert (Ha : (0 < Qnum m')%Z).
    { destruct m' as [a b]. unfold Q2R in Hm. cbn [Qnum Qden] in *.
      apply lt_IZR. pose proof (IZR_pos_gt0 b) as Hb.
      apply Rmult_lt_reg_r with (/ IZR (Zpos b)); [apply Rinv_0_lt_compat, Hb|]. lra. }
    assert (Hb : (0 < Zpos (Qden m'))%Z) by reflexivity.
    pose proof (weights_enclosed (Qnum m') (Zpos (Qden m')) M (S N - M) Ha Hb) as Hencl.
    fold ws in Hencl. change (IZR (Qnum m') / IZR (Zpos (Qden m'))) with (Q2R m') in Hencl.
    set (mr := Q2R m') in *.
    assert (HmN : mr < INR N + 2).
    { (* N + 2 > m because N >= ceil m *)
      unfold N, terms_for. cbv zeta.
      pose proof (Qle_ceiling m') as Hc. apply Qle_Rle in Hc. rewrite Q2R_inject_Z in Hc.
      fold mr in Hc. set (c := Qceiling m') in *.
      assert (Hcpos : (0 <= Z.sqrt (Z.max 0 c))%Z) by apply Z.sqrt_nonneg.
      rewrite INR_IZR_INZ, Z2Nat.id by lia.
      assert (IZR c <= IZR (Z.max 0 c + 10 * Z.sqrt (Z.max 0 c) + 40)) by (apply IZR_le; lia).
      lra. }
    set (C := IZR wscale * / eterm mr M).
    assert (HC : 0 < C).
    { unfold C. apply Rmult_lt_0_compat; [apply wscale_pos|].
      apply Rinv_0_lt_compat, eterm_pos, Hm. }
    assert (Hsum : forall k, IZR wscale * rsum (tw mr M) 0 (S k) = C * esum mr k).
    { intros k. rewrite rsum_sum_f_R0, tw_sum by exact Hm. unfold C. ring. }
    destruct (enclosed_sums mr M ws 0 (S n) Hencl ltac:(lia)) as [HL1 _].
    destruct (enclosed_sums mr M ws 0 (S N) Hencl ltac:(lia)) as [_ HUN].
    rewrite Hsum in HL1, HUN.
    pose proof (enclosed_nth mr M ws 0 (S N) Hencl ltac:(lia)) as HhN1.
    cbn [Nat.add] in HhN1.
    assert (HtwSN : IZR wscale * tw mr M (S N) = C * eterm mr (S N)).
    { unfold tw, C. unfold Rdiv. ring. }
    rewrite HtwSN in HhN1.
    pose proof (exp_upper mr N (Rlt_le _ _ Hm) HmN) as Hexp_hi.
    set (g := (INR N + 2) / (INR N + 2 - mr)) in *.
    assert (Hg : 0 < g).
    { unfold g. apply Rmult_lt_0_compat; [lra|]. apply Rinv_0_lt_compat. lra. }
    apply Qle_Rle in Ht.
    rewrite Q2R_mult, Q2R_minus, Q2R_1, Q2R_plus, Q2R_mult, !Q2R_inject_Z in Ht.
    rewrite geo_factor_correct in Ht by exact HmN. fold mr in Ht. fold g in Ht.
    eapply cdf_lower_from_bounds with (C := C); [lra | exact HC | exact HL1 | | exact Ht].
    apply Rle_trans with (C * (esum mr N + eterm mr (S N) * g)).
    + apply Rmult_le_compat_l; lra.
    + assert (C * eterm mr (S N) * g <= IZR (nth (S N) (map snd ws) 0%Z) * g)
        by (apply Rmult_le_compat_r; lra).
      lra.
Qed.

(* ---------- regression examples (tolerance 1e-9): the quantile is accepted, its neighbours rejected ---------- *)
Example check_mean1 :
  (poisson_check 1 1 1 1000 1 1000000000 1 4, poisson_check 1 1 1 1000 1 1000000000 1 5,
   poisson_check 1 1 1 1000 1 1000000000 1 6) = (false, true, false).
Proof. vm_compute. reflexivity. Qed.

Example check_mean140 :
  (poisson_check 140 1 1 100 1 1000000000 1 167, poisson_check 140 1 1 100 1 1000000000 1 168,
   poisson_check 140 1 1 100 1 1000000000 1 169) = (false, true, false).
Proof. vm_compute. reflexivity. Qed.

Example check_mean200 :
  (poisson_check 2 1 1 100 1 1000000000 100 233, poisson_check 2 1 1 100 1 1000000000 100 234,
   poisson_check 2 1 1 100 1 1000000000 100 235) = (false, true, false).
Proof. vm_compute. reflexivity. Qed.

Example check_delta0 :
  (poisson_check 7 3 1 100 1 1000000000 0 0, poisson_check 7 3 1 100 1 1000000000 0 1) = (true, false).
Proof. vm_compute. reflexivity. Qed.

(* what an accepted check means, on an instance *)
Example mean140_meaning :
  1 - 1 / 100 - 1 / 1000000000 <= cdf 140 168 /\ cdf 140 167 < 1 - 1 / 100 + 1 / 1000000000.
Proof.
  assert (H : poisson_check 140 1 1 100 1 1000000000 1 168 = true) by (vm_compute; reflexivity).
  apply poisson_check_sound in H. cbv zeta in H. destruct H as [_ [H1 [H2|H2]]]; [discriminate|].
  unfold NR in *. simpl Z.of_N in *.
  replace (140 * 1 / 1) with 140 in * by field.
  replace (N.to_nat 168) with 168%nat in * by (vm_compute; reflexivity).
  split; [exact H1|]. exact H2.
Qed.

Print Assumptions pmf_nonneg.
Print Assumptions cdf_mono_n.
Print Assumptions cdf_lt_1.
Print Assumptions cdf_tends_to_1.
Print Assumptions quantile_exists_unique.
Print Assumptions quantile_zero_mean.
Print Assumptions cdf_antitone_in_mean.
Print Assumptions quantile_monotone_in_mean.
Print Assumptions is_quantile_iff_band.
Print Assumptions band_between_quantiles.
Print Assumptions psum_correct.
Print Assumptions exp_enclosure.
Print Assumptions quantile_band_sound.
Print Assumptions pmf_enclosure_sound.
Print Assumptions band_fast_sound.
Print Assumptions quantile_band_auto_sound.
Print Assumptions poisson_check_sound.
Print Assumptions quantile_fast_sound.
