(* PpSound.v — property C04 (polling-point-callback and timer part): soundness of the ROS 2 analyses
   [rta_pp] (Lemmas 4/5 of the ECRTS'19 paper) and [rta_timer] (Lemma 3), Model/Ros2.v, entry points [e_pp] /
   [e_timer] of Model/Eval.v, for an abstract non-preemptive dispatcher (Spec/NonPreemptive.v) running on a
   reservation (Spec/Reservation.v, Spec/SupplySched.v).

   If the model returns [ROk R] then, for every legal placement of the reservation's budget ([supply_admits]),
   every job set that complies with the callbacks' arrival curves and WCETs and every schedule that uses only
   supplied slots, is work-conserving relative to the supply, runs every instance to completion once started and
   serves the instances of one callback in arrival order (and, for the timer analysis, never STARTS a callback
   outside {timer under analysis} + {interfering timers} while an instance of that class is pending), every
   instance of the callback under analysis completes within R time units of its release.

   Part 1  [np_reservation_bound]: the schedule-level busy-window argument.  Let t1 be the last instant at or
           before the arrival a of instance j at which no earlier-released instance of the class is pending,
           A = a - t1, A' <= A the last step offset of the own arrival curve (nao A' < nao (A' + 1) = nao (A + 1)),
           and X = A' + r, Y = interference_interval A' r the fixed point the analysis found for offset A'.
             - If min X Y <= A the supply of [t1, t1 + min X Y) would cover all the work released there: that
               instant would be quiet, contradicting the choice of t1.  (This is why it is enough to examine the
               STEP offsets: an instance that arrives at a non-step offset is covered by the preceding step offset.)
             - Otherwise A + 1 <= Y <= X <= Y + C - 1.  If j has received service before t1 + Y it occupies every
               supplied slot from then on, so only interfering instances released in [t1, t1 + Y) are served in
               [t1, t1 + X); if it has not, the supply of [t1, t1 + Y) went to the at most nao (A + 1) - 1
               earlier instances of its callback and to interfering instances released in [t1, t1 + Y), and
               [t1 + Y, t1 + X) has at most C - 1 slots.  Both contradict own (A' + 1) + intf Y + B <= sbf X.
           Instances outside the class ("low") receive at most B units while an instance of the class is pending:
           only the one low instance in progress at t1 can run ([low_service_le]).
   Part 2  [ecrts_np_core]: from the task-level model (arrival curves, WCETs, [supply_admits_sbf], the
           step-offset form [exh_ecrts_steps] of the analyses) to the hypotheses of Part 1.
   Part 3  [pp_sound] (exactly as requested; the class is every callback, B = 0).
   Part 4  [timer_sound] ([precedence_respected]; hp = the interfering timers, every other callback has WCET <= B).
   Part 5  [c07_witness_sound]: for the task set of the known finding C07-ecrts19-pruning (analysis 5, maximum of
           the offset equations over ALL offsets <= max_bw 8) the bound 5 is sound: no counterexample schedule exists.
   Part 6  non-vacuity: concrete reservation schedule, job sets and schedules satisfying every hypothesis of
           [pp_sound] (bound 12, attained) and of [timer_sound] (bound 13, observed 12). *)
From Coq Require Import Arith NArith List Lia Bool.
From RTA.Model Require Import Base Arrival Wcet Demand Supply FixedPoint Analyses Ros2 Eval WellFormed.
From RTA.Spec Require Import Sched Events TaskModel Reservation SupplySched NonPreemptive Exhaustive ExhaustiveRos.
From RTA.Proofs Require Import ArrivalNaProofs WcetProofs StepsProofs FixedPointProofs SupplyProofs
  ReservationProofs ExhFP ExhRos FifoSound Workload FifoEndToEnd EntryPoints EsSound DemandProofs Totality.
Import ListNotations.
Local Close Scope N_scope.
Local Open Scope nat_scope.

(* ------------------------------------------------------------------------------------------ *)
(* Part 0: helpers                                                                             *)
(* ------------------------------------------------------------------------------------------ *)
Lemma forallb_false_ex : forall {A} (f : A -> bool) l, forallb f l = false -> exists x, In x l /\ f x = false.
Proof.
  intros A f l. induction l as [|x l IH]; intros E; [discriminate E|].
  cbn [forallb] in E. apply andb_false_iff in E. destruct E as [E|E].
  - exists x. split; [left; reflexivity|exact E].
  - destruct (IH E) as (y & Hy & Hf). exists y. split; [right; exact Hy|exact Hf].
Qed.

Lemma sumn_pos_ex : forall m f, 0 < sumn m f -> exists k, k < m /\ 0 < f k.
Proof.
  induction m as [|m IH]; intros f H; [cbn in H; lia|]. cbn [sumn] in H.
  destruct (Nat.eq_dec (f m) 0) as [E|E].
  - destruct (IH f ltac:(lia)) as (k & Hk & Hf). exists k. split; [lia|exact Hf].
  - exists m. split; lia.
Qed.

Lemma supplied_lip : forall (sigma : rsched) t d d', supplied sigma t d <= supplied sigma t d' + (d - d').
Proof.
  intros sigma t d d'. destruct (Nat.le_gt_cases d d') as [H|H].
  - pose proof (supplied_mono sigma t d d' H). lia.
  - replace d with (d' + (d - d')) at 1 by lia. rewrite supplied_split.
    pose proof (supplied_le sigma (t + d') (d - d')). lia.
Qed.

Lemma svcP_lt_workP : forall jobs sched, valid jobs sched -> forall P t1 d k, k < length jobs -> P k = true ->
  service sched k (t1 + d) < cost jobs k + service sched k t1 -> svcP jobs sched P t1 d < workP jobs P.
Proof.
  intros jobs sched Hvalid P t1 d k Hk Pk Hinc. unfold svcP, workP. apply sumn_lt.
  - intros i Hi. destruct (P i); [|lia].
    assert (H := service_le_cost jobs sched Hvalid i (t1 + d) Hi).
    unfold Sched.service in H. rewrite svc_split in H. rewrite Nat.add_0_l in H. lia.
  - exists k. split; [exact Hk|]. rewrite Pk.
    unfold Sched.service in Hinc. rewrite svc_split in Hinc. rewrite Nat.add_0_l in Hinc.
    assert (H := service_le_cost jobs sched Hvalid k (t1 + d) Hk).
    unfold Sched.service in H. rewrite svc_split in H. rewrite Nat.add_0_l in H. lia.
Qed.

Lemma svcP_le_workP : forall jobs sched, valid jobs sched -> forall P t1 d,
  svcP jobs sched P t1 d <= workP jobs P.
Proof. intros jobs sched Hv P t1 d. pose proof (svcP_le_work jobs sched Hv P t1 d). lia. Qed.

Lemma svcP_or_le : forall jobs sched P Q t1 d,
  svcP jobs sched (fun k => P k || Q k) t1 d <= svcP jobs sched P t1 d + svcP jobs sched Q t1 d.
Proof.
  intros jobs sched P Q t1 d. unfold svcP. rewrite <- sumn_add. apply sumn_le. intros k _.
  destruct (P k), (Q k); cbn [orb]; lia.
Qed.

Lemma workP_mono : forall jobs (P Q : nat -> bool),
  (forall k, k < length jobs -> P k = true -> Q k = true) -> workP jobs P <= workP jobs Q.
Proof.
  intros jobs P Q H. unfold workP. apply sumn_le. intros k Hk.
  destruct (P k) eqn:Pk; [|lia]. rewrite (H k Hk Pk). lia.
Qed.

Lemma workP_or_le : forall jobs (P Q : nat -> bool),
  workP jobs (fun k => P k || Q k) <= workP jobs P + workP jobs Q.
Proof.
  intros jobs P Q. unfold workP. rewrite <- sumn_add. apply sumn_le. intros k _.
  destruct (P k), (Q k); cbn [orb]; lia.
Qed.

Definition countP (jobs : list job) (P : nat -> bool) : nat := sumn (length jobs) (fun k => if P k then 1 else 0).

Lemma workP_count : forall jobs (P : nat -> bool) C,
  (forall k, k < length jobs -> P k = true -> cost jobs k <= C) -> workP jobs P <= C * countP jobs P.
Proof.
  intros jobs P C H. unfold workP, countP. rewrite <- sumn_scale. apply sumn_le. intros k Hk.
  destruct (P k) eqn:Pk; [|lia]. apply H; assumption.
Qed.

Lemma countP_lt : forall jobs (P Q : nat -> bool) j, j < length jobs ->
  (forall k, k < length jobs -> P k = true -> Q k = true) -> P j = false -> Q j = true ->
  countP jobs P + 1 <= countP jobs Q.
Proof.
  intros jobs P Q j Hj H Pj Qj. unfold countP.
  assert (sumn (length jobs) (fun k => if P k then 1 else 0) < sumn (length jobs) (fun k => if Q k then 1 else 0)); [|lia].
  apply sumn_lt.
  - intros k Hk. destruct (P k) eqn:Pk; [rewrite (H k Hk Pk); lia|destruct (Q k); lia].
  - exists j. split; [exact Hj|]. rewrite Pj, Qj. lia.
Qed.

(* the last step offset at or before A *)
Lemma last_step : forall (f : nat -> nat), f 0 = 0 -> forall A, 0 < f (A + 1) ->
  exists A', A' <= A /\ f A' < f (A' + 1) /\ f (A + 1) <= f (A' + 1).
Proof.
  intros f H0 A. induction A as [|A IH]; intros Hpos.
  - exists 0. split; [lia|]. split; [cbn [plus] in *; lia|lia].
  - destruct (Nat.lt_ge_cases (f (S A)) (f (S A + 1))) as [Hlt|Hge].
    + exists (S A). split; [lia|]. split; [exact Hlt|lia].
    + replace (S A) with (A + 1) in Hge at 2 by lia.
      destruct (IH ltac:(lia)) as (A' & H1 & H2 & H3).
      exists A'. split; [lia|]. split; [exact H2|]. lia.
Qed.

(* ------------------------------------------------------------------------------------------ *)
(* Part 1: the schedule-level theorem                                                          *)
(* ------------------------------------------------------------------------------------------ *)
Section NpUnderSupply.
  Variable jobs : list job.
  Variable sched : nat -> option nat.
  Variable sigma : rsched.
  Notation n := (length jobs).
  Notation arr := (arr jobs).
  Notation cost := (cost jobs).
  Notation service := (service sched).
  Notation pending := (pending jobs sched).
  Notation tsk k := (j_task (nth k jobs (mkJob 0 0 0))).

  Hypothesis Hvalid : valid jobs sched.
  Hypothesis Huses : uses_supply sched sigma.
  Hypothesis Hwc : work_conserving_under jobs sched sigma.
  Hypothesis Hrtc : runs_to_completion_under jobs sched sigma.
  Hypothesis Hfifo : fifo_within_task jobs sched.

  (* the callback under analysis, and the instances that can delay it for longer than one
     non-preemptive section: [hi k = true] for the instances of the callback under analysis and of the
     interfering callbacks; an instance with [hi k = false] ("low") starts only when no [hi] instance is pending *)
  Variable i : nat.
  Variable hi : nat -> bool.
  Hypothesis Hown_hi : forall k, tsk k = i -> hi k = true.
  Hypothesis Hprio : forall t k k', starts_at sched k t -> hi k = false -> pending k' t -> hi k' = false.

  Variables C B : nat.
  Variables nao intf sbf : nat -> nat.
  Definition own_in (t1 d k : nat) : bool := task_in_win jobs i t1 d k.
  Definition oth_in (t1 d k : nat) : bool := hi k && negb (tsk k =? i) && in_win jobs t1 d k.
  Definition hi_in (t1 d k : nat) : bool := hi k && in_win jobs t1 d k.
  Definition lowP (k : nat) : bool := negb (hi k).

  Hypothesis Hcnt : forall t1 d, countP jobs (own_in t1 d) <= nao d.
  Hypothesis HC : forall k, k < n -> tsk k = i -> cost k <= C.
  Hypothesis Hintf : forall t1 d, workP jobs (oth_in t1 d) <= intf d.
  Hypothesis HB : forall k, k < n -> hi k = false -> cost k <= B.
  Hypothesis Hnao0 : nao 0 = 0.
  Hypothesis Hsbf : forall t d, sbf d <= supplied sigma t d.

  Variable maxbw : nat.
  Hypothesis Hbw : 0 < maxbw /\ C * nao maxbw + B + intf maxbw <= sbf maxbw.

  (* the interference interval of the analysis *)
  Definition iin (A r : nat) : nat := if C <? r then A + r - C + 1 else A + 1.

  Variable R : nat.
  Hypothesis HR : forall A, A < maxbw -> nao A < nao (A + 1) ->
    exists r, r <= R /\ C * nao (A + 1) + intf (iin A (Nat.max r 1)) + B <= sbf (A + r).

  (* ---- quiet times relative to the [hi] instances ---- *)
  Definition hquiet (t : nat) := forall k, k < n -> hi k = true -> arr k < t -> cost k <= service k t.
  Definition hquietb (t : nat) : bool :=
    forallb (fun k => negb (hi k) || negb (arr k <? t) || (cost k <=? service k t)) (seq 0 n).

  Lemma hquietP t : hquietb t = true <-> hquiet t.
  Proof.
    unfold hquietb, hquiet. rewrite forallb_forall. split.
    - intros H k Hk Hh Ha. specialize (H k). rewrite in_seq in H. specialize (H ltac:(lia)).
      rewrite Hh in H. cbn [negb orb] in H.
      apply orb_true_iff in H. destruct H as [H|H].
      + apply negb_true_iff in H. apply Nat.ltb_ge in H. lia.
      + apply Nat.leb_le in H. exact H.
    - intros H k Hk. rewrite in_seq in Hk. destruct (hi k) eqn:Hh; cbn [negb orb]; [|reflexivity].
      destruct (Nat.ltb_spec (arr k) t); cbn [negb orb]; [|reflexivity].
      apply Nat.leb_le. apply H; [lia|exact Hh|assumption].
  Qed.

  Lemma hlast_quiet a : exists t1, t1 <= a /\ hquiet t1 /\ forall t, t1 < t <= a -> ~ hquiet t.
  Proof.
    induction a as [|a [t1 (H1 & H2 & H3)]].
    - exists 0. split; [lia|]. split; [intros k _ _ H; lia|]. intros; lia.
    - destruct (hquietb (S a)) eqn:E.
      + exists (S a). split; [lia|]. split; [apply hquietP; exact E|]. intros; lia.
      + exists t1. split; [lia|]. split; [exact H2|]. intros t Ht.
        destruct (Nat.eq_dec t (S a)) as [->|]; [|apply H3; lia].
        intros Hq. apply hquietP in Hq. congruence.
  Qed.

  Lemma not_hquiet_ex t : ~ hquiet t -> exists k, k < n /\ hi k = true /\ arr k < t /\ service k t < cost k.
  Proof.
    intros Hnq. assert (E : hquietb t = false).
    { destruct (hquietb t) eqn:E; [|reflexivity]. exfalso. apply Hnq, hquietP, E. }
    unfold hquietb in E. apply forallb_false_ex in E. destruct E as (k & Hin & Hk).
    apply in_seq in Hin. apply orb_false_iff in Hk. destruct Hk as [Hk Hc].
    apply orb_false_iff in Hk. destruct Hk as [Hh Ha].
    apply negb_false_iff in Hh. apply negb_false_iff, Nat.ltb_lt in Ha. apply Nat.leb_gt in Hc.
    exists k. repeat split; [lia|exact Hh|exact Ha|exact Hc].
  Qed.

  (* ---- an instance that runs ---- *)
  Lemma runs_pos k u : 0 < runs sched k u -> sched u = Some k.
  Proof.
    unfold runs. destruct (sched u) as [k'|]; [|lia].
    destruct (Nat.eqb_spec k' k) as [->|]; [reflexivity|lia].
  Qed.

  Lemma runs_service k u : sched u = Some k -> service k (S u) = service k u + 1.
  Proof. intros E. rewrite service_S. unfold runs. rewrite E, Nat.eqb_refl. reflexivity. Qed.

  Lemma svc_pos_ex k t1 d : 0 < svc sched k t1 d -> exists u, u < d /\ sched (t1 + u) = Some k.
  Proof.
    intros H. unfold svc in H. apply sumn_pos_ex in H. destruct H as (u & Hu & Hr).
    exists u. split; [exact Hu|apply runs_pos; exact Hr].
  Qed.

  (* the slot in which an instance starts *)
  Lemma first_start k t1 : service k t1 = 0 -> forall t, t1 <= t -> sched t = Some k ->
    exists t0, t1 <= t0 <= t /\ sched t0 = Some k /\ service k t0 = 0.
  Proof.
    intros H0 t. induction t as [t IH] using lt_wf_ind. intros Ht E.
    destruct (Nat.eq_dec (service k t) 0) as [Hz|Hnz].
    - exists t. split; [lia|]. split; [exact E|exact Hz].
    - assert (Hp : 0 < svc sched k 0 t) by (unfold Sched.service in Hnz; lia).
      apply svc_pos_ex in Hp. destruct Hp as (u & Hu & Eu). rewrite Nat.add_0_l in Eu.
      assert (Hu1 : t1 <= u).
      { destruct (Nat.le_gt_cases t1 u) as [|Hlt]; [assumption|]. exfalso.
        pose proof (runs_service k u Eu). pose proof (service_mono sched k (S u) t1 ltac:(lia)). lia. }
      destruct (IH u Hu Hu1 Eu) as (t0 & Ht0 & E0 & Hs0).
      exists t0. split; [lia|]. split; [exact E0|exact Hs0].
  Qed.

  (* ---- the service low instances receive while a hi instance is pending: at most one low
          instance, the one in progress at the start of the window ---- *)
  Lemma low_service_le t1 d :
    (forall u, u < d -> sigma (t1 + u) = true -> exists k, hi k = true /\ pending k (t1 + u)) ->
    svcP jobs sched lowP t1 d <= B.
  Proof.
    intros Hbusy.
    (* a low instance that runs in the window started before the window *)
    assert (Hstarted : forall k u, u < d -> sched (t1 + u) = Some k -> hi k = false -> 0 < service k t1).
    { intros k u Hu E Hl. destruct (Nat.eq_dec (service k t1) 0) as [Hz|]; [exfalso|lia].
      destruct (first_start k t1 Hz (t1 + u) ltac:(lia) E) as (t0 & Ht0 & E0 & Hs0).
      assert (Hsig : sigma t0 = true) by (apply (Huses t0 k E0)).
      replace t0 with (t1 + (t0 - t1)) in Hsig by lia.
      destruct (Hbusy (t0 - t1) ltac:(lia) Hsig) as (k' & Hh' & Hp').
      replace (t1 + (t0 - t1)) with t0 in Hp' by lia.
      assert (Hc := Hprio t0 k k' (conj E0 Hs0) Hl Hp'). congruence. }
    (* two low instances that run in the window are the same instance *)
    assert (Huniq : forall k k' u u', u < d -> u' < d -> u <= u' ->
              sched (t1 + u) = Some k -> sched (t1 + u') = Some k' -> hi k = false -> hi k' = false -> k = k').
    { intros k k' u u' Hu Hu' Hle E E' Hl Hl'.
      assert (Hs' := Hstarted k' u' Hu' E' Hl').
      destruct (Hvalid _ _ E') as (_ & _ & Hinc').
      assert (Hm1 := service_mono sched k' t1 (t1 + u) ltac:(lia)).
      assert (Hm2 := service_mono sched k' (t1 + u) (t1 + u') ltac:(lia)).
      assert (Hr := Hrtc (t1 + u) k' ltac:(lia) ltac:(lia) (Huses _ _ E)).
      congruence. }
    destruct (Nat.eq_dec (svcP jobs sched lowP t1 d) 0) as [Hz|Hnz]; [lia|].
    assert (Hp : 0 < svcP jobs sched lowP t1 d) by lia.
    unfold svcP in Hp. apply sumn_pos_ex in Hp. destruct Hp as (k0 & Hk0 & Hp0).
    destruct (lowP k0) eqn:Hl0; [|lia]. unfold lowP in Hl0. apply negb_true_iff in Hl0.
    destruct (svc_pos_ex k0 t1 d Hp0) as (u0 & Hu0 & E0).
    apply Nat.le_trans with (svc sched k0 t1 d).
    - unfold svcP. rewrite <- (sumn_pick n k0 (svc sched k0 t1 d) Hk0). apply sumn_le. intros k Hk.
      destruct (lowP k) eqn:Hl; [|lia]. unfold lowP in Hl. apply negb_true_iff in Hl.
      destruct (Nat.eqb_spec k0 k) as [->|Hne]; [lia|].
      destruct (Nat.eq_dec (svc sched k t1 d) 0) as [->|Hnz']; [lia|]. exfalso.
      destruct (svc_pos_ex k t1 d ltac:(lia)) as (u & Hu & E).
      destruct (Nat.le_gt_cases u u0) as [Hle|Hgt].
      + apply Hne. symmetry. exact (Huniq k k0 u u0 Hu Hu0 Hle E E0 Hl Hl0).
      + apply Hne. exact (Huniq k0 k u0 u Hu0 Hu ltac:(lia) E0 E Hl0 Hl).
    - assert (H := service_le_cost jobs sched Hvalid k0 (t1 + d) Hk0).
      unfold Sched.service in H. rewrite svc_split in H. rewrite Nat.add_0_l in H.
      pose proof (HB k0 Hk0 Hl0). lia.
  Qed.

  (* the supplied slots of a window in which a hi instance is always pending serve instances of Q or low ones *)
  Lemma supplied_le_svc Q t1 d :
    (forall u, u < d -> sigma (t1 + u) = true -> exists k, hi k = true /\ pending k (t1 + u)) ->
    (forall u k, u < d -> sched (t1 + u) = Some k -> hi k = true -> Q k = true) ->
    supplied sigma t1 d <= svcP jobs sched Q t1 d + B.
  Proof.
    intros Hbusy HQ.
    assert (Hs : supplied sigma t1 d <= svcP jobs sched (fun k => Q k || lowP k) t1 d).
    { apply svcP_supplied; [exact Hvalid|]. intros u Hu Hsig.
      destruct (Hbusy u Hu Hsig) as (k & _ & Hp).
      destruct (sched (t1 + u)) as [k'|] eqn:E; [|exfalso; exact (Hwc _ _ Hp Hsig E)].
      exists k'. split; [exact E|]. unfold lowP. destruct (hi k') eqn:Hh; cbn [negb]; [|apply orb_true_r].
      rewrite (HQ u k' Hu E Hh). reflexivity. }
    pose proof (svcP_or_le jobs sched Q lowP t1 d). pose proof (low_service_le t1 d Hbusy). lia.
  Qed.

  Theorem np_reservation_bound : forall j, j < n -> tsk j = i -> cost j <= service j (arr j + R).
  Proof.
    intros j Hj Htj. set (a := arr j).
    destruct (Nat.eq_dec C 0) as [HC0|HC0]; [pose proof (HC j Hj Htj); lia|].
    destruct (hlast_quiet a) as [t1 (Ht1 & Hq & Hnq)].
    assert (Hhj : hi j = true) by (apply Hown_hi; exact Htj).
    (* a hi instance is pending throughout [t1, a) *)
    assert (Hbusy_pre : forall t, t1 <= t < a -> exists k, hi k = true /\ pending k t).
    { intros t Ht. destruct (not_hquiet_ex (S t) (Hnq (S t) ltac:(lia))) as (k & Hk & Hh & Ha & Hs).
      exists k. split; [exact Hh|]. split; [exact Hk|]. split; [lia|].
      pose proof (service_mono sched k t (S t) ltac:(lia)). lia. }
    (* hi instances released before t1 never run at or after t1 *)
    assert (Hold : forall t k, t1 <= t -> sched t = Some k -> hi k = true -> t1 <= arr k).
    { intros t k Ht Ek Hh. destruct (Nat.le_gt_cases t1 (arr k)) as [|Hlt]; [assumption|].
      destruct (Hvalid _ _ Ek) as (Hk & _ & Hs). specialize (Hq k Hk Hh Hlt).
      assert (service k t1 <= service k t) by (apply service_mono; lia). lia. }
    (* the workload of the hi instances of a window *)
    assert (Hhiw : forall y, workP jobs (hi_in t1 y) <= C * countP jobs (own_in t1 y) + workP jobs (oth_in t1 y)).
    { intros y. apply Nat.le_trans with (workP jobs (fun k => own_in t1 y k || oth_in t1 y k)).
      - apply workP_mono. intros k Hk Hin. unfold hi_in in Hin. apply andb_true_iff in Hin.
        destruct Hin as [Hh Hw]. unfold own_in, oth_in, task_in_win, in_win in *. rewrite Hh.
        destruct (tsk k =? i); cbn [andb negb orb]; rewrite Hw; reflexivity.
      - eapply Nat.le_trans; [apply workP_or_le|]. apply Nat.add_le_mono_r. apply workP_count.
        intros k Hk Hin. unfold own_in, task_in_win in Hin. apply andb_true_iff in Hin. destruct Hin as [Hin _].
        apply andb_true_iff in Hin. destruct Hin as [Hin _]. apply Nat.eqb_eq in Hin. apply HC; assumption. }
    (* inside the busy window the supply lags behind the released hi workload plus the blocking *)
    assert (Hlag : forall y, 0 < y -> t1 + y <= a -> supplied sigma t1 y < workP jobs (hi_in t1 y) + B).
    { intros y Hy0 Hya. set (P := hi_in t1 y).
      assert (Hb : forall u, u < y -> sigma (t1 + u) = true -> exists k, hi k = true /\ pending k (t1 + u)).
      { intros u Hu _. apply Hbusy_pre. lia. }
      assert (Hs : supplied sigma t1 y <= svcP jobs sched P t1 y + B).
      { apply supplied_le_svc; [exact Hb|]. intros u k Hu E Hh. unfold P, hi_in, in_win. rewrite Hh.
        destruct (Hvalid _ _ E) as (_ & Ha' & _). pose proof (Hold (t1 + u) k ltac:(lia) E Hh).
        apply andb_true_iff. split; [reflexivity|].
        apply andb_true_iff. split; [apply Nat.leb_le|apply Nat.ltb_lt]; lia. }
      destruct (not_hquiet_ex (t1 + y) (Hnq (t1 + y) ltac:(lia))) as (k & Hk & Hh & Ha & Hinc).
      assert (Hge : t1 <= arr k).
      { destruct (Nat.le_gt_cases t1 (arr k)) as [|Hlt]; [assumption|]. exfalso.
        specialize (Hq k Hk Hh Hlt). pose proof (service_mono sched k t1 (t1 + y) ltac:(lia)). lia. }
      assert (svcP jobs sched P t1 y < workP jobs P); [|lia].
      apply (svcP_lt_workP jobs sched Hvalid P t1 y k Hk); [|lia].
      unfold P, hi_in, in_win. rewrite Hh.
      apply andb_true_iff. split; [reflexivity|].
      apply andb_true_iff. split; [apply Nat.leb_le|apply Nat.ltb_lt]; lia. }
    (* Step 1: the busy window is shorter than maxbw *)
    destruct Hbw as [Hbw0 Hbw1].
    assert (HA : a - t1 < maxbw).
    { destruct (Nat.lt_ge_cases (a - t1) maxbw) as [|Hge]; [assumption|]. exfalso.
      pose proof (Hlag maxbw Hbw0 ltac:(lia)) as H1. pose proof (Hhiw maxbw) as H2.
      pose proof (Hcnt t1 maxbw) as H3. pose proof (Hintf t1 maxbw) as H4. pose proof (Hsbf t1 maxbw) as H5.
      assert (C * countP jobs (own_in t1 maxbw) <= C * nao maxbw) by (apply Nat.mul_le_mono_l; exact H3). lia. }
    set (A := a - t1) in *.
    (* j and the instances of its callback released in [t1, a] *)
    assert (Oj : own_in t1 (A + 1) j = true).
    { unfold own_in, task_in_win. rewrite Htj, Nat.eqb_refl. cbn [andb].
      apply andb_true_iff. split; [apply Nat.leb_le|apply Nat.ltb_lt]; unfold A; fold a; lia. }
    set (N' := countP jobs (own_in t1 (A + 1))).
    assert (HN1 : 1 <= N').
    { unfold N', countP. eapply Nat.le_trans; [|apply (sumn_ge_term _ _ j Hj)]. cbv beta. rewrite Oj. lia. }
    assert (HN2 : N' <= nao (A + 1)) by (apply Hcnt).
    destruct (last_step nao Hnao0 A ltac:(lia)) as (A' & HA'1 & HA'2 & HA'3).
    destruct (HR A' ltac:(lia) HA'2) as (r & Hr & Hsol).
    set (n' := nao (A' + 1)) in *.
    set (X := A' + r) in *. set (Y := iin A' (Nat.max r 1)) in *.
    assert (HY1 : A' + 1 <= Y) by (unfold Y, iin; destruct (Nat.ltb_spec C (Nat.max r 1)); lia).
    assert (HXY : X <= Y + C - 1) by (unfold X, Y, iin; destruct (Nat.ltb_spec C (Nat.max r 1)); lia).
    assert (Hsup : C * n' + intf Y + B <= supplied sigma t1 X) by (pose proof (Hsbf t1 X); lia).
    assert (Hx : t1 + X <= a + R) by (unfold X, A in *; lia).
    apply Nat.le_trans with (service j (t1 + X)); [|apply service_mono; unfold a in Hx; lia].
    destruct (Nat.le_gt_cases (cost j) (service j (t1 + X))) as [|Hinc]; [assumption|]. exfalso.
    (* the instances of the callback of j released in a window that ends at or before a do not include j *)
    assert (Hcnt_pre : forall y, y <= A -> countP jobs (own_in t1 y) + 1 <= N').
    { intros y Hy. apply (countP_lt jobs _ _ j Hj); [| |exact Oj].
      - intros k Hk Hin. unfold own_in, task_in_win in *. apply andb_true_iff in Hin. destruct Hin as [Hin H3].
        rewrite Hin. cbn [andb]. apply Nat.ltb_lt in H3. apply Nat.ltb_lt. lia.
      - unfold own_in, task_in_win. apply andb_false_iff. right. apply Nat.ltb_ge. unfold A in Hy. fold a. lia. }
    destruct (Nat.le_gt_cases (Nat.min X Y) A) as [Hmin|Hmin].
    { (* the analysis' fixed point for offset A' lies inside the busy prefix [t1, a]: impossible *)
      set (y := Nat.min X Y) in *.
      destruct (Nat.eq_dec y 0) as [Hy0|Hy0].
      { assert (X = 0) by lia. assert (HX0 : supplied sigma t1 X = 0) by (rewrite H; reflexivity).
        assert (1 <= n') by (unfold n'; lia). assert (C * 1 <= C * n') by (apply Nat.mul_le_mono_l; assumption). lia. }
      pose proof (Hlag y ltac:(lia) ltac:(unfold A in Hmin; lia)) as H1. pose proof (Hhiw y) as H2.
      pose proof (Hcnt_pre y Hmin) as H3.
      assert (H4 : workP jobs (oth_in t1 y) <= intf Y).
      { eapply Nat.le_trans; [|apply (Hintf t1 Y)]. apply workP_mono. intros k Hk Hin.
        unfold oth_in, in_win in *. apply andb_true_iff in Hin. destruct Hin as [Hin H5]. rewrite Hin. cbn [andb].
        apply andb_true_iff in H5. destruct H5 as [H5 H6]. rewrite H5. cbn [andb].
        apply Nat.ltb_lt in H6. apply Nat.ltb_lt. lia. }
      pose proof (supplied_lip sigma t1 X y) as H5.
      assert (H6 : C * (countP jobs (own_in t1 y) + 1) <= C * n') by (apply Nat.mul_le_mono_l; lia).
      lia. }
    assert (HAY : A + 1 <= Y) by lia. assert (HAX : A + 1 <= X) by lia.
    assert (HYX : Y <= X) by (unfold X, Y, iin in *; destruct (Nat.ltb_spec C (Nat.max r 1)); lia).
    (* j is pending from a until t1 + X *)
    assert (Hjp : forall t, a <= t < t1 + X -> pending j t).
    { intros t Ht. split; [exact Hj|]. split; [fold a; lia|].
      pose proof (service_mono sched j t (t1 + X) ltac:(lia)). lia. }
    assert (Hb : forall u, u < X -> sigma (t1 + u) = true -> exists k, hi k = true /\ pending k (t1 + u)).
    { intros u Hu _. destruct (Nat.lt_ge_cases (t1 + u) a) as [Hlt|Hge]; [apply Hbusy_pre; lia|].
      exists j. split; [exact Hhj|apply Hjp; lia]. }
    (* an instance of the callback of j that runs before t1 + X was released in [t1, a] *)
    assert (Hown_run : forall u k, u < X -> sched (t1 + u) = Some k -> tsk k = i -> own_in t1 (A + 1) k = true).
    { intros u k Hu E Htk. unfold own_in, task_in_win. rewrite Htk, Nat.eqb_refl. cbn [andb].
      destruct (Hvalid _ _ E) as (_ & Ha' & _).
      pose proof (Hold (t1 + u) k ltac:(lia) E (Hown_hi k Htk)).
      assert (arr k <= a).
      { destruct (Nat.lt_ge_cases (t1 + u) a) as [Hlt|Hge]; [lia|]. fold a.
        apply (Hfifo (t1 + u) k j E (Hjp (t1 + u) ltac:(lia))). rewrite Htk, Htj. reflexivity. }
      apply andb_true_iff. split; [apply Nat.leb_le|apply Nat.ltb_lt]; unfold A; lia. }
    (* the other hi instances that run before t1 + y were released in [t1, t1 + y) *)
    assert (Hoth_run : forall y u k, u < y -> sched (t1 + u) = Some k -> hi k = true -> tsk k <> i -> oth_in t1 y k = true).
    { intros y u k Hu E Hh Htk. unfold oth_in, in_win. rewrite Hh. cbn [andb].
      destruct (Nat.eqb_spec (tsk k) i) as [|_]; [contradiction|]. cbn [negb andb].
      destruct (Hvalid _ _ E) as (_ & Ha' & _). pose proof (Hold (t1 + u) k ltac:(lia) E Hh).
      apply andb_true_iff. split; [apply Nat.leb_le|apply Nat.ltb_lt]; lia. }
    assert (HN3 : C * N' <= C * n') by (apply Nat.mul_le_mono_l; lia).
    destruct (Nat.eq_dec (service j (t1 + Y)) 0) as [Hns|Hst].
    - (* j has not started by t1 + Y: the supply of [t1, t1 + Y) went to other instances *)
      set (P := fun k => (own_in t1 (A + 1) k && negb (k =? j)) || oth_in t1 Y k).
      assert (Hs : supplied sigma t1 Y <= svcP jobs sched P t1 Y + B).
      { apply supplied_le_svc; [intros u Hu; apply Hb; lia|]. intros u k Hu E Hh. unfold P.
        assert (Hkj : k <> j).
        { intros ->. pose proof (runs_service j (t1 + u) E).
          pose proof (service_mono sched j (S (t1 + u)) (t1 + Y) ltac:(lia)). lia. }
        destruct (Nat.eq_dec (tsk k) i) as [Htk|Htk].
        - rewrite (Hown_run u k ltac:(lia) E Htk). destruct (Nat.eqb_spec k j); [contradiction|reflexivity].
        - rewrite (Hoth_run Y u k Hu E Hh Htk). apply orb_true_r. }
      assert (Hw : workP jobs P <= C * (N' - 1) + intf Y).
      { unfold P. eapply Nat.le_trans; [apply workP_or_le|]. apply Nat.add_le_mono; [|apply Hintf].
        eapply Nat.le_trans; [apply (workP_count jobs _ C)|].
        - intros k Hk Hin. apply andb_true_iff in Hin. destruct Hin as [Hin _].
          unfold own_in, task_in_win in Hin. apply andb_true_iff in Hin. destruct Hin as [Hin _].
          apply andb_true_iff in Hin. destruct Hin as [Hin _]. apply Nat.eqb_eq in Hin. apply HC; assumption.
        - apply Nat.mul_le_mono_l.
          assert (countP jobs (fun k => own_in t1 (A + 1) k && negb (k =? j)) + 1 <= N'); [|lia].
          apply (countP_lt jobs _ _ j Hj); [| |exact Oj].
          + intros k Hk Hin. apply andb_true_iff in Hin. tauto.
          + rewrite Nat.eqb_refl. apply andb_false_r. }
      pose proof (svcP_le_workP jobs sched Hvalid P t1 Y) as H1.
      pose proof (supplied_lip sigma t1 X Y) as H2.
      assert (C * (N' - 1) + C = C * N') by (rewrite <- Nat.mul_succ_r; f_equal; lia). lia.
    - (* j has started by t1 + Y: from then on it occupies every supplied slot *)
      set (P := fun k => own_in t1 (A + 1) k || oth_in t1 Y k).
      assert (Hs : supplied sigma t1 X <= svcP jobs sched P t1 X + B).
      { apply supplied_le_svc; [exact Hb|]. intros u k Hu E Hh. unfold P.
        destruct (Nat.eq_dec (tsk k) i) as [Htk|Htk].
        - rewrite (Hown_run u k Hu E Htk). reflexivity.
        - destruct (Nat.lt_ge_cases u Y) as [HuY|HuY].
          + rewrite (Hoth_run Y u k HuY E Hh Htk). apply orb_true_r.
          + exfalso. pose proof (service_mono sched j (t1 + Y) (t1 + u) ltac:(lia)).
            pose proof (service_mono sched j (t1 + u) (t1 + X) ltac:(lia)).
            assert (Hrun := Hrtc (t1 + u) j ltac:(lia) ltac:(lia) (Huses _ _ E)).
            rewrite E in Hrun. injection Hrun as ->. contradiction. }
      assert (Hw : workP jobs P <= C * N' + intf Y).
      { unfold P. eapply Nat.le_trans; [apply workP_or_le|]. apply Nat.add_le_mono; [|apply Hintf].
        apply workP_count. intros k Hk Hin.
        unfold own_in, task_in_win in Hin. apply andb_true_iff in Hin. destruct Hin as [Hin _].
        apply andb_true_iff in Hin. destruct Hin as [Hin _]. apply Nat.eqb_eq in Hin. apply HC; assumption. }
      assert (svcP jobs sched P t1 X < workP jobs P); [|lia].
      apply (svcP_lt_workP jobs sched Hvalid P t1 X j Hj); [|lia].
      unfold P. rewrite Oj. reflexivity.
  Qed.
End NpUnderSupply.
Print Assumptions np_reservation_bound.

(* ------------------------------------------------------------------------------------------ *)
(* Part 2: from the task-level model to the schedule-level hypotheses                          *)
(* ------------------------------------------------------------------------------------------ *)
Local Notation tsk jobs k := (j_task (nth k jobs (mkJob 0 0 0))).

(* the list without its i-th element *)
Fixpoint remove_nth {A} (i : nat) (l : list A) : list A :=
  match l with
  | [] => []
  | x :: l' => match i with O => l' | S i' => x :: remove_nth i' l' end
  end.

(* the tasks whose index satisfies p *)
Definition select_tasks (p : nat -> bool) (tasks : list task) : list task :=
  map (fun k => nth k tasks (Never, 0%N)) (filter p (seq 0 (length tasks))).

Lemma remove_nth_Forall : forall {A} (P : A -> Prop) i l, Forall P l -> Forall P (remove_nth i l).
Proof.
  intros A P i l H. revert i. induction H as [|x l Hx Hl IH]; intros i; [destruct i; constructor|].
  destruct i as [|i]; cbn [remove_nth]; [exact Hl|]. constructor; [exact Hx|apply IH].
Qed.

Lemma select_tasks_Forall : forall (P : task -> Prop) p tasks, Forall P tasks -> Forall P (select_tasks p tasks).
Proof.
  intros P p tasks H. rewrite Forall_forall in *. intros tk Hin. unfold select_tasks in Hin.
  apply in_map_iff in Hin. destruct Hin as (k & <- & Hk). apply filter_In in Hk. destruct Hk as [Hk _].
  apply in_seq in Hk. apply H. apply nth_In. lia.
Qed.

(* sums over the indices different from i / satisfying p, against sums over the selected lists *)
Lemma sumn_remove_nth_le : forall {A} (l : list A) (dflt : A) (g : A -> N) i (f : nat -> nat),
  (forall k, k < length l -> k <> i -> (N.of_nat (f k) <= g (nth k l dflt))%N) ->
  (N.of_nat (sumn (length l) (fun k => if negb (k =? i)%nat then f k else 0%nat)) <= sumN (map g (remove_nth i l)))%N.
Proof.
  intros A l dflt g. induction l as [|x l IH]; intros i f H; [cbn; lia|].
  cbn [length]. rewrite sumn_shift. destruct i as [|i]; cbn [remove_nth].
  - cbn [Nat.eqb negb]. rewrite Nat.add_0_l.
    apply (sumn_ofnat_sumN l dflt g (fun k => f (S k))).
    intros k Hk. apply (H (S k)); cbn [length]; lia.
  - cbn [Nat.eqb negb map sumN fold_right]. rewrite Nnat.Nat2N.inj_add.
    assert (H0 := H 0 ltac:(cbn [length]; lia) ltac:(lia)). cbn [nth] in H0.
    assert (H1 := IH i (fun k => f (S k)) ltac:(intros k Hk Hne; apply (H (S k)); cbn [length]; lia)).
    unfold sumN in H1. lia.
Qed.

Lemma sumn_select_le : forall (p : nat -> bool) (g : nat -> nat) (G : nat -> N) m,
  (forall x, x < m -> p x = true -> (N.of_nat (g x) <= G x)%N) ->
  (N.of_nat (sumn m (fun x => if p x then g x else 0%nat)) <= sumN (map G (filter p (seq 0 m))))%N.
Proof.
  intros p g G m. induction m as [|m IH]; intros H; [cbn; lia|].
  rewrite seq_S, filter_app, map_app, sumN_app. cbn [sumn plus filter].
  rewrite Nnat.Nat2N.inj_add.
  assert (IH' := IH (fun x Hx => H x (Nat.lt_lt_succ_r _ _ Hx))).
  destruct (p m) eqn:Pm.
  - cbn [map sumN fold_right]. specialize (H m (Nat.lt_succ_diag_r m) Pm). lia.
  - cbn [map sumN fold_right]. lia.
Qed.

(* the workload of the jobs of a class of tasks released in a window, task by task *)
Lemma class_workload_split : forall tasks jobs (p : nat -> bool) t1 d, respects_costs tasks jobs ->
  workP jobs (fun k => p (tsk jobs k) && in_win jobs t1 d k)
  = sumn (length tasks) (fun i' => if p i' then workP jobs (task_in_win jobs i' t1 d) else 0).
Proof.
  intros tasks jobs p t1 d Hcost. unfold workP.
  rewrite (sumn_ext (length tasks) _
             (fun i' => sumn (length jobs)
                (fun k => if p i' && task_in_win jobs i' t1 d k then cost jobs k else 0))).
  2:{ intros i' _. destruct (p i'); cbn [andb]; [reflexivity|]. symmetry. apply sumn_const0. reflexivity. }
  rewrite sumn_exch. apply sumn_ext. intros k Hk.
  destruct (Hcost (nth k jobs (mkJob 0 0 0)) (nth_In _ _ Hk)) as (Ht & _ & _).
  rewrite (sumn_ext (length tasks) _
             (fun i' => if tsk jobs k =? i' then (if p (tsk jobs k) && in_win jobs t1 d k then cost jobs k else 0) else 0)).
  - rewrite sumn_pick by exact Ht. reflexivity.
  - intros i' _. unfold task_in_win, in_win.
    destruct (Nat.eqb_spec (tsk jobs k) i') as [<-|Hne]; cbn [andb].
    + reflexivity.
    + rewrite andb_false_r. reflexivity.
Qed.

(* a callback that has an instance has an arrival bound that allows an arrival *)
Lemma task_has_arrival : forall (tasks : list task) jobs i k, (i < length tasks)%nat ->
  wf_ab (fst (nth i tasks (Never, 0%N))) -> respects_curves tasks jobs ->
  (k < length jobs)%nat -> tsk jobs k = i -> (0 < na (fst (nth i tasks (Never, 0%N))) 1)%N.
Proof.
  intros tasks jobs i k Hi Hwf Hc Hk Htk.
  assert (Hb := task_jobs_in_window_bounded tasks jobs i (arr jobs k) 1 Hi Hwf Hc).
  assert (Hone : (1 <= sumn (length jobs) (fun k' => if task_in_win jobs i (arr jobs k) 1 k' then 1 else 0))%nat).
  { eapply Nat.le_trans; [|apply (sumn_ge_term _ _ k Hk)].
    unfold task_in_win. rewrite Htk, Nat.eqb_refl, Nat.leb_refl. cbn [andb].
    destruct (Nat.ltb_spec (arr jobs k) (arr jobs k + 1)); lia. }
  change (N.of_nat 1) with 1%N in Hb. unfold task in *. lia.
Qed.

Lemma iin_N : forall c A r : N,
  N.of_nat (iin (N.to_nat c) (N.to_nat A) (N.to_nat r)) = (if c <? r then A + r - c + 1 else A + 1)%N.
Proof.
  intros c A r. unfold iin.
  destruct (Nat.ltb_spec (N.to_nat c) (N.to_nat r)), (N.ltb_spec c r); lia.
Qed.

Local Open Scope N_scope.

(* the common core: the maximum over the step offsets of the ECRTS'19 fixed points bounds the response
   time of every instance of callback i, for a dispatcher that starts a "low" instance (a callback
   outside the class hiT) only when no instance of the class hiT is pending *)
Lemma ecrts_np_core : forall sb (tasks : list task) i (hiT : nat -> bool) (intfrb : RB) (B limit R : N)
    (bw_rhs : N -> N) (rhs : N -> N -> N) jobs sched sigma,
  wf_sb sb -> supply_admits sb sigma -> Forall fifo_task_ok tasks -> (i < length tasks)%nat ->
  hiT i = true ->
  (forall t1 d : nat,
     N.of_nat (workP jobs (fun k => hiT (tsk jobs k) && negb (tsk jobs k =? i)%nat && in_win jobs t1 d k))
     <= sn intfrb (N.of_nat d)) ->
  (forall i', (i' < length tasks)%nat -> hiT i' = false -> snd (nth i' tasks (Never, 0)) <= B) ->
  (forall d, bw_rhs d = sn (rb_of (nth i tasks (Never, 0))) d + B + sn intfrb d) ->
  (forall off resp, rhs off resp =
     sn (rb_of (nth i tasks (Never, 0))) (off + 1)
     + sn intfrb (interference_interval (lw (rb_of (nth i tasks (Never, 0)))) off resp) + B) ->
  exh_ecrts_steps (sbf sb) limit (sn (rb_of (nth i tasks (Never, 0)))) bw_rhs rhs = ROk R ->
  valid jobs sched -> uses_supply sched sigma -> work_conserving_under jobs sched sigma ->
  runs_to_completion_under jobs sched sigma -> fifo_within_task jobs sched ->
  (forall t k k', starts_at sched k t -> hiT (tsk jobs k) = false -> pending jobs sched k' t ->
                  hiT (tsk jobs k') = false) ->
  respects_curves tasks jobs -> respects_costs tasks jobs ->
  forall k, (k < length jobs)%nat -> tsk jobs k = i -> completes_within jobs sched k (N.to_nat R).
Proof.
  intros sb tasks i hiT intfrb B limit R bw_rhs rhs jobs sched sigma Hwf Hadm Hok Hi HhiT Hoth HBlow
    Hbwr Hrhs He Hv Hus Hwc Hrtc Hf Hprio Hc Hcost k Hk Htk.
  unfold rb_of in *. unfold task in *. set (ab := fst (nth i tasks (Never, 0))) in *. set (c := snd (nth i tasks (Never, 0))) in *.
  assert (Hti : fifo_task_ok (nth i tasks (Never, 0))).
  { rewrite Forall_forall in Hok. apply Hok. apply nth_In. exact Hi. }
  destruct Hti as (Hab & _ & Hc1). fold ab in Hab. fold c in Hc1.
  assert (Hpos : 0 < na ab 1) by (apply (task_has_arrival tasks jobs i k Hi Hab Hc Hk Htk)).
  assert (Hsok := sbf_wf_ok sb Hwf).
  unfold exh_ecrts_steps in He.
  destruct (least_sol (sbf sb) limit 0 bw_rhs) as [max_bw|] eqn:Ebw; [|discriminate].
  cbv zeta in He.
  set (offs := filter (fun A => sn (RBF ab (Scalar c)) A <? sn (RBF ab (Scalar c)) (A + 1)) (rangeN 0 (max_bw + 1))) in He.
  set (sols := map (fun A => (A, least_sol (sbf sb) limit A (rhs A))) offs) in He.
  destruct (find (fun p => is_none (snd p)) sols) as [p|] eqn:Ef; [discriminate|].
  assert (HR : maxN (map (fun p => oval (snd p)) sols) = R) by (injection He as HR'; exact HR').
  apply least_sol_some in Ebw. destruct Ebw as (Hl1 & Hbl & Hsol & _).
  unfold sol in Hsol. rewrite N.add_0_l, Hbwr in Hsol. cbn [sn cost_of_jobs] in Hsol.
  assert (Hbw0 : 0 < max_bw).
  { destruct (N.eq_dec max_bw 0) as [E|E]; [|lia]. exfalso. rewrite E in Hsol.
    destruct Hsok as (Hs0 & _). rewrite Hs0 in Hsol. change (N.max 0 1) with 1 in Hsol.
    assert (1 * 1 <= c * na ab 1) by (apply N.mul_le_mono; lia). lia. }
  replace (N.max max_bw 1) with max_bw in Hsol by lia.
  unfold completes_within.
  apply np_reservation_bound with (sigma := sigma) (i := i) (hi := fun k => hiT (tsk jobs k))
    (C := N.to_nat c) (B := N.to_nat B) (nao := fun d => N.to_nat (na ab (N.of_nat d)))
    (intf := fun d => N.to_nat (sn intfrb (N.of_nat d))) (sbf := fun d => N.to_nat (sbf sb (N.of_nat d)))
    (maxbw := N.to_nat max_bw); try assumption.
  - intros k0 E. rewrite E. exact HhiT.
  - intros t1 d. unfold countP, own_in.
    assert (H := task_jobs_in_window_bounded tasks jobs i t1 d Hi Hab Hc). fold ab in H. lia.
  - intros k0 Hk0 E. destruct (Hcost _ (nth_In _ (mkJob 0 0 0) Hk0)) as (_ & _ & Hle).
    rewrite E in Hle. exact Hle.
  - intros t1 d. unfold oth_in. specialize (Hoth t1 d). lia.
  - intros k0 Hk0 Hl. destruct (Hcost _ (nth_In _ (mkJob 0 0 0) Hk0)) as (Ht & _ & Hle).
    specialize (HBlow _ Ht Hl). unfold cost. unfold task in *. lia.
  - change (N.of_nat 0) with 0. rewrite (na_zero ab Hab). reflexivity.
  - intros t d. apply supply_admits_sbf; assumption.
  - rewrite Nnat.N2Nat.id. split; [lia|]. rewrite <- Nnat.N2Nat.inj_mul. lia.
  - intros A HA Hstep. set (A' := N.of_nat A).
    assert (Hin : In (A', least_sol (sbf sb) limit A' (rhs A')) sols).
    { unfold sols. apply (in_map (fun A => (A, least_sol (sbf sb) limit A (rhs A)))).
      unfold offs. apply filter_In. split; [apply in_rangeN; unfold A'; lia|].
      apply N.ltb_lt. cbn [sn cost_of_jobs]. apply N.mul_lt_mono_pos_l; [lia|].
      replace (A' + 1) with (N.of_nat (A + 1)) by (unfold A'; lia). unfold A'. lia. }
    pose proof (find_none _ _ Ef _ Hin) as Hsome. cbn [snd] in Hsome.
    destruct (least_sol (sbf sb) limit A' (rhs A')) as [r|] eqn:Er; [|discriminate Hsome].
    assert (Hle : r <= R).
    { rewrite <- HR. apply maxN_ub.
      change r with ((fun p : N * option N => oval (snd p)) (A', Some r)).
      apply in_map. exact Hin. }
    apply least_sol_some in Er. destruct Er as (_ & _ & Hs & _). unfold sol in Hs.
    rewrite Hrhs in Hs. unfold interference_interval in Hs. cbv zeta in Hs.
    rewrite (lw_scalar_const ab c _ Hab Hpos) in Hs by lia. cbn [sn cost_of_jobs] in Hs.
    exists (N.to_nat r). split; [lia|].
    replace (Nat.max (N.to_nat r) 1) with (N.to_nat (N.max r 1)) by lia.
    replace A with (N.to_nat A') at 2 by (unfold A'; lia). rewrite iin_N.
    replace (N.of_nat (A + 1)) with (A' + 1) by (unfold A'; lia).
    replace (N.of_nat (A + N.to_nat r)) with (A' + r) by (unfold A'; lia).
    rewrite <- Nnat.N2Nat.inj_mul. lia.
Qed.
Print Assumptions ecrts_np_core.

(* ------------------------------------------------------------------------------------------ *)
(* Part 3: the polling-point-callback analysis (Lemmas 4/5)                                    *)
(* ------------------------------------------------------------------------------------------ *)
Theorem pp_sound : forall dbg sb (tasks : list task) i limit R jobs sched sigma,
  wf_sb sb -> supply_admits sb sigma -> Forall fifo_task_ok tasks -> (i < length tasks)%nat ->
  e_pp dbg sb (rb_of (nth i tasks (Never, 0))) (Agg (map rb_of (remove_nth i tasks))) limit = ROk R ->
  valid jobs sched -> uses_supply sched sigma -> work_conserving_under jobs sched sigma ->
  runs_to_completion_under jobs sched sigma -> fifo_within_task jobs sched ->
  respects_curves tasks jobs -> respects_costs tasks jobs ->
  forall k, (k < length jobs)%nat -> j_task (nth k jobs (mkJob 0 0 0)) = i ->
    completes_within jobs sched k (N.to_nat R).
Proof.
  intros dbg sb tasks i limit R jobs sched sigma Hwf Hadm Hok Hi He Hv Hus Hwc Hrtc Hf Hc Hcost k Hk Htk.
  assert (Hti : fifo_task_ok (nth i tasks (Never, 0))).
  { rewrite Forall_forall in Hok. apply Hok. apply nth_In. exact Hi. }
  destruct Hti as (Hab & Hcl & Hc1).
  assert (Hpos := task_has_arrival tasks jobs i k Hi Hab Hc Hk Htk).
  set (intfrb := Agg (map rb_of (remove_nth i tasks))) in *.
  assert (Hwfi : wf_rb intfrb).
  { apply rb_steps_ok_wf. apply rb_of_ok. apply remove_nth_Forall. exact Hok. }
  assert (E := e_pp_steps sb _ _ intfrb limit Hwf Hab Hcl Hc1 Hpos Hwfi dbg).
  assert (He' : exh_ecrts_steps (sbf sb) limit (sn (rb_of (nth i tasks (Never, 0))))
                  (fun d => sn (rb_of (nth i tasks (Never, 0))) d + sn intfrb d)
                  (fun off resp => sn (rb_of (nth i tasks (Never, 0))) (off + 1)
                     + sn intfrb (interference_interval (lw (rb_of (nth i tasks (Never, 0)))) off resp)) = ROk R).
  { rewrite <- He. symmetry. exact E. }
  apply (ecrts_np_core sb tasks i (fun _ => true) intfrb 0 limit R
           (fun d => sn (rb_of (nth i tasks (Never, 0))) d + sn intfrb d)
           (fun off resp => sn (rb_of (nth i tasks (Never, 0))) (off + 1)
              + sn intfrb (interference_interval (lw (rb_of (nth i tasks (Never, 0)))) off resp))
           jobs sched sigma Hwf Hadm Hok Hi eq_refl); try assumption.
  - (* the interfering workload: all the other callbacks *)
    intros t1 d.
    pose proof (class_workload_split tasks jobs (fun i' => true && negb (i' =? i)%nat) t1 d Hcost) as Hs.
    cbv beta in Hs. rewrite Hs. cbn [andb].
    unfold intfrb. rewrite sn_total. unfold total_of.
    apply (sumn_remove_nth_le tasks (Never, 0) (fun tk => snd tk * na (fst tk) (N.of_nat d)) i
             (fun i' => workP jobs (task_in_win jobs i' t1 d))).
    intros i' Hi' _. apply task_workload_bounded; auto. apply wf_nth; assumption.
  - intros i' _ Hf'. discriminate Hf'.
  - intros d. cbv beta. lia.
  - intros off resp. cbv beta. lia.
  - intros t k0 k' _ Hf' _. discriminate Hf'.
Qed.
Print Assumptions pp_sound.

(* ------------------------------------------------------------------------------------------ *)
(* Part 4: the timer analysis (Lemma 3)                                                        *)
(* ------------------------------------------------------------------------------------------ *)

(* the callbacks of the class hiT take precedence at every dispatch: when an instance starts (receives its
   first unit of service) while an instance of a callback of the class is pending, the instance that starts
   belongs to the class too *)
Definition precedence_respected (jobs : list job) (sched : nat -> option nat) (hiT : nat -> bool) : Prop :=
  forall t k k', starts_at sched k t -> pending jobs sched k' t ->
    hiT (tsk jobs k') = true -> hiT (tsk jobs k) = true.

(* timer i, the interfering (higher-precedence) timers hp, every other callback has WCET at most B *)
Theorem timer_sound : forall dbg sb (tasks : list task) i (hp : nat -> bool) B limit R jobs sched sigma,
  wf_sb sb -> supply_admits sb sigma -> Forall fifo_task_ok tasks -> (i < length tasks)%nat ->
  hp i = false ->
  (forall i', (i' < length tasks)%nat -> i' <> i -> hp i' = false -> snd (nth i' tasks (Never, 0)) <= B) ->
  e_timer dbg sb (rb_of (nth i tasks (Never, 0))) (Agg (map rb_of (select_tasks hp tasks))) B limit = ROk R ->
  valid jobs sched -> uses_supply sched sigma -> work_conserving_under jobs sched sigma ->
  runs_to_completion_under jobs sched sigma -> fifo_within_task jobs sched ->
  precedence_respected jobs sched (fun i' => (i' =? i)%nat || hp i') ->
  respects_curves tasks jobs -> respects_costs tasks jobs ->
  forall k, (k < length jobs)%nat -> j_task (nth k jobs (mkJob 0 0 0)) = i ->
    completes_within jobs sched k (N.to_nat R).
Proof.
  intros dbg sb tasks i hp B limit R jobs sched sigma Hwf Hadm Hok Hi Hhpi HB He Hv Hus Hwc Hrtc Hf Hprec
    Hc Hcost k Hk Htk.
  assert (Hti : fifo_task_ok (nth i tasks (Never, 0))).
  { rewrite Forall_forall in Hok. apply Hok. apply nth_In. exact Hi. }
  destruct Hti as (Hab & Hcl & Hc1).
  assert (Hpos := task_has_arrival tasks jobs i k Hi Hab Hc Hk Htk).
  set (intfrb := Agg (map rb_of (select_tasks hp tasks))) in *.
  assert (Hwfi : wf_rb intfrb).
  { apply rb_steps_ok_wf. apply rb_of_ok. apply select_tasks_Forall. exact Hok. }
  assert (E := e_timer_steps sb _ _ intfrb B limit Hwf Hab Hcl Hc1 Hpos Hwfi dbg).
  assert (He' : exh_ecrts_steps (sbf sb) limit (sn (rb_of (nth i tasks (Never, 0))))
                  (fun d => sn (rb_of (nth i tasks (Never, 0))) d + B + sn intfrb d)
                  (fun off resp => sn (rb_of (nth i tasks (Never, 0))) (off + 1)
                     + sn intfrb (interference_interval (lw (rb_of (nth i tasks (Never, 0)))) off resp) + B) = ROk R).
  { rewrite <- He. symmetry. exact E. }
  apply (ecrts_np_core sb tasks i (fun i' => (i' =? i)%nat || hp i') intfrb B limit R
           (fun d => sn (rb_of (nth i tasks (Never, 0))) d + B + sn intfrb d)
           (fun off resp => sn (rb_of (nth i tasks (Never, 0))) (off + 1)
              + sn intfrb (interference_interval (lw (rb_of (nth i tasks (Never, 0)))) off resp) + B)
           jobs sched sigma Hwf Hadm Hok Hi); try assumption.
  - rewrite Nat.eqb_refl. reflexivity.
  - (* the interfering workload: the callbacks selected by hp *)
    intros t1 d.
    pose proof (class_workload_split tasks jobs (fun i' => ((i' =? i)%nat || hp i') && negb (i' =? i)%nat) t1 d Hcost) as Hs.
    cbv beta in Hs. rewrite Hs.
    rewrite (sumn_ext (length tasks) _ (fun i' => if hp i' then workP jobs (task_in_win jobs i' t1 d) else 0%nat)).
    2:{ intros i' _. destruct (Nat.eqb_spec i' i) as [->|Hne]; cbn [orb negb andb].
        - rewrite Hhpi. reflexivity.
        - rewrite andb_true_r. reflexivity. }
    unfold intfrb. rewrite sn_total. unfold total_of, select_tasks. rewrite map_map.
    apply (sumn_select_le hp (fun i' => workP jobs (task_in_win jobs i' t1 d))
             (fun k0 => snd (nth k0 tasks (Never, 0)) * na (fst (nth k0 tasks (Never, 0))) (N.of_nat d))).
    intros i' Hi' _. apply task_workload_bounded; auto. apply wf_nth; assumption.
  - intros i' Hi' Hl. apply orb_false_iff in Hl. destruct Hl as [Hne Hl]. apply Nat.eqb_neq in Hne.
    apply HB; assumption.
  - intros d. reflexivity.
  - intros off resp. reflexivity.
  - intros t k0 k' Hst Hl Hp. destruct ((tsk jobs k' =? i)%nat || hp (tsk jobs k')) eqn:Hh; [|reflexivity].
    pose proof (Hprec t k0 k' Hst Hp Hh) as Hc'. cbv beta in Hc'. congruence.
Qed.
Print Assumptions timer_sound.

(* ------------------------------------------------------------------------------------------ *)
(* Part 5: the witness of the known finding C07-ecrts19-pruning                                *)
(* ------------------------------------------------------------------------------------------ *)
(* For this task set the analysis returns 5 while the maximum of the offset equations over ALL offsets
   A <= max_bw is 8 ([pp_not_exhaustive_refuted], ExhRos.v; attained at the non-step offset A = max_bw = 5).
   The pruning is nevertheless sound: an instance that arrives at a non-step offset A of its own curve is
   covered by the fixed point of the last step offset A' <= A ([np_reservation_bound]: either that fixed point
   lies inside the busy prefix [t1, a], which contradicts the choice of t1, or it bounds the completion time). *)
Definition c07_tasks : list task := [(Sporadic 19 0, 1); (CurveAB [5; 8; 17; 24], 4)].

Example c07_tasks_ok : Forall fifo_task_ok c07_tasks.
Proof.
  constructor; [repeat split; cbn; lia|]. constructor; [|constructor].
  unfold fifo_task_ok. cbn [fst snd wf_ab steps_exact_class]. split; [|split; [|lia]].
  - split; [discriminate|]. split; [|cbn; lia].
    intros i Hi. cbn [length] in Hi.
    destruct i as [|[|[|i]]]; [cbn; lia|cbn; lia|cbn; lia|lia].
  - exact I.
Qed.

Example c07_analysis :
  e_pp true Dedicated (rb_of (nth 0%nat c07_tasks (Never, 0))) (Agg (map rb_of (remove_nth 0 c07_tasks))) 100 = ROk 5.
Proof. vm_compute. reflexivity. Qed.

Corollary c07_witness_sound : forall jobs sched sigma,
  (forall t, sigma t = true) ->
  valid jobs sched -> uses_supply sched sigma -> work_conserving_under jobs sched sigma ->
  runs_to_completion_under jobs sched sigma -> fifo_within_task jobs sched ->
  respects_curves c07_tasks jobs -> respects_costs c07_tasks jobs ->
  forall k, (k < length jobs)%nat -> j_task (nth k jobs (mkJob 0 0 0)) = 0%nat -> completes_within jobs sched k 5.
Proof.
  intros jobs sched sigma Hs Hv Hus Hwc Hrtc Hf Hc Hcost k Hk Htk.
  exact (pp_sound true Dedicated c07_tasks 0 100 5 jobs sched sigma I Hs c07_tasks_ok ltac:(cbn; lia)
           c07_analysis Hv Hus Hwc Hrtc Hf Hc Hcost k Hk Htk).
Qed.
Print Assumptions c07_witness_sound.

(* ------------------------------------------------------------------------------------------ *)
(* Part 6: non-vacuity                                                                         *)
(* ------------------------------------------------------------------------------------------ *)
Definition pp_sb : SB := PeriodicS 2 5.
Definition pp_tasks : list task := [(Sporadic 20 0, 2); (Sporadic 20 0, 1)].

Example pp_sb_wf : wf_sb pp_sb.
Proof. cbn. lia. Qed.

Example pp_tasks_ok : Forall fifo_task_ok pp_tasks.
Proof. repeat constructor; cbn; lia. Qed.

Example pp_analysis :
  e_pp false pp_sb (rb_of (nth 0%nat pp_tasks (Never, 0))) (Agg (map rb_of (remove_nth 0 pp_tasks))) 100 = ROk 12.
Proof. vm_compute. reflexivity. Qed.

Definition tm_tasks : list task := [(Sporadic 20 0, 2); (Sporadic 20 0, 2)].

Example tm_tasks_ok : Forall fifo_task_ok tm_tasks.
Proof. repeat constructor; cbn; lia. Qed.

Example tm_analysis :
  e_timer false pp_sb (rb_of (nth 0%nat tm_tasks (Never, 0)))
    (Agg (map rb_of (select_tasks (fun _ => false) tm_tasks))) 2 100 = ROk 13.
Proof. vm_compute. reflexivity. Qed.

Section Witnesses.
  Local Open Scope nat_scope.
  (* the budget is delivered in slots 0, 1 of the first period and as late as possible (slots 3, 4) in
     every later period: supplied slots 0, 1, 8, 9, 13, 14, ... *)
  Definition pp_sigma : rsched := worst_sigma 2 5 5.

  Lemma pp_sigma_ok : supply_admits pp_sb pp_sigma.
  Proof. apply worst_sigma_valid; lia. Qed.

  (* polling-point callbacks: an instance of each callback is released at time 2, just after the budget of
     the first period is gone; the dispatcher picks the interfering callback first (slot 8), the callback
     under analysis runs in slots 9 and 13 *)
  Definition pp_jobs : list job := [mkJob 0 2 2; mkJob 1 2 1].
  Definition pp_sched (t : nat) : option nat :=
    if t =? 8 then Some 1 else if (t =? 9) || (t =? 13) then Some 0 else None.

  Lemma pp_valid : valid pp_jobs pp_sched.
  Proof.
    intros t j E.
    do 14 (destruct t as [|t];
           [first [ discriminate E
                  | injection E as <-; unfold pending, arr, cost, service, svc, runs; cbn; lia ]|]).
    discriminate E.
  Qed.

  Lemma pp_uses_supply : uses_supply pp_sched pp_sigma.
  Proof.
    intros t k E.
    do 14 (destruct t as [|t]; [first [ discriminate E | reflexivity ]|]).
    discriminate E.
  Qed.

  Lemma pp_work_conserving : work_conserving_under pp_jobs pp_sched pp_sigma.
  Proof.
    intros t j (Hj & Ha & Hs) Hsig.
    assert (Hj' : j = 0 \/ j = 1) by (cbn in Hj; lia).
    destruct Hj' as [-> | ->].
    - change (arr pp_jobs 0) with 2 in Ha. change (cost pp_jobs 0) with 2 in Hs.
      do 14 (destruct t as [|t];
             [first [ exfalso; lia | vm_compute in Hsig; discriminate Hsig | cbn; discriminate ]|]).
      exfalso.
      assert (Hm := service_mono pp_sched 0 14 (S (S (S (S (S (S (S (S (S (S (S (S (S (S t))))))))))))))
                      ltac:(lia)).
      assert (H14 : service pp_sched 0 14 = 2) by reflexivity. lia.
    - change (arr pp_jobs 1) with 2 in Ha. change (cost pp_jobs 1) with 1 in Hs.
      do 14 (destruct t as [|t];
             [first [ exfalso; lia | vm_compute in Hsig; discriminate Hsig | cbn; discriminate ]|]).
      exfalso.
      assert (Hm := service_mono pp_sched 1 14 (S (S (S (S (S (S (S (S (S (S (S (S (S (S t))))))))))))))
                      ltac:(lia)).
      assert (H14 : service pp_sched 1 14 = 1) by reflexivity. lia.
  Qed.

  Lemma pp_runs_to_completion : runs_to_completion_under pp_jobs pp_sched pp_sigma.
  Proof.
    intros t k H1 H2 Hsig.
    destruct k as [|[|k]].
    - change (cost pp_jobs 0) with 2 in H2.
      do 14 (destruct t as [|t];
             [first [ exfalso; unfold service, svc, runs in H1; cbn in H1; lia
                    | vm_compute in Hsig; discriminate Hsig
                    | reflexivity ]|]).
      exfalso.
      assert (Hm := service_mono pp_sched 0 14 (S (S (S (S (S (S (S (S (S (S (S (S (S (S t))))))))))))))
                      ltac:(lia)).
      assert (H14 : service pp_sched 0 14 = 2) by reflexivity. lia.
    - exfalso. change (cost pp_jobs 1) with 1 in H2. lia.
    - exfalso. unfold cost in H2. cbn in H2. destruct k; cbn in H2; lia.
  Qed.

  Lemma pp_fifo_within_task : fifo_within_task pp_jobs pp_sched.
  Proof.
    intros t k k' E (Hk' & _) _.
    destruct (pp_valid t k E) as (Hk & _).
    assert (Ha : forall x, x < 2 -> arr pp_jobs x = 2) by (intros [|[|x]] Hx; [reflexivity|reflexivity|lia]).
    cbn in Hk, Hk'. rewrite (Ha k Hk), (Ha k' Hk'). lia.
  Qed.

  Lemma pp_respects_curves : respects_curves pp_tasks pp_jobs.
  Proof.
    intros i Hi. exists [2]. destruct i as [|[|i]]; [| |cbn in Hi; lia].
    - split; [apply Permutation.Permutation_refl|].
      change [2] with (zip_add [2] [0]). apply adm_sporadic; cbn; auto.
    - split; [apply Permutation.Permutation_refl|].
      change [2] with (zip_add [2] [0]). apply adm_sporadic; cbn; auto.
  Qed.

  Lemma pp_respects_costs : respects_costs pp_tasks pp_jobs.
  Proof. intros j [<-|[<-|[]]]; cbn; lia. Qed.

  (* so the theorem applies: the instance of callback 0 completes within 12 ... *)
  Example pp_completes : completes_within pp_jobs pp_sched 0 12.
  Proof.
    exact (pp_sound false pp_sb pp_tasks 0 100 12 pp_jobs pp_sched pp_sigma pp_sb_wf pp_sigma_ok pp_tasks_ok
             ltac:(cbn; lia) pp_analysis pp_valid pp_uses_supply pp_work_conserving pp_runs_to_completion
             pp_fifo_within_task pp_respects_curves pp_respects_costs 0 ltac:(cbn; lia) eq_refl).
  Qed.

  (* ... and not within 11: the bound is tight *)
  Example pp_tight : ~ completes_within pp_jobs pp_sched 0 11.
  Proof. unfold completes_within, cost, arr, service, svc, runs. cbn. lia. Qed.

  (* a timer (callback 0, cost 2) and a lower-precedence callback (callback 1, cost 2 = B): the instance of the
     latter is released at 1, starts in slot 1 and is in progress when the timer instance is released at 2;
     it blocks the timer in slot 8; the timer runs in slots 9 and 13 *)
  Definition tm_jobs : list job := [mkJob 0 2 2; mkJob 1 1 2].
  Definition tm_sched (t : nat) : option nat :=
    if (t =? 1) || (t =? 8) then Some 1 else if (t =? 9) || (t =? 13) then Some 0 else None.

  Lemma tm_valid : valid tm_jobs tm_sched.
  Proof.
    intros t j E.
    do 14 (destruct t as [|t];
           [first [ discriminate E
                  | injection E as <-; unfold pending, arr, cost, service, svc, runs; cbn; lia ]|]).
    discriminate E.
  Qed.

  Lemma tm_uses_supply : uses_supply tm_sched pp_sigma.
  Proof.
    intros t k E.
    do 14 (destruct t as [|t]; [first [ discriminate E | reflexivity ]|]).
    discriminate E.
  Qed.

  Lemma tm_work_conserving : work_conserving_under tm_jobs tm_sched pp_sigma.
  Proof.
    intros t j (Hj & Ha & Hs) Hsig.
    assert (Hj' : j = 0 \/ j = 1) by (cbn in Hj; lia).
    destruct Hj' as [-> | ->].
    - change (arr tm_jobs 0) with 2 in Ha. change (cost tm_jobs 0) with 2 in Hs.
      do 14 (destruct t as [|t];
             [first [ exfalso; lia | vm_compute in Hsig; discriminate Hsig | cbn; discriminate ]|]).
      exfalso.
      assert (Hm := service_mono tm_sched 0 14 (S (S (S (S (S (S (S (S (S (S (S (S (S (S t))))))))))))))
                      ltac:(lia)).
      assert (H14 : service tm_sched 0 14 = 2) by reflexivity. lia.
    - change (arr tm_jobs 1) with 1 in Ha. change (cost tm_jobs 1) with 2 in Hs.
      do 14 (destruct t as [|t];
             [first [ exfalso; lia | vm_compute in Hsig; discriminate Hsig | cbn; discriminate ]|]).
      exfalso.
      assert (Hm := service_mono tm_sched 1 14 (S (S (S (S (S (S (S (S (S (S (S (S (S (S t))))))))))))))
                      ltac:(lia)).
      assert (H14 : service tm_sched 1 14 = 2) by reflexivity. lia.
  Qed.

  Lemma tm_runs_to_completion : runs_to_completion_under tm_jobs tm_sched pp_sigma.
  Proof.
    intros t k H1 H2 Hsig.
    destruct k as [|[|k]].
    - change (cost tm_jobs 0) with 2 in H2.
      do 14 (destruct t as [|t];
             [first [ exfalso; unfold service, svc, runs in H1; cbn in H1; lia
                    | vm_compute in Hsig; discriminate Hsig
                    | reflexivity ]|]).
      exfalso.
      assert (Hm := service_mono tm_sched 0 14 (S (S (S (S (S (S (S (S (S (S (S (S (S (S t))))))))))))))
                      ltac:(lia)).
      assert (H14 : service tm_sched 0 14 = 2) by reflexivity. lia.
    - change (cost tm_jobs 1) with 2 in H2.
      do 14 (destruct t as [|t];
             [first [ exfalso; unfold service, svc, runs in H1, H2; cbn in H1, H2; lia
                    | vm_compute in Hsig; discriminate Hsig
                    | reflexivity ]|]).
      exfalso.
      assert (Hm := service_mono tm_sched 1 14 (S (S (S (S (S (S (S (S (S (S (S (S (S (S t))))))))))))))
                      ltac:(lia)).
      assert (H14 : service tm_sched 1 14 = 2) by reflexivity. lia.
    - exfalso. unfold cost in H2. cbn in H2. destruct k; cbn in H2; lia.
  Qed.

  Lemma tm_fifo_within_task : fifo_within_task tm_jobs tm_sched.
  Proof.
    intros t k k' E (Hk' & _) Ht.
    destruct (tm_valid t k E) as (Hk & _). cbn in Hk, Hk'.
    destruct k as [|[|k]]; [| |lia]; (destruct k' as [|[|k']]; [| |lia]); cbn in Ht; try discriminate Ht; lia.
  Qed.

  Lemma tm_precedence : precedence_respected tm_jobs tm_sched (fun i' => (i' =? 0) || false).
  Proof.
    intros t k k' [E Hs0] (Hk' & Ha' & _) Hh.
    assert (Hk0 : k' = 0).
    { cbn in Hk'. destruct k' as [|[|k']]; [reflexivity|cbn in Hh; discriminate Hh|lia]. }
    subst k'. change (arr tm_jobs 0) with 2 in Ha'.
    do 14 (destruct t as [|t];
           [first [ discriminate E
                  | exfalso; lia
                  | injection E as <-; first [ reflexivity | vm_compute in Hs0; discriminate Hs0 ] ]|]).
    discriminate E.
  Qed.

  Lemma tm_respects_curves : respects_curves tm_tasks tm_jobs.
  Proof.
    intros i Hi. destruct i as [|[|i]]; [| |cbn in Hi; lia].
    - exists [2]. split; [apply Permutation.Permutation_refl|].
      change [2] with (zip_add [2] [0]). apply adm_sporadic; cbn; auto.
    - exists [1]. split; [apply Permutation.Permutation_refl|].
      change [1] with (zip_add [1] [0]). apply adm_sporadic; cbn; auto.
  Qed.

  Lemma tm_respects_costs : respects_costs tm_tasks tm_jobs.
  Proof. intros j [<-|[<-|[]]]; cbn; lia. Qed.

  (* the theorem applies: the timer instance completes within 13 (it actually takes 12: the analysis charges
     the whole WCET of the blocking callback although it must have started before the busy window) *)
  Example tm_completes : completes_within tm_jobs tm_sched 0 13.
  Proof.
    refine (timer_sound false pp_sb tm_tasks 0 (fun _ => false) 2 100 13 tm_jobs tm_sched pp_sigma pp_sb_wf
             pp_sigma_ok tm_tasks_ok ltac:(cbn; lia) eq_refl _ tm_analysis tm_valid tm_uses_supply
             tm_work_conserving tm_runs_to_completion tm_fifo_within_task tm_precedence tm_respects_curves
             tm_respects_costs 0 ltac:(cbn; lia) eq_refl).
    intros [|[|i']] Hi' Hne _; [contradiction|cbn; lia|cbn in Hi'; lia].
  Qed.

  Example tm_blocked : ~ completes_within tm_jobs tm_sched 0 11.
  Proof. unfold completes_within, cost, arr, service, svc, runs. cbn. lia. Qed.
End Witnesses.
Print Assumptions pp_completes.
Print Assumptions pp_tight.
Print Assumptions tm_completes.
Print Assumptions tm_blocked.
