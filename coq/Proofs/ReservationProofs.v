(* ReservationProofs.v — the closed-form supply-bound functions of Model/Supply.v are exactly the
   minimum service that a legal reservation schedule (Spec/Reservation.v) delivers in a window:
   no legal budget placement delivers less (lower bound), and one placement and one window
   deliver exactly that much (attainment). *)
From Coq Require Import Arith NArith List Lia Bool.
From RTA.Model Require Import Base Supply.
From RTA.Spec Require Import Reservation.
From RTA.Proofs Require Import SupplyProofs.

Local Close Scope N_scope.
Local Open Scope nat_scope.

(* ------------------------------------------------------------------------------------------ *)
(* windows                                                                                    *)
(* ------------------------------------------------------------------------------------------ *)

Lemma supplied_split (s : rsched) t d1 d2 :
  supplied s t (d1 + d2) = supplied s t d1 + supplied s (t + d1) d2.
Proof.
  induction d2 as [|d2 IH].
  - rewrite Nat.add_0_r. cbn [supplied]. lia.
  - replace (d1 + S d2) with (S (d1 + d2)) by lia. cbn [supplied].
    rewrite IH. replace (t + (d1 + d2)) with (t + d1 + d2) by lia. lia.
Qed.

Lemma supplied_le (s : rsched) t d : supplied s t d <= d.
Proof.
  induction d as [|d IH]; cbn [supplied]; [lia|].
  destruct (s (t + d)); lia.
Qed.

Lemma supplied_mono (s : rsched) t d d' : d <= d' -> supplied s t d <= supplied s t d'.
Proof.
  intros H. replace d' with (d + (d' - d)) by lia. rewrite supplied_split. lia.
Qed.

(* a window inside another window receives no more *)
Lemma supplied_sub (s : rsched) t d t' d' :
  t <= t' -> t' + d' <= t + d -> supplied s t' d' <= supplied s t d.
Proof.
  intros H1 H2.
  replace d with ((t' - t) + (d' + (t + d - (t' + d')))) by lia.
  rewrite supplied_split, supplied_split.
  replace (t + (t' - t)) with t' by lia. lia.
Qed.

(* ------------------------------------------------------------------------------------------ *)
(* what validity gives for one period                                                         *)
(* ------------------------------------------------------------------------------------------ *)

(* the first b slots of period k *)
Lemma valid_head Q D P sigma k b :
  valid_reservation Q D P sigma ->
  Nat.min Q (Q + b - D) <= supplied sigma (k * P) b.
Proof.
  intros Hv. specialize (Hv k).
  destruct (Nat.le_gt_cases D b) as [Hb|Hb].
  - pose proof (supplied_mono sigma (k * P) D b Hb). lia.
  - replace D with (b + (D - b)) in Hv by lia. rewrite supplied_split in Hv.
    pose proof (supplied_le sigma (k * P + b) (D - b)). lia.
Qed.

(* the slots a .. b-1 of period k *)
Lemma valid_mid Q D P sigma k a b :
  valid_reservation Q D P sigma -> a <= b ->
  Nat.min Q (Q + b - D) - a <= supplied sigma (k * P + a) (b - a).
Proof.
  intros Hv Hab.
  pose proof (valid_head Q D P sigma k b Hv) as Hh.
  replace b with (a + (b - a)) in Hh at 2 by lia. rewrite supplied_split in Hh.
  pose proof (supplied_le sigma (k * P) a). lia.
Qed.

(* m whole periods *)
Lemma valid_full Q D P sigma k m :
  valid_reservation Q D P sigma -> D <= P ->
  m * Q <= supplied sigma (k * P) (m * P).
Proof.
  intros Hv HD. induction m as [|m IH].
  - cbn. lia.
  - replace (S m * P) with (m * P + P) by lia. rewrite supplied_split.
    replace (k * P + m * P) with ((k + m) * P) by lia.
    pose proof (Hv (k + m)) as Hk.
    pose proof (supplied_mono sigma ((k + m) * P) D P HD). lia.
Qed.

(* ------------------------------------------------------------------------------------------ *)
(* the model's closed form, on nat                                                            *)
(* ------------------------------------------------------------------------------------------ *)

Definition csbf_nat (Q D P delta : nat) : nat :=
  N.to_nat (constrained_sbf (N.of_nat Q) (N.of_nat D) (N.of_nat P) (N.of_nat delta)).

Lemma csbf_nat_low Q D P delta : delta < P - Q -> csbf_nat Q D P delta = 0.
Proof.
  intros H. unfold csbf_nat. rewrite constrained_sbf_low; [reflexivity|lia].
Qed.

Lemma csbf_nat_char Q D P q r :
  1 <= Q -> Q <= D -> D <= P -> r < P ->
  csbf_nat Q D P ((P - Q) + q * P + r) = Q * q + Nat.min Q (r - (D - Q)).
Proof.
  intros HQ HD HP Hr. unfold csbf_nat.
  replace (N.of_nat (P - Q + q * P + r))
    with ((N.of_nat P - N.of_nat Q) + N.of_nat q * N.of_nat P + N.of_nat r)%N by lia.
  rewrite constrained_sbf_char by lia.
  rewrite Nnat.N2Nat.inj_add, Nnat.N2Nat.inj_mul, Nnat.N2Nat.inj_min, Nnat.N2Nat.inj_sub,
    Nnat.N2Nat.inj_sub, !Nnat.Nat2N.id.
  reflexivity.
Qed.

(* ------------------------------------------------------------------------------------------ *)
(* lower bound                                                                                *)
(* ------------------------------------------------------------------------------------------ *)

Lemma csbf_nat_lower_bound Q D P sigma :
  1 <= Q -> Q <= D -> D <= P ->
  valid_reservation Q D P sigma ->
  forall t delta, csbf_nat Q D P delta <= supplied sigma t delta.
Proof.
  intros HQ HD HP Hv t delta.
  assert (HP0 : P <> 0) by lia.
  pose proof (Nat.div_mod t P HP0) as Ht.
  pose proof (Nat.mod_upper_bound t P HP0) as Ha.
  set (k := t / P) in *. set (a := t mod P) in *. clearbody k a.
  replace t with (k * P + a) by lia. clear Ht t.
  destruct (Nat.lt_ge_cases delta (P - a)) as [Hin|Hout].
  - (* the window ends strictly inside period k *)
    pose proof (valid_mid Q D P sigma k a (a + delta) Hv ltac:(lia)) as Hm.
    replace (a + delta - a) with delta in Hm by lia.
    destruct (Nat.lt_ge_cases delta (P - Q)) as [Hlow|Hhigh].
    + rewrite csbf_nat_low by assumption. lia.
    + replace delta with ((P - Q) + 0 * P + (delta - (P - Q))) at 1 by lia.
      rewrite csbf_nat_char by lia. lia.
  - (* tail of period k, m whole periods, head of length b of period k + 1 + m *)
    pose proof (Nat.div_mod (delta - (P - a)) P HP0) as Hd.
    pose proof (Nat.mod_upper_bound (delta - (P - a)) P HP0) as Hb.
    set (m := (delta - (P - a)) / P) in *. set (b := (delta - (P - a)) mod P) in *.
    clearbody m b.
    assert (Hdelta : delta = (P - a) + (m * P + b)) by lia. clear Hd.
    pose proof (valid_mid Q D P sigma k a P Hv ltac:(lia)) as Htail.
    pose proof (valid_full Q D P sigma (k + 1) m Hv HP) as Hfull.
    pose proof (valid_head Q D P sigma (k + 1 + m) b Hv) as Hhead.
    assert (Hsup : supplied sigma (k * P + a) delta =
                   supplied sigma (k * P + a) (P - a) + supplied sigma ((k + 1) * P) (m * P)
                   + supplied sigma ((k + 1 + m) * P) b).
    { rewrite Hdelta, supplied_split, supplied_split.
      replace (k * P + a + (P - a)) with ((k + 1) * P) by lia.
      replace ((k + 1) * P + m * P) with ((k + 1 + m) * P) by lia. lia. }
    rewrite Hsup. clear Hsup.
    generalize dependent (supplied sigma (k * P + a) (P - a)). intros s1 Hs1.
    generalize dependent (supplied sigma ((k + 1) * P) (m * P)). intros s2 Hs2.
    generalize dependent (supplied sigma ((k + 1 + m) * P) b). intros s3 Hs3.
    replace (Q + P - D) with (Q + (P - D)) in Hs1 by lia.
    assert (Hs1' : Q - a <= s1) by lia. clear Hs1.
    destruct (Nat.lt_ge_cases (Q + b) a) as [Hc1|Hc1].
    + (* the part of the window after the m periods is shorter than the initial blackout *)
      destruct m as [|m'].
      * rewrite csbf_nat_low by lia. lia.
      * replace delta with ((P - Q) + m' * P + (P + Q + b - a)) by lia.
        rewrite csbf_nat_char by lia. lia.
    + destruct (Nat.lt_ge_cases (Q + b - a) P) as [Hc2|Hc2].
      * replace delta with ((P - Q) + m * P + (Q + b - a)) by lia.
        rewrite csbf_nat_char by lia. lia.
      * replace delta with ((P - Q) + (m + 1) * P + (Q + b - a - P)) by lia.
        rewrite csbf_nat_char by lia. lia.
Qed.

Theorem constrained_sbf_lower_bound : forall (Q D P : N) (sigma : rsched),
  (1 <= Q)%N -> (Q <= D)%N -> (D <= P)%N ->
  valid_reservation (N.to_nat Q) (N.to_nat D) (N.to_nat P) sigma ->
  forall t delta : nat, N.to_nat (constrained_sbf Q D P (N.of_nat delta)) <= supplied sigma t delta.
Proof.
  intros Q D P sigma HQ HD HP Hv t delta.
  pose proof (csbf_nat_lower_bound (N.to_nat Q) (N.to_nat D) (N.to_nat P) sigma
                ltac:(lia) ltac:(lia) ltac:(lia) Hv t delta) as H.
  unfold csbf_nat in H. rewrite !Nnat.N2Nat.id in H. exact H.
Qed.
Print Assumptions constrained_sbf_lower_bound.

(* ------------------------------------------------------------------------------------------ *)
(* attainment                                                                                 *)
(* ------------------------------------------------------------------------------------------ *)

Definition worst_sigma (Q D P : nat) : rsched :=
  fun t => if t <? P then t <? Q                       (* period 0: budget as early as possible *)
           else let r := t mod P in (D - Q <=? r) && (r <? D).   (* later periods: as late as the deadline allows *)

(* a run of n slots that all deliver / all idle *)
Lemma supplied_all_true (s : rsched) t n :
  (forall u, t <= u < t + n -> s u = true) -> supplied s t n = n.
Proof.
  induction n as [|n IH]; intros H; cbn [supplied]; [reflexivity|].
  rewrite IH by (intros u Hu; apply H; lia).
  rewrite (H (t + n)) by lia. lia.
Qed.

Lemma worst_sigma_later Q D P k r :
  1 <= k -> r < P -> worst_sigma Q D P (k * P + r) = (D - Q <=? r) && (r <? D).
Proof.
  intros Hk Hr. unfold worst_sigma.
  destruct (Nat.ltb_spec (k * P + r) P) as [H|H]; [nia|].
  cbv zeta.
  replace ((k * P + r) mod P) with r; [reflexivity|].
  apply Nat.mod_unique with k; lia.
Qed.

Theorem worst_sigma_valid : forall Q D P, 1 <= Q -> Q <= D -> D <= P -> valid_reservation Q D P (worst_sigma Q D P).
Proof.
  intros Q D P HQ HD HP k.
  destruct k as [|k].
  - (* period 0: the first Q slots *)
    apply Nat.le_trans with (supplied (worst_sigma Q D P) (0 * P) Q).
    + rewrite supplied_all_true; [lia|].
      intros u Hu. unfold worst_sigma.
      destruct (Nat.ltb_spec u P); [|lia]. apply Nat.ltb_lt. lia.
    + apply supplied_mono. assumption.
  - (* later periods: the last Q slots before the deadline *)
    replace D with ((D - Q) + Q) at 2 by lia. rewrite supplied_split.
    rewrite (supplied_all_true _ (S k * P + (D - Q)) Q); [lia|].
    intros u Hu.
    replace u with (S k * P + (u - S k * P)) by lia.
    rewrite worst_sigma_later by lia.
    apply andb_true_intro. split; [apply Nat.leb_le|apply Nat.ltb_lt]; lia.
Qed.
Print Assumptions worst_sigma_valid.

Lemma csbf_nat_attained Q D P :
  1 <= Q -> Q <= D -> D <= P ->
  forall delta, supplied (worst_sigma Q D P) Q delta = csbf_nat Q D P delta.
Proof.
  intros HQ HD HP delta.
  assert (HP0 : P <> 0) by lia.
  induction delta as [|d IH].
  - cbn [supplied]. destruct (Nat.eq_dec P Q) as [E|E].
    + replace 0 with ((P - Q) + 0 * P + 0) at 2 by lia.
      rewrite csbf_nat_char by lia. lia.
    + rewrite csbf_nat_low by lia. reflexivity.
  - cbn [supplied]. rewrite IH. clear IH.
    destruct (Nat.lt_ge_cases d (P - Q)) as [Hlow|Hhigh].
    + (* still in the rest of period 0 *)
      assert (Hw : worst_sigma Q D P (Q + d) = false).
      { unfold worst_sigma. destruct (Nat.ltb_spec (Q + d) P); [|lia]. apply Nat.ltb_ge. lia. }
      rewrite Hw, csbf_nat_low by assumption.
      destruct (Nat.lt_ge_cases (S d) (P - Q)) as [Hlow'|Hhigh'].
      * rewrite csbf_nat_low by assumption. reflexivity.
      * replace (S d) with ((P - Q) + 0 * P + 0) by lia.
        rewrite csbf_nat_char by lia. lia.
    + pose proof (Nat.div_mod (d - (P - Q)) P HP0) as Hd.
      pose proof (Nat.mod_upper_bound (d - (P - Q)) P HP0) as Hr.
      set (q := (d - (P - Q)) / P) in *. set (r := (d - (P - Q)) mod P) in *.
      clearbody q r.
      assert (Hd' : d = (P - Q) + q * P + r) by lia. clear Hd. subst d.
      replace (Q + (P - Q + q * P + r)) with ((q + 1) * P + r) by lia.
      rewrite worst_sigma_later by lia.
      rewrite (csbf_nat_char Q D P q r) by lia.
      destruct (Nat.lt_ge_cases (r + 1) P) as [Hr1|Hr1].
      * replace (S (P - Q + q * P + r)) with ((P - Q) + q * P + (r + 1)) by lia.
        rewrite csbf_nat_char by lia.
        destruct (Nat.leb_spec (D - Q) r); destruct (Nat.ltb_spec r D); cbn [andb]; lia.
      * replace (S (P - Q + q * P + r)) with ((P - Q) + (q + 1) * P + 0) by lia.
        rewrite csbf_nat_char by lia.
        destruct (Nat.leb_spec (D - Q) r); destruct (Nat.ltb_spec r D); cbn [andb]; lia.
Qed.

Theorem constrained_sbf_attained : forall (Q D P : N), (1 <= Q)%N -> (Q <= D)%N -> (D <= P)%N ->
  forall delta : nat,
  supplied (worst_sigma (N.to_nat Q) (N.to_nat D) (N.to_nat P)) (N.to_nat Q) delta
  = N.to_nat (constrained_sbf Q D P (N.of_nat delta)).
Proof.
  intros Q D P HQ HD HP delta.
  rewrite (csbf_nat_attained (N.to_nat Q) (N.to_nat D) (N.to_nat P)) by lia.
  unfold csbf_nat. rewrite !Nnat.N2Nat.id. reflexivity.
Qed.
Print Assumptions constrained_sbf_attained.

(* ------------------------------------------------------------------------------------------ *)
(* the periodic resource model is the case D = P                                              *)
(* ------------------------------------------------------------------------------------------ *)

Corollary periodic_sbf_lower_bound : forall (Q P : N) (sigma : rsched), (1 <= Q)%N -> (Q <= P)%N ->
  valid_reservation (N.to_nat Q) (N.to_nat P) (N.to_nat P) sigma ->
  forall t delta : nat, N.to_nat (periodic_sbf Q P (N.of_nat delta)) <= supplied sigma t delta.
Proof.
  intros Q P sigma HQ HP Hv t delta.
  destruct (constrained_deadline_eq_period Q P (N.of_nat delta) HQ HP) as (<- & _).
  apply constrained_sbf_lower_bound; [assumption|assumption|lia|assumption].
Qed.
Print Assumptions periodic_sbf_lower_bound.

Corollary periodic_sbf_attained : forall (Q P : N), (1 <= Q)%N -> (Q <= P)%N -> forall delta : nat,
  supplied (worst_sigma (N.to_nat Q) (N.to_nat P) (N.to_nat P)) (N.to_nat Q) delta
  = N.to_nat (periodic_sbf Q P (N.of_nat delta)).
Proof.
  intros Q P HQ HP delta.
  destruct (constrained_deadline_eq_period Q P (N.of_nat delta) HQ HP) as (<- & _).
  apply constrained_sbf_attained; [assumption|assumption|lia].
Qed.
Print Assumptions periodic_sbf_attained.
