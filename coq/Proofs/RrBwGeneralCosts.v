(* RrBwGeneralCosts.v — property C05 for GENERAL job-cost models: the round-robin-aware analysis [rr_subchain]
   (Theorem 2 of the RTSS'21 ROS 2 paper, src/ros2/rr.rs) and the busy-window-aware analysis [bw_subchain]
   (Theorem 3, src/ros2/bw.rs) are sound for the operational executor of Spec/Executor.v when the callbacks
   carry arbitrary cost models (Model/Wcet.v: Scalar | Multiframe | CurveCM | ExtrapCM), generalising
   [rr_sound] (RrSound.v) and [bw_sound] / [bw_sound_any_order] (BwSound.v), which demand scalar WCETs.

   HYPOTHESES THAT CHANGE.
     [wl_ok]     ->  [wl_ok_gen]:    wl_cm wl c = Scalar _   is replaced by   wf_cm (wl_cm wl c)
                                     ([positive_cm] is NOT needed: instances cost at least 1 by [costs_ok_gen],
                                     which already forces cost_of_jobs m >= m, [G_ge]).
     [costs_ok]  ->  [costs_ok_gen]: 1 <= cost_of c k <= C_c   is replaced by
                       every instance costs at least 1, and every block of m consecutive instances
                       k, k+1, ..., k+m-1 of callback c costs at most cost_of_jobs (wl_cm wl c) m
                       (what JobCostModel::cost_of_jobs promises; [respects_cost_models] of GeneralCosts.v for the
                       executor, where the instances of a callback are numbered in the order in which they are
                       served = the order in which they arrive).
   Everything else is as in [rr_sound] / [bw_sound].

   RESULT: NO VIOLATION — the generalisation is TRUE, including non-concave cost models such as
   Multiframe [3; 1] (costs 3, 4, 7, 8: marginal costs 3, 1, 3, 1).  The marginal cost
   Omega = cost(n + 1) - cost(n) of rr.rs / bw.rs [marginal_execution_cost] may indeed be smaller than what the
   instance under analysis costs (up to cost(1)), but it is never used on its own: the start-time fixed point Sst
   has already paid cost(n) for the n earlier instances of the callback, and the n earlier instances TOGETHER
   with the instance under analysis form one block of at most n + 1 consecutive instances, which costs at most
   cost(n + 1) = cost(n) + Omega.  Formally ([finish_budget], [finish_budget_bw]): if the instance under analysis
   (the k-th) is started d slots after the beginning of the window, then
        supply(window, d) + cost_of e k  <=  (interference of the others up to Sst) + cost(n + 1)
                                          =  rhs(Sst) - 1 + Omega  <=  sbf(Sst) - 1 + Omega  <=  sbf(Rst),
   so the supply of Rst slots finishes it.  (Only monotonicity of cost_of_jobs is used — [cost_mono], from [wf_cm].)

   Tests before the proof (Eval vm_compute, not part of this file): least self-consistent vectors by iterating
   e_rr / e_bw upwards from the maximum single-instance cost cost(1); Executor.run with ALL non-dominated cyclic
   cost sequences of period <= 3 over {1..4} that comply with the block condition (for Multiframe [3;1], CurveCM
   [3;4;7] and ExtrapCM [3;4;7] among them (2) | (1 3) | (3 1) | (1 1 3) | (1 3 1) | (2 1 2) | (2 2 1) | (3 1 1) repeated; for
   Multiframe [1;3] only (1) repeated — cycling through its frames 1, 3 violates the block condition, cf.
   [multiframe_first_frames_refuted] of GeneralCosts.v; for Multiframe [2;2;1]: (2 2 1) and its rotations, (1 2),
   (2 1), (1)), plain and dense (first release delayed by the full jitter) releases on offset grids, Dedicated,
   PeriodicS 4 5 and ConstrainedS 2 3 5 with early-then-late budget placement; 11 workload mixes of two or three
   callbacks (timers / known / unknown priority); 185 544 runs, 2.6 million completed instances, 0 violations,
   least slack 1 (e.g. rr bound 6, observed 5).  The four queries of Part 5 were replayed on the Rust
   implementation (harness/rta_oracle): ok 6, ok 6, ok 5, ok 6, as in the model.

   Structure.
   Part 1  (Section ExecGen)  [blk f i m] = cost of the m consecutive instances from i on.  [accounting_gen]:
           work conservation with the EXACT work of the instances executing in a window (no per-instance bound),
           [pending_not_idle] / [busy_not_idle].  With an abstract cumulative bound G c m (monotone in m, bounding
           every block of m instances): Section RrGen ([window_work], [window_bound_g], [finish_budget],
           [claim_step_g], [exec_bound_g]) and Section BwGen ([window_work_bw], [finish_budget_bw],
           [offset_below_max_g], [claim_step_bw_g], [exec_bound_bw_g]).  The window lemmas of RrSound.v / BwSound.v
           that count instances ([X_capped], [X_self], [X_capped_bw], [X_self_bw], [X_arrived_bw], ...) do not
           mention costs and are re-used as they are.
   Part 2  bridge from the model: [rr_rhs_nat_g], [rr_fixpoint_g], [bw_rhs_nat_g], [bw_max_rhs_nat_g],
           [bw_fixpoint_g].
   Part 3  [rr_sound_gen], [bw_sound_gen_any_order], [bw_sound_gen].
   Part 4  the scalar theorems are special cases: [rr_sound_from_gen], [bw_sound_from_gen].
   Part 5  non-vacuity with a non-concave cost model: [rr_sound_gen_nonvacuous], [bw_sound_gen_nonvacuous]
           (Multiframe [3;1] with the shifted frame sequence 1, 3, 1, 3, ...: the instance under analysis costs 3
           where the marginal cost charged by the analysis is 1). *)
From Coq Require Import Arith NArith List Lia Bool.
From RTA.Model Require Import Base Arrival Wcet Supply FixedPoint Ros2 Eval WellFormed.
From RTA.Spec Require Import Sched Events Reservation Exhaustive ExhaustiveRos Executor.
From RTA.Proofs Require Import WcetProofs ArrivalNaProofs StepsProofs SupplyProofs FixedPointProofs ReservationProofs
  ExhFP ExhRos EsSound RrSound BwSound.
Import ListNotations.
Local Close Scope N_scope.
Local Open Scope nat_scope.

(* ------------------------------------------------------------------------------------------ *)
(* Part 1: the executor with general costs                                                     *)
(* ------------------------------------------------------------------------------------------ *)
(* cost of the m consecutive instances i, i + 1, ..., i + m - 1 *)
Definition blk (f : nat -> nat) (i m : nat) : nat := sumn m (fun x => f (i + x)).

Lemma blk_S : forall f i m, blk f i (S m) = blk f i m + f (i + m).
Proof. reflexivity. Qed.

Lemma blk_ge : forall f i m, (forall k, 1 <= f k) -> m <= blk f i m.
Proof.
  intros f i m H. induction m as [|m IH]; [unfold blk; cbn [sumn]; lia|].
  rewrite blk_S. specialize (H (i + m)). lia.
Qed.

Section ExecGen.
  Variable cbs : list cbdef.
  Variable cost_of : nat -> nat -> nat.
  Variable arr : nat -> list nat.
  Variable sigma : nat -> bool.
  Notation n := (length cbs).
  Notation cbd := (cb cbs).
  Notation stt := (RrSound.st cbs cost_of arr sigma).
  Notation srv := (RrSound.srv cbs cost_of arr sigma).
  Notation dne := (RrSound.done cbs cost_of arr sigma).
  Notation remn := (RrSound.rem cbs cost_of arr sigma).
  Notation narr := (RrSound.narr arr).
  Notation arrives := (RrSound.arrives arr).
  Notation startc := (RrSound.start cbs cost_of arr sigma).
  Notation quiet := (BwSound.quiet cbs cost_of arr sigma).

  Hypothesis Hcost1 : forall c k, c < n -> 1 <= cost_of c k.

  Ltac slot t :=
    destruct (slot_cases cbs cost_of arr sigma t) as
      [Es Est Epp Hsrv Erun Erdy Efin
      | c0 r0 a0 Es Est Epp Er Hsrv Erun Erdy Efin
      | c0 Es Est Er Hc0 Hp0 Hsrv Erun Efin Hknd
      | Es Est Er Hnp Hsrv Erun Erd Erdy Efin].

  (* the cost of the instances of c that execute in [t0, t): those not completed at t0 and started before t *)
  Definition wk (c t0 t : nat) : nat := blk (cost_of c) (dne c t0) (srv c t - dne c t0).

  (* work conservation, with the exact work: as long as no supplied slot is left idle, the supply of [t0, t0 + d)
     plus what remains of the running instance is the cost of the instances executing in the window *)
  Lemma accounting_gen : forall t0 d,
    (forall t, t0 <= t < t0 + d -> sigma t = true -> running (stt t) = None -> startc t = None -> False) ->
    supplied sigma t0 d + remn (t0 + d) <= sumn n (fun c => wk c t0 (t0 + d)).
  Proof.
    intros t0 d. induction d as [|d IH]; intros Hb.
    - rewrite Nat.add_0_r. cbn [supplied]. unfold RrSound.rem.
      pose proof (inv_run cbs cost_of arr sigma t0 (inv_all cbs cost_of arr sigma t0)) as Hr.
      destruct (running (stt t0)) as [[[c r] a']|] eqn:Er; [|lia].
      destruct Hr as (Hc & _ & Hr & Hs1 & _).
      etransitivity; [|apply (sumn_term_le n _ c Hc)]. cbn beta.
      unfold wk, RrSound.done, runs_cb. rewrite Er, Nat.eqb_refl.
      replace (srv c t0 - (srv c t0 - 1)) with 1 by lia.
      unfold blk. cbn [sumn]. rewrite Nat.add_0_r. lia.
    - replace (t0 + S d) with (S (t0 + d)) in * by lia. cbn [supplied]. set (t := t0 + d) in *.
      specialize (IH ltac:(intros u Hu; apply Hb; lia)).
      assert (Hnidle : sigma t = true -> running (stt t) = None -> startc t = None -> False) by (apply Hb; lia).
      unfold RrSound.rem in *.
      pose proof (inv_run cbs cost_of arr sigma t (inv_all cbs cost_of arr sigma t)) as Hr.
      slot t.
      + rewrite Es, Erun. rewrite (sumn_ext n _ (fun c => wk c t0 t)); [lia|].
        intros i _. unfold wk. rewrite Hsrv. reflexivity.
      + rewrite Es, Erun. rewrite Er in IH, Hr. destruct Hr as (_ & Hr1 & _).
        rewrite (sumn_ext n _ (fun c => wk c t0 t)) by (intros i _; unfold wk; rewrite Hsrv; reflexivity).
        destruct (Nat.leb_spec r0 1); lia.
      + rewrite Es, Erun. rewrite Er in IH.
        rewrite (sumn_bump n (fun c => wk c t0 t) _ c0 (cost_of c0 (srv c0 t)) Hc0).
        * pose proof (Hcost1 c0 (srv c0 t) Hc0).
          destruct (Nat.leb_spec (cost_of c0 (srv c0 t)) 1); cbv iota; lia.
        * intros i Hi. unfold wk. rewrite (Hsrv i Hi). destruct (Nat.eqb_spec i c0) as [->|_]; [|lia].
          pose proof (done_le_srv cbs cost_of arr sigma c0 t0).
          pose proof (srv_mono cbs cost_of arr sigma c0 t0 t Hc0 ltac:(lia)).
          replace (S (srv c0 t) - dne c0 t0) with (S (srv c0 t - dne c0 t0)) by lia.
          rewrite blk_S. f_equal. f_equal. lia.
      + exfalso. apply Hnidle; assumption.
  Qed.

  (* while an instance is pending no supplied slot is left idle *)
  Lemma pending_not_idle : forall e k a d, e < n -> k < narr e (S a) -> srv e (a + d) <= k ->
    forall t, a <= t < a + d -> sigma t = true -> running (stt t) = None -> startc t = None -> False.
  Proof.
    intros e k a d He Hk Hs t Ht Hsig Hrun Hst.
    pose proof (srv_mono cbs cost_of arr sigma e t (a + d) He ltac:(lia)) as Hm.
    pose proof (narr_mono arr e (S a) (S t) ltac:(lia)) as Hn.
    slot t; try congruence.
    specialize (Hnp e He). lia.
  Qed.

  (* a supplied slot that is left idle is followed by a quiet time *)
  Lemma busy_not_idle : forall t, ~ quiet (S t) ->
    sigma t = true -> running (stt t) = None -> startc t = None -> False.
  Proof.
    intros t Hnq Hsig Hrun Hst. slot t; try congruence.
    apply Hnq. intros c Hc. unfold RrSound.done, runs_cb. rewrite Erun, Hsrv.
    specialize (Hnp c Hc). lia.
  Qed.

  (* ---- an abstract cumulative cost bound: G c m bounds every block of m consecutive instances of c ---- *)
  Variable G : nat -> nat -> nat.
  Hypothesis HG : forall c i m, c < n -> blk (cost_of c) i m <= G c m.
  Hypothesis HGmono : forall c m m', c < n -> m <= m' -> G c m <= G c m'.

  Lemma G_ge : forall c m, c < n -> m <= G c m.
  Proof.
    intros c m Hc. etransitivity; [|apply (HG c 0 m Hc)]. apply blk_ge. intros k. apply Hcost1. exact Hc.
  Qed.

  Lemma wk_le : forall c t0 t, c < n -> wk c t0 t <= G c (srv c t - dne c t0).
  Proof. intros c t0 t Hc. apply HG. exact Hc. Qed.

  (* ---------------------------------------------------------------------------------------- *)
  (* the round-robin-aware analysis                                                            *)
  (* ---------------------------------------------------------------------------------------- *)
  Section RrGen.
    Variable kd : nat -> kind.
    Variable R : nat -> nat.
    Variable nab : nat -> nat -> nat.
    Variable sbfn : nat -> nat.

    Hypothesis Hkd_timer : forall c, c < n -> (is_timer (cbd c) = true <-> kd c = KTimer).
    Hypothesis Hprio : forall i j p q, i < n -> j < n -> i <> j -> kd i = KP p -> kd j = KP q -> (q <= p)%N ->
      prio (cbd j) < prio (cbd i).
    Hypothesis Harr : forall c t d, c < n -> narr c (t + d) - narr c t <= nab c d.
    Hypothesis Hsbf : forall t d, sbfn d <= supplied sigma t d.

    (* direct interference of the other callbacks (Def. 1), number of self-interfering instances (Def. 2) *)
    Definition oth_g (e s : nat) : nat :=
      sumn n (fun c => if Nat.eqb c e then 0
                       else G c (capn (kd c) (kd e) (nab c (s + R c - 1)) (nab e (R e)))).
    Definition nself (e s : nat) : nat := nab e (s + R e - 1) - 1.
    Definition rhs_g (e s : nat) : nat := 1 + oth_g e s + G e (nself e s).

    (* what [rr_subchain ... [e] = ROk (R e)] says: the start-time fixed point, and the MARGINAL cost in step 2 *)
    Hypothesis Hfix_g : forall e, e < n ->
      exists Sx, 1 <= Sx /\ rhs_g e Sx <= sbfn Sx /\
                 sbfn Sx - 1 + (G e (nself e Sx + 1) - G e (nself e Sx)) <= sbfn (R e).

    Lemma R_pos_g : forall e, e < n -> 1 <= R e.
    Proof.
      intros e He. destruct (Hfix_g e He) as (Sx & HS & H1 & H2).
      pose proof (G_ge e (nself e Sx + 1) He) as H3.
      pose proof (HGmono e (nself e Sx) (nself e Sx + 1) He ltac:(lia)) as H4.
      unfold rhs_g in H1.
      destruct (Nat.eq_dec (R e) 0) as [E|E]; [|lia].
      rewrite E in H2. pose proof (Hsbf 0 0) as Hz. cbn [supplied] in Hz. lia.
    Qed.

    Notation claim := (RrSound.claim cbs cost_of arr sigma R).

    Section Window.
      Variables (T e k a : nat).
      Hypothesis Hclaim : claim T.
      Hypothesis HaT : a <= T.
      Hypothesis He : e < n.
      Hypothesis Harrives : arrives e k a.

      (* supply consumed before the instance under analysis is started: interference of the others, and the
         EXACT cost of the earlier instances of e *)
      Lemma window_work : forall Sx d, d <= Sx -> srv e (a + d) <= k ->
        supplied sigma a d + remn (a + d) <= oth_g e Sx + wk e a (a + d).
      Proof.
        intros Sx d Hd Hs. destruct Harrives as (_ & Hk).
        pose proof (accounting_gen a d (pending_not_idle e k a d He Hk Hs)) as Hb.
        rewrite (sumn_bump n (fun c => if Nat.eqb c e then 0 else wk c a (a + d)) _ e (wk e a (a + d)) He) in Hb.
        2:{ intros i Hi. destruct (Nat.eqb_spec i e) as [->|_]; lia. }
        assert (H1 : sumn n (fun c => if Nat.eqb c e then 0 else wk c a (a + d)) <= oth_g e Sx).
        { unfold oth_g. apply sumn_le. intros i Hi. destruct (Nat.eqb_spec i e) as [_|Hne]; [lia|].
          etransitivity; [apply wk_le; exact Hi|]. apply HGmono; [exact Hi|].
          apply (X_capped cbs cost_of arr sigma kd R nab Hkd_timer Hprio Harr T e k a Hclaim HaT He Harrives);
            assumption. }
        lia.
      Qed.

      Lemma window_bound_g : forall Sx d, d <= Sx -> 1 <= Sx -> srv e (a + d) <= k ->
        supplied sigma a d + remn (a + d) + 1 <= rhs_g e Sx.
      Proof.
        intros Sx d Hd HS Hs. pose proof (window_work Sx d Hd Hs) as Hw.
        pose proof (wk_le e a (a + d) He) as H1.
        pose proof (HGmono e _ _ He
                      (X_self cbs cost_of arr sigma R nab Harr T e k a Hclaim HaT He Harrives d Sx Hd HS Hs)) as H2.
        unfold rhs_g, nself. lia.
      Qed.

      (* THE KEY STEP.  When the instance under analysis is started, the supply consumed so far plus ITS OWN cost
         is covered by the interference of the others plus cost(n + 1): the earlier instances of e executing in
         the window and the instance itself are one block of at most n + 1 consecutive instances. *)
      Lemma finish_budget : forall Sx d, d <= Sx -> 1 <= Sx -> srv e (a + d) = k ->
        supplied sigma a d + cost_of e k <= oth_g e Sx + G e (nself e Sx + 1).
      Proof.
        intros Sx d Hd HS Hs. pose proof (window_work Sx d Hd ltac:(lia)) as Hw.
        pose proof (X_self cbs cost_of arr sigma R nab Harr T e k a Hclaim HaT He Harrives d Sx Hd HS ltac:(lia)) as Hx.
        rewrite Hs in Hx.
        assert (Hdk : dne e a <= k).
        { rewrite <- Hs. pose proof (done_le_srv cbs cost_of arr sigma e a).
          pose proof (srv_mono cbs cost_of arr sigma e a (a + d) He ltac:(lia)). lia. }
        assert (E : wk e a (a + d) + cost_of e k = blk (cost_of e) (dne e a) (S (k - dne e a))).
        { unfold wk. rewrite Hs, blk_S. f_equal. f_equal. lia. }
        pose proof (HG e (dne e a) (S (k - dne e a)) He) as H1.
        pose proof (HGmono e (S (k - dne e a)) (nself e Sx + 1) He ltac:(unfold nself; lia)) as H2.
        lia.
      Qed.
    End Window.

    Lemma claim_step_g : forall T, claim T -> claim (S T).
    Proof.
      intros T Hcl e k a He Har HT.
      destruct (Nat.le_gt_cases (a + R e) T) as [Hle|Hgt]; [apply Hcl; assumption|].
      pose proof (R_pos_g e He) as HR. assert (HaT : a <= T) by lia.
      destruct (Hfix_g e He) as (Sst & HS1 & Hrhs & HRe).
      pose proof (window_bound_g T e k a Hcl HaT He Har Sst) as Hwb.
      (* phase 1: the instance is started before a + S* *)
      assert (Hstarted : k < srv e (a + Sst)).
      { destruct (Nat.lt_ge_cases k (srv e (a + Sst))) as [H|H]; [exact H|]. exfalso.
        specialize (Hwb Sst (le_n _) HS1 H). pose proof (Hsbf a Sst). lia. }
      assert (Hsa : srv e a <= k).
      { pose proof (srv_le_narr cbs cost_of arr sigma e a He). destruct Har as (H1 & _). lia. }
      destruct (crossing (srv e) a (a + Sst) k ltac:(lia) Hsa Hstarted) as (s0 & Hs0 & Hb & Ha).
      assert (Hst : startc s0 = Some e /\ srv e s0 = k).
      { rewrite (srv_S cbs cost_of arr sigma s0 e He) in Ha. destruct (startc s0) as [c'|]; [|lia].
        destruct (Nat.eqb_spec e c') as [E|_]; [subst c'|lia]. split; [reflexivity|lia]. }
      destruct Hst as (Hst & Hsk).
      set (d0 := s0 - a). assert (Es0 : s0 = a + d0) by (unfold d0; lia).
      assert (Hsk' : srv e (a + d0) = k) by (rewrite <- Es0; exact Hsk).
      pose proof (finish_budget T e k a Hcl HaT He Har Sst d0 ltac:(unfold d0; lia) HS1 Hsk') as Hfb.
      pose proof (HGmono e (nself e Sst) (nself e Sst + 1) He ltac:(lia)) as Hmm.
      unfold rhs_g in Hrhs.
      (* phase 2: it completes once the supply has delivered its cost *)
      pose proof (Hsbf a (R e)) as Hsup. pose proof (Hcost1 e k He) as Hw1.
      assert (Hd0 : d0 < R e).
      { destruct (Nat.lt_ge_cases d0 (R e)) as [H|H]; [exact H|].
        pose proof (supplied_mono sigma a (R e) d0 H). lia. }
      pose proof (supplied_split sigma a d0 (R e - d0)) as Hsplit.
      replace (d0 + (R e - d0)) with (R e) in Hsplit by lia.
      rewrite <- Es0 in Hsplit.
      pose proof (runs_to_completion cbs cost_of arr sigma e s0 (R e - d0 - 1) Hst) as Hrc.
      replace (S (R e - d0 - 1)) with (R e - d0) in Hrc by lia.
      rewrite Hsk in Hrc. replace (s0 + (R e - d0)) with (a + R e) in Hrc by lia.
      apply Hrc. lia.
    Qed.

    Theorem claim_all_g : forall T, claim T.
    Proof.
      induction T as [|T IH]; [|apply claim_step_g; exact IH].
      intros c k a Hc _ H. pose proof (R_pos_g c Hc). lia.
    Qed.

    Theorem exec_bound_g : forall H c a f, In (c, a, f) (finished (stt H)) -> f - a <= R c.
    Proof.
      intros H c a f Hin.
      destruct (finished_origin cbs cost_of arr sigma H c a f Hin) as (t & k & -> & Ht & Hc & Har & Hd).
      pose proof (claim_all_g (a + R c) c k a Hc Har (le_n _)) as Hcl.
      destruct (Nat.le_gt_cases (a + R c) t) as [Hle|Hgt]; [|lia].
      pose proof (done_mono cbs cost_of arr sigma c (a + R c) t Hc Hle). lia.
    Qed.
  End RrGen.

  (* ---------------------------------------------------------------------------------------- *)
  (* the busy-window-aware analysis                                                            *)
  (* ---------------------------------------------------------------------------------------- *)
  Section BwGen.
    Variable kd : nat -> kind.
    Variable R : nat -> nat.
    Variable nab : nat -> nat -> nat.
    Variable sbfn : nat -> nat.

    Hypothesis Hkd_timer : forall c, c < n -> (is_timer (cbd c) = true <-> kd c = KTimer).
    Hypothesis Harr : forall c t d, c < n -> narr c (t + d) - narr c t <= nab c d.
    Hypothesis Hsbf : forall t d, sbfn d <= supplied sigma t d.

    Definition oth_bw_g (e A s : nat) : nat :=
      sumn n (fun c => if Nat.eqb c e then 0
                       else G c (capn (kd c) (kd e) (nab c s) (nab c A + nab e (R e)))).
    Definition nself_bw (e A : nat) : nat := nab e (A + 1) - 1.
    Definition rhs_bw_g (e A s : nat) : nat := 1 + oth_bw_g e A s + G e (nself_bw e A).
    Definition rhs_max_g (e m : nat) : nat := 1 + oth_bw_g e m m + G e (nab e m).

    Hypothesis Hfix_bw_g : forall e, e < n -> 0 < nab e 1 ->
      exists m, 1 <= m /\ rhs_max_g e m <= sbfn m /\
        forall A, A < m -> exists Sx, 1 <= Sx /\ rhs_bw_g e A Sx <= sbfn Sx /\
          sbfn Sx - 1 + (G e (nself_bw e A + 1) - G e (nself_bw e A)) <= sbfn (A + R e).

    Lemma R_pos_bw_g : forall e, e < n -> 0 < nab e 1 -> 1 <= R e.
    Proof.
      intros e He Hna. destruct (Hfix_bw_g e He Hna) as (m & Hm & _ & HA).
      destruct (HA 0 ltac:(lia)) as (Sx & HS & H1 & H2).
      pose proof (G_ge e (nself_bw e 0 + 1) He) as H3.
      pose proof (HGmono e (nself_bw e 0) (nself_bw e 0 + 1) He ltac:(lia)) as H4.
      unfold rhs_bw_g in H1.
      destruct (Nat.eq_dec (R e) 0) as [E|E]; [|lia].
      rewrite E in H2. pose proof (Hsbf 0 0) as Hz. cbn [supplied Nat.add] in Hz, H2. lia.
    Qed.

    Notation claim := (RrSound.claim cbs cost_of arr sigma R).

    Section Window.
      Variables (T e k a t0 : nat).
      Hypothesis Hclaim : claim T.
      Hypothesis HaT : a <= T.
      Hypothesis He : e < n.
      Hypothesis Harrives : arrives e k a.
      Hypothesis Ht0 : t0 <= a.
      Hypothesis Hq : quiet t0.
      Hypothesis Hnq : forall t, t0 < t <= a -> ~ quiet t.

      Notation A := (a - t0).

      Lemma window_work_bw : forall Sx d, d <= Sx -> srv e (t0 + d) <= k ->
        supplied sigma t0 d + remn (t0 + d) <= oth_bw_g e A Sx + wk e t0 (t0 + d).
      Proof.
        intros Sx d Hd Hs.
        assert (Hbusy : forall t, t0 <= t < t0 + d ->
                  sigma t = true -> running (stt t) = None -> startc t = None -> False).
        { intros t Ht. apply busy_not_idle.
          apply (busy_until_started cbs cost_of arr sigma T e k a t0 HaT He Harrives Ht0 Hnq d Hs t Ht). }
        pose proof (accounting_gen t0 d Hbusy) as Hb.
        rewrite (sumn_bump n (fun c => if Nat.eqb c e then 0 else wk c t0 (t0 + d)) _ e (wk e t0 (t0 + d)) He) in Hb.
        2:{ intros i Hi. destruct (Nat.eqb_spec i e) as [->|_]; lia. }
        assert (H1 : sumn n (fun c => if Nat.eqb c e then 0 else wk c t0 (t0 + d)) <= oth_bw_g e A Sx).
        { unfold oth_bw_g. apply sumn_le. intros i Hi. destruct (Nat.eqb_spec i e) as [_|Hne]; [lia|].
          etransitivity; [apply wk_le; exact Hi|]. apply HGmono; [exact Hi|].
          apply (X_capped_bw cbs cost_of arr sigma kd R nab Hkd_timer Harr T e k a t0 Hclaim HaT He Harrives Ht0 Hq);
            assumption. }
        lia.
      Qed.

      Lemma window_bound_bw_g : forall Sx d, d <= Sx -> srv e (t0 + d) <= k ->
        supplied sigma t0 d + remn (t0 + d) + 1 <= rhs_bw_g e A Sx.
      Proof.
        intros Sx d Hd Hs. pose proof (window_work_bw Sx d Hd Hs) as Hw.
        pose proof (wk_le e t0 (t0 + d) He) as H1.
        pose proof (HGmono e _ _ He
                      (X_self_bw cbs cost_of arr sigma nab Harr T e k a t0 HaT He Harrives Ht0 Hq d Hs)) as H2.
        unfold rhs_bw_g, nself_bw. lia.
      Qed.

      Lemma finish_budget_bw : forall Sx d, d <= Sx -> srv e (t0 + d) = k ->
        supplied sigma t0 d + cost_of e k <= oth_bw_g e A Sx + G e (nself_bw e A + 1).
      Proof.
        intros Sx d Hd Hs. pose proof (window_work_bw Sx d Hd ltac:(lia)) as Hw.
        pose proof (X_self_bw cbs cost_of arr sigma nab Harr T e k a t0 HaT He Harrives Ht0 Hq d ltac:(lia)) as Hx.
        rewrite Hs in Hx.
        assert (Hdk : dne e t0 <= k).
        { rewrite <- Hs. pose proof (done_le_srv cbs cost_of arr sigma e t0).
          pose proof (srv_mono cbs cost_of arr sigma e t0 (t0 + d) He ltac:(lia)). lia. }
        assert (E : wk e t0 (t0 + d) + cost_of e k = blk (cost_of e) (dne e t0) (S (k - dne e t0))).
        { unfold wk. rewrite Hs, blk_S. f_equal. f_equal. lia. }
        pose proof (HG e (dne e t0) (S (k - dne e t0)) He) as H1.
        pose proof (HGmono e (S (k - dne e t0)) (nself_bw e A + 1) He ltac:(unfold nself_bw; lia)) as H2.
        lia.
      Qed.

      (* Lemma 18: the activation offset lies below the maximum busy-window length *)
      Lemma offset_below_max_g : forall m, 1 <= m -> rhs_max_g e m <= sbfn m -> A < m.
      Proof.
        intros m Hm Hmax. destruct (Nat.lt_ge_cases A m) as [H|Hge]; [exact H|]. exfalso.
        assert (Hbusy : forall t, t0 <= t < t0 + m ->
                  sigma t = true -> running (stt t) = None -> startc t = None -> False).
        { intros t Ht. apply busy_not_idle. apply Hnq. lia. }
        pose proof (accounting_gen t0 m Hbusy) as Hb.
        rewrite (sumn_bump n (fun c => if Nat.eqb c e then 0 else wk c t0 (t0 + m)) _ e (wk e t0 (t0 + m)) He) in Hb.
        2:{ intros i Hi. destruct (Nat.eqb_spec i e) as [->|_]; lia. }
        unfold rhs_max_g in Hmax.
        assert (H1 : sumn n (fun c => if Nat.eqb c e then 0 else wk c t0 (t0 + m)) <= oth_bw_g e m m).
        { unfold oth_bw_g. apply sumn_le. intros i Hi. destruct (Nat.eqb_spec i e) as [_|Hne]; [lia|].
          etransitivity; [apply wk_le; exact Hi|]. apply HGmono; [exact Hi|]. rewrite capn_id.
          apply (X_arrived_bw cbs cost_of arr sigma nab Harr T e a t0 HaT He Ht0 Hq); [exact Hi|lia]. }
        pose proof (wk_le e t0 (t0 + m) He) as H2.
        pose proof (HGmono e _ _ He
                      (X_arrived_bw cbs cost_of arr sigma nab Harr T e a t0 HaT He Ht0 Hq e m m He (le_n _))) as H3.
        pose proof (Hsbf t0 m). lia.
      Qed.
    End Window.

    Lemma claim_step_bw_g : forall T, claim T -> claim (S T).
    Proof.
      intros T Hcl e k a He Har HT.
      destruct (Nat.le_gt_cases (a + R e) T) as [Hle|Hgt]; [apply Hcl; assumption|].
      pose proof (arrives_nab1 cbs arr nab Harr e k a He Har) as Hna.
      pose proof (R_pos_bw_g e He Hna) as HR. assert (HaT : a <= T) by lia.
      destruct (last_quiet cbs cost_of arr sigma a) as (t0 & Ht0 & Hq & Hnq).
      destruct (Hfix_bw_g e He Hna) as (m & Hm1 & Hmax & Hoffs).
      pose proof (offset_below_max_g T e a t0 HaT He Ht0 Hq Hnq m Hm1 Hmax) as HA.
      destruct (Hoffs (a - t0) HA) as (Sst & HS1 & Hrhs & HRe).
      pose proof (window_bound_bw_g T e k a t0 Hcl HaT He Har Ht0 Hq Hnq Sst) as Hwb.
      (* phase 1: the instance is started before t0 + S* *)
      assert (Hstarted : k < srv e (t0 + Sst)).
      { destruct (Nat.lt_ge_cases k (srv e (t0 + Sst))) as [H|H]; [exact H|]. exfalso.
        specialize (Hwb Sst (le_n _) H). pose proof (Hsbf t0 Sst). lia. }
      assert (Hsa : srv e t0 <= k).
      { pose proof (srv_le_narr cbs cost_of arr sigma e t0 He). pose proof (narr_mono arr e t0 a Ht0).
        destruct Har as (H1 & _). lia. }
      destruct (crossing (srv e) t0 (t0 + Sst) k ltac:(lia) Hsa Hstarted) as (s0 & Hs0 & Hb & Ha).
      assert (Hst : startc s0 = Some e /\ srv e s0 = k).
      { rewrite (srv_S cbs cost_of arr sigma s0 e He) in Ha. destruct (startc s0) as [c'|]; [|lia].
        destruct (Nat.eqb_spec e c') as [E|_]; [subst c'|lia]. split; [reflexivity|lia]. }
      destruct Hst as (Hst & Hsk).
      set (d0 := s0 - t0). assert (Es0 : s0 = t0 + d0) by (unfold d0; lia).
      assert (Hsk' : srv e (t0 + d0) = k) by (rewrite <- Es0; exact Hsk).
      pose proof (finish_budget_bw T e k a t0 Hcl HaT He Har Ht0 Hq Hnq Sst d0 ltac:(unfold d0; lia) Hsk') as Hfb.
      pose proof (HGmono e (nself_bw e (a - t0)) (nself_bw e (a - t0) + 1) He ltac:(lia)) as Hmm.
      unfold rhs_bw_g in Hrhs.
      (* phase 2: it completes once the supply has delivered its cost *)
      set (F := a - t0 + R e) in *.
      pose proof (Hsbf t0 F) as Hsup. pose proof (Hcost1 e k He) as Hw1.
      assert (Hd0 : d0 < F).
      { destruct (Nat.lt_ge_cases d0 F) as [H|H]; [exact H|].
        pose proof (supplied_mono sigma t0 F d0 H). lia. }
      pose proof (supplied_split sigma t0 d0 (F - d0)) as Hsplit.
      replace (d0 + (F - d0)) with F in Hsplit by lia.
      rewrite <- Es0 in Hsplit.
      pose proof (runs_to_completion cbs cost_of arr sigma e s0 (F - d0 - 1) Hst) as Hrc.
      replace (S (F - d0 - 1)) with (F - d0) in Hrc by lia.
      rewrite Hsk in Hrc. replace (s0 + (F - d0)) with (a + R e) in Hrc by (unfold F; lia).
      apply Hrc. lia.
    Qed.

    Theorem claim_all_bw_g : forall T, claim T.
    Proof.
      induction T as [|T IH]; [|apply claim_step_bw_g; exact IH].
      intros c k a Hc Har H.
      pose proof (R_pos_bw_g c Hc (arrives_nab1 cbs arr nab Harr c k a Hc Har)). lia.
    Qed.

    Theorem exec_bound_bw_g : forall H c a f, In (c, a, f) (finished (stt H)) -> f - a <= R c.
    Proof.
      intros H c a f Hin.
      destruct (finished_origin cbs cost_of arr sigma H c a f Hin) as (t & k & -> & Ht & Hc & Har & Hd).
      pose proof (claim_all_bw_g (a + R c) c k a Hc Har (le_n _)) as Hcl.
      destruct (Nat.le_gt_cases (a + R c) t) as [Hle|Hgt]; [|lia].
      pose proof (done_mono cbs cost_of arr sigma c (a + R c) t Hc Hle). lia.
    Qed.
  End BwGen.
End ExecGen.
Print Assumptions exec_bound_g.
Print Assumptions exec_bound_bw_g.

(* ------------------------------------------------------------------------------------------ *)
(* Part 2: from the model of the crate to the hypotheses of Part 1                             *)
(* ------------------------------------------------------------------------------------------ *)
(* the workloads considered: well-formed arrival models, well-formed (otherwise ARBITRARY) cost models, timers
   and polled callbacks only *)
Definition wl_ok_gen (wl : wlT) : Prop :=
  forall c, c < length wl ->
    wf_ab (wl_ab wl c) /\ wf_cm (wl_cm wl c) /\ wl_kind wl c <> KES.

(* cost_of c k is the cost of the k-th instance of callback c (in the order in which the instances are served,
   which is the order in which they arrive): every instance costs at least 1 and every block of m consecutive
   instances costs at most cost_of_jobs m *)
Definition costs_ok_gen (wl : wlT) (cost_of : nat -> nat -> nat) : Prop :=
  forall c, c < length wl ->
    (forall k, 1 <= cost_of c k) /\
    (forall k m, (N.of_nat (blk (cost_of c) k m) <= cost_of_jobs (wl_cm wl c) (N.of_nat m))%N).

Definition Gn (wl : wlT) (c m : nat) : nat := N.to_nat (cost_of_jobs (wl_cm wl c) (N.of_nat m)).

Lemma Gn_of : forall (wl : wlT) c x y, N.of_nat y = x -> Gn wl c y = N.to_nat (cost_of_jobs (wl_cm wl c) x).
Proof. intros wl c x y <-. reflexivity. Qed.

Lemma nabn_of : forall (wl : wlT) c x y, N.of_nat y = x -> nabn wl c y = N.to_nat (na (wl_ab wl c) x).
Proof. intros wl c x y <-. reflexivity. Qed.

Lemma Gn_capped : forall (wl : wlT) c k k' a b,
  N.to_nat (cost_of_jobs (wl_cm wl c) (capped k k' a b)) = Gn wl c (capn k k' (N.to_nat a) (N.to_nat b)).
Proof. intros. unfold Gn. rewrite <- capped_nat, Nnat.N2Nat.id. reflexivity. Qed.

Lemma Gn_bounds : forall (wl : wlT) cost_of, costs_ok_gen wl cost_of ->
  forall c i m, c < length wl -> blk (cost_of c) i m <= Gn wl c m.
Proof. intros wl cost_of H c i m Hc. destruct (H c Hc) as (_ & Hb). specialize (Hb i m). unfold Gn. lia. Qed.

Lemma Gn_mono : forall (wl : wlT), wl_ok_gen wl ->
  forall c m m', c < length wl -> m <= m' -> Gn wl c m <= Gn wl c m'.
Proof.
  intros wl Hok c m m' Hc Hm. destruct (Hok c Hc) as (_ & Hwf & _). unfold Gn.
  pose proof (cost_mono _ Hwf (N.of_nat m) (N.of_nat m') ltac:(lia)). lia.
Qed.

Lemma wl_cb_mono_g : forall (wl : wlT), wl_ok_gen wl ->
  forall cb, In cb (map cb_of wl) -> ExhFP.mono (cb_na cb) /\ ExhFP.mono (cb_cost cb).
Proof.
  intros wl Hok cb Hin. apply in_map_iff in Hin. destruct Hin as (x & <- & Hx).
  apply (In_nth _ _ wl_dflt) in Hx. destruct Hx as (c & Hc & Hx).
  destruct (Hok c Hc) as (Hwfab & Hwfcm & _). unfold wl_ab, wl_cm in *. rewrite Hx in *.
  destruct x as [[[R ab] cm] k]. cbn [cb_of cb_na cb_cost]. split.
  - intros a b Hab. apply na_mono; assumption.
  - intros a b Hab. apply cost_mono; assumption.
Qed.

Section BridgeGen.
  Variable wl : wlT.
  Variable cbs : list cbdef.
  Hypothesis Hlen : length cbs = length wl.

  Notation dflt_cb := (mkCb 0 (fun _ => 0%N) (fun _ => []) (fun _ => 0%N) KTimer).

  Lemma rr_self_nat : forall e s, e < length wl ->
    N.to_nat (rr_self_instances (map cb_of wl) [e] s) = nself (Rn wl) (nabn wl) e (N.to_nat s).
  Proof.
    intros e s He. unfold rr_self_instances, nself.
    assert (Ee : eoc (map cb_of wl) [e] = cb_at (map cb_of wl) e) by reflexivity.
    rewrite Ee, cb_at_wl by exact He. cbn [cb_na cb_R].
    rewrite (nabn_of wl e (s + wl_R wl e - 1)%N) by (unfold Rn; lia). lia.
  Qed.

  Lemma rr_rhs_nat_g : forall e s, e < length wl ->
    N.to_nat (rr_rhs (map cb_of wl) [e] s) = rhs_g cbs (Gn wl) (wl_kind wl) (Rn wl) (nabn wl) e (N.to_nat s).
  Proof.
    intros e s He. unfold rr_rhs, rhs_g, oth_g. rewrite Hlen. rewrite !Nnat.N2Nat.inj_add. change (N.to_nat 1) with 1.
    assert (Ee : eoc (map cb_of wl) [e] = cb_at (map cb_of wl) e) by reflexivity.
    f_equal; [f_equal|].
    - unfold others, indexed. change (eoc_idx [e]) with e.
      rewrite (others_sum (map cb_of wl) e _ dflt_cb).
      rewrite map_length. apply sumn_ext. intros c Hc. destruct (Nat.eqb c e); [reflexivity|].
      change (nth c (map cb_of wl) dflt_cb) with (cb_at (map cb_of wl) c).
      unfold rr_direct, max_pp. rewrite Ee. cbn [map sumN fold_right]. rewrite !cb_at_wl by assumption.
      cbn [cb_cost cb_kind cb_na cb_R]. rewrite Gn_capped.
      rewrite (nabn_of wl c (s + wl_R wl c - 1)%N) by (unfold Rn; lia).
      rewrite (nabn_of wl e (wl_R wl e)) by (unfold Rn; lia).
      rewrite N.add_0_r. reflexivity.
    - rewrite <- (rr_self_nat e s He). rewrite Ee, cb_at_wl by exact He. cbn [cb_cost].
      symmetry. apply Gn_of. apply Nnat.N2Nat.id.
  Qed.

  Lemma bw_self_nat : forall e A, e < length wl ->
    N.to_nat (bw_self_instances (map cb_of wl) [e] A) = nself_bw (nabn wl) e (N.to_nat A).
  Proof.
    intros e A He. unfold bw_self_instances, nself_bw.
    assert (Ee : eoc (map cb_of wl) [e] = cb_at (map cb_of wl) e) by reflexivity.
    rewrite Ee, cb_at_wl by exact He. cbn [cb_na].
    rewrite (nabn_of wl e (A + 1)%N) by lia. lia.
  Qed.

  Lemma bw_interference_nat_g : forall e S A, e < length wl ->
    N.to_nat (bw_interference (map cb_of wl) [e] S A) =
    oth_bw_g cbs (Gn wl) (wl_kind wl) (Rn wl) (nabn wl) e (N.to_nat A) (N.to_nat S).
  Proof.
    intros e S A He. unfold oth_bw_g. rewrite Hlen. unfold bw_interference.
    assert (Ee : eoc (map cb_of wl) [e] = cb_at (map cb_of wl) e) by reflexivity.
    unfold others, indexed. change (eoc_idx [e]) with e.
    rewrite (others_sum (map cb_of wl) e _ dflt_cb).
    rewrite map_length. apply sumn_ext. intros c Hc. destruct (Nat.eqb c e); [reflexivity|].
    change (nth c (map cb_of wl) dflt_cb) with (cb_at (map cb_of wl) c).
    unfold bw_rbf, max_pp. rewrite Ee. cbn [map sumN fold_right]. rewrite !cb_at_wl by assumption.
    cbn [cb_cost cb_kind cb_na cb_R]. rewrite Gn_capped.
    rewrite (nabn_of wl c S) by lia.
    rewrite (nabn_of wl c A) by lia.
    rewrite (nabn_of wl e (wl_R wl e)) by (unfold Rn; lia).
    rewrite N.add_0_r, Nnat.N2Nat.inj_add. reflexivity.
  Qed.

  Lemma bw_rhs_nat_g : forall e A S, e < length wl ->
    N.to_nat (bw_rhs_N (map cb_of wl) e A S) =
    rhs_bw_g cbs (Gn wl) (wl_kind wl) (Rn wl) (nabn wl) e (N.to_nat A) (N.to_nat S).
  Proof.
    intros e A S He. unfold bw_rhs_N, rhs_bw_g. rewrite !Nnat.N2Nat.inj_add. change (N.to_nat 1) with 1.
    rewrite (bw_interference_nat_g e S A He). f_equal.
    assert (Ee : eoc (map cb_of wl) [e] = cb_at (map cb_of wl) e) by reflexivity.
    rewrite <- (bw_self_nat e A He). rewrite Ee, cb_at_wl by exact He. cbn [cb_cost].
    symmetry. apply Gn_of. apply Nnat.N2Nat.id.
  Qed.

  Lemma bw_max_rhs_nat_g : forall e m, e < length wl ->
    N.to_nat (bw_max_rhs (map cb_of wl) [e] m) =
    rhs_max_g cbs (Gn wl) (wl_kind wl) (Rn wl) (nabn wl) e (N.to_nat m).
  Proof.
    intros e m He. unfold bw_max_rhs, rhs_max_g. rewrite !Nnat.N2Nat.inj_add. change (N.to_nat 1) with 1.
    rewrite (bw_interference_nat_g e m m He). f_equal.
    assert (Ee : eoc (map cb_of wl) [e] = cb_at (map cb_of wl) e) by reflexivity.
    rewrite Ee, cb_at_wl by exact He. cbn [cb_cost cb_na].
    symmetry. apply Gn_of. unfold nabn. rewrite !Nnat.N2Nat.id. reflexivity.
  Qed.
End BridgeGen.

(* what [e_rr ... [e] = ROk R_e] says *)
Lemma rr_fixpoint_g : forall dbg sb (wl : wlT) limit e, wf_sb sb -> wl_ok_gen wl -> e < length wl ->
  e_rr dbg sb wl [e] limit = ROk (wl_R wl e) ->
  exists Sx : N, (1 <= Sx)%N /\ (rr_rhs (map cb_of wl) [e] Sx <= sbf sb Sx)%N /\
    let ni := rr_self_instances (map cb_of wl) [e] Sx in
    (sbf sb Sx - 1 + (cost_of_jobs (wl_cm wl e) (ni + 1) - cost_of_jobs (wl_cm wl e) ni) <= sbf sb (wl_R wl e))%N.
Proof.
  intros dbg sb wl limit e Hwf Hok He Hrr.
  pose proof (sbf_wf_ok sb Hwf) as Hsok. pose proof (st_wf_exact sb Hwf) as Hinv.
  pose proof (wl_cb_mono_g wl Hok) as Hmono.
  assert (Hin : In (eoc (map cb_of wl) [e]) (map cb_of wl)).
  { unfold eoc, cb_at. apply nth_In. rewrite map_length. exact He. }
  destruct (Hmono _ Hin) as (Hna & Hcm).
  unfold e_rr, rr_subchain in Hrr.
  rewrite (search_least_sol (sbf sb) (Supply.st sb) Hsok Hinv dbg limit _ (rr_rhs_mono _ _ Hmono Hna Hcm)) in Hrr.
  destruct (least_sol (sbf sb) limit 0 (rr_rhs (map cb_of wl) [e])) as [Sx|] eqn:E; cbn [rbind] in Hrr; [|discriminate].
  apply least_sol_some in E. destruct E as (_ & _ & Hsol & _). unfold FixedPointProofs.sol in Hsol.
  rewrite N.add_0_l in Hsol. cbv zeta in Hrr.
  assert (Ee : eoc (map cb_of wl) [e] = cb_at (map cb_of wl) e) by reflexivity.
  rewrite Ee in Hrr. rewrite cb_at_wl in Hrr by exact He. cbn [cb_cost] in Hrr.
  set (ni := rr_self_instances (map cb_of wl) [e] Sx) in *.
  destruct (N.ltb_spec (cost_of_jobs (wl_cm wl e) (ni + 1)) (cost_of_jobs (wl_cm wl e) ni)) as [Hlt|_]; [discriminate|].
  injection Hrr as Hrr.
  assert (HS1 : (1 <= Sx)%N).
  { destruct (N.eq_dec Sx 0) as [->|Hne]; [|lia]. exfalso. destruct Hsok as (H0 & _).
    rewrite H0 in Hsol. unfold rr_rhs in Hsol. lia. }
  replace (N.max Sx 1) with Sx in Hsol by lia.
  exists Sx. split; [exact HS1|]. split; [exact Hsol|]. cbv zeta. subst ni.
  rewrite <- Hrr. apply (Hinv _ _). lia.
Qed.

Lemma wl_cb_steps_g : forall (wl : wlT), wl_ok_gen wl -> wl_steps_ok wl ->
  forall cb, In cb (map cb_of wl) ->
    ExhFP.mono (cb_na cb) /\ ExhFP.mono (cb_cost cb) /\ forall h, steps_spec (cb_na cb) (cb_steps cb h) h.
Proof.
  intros wl Hok Hsec cb Hin. destruct (wl_cb_mono_g wl Hok cb Hin) as (H1 & H2).
  split; [exact H1|]. split; [exact H2|].
  apply in_map_iff in Hin. destruct Hin as (x & <- & Hx).
  apply (In_nth _ _ wl_dflt) in Hx. destruct Hx as (c & Hc & Hx).
  destruct (Hok c Hc) as (Hwfab & _). specialize (Hsec c Hc). unfold wl_ab in *. rewrite Hx in *.
  destruct x as [[[R ab] cm] k]. cbn [cb_of cb_steps cb_na]. apply steps_upto_exact; assumption.
Qed.

(* what [e_bw ... [e] = ROk R_e] says *)
Lemma bw_fixpoint_g : forall dbg sb (wl : wlT) limit e, wf_sb sb -> wl_ok_gen wl -> wl_steps_ok wl -> e < length wl ->
  (0 < na (wl_ab wl e) 1)%N ->
  e_bw dbg sb wl [e] limit = ROk (wl_R wl e) ->
  exists m : N, (1 <= m)%N /\ (bw_max_rhs (map cb_of wl) [e] m <= sbf sb m)%N /\
    forall A, (A < m)%N -> exists Sx : N, (1 <= Sx)%N /\ (bw_rhs_N (map cb_of wl) e A Sx <= sbf sb Sx)%N /\
      let ni := bw_self_instances (map cb_of wl) [e] A in
      (sbf sb Sx - 1 + (cost_of_jobs (wl_cm wl e) (ni + 1) - cost_of_jobs (wl_cm wl e) ni) <= sbf sb (A + wl_R wl e))%N.
Proof.
  intros dbg sb wl limit e Hwf Hok Hsec He Hna Hbw.
  pose proof (sbf_wf_ok sb Hwf) as Hsok. pose proof (st_wf_exact sb Hwf) as Hinv.
  pose proof (wl_cb_steps_g wl Hok Hsec) as Hall.
  assert (Hin : In (eoc (map cb_of wl) [e]) (map cb_of wl)).
  { unfold eoc, cb_at. apply nth_In. rewrite map_length. exact He. }
  assert (Ee : eoc (map cb_of wl) [e] = cb_at (map cb_of wl) e) by reflexivity.
  destruct (Hok e He) as (Hwfe & _ & _).
  unfold e_bw in Hbw.
  rewrite (bw_exhaustive_any_build (sbf sb) (Supply.st sb) Hsok Hinv dbg (map cb_of wl) [e] limit
             (fun d => (Supply.st sb d + 1)%N) Hall) in Hbw.
  2:{ exact (Hall _ Hin). }
  2:{ intros d. lia. }
  2:{ rewrite Ee, cb_at_wl by exact He. cbn [cb_na]. rewrite (na_zero _ Hwfe). exact Hna. }
  unfold exh_bw in Hbw. change (Nat.eqb (length [e]) 1) with true in Hbw. cbv zeta in Hbw.
  destruct (least_sol (sbf sb) limit 0 (bw_max_rhs (map cb_of wl) [e])) as [m|] eqn:Em; [|discriminate].
  set (sols := map (exh_bw_at (sbf sb) (fun d => (Supply.st sb d + 1)%N) (map cb_of wl) [e] limit true) (rangeN 0 m)) in *.
  destruct (existsb is_none sols) eqn:Eex; [discriminate|]. injection Hbw as Hmax.
  apply least_sol_some in Em. destruct Em as (_ & _ & Hsol & _). unfold FixedPointProofs.sol in Hsol.
  rewrite N.add_0_l in Hsol.
  assert (Hm1 : (1 <= m)%N).
  { destruct (N.eq_dec m 0) as [->|Hne]; [|lia]. exfalso. destruct Hsok as (H0 & _).
    rewrite H0 in Hsol. unfold bw_max_rhs in Hsol. lia. }
  replace (N.max m 1) with m in Hsol by lia.
  exists m. split; [exact Hm1|]. split; [exact Hsol|].
  intros A HA.
  assert (HinA : In (exh_bw_at (sbf sb) (fun d => (Supply.st sb d + 1)%N) (map cb_of wl) [e] limit true A) sols).
  { unfold sols. apply in_map. apply in_rangeN. lia. }
  destruct (exh_bw_at (sbf sb) (fun d => (Supply.st sb d + 1)%N) (map cb_of wl) [e] limit true A) as [r|] eqn:Er.
  2:{ exfalso. assert (existsb is_none sols = true) by (apply existsb_exists; exists None; split; [exact HinA|reflexivity]).
      congruence. }
  assert (Hr : (r <= wl_R wl e)%N).
  { rewrite <- Hmax. apply maxN_ub. apply in_map_iff. exists (Some r). split; [reflexivity|exact HinA]. }
  unfold exh_bw_at in Er. cbv zeta in Er.
  destruct (least_sol (sbf sb) limit 0
              (fun x => (1 + bw_interference (map cb_of wl) [e] x A +
                         cb_cost (eoc (map cb_of wl) [e]) (bw_self_instances (map cb_of wl) [e] A))%N))
    as [Sx|] eqn:ES; [|discriminate].
  injection Er as Er.
  apply least_sol_some in ES. destruct ES as (_ & _ & HsolS & _). unfold FixedPointProofs.sol in HsolS.
  rewrite N.add_0_l in HsolS.
  assert (HS1 : (1 <= Sx)%N).
  { destruct (N.eq_dec Sx 0) as [->|Hne]; [|lia]. exfalso. destruct Hsok as (H0 & _).
    rewrite H0 in HsolS. lia. }
  replace (N.max Sx 1) with Sx in HsolS by lia.
  exists Sx. split; [exact HS1|]. split; [exact HsolS|]. cbv zeta.
  rewrite Ee in Er. rewrite cb_at_wl in Er by exact He. cbn [cb_cost] in Er.
  rewrite <- (st_is_inv_scan (sbf sb) (Supply.st sb) Hinv) in Er by lia.
  apply (Hinv _ _). lia.
Qed.

(* ------------------------------------------------------------------------------------------ *)
(* Part 3: the theorems                                                                        *)
(* ------------------------------------------------------------------------------------------ *)
Lemma omega_nat : forall (wl : wlT), wl_ok_gen wl -> forall e (ni : N) (x : nat), e < length wl -> N.to_nat ni = x ->
  Gn wl e (x + 1) - Gn wl e x =
  N.to_nat (cost_of_jobs (wl_cm wl e) (ni + 1) - cost_of_jobs (wl_cm wl e) ni).
Proof.
  intros wl Hok e ni x He <-.
  rewrite (Gn_of wl e (ni + 1)%N) by lia. rewrite (Gn_of wl e ni) by lia. lia.
Qed.

Theorem rr_sound_gen : forall dbg sb (wl : wlT) limit cbs cost_of arr sigma,
  wf_sb sb -> supply_admits sb sigma ->
  wl_ok_gen wl -> cbs_match wl cbs -> arrivals_ok wl arr -> costs_ok_gen wl cost_of ->
  (forall i, i < length wl -> e_rr dbg sb wl [i] limit = ROk (wl_R wl i)) ->
  forall H c a f, In (c, a, f) (finished (run cbs cost_of H arr sigma)) -> f - a <= N.to_nat (wl_R wl c).
Proof.
  intros dbg sb wl limit cbs cost_of arr sigma Hwf Hadm Hok (Hlen & Htm & Hpr) Harr Hcost Hfix H c a f Hin.
  apply (exec_bound_g cbs cost_of arr sigma) with (G := Gn wl) (kd := wl_kind wl) (R := Rn wl) (nab := nabn wl)
    (sbfn := fun d => N.to_nat (sbf sb (N.of_nat d))) (H := H).
  - intros c' k Hc. rewrite Hlen in Hc. apply (proj1 (Hcost c' Hc) k).
  - intros c' i m Hc. rewrite Hlen in Hc. apply Gn_bounds; assumption.
  - intros c' m m' Hc. rewrite Hlen in Hc. apply Gn_mono; assumption.
  - intros c' Hc. rewrite Hlen in Hc. apply Htm. exact Hc.
  - intros i j p q Hi Hj. rewrite Hlen in Hi, Hj. apply Hpr; assumption.
  - intros c' t d Hc. rewrite Hlen in Hc. destruct (Harr c' Hc) as (es & Hes & Hcnt).
    rewrite (narr_count arr c' es Hcnt). unfold nabn.
    pose proof (na_bounds_admissible _ es (proj1 (Hok c' Hc)) Hes t d). lia.
  - intros t d. apply supply_admits_sbf; assumption.
  - intros e He. rewrite Hlen in He.
    destruct (rr_fixpoint_g dbg sb wl limit e Hwf Hok He (Hfix e He)) as (Sx & HS1 & Hrhs & HR).
    cbv zeta in HR.
    exists (N.to_nat Sx). split; [lia|]. rewrite <- (rr_rhs_nat_g wl cbs Hlen e Sx He).
    rewrite (omega_nat wl Hok e (rr_self_instances (map cb_of wl) [e] Sx)) by (try assumption; apply (rr_self_nat wl cbs Hlen); assumption).
    rewrite Nnat.N2Nat.id. unfold Rn. rewrite Nnat.N2Nat.id. split; lia.
  - exact Hin.
Qed.
Print Assumptions rr_sound_gen.

(* the busy-window-aware analysis: any executor order among the polled callbacks (as [bw_sound_any_order]) *)
Theorem bw_sound_gen_any_order : forall dbg sb (wl : wlT) limit cbs cost_of arr sigma,
  wf_sb sb -> supply_admits sb sigma ->
  wl_ok_gen wl -> wl_steps_ok wl -> cbs_timers_match wl cbs -> arrivals_ok wl arr -> costs_ok_gen wl cost_of ->
  (forall i, i < length wl -> e_bw dbg sb wl [i] limit = ROk (wl_R wl i)) ->
  forall H c a f, In (c, a, f) (finished (run cbs cost_of H arr sigma)) -> f - a <= N.to_nat (wl_R wl c).
Proof.
  intros dbg sb wl limit cbs cost_of arr sigma Hwf Hadm Hok Hsec (Hlen & Htm) Harr Hcost Hfix H c a f Hin.
  apply (exec_bound_bw_g cbs cost_of arr sigma) with (G := Gn wl) (kd := wl_kind wl) (R := Rn wl) (nab := nabn wl)
    (sbfn := fun d => N.to_nat (sbf sb (N.of_nat d))) (H := H).
  - intros c' k Hc. rewrite Hlen in Hc. apply (proj1 (Hcost c' Hc) k).
  - intros c' i m Hc. rewrite Hlen in Hc. apply Gn_bounds; assumption.
  - intros c' m m' Hc. rewrite Hlen in Hc. apply Gn_mono; assumption.
  - intros c' Hc. rewrite Hlen in Hc. apply Htm. exact Hc.
  - intros c' t d Hc. rewrite Hlen in Hc. destruct (Harr c' Hc) as (es & Hes & Hcnt).
    rewrite (narr_count arr c' es Hcnt). unfold nabn.
    pose proof (na_bounds_admissible _ es (proj1 (Hok c' Hc)) Hes t d). lia.
  - intros t d. apply supply_admits_sbf; assumption.
  - intros e He Hna. rewrite Hlen in He.
    assert (Hna' : (0 < na (wl_ab wl e) 1)%N) by (unfold nabn in Hna; change (N.of_nat 1) with 1%N in Hna; lia).
    destruct (bw_fixpoint_g dbg sb wl limit e Hwf Hok Hsec He Hna' (Hfix e He)) as (m & Hm1 & Hmax & Hoffs).
    exists (N.to_nat m). split; [lia|]. split.
    + rewrite <- (bw_max_rhs_nat_g wl cbs Hlen e m He). rewrite Nnat.N2Nat.id. lia.
    + intros A HA. destruct (Hoffs (N.of_nat A) ltac:(lia)) as (Sx & HS1 & Hrhs & HR). cbv zeta in HR.
      exists (N.to_nat Sx). split; [lia|].
      pose proof (bw_rhs_nat_g wl cbs Hlen e (N.of_nat A) Sx He) as E. rewrite Nnat.Nat2N.id in E.
      rewrite <- E.
      rewrite (omega_nat wl Hok e (bw_self_instances (map cb_of wl) [e] (N.of_nat A))).
      2:{ exact He. }
      2:{ rewrite (bw_self_nat wl cbs Hlen e (N.of_nat A) He). rewrite Nnat.Nat2N.id. reflexivity. }
      rewrite Nnat.N2Nat.id. unfold Rn.
      replace (N.of_nat (A + N.to_nat (wl_R wl e))) with (N.of_nat A + wl_R wl e)%N by lia.
      split; lia.
  - exact Hin.
Qed.
Print Assumptions bw_sound_gen_any_order.

(* the requested statement, in the shape of [bw_sound] *)
Theorem bw_sound_gen : forall dbg sb (wl : wlT) limit cbs cost_of arr sigma,
  wf_sb sb -> supply_admits sb sigma ->
  wl_ok_gen wl -> wl_steps_ok wl -> cbs_match wl cbs -> arrivals_ok wl arr -> costs_ok_gen wl cost_of ->
  (forall i, i < length wl -> e_bw dbg sb wl [i] limit = ROk (wl_R wl i)) ->
  forall H c a f, In (c, a, f) (finished (run cbs cost_of H arr sigma)) -> f - a <= N.to_nat (wl_R wl c).
Proof.
  intros dbg sb wl limit cbs cost_of arr sigma Hwf Hadm Hok Hsec (Hlen & Htm & _).
  apply bw_sound_gen_any_order; try assumption. split; assumption.
Qed.
Print Assumptions bw_sound_gen.

(* ------------------------------------------------------------------------------------------ *)
(* Part 4: the scalar theorems of RrSound.v / BwSound.v are special cases                      *)
(* ------------------------------------------------------------------------------------------ *)
Lemma wl_ok_gen_of_scalar : forall wl, wl_ok wl -> wl_ok_gen wl.
Proof.
  intros wl Hok c Hc. destruct (Hok c Hc) as (H1 & H2 & H3). split; [exact H1|]. split; [|exact H3].
  rewrite H2. exact I.
Qed.

Lemma costs_ok_gen_of_scalar : forall wl cost_of, wl_ok wl -> costs_ok wl cost_of -> costs_ok_gen wl cost_of.
Proof.
  intros wl cost_of Hok Hc c Hcl. split; [intros k; apply (Hc c k Hcl)|].
  intros k m. destruct (Hok c Hcl) as (_ & Ecm & _). rewrite Ecm. cbn [cost_of_jobs].
  assert (H : blk (cost_of c) k m <= N.to_nat (wl_C wl c) * m).
  { induction m as [|m IH]; [unfold blk; cbn [sumn]; lia|]. rewrite blk_S.
    pose proof (Hc c (k + m) Hcl). lia. }
  lia.
Qed.

Theorem rr_sound_from_gen : forall dbg sb (wl : wlT) limit cbs cost_of arr sigma,
  wf_sb sb -> supply_admits sb sigma ->
  wl_ok wl -> cbs_match wl cbs -> arrivals_ok wl arr -> costs_ok wl cost_of ->
  (forall i, i < length wl -> e_rr dbg sb wl [i] limit = ROk (wl_R wl i)) ->
  forall H c a f, In (c, a, f) (finished (run cbs cost_of H arr sigma)) -> f - a <= N.to_nat (wl_R wl c).
Proof.
  intros dbg sb wl limit cbs cost_of arr sigma Hwf Hadm Hok Hm Harr Hc.
  apply rr_sound_gen; try assumption; [apply wl_ok_gen_of_scalar|apply costs_ok_gen_of_scalar]; assumption.
Qed.
Print Assumptions rr_sound_from_gen.

Theorem bw_sound_from_gen : forall dbg sb (wl : wlT) limit cbs cost_of arr sigma,
  wf_sb sb -> supply_admits sb sigma ->
  wl_ok wl -> wl_steps_ok wl -> cbs_match wl cbs -> arrivals_ok wl arr -> costs_ok wl cost_of ->
  (forall i, i < length wl -> e_bw dbg sb wl [i] limit = ROk (wl_R wl i)) ->
  forall H c a f, In (c, a, f) (finished (run cbs cost_of H arr sigma)) -> f - a <= N.to_nat (wl_R wl c).
Proof.
  intros dbg sb wl limit cbs cost_of arr sigma Hwf Hadm Hok Hs Hm Harr Hc.
  apply bw_sound_gen; try assumption; [apply wl_ok_gen_of_scalar|apply costs_ok_gen_of_scalar]; assumption.
Qed.
Print Assumptions bw_sound_from_gen.

(* ------------------------------------------------------------------------------------------ *)
(* Part 5: non-vacuity with a NON-CONCAVE cost model                                           *)
(* ------------------------------------------------------------------------------------------ *)
(* The scenario of [rr_sound_nonvacuous] with callback 0 carrying the cost model Multiframe [3; 1]
   (cost_of_jobs 1, 2, 3, 4 = 3, 4, 7, 8: marginal costs 3, 1, 3, 1) and its instances costing 1, 3, 1, 3, ...
   (the frame sequence shifted by one; it complies with the block condition, [nvg_costs_ok]):
     callback 0: sporadic, period 10, jitter 9, Multiframe [3; 1], Polled(4)    releases 9, 10, 20
     callback 1: sporadic, period 20, WCET 2, Polled(5)                         release 10.
   Self-consistent bounds: rr 6 and 6, bw 5 and 6.  For callback 0 the start-time fixed point of rr is S = 6 with
   n = 1 self-interfering instance, so the analysis charges cost(1) = 3 for the earlier instance and the marginal
   cost Omega = cost(2) - cost(1) = 1 for the instance under analysis — while in the run the earlier instance
   (released at 9) costs 1 and the instance under analysis (released at 10) costs 3: together 4 = cost(2).
   It completes at 13 (response time 3 <= 6); callback 1 completes at 15 (response time 5 <= 6).
   Case language:
     (rr (dedicated) ((6 (sporadic 10 9) (multiframe (3 1)) (p 4)) (6 (sporadic 20 0) (scalar 2) (p 5))) (0) 1000)
     (rr (dedicated) ((6 (sporadic 10 9) (multiframe (3 1)) (p 4)) (6 (sporadic 20 0) (scalar 2) (p 5))) (1) 1000)
     (bw (dedicated) ((5 (sporadic 10 9) (multiframe (3 1)) (p 4)) (6 (sporadic 20 0) (scalar 2) (p 5))) (0) 1000)
     (bw (dedicated) ((5 (sporadic 10 9) (multiframe (3 1)) (p 4)) (6 (sporadic 20 0) (scalar 2) (p 5))) (1) 1000) *)
Definition nvg_wl_rr : wlT :=
  [(6%N, Sporadic 10 9, Multiframe [3%N; 1%N], KP 4); (6%N, Sporadic 20 0, Scalar 2, KP 5)].
Definition nvg_wl_bw : wlT :=
  [(5%N, Sporadic 10 9, Multiframe [3%N; 1%N], KP 4); (6%N, Sporadic 20 0, Scalar 2, KP 5)].
Definition alt13 (k : nat) : nat := if Nat.even k then 1 else 3.
Definition nvg_cost (c k : nat) : nat := match c with 0 => alt13 k | _ => 2 end.

Lemma alt13_pair : forall k, alt13 k + alt13 (S k) = 4.
Proof.
  induction k as [|k IH]; [reflexivity|].
  unfold alt13 in *. rewrite Nat.even_succ_succ. lia.
Qed.

Lemma mf31_step2 : forall n : N,
  cost_of_jobs (Multiframe [3%N; 1%N]) (n + 2) = (cost_of_jobs (Multiframe [3%N; 1%N]) n + 4)%N.
Proof.
  intros n. replace (n + 2)%N with (n + 1 + 1)%N by lia.
  rewrite (mf_step [3%N; 1%N] (n + 1)) by discriminate. rewrite (mf_step [3%N; 1%N] n) by discriminate.
  change (lenN [3%N; 1%N]) with 2%N.
  assert (Hm : ((n + 1) mod 2 = (n mod 2 + 1) mod 2)%N).
  { rewrite N.add_mod by discriminate. reflexivity. }
  assert (H : (n mod 2 = 0 /\ (n + 1) mod 2 = 1)%N \/ (n mod 2 = 1 /\ (n + 1) mod 2 = 0)%N).
  { rewrite Hm. pose proof (N.mod_lt n 2 ltac:(discriminate)) as H1. revert H1.
    generalize (n mod 2)%N. intros r Hr.
    destruct (N.eq_dec r 0) as [->|E]; [left; split; reflexivity|].
    assert (r = 1%N) as -> by lia. right; split; reflexivity. }
  destruct H as [(E1 & E2)|(E1 & E2)]; rewrite E1, E2; cbn [N.to_nat]; vm_compute (nthN _ _); lia.
Qed.

Lemma alt13_blocks : forall m k,
  (N.of_nat (blk alt13 k m) <= cost_of_jobs (Multiframe [3%N; 1%N]) (N.of_nat m))%N /\
  (N.of_nat (blk alt13 k (S m)) <= cost_of_jobs (Multiframe [3%N; 1%N]) (N.of_nat (S m)))%N.
Proof.
  induction m as [|m IH]; intros k.
  - split; [unfold blk; cbn [sumn]; lia|].
    rewrite blk_S. unfold blk. cbn [sumn]. change (cost_of_jobs (Multiframe [3%N; 1%N]) (N.of_nat 1)) with 3%N.
    unfold alt13. destruct (Nat.even (k + 0)); lia.
  - split; [apply IH|].
    rewrite !blk_S. replace (k + S m) with (S (k + m)) by lia.
    pose proof (alt13_pair (k + m)) as Hp. destruct (IH k) as (H1 & _).
    replace (N.of_nat (S (S m))) with (N.of_nat m + 2)%N by lia. rewrite mf31_step2. lia.
Qed.

Lemma nvg_costs_ok : forall wl : wlT, length wl = 2 ->
  wl_cm wl 0 = Multiframe [3%N; 1%N] -> wl_cm wl 1 = Scalar 2 -> costs_ok_gen wl nvg_cost.
Proof.
  intros wl Hl H0 H1 c Hc. rewrite Hl in Hc. destruct c as [|[|c]]; [| |lia].
  - split; [intros k; cbn [nvg_cost]; unfold alt13; destruct (Nat.even k); lia|].
    intros k m. rewrite H0. apply (alt13_blocks m k).
  - split; [intros k; cbn [nvg_cost]; lia|].
    intros k m. rewrite H1. cbn [cost_of_jobs].
    assert (H : blk (nvg_cost 1) k m <= 2 * m).
    { induction m as [|m IH]; [unfold blk; cbn [sumn]; lia|]. rewrite blk_S. cbn [nvg_cost]. lia. }
    lia.
Qed.

Lemma nvg_wl_ok : forall wl : wlT, length wl = 2 ->
  wl_ab wl 0 = Sporadic 10 9 -> wl_ab wl 1 = Sporadic 20 0 ->
  wl_cm wl 0 = Multiframe [3%N; 1%N] -> wl_cm wl 1 = Scalar 2 ->
  wl_kind wl 0 = KP 4 -> wl_kind wl 1 = KP 5 -> wl_ok_gen wl.
Proof.
  intros wl Hl A0 A1 C0 C1 K0 K1 c Hc. rewrite Hl in Hc. destruct c as [|[|c]]; [| |lia].
  - rewrite A0, C0, K0. split; [cbn; lia|]. split; [cbn; discriminate|discriminate].
  - rewrite A1, C1, K1. split; [cbn; lia|]. split; [exact I|discriminate].
Qed.

Lemma nvg_cbs_match : forall wl : wlT, length wl = 2 ->
  wl_kind wl 0 = KP 4 -> wl_kind wl 1 = KP 5 -> cbs_match wl nv_cbs.
Proof.
  intros wl Hl K0 K1. split; [rewrite Hl; reflexivity|]. split.
  - intros c Hc. rewrite Hl in Hc. destruct c as [|[|c]]; [| |lia]; rewrite ?K0, ?K1; cbn; split; discriminate.
  - intros i j p q Hi Hj Hne Ei Ej Hqp. rewrite Hl in Hi, Hj.
    destruct i as [|[|i]]; [| |lia]; destruct j as [|[|j]]; try lia; try congruence;
      try rewrite K0 in Ei; try rewrite K1 in Ei; try rewrite K0 in Ej; try rewrite K1 in Ej;
      injection Ei as <-; injection Ej as <-; cbn; lia.
Qed.

Theorem rr_sound_gen_nonvacuous :
  wf_sb Dedicated /\ supply_admits Dedicated wit_sigma /\ wl_ok_gen nvg_wl_rr /\ cbs_match nvg_wl_rr nv_cbs /\
  arrivals_ok nvg_wl_rr wit_arr /\ costs_ok_gen nvg_wl_rr nvg_cost /\
  (forall dbg i, i < length nvg_wl_rr -> e_rr dbg Dedicated nvg_wl_rr [i] 1000 = ROk (wl_R nvg_wl_rr i)) /\
  (* the marginal cost charged for the instance under analysis is 1, the instance costs 3 *)
  (cost_of_jobs (wl_cm nvg_wl_rr 0) 2 - cost_of_jobs (wl_cm nvg_wl_rr 0) 1 = 1)%N /\ nvg_cost 0 1 = 3 /\
  In (0, 10, 13) (finished (run nv_cbs nvg_cost 30 wit_arr wit_sigma)) /\
  In (1, 10, 15) (finished (run nv_cbs nvg_cost 30 wit_arr wit_sigma)).
Proof.
  split; [exact I|]. split; [intros t; reflexivity|].
  split; [apply nvg_wl_ok; reflexivity|].
  split; [apply nvg_cbs_match; reflexivity|].
  split; [apply wit_arrivals_ok; reflexivity|].
  split; [apply nvg_costs_ok; reflexivity|].
  split.
  { intros dbg i Hi. destruct i as [|[|i]]; [| |cbn in Hi; lia]; destruct dbg; vm_compute; reflexivity. }
  split; [reflexivity|]. split; [reflexivity|].
  split; vm_compute; tauto.
Qed.
Print Assumptions rr_sound_gen_nonvacuous.

Theorem bw_sound_gen_nonvacuous :
  wf_sb Dedicated /\ supply_admits Dedicated wit_sigma /\ wl_ok_gen nvg_wl_bw /\ wl_steps_ok nvg_wl_bw /\
  cbs_match nvg_wl_bw nv_cbs /\ arrivals_ok nvg_wl_bw wit_arr /\ costs_ok_gen nvg_wl_bw nvg_cost /\
  (forall dbg i, i < length nvg_wl_bw -> e_bw dbg Dedicated nvg_wl_bw [i] 1000 = ROk (wl_R nvg_wl_bw i)) /\
  In (0, 10, 13) (finished (run nv_cbs nvg_cost 30 wit_arr wit_sigma)) /\
  In (1, 10, 15) (finished (run nv_cbs nvg_cost 30 wit_arr wit_sigma)).
Proof.
  split; [exact I|]. split; [intros t; reflexivity|].
  split; [apply nvg_wl_ok; reflexivity|].
  split.
  { intros c Hc. destruct c as [|[|c]]; [| |cbn in Hc; lia]; exact I. }
  split; [apply nvg_cbs_match; reflexivity|].
  split; [apply wit_arrivals_ok; reflexivity|].
  split; [apply nvg_costs_ok; reflexivity|].
  split.
  { intros dbg i Hi. destruct i as [|[|i]]; [| |cbn in Hi; lia]; destruct dbg; vm_compute; reflexivity. }
  split; vm_compute; tauto.
Qed.
Print Assumptions bw_sound_gen_nonvacuous.

(* the theorems applied to the example: EVERY completed instance of every run of the scenario meets the bounds *)
Corollary nvg_rr_applies : forall H c a f,
  In (c, a, f) (finished (run nv_cbs nvg_cost H wit_arr wit_sigma)) -> f - a <= N.to_nat (wl_R nvg_wl_rr c).
Proof.
  destruct rr_sound_gen_nonvacuous as (H1 & H2 & H3 & H4 & H5 & H6 & H7 & _).
  apply (rr_sound_gen false Dedicated nvg_wl_rr 1000%N); try assumption. intros i Hi. apply H7. exact Hi.
Qed.
Print Assumptions nvg_rr_applies.

Corollary nvg_bw_applies : forall H c a f,
  In (c, a, f) (finished (run nv_cbs nvg_cost H wit_arr wit_sigma)) -> f - a <= N.to_nat (wl_R nvg_wl_bw c).
Proof.
  destruct bw_sound_gen_nonvacuous as (H1 & H2 & H3 & H4 & H5 & H6 & H7 & H8 & _).
  apply (bw_sound_gen false Dedicated nvg_wl_bw 1000%N); try assumption. intros i Hi. apply H8. exact Hi.
Qed.
Print Assumptions nvg_bw_applies.
