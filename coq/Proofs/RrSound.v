(* RrSound.v — property C05 (round-robin-aware part): soundness of the RTSS'21 analysis [rr_subchain]
   (Theorem 2 of Blass, Casini, Bozhko, Brandenburg, "A ROS 2 Response-Time Analysis Exploiting Starvation Freedom
   and Execution-Time Variance"; Model/Ros2.v, entry point [e_rr] of Model/Eval.v) for the operational model of the
   ROS 2 single-threaded executor of Spec/Executor.v running on a reservation (Spec/Reservation.v).

   MAIN THEOREM [rr_sound].  Let wl be a workload of timers and polled callbacks (known or unknown priority) with
   well-formed arrival models and scalar WCETs, in which every callback i carries an assumed bound R_i such that
   [e_rr dbg sb wl [i] limit = ROk R_i] (a self-consistent vector; any dbg, any limit).  Then in EVERY run of the
   executor, for every legal budget placement sigma of the reservation ([supply_admits]), every arrival function
   whose per-callback release sequences are [admissible] for the arrival models, every execution time in
   [1, WCET], and every priority order of the executor that is arbitrary for timers and for polled callbacks of
   unknown priority and STRICTLY agrees with the known priorities ([cbs_match]), every completed instance
   (c, a, f) of [finished (run cbs cost_of H arr sigma)] satisfies f - a <= R_c.  No hypothesis is left open.

   FINDING [rr_unsound_witness].  If two distinct polled callbacks carry the SAME known priority
   (CallbackType::Polled(p) twice; the type is a plain i32, nothing prevents it) the analysis grants neither the
   "+1" of Def. 1 against the other (is_higher_callback_priority_than is strict), although one of them precedes
   the other in every polling window.  Witness: callbacks (sporadic 10, jitter 9, WCET 3, Polled(5)) and
   (sporadic 20, WCET 2, Polled(5)) on a dedicated processor; self-consistent bounds 11 and 5; the second callback
   observes response time 7.  All hypotheses of [rr_sound] hold except that the executor's order only agrees with
   the known priorities where they differ ([cbs_match_weak]).  Hence the strictness in [cbs_match]: known
   priorities must be pairwise distinct (as they are when they stand for the registration order).
   [rr_sound_nonvacuous]: the same scenario with priorities 4 < 5 satisfies every hypothesis of [rr_sound]
   (bounds 11 and 8, observed 7).

   Structure.
   Part 0  lists, [mem], finite sums.
   Part 1  (Section Exec) the executor.  [st t] = state at the beginning of slot t; counters [srv c t] (instances of
           c started), [done c t] (completed), [narr c t] (arrived before t), [rem t]; [arrives c k a].
           State invariants [inv] (pending = arrivals minus the started prefix: FIFO; a ready callback is polled
           and has a pending instance; the running polled callback left the ready set and had the best priority
           of it).  [slot_cases]: what one slot does (no supply / continue / start a timer or a polled callback /
           idle).  Interval lemmas, all by induction over the slots of a window [a, a + d):
             [once_per_window]       instances of a polled cb executing in the window + [cb ready] <= polling points + 1
             [served_within_window]  polling points <= starts of e + [e ready], while e has a pending instance
             [lower_priority_waits]  e ready  ->  instances of a lower-priority cb executing in the window <= polling points
             [timer_blocks_polled]   no polled callback starts while a timer instance is pending
             [busy_accounting]       supply of the window + remaining cost <= sum_c C_c * (instances of c executing in it),
                                     while an instance is pending (work conservation)
             [runs_to_completion]    a started instance completes once the supply has delivered its cost.
           Induction over time [claim_all]: [claim T] = every instance whose bound expires by T completed within its
           bound.  For the k-th instance of e arriving at a with a + R_e = T + 1, [claim T] gives the carry-in
           ([carry_in]: everything that arrived R_c or more before a is complete at a), hence the instances of c
           executing in [a, a + d) number at most na_c(d + R_c - 1) ([X_arrived]), those of e at most that minus one
           ([X_self]), the pending instances of e up to ours at most npp = na_e(R_e) ([npp_bound]), and with the
           three window lemmas the polled callbacks obey the caps npp + 1 / npp ([X_capped]).  [window_bound]:
           as long as the instance has not started, supply(a, d) + 1 <= rr_rhs(S) for d <= S.  With
           rr_rhs(Sst) <= sbf(Sst) <= supply(a, Sst) the instance starts in some slot s0 < a + Sst having seen at most
           sbf(Sst) - 1 units of supply, and sbf(R_e) >= sbf(Sst) - 1 + C_e finishes it by a + R_e ([claim_step]).
           [finished_origin] / [exec_bound] link the counters to the list of completed instances.
           The requested executor invariants are restated as [executor_non_preemptive], [executor_work_conserving],
           [executor_fifo_per_callback], [executor_timers_first], [executor_once_per_polling_window],
           [executor_served_within_window].
   Part 2  from the crate's model (N, lists) to the hypotheses of Part 1: [rr_rhs_nat], [rr_fixpoint]
           (via [search_least_sol], [st_wf_exact]), [narr_count] + [na_bounds_admissible], [supply_admits_sbf].
   Part 3  [rr_sound].   Part 4  [rr_sound_nonvacuous], [rr_unsound_witness]. *)
From Coq Require Import Arith NArith List Lia Bool.
From RTA.Model Require Import Base Arrival Wcet Supply FixedPoint Ros2 Eval WellFormed.
From RTA.Spec Require Import Sched Events Reservation Exhaustive ExhaustiveRos Executor.
From RTA.Proofs Require Import WcetProofs ArrivalNaProofs SupplyProofs FixedPointProofs ReservationProofs ExhFP ExhRos EsSound.
Import ListNotations.
Local Close Scope N_scope.
Local Open Scope nat_scope.

(* ------------------------------------------------------------------------------------------ *)
(* Part 0: lists                                                                               *)
(* ------------------------------------------------------------------------------------------ *)
Lemma nth_map_combine_seq : forall {A B} (f : nat -> A -> B) (l : list A) s c dA dB,
  c < length l ->
  nth c (map (fun ic => f (fst ic) (snd ic)) (combine (seq s (length l)) l)) dB = f (s + c) (nth c l dA).
Proof.
  intros A B f l. induction l as [|x l IH]; intros s c dA dB Hc; cbn [length] in *; [lia|].
  cbn [seq combine map]. destruct c as [|c].
  - cbn [nth fst snd]. rewrite Nat.add_0_r. reflexivity.
  - cbn [nth]. rewrite (IH (S s) c dA dB) by lia. f_equal. lia.
Qed.

Lemma length_map_combine_seq : forall {A B} (f : nat * A -> B) (l : list A) s,
  length (map f (combine (seq s (length l)) l)) = length l.
Proof. intros. rewrite map_length, combine_length, seq_length. apply Nat.min_id. Qed.

Lemma tl_skipn : forall {A} k (l : list A), tl (skipn k l) = skipn (S k) l.
Proof.
  intros A k. induction k as [|k IH]; intros l.
  - destruct l; reflexivity.
  - destruct l as [|x l]; [reflexivity|]. cbn [skipn] in *. apply IH.
Qed.

Lemma hd_skipn : forall k (l : list nat), hd 0 (skipn k l) = nth k l 0.
Proof.
  induction k as [|k IH]; intros l.
  - destruct l; reflexivity.
  - destruct l as [|x l]; [reflexivity|]. cbn [skipn nth]. apply IH.
Qed.

Lemma skipn_nil_iff : forall {A} k (l : list A), skipn k l = [] <-> length l <= k.
Proof.
  intros A k. induction k as [|k IH]; intros l.
  - destruct l; cbn; split; intros H; try reflexivity; try discriminate; lia.
  - destruct l as [|x l]; cbn [skipn length]; [split; intros; [lia|reflexivity]|].
    rewrite IH. lia.
Qed.

Lemma skipn_app_le : forall {A} k (l1 l2 : list A), k <= length l1 -> skipn k (l1 ++ l2) = skipn k l1 ++ l2.
Proof.
  intros A k l1 l2 H. rewrite skipn_app. replace (k - length l1) with 0 by lia. reflexivity.
Qed.

Lemma nth_repeat_lt : forall k m (x : nat), k < m -> nth k (repeat x m) 0 = x.
Proof.
  induction k as [|k IH]; intros m x H; destruct m as [|m]; try lia; cbn [repeat nth]; [reflexivity|].
  apply IH. lia.
Qed.

Lemma nth_map_const : forall {A B} (l : list A) (x : B) c, nth c (map (fun _ => x) l) x = x.
Proof. intros A B l x. induction l as [|y l IH]; intros [|c]; cbn [map nth]; auto. Qed.

Definition mem (c : nat) (l : list nat) : nat := if existsb (Nat.eqb c) l then 1 else 0.
Lemma mem_in : forall c l, In c l -> mem c l = 1.
Proof.
  intros c l H. unfold mem. replace (existsb (Nat.eqb c) l) with true; [reflexivity|].
  symmetry. apply existsb_exists. exists c. split; [exact H|apply Nat.eqb_refl].
Qed.
Lemma mem_notin : forall c l, ~ In c l -> mem c l = 0.
Proof.
  intros c l H. unfold mem. destruct (existsb (Nat.eqb c) l) eqn:E; [|reflexivity].
  apply existsb_exists in E. destruct E as (x & Hx & E). apply Nat.eqb_eq in E. subst x. contradiction.
Qed.
Lemma mem_le1 : forall c l, mem c l <= 1.
Proof. intros. unfold mem. destruct (existsb _ _); lia. Qed.
Lemma mem_1_in : forall c l, mem c l = 1 -> In c l.
Proof.
  intros c l H. unfold mem in H. destruct (existsb (Nat.eqb c) l) eqn:E; [|discriminate].
  apply existsb_exists in E. destruct E as (x & Hx & E). apply Nat.eqb_eq in E. subst x. exact Hx.
Qed.
Lemma mem_filter_ne : forall c c0 l,
  mem c (filter (fun c' => negb (Nat.eqb c' c0)) l) = if Nat.eqb c c0 then 0 else mem c l.
Proof.
  intros c c0 l. destruct (Nat.eqb_spec c c0) as [->|Hne].
  - apply mem_notin. intros H. apply filter_In in H. destruct H as (_ & H). rewrite Nat.eqb_refl in H. discriminate.
  - destruct (in_dec Nat.eq_dec c l) as [Hin|Hnin].
    + rewrite (mem_in c l Hin). apply mem_in. apply filter_In. split; [exact Hin|].
      destruct (Nat.eqb_spec c c0); [contradiction|reflexivity].
    + rewrite (mem_notin c l Hnin). apply mem_notin. intros H. apply filter_In in H. destruct H as (H & _). contradiction.
Qed.

Lemma sumn_term_le : forall m f c, c < m -> f c <= sumn m f.
Proof.
  induction m as [|m IH]; intros f c Hc; [lia|]. cbn [sumn].
  destruct (Nat.eq_dec c m) as [->|Hne]; [lia|]. specialize (IH f c ltac:(lia)). lia.
Qed.
Lemma sumn_indicator : forall m c x, c < m -> sumn m (fun i => if Nat.eqb i c then x else 0) = x.
Proof.
  induction m as [|m IH]; intros c x Hc; [lia|]. cbn [sumn].
  destruct (Nat.eq_dec c m) as [->|Hne].
  - rewrite Nat.eqb_refl. rewrite sumn_const0; [lia|]. intros i Hi. destruct (Nat.eqb_spec i m); [lia|reflexivity].
  - rewrite IH by lia. destruct (Nat.eqb_spec m c); [lia|]. lia.
Qed.
Lemma sumn_bump : forall m f g c x, c < m ->
  (forall i, i < m -> g i = f i + (if Nat.eqb i c then x else 0)) -> sumn m g = sumn m f + x.
Proof.
  intros m f g c x Hc H. rewrite (sumn_ext m g _ H). rewrite sumn_add. rewrite sumn_indicator by exact Hc. reflexivity.
Qed.

(* ------------------------------------------------------------------------------------------ *)
(* Part 1: the executor, step by step                                                          *)
(* ------------------------------------------------------------------------------------------ *)
Section Exec.
  Variable cbs : list cbdef.
  Variable cost_of : nat -> nat -> nat.
  Variable arr : nat -> list nat.
  Variable sigma : nat -> bool.
  Notation n := (length cbs).
  Notation cbd := (cb cbs).

  Hypothesis Hcost1 : forall c k, c < n -> 1 <= cost_of c k.

  (* state at the beginning of slot t *)
  Definition st (t : nat) : estate := run cbs cost_of t arr sigma.

  Lemma run_from_S : forall H t0 s,
    run_from cbs cost_of t0 (S H) arr sigma s =
    step cbs cost_of (t0 + H) (arr (t0 + H)) (sigma (t0 + H)) (run_from cbs cost_of t0 H arr sigma s).
  Proof.
    induction H as [|H IH]; intros t0 s.
    - cbn [run_from]. rewrite Nat.add_0_r. reflexivity.
    - change (run_from cbs cost_of t0 (S (S H)) arr sigma s)
        with (run_from cbs cost_of (S t0) (S H) arr sigma (step cbs cost_of t0 (arr t0) (sigma t0) s)).
      rewrite IH. replace (S t0 + H) with (t0 + S H) by lia. reflexivity.
  Qed.

  Lemma st_S : forall t, st (S t) = step cbs cost_of t (arr t) (sigma t) (st t).
  Proof. intros t. unfold st, run. rewrite run_from_S. reflexivity. Qed.

  (* ---- the list functions of the executor ---- *)
  Lemma add_arrivals_length : forall t arrs p, length (add_arrivals t arrs p) = length p.
  Proof.
    intros t arrs. induction arrs as [|x arrs IH]; intros p; cbn [add_arrivals]; [reflexivity|].
    rewrite IH. apply length_map_combine_seq.
  Qed.

  Lemma add_arrivals_nth : forall t arrs p c, c < length p ->
    nth c (add_arrivals t arrs p) [] = nth c p [] ++ repeat t (count_occ Nat.eq_dec arrs c).
  Proof.
    intros t arrs. induction arrs as [|x arrs IH]; intros p c Hc; cbn [add_arrivals count_occ].
    - cbn [repeat]. rewrite app_nil_r. reflexivity.
    - rewrite IH by (rewrite length_map_combine_seq; exact Hc).
      rewrite (nth_map_combine_seq (fun i l => if Nat.eqb i x then l ++ [t] else l) p 0 c [] []) by exact Hc.
      cbn [Nat.add]. destruct (Nat.eq_dec x c) as [E|E].
      + subst x. rewrite Nat.eqb_refl. cbn [repeat]. rewrite <- app_assoc. reflexivity.
      + destruct (Nat.eqb_spec c x) as [E'|_]; [congruence|]. reflexivity.
  Qed.

  Lemma pop_pending_length : forall p c, length (pop_pending p c) = length p.
  Proof. intros. apply length_map_combine_seq. Qed.
  Lemma pop_pending_nth : forall p c c', c' < length p ->
    nth c' (pop_pending p c) [] = if Nat.eqb c' c then tl (nth c' p []) else nth c' p [].
  Proof.
    intros p c c' H. unfold pop_pending.
    rewrite (nth_map_combine_seq (fun i l => if Nat.eqb i c then tl l else l) p 0 c' [] []) by exact H.
    reflexivity.
  Qed.
  Lemma bump_length : forall s c, length (bump s c) = length s.
  Proof. intros. apply length_map_combine_seq. Qed.
  Lemma bump_nth : forall s c c', c' < length s ->
    nth c' (bump s c) 0 = if Nat.eqb c' c then S (nth c' s 0) else nth c' s 0.
  Proof.
    intros s c c' H. unfold bump.
    rewrite (nth_map_combine_seq (fun i l => if Nat.eqb i c then S l else l) s 0 c' 0 0) by exact H.
    reflexivity.
  Qed.

  Lemma best_none : forall l, best cbs l = None -> l = [].
  Proof.
    intros l. destruct l as [|x l]; [reflexivity|]. cbn [best].
    destruct (best cbs l) as [c'|]; [|discriminate]. destruct (Nat.ltb _ _); discriminate.
  Qed.

  Lemma best_some : forall l c, best cbs l = Some c ->
    In c l /\ forall c', In c' l -> prio (cbd c) <= prio (cbd c').
  Proof.
    induction l as [|x l IH]; intros c E; [discriminate|]. cbn [best] in E.
    destruct (best cbs l) as [c0|] eqn:Eb.
    - specialize (IH c0 eq_refl). destruct IH as (Hin & Hle).
      destruct (Nat.ltb_spec (prio (cbd c0)) (prio (cbd x))) as [Hlt|Hge]; injection E as <-.
      + split; [right; exact Hin|]. intros c' [<-|Hc']; [lia|apply Hle; exact Hc'].
      + split; [left; reflexivity|]. intros c' [<-|Hc']; [lia|]. specialize (Hle c' Hc'). lia.
    - apply best_none in Eb. subst l. injection E as <-. split; [left; reflexivity|].
      intros c' [<-|[]]. lia.
  Qed.

  Definition timers_pending (p : list (list nat)) : list nat :=
    filter (fun c => is_timer (cbd c) && has_pending p c) (seq 0 n).
  Definition pollset (p : list (list nat)) : list nat :=
    filter (fun c => negb (is_timer (cbd c)) && has_pending p c) (seq 0 n).
  Definition rdy0 (p : list (list nat)) (rdy : list nat) : list nat :=
    match rdy with [] => pollset p | _ => rdy end.

  Lemma dispatch_cases : forall p rdy,
    (exists c, dispatch cbs p rdy = (Some c, rdy) /\ In c (timers_pending p) /\
               forall c', In c' (timers_pending p) -> prio (cbd c) <= prio (cbd c'))
    \/ (timers_pending p = [] /\ exists c,
          dispatch cbs p rdy = (Some c, filter (fun c' => negb (Nat.eqb c' c)) (rdy0 p rdy)) /\
          In c (rdy0 p rdy) /\ forall c', In c' (rdy0 p rdy) -> prio (cbd c) <= prio (cbd c'))
    \/ (timers_pending p = [] /\ rdy0 p rdy = [] /\ dispatch cbs p rdy = (None, [])).
  Proof.
    intros p rdy. unfold dispatch. fold (timers_pending p). fold (pollset p). fold (rdy0 p rdy).
    destruct (best cbs (timers_pending p)) as [c|] eqn:Et.
    - left. exists c. apply best_some in Et. destruct Et as (H1 & H2). split; [reflexivity|]. split; assumption.
    - right. apply best_none in Et. destruct (best cbs (rdy0 p rdy)) as [c|] eqn:Er.
      + left. split; [exact Et|]. exists c. apply best_some in Er. destruct Er as (H1 & H2).
        split; [reflexivity|]. split; assumption.
      + right. apply best_none in Er. split; [exact Et|]. split; [exact Er|]. rewrite Er. reflexivity.
  Qed.

  (* ---- counters ---- *)
  Definition srv (c t : nat) : nat := nth c (served (st t)) 0.
  Definition rem (t : nat) : nat := match running (st t) with Some (_, r, _) => r | None => 0 end.
  Definition runs_cb (c t : nat) : nat :=
    match running (st t) with Some (c', _, _) => if Nat.eqb c' c then 1 else 0 | None => 0 end.
  (* number of completed instances of c at the beginning of slot t *)
  Definition done (c t : nat) : nat := srv c t - runs_cb c t.
  Definition pend (t : nat) : list (list nat) := add_arrivals t (arr t) (pending (st t)).
  (* arrival times of the instances of c that arrive in slots < t, in queue order *)
  Definition arrs_upto (c t : nat) : list nat :=
    flat_map (fun u => repeat u (count_occ Nat.eq_dec (arr u) c)) (seq 0 t).
  Definition narr (c t : nat) : nat := length (arrs_upto c t).

  Lemma arrs_upto_S : forall c t, arrs_upto c (S t) = arrs_upto c t ++ repeat t (count_occ Nat.eq_dec (arr t) c).
  Proof. intros c t. unfold arrs_upto. rewrite seq_S, flat_map_app. cbn [flat_map Nat.add]. rewrite app_nil_r. reflexivity. Qed.

  Lemma narr_S : forall c t, narr c (S t) = narr c t + count_occ Nat.eq_dec (arr t) c.
  Proof. intros. unfold narr. rewrite arrs_upto_S, app_length, repeat_length. reflexivity. Qed.

  Lemma narr_mono : forall c t t', t <= t' -> narr c t <= narr c t'.
  Proof. intros c t t' H. induction H as [|t' H IH]; [lia|]. rewrite narr_S. lia. Qed.

  Lemma arrs_upto_prefix : forall c t t', t <= t' -> exists l, arrs_upto c t' = arrs_upto c t ++ l.
  Proof.
    intros c t t' H. induction H as [|t' H (l & IH)]; [exists []; rewrite app_nil_r; reflexivity|].
    rewrite arrs_upto_S, IH. rewrite <- app_assoc. eexists. reflexivity.
  Qed.

  Lemma arrs_upto_nth_stable : forall c t t' k, t <= t' -> k < narr c t ->
    nth k (arrs_upto c t') 0 = nth k (arrs_upto c t) 0.
  Proof.
    intros c t t' k H Hk. destruct (arrs_upto_prefix c t t' H) as (l & ->). apply app_nth1. exact Hk.
  Qed.

  (* the k-th instance of c arrives in slot a *)
  Definition arrives (c k a : nat) : Prop := narr c a <= k < narr c (S a).

  Lemma nth_arrives : forall c T k, k < narr c T -> arrives c k (nth k (arrs_upto c T) 0).
  Proof.
    intros c T. induction T as [|T IH]; intros k Hk; [cbn in Hk; lia|].
    destruct (Nat.lt_ge_cases k (narr c T)) as [Hlt|Hge].
    - rewrite (arrs_upto_nth_stable c T (S T) k) by (try lia; exact Hlt). apply IH. exact Hlt.
    - rewrite arrs_upto_S. rewrite app_nth2 by exact Hge. fold (narr c T).
      rewrite narr_S in Hk. rewrite nth_repeat_lt by lia. unfold arrives. rewrite narr_S. lia.
  Qed.

  Lemma arrives_nth : forall c k a T, arrives c k a -> a < T -> nth k (arrs_upto c T) 0 = a.
  Proof.
    intros c k a T (H1 & H2) HT.
    rewrite (arrs_upto_nth_stable c (S a) T k) by (try lia; exact H2).
    rewrite arrs_upto_S. rewrite app_nth2 by exact H1. fold (narr c a).
    rewrite narr_S in H2. apply nth_repeat_lt. lia.
  Qed.

  Lemma arrives_fun : forall c k a a', arrives c k a -> arrives c k a' -> a = a'.
  Proof.
    intros c k a a' (H1 & H2) (H3 & H4).
    destruct (Nat.lt_trichotomy a a') as [Hlt|[E|Hgt]]; [|exact E|].
    - pose proof (narr_mono c (S a) a' ltac:(lia)). lia.
    - pose proof (narr_mono c (S a') a ltac:(lia)). lia.
  Qed.

  (* ---- one step ---- *)
  Lemma step_cases : forall t,
    (sigma t = false /\
       st (S t) = mkEstate (pend t) (ready (st t)) (running (st t)) (served (st t)) (finished (st t)))
    \/ (sigma t = true /\ exists c r a, running (st t) = Some (c, r, a) /\
       st (S t) = mkEstate (pend t) (ready (st t)) (if r <=? 1 then None else Some (c, r - 1, a)) (served (st t))
                    (if r <=? 1 then finished (st t) ++ [(c, a, S t)] else finished (st t)))
    \/ (sigma t = true /\ running (st t) = None /\ exists c rdy',
       dispatch cbs (pend t) (ready (st t)) = (Some c, rdy') /\
       st (S t) = mkEstate (pop_pending (pend t) c) rdy'
                    (if cost_of c (srv c t) <=? 1 then None
                     else Some (c, cost_of c (srv c t) - 1, hd 0 (nth c (pend t) [])))
                    (bump (served (st t)) c)
                    (if cost_of c (srv c t) <=? 1 then finished (st t) ++ [(c, hd 0 (nth c (pend t) []), S t)]
                     else finished (st t)))
    \/ (sigma t = true /\ running (st t) = None /\ exists rdy',
       dispatch cbs (pend t) (ready (st t)) = (None, rdy') /\
       st (S t) = mkEstate (pend t) rdy' None (served (st t)) (finished (st t))).
  Proof.
    intros t. rewrite st_S. unfold step. fold (pend t).
    destruct (sigma t) eqn:Es; cbn [negb].
    2:{ left. split; reflexivity. }
    right. destruct (running (st t)) as [[[c r] a]|] eqn:Er.
    - left. split; [reflexivity|]. exists c, r, a. split; [reflexivity|].
      destruct (Nat.leb r 1); reflexivity.
    - right. destruct (dispatch cbs (pend t) (ready (st t))) as [[c|] rdy'] eqn:Ed.
      + left. split; [reflexivity|]. split; [reflexivity|]. exists c, rdy'. split; [reflexivity|].
        unfold srv. destruct (Nat.leb (cost_of c (nth c (served (st t)) 0)) 1); reflexivity.
      + right. split; [reflexivity|]. split; [reflexivity|]. exists rdy'. split; reflexivity.
  Qed.

  Lemma dispatch_some : forall p rdy c rdy', dispatch cbs p rdy = (Some c, rdy') ->
    (In c (timers_pending p) /\ (forall c', In c' (timers_pending p) -> prio (cbd c) <= prio (cbd c')) /\ rdy' = rdy)
    \/ (timers_pending p = [] /\ In c (rdy0 p rdy) /\
        (forall c', In c' (rdy0 p rdy) -> prio (cbd c) <= prio (cbd c')) /\
        rdy' = filter (fun c' => negb (Nat.eqb c' c)) (rdy0 p rdy)).
  Proof.
    intros p rdy c rdy' E.
    destruct (dispatch_cases p rdy) as [(c0 & E0 & H1 & H2)|[(Ht & c0 & E0 & H1 & H2)|(Ht & Hr & E0)]];
      rewrite E0 in E; try discriminate; injection E as <- <-.
    - left. split; [exact H1|]. split; [exact H2|reflexivity].
    - right. split; [exact Ht|]. split; [exact H1|]. split; [exact H2|reflexivity].
  Qed.

  Lemma dispatch_none : forall p rdy rdy', dispatch cbs p rdy = (None, rdy') ->
    timers_pending p = [] /\ rdy0 p rdy = [] /\ rdy' = [].
  Proof.
    intros p rdy rdy' E.
    destruct (dispatch_cases p rdy) as [(c0 & E0 & H1 & H2)|[(Ht & c0 & E0 & H1 & H2)|(Ht & Hr & E0)]];
      rewrite E0 in E; try discriminate; injection E as <-.
    split; [exact Ht|]. split; [exact Hr|reflexivity].
  Qed.

  Lemma in_timers_pending : forall p c,
    In c (timers_pending p) <-> c < n /\ is_timer (cbd c) = true /\ has_pending p c = true.
  Proof.
    intros p c. unfold timers_pending. rewrite filter_In, in_seq, andb_true_iff. split; intros H; repeat split; try lia; apply H.
  Qed.
  Lemma in_pollset : forall p c,
    In c (pollset p) <-> c < n /\ is_timer (cbd c) = false /\ has_pending p c = true.
  Proof.
    intros p c. unfold pollset. rewrite filter_In, in_seq, andb_true_iff, negb_true_iff.
    split; intros H; repeat split; try lia; apply H.
  Qed.

  (* ---- state invariants ---- *)
  Record inv (t : nat) : Prop := mkInv {
    inv_lenp : length (pending (st t)) = n;
    inv_lens : length (served (st t)) = n;
    inv_pend : forall c, c < n -> nth c (pending (st t)) [] = skipn (srv c t) (arrs_upto c t);
    inv_srv : forall c, c < n -> srv c t <= narr c t;
    inv_rdy : forall c, In c (ready (st t)) -> c < n /\ is_timer (cbd c) = false /\ srv c t < narr c t;
    inv_run : match running (st t) with
              | Some (c, r, a) =>
                  c < n /\ 1 <= r /\ r <= cost_of c (srv c t - 1) /\ 1 <= srv c t /\
                  a = nth (srv c t - 1) (arrs_upto c t) 0 /\
                  (is_timer (cbd c) = false ->
                   ~ In c (ready (st t)) /\ forall c', In c' (ready (st t)) -> prio (cbd c) <= prio (cbd c'))
              | None => True
              end }.

  Lemma inv_0 : inv 0.
  Proof.
    unfold st, run. cbn [run_from]. constructor; unfold srv, st, run; cbn [run_from init pending served ready running].
    - apply map_length.
    - apply map_length.
    - intros c Hc. rewrite nth_map_const. unfold arrs_upto. cbn [seq flat_map]. rewrite skipn_nil. reflexivity.
    - intros c Hc. rewrite nth_map_const. lia.
    - intros c [].
    - exact I.
  Qed.

  Lemma pend_length : forall t, inv t -> length (pend t) = n.
  Proof. intros t Hi. unfold pend. rewrite add_arrivals_length. apply Hi. Qed.

  Lemma pend_nth : forall t c, inv t -> c < n -> nth c (pend t) [] = skipn (srv c t) (arrs_upto c (S t)).
  Proof.
    intros t c Hi Hc. unfold pend. rewrite add_arrivals_nth by (rewrite (inv_lenp t Hi); exact Hc).
    rewrite (inv_pend t Hi c Hc), arrs_upto_S. symmetry. apply skipn_app_le. apply (inv_srv t Hi c Hc).
  Qed.

  Lemma has_pending_iff : forall t c, inv t -> c < n -> (has_pending (pend t) c = true <-> srv c t < narr c (S t)).
  Proof.
    intros t c Hi Hc. unfold has_pending. rewrite (pend_nth t c Hi Hc).
    pose proof (skipn_nil_iff (srv c t) (arrs_upto c (S t))) as H. fold (narr c (S t)) in H.
    destruct (skipn (srv c t) (arrs_upto c (S t))) as [|x l].
    - split; [discriminate|]. intros Hlt. assert (narr c (S t) <= srv c t) by (apply H; reflexivity). lia.
    - split; [|reflexivity]. intros _. destruct (Nat.lt_ge_cases (srv c t) (narr c (S t))) as [Hl|Hg]; [exact Hl|].
      apply H in Hg. discriminate.
  Qed.

  Lemma run_arrival_stable : forall c t k, k < narr c t -> nth k (arrs_upto c (S t)) 0 = nth k (arrs_upto c t) 0.
  Proof. intros c t k Hk. apply arrs_upto_nth_stable; [lia|exact Hk]. Qed.

  Lemma in_rdy0 : forall t c, inv t -> In c (rdy0 (pend t) (ready (st t))) ->
    c < n /\ is_timer (cbd c) = false /\ srv c t < narr c (S t).
  Proof.
    intros t c Hi H. unfold rdy0 in H. destruct (ready (st t)) as [|x l] eqn:Erd.
    - apply in_pollset in H. destruct H as (H1 & H2 & H3). split; [exact H1|]. split; [exact H2|].
      apply has_pending_iff; assumption.
    - rewrite <- Erd in H. destruct (inv_rdy t Hi c H) as (H1 & H2 & H3). split; [exact H1|]. split; [exact H2|].
      pose proof (narr_mono c t (S t) ltac:(lia)). lia.
  Qed.

  Lemma inv_S : forall t, inv t -> inv (S t).
  Proof.
    intros t Hi.
    pose proof (inv_lenp t Hi) as Hlp. pose proof (inv_lens t Hi) as Hls.
    pose proof (inv_srv t Hi) as Hsrv. pose proof (inv_rdy t Hi) as Hrdy. pose proof (inv_run t Hi) as Hrun.
    assert (Hrdy' : forall c, In c (ready (st t)) -> c < n /\ is_timer (cbd c) = false /\ srv c t < narr c (S t)).
    { intros c Hc. destruct (Hrdy c Hc) as (H1 & H2 & H3). pose proof (narr_mono c t (S t) ltac:(lia)).
      repeat split; try assumption; lia. }
    destruct (step_cases t) as [(Es & E)|[(Es & c & r & a & Er & E)|[(Es & Er & c & rdy' & Ed & E)|(Es & Er & rdy' & Ed & E)]]].
    - (* no supply *)
      constructor; unfold srv; rewrite E; cbn [pending served ready running]; fold (srv).
      + apply pend_length; exact Hi.
      + exact Hls.
      + intros c Hc. apply pend_nth; assumption.
      + intros c Hc. fold (srv c t). pose proof (narr_mono c t (S t) ltac:(lia)). specialize (Hsrv c Hc). lia.
      + exact Hrdy'.
      + destruct (running (st t)) as [[[c r] a]|]; [|exact I].
        destruct Hrun as (H1 & H2 & H3 & H4 & H5 & H6). fold (srv c t).
        repeat split; try assumption.
        rewrite run_arrival_stable; [exact H5|]. specialize (Hsrv c H1). lia.
        apply H6; assumption. apply H6; assumption.
    - (* continue *)
      rewrite Er in Hrun. destruct Hrun as (H1 & H2 & H3 & H4 & H5 & H6).
      constructor; unfold srv; rewrite E; cbn [pending served ready running].
      + apply pend_length; exact Hi.
      + exact Hls.
      + intros c' Hc. apply pend_nth; assumption.
      + intros c' Hc. fold (srv c' t). pose proof (narr_mono c' t (S t) ltac:(lia)). specialize (Hsrv c' Hc). lia.
      + exact Hrdy'.
      + destruct (Nat.leb_spec r 1) as [Hr|Hr]; [exact I|]. fold (srv c t).
        repeat split; try assumption; try lia.
        rewrite run_arrival_stable; [exact H5|]. specialize (Hsrv c H1). lia.
        apply H6; assumption. apply H6; assumption.
    - (* start *)
      assert (Hc : c < n /\ srv c t < narr c (S t)).
      { destruct (dispatch_some _ _ _ _ Ed) as [(H1 & _)|(Ht & H1 & _)].
        - apply in_timers_pending in H1. destruct H1 as (H1 & H2 & H3). split; [exact H1|].
          apply has_pending_iff; assumption.
        - destruct (in_rdy0 t c Hi H1) as (H2 & H3 & H4). split; assumption. }
      destruct Hc as (Hc & Hpc).
      assert (Hrdy2 : forall c', In c' rdy' -> c' < n /\ is_timer (cbd c') = false /\ srv c' t < narr c' (S t) /\
                                 (is_timer (cbd c) = false -> c' <> c /\ prio (cbd c) <= prio (cbd c'))).
      { intros c' Hc'. destruct (dispatch_some _ _ _ _ Ed) as [(H1 & _ & ->)|(Ht & H1 & H2 & ->)].
        - destruct (Hrdy' c' Hc') as (A1 & A2 & A3). repeat split; try assumption;
          apply in_timers_pending in H1; destruct H1 as (_ & H1 & _); congruence.
        - apply filter_In in Hc'. destruct Hc' as (Hc' & Hne). destruct (in_rdy0 t c' Hi Hc') as (A1 & A2 & A3).
          repeat split; try assumption.
          + intros ->. rewrite Nat.eqb_refl in Hne. discriminate.
          + apply H2. exact Hc'. }
      constructor; unfold srv; rewrite E; cbn [pending served ready running].
      + rewrite pop_pending_length. apply pend_length; exact Hi.
      + rewrite bump_length. exact Hls.
      + intros c' Hc'. rewrite pop_pending_nth by (rewrite pend_length; assumption).
        rewrite bump_nth by (rewrite Hls; exact Hc'). fold (srv c' t). rewrite pend_nth by assumption.
        destruct (Nat.eqb c' c); [apply tl_skipn|reflexivity].
      + intros c' Hc'. rewrite bump_nth by (rewrite Hls; exact Hc'). fold (srv c' t).
        destruct (Nat.eqb_spec c' c) as [->|Hne]; [lia|].
        pose proof (narr_mono c' t (S t) ltac:(lia)). specialize (Hsrv c' Hc'). lia.
      + intros c' Hc'. destruct (Hrdy2 c' Hc') as (A1 & A2 & A3 & A4). split; [exact A1|]. split; [exact A2|].
        rewrite bump_nth by (rewrite Hls; exact A1). fold (srv c' t).
        destruct (Nat.eqb_spec c' c) as [->|Hne]; [|exact A3].
        exfalso. destruct (dispatch_some _ _ _ _ Ed) as [(H1 & _ & ->)|(Ht & H1 & H2 & ->)].
        * apply in_timers_pending in H1. destruct H1 as (_ & H1 & _). congruence.
        * apply filter_In in Hc'. destruct Hc' as (_ & Hne). rewrite Nat.eqb_refl in Hne. discriminate.
      + destruct (Nat.leb_spec (cost_of c (srv c t)) 1) as [Hr|Hr]; [exact I|].
        rewrite bump_nth by (rewrite Hls; exact Hc). rewrite Nat.eqb_refl. fold (srv c t).
        replace (S (srv c t) - 1) with (srv c t) by lia.
        split; [exact Hc|]. split; [lia|]. split; [lia|]. split; [lia|]. split.
        * rewrite pend_nth by assumption. apply hd_skipn.
        * intros Hpol. split.
          -- intros Hin. destruct (Hrdy2 c Hin) as (_ & _ & _ & A4). destruct (A4 Hpol) as (A5 & _). congruence.
          -- intros c' Hc'. destruct (Hrdy2 c' Hc') as (_ & _ & _ & A4). apply A4. exact Hpol.
    - (* idle *)
      destruct (dispatch_none _ _ _ Ed) as (Ht & Hr0 & ->).
      constructor; unfold srv; rewrite E; cbn [pending served ready running].
      + apply pend_length; exact Hi.
      + exact Hls.
      + intros c' Hc. apply pend_nth; assumption.
      + intros c' Hc. fold (srv c' t). pose proof (narr_mono c' t (S t) ltac:(lia)). specialize (Hsrv c' Hc). lia.
      + intros c' [].
      + exact I.
  Qed.

  Lemma inv_all : forall t, inv t.
  Proof. induction t as [|t IH]; [apply inv_0|apply inv_S; exact IH]. Qed.

  (* ---- what one slot does to the counters ---- *)
  Definition start (t : nat) : option nat :=
    if sigma t then
      match running (st t) with Some _ => None | None => fst (dispatch cbs (pend t) (ready (st t))) end
    else None.

  (* slot t is a polling point: the executor looks at the polled callbacks with an empty ready set *)
  Definition ppb (t : nat) : bool :=
    sigma t && match running (st t) with None => true | Some _ => false end
            && match timers_pending (pend t) with [] => true | _ => false end
            && match ready (st t) with [] => true | _ => false end.

  Lemma timers_pending_nil : forall t, timers_pending (pend t) = [] ->
    forall c, c < n -> is_timer (cbd c) = true -> narr c (S t) <= srv c t.
  Proof.
    intros t Ht c Hc Htm. destruct (Nat.le_gt_cases (narr c (S t)) (srv c t)) as [H|H]; [exact H|].
    exfalso. assert (Hin : In c (timers_pending (pend t))).
    { apply in_timers_pending. split; [exact Hc|]. split; [exact Htm|]. apply has_pending_iff; [apply inv_all|exact Hc|exact H]. }
    rewrite Ht in Hin. destruct Hin.
  Qed.

  Lemma pollset_nil : forall t, pollset (pend t) = [] ->
    forall c, c < n -> is_timer (cbd c) = false -> narr c (S t) <= srv c t.
  Proof.
    intros t Ht c Hc Htm. destruct (Nat.le_gt_cases (narr c (S t)) (srv c t)) as [H|H]; [exact H|].
    exfalso. assert (Hin : In c (pollset (pend t))).
    { apply in_pollset. split; [exact Hc|]. split; [exact Htm|]. apply has_pending_iff; [apply inv_all|exact Hc|exact H]. }
    rewrite Ht in Hin. destruct Hin.
  Qed.

  Lemma in_pollset_iff : forall t c,
    In c (pollset (pend t)) <-> c < n /\ is_timer (cbd c) = false /\ srv c t < narr c (S t).
  Proof.
    intros t c. rewrite in_pollset. split; intros (H1 & H2 & H3); (split; [exact H1|]; split; [exact H2|]);
      apply (has_pending_iff t c (inv_all t) H1); exact H3.
  Qed.

  Inductive slot_kind (t : nat) : Prop :=
  | SK_nosupply :
      sigma t = false -> start t = None -> ppb t = false ->
      (forall c, srv c (S t) = srv c t) -> running (st (S t)) = running (st t) ->
      ready (st (S t)) = ready (st t) -> finished (st (S t)) = finished (st t) -> slot_kind t
  | SK_continue : forall c r a,
      sigma t = true -> start t = None -> ppb t = false -> running (st t) = Some (c, r, a) ->
      (forall c, srv c (S t) = srv c t) ->
      running (st (S t)) = (if r <=? 1 then None else Some (c, r - 1, a)) ->
      ready (st (S t)) = ready (st t) ->
      finished (st (S t)) = (if r <=? 1 then finished (st t) ++ [(c, a, S t)] else finished (st t)) -> slot_kind t
  | SK_start : forall c,
      sigma t = true -> start t = Some c -> running (st t) = None -> c < n -> srv c t < narr c (S t) ->
      (forall c', c' < n -> srv c' (S t) = if Nat.eqb c' c then S (srv c' t) else srv c' t) ->
      running (st (S t)) = (if cost_of c (srv c t) <=? 1 then None
                            else Some (c, cost_of c (srv c t) - 1, nth (srv c t) (arrs_upto c (S t)) 0)) ->
      finished (st (S t)) = (if cost_of c (srv c t) <=? 1
                             then finished (st t) ++ [(c, nth (srv c t) (arrs_upto c (S t)) 0, S t)]
                             else finished (st t)) ->
      ((is_timer (cbd c) = true /\ ppb t = false /\ ready (st (S t)) = ready (st t) /\
        (forall c', c' < n -> is_timer (cbd c') = true -> srv c' t < narr c' (S t) -> prio (cbd c) <= prio (cbd c')))
       \/ (is_timer (cbd c) = false /\
           (forall c', c' < n -> is_timer (cbd c') = true -> narr c' (S t) <= srv c' t) /\
           In c (rdy0 (pend t) (ready (st t))) /\
           (forall c', In c' (rdy0 (pend t) (ready (st t))) -> prio (cbd c) <= prio (cbd c')) /\
           ready (st (S t)) = filter (fun c' => negb (Nat.eqb c' c)) (rdy0 (pend t) (ready (st t))) /\
           ppb t = match ready (st t) with [] => true | _ => false end)) -> slot_kind t
  | SK_idle :
      sigma t = true -> start t = None -> running (st t) = None ->
      (forall c, c < n -> narr c (S t) <= srv c t) ->
      (forall c, srv c (S t) = srv c t) -> running (st (S t)) = None ->
      ready (st t) = [] -> ready (st (S t)) = [] -> finished (st (S t)) = finished (st t) -> slot_kind t.

  Lemma slot_cases : forall t, slot_kind t.
  Proof.
    intros t. pose proof (inv_all t) as Hi. pose proof (inv_lens t Hi) as Hls.
    destruct (step_cases t) as [(Es & E)|[(Es & c & r & a & Er & E)|[(Es & Er & c & rdy' & Ed & E)|(Es & Er & rdy' & Ed & E)]]].
    - apply SK_nosupply; unfold srv, start, ppb; rewrite ?E, ?Es; cbn [served running ready finished]; reflexivity.
    - apply (SK_continue t c r a); unfold srv, start, ppb; rewrite ?E, ?Es, ?Er; cbn [served running ready finished andb]; reflexivity.
    - assert (Hc : c < n /\ srv c t < narr c (S t)).
      { destruct (dispatch_some _ _ _ _ Ed) as [(H1 & _)|(Ht & H1 & _)].
        - apply in_timers_pending in H1. destruct H1 as (H1 & H2 & H3). split; [exact H1|].
          apply has_pending_iff; assumption.
        - destruct (in_rdy0 t c Hi H1) as (H2 & H3 & H4). split; assumption. }
      destruct Hc as (Hc & Hpc).
      assert (Ea : hd 0 (nth c (pend t) []) = nth (srv c t) (arrs_upto c (S t)) 0).
      { rewrite pend_nth by assumption. apply hd_skipn. }
      apply (SK_start t c); try assumption.
      + unfold start. rewrite Es, Er, Ed. reflexivity.
      + intros c' Hc'. unfold srv. rewrite E. cbn [served]. apply bump_nth. rewrite Hls. exact Hc'.
      + rewrite E. cbn [running]. rewrite Ea. reflexivity.
      + rewrite E. cbn [finished]. rewrite Ea. reflexivity.
      + destruct (dispatch_some _ _ _ _ Ed) as [(H1 & H2 & ->)|(Ht & H1 & H2 & ->)].
        * left. pose proof H1 as H1'. apply in_timers_pending in H1. destruct H1 as (_ & H1 & _).
          split; [exact H1|]. split.
          { unfold ppb. destruct (timers_pending (pend t)); [destruct H1'|]. rewrite !andb_false_r. reflexivity. }
          split; [rewrite E; reflexivity|].
          intros c' Hc' Htm Hp. apply H2. apply in_timers_pending. split; [exact Hc'|]. split; [exact Htm|].
          apply has_pending_iff; assumption.
        * right. destruct (in_rdy0 t c Hi H1) as (_ & H3 & _). split; [exact H3|].
          split; [apply timers_pending_nil; exact Ht|]. split; [exact H1|]. split; [exact H2|].
          split; [rewrite E; reflexivity|].
          unfold ppb. rewrite Es, Er, Ht. reflexivity.
    - destruct (dispatch_none _ _ _ Ed) as (Ht & Hr0 & ->).
      assert (Hrd : ready (st t) = []).
      { unfold rdy0 in Hr0. destruct (ready (st t)); [reflexivity|discriminate]. }
      apply SK_idle; try assumption.
      + unfold start. rewrite Es, Er, Ed. reflexivity.
      + intros c Hc. destruct (is_timer (cbd c)) eqn:Htm.
        * apply timers_pending_nil; assumption.
        * apply pollset_nil; try assumption. unfold rdy0 in Hr0. rewrite Hrd in Hr0. exact Hr0.
      + intros c. unfold srv. rewrite E. reflexivity.
      + rewrite E. reflexivity.
      + rewrite E. reflexivity.
      + rewrite E. reflexivity.
  Qed.

  Ltac slot t :=
    destruct (slot_cases t) as
      [Es Est Epp Hsrv Erun Erdy Efin
      | c0 r0 a0 Es Est Epp Er Hsrv Erun Erdy Efin
      | c0 Es Est Er Hc0 Hp0 Hsrv Erun Efin Hknd
      | Es Est Er Hnp Hsrv Erun Erd Erdy Efin].

  Lemma srv_S : forall t c, c < n ->
    srv c (S t) = srv c t + match start t with Some c' => if Nat.eqb c c' then 1 else 0 | None => 0 end.
  Proof.
    intros t c Hc. slot t; rewrite Est; try (rewrite Hsrv; lia).
    rewrite (Hsrv c Hc). destruct (Nat.eqb c c0); lia.
  Qed.

  Lemma srv_mono1 : forall t c, c < n -> srv c t <= srv c (S t).
  Proof. intros t c Hc. rewrite srv_S by exact Hc. lia. Qed.

  Lemma srv_mono : forall c t t', c < n -> t <= t' -> srv c t <= srv c t'.
  Proof. intros c t t' Hc H. induction H as [|t' H IH]; [lia|]. pose proof (srv_mono1 t' c Hc). lia. Qed.

  Lemma srv_le_narr : forall c t, c < n -> srv c t <= narr c t.
  Proof. intros c t Hc. apply (inv_srv t (inv_all t) c Hc). Qed.

  Lemma runs_cb_le_srv : forall c t, runs_cb c t <= srv c t.
  Proof.
    intros c t. unfold runs_cb. pose proof (inv_run t (inv_all t)) as H.
    destruct (running (st t)) as [[[c' r] a]|]; [|lia].
    destruct (Nat.eqb_spec c' c) as [->|_]; [|lia]. destruct H as (_ & _ & _ & H & _). exact H.
  Qed.

  Lemma done_le_srv : forall c t, done c t <= srv c t.
  Proof. intros. unfold done. lia. Qed.

  Lemma done_mono1 : forall t c, c < n -> done c t <= done c (S t).
  Proof.
    intros t c Hc. unfold done, runs_cb. slot t.
    - rewrite Erun, Hsrv. lia.
    - rewrite Erun, Er, Hsrv. destruct (Nat.leb r0 1); lia.
    - rewrite Erun, Er, (Hsrv c Hc). destruct (Nat.leb _ 1); destruct (Nat.eqb_spec c c0) as [->|Hne].
      + lia.
      + lia.
      + rewrite Nat.eqb_refl. lia.
      + destruct (Nat.eqb_spec c0 c) as [->|_]; [congruence|]. lia.
    - rewrite Erun, Er, Hsrv. lia.
  Qed.

  Lemma done_mono : forall c t t', c < n -> t <= t' -> done c t <= done c t'.
  Proof. intros c t t' Hc H. induction H as [|t' H IH]; [lia|]. pose proof (done_mono1 t' c Hc). lia. Qed.

  (* the instant a counter crosses k *)
  Lemma crossing : forall (f : nat -> nat) a b k, a <= b -> f a <= k -> k < f b ->
    exists s, a <= s < b /\ f s <= k /\ k < f (S s).
  Proof.
    intros f a b k Hab. induction Hab as [|b Hab IH]; intros H1 H2; [lia|].
    destruct (Nat.le_gt_cases (f b) k) as [Hle|Hgt].
    - exists b. repeat split; try lia.
    - destruct (IH H1 Hgt) as (s & Hs & H3 & H4). exists s. repeat split; try lia.
  Qed.

  (* ---- (a) polling windows ---- *)
  (* a polled callback is started at most once per polling window: the instances of cb that execute in [a, a + d)
     (the one in progress at a, if any, plus those started in the window), plus one if cb still sits in the ready
     set, are at most one more than the polling points in [a, a + d) *)
  Lemma once_per_window : forall a cb d, cb < n -> is_timer (cbd cb) = false ->
    (srv cb (a + d) - done cb a) + mem cb (ready (st (a + d))) <= supplied ppb a d + 1.
  Proof.
    intros a cb d Hcb Hpol. induction d as [|d IH].
    - rewrite Nat.add_0_r. cbn [supplied]. unfold done. pose proof (runs_cb_le_srv cb a) as Hle.
      replace (srv cb a - (srv cb a - runs_cb cb a)) with (runs_cb cb a) by lia.
      unfold runs_cb in *. pose proof (inv_run a (inv_all a)) as Hr.
      destruct (running (st a)) as [[[c' r] a']|]; [|pose proof (mem_le1 cb (ready (st a))); lia].
      destruct (Nat.eqb_spec c' cb) as [->|_]; [|pose proof (mem_le1 cb (ready (st a))); lia].
      destruct Hr as (_ & _ & _ & _ & _ & Hr). destruct (Hr Hpol) as (Hr1 & _). rewrite (mem_notin _ _ Hr1). lia.
    - replace (a + S d) with (S (a + d)) by lia. cbn [supplied]. set (t := a + d) in *.
      pose proof (done_le_srv cb a) as Hd. pose proof (srv_mono cb a t Hcb ltac:(lia)) as Hm.
      slot t.
      + rewrite Hsrv, Erdy. lia.
      + rewrite Hsrv, Erdy. lia.
      + destruct Hknd as [(Htm & Hpp & Erdy & _)|(Hpl & Hnt & Hin & Hmin & Erdy & Hpp)].
        * rewrite (Hsrv cb Hcb), Erdy. destruct (Nat.eqb_spec cb c0) as [->|_]; [congruence|]. lia.
        * rewrite (Hsrv cb Hcb), Erdy, mem_filter_ne, Hpp. unfold rdy0 in *.
          destruct (ready (st t)) as [|x l] eqn:Erd0.
          -- destruct (Nat.eqb cb c0); [lia|]. pose proof (mem_le1 cb (pollset (pend t))). lia.
          -- destruct (Nat.eqb_spec cb c0) as [->|_]; [|lia]. rewrite (mem_in _ _ Hin) in IH. lia.
      + rewrite Hsrv, Erdy. rewrite Erd in IH. lia.
  Qed.

  (* while an instance of the polled callback e is pending, every polling point admits e, and e is then started
     before the next polling point: polling points in [a, a + d) <= starts of e in the window + [e is ready] *)
  Lemma served_within_window : forall e k a d, e < n -> is_timer (cbd e) = false -> k < narr e (S a) ->
    srv e (a + d) <= k ->
    supplied ppb a d <= (srv e (a + d) - srv e a) + mem e (ready (st (a + d))).
  Proof.
    intros e k a d He Hpol Hk. induction d as [|d IH]; intros Hs.
    - cbn [supplied]. lia.
    - replace (a + S d) with (S (a + d)) in * by lia. cbn [supplied]. set (t := a + d) in *.
      pose proof (srv_mono1 t e He) as Hm1. specialize (IH ltac:(lia)).
      pose proof (srv_mono e a t He ltac:(lia)) as Hm.
      pose proof (narr_mono e (S a) (S t) ltac:(lia)) as Hn.
      slot t.
      + rewrite Hsrv, Erdy, Epp. lia.
      + rewrite Hsrv, Erdy, Epp. lia.
      + destruct Hknd as [(Htm & Hpp & Erdy & _)|(Hpl & Hnt & Hin & Hmin & Erdy & Hpp)].
        * rewrite (Hsrv e He), Erdy, Hpp. destruct (Nat.eqb_spec e c0) as [->|_]; [congruence|]. lia.
        * rewrite (Hsrv e He), Erdy, mem_filter_ne, Hpp. unfold rdy0 in *.
          destruct (ready (st t)) as [|x l] eqn:Erd0.
          -- assert (Hin' : In e (pollset (pend t))) by (apply in_pollset_iff; repeat split; try assumption; lia).
             change (mem e []) with 0 in IH.
             destruct (Nat.eqb e c0); [lia|]. rewrite (mem_in _ _ Hin'). lia.
          -- destruct (Nat.eqb_spec e c0) as [->|_]; [|lia]. rewrite (mem_in _ _ Hin) in IH. lia.
      + specialize (Hnp e He). lia.
  Qed.

  (* a polled callback of lower priority than e is not started while e sits in the ready set *)
  Lemma lower_priority_waits : forall e cb a d, e < n -> cb < n ->
    is_timer (cbd e) = false -> is_timer (cbd cb) = false -> prio (cbd e) < prio (cbd cb) ->
    In e (ready (st (a + d))) -> srv cb (a + d) - done cb a <= supplied ppb a d.
  Proof.
    intros e cb a d He Hcb Hpe Hpc Hlt. induction d as [|d IH]; intros Hin.
    - rewrite Nat.add_0_r in *. cbn [supplied]. unfold done. pose proof (runs_cb_le_srv cb a) as Hle.
      replace (srv cb a - (srv cb a - runs_cb cb a)) with (runs_cb cb a) by lia.
      unfold runs_cb in *. pose proof (inv_run a (inv_all a)) as Hr.
      destruct (running (st a)) as [[[c' r] a']|]; [|lia].
      destruct (Nat.eqb_spec c' cb) as [->|_]; [|lia].
      destruct Hr as (_ & _ & _ & _ & _ & Hr). destruct (Hr Hpc) as (_ & Hr2). specialize (Hr2 e Hin). lia.
    - replace (a + S d) with (S (a + d)) in * by lia. cbn [supplied]. set (t := a + d) in *.
      slot t.
      + rewrite Erdy in Hin. rewrite Hsrv. specialize (IH Hin). lia.
      + rewrite Erdy in Hin. rewrite Hsrv. specialize (IH Hin). lia.
      + destruct Hknd as [(Htm & Hpp & Erdy & _)|(Hpl & Hnt & Hin0 & Hmin & Erdy & Hpp)].
        * rewrite Erdy in Hin. rewrite (Hsrv cb Hcb). destruct (Nat.eqb_spec cb c0) as [->|_]; [congruence|].
          specialize (IH Hin). lia.
        * rewrite Erdy in Hin. apply filter_In in Hin. destruct Hin as (Hin & _).
          specialize (Hmin e Hin). rewrite (Hsrv cb Hcb).
          destruct (Nat.eqb_spec cb c0) as [->|_]; [lia|]. rewrite Hpp. unfold rdy0 in *.
          destruct (ready (st t)) as [|x l] eqn:Erd0.
          -- pose proof (once_per_window a cb d Hcb Hpc) as H2. fold t in H2. lia.
          -- specialize (IH Hin). lia.
      + rewrite Erdy in Hin. destruct Hin.
  Qed.

  (* timers first: while an instance of the timer e is pending no polled callback is started *)
  Lemma timer_blocks_polled : forall e k a d cb, e < n -> is_timer (cbd e) = true -> k < narr e (S a) ->
    srv e (a + d) <= k -> cb < n -> is_timer (cbd cb) = false -> srv cb (a + d) = srv cb a.
  Proof.
    intros e k a d cb He Htm Hk Hs Hcb Hpol. induction d as [|d IH].
    - rewrite Nat.add_0_r. reflexivity.
    - replace (a + S d) with (S (a + d)) in * by lia. set (t := a + d) in *.
      pose proof (srv_mono1 t e He) as Hm1. specialize (IH ltac:(lia)).
      pose proof (narr_mono e (S a) (S t) ltac:(lia)) as Hn.
      slot t; try (rewrite Hsrv; exact IH).
      rewrite (Hsrv cb Hcb). destruct Hknd as [(Htm0 & _)|(Hpl & Hnt & _)].
      + destruct (Nat.eqb_spec cb c0) as [->|_]; [congruence|exact IH].
      + specialize (Hnt e He Htm). lia.
  Qed.

  (* ---- (b) work conservation and the workload executed in a window ---- *)
  Variable C : nat -> nat.
  Hypothesis HC : forall c k, c < n -> cost_of c k <= C c.

  Lemma busy_accounting : forall e k a d, e < n -> k < narr e (S a) -> srv e (a + d) <= k ->
    supplied sigma a d + rem (a + d) <= sumn n (fun c => C c * (srv c (a + d) - done c a)).
  Proof.
    intros e k a d He Hk. induction d as [|d IH]; intros Hs.
    - rewrite Nat.add_0_r. cbn [supplied]. unfold rem. pose proof (inv_run a (inv_all a)) as Hr.
      destruct (running (st a)) as [[[c r] a']|] eqn:Er; [|lia].
      destruct Hr as (Hc & _ & Hr & Hs1 & _).
      etransitivity; [|apply (sumn_term_le n _ c Hc)]. cbn beta.
      unfold done, runs_cb. rewrite Er, Nat.eqb_refl. replace (srv c a - (srv c a - 1)) with 1 by lia.
      specialize (HC c (srv c a - 1) Hc). lia.
    - replace (a + S d) with (S (a + d)) in * by lia. cbn [supplied]. set (t := a + d) in *.
      pose proof (srv_mono1 t e He) as Hm1. specialize (IH ltac:(lia)).
      pose proof (narr_mono e (S a) (S t) ltac:(lia)) as Hn.
      unfold rem in *. pose proof (inv_run t (inv_all t)) as Hr.
      slot t.
      + rewrite Es, Erun. rewrite (sumn_ext n _ (fun c => C c * (srv c t - done c a))); [lia|].
        intros i _. rewrite Hsrv. reflexivity.
      + rewrite Es, Erun. rewrite Er in IH, Hr. destruct Hr as (_ & Hr1 & _).
        rewrite (sumn_ext n _ (fun c => C c * (srv c t - done c a))) by (intros i _; rewrite Hsrv; reflexivity).
        destruct (Nat.leb_spec r0 1); lia.
      + rewrite Es, Erun. rewrite Er in IH.
        rewrite (sumn_bump n (fun c => C c * (srv c t - done c a)) _ c0 (C c0) Hc0).
        * specialize (HC c0 (srv c0 t) Hc0). pose proof (Hcost1 c0 (srv c0 t) Hc0).
          destruct (Nat.leb_spec (cost_of c0 (srv c0 t)) 1); cbv iota; lia.
        * intros i Hi. rewrite (Hsrv i Hi). destruct (Nat.eqb_spec i c0) as [->|_]; [|lia].
          pose proof (done_le_srv c0 a). pose proof (srv_mono c0 a t Hc0 ltac:(lia)).
          replace (S (srv c0 t) - done c0 a) with (S (srv c0 t - done c0 a)) by lia. lia.
      + specialize (Hnp e He). lia.
  Qed.

  (* ---- (c) non-preemption: a started instance occupies every supplied slot until it completes ---- *)
  Lemma runs_to_completion : forall e s0 d, start s0 = Some e ->
    cost_of e (srv e s0) <= supplied sigma s0 (S d) -> srv e s0 + 1 <= done e (s0 + S d).
  Proof.
    intros e s0 d Hst.
    assert (He : e < n).
    { slot s0; rewrite Est in Hst; try discriminate. injection Hst as <-. exact Hc0. }
    assert (Hinv : forall d, srv e s0 + 1 <= done e (s0 + S d) \/
              exists r a, running (st (s0 + S d)) = Some (e, r, a) /\ srv e (s0 + S d) = srv e s0 + 1 /\
                          r + supplied sigma s0 (S d) = cost_of e (srv e s0)).
    { clear d. induction d as [|d IH].
      - replace (s0 + 1) with (S s0) by lia. cbn [supplied]. rewrite Nat.add_0_r.
        slot s0; rewrite Est in Hst; try discriminate. injection Hst as ->.
        rewrite Es. unfold done, runs_cb. rewrite Erun, (Hsrv e He), Nat.eqb_refl.
        destruct (Nat.leb_spec (cost_of e (srv e s0)) 1) as [Hw|Hw]; [left; lia|].
        right. eexists _, _. split; [reflexivity|]. split; lia.
      - replace (s0 + S (S d)) with (S (s0 + S d)) by lia. set (t := s0 + S d) in *.
        destruct IH as [IH|(r & a' & Er' & Hs & Hsum)].
        + left. pose proof (done_mono1 t e He). lia.
        + change (supplied sigma s0 (S (S d))) with (supplied sigma s0 (S d) + (if sigma (s0 + S d) then 1 else 0)).
          fold t. pose proof (inv_run t (inv_all t)) as Hr. rewrite Er' in Hr. destruct Hr as (_ & Hr1 & _).
          slot t; try congruence.
          * right. exists r, a'. rewrite Erun, Hsrv, Es. split; [exact Er'|]. split; lia.
          * rewrite Er' in Er. injection Er as <- <- <-. rewrite Es.
            destruct (Nat.leb_spec r 1) as [Hw|Hw].
            -- left. unfold done, runs_cb. rewrite Erun, Hsrv. lia.
            -- right. exists (r - 1), a'. rewrite Erun, Hsrv. split; [reflexivity|]. split; lia. }
    intros Hsup. destruct (Hinv d) as [H|(r & a' & Er' & Hs & Hsum)]; [exact H|].
    exfalso. pose proof (inv_run (s0 + S d) (inv_all _)) as Hr. rewrite Er' in Hr. destruct Hr as (_ & Hr1 & _). lia.
  Qed.

  (* ---- (d) the analysis, in nat, and the induction over time ---- *)
  Variable kd : nat -> kind.
  Variable R : nat -> nat.
  Variable nab : nat -> nat -> nat.
  Variable sbfn : nat -> nat.

  Hypothesis Hkd_timer : forall c, c < n -> (is_timer (cbd c) = true <-> kd c = KTimer).
  Hypothesis Hprio : forall i j p q, i < n -> j < n -> i <> j -> kd i = KP p -> kd j = KP q -> (q <= p)%N ->
    prio (cbd j) < prio (cbd i).
  Hypothesis Harr : forall c t d, c < n -> narr c (t + d) - narr c t <= nab c d.
  Hypothesis Hsbf : forall t d, sbfn d <= supplied sigma t d.

  Definition capn (self interfered : kind) (arrived base : nat) : nat :=
    match self with
    | KTimer | KES => arrived
    | KPU => Nat.min arrived (base + 1)
    | KP p =>
        match interfered with
        | KP q => Nat.min arrived (base + (if (p <? q)%N then 1 else 0))
        | _ => Nat.min arrived (base + 1)
        end
    end.

  Definition rhs (e s : nat) : nat :=
    1 + sumn n (fun c => if Nat.eqb c e then 0
                         else C c * capn (kd c) (kd e) (nab c (s + R c - 1)) (nab e (R e)))
      + C e * (nab e (s + R e - 1) - 1).

  Hypothesis Hfix : forall e, e < n ->
    exists Sx, 1 <= Sx /\ rhs e Sx <= sbfn Sx /\ sbfn Sx - 1 + C e <= sbfn (R e).

  Lemma C_pos : forall c, c < n -> 1 <= C c.
  Proof. intros c Hc. pose proof (Hcost1 c 0 Hc). pose proof (HC c 0 Hc). lia. Qed.

  Lemma R_pos : forall e, e < n -> 1 <= R e.
  Proof.
    intros e He. destruct (Hfix e He) as (Sx & HS & H1 & H2). pose proof (C_pos e He).
    assert (1 <= rhs e Sx) by (unfold rhs; rewrite <- Nat.add_assoc; apply Nat.le_add_r).
    destruct (R e) as [|r]; [|lia]. pose proof (Hsbf 0 0) as Hz. cbn [supplied] in Hz. lia.
  Qed.

  (* every instance whose bound expires by T has completed within its bound *)
  Definition claim (T : nat) : Prop :=
    forall c k a, c < n -> arrives c k a -> a + R c <= T -> k + 1 <= done c (a + R c).

  Section Window.
    Variables (T e k a : nat).
    Hypothesis Hclaim : claim T.
    Hypothesis HaT : a <= T.
    Hypothesis He : e < n.
    Hypothesis Harrives : arrives e k a.

    (* carry-in: instances that arrived R_c or more before a are complete at a *)
    Lemma carry_in : forall c, c < n -> narr c (a + 1 - R c) <= done c a.
    Proof.
      intros c Hc. set (m := narr c (a + 1 - R c)). destruct m as [|k'] eqn:Em; [lia|].
      assert (Hk' : k' < narr c (a + 1 - R c)) by (fold m; lia).
      pose proof (nth_arrives c _ k' Hk') as Ha'. set (a' := nth k' (arrs_upto c (a + 1 - R c)) 0) in *.
      assert (Hlt : a' < a + 1 - R c).
      { destruct (Nat.lt_ge_cases a' (a + 1 - R c)) as [H|H]; [exact H|].
        destruct Ha' as (H1 & _). pose proof (narr_mono c _ _ H). lia. }
      pose proof (Hclaim c k' a' Hc Ha' ltac:(lia)) as Hd.
      pose proof (done_mono c (a' + R c) a Hc ltac:(lia)). lia.
    Qed.

    (* the instances of c that execute in [a, a + d): X c d *)
    Notation X c d := (srv c (a + d) - done c a).

    Lemma X_arrived : forall c d Sx, c < n -> d <= Sx -> X c d <= nab c (Sx + R c - 1).
    Proof.
      intros c d Sx Hc Hd. pose proof (carry_in c Hc) as H1. pose proof (srv_le_narr c (a + d) Hc) as H2.
      pose proof (Harr c (a + 1 - R c) (Sx + R c - 1) Hc) as H3.
      pose proof (narr_mono c (a + d) (a + 1 - R c + (Sx + R c - 1)) ltac:(lia)). lia.
    Qed.

    Lemma npp_bound : k + 1 - done e a <= nab e (R e).
    Proof.
      pose proof (carry_in e He) as H1. destruct Harrives as (_ & H2).
      pose proof (Harr e (a + 1 - R e) (R e) He) as H3.
      pose proof (narr_mono e (S a) (a + 1 - R e + R e) ltac:(lia)). lia.
    Qed.

    Lemma X_self : forall d Sx, d <= Sx -> 1 <= Sx -> srv e (a + d) <= k -> X e d <= nab e (Sx + R e - 1) - 1.
    Proof.
      intros d Sx Hd HS Hs. pose proof (carry_in e He) as H1. destruct Harrives as (_ & H2).
      pose proof (Harr e (a + 1 - R e) (Sx + R e - 1) He) as H3.
      pose proof (narr_mono e (S a) (a + 1 - R e + (Sx + R e - 1)) ltac:(lia)). lia.
    Qed.

    Lemma polled_cap_general : forall cb d, cb < n -> is_timer (cbd cb) = false -> srv e (a + d) <= k ->
      X cb d <= nab e (R e) + 1.
    Proof.
      intros cb d Hcb Hpol Hs. pose proof npp_bound as Hnpp. destruct Harrives as (_ & Hk).
      destruct (is_timer (cbd e)) eqn:Ete.
      - rewrite (timer_blocks_polled e k a d cb He Ete Hk Hs Hcb Hpol).
        unfold done. pose proof (runs_cb_le_srv cb a). unfold runs_cb in *.
        destruct (running (st a)) as [[[c' r'] a']|]; [destruct (Nat.eqb c' cb)|]; lia.
      - pose proof (once_per_window a cb d Hcb Hpol) as H1.
        pose proof (served_within_window e k a d He Ete Hk Hs) as H2.
        pose proof (mem_le1 e (ready (st (a + d)))). pose proof (done_le_srv e a).
        pose proof (srv_mono e a (a + d) He ltac:(lia)). lia.
    Qed.

    Lemma polled_cap_lower : forall cb d, cb < n -> is_timer (cbd cb) = false -> is_timer (cbd e) = false ->
      prio (cbd e) < prio (cbd cb) -> srv e (a + d) <= k -> X cb d <= nab e (R e).
    Proof.
      intros cb d Hcb Hpol Hpe Hlt Hs. pose proof npp_bound as Hnpp. destruct Harrives as (_ & Hk).
      pose proof (served_within_window e k a d He Hpe Hk Hs) as H2.
      pose proof (done_le_srv e a). pose proof (srv_mono e a (a + d) He ltac:(lia)).
      destruct (in_dec Nat.eq_dec e (ready (st (a + d)))) as [Hin|Hnin].
      - pose proof (lower_priority_waits e cb a d He Hcb Hpe Hpol Hlt Hin) as H1.
        pose proof (mem_le1 e (ready (st (a + d)))). lia.
      - rewrite (mem_notin _ _ Hnin) in H2. pose proof (once_per_window a cb d Hcb Hpol) as H1. lia.
    Qed.

    Lemma X_capped : forall c d Sx, c < n -> c <> e -> d <= Sx -> srv e (a + d) <= k ->
      X c d <= capn (kd c) (kd e) (nab c (Sx + R c - 1)) (nab e (R e)).
    Proof.
      intros c d Sx Hc Hne Hd Hs. pose proof (X_arrived c d Sx Hc Hd) as H1.
      assert (Hpolc : forall p, kd c = KPU \/ kd c = KP p -> is_timer (cbd c) = false).
      { intros p Hp. destruct (is_timer (cbd c)) eqn:E; [|reflexivity]. apply Hkd_timer in E; [|exact Hc].
        destruct Hp as [Hp|Hp]; congruence. }
      unfold capn. destruct (kd c) as [| | |p] eqn:Ekc; try exact H1.
      - pose proof (polled_cap_general c d Hc (Hpolc 0%N (or_introl eq_refl)) Hs). lia.
      - pose proof (polled_cap_general c d Hc (Hpolc p (or_intror eq_refl)) Hs) as H2.
        destruct (kd e) as [| | |q] eqn:Eke; try lia.
        destruct (N.ltb_spec p q) as [Hpq|Hpq]; [lia|].
        assert (Hpe : is_timer (cbd e) = false).
        { destruct (is_timer (cbd e)) eqn:E; [|reflexivity]. apply Hkd_timer in E; [|exact He]. congruence. }
        pose proof (Hprio c e p q Hc He Hne Ekc Eke Hpq) as Hlt.
        pose proof (polled_cap_lower c d Hc (Hpolc p (or_intror eq_refl)) Hpe Hlt Hs). lia.
    Qed.

    Lemma window_bound : forall Sx d, d <= Sx -> 1 <= Sx -> srv e (a + d) <= k ->
      supplied sigma a d + rem (a + d) + 1 <= rhs e Sx.
    Proof.
      intros Sx d Hd HS Hs. destruct Harrives as (_ & Hk).
      pose proof (busy_accounting e k a d He Hk Hs) as Hb.
      rewrite (sumn_bump n (fun c => if Nat.eqb c e then 0 else C c * X c d) _ e (C e * X e d) He) in Hb.
      2:{ intros i Hi. destruct (Nat.eqb_spec i e) as [->|_]; lia. }
      unfold rhs.
      assert (H1 : sumn n (fun c => if Nat.eqb c e then 0 else C c * X c d) <=
                   sumn n (fun c => if Nat.eqb c e then 0
                                    else C c * capn (kd c) (kd e) (nab c (Sx + R c - 1)) (nab e (R e)))).
      { apply sumn_le. intros i Hi. destruct (Nat.eqb_spec i e) as [_|Hne]; [lia|].
        apply Nat.mul_le_mono_l. apply X_capped; assumption. }
      pose proof (Nat.mul_le_mono_l _ _ (C e) (X_self d Sx Hd HS Hs)). lia.
    Qed.
  End Window.

  Lemma claim_step : forall T, claim T -> claim (S T).
  Proof.
    intros T Hcl e k a He Har HT.
    destruct (Nat.le_gt_cases (a + R e) T) as [Hle|Hgt]; [apply Hcl; assumption|].
    pose proof (R_pos e He) as HR. assert (HaT : a <= T) by lia.
    destruct (Hfix e He) as (Sst & HS1 & Hrhs & HRe).
    pose proof (window_bound T e k a Hcl HaT He Har Sst) as Hwb.
    (* phase 1: the instance is started before a + S* *)
    assert (Hstarted : k < srv e (a + Sst)).
    { destruct (Nat.lt_ge_cases k (srv e (a + Sst))) as [H|H]; [exact H|]. exfalso.
      specialize (Hwb Sst (le_n _) HS1 H). pose proof (Hsbf a Sst). lia. }
    assert (Hsa : srv e a <= k).
    { pose proof (srv_le_narr e a He). destruct Har as (H1 & _). lia. }
    destruct (crossing (srv e) a (a + Sst) k ltac:(lia) Hsa Hstarted) as (s0 & Hs0 & Hb & Ha).
    assert (Hst : start s0 = Some e /\ srv e s0 = k).
    { rewrite (srv_S s0 e He) in Ha. destruct (start s0) as [c'|]; [|lia].
      destruct (Nat.eqb_spec e c') as [E|_]; [subst c'|lia]. split; [reflexivity|lia]. }
    destruct Hst as (Hst & Hsk).
    set (d0 := s0 - a). replace s0 with (a + d0) in Hb by (unfold d0; lia).
    specialize (Hwb d0 ltac:(unfold d0; lia) HS1 Hb).
    (* phase 2: it completes once the supply has delivered its cost *)
    pose proof (Hsbf a (R e)) as Hsup. pose proof (HC e k He) as Hw.
    assert (Hd0 : d0 < R e).
    { destruct (Nat.lt_ge_cases d0 (R e)) as [H|H]; [exact H|].
      pose proof (supplied_mono sigma a (R e) d0 H). pose proof (C_pos e He). lia. }
    pose proof (supplied_split sigma a d0 (R e - d0)) as Hsplit.
    replace (d0 + (R e - d0)) with (R e) in Hsplit by lia.
    replace (a + d0) with s0 in Hsplit by (unfold d0; lia).
    pose proof (runs_to_completion e s0 (R e - d0 - 1) Hst) as Hrc.
    replace (S (R e - d0 - 1)) with (R e - d0) in Hrc by lia.
    rewrite Hsk in Hrc. replace (s0 + (R e - d0)) with (a + R e) in Hrc by (unfold d0; lia).
    apply Hrc. lia.
  Qed.

  Theorem claim_all : forall T, claim T.
  Proof.
    induction T as [|T IH]; [|apply claim_step; exact IH].
    intros c k a Hc _ H. pose proof (R_pos c Hc). lia.
  Qed.

  (* ---- (e) the list of completed instances ---- *)
  Lemma finished_origin : forall T c a f, In (c, a, f) (finished (st T)) ->
    exists t k, f = S t /\ t < T /\ c < n /\ arrives c k a /\ done c t <= k.
  Proof.
    induction T as [|T IH]; intros c a f Hin.
    - unfold st, run in Hin. cbn in Hin. destruct Hin.
    - assert (Hold : In (c, a, f) (finished (st T)) ->
                     exists t k, f = S t /\ t < S T /\ c < n /\ arrives c k a /\ done c t <= k).
      { intros H. destruct (IH c a f H) as (t & k & H1 & H2 & H3). exists t, k. split; [exact H1|]. split; [lia|exact H3]. }
      pose proof (inv_run T (inv_all T)) as Hr.
      slot T; rewrite Efin in Hin.
      + apply Hold; exact Hin.
      + destruct (Nat.leb r0 1); [|apply Hold; exact Hin].
        apply in_app_or in Hin. destruct Hin as [Hin|[Hin|[]]]; [apply Hold; exact Hin|].
        injection Hin as <- <- <-. rewrite Er in Hr. destruct Hr as (Hc & _ & _ & Hs1 & Ha & _).
        pose proof (srv_le_narr c0 T Hc) as Hle.
        exists T, (srv c0 T - 1). split; [reflexivity|]. split; [lia|]. split; [exact Hc|]. split.
        * rewrite Ha. apply nth_arrives. lia.
        * unfold done, runs_cb. rewrite Er, Nat.eqb_refl. lia.
      + destruct (Nat.leb (cost_of c0 (srv c0 T)) 1); [|apply Hold; exact Hin].
        apply in_app_or in Hin. destruct Hin as [Hin|[Hin|[]]]; [apply Hold; exact Hin|].
        injection Hin as <- <- <-.
        exists T, (srv c0 T). split; [reflexivity|]. split; [lia|]. split; [exact Hc0|]. split.
        * apply nth_arrives. exact Hp0.
        * apply done_le_srv.
      + apply Hold; exact Hin.
  Qed.

  Theorem exec_bound : forall H c a f, In (c, a, f) (finished (st H)) -> f - a <= R c.
  Proof.
    intros H c a f Hin. destruct (finished_origin H c a f Hin) as (t & k & -> & Ht & Hc & Har & Hd).
    pose proof (claim_all (a + R c) c k a Hc Har (le_n _)) as Hcl.
    destruct (Nat.le_gt_cases (a + R c) t) as [Hle|Hgt]; [|lia].
    pose proof (done_mono c (a + R c) t Hc Hle). lia.
  Qed.

  (* ---- (f) the executor invariants as named statements ---- *)
  (* a running instance keeps the processor: nothing is started, it advances in exactly the supplied slots *)
  Theorem executor_non_preemptive : forall t c r a, running (st t) = Some (c, r, a) ->
    start t = None /\
    (sigma t = false -> running (st (S t)) = Some (c, r, a)) /\
    (sigma t = true -> running (st (S t)) = if r <=? 1 then None else Some (c, r - 1, a)).
  Proof.
    intros t c r a Hr. slot t; try congruence.
    - split; [exact Est|]. split; [intros _; congruence|congruence].
    - rewrite Hr in Er. injection Er as <- <- <-. split; [exact Est|]. split; [congruence|intros _; exact Erun].
  Qed.

  (* a supplied slot is never left idle while an instance is pending *)
  Theorem executor_work_conserving : forall t c, c < n -> srv c t < narr c (S t) -> sigma t = true ->
    running (st t) <> None \/ start t <> None.
  Proof.
    intros t c Hc Hp Hs. slot t; try congruence.
    - left. congruence.
    - right. congruence.
    - specialize (Hnp c Hc). lia.
  Qed.

  (* FIFO per callback: the j-th instance of a callback to be started is the j-th one that arrived *)
  Theorem executor_fifo_per_callback : forall t c r a, running (st t) = Some (c, r, a) ->
    arrives c (srv c t - 1) a.
  Proof.
    intros t c r a Hr. pose proof (inv_run t (inv_all t)) as H. rewrite Hr in H.
    destruct H as (Hc & _ & _ & Hs & Ha & _). rewrite Ha. apply nth_arrives.
    pose proof (srv_le_narr c t Hc). lia.
  Qed.

  (* timers first: a polled callback is started only when no timer has a pending instance *)
  Theorem executor_timers_first : forall t c, start t = Some c -> is_timer (cbd c) = false ->
    forall c', c' < n -> is_timer (cbd c') = true -> narr c' (S t) <= srv c' t.
  Proof.
    intros t c Hst Hpol c' Hc' Htm. slot t; rewrite Est in Hst; try discriminate.
    injection Hst as ->. destruct Hknd as [(Htm0 & _)|(_ & Hnt & _)]; [congruence|]. apply Hnt; assumption.
  Qed.

  Theorem executor_once_per_polling_window : forall a cb d, cb < n -> is_timer (cbd cb) = false ->
    (srv cb (a + d) - done cb a) + mem cb (ready (st (a + d))) <= supplied ppb a d + 1.
  Proof. exact once_per_window. Qed.

  Theorem executor_served_within_window : forall e k a d, e < n -> is_timer (cbd e) = false -> k < narr e (S a) ->
    srv e (a + d) <= k ->
    supplied ppb a d <= (srv e (a + d) - srv e a) + mem e (ready (st (a + d))).
  Proof. exact served_within_window. Qed.
End Exec.
Print Assumptions exec_bound.
Print Assumptions executor_non_preemptive.
Print Assumptions executor_work_conserving.
Print Assumptions executor_fifo_per_callback.
Print Assumptions executor_timers_first.
Print Assumptions executor_once_per_polling_window.
Print Assumptions executor_served_within_window.

(* ------------------------------------------------------------------------------------------ *)
(* Part 2: from the model of the crate to the hypotheses of Part 1                             *)
(* ------------------------------------------------------------------------------------------ *)
Definition wlT := list (N * AB * CM * kind).
Definition wl_dflt : N * AB * CM * kind := (0%N, Never, Scalar 0%N, KTimer).
Definition wl_R (wl : wlT) (c : nat) : N := let '(R, _, _, _) := nth c wl wl_dflt in R.
Definition wl_ab (wl : wlT) (c : nat) : AB := let '(_, ab, _, _) := nth c wl wl_dflt in ab.
Definition wl_cm (wl : wlT) (c : nat) : CM := let '(_, _, cm, _) := nth c wl wl_dflt in cm.
Definition wl_kind (wl : wlT) (c : nat) : kind := let '(_, _, _, k) := nth c wl wl_dflt in k.
Definition wl_C (wl : wlT) (c : nat) : N := match wl_cm wl c with Scalar C => C | _ => 0%N end.

(* the workloads considered: well-formed arrival models, scalar WCETs, timers and polled callbacks only *)
Definition wl_ok (wl : wlT) : Prop :=
  forall c, c < length wl ->
    wf_ab (wl_ab wl c) /\ wl_cm wl c = Scalar (wl_C wl c) /\ wl_kind wl c <> KES.

(* the executor's view of the workload: which callbacks are timers, and a priority order (smaller number =
   higher priority) that is arbitrary except that among callbacks with KNOWN priorities it is the strict order
   of those priorities (in particular two distinct callbacks do not share a known priority) *)
Definition cbs_match (wl : wlT) (cbs : list cbdef) : Prop :=
  length cbs = length wl /\
  (forall c, c < length wl -> (is_timer (cb cbs c) = true <-> wl_kind wl c = KTimer)) /\
  (forall i j p q, i < length wl -> j < length wl -> i <> j ->
     wl_kind wl i = KP p -> wl_kind wl j = KP q -> (q <= p)%N -> prio (cb cbs j) < prio (cb cbs i)).

(* arr t lists the callbacks released in slot t; the release times of every callback form an event sequence
   that is admissible for its arrival model *)
Definition arrivals_ok (wl : wlT) (arr : nat -> list nat) : Prop :=
  forall c, c < length wl -> exists es, admissible (wl_ab wl c) es /\
    forall t, count_occ Nat.eq_dec (arr t) c = count_occ Nat.eq_dec es t.

Definition costs_ok (wl : wlT) (cost_of : nat -> nat -> nat) : Prop :=
  forall c k, c < length wl -> 1 <= cost_of c k <= N.to_nat (wl_C wl c).

Lemma count_S : forall es t d, count es t (S d) = count es t d + count_occ Nat.eq_dec es (t + d).
Proof.
  intros es t d. induction es as [|x es IH]; [reflexivity|].
  rewrite !count_cons, IH. unfold in_window.
  destruct (Nat.eq_dec x (t + d)) as [->|Hne].
  - rewrite count_occ_cons_eq by reflexivity.
    destruct (Nat.leb_spec t (t + d)); destruct (Nat.ltb_spec (t + d) (t + S d)); destruct (Nat.ltb_spec (t + d) (t + d));
      cbn [andb]; lia.
  - rewrite count_occ_cons_neq by exact Hne.
    destruct (Nat.leb_spec t x); destruct (Nat.ltb_spec x (t + S d)); destruct (Nat.ltb_spec x (t + d));
      cbn [andb]; lia.
Qed.

Lemma narr_count : forall arr c es, (forall u, count_occ Nat.eq_dec (arr u) c = count_occ Nat.eq_dec es u) ->
  forall t d, narr arr c (t + d) = narr arr c t + count es t d.
Proof.
  intros arr c es H t d. induction d as [|d IH].
  - rewrite Nat.add_0_r, count_zero. lia.
  - replace (t + S d) with (S (t + d)) by lia. rewrite narr_S, IH, count_S, H. lia.
Qed.

Lemma combine_app_eq : forall {A B} (l1 l1' : list A) (l2 l2' : list B), length l1 = length l2 ->
  combine (l1 ++ l1') (l2 ++ l2') = combine l1 l2 ++ combine l1' l2'.
Proof.
  intros A B l1. induction l1 as [|x l1 IH]; intros l1' l2 l2' H; destruct l2 as [|y l2]; try discriminate; cbn.
  - reflexivity.
  - f_equal. apply IH. cbn in H. lia.
Qed.


Lemma others_sum : forall (l : list callback) e (g : callback -> N) dflt,
  N.to_nat (sumN (map g (map snd (filter (fun ic => negb (Nat.eqb (fst ic) e)) (combine (seq 0 (length l)) l))))) =
  sumn (length l) (fun c => if Nat.eqb c e then 0 else N.to_nat (g (nth c l dflt))).
Proof.
  intros l e g dflt. induction l as [|x l IH] using rev_ind; [reflexivity|].
  rewrite app_length. cbn [length]. rewrite Nat.add_1_r. rewrite seq_S. cbn [Nat.add].
  rewrite combine_app_eq by (rewrite seq_length; reflexivity).
  rewrite filter_app, !map_app, sumN_app, Nnat.N2Nat.inj_add, IH. cbn [sumn].
  f_equal.
  - apply sumn_ext. intros i Hi. rewrite app_nth1 by exact Hi. reflexivity.
  - rewrite app_nth2 by lia. rewrite Nat.sub_diag. cbn [nth combine filter fst].
    destruct (Nat.eqb (length l) e); cbn [negb map snd sumN fold_right]; lia.
Qed.

Lemma capped_nat : forall k k' a b, N.to_nat (capped k k' a b) = capn k k' (N.to_nat a) (N.to_nat b).
Proof.
  intros k k' a b. unfold capped, capn. destruct k as [| | |p]; try lia.
  destruct k' as [| | |q]; try lia. destruct (N.ltb p q); cbn [b2n]; lia.
Qed.

Lemma cb_at_wl : forall (wl : wlT) c, c < length wl ->
  cb_at (map cb_of wl) c =
  mkCb (wl_R wl c) (na (wl_ab wl c)) (steps_upto (wl_ab wl c)) (cost_of_jobs (wl_cm wl c)) (wl_kind wl c).
Proof.
  intros wl c Hc. unfold cb_at. rewrite (nth_indep _ _ (cb_of wl_dflt)) by (rewrite map_length; exact Hc).
  rewrite map_nth. unfold wl_R, wl_ab, wl_cm, wl_kind. destruct (nth c wl wl_dflt) as [[[R ab] cm] k]. reflexivity.
Qed.

Section Bridge.
  Variable wl : wlT.
  Variable cbs : list cbdef.
  Hypothesis Hlen : length cbs = length wl.
  Hypothesis Hok : wl_ok wl.

  Definition Cn (c : nat) : nat := N.to_nat (wl_C wl c).
  Definition Rn (c : nat) : nat := N.to_nat (wl_R wl c).
  Definition nabn (c d : nat) : nat := N.to_nat (na (wl_ab wl c) (N.of_nat d)).

  Lemma rr_rhs_nat : forall e s, e < length wl ->
    N.to_nat (rr_rhs (map cb_of wl) [e] s) = rhs cbs Cn (wl_kind wl) Rn nabn e (N.to_nat s).
  Proof.
    intros e s He. unfold rr_rhs, rhs. rewrite Hlen. rewrite !Nnat.N2Nat.inj_add. change (N.to_nat 1) with 1.
    assert (Ee : eoc (map cb_of wl) [e] = cb_at (map cb_of wl) e) by reflexivity.
    f_equal; [f_equal|].
    - unfold others, indexed. change (eoc_idx [e]) with e.
      rewrite (others_sum (map cb_of wl) e _ (mkCb 0 (fun _ => 0%N) (fun _ => []) (fun _ => 0%N) KTimer)).
      rewrite map_length. apply sumn_ext. intros c Hc. destruct (Nat.eqb c e); [reflexivity|].
      change (nth c (map cb_of wl) (mkCb 0 (fun _ => 0%N) (fun _ => []) (fun _ => 0%N) KTimer))
        with (cb_at (map cb_of wl) c).
      unfold rr_direct, max_pp. rewrite Ee. cbn [map sumN fold_right]. rewrite !cb_at_wl by assumption.
      cbn [cb_cost cb_kind cb_na cb_R].
      destruct (Hok c Hc) as (_ & Ecm & _). rewrite Ecm. cbn [cost_of_jobs].
      rewrite Nnat.N2Nat.inj_mul, capped_nat. unfold Cn, nabn, Rn. f_equal. f_equal.
      + f_equal. f_equal. lia.
      + rewrite N.add_0_r. rewrite Nnat.N2Nat.id. reflexivity.
    - unfold rr_self_instances. rewrite Ee. rewrite !cb_at_wl by assumption.
      cbn [cb_cost cb_kind cb_na cb_R].
      destruct (Hok e He) as (_ & Ecm & _). rewrite Ecm. cbn [cost_of_jobs].
      rewrite Nnat.N2Nat.inj_mul, Nnat.N2Nat.inj_sub. change (N.to_nat 1) with 1.
      unfold Cn, nabn, Rn. f_equal. f_equal. f_equal. f_equal. lia.
  Qed.
End Bridge.

Lemma wl_cb_mono : forall (wl : wlT), wl_ok wl ->
  forall cb, In cb (map cb_of wl) -> ExhFP.mono (cb_na cb) /\ ExhFP.mono (cb_cost cb).
Proof.
  intros wl Hok cb Hin. apply in_map_iff in Hin. destruct Hin as (x & <- & Hx).
  apply (In_nth _ _ wl_dflt) in Hx. destruct Hx as (c & Hc & Hx).
  destruct (Hok c Hc) as (Hwfab & Ecm & _). unfold wl_C, wl_ab, wl_cm in *. rewrite Hx in *.
  destruct x as [[[R ab] cm] k]. cbn [cb_of cb_na cb_cost]. split.
  - intros a b Hab. apply na_mono; assumption.
  - rewrite Ecm. intros a b Hab. cbn [cost_of_jobs]. apply N.mul_le_mono_l. exact Hab.
Qed.

Lemma rr_fixpoint : forall dbg sb (wl : wlT) limit e, wf_sb sb -> wl_ok wl -> e < length wl ->
  e_rr dbg sb wl [e] limit = ROk (wl_R wl e) ->
  exists Sx : N, (1 <= Sx)%N /\ (rr_rhs (map cb_of wl) [e] Sx <= sbf sb Sx)%N /\
                 (sbf sb Sx - 1 + wl_C wl e <= sbf sb (wl_R wl e))%N.
Proof.
  intros dbg sb wl limit e Hwf Hok He Hrr.
  pose proof (sbf_wf_ok sb Hwf) as Hsok. pose proof (st_wf_exact sb Hwf) as Hinv.
  pose proof (wl_cb_mono wl Hok) as Hmono.
  assert (Hin : In (eoc (map cb_of wl) [e]) (map cb_of wl)).
  { unfold eoc, cb_at. apply nth_In. rewrite map_length. exact He. }
  destruct (Hmono _ Hin) as (Hna & Hcm).
  unfold e_rr, rr_subchain in Hrr.
  rewrite (search_least_sol (sbf sb) (Supply.st sb) Hsok Hinv dbg limit _ (rr_rhs_mono _ _ Hmono Hna Hcm)) in Hrr.
  destruct (least_sol (sbf sb) limit 0 (rr_rhs (map cb_of wl) [e])) as [Sx|] eqn:E; cbn [rbind] in Hrr; [|discriminate].
  apply least_sol_some in E. destruct E as (_ & _ & Hsol & _). unfold FixedPointProofs.sol in Hsol.
  rewrite N.add_0_l in Hsol. cbv zeta in Hrr.
  assert (Ee : eoc (map cb_of wl) [e] = cb_at (map cb_of wl) e) by reflexivity.
  rewrite Ee in Hrr. rewrite cb_at_wl in Hrr by exact He. cbn [cb_cost] in Hrr.
  destruct (Hok e He) as (_ & Ecm & _). rewrite Ecm in Hrr. cbn [cost_of_jobs] in Hrr.
  set (ni := rr_self_instances (map cb_of wl) [e] Sx) in *.
  destruct (N.ltb_spec (wl_C wl e * (ni + 1)) (wl_C wl e * ni)) as [Hlt|_]; [discriminate|].
  injection Hrr as Hrr.
  replace (wl_C wl e * (ni + 1) - wl_C wl e * ni)%N with (wl_C wl e) in Hrr by lia.
  assert (HS1 : (1 <= Sx)%N).
  { destruct (N.eq_dec Sx 0) as [->|Hne]; [|lia]. exfalso. destruct Hsok as (H0 & _).
    rewrite H0 in Hsol. unfold rr_rhs in Hsol. lia. }
  replace (N.max Sx 1) with Sx in Hsol by lia.
  exists Sx. split; [exact HS1|]. split; [exact Hsol|].
  rewrite <- Hrr. apply (Hinv _ _). lia.
Qed.

(* ------------------------------------------------------------------------------------------ *)
(* Part 3: the theorem                                                                         *)
(* ------------------------------------------------------------------------------------------ *)
Theorem rr_sound : forall dbg sb (wl : wlT) limit cbs cost_of arr sigma,
  wf_sb sb -> supply_admits sb sigma ->
  wl_ok wl -> cbs_match wl cbs -> arrivals_ok wl arr -> costs_ok wl cost_of ->
  (forall i, i < length wl -> e_rr dbg sb wl [i] limit = ROk (wl_R wl i)) ->
  forall H c a f, In (c, a, f) (finished (run cbs cost_of H arr sigma)) -> f - a <= N.to_nat (wl_R wl c).
Proof.
  intros dbg sb wl limit cbs cost_of arr sigma Hwf Hadm Hok (Hlen & Htm & Hpr) Harr Hcost Hfix H c a f Hin.
  apply (exec_bound cbs cost_of arr sigma) with (C := Cn wl) (kd := wl_kind wl) (R := Rn wl) (nab := nabn wl)
    (sbfn := fun d => N.to_nat (sbf sb (N.of_nat d))) (H := H).
  - intros c' k Hc. rewrite Hlen in Hc. apply (Hcost c' k Hc).
  - intros c' k Hc. rewrite Hlen in Hc. apply (Hcost c' k Hc).
  - intros c' Hc. rewrite Hlen in Hc. apply Htm. exact Hc.
  - intros i j p q Hi Hj. rewrite Hlen in Hi, Hj. apply Hpr; assumption.
  - intros c' t d Hc. rewrite Hlen in Hc. destruct (Harr c' Hc) as (es & Hes & Hcnt).
    rewrite (narr_count arr c' es Hcnt). unfold nabn.
    pose proof (na_bounds_admissible _ es (proj1 (Hok c' Hc)) Hes t d). lia.
  - intros t d. apply supply_admits_sbf; assumption.
  - intros e He. rewrite Hlen in He.
    destruct (rr_fixpoint dbg sb wl limit e Hwf Hok He (Hfix e He)) as (Sx & HS1 & Hrhs & HR).
    exists (N.to_nat Sx). split; [lia|]. rewrite <- (rr_rhs_nat wl cbs Hlen Hok e Sx He).
    rewrite Nnat.N2Nat.id. unfold Rn, Cn. rewrite Nnat.N2Nat.id. split; lia.
  - exact Hin.
Qed.
Print Assumptions rr_sound.

(* ------------------------------------------------------------------------------------------ *)
(* Part 4: non-vacuity, and why the priority order must be STRICT                              *)
(* ------------------------------------------------------------------------------------------ *)
(* Two polled callbacks on a dedicated processor:
     callback 0: sporadic, period 10, jitter 9, WCET 3      callback 1: sporadic, period 20, WCET 2.
   Releases: callback 0 at 9, 10, 20 (nominal 0, 10, 20; the first delayed by 9); callback 1 at 10.
   At 9 the ready set is refreshed to {0} and callback 0 runs in [9, 12); at 12 the next polling point admits
   {0, 1}.  If callback 0 precedes callback 1 in the executor's order, callback 1 runs in [15, 17): response 7. *)
Definition wit_arr (t : nat) : list nat :=
  match t with 9 => [0] | 10 => [0; 1] | 20 => [0] | _ => [] end.
Definition wit_cost (c k : nat) : nat := match c with 0 => 3 | _ => 2 end.
Definition wit_sigma : nat -> bool := fun _ => true.

Lemma wit_adm0 : admissible (Sporadic 10 9) [9; 10; 20].
Proof.
  change [9; 10; 20] with (zip_add [0; 10; 20] [9; 0; 0]). apply adm_sporadic.
  - cbn. lia.
  - reflexivity.
  - repeat constructor; cbn; lia.
Qed.
Lemma wit_adm1 : admissible (Sporadic 20 0) [10].
Proof.
  change [10] with (zip_add [10] [0]). apply adm_sporadic.
  - exact I.
  - reflexivity.
  - repeat constructor.
Qed.

Lemma wit_arrivals_ok : forall wl : wlT, length wl = 2 -> wl_ab wl 0 = Sporadic 10 9 -> wl_ab wl 1 = Sporadic 20 0 ->
  arrivals_ok wl wit_arr.
Proof.
  intros wl Hl H0 H1 c Hc. rewrite Hl in Hc. destruct c as [|[|c]]; [| |lia].
  - exists [9; 10; 20]. rewrite H0. split; [exact wit_adm0|].
    intros t. do 21 (destruct t as [|t]; [reflexivity|]). reflexivity.
  - exists [10]. rewrite H1. split; [exact wit_adm1|].
    intros t. do 21 (destruct t as [|t]; [reflexivity|]). reflexivity.
Qed.

(* (a) known priorities 4 < 5: the self-consistent bounds are 11 and 8; every hypothesis of [rr_sound] holds *)
Definition nv_wl : wlT := [(11%N, Sporadic 10 9, Scalar 3, KP 4); (8%N, Sporadic 20 0, Scalar 2, KP 5)].
Definition nv_cbs : list cbdef := [mkCbdef false 4; mkCbdef false 5].

Theorem rr_sound_nonvacuous :
  wf_sb Dedicated /\ supply_admits Dedicated wit_sigma /\ wl_ok nv_wl /\ cbs_match nv_wl nv_cbs /\
  arrivals_ok nv_wl wit_arr /\ costs_ok nv_wl wit_cost /\
  (forall dbg i, i < length nv_wl -> e_rr dbg Dedicated nv_wl [i] 1000 = ROk (wl_R nv_wl i)) /\
  In (1, 10, 17) (finished (run nv_cbs wit_cost 30 wit_arr wit_sigma)).
Proof.
  split; [exact I|]. split; [intros t; reflexivity|]. split.
  { intros c Hc. destruct c as [|[|c]]; [| |cbn in Hc; lia]; (split; [cbn; lia|]); (split; [reflexivity|discriminate]). }
  split.
  { split; [reflexivity|]. split.
    - intros c Hc. destruct c as [|[|c]]; [| |cbn in Hc; lia]; cbn; split; discriminate.
    - intros i j p q Hi Hj Hne Ei Ej Hqp.
      destruct i as [|[|i]]; [| |cbn in Hi; lia]; destruct j as [|[|j]]; try (cbn in Hj; lia); try congruence;
        cbn in Ei, Ej; injection Ei as <-; injection Ej as <-; cbn; lia. }
  split; [apply wit_arrivals_ok; reflexivity|]. split.
  { intros c k Hc. destruct c as [|[|c]]; [| |cbn in Hc; lia]; cbn; lia. }
  split.
  { intros dbg i Hi. destruct i as [|[|i]]; [| |cbn in Hi; lia]; destruct dbg; vm_compute; reflexivity. }
  vm_compute. tauto.
Qed.
Print Assumptions rr_sound_nonvacuous.

(* (b) the SAME known priority 5 for both callbacks.  The analysis then grants neither callback the "+1" of
   Def. 1 against the other, although one of them necessarily precedes the other in every polling window: the
   self-consistent bounds are 11 and 5, but callback 1 observes a response time of 7.  Every hypothesis of
   [rr_sound] holds except that the executor's order is only required to agree with the known priorities where
   these differ (p < q -> the callback with p precedes the one with q). *)
Definition cbs_match_weak (wl : wlT) (cbs : list cbdef) : Prop :=
  length cbs = length wl /\
  (forall c, c < length wl -> (is_timer (cb cbs c) = true <-> wl_kind wl c = KTimer)) /\
  (forall i j p q, i < length wl -> j < length wl ->
     wl_kind wl i = KP p -> wl_kind wl j = KP q -> (p < q)%N -> prio (cb cbs i) < prio (cb cbs j)).

Definition eq_wl : wlT := [(11%N, Sporadic 10 9, Scalar 3, KP 5); (5%N, Sporadic 20 0, Scalar 2, KP 5)].
Definition eq_cbs : list cbdef := [mkCbdef false 5; mkCbdef false 5].

Theorem rr_unsound_witness :
  wf_sb Dedicated /\ supply_admits Dedicated wit_sigma /\ wl_ok eq_wl /\ cbs_match_weak eq_wl eq_cbs /\
  arrivals_ok eq_wl wit_arr /\ costs_ok eq_wl wit_cost /\
  (forall dbg i, i < length eq_wl -> e_rr dbg Dedicated eq_wl [i] 1000 = ROk (wl_R eq_wl i)) /\
  exists c a f, In (c, a, f) (finished (run eq_cbs wit_cost 30 wit_arr wit_sigma)) /\
                N.to_nat (wl_R eq_wl c) < f - a.
Proof.
  split; [exact I|]. split; [intros t; reflexivity|]. split.
  { intros c Hc. destruct c as [|[|c]]; [| |cbn in Hc; lia]; (split; [cbn; lia|]); (split; [reflexivity|discriminate]). }
  split.
  { split; [reflexivity|]. split.
    - intros c Hc. destruct c as [|[|c]]; [| |cbn in Hc; lia]; cbn; split; discriminate.
    - intros i j p q Hi Hj Ei Ej Hpq.
      destruct i as [|[|i]]; [| |cbn in Hi; lia]; destruct j as [|[|j]]; try (cbn in Hj; lia);
        cbn in Ei, Ej; injection Ei as <-; injection Ej as <-; lia. }
  split; [apply wit_arrivals_ok; reflexivity|]. split.
  { intros c k Hc. destruct c as [|[|c]]; [| |cbn in Hc; lia]; cbn; lia. }
  split.
  { intros dbg i Hi. destruct i as [|[|i]]; [| |cbn in Hi; lia]; destruct dbg; vm_compute; reflexivity. }
  exists 1, 10, 17. split; [vm_compute; tauto|]. vm_compute. lia.
Qed.
Print Assumptions rr_unsound_witness.
