(* StepsProofs.v — property C11: steps_iter yields exactly the points where a bound increases.
   1. sorted lists: merge / kmerge / dedup / take_while / filter / map / flat_map / rangeN,
   2. sums of non-decreasing functions,
   3. Periodic and Sporadic,
   4. Curve (every wf_dmin vector, plateau-ended ones included),
   5. ExtrapolatingCurve,
   6. Propagated, sums: steps_upto_exact,
   7. request bounds: strictly increasing cost models, rb_steps_upto_exact, step_offsets_exact,
   8. corollaries, the regression theorem of the former plateau class and the refuted class ArrivalCurvePrefix. *)
From Coq Require Import List NArith Arith Lia Bool Sorting.Sorted.
From Coq Require Import ZifyBool.
From RTA.Model Require Import Base Arrival Wcet Demand WellFormed.
From RTA.Proofs Require Import FixedPointProofs ArrivalNaProofs WcetProofs.
Import ListNotations.
Local Open Scope N_scope.

(* l lists, in strictly increasing order, exactly the points of [1, h] where f increases *)
Definition steps_spec (f : N -> N) (l : list N) (h : N) : Prop :=
  StronglySorted N.lt l /\ forall d, In d l <-> (1 <= d /\ d <= h /\ f (d - 1) < f d).

Lemma steps_spec_ext : forall f g l h, (forall d, f d = g d) -> steps_spec f l h -> steps_spec g l h.
Proof.
  intros f g l h E [Hs Hi]. split; [exact Hs|]. intros d. rewrite <- !E. apply Hi.
Qed.

(* ------------------------------------------------------------------------------------------ *)
(* 1. sorted lists                                                                             *)
(* ------------------------------------------------------------------------------------------ *)
Lemma st_merge_nil_l : forall l2, merge [] l2 = l2.
Proof. destruct l2; reflexivity. Qed.

Lemma st_merge_nil_r : forall l1, merge l1 [] = l1.
Proof. destruct l1; reflexivity. Qed.

Lemma st_merge_cons : forall a1 l1 a2 l2,
  merge (a1 :: l1) (a2 :: l2) =
  if a1 <=? a2 then a1 :: merge l1 (a2 :: l2) else a2 :: merge (a1 :: l1) l2.
Proof. reflexivity. Qed.

Lemma merge_In : forall l1 l2 x, In x (merge l1 l2) <-> In x l1 \/ In x l2.
Proof.
  induction l1 as [|a1 l1 IH]; intros l2 x.
  - rewrite st_merge_nil_l. cbn [In]. tauto.
  - induction l2 as [|a2 l2 IH2].
    + rewrite st_merge_nil_r. cbn [In]. tauto.
    + rewrite st_merge_cons. destruct (a1 <=? a2); cbn [In].
      * rewrite IH. cbn [In]. tauto.
      * rewrite IH2. cbn [In]. tauto.
Qed.

Lemma merge_sorted : forall l1 l2, StronglySorted N.le l1 -> StronglySorted N.le l2 ->
  StronglySorted N.le (merge l1 l2).
Proof.
  induction l1 as [|a1 l1 IH]; intros l2 H1 H2.
  - rewrite st_merge_nil_l. exact H2.
  - induction l2 as [|a2 l2 IH2].
    + rewrite st_merge_nil_r. exact H1.
    + rewrite st_merge_cons.
      inversion H1 as [|? ? H1s H1f]; subst. inversion H2 as [|? ? H2s H2f]; subst.
      rewrite Forall_forall in H1f, H2f.
      destruct (N.leb_spec a1 a2) as [Hle|Hgt].
      * constructor; [apply IH; assumption|].
        rewrite Forall_forall. intros x Hx. apply merge_In in Hx.
        destruct Hx as [Hx|[Hx|Hx]]; [apply H1f; exact Hx | lia | specialize (H2f x Hx); lia].
      * constructor; [apply IH2; assumption|].
        rewrite Forall_forall. intros x Hx. apply merge_In in Hx.
        destruct Hx as [[Hx|Hx]|Hx]; [lia | specialize (H1f x Hx); lia | apply H2f; exact Hx].
Qed.

Lemma kmerge_In : forall ls x, In x (kmerge ls) <-> exists l, In l ls /\ In x l.
Proof.
  induction ls as [|l ls IH]; intros x.
  - cbn. split; [tauto | intros [l [[] _]]].
  - cbn [kmerge fold_right]. fold (kmerge ls). rewrite merge_In, IH. split.
    + intros [H|[l' [H1 H2]]]; [exists l; split; [left; reflexivity | exact H]|].
      exists l'. split; [right; exact H1 | exact H2].
    + intros [l' [[->|H1] H2]]; [left; exact H2|]. right. exists l'. split; assumption.
Qed.

Lemma kmerge_sorted : forall ls, Forall (StronglySorted N.le) ls -> StronglySorted N.le (kmerge ls).
Proof.
  intros ls H. induction H as [|l ls Hl Hls IH]; [constructor|].
  cbn [kmerge fold_right]. fold (kmerge ls). apply merge_sorted; assumption.
Qed.

Lemma dedup_cons2 : forall a b l,
  dedup (a :: b :: l) = if a =? b then dedup (b :: l) else a :: dedup (b :: l).
Proof. reflexivity. Qed.

Lemma dedup_In : forall l x, In x (dedup l) <-> In x l.
Proof.
  induction l as [|a l IH]; intros x; [tauto|].
  destruct l as [|b l]; [cbn; tauto|].
  rewrite dedup_cons2. destruct (N.eqb_spec a b) as [->|Hne].
  - rewrite IH. cbn [In]. tauto.
  - cbn [In]. rewrite IH. cbn [In]. tauto.
Qed.

Lemma dedup_sorted : forall l, StronglySorted N.le l -> StronglySorted N.lt (dedup l).
Proof.
  induction l as [|a l IH]; intros H; [constructor|].
  destruct l as [|b l]; [cbn; constructor; constructor|].
  inversion H as [|? ? Hs Hf]; subst.
  rewrite dedup_cons2. destruct (N.eqb_spec a b) as [->|Hne]; [apply IH; exact Hs|].
  constructor; [apply IH; exact Hs|].
  rewrite Forall_forall. intros x Hx. apply (proj1 (dedup_In _ _)) in Hx.
  inversion Hs as [|? ? _ Hbf]; subst. rewrite Forall_forall in Hf, Hbf.
  pose proof (Hf b (or_introl eq_refl)) as Hab.
  destruct Hx as [<-|Hx]; [lia|]. specialize (Hbf x Hx). lia.
Qed.

Lemma lt_sorted_le : forall l, StronglySorted N.lt l -> StronglySorted N.le l.
Proof.
  intros l H. induction H as [|a l Hs IH Hf]; constructor; [exact IH|].
  eapply Forall_impl; [|exact Hf]. cbn beta. intros x Hx. lia.
Qed.

Lemma filter_sorted : forall (R : N -> N -> Prop) f l, StronglySorted R l -> StronglySorted R (filter f l).
Proof.
  intros R f l H. induction H as [|a l Hs IH Hf]; [constructor|].
  cbn [filter]. destruct (f a); [|exact IH]. constructor; [exact IH|].
  rewrite Forall_forall in *. intros x Hx. apply filter_In in Hx. apply Hf. apply Hx.
Qed.

Lemma filter_none : forall (f : N -> bool) l, (forall x, In x l -> f x = false) -> filter f l = [].
Proof.
  intros f l. induction l as [|a l IH]; intros H; [reflexivity|].
  cbn [filter]. rewrite (H a (or_introl eq_refl)). apply IH. intros x Hx. apply H. right. exact Hx.
Qed.

Lemma take_while_filter : forall h l, StronglySorted N.lt l ->
  take_while (fun x => x <=? h) l = filter (fun x => x <=? h) l.
Proof.
  intros h l H. induction H as [|a l Hs IH Hf]; [reflexivity|].
  cbn [take_while filter]. destruct (N.leb_spec a h) as [Hle|Hgt]; [rewrite IH; reflexivity|].
  symmetry. apply filter_none. rewrite Forall_forall in Hf. intros x Hx. specialize (Hf x Hx). lia.
Qed.

Lemma map_sorted : forall (P : N -> Prop) (g : N -> N) l, Forall P l ->
  (forall x y, P x -> P y -> x < y -> g x < g y) ->
  StronglySorted N.lt l -> StronglySorted N.lt (map g l).
Proof.
  intros P g l HP Hg H. induction H as [|a l Hs IH Hf]; [constructor|].
  inversion HP as [|? ? Pa Pl]; subst. cbn [map]. constructor; [apply IH; exact Pl|].
  rewrite Forall_forall in *. intros y Hy. apply in_map_iff in Hy. destruct Hy as [x [<- Hx]].
  apply Hg; [exact Pa | apply Pl; exact Hx | apply Hf; exact Hx].
Qed.

Lemma app_sorted : forall l1 l2, StronglySorted N.lt l1 -> StronglySorted N.lt l2 ->
  (forall x y, In x l1 -> In y l2 -> x < y) -> StronglySorted N.lt (l1 ++ l2).
Proof.
  intros l1 l2 H1 H2 H. induction H1 as [|a l Hs IH Hf]; [exact H2|].
  cbn [app]. constructor.
  - apply IH. intros x y Hx Hy. apply H; [right; exact Hx | exact Hy].
  - rewrite Forall_forall in *. intros x Hx. apply in_app_or in Hx. destruct Hx as [Hx|Hx].
    + apply Hf; exact Hx.
    + apply H; [left; reflexivity | exact Hx].
Qed.

Lemma flat_map_sorted : forall (g : N -> list N) ks, StronglySorted N.lt ks ->
  (forall k, In k ks -> StronglySorted N.lt (g k)) ->
  (forall k k' x y, In k ks -> In k' ks -> k < k' -> In x (g k) -> In y (g k') -> x < y) ->
  StronglySorted N.lt (flat_map g ks).
Proof.
  intros g ks H. induction H as [|k ks Hs IH Hf]; intros Hg Hc; [constructor|].
  cbn [flat_map]. apply app_sorted.
  - apply Hg. left. reflexivity.
  - apply IH.
    + intros k' Hk'. apply Hg. right. exact Hk'.
    + intros k1 k2 x y H1 H2. apply Hc; right; assumption.
  - intros x y Hx Hy. apply in_flat_map in Hy. destruct Hy as [k' [Hk' Hy]].
    rewrite Forall_forall in Hf.
    apply (Hc k k'); [left; reflexivity | right; exact Hk' | apply Hf; exact Hk' | exact Hx | exact Hy].
Qed.

Lemma rangeN_In : forall a n x, In x (rangeN a n) <-> a <= x /\ x < a + n.
Proof.
  intros a n x. unfold rangeN. rewrite in_map_iff. split.
  - intros [i [<- Hi]]. apply in_seq in Hi. lia.
  - intros [H1 H2]. exists (N.to_nat (x - a)). split; [lia|]. apply in_seq. lia.
Qed.

Lemma rangeN_sorted : forall a n, StronglySorted N.lt (rangeN a n).
Proof.
  intros a n. unfold rangeN. generalize (N.to_nat n) as m. generalize O as s.
  intros s m. revert s. induction m as [|m IH]; intros s; [constructor|].
  cbn [seq map]. constructor; [apply IH|].
  rewrite Forall_forall. intros x Hx. apply in_map_iff in Hx. destruct Hx as [i [<- Hi]].
  apply in_seq in Hi. lia.
Qed.

(* ------------------------------------------------------------------------------------------ *)
(* 2. sums of non-decreasing functions                                                         *)
(* ------------------------------------------------------------------------------------------ *)
Definition mono (f : N -> N) : Prop := forall x y, x <= y -> f x <= f y.

Lemma sum_mono : forall {A} (f : A -> N -> N) l, Forall (fun a => mono (f a)) l ->
  mono (fun d => sumN (map (fun a => f a d) l)).
Proof.
  intros A f l H. induction H as [|a l Ha Hl IH]; intros x y Hxy; cbn [map sumN fold_right]; [lia|].
  fold (sumN (map (fun a => f a x) l)). fold (sumN (map (fun a => f a y) l)).
  specialize (Ha x y Hxy). specialize (IH x y Hxy). cbn beta in IH. lia.
Qed.

Lemma sum_increases : forall {A} (f : A -> N -> N) l, Forall (fun a => mono (f a)) l ->
  forall x y, x <= y ->
  (sumN (map (fun a => f a x) l) < sumN (map (fun a => f a y) l) <-> exists a, In a l /\ f a x < f a y).
Proof.
  intros A f l H x y Hxy. induction H as [|a l Ha Hl IH]; cbn [map sumN fold_right].
  - split; [lia | intros [a [[] _]]].
  - fold (sumN (map (fun a => f a x) l)). fold (sumN (map (fun a => f a y) l)).
    pose proof (Ha x y Hxy) as Ha'. pose proof (sum_mono f l Hl x y Hxy) as Hl'. cbn beta in Hl'.
    split.
    + intros Hlt. destruct (N.lt_ge_cases (f a x) (f a y)) as [H1|H1].
      * exists a. split; [left; reflexivity | exact H1].
      * destruct IH as [IH _]. destruct (IH ltac:(lia)) as [b [Hb1 Hb2]].
        exists b. split; [right; exact Hb1 | exact Hb2].
    + intros [b [[<-|Hb1] Hb2]]; [lia|].
      destruct IH as [_ IH]. assert (Hs : exists a0, In a0 l /\ f a0 x < f a0 y) by (exists b; split; assumption).
      specialize (IH Hs). lia.
Qed.

Lemma sum_steps : forall {A} (f : A -> N -> N) (st : A -> list N) l h,
  Forall (fun a => mono (f a) /\ steps_spec (f a) (st a) h) l ->
  steps_spec (fun d => sumN (map (fun a => f a d) l)) (dedup (kmerge (map st l))) h.
Proof.
  intros A f st l h H. split.
  - apply dedup_sorted, kmerge_sorted. rewrite Forall_forall. intros s Hs.
    apply in_map_iff in Hs. destruct Hs as [a [<- Ha]]. rewrite Forall_forall in H.
    apply lt_sorted_le. apply (H a Ha).
  - intros d. rewrite dedup_In, kmerge_In.
    assert (Hm : Forall (fun a => mono (f a)) l).
    { eapply Forall_impl; [|exact H]. cbn beta. intros a Ha. apply Ha. }
    rewrite Forall_forall in H. split.
    + intros [s [Hs Hd]]. apply in_map_iff in Hs. destruct Hs as [a [<- Ha]].
      destruct (H a Ha) as [_ [_ Hi]]. apply Hi in Hd. destruct Hd as [H1 [H2 H3]].
      split; [exact H1|]. split; [exact H2|].
      apply (sum_increases f l Hm); [lia|]. exists a. split; assumption.
    + intros [H1 [H2 H3]]. apply (sum_increases f l Hm) in H3; [|lia].
      destruct H3 as [a [Ha Hlt]]. exists (st a). split; [apply in_map; exact Ha|].
      destruct (H a Ha) as [_ [_ Hi]]. apply Hi. auto.
Qed.

(* ------------------------------------------------------------------------------------------ *)
(* 3. Periodic and Sporadic                                                                    *)
(* ------------------------------------------------------------------------------------------ *)
Lemma div_ceil_step : forall a T, 1 <= T -> (div_ceil a T < div_ceil (a + 1) T <-> a mod T = 0).
Proof.
  intros a T HT.
  destruct (div_ceil_spec a T HT) as [H1 H2]. destruct (div_ceil_spec (a + 1) T HT) as [H3 H4].
  set (n := div_ceil a T) in *. set (m := div_ceil (a + 1) T) in *. clearbody n m.
  split.
  - intros Hlt. assert (Hm : (n + 1) * T <= m * T) by (apply N.mul_le_mono_r; lia).
    assert (Ha : a = n * T) by lia. rewrite Ha. apply N.mod_mul. lia.
  - intros Hmod. pose proof (N.div_mod a T ltac:(lia)) as Hdm. rewrite Hmod, N.add_0_r in Hdm.
    set (q := a / T) in *. clearbody q.
    destruct (N.lt_ge_cases n m) as [Hlt|Hge]; [exact Hlt|]. exfalso.
    assert (Hm : m * T <= n * T) by (apply N.mul_le_mono_r; lia).
    destruct (N.lt_ge_cases q n) as [Hq|Hq].
    + assert ((q + 1) * T <= n * T) by (apply N.mul_le_mono_r; lia). lia.
    + assert (n * T <= q * T) by (apply N.mul_le_mono_r; lia). lia.
Qed.

Lemma div_ceil_pos : forall a T, 1 <= T -> 1 <= a -> 1 <= div_ceil a T.
Proof.
  intros a T HT Ha. destruct (div_ceil_spec a T HT) as [H1 _].
  destruct (div_ceil a T); lia.
Qed.

Lemma mod0_mul : forall a T, 1 <= T -> a mod T = 0 -> a = T * (a / T).
Proof.
  intros a T HT H. pose proof (N.div_mod a T ltac:(lia)) as Hdm. lia.
Qed.

Lemma periodic_steps_exact : forall T h, 1 <= T ->
  steps_spec (fun d => div_ceil d T) (periodic_steps_upto T h) h.
Proof.
  intros T h HT. unfold periodic_steps_upto. split.
  - destruct (h =? 0); [constructor|].
    apply (map_sorted (fun _ => True)); [rewrite Forall_forall; auto | | apply rangeN_sorted].
    intros x y _ _ Hxy. assert (T * x < T * y) by (apply N.mul_lt_mono_pos_l; lia). lia.
  - intros d. destruct (N.eqb_spec h 0) as [Hh|Hh].
    + cbn [In]. split; [tauto | lia].
    + rewrite in_map_iff. split.
      * intros [j [<- Hj]]. apply rangeN_In in Hj.
        assert (Hjm : j <= (h - 1) / T) by lia.
        assert (Hle : T * j <= T * ((h - 1) / T)) by (apply N.mul_le_mono_l; exact Hjm).
        pose proof (N.mul_div_le (h - 1) T ltac:(lia)) as Hd.
        split; [lia|]. split; [lia|].
        replace (T * j + 1 - 1) with (T * j) by lia.
        apply div_ceil_step; [exact HT|]. rewrite N.mul_comm. apply N.mod_mul. lia.
      * intros [H1 [H2 H3]]. replace d with (d - 1 + 1) in H3 at 2 by lia.
        apply div_ceil_step in H3; [|exact HT]. apply mod0_mul in H3; [|exact HT].
        exists ((d - 1) / T). split; [lia|]. apply rangeN_In.
        assert ((d - 1) / T <= (h - 1) / T) by (apply N.div_le_mono; lia). lia.
Qed.

Lemma sporadic_steps_exact : forall T J h, 1 <= T ->
  steps_spec (fun d => if d =? 0 then 0 else div_ceil (d + J) T) (sporadic_steps_upto T J h) h.
Proof.
  intros T J h HT. unfold sporadic_steps_upto.
  pose proof (N.div_mod J T ltac:(lia)) as HJ. pose proof (N.mod_lt J T ltac:(lia)) as HJr.
  set (j0 := J / T + 1) in *. set (j1 := (h + J - 1) / T) in *.
  assert (Hj0 : forall j, j0 <= j -> J < T * j).
  { intros j Hj. assert (T * j0 <= T * j) by (apply N.mul_le_mono_l; exact Hj).
    unfold j0 in H. lia. }
  split.
  - destruct (h =? 0); [constructor|]. constructor.
    + apply (map_sorted (fun j => j0 <= j)); [| | apply rangeN_sorted].
      * rewrite Forall_forall. intros x Hx. apply rangeN_In in Hx. lia.
      * intros x y Hx Hy Hxy. assert (T * x < T * y) by (apply N.mul_lt_mono_pos_l; lia).
        specialize (Hj0 x Hx). lia.
    + rewrite Forall_forall. intros x Hx. apply in_map_iff in Hx. destruct Hx as [j [<- Hj]].
      apply rangeN_In in Hj. specialize (Hj0 j ltac:(lia)). lia.
  - intros d. destruct (N.eqb_spec h 0) as [Hh|Hh].
    + cbn [In]. split; [tauto | lia].
    + cbn [In]. rewrite in_map_iff. split.
      * intros [<-|[j [<- Hj]]].
        -- split; [lia|]. split; [lia|]. pose proof (div_ceil_pos (1 + J) T HT ltac:(lia)).
           destruct (N.eqb_spec (1 - 1) 0) as [_|E]; [|lia]. destruct (N.eqb_spec 1 0) as [E|_]; [lia|]. lia.
        -- apply rangeN_In in Hj. pose proof (Hj0 j ltac:(lia)) as HJj.
           assert (Hjm : j <= j1) by lia.
           assert (Hle : T * j <= T * j1) by (apply N.mul_le_mono_l; exact Hjm).
           pose proof (N.mul_div_le (h + J - 1) T ltac:(lia)) as Hd. fold j1 in Hd.
           split; [lia|]. split; [lia|].
           destruct (N.eqb_spec (T * j + 1 - J - 1) 0) as [E|_]; [lia|].
           destruct (N.eqb_spec (T * j + 1 - J) 0) as [E|_]; [lia|].
           replace (T * j + 1 - J - 1 + J) with (T * j) by lia.
           replace (T * j + 1 - J + J) with (T * j + 1) by lia.
           apply div_ceil_step; [exact HT|]. rewrite N.mul_comm. apply N.mod_mul. lia.
      * intros [H1 [H2 H3]]. destruct (N.eq_dec d 1) as [->|Hd1]; [left; reflexivity|]. right.
        destruct (N.eqb_spec (d - 1) 0) as [E|_]; [lia|].
        destruct (N.eqb_spec d 0) as [E|_]; [lia|].
        replace (d + J) with (d - 1 + J + 1) in H3 by lia.
        apply div_ceil_step in H3; [|exact HT]. apply mod0_mul in H3; [|exact HT].
        set (j := (d - 1 + J) / T) in *.
        exists j. split; [lia|]. apply rangeN_In.
        assert (Hjj1 : j <= j1) by (apply N.div_le_mono; lia).
        assert (Hjj0 : J / T <= j) by (apply N.div_le_mono; lia).
        assert (J / T <> j).
        { intros E. rewrite <- E in H3. clear - HJ H3 H1 Hd1. dlia. }
        unfold j0. lia.
Qed.

(* ------------------------------------------------------------------------------------------ *)
(* 4. Curve                                                                                    *)
(* ------------------------------------------------------------------------------------------ *)
(* number of entries below t *)
Definition cnt (d : list N) (t : N) : N := lenN (filter (fun x => x <? t) d).

Lemma cnt_cons : forall x d t, cnt (x :: d) t = b2n (x <? t) + cnt d t.
Proof.
  intros x d t. unfold cnt, lenN. cbn [filter]. destruct (x <? t); cbn [length b2n]; lia.
Qed.

Lemma cnt_app : forall d1 d2 t, cnt (d1 ++ d2) t = cnt d1 t + cnt d2 t.
Proof.
  intros d1 d2 t. unfold cnt, lenN. rewrite filter_app, app_length. lia.
Qed.

Lemma cnt_none : forall d t, (forall x, In x d -> t <= x) -> cnt d t = 0.
Proof.
  intros d t H. unfold cnt. rewrite filter_none; [reflexivity|].
  intros x Hx. specialize (H x Hx). lia.
Qed.

Lemma cnt_all : forall d t, (forall x, In x d -> x < t) -> cnt d t = lenN d.
Proof.
  intros d t. induction d as [|x d IH]; intros H; [reflexivity|].
  rewrite cnt_cons, IH by (intros y Hy; apply H; right; exact Hy).
  pose proof (H x (or_introl eq_refl)). unfold lenN, b2n. cbn [length].
  destruct (N.ltb_spec x t); lia.
Qed.

Lemma cnt_step : forall d t, cnt d t <= cnt d (t + 1) /\ (cnt d t < cnt d (t + 1) <-> In t d).
Proof.
  intros d t. induction d as [|x d [IH1 IH2]].
  - unfold cnt, lenN. cbn. split; [lia|]. split; [lia | tauto].
  - rewrite !cnt_cons. cbn [In]. unfold b2n.
    destruct (N.ltb_spec x t); destruct (N.ltb_spec x (t + 1)); try lia.
    + split; [lia|]. rewrite <- IH2. split; [lia|]. intros [E|E]; lia.
    + split; [lia|]. rewrite <- IH2. split; [lia|]. intros [E|E]; lia.
Qed.

Lemma In_nthN : forall (d : list N) x, In x d -> exists i, (i < length d)%nat /\ nthN d i = x.
Proof. intros d x H. apply (In_nth d x 0 H). Qed.

Lemma nondec_tail : forall a d, nondecreasing (a :: d) -> nondecreasing d.
Proof.
  intros a d H i Hi. apply (H (S i)). cbn [length]. lia.
Qed.

Lemma nondec_sorted : forall d, nondecreasing d -> StronglySorted N.le d.
Proof.
  induction d as [|a d IH]; intros H; [constructor|].
  constructor; [apply IH; eapply nondec_tail; exact H|].
  rewrite Forall_forall. intros x Hx. destruct (In_nthN d x Hx) as [i [Hi <-]].
  apply (nondecreasing_nth (a :: d) O (S i) H); [lia | cbn [length]; lia].
Qed.

Lemma lastN_In : forall (d : list N), d <> [] -> In (lastN d) d.
Proof.
  intros d H. rewrite last_nth. apply nth_In. destruct d; [congruence | cbn [length]; lia].
Qed.

Lemma le_lastN : forall d x, nondecreasing d -> In x d -> x <= lastN d.
Proof.
  intros d x Hnd Hx. destruct (In_nthN d x Hx) as [i [Hi <-]].
  rewrite last_nth. apply nondecreasing_nth; [exact Hnd | lia | lia].
Qed.

Lemma lookup_cnt : forall d t, StronglySorted N.le d -> lookup_arrivals d t = 1 + cnt d t.
Proof.
  intros d t H. induction H as [|x d Hs IH Hf]; [reflexivity|].
  cbn [lookup_arrivals]. rewrite cnt_cons. rewrite Forall_forall in Hf. unfold b2n.
  destruct (N.leb_spec t x) as [Hle|Hgt]; destruct (N.ltb_spec x t); try lia.
  rewrite cnt_none; [lia|]. intros y Hy. specialize (Hf y Hy). lia.
Qed.

Lemma curve_tail_cnt : forall d t, StronglySorted N.le d -> d <> [] ->
  curve_tail d t = if t =? 0 then 0 else 1 + cnt d t.
Proof.
  intros d t Hs Hne. unfold curve_tail.
  destruct (N.ltb_spec (hdN d) t) as [Hlt|Hge].
  - rewrite lookup_cnt by exact Hs. destruct (N.eqb_spec t 0); [lia | reflexivity].
  - unfold b2n. destruct (N.eqb_spec t 0) as [->|Ht]; [reflexivity|].
    destruct (N.ltb_spec 0 t); [|lia].
    rewrite cnt_none; [lia|]. destruct d as [|a d]; [congruence|].
    inversion Hs as [|? ? _ Hf]; subst. rewrite Forall_forall in Hf. unfold hdN in Hge. cbn [hd] in Hge.
    intros y [<-|Hy]; [lia|]. specialize (Hf y Hy). lia.
Qed.

Lemma curve_tail_step : forall d t, StronglySorted N.le d -> d <> [] ->
  (curve_tail d t < curve_tail d (t + 1) <-> t = 0 \/ In t d).
Proof.
  intros d t Hs Hne. rewrite !curve_tail_cnt by assumption.
  destruct (N.eqb_spec (t + 1) 0) as [E|_]; [lia|].
  destruct (cnt_step d t) as [H1 H2].
  destruct (N.eqb_spec t 0) as [->|Ht].
  - split; [intros _; left; reflexivity | lia].
  - rewrite <- H2. split; [lia|]. intros [E|E]; lia.
Qed.

(* outside the plateau class the last entry occurs once: a whole cycle counts every entry *)
Lemma curve_tail_last : forall d, wf_dmin d -> ~ plateau_end d -> curve_tail d (lastN d) = lenN d.
Proof.
  intros d [Hne [Hnd Hlast]] Hnp.
  rewrite curve_tail_cnt by (try apply nondec_sorted; assumption).
  destruct (N.eqb_spec (lastN d) 0) as [E|_]; [lia|].
  pose proof (app_removelast_last 0 Hne) as Hd. fold (lastN d) in Hd.
  set (d' := removelast d) in *. set (L := lastN d) in *.
  assert (Hlen : length d = S (length d')) by (rewrite Hd, app_length; cbn [length]; lia).
  rewrite Hd at 1. rewrite cnt_app, cnt_cons.
  assert (Hall : forall x, In x d' -> x < L).
  { intros x Hx. destruct (In_nthN d' x Hx) as [i [Hi Hxi]].
    assert (Hxi' : nthN d i = x).
    { rewrite Hd. unfold nthN in *. rewrite app_nth1 by exact Hi. exact Hxi. }
    pose proof (nondecreasing_nth d i (length d - 2) Hnd ltac:(lia) ltac:(lia)) as H1.
    pose proof (Hnd (length d - 2)%nat ltac:(lia)) as H2.
    replace (S (length d - 2)) with (length d - 1)%nat in H2 by lia.
    assert (H3 : nthN d (length d - 2) <> nthN d (length d - 1)).
    { intros E. apply Hnp. split; [lia | exact E]. }
    unfold L. rewrite last_nth. lia. }
  rewrite (cnt_all d' L Hall). unfold cnt, lenN, b2n. cbn [filter length]. rewrite Hlen.
  destruct (N.ltb_spec L L); lia.
Qed.

Lemma curve_tail_ge1 : forall d x, 0 < x -> 1 <= curve_tail d x.
Proof.
  intros d x Hx. unfold curve_tail. destruct (hdN d <? x); [apply lookup_ge1|].
  unfold b2n. destruct (N.ltb_spec 0 x); lia.
Qed.

(* number_arrivals increases after delta exactly when delta is a multiple of the last entry or its remainder is
   an entry; at multiples a new repetition block starts (with the plateau repair: for every wf_dmin vector) *)
Lemma curve_increase : forall d delta, wf_dmin d ->
  (curve_na d delta < curve_na d (delta + 1) <->
   delta mod lastN d = 0 \/ In (delta mod lastN d) d).
Proof.
  intros d delta Hwf. pose proof Hwf as [Hne [Hnd Hlast]].
  pose proof (nondec_sorted d Hnd) as Hs.
  destruct (N.eq_dec delta 0) as [->|Hd].
  - rewrite curve_na_0, N.mod_0_l by lia.
    pose proof (curve_na_lb d 0 O (0 + 1) Hwf) as Hlb.
    assert (Hl : (0 < length d)%nat) by (destruct d; [congruence | cbn [length]; lia]).
    assert (Hpre : 0 * lastN d + 0 + 1 <= 0 + 1) by lia.
    specialize (Hlb Hl Hpre). split; [intros _; left; reflexivity | lia].
  - set (n := delta - 1). assert (E : delta = n + 1) by (unfold n; lia). clearbody n. subst delta.
    rewrite !curve_na_succ by exact Hlast.
    set (L := lastN d) in *.
    destruct (divmod_succ n L Hlast) as [[H1 [H2 H3]]|[H1 [H2 H3]]]; rewrite H2, H3.
    + rewrite <- (curve_tail_step d (n mod L + 1) Hs Hne). lia.
    + rewrite H1.
      pose proof (curve_tail_le_len d L Hne ltac:(unfold L; lia)) as Hle.
      pose proof (curve_tail_ge1 d (0 + 1) ltac:(lia)) as Hge.
      split; [intros _; left; reflexivity | intros _].
      rewrite N.mul_add_distr_r. lia.
Qed.

Lemma sorted_app_inv : forall l1 l2, StronglySorted N.lt (l1 ++ l2) ->
  StronglySorted N.lt l1 /\ forall x y, In x l1 -> In y l2 -> x < y.
Proof.
  induction l1 as [|a l1 IH]; intros l2 H.
  - split; [constructor | intros x y []].
  - cbn [app] in H. inversion H as [|? ? Hs Hf]; subst.
    destruct (IH l2 Hs) as [IH1 IH2]. rewrite Forall_forall in Hf. split.
    + constructor; [exact IH1|]. rewrite Forall_forall. intros x Hx. apply Hf. apply in_or_app. left. exact Hx.
    + intros x y [<-|Hx] Hy; [apply Hf; apply in_or_app; right; exact Hy | apply IH2; assumption].
Qed.

(* removing the greatest entry of a strictly increasing list *)
Lemma removelast_max : forall P m, StronglySorted N.lt P -> In m P -> (forall x, In x P -> x <= m) ->
  StronglySorted N.lt (removelast P) /\ forall v, In v (removelast P) <-> In v P /\ v < m.
Proof.
  intros P m Hs Hm Hmax.
  assert (Hne : P <> []) by (intros ->; destruct Hm).
  pose proof (app_removelast_last 0 Hne) as HP.
  set (R := removelast P) in *. set (z := last P 0) in *.
  rewrite HP in Hs. destruct (sorted_app_inv R [z] Hs) as [HR Hlt].
  assert (Hz : z = m).
  { assert (Hzin : In z P) by (rewrite HP; apply in_or_app; right; left; reflexivity).
    pose proof (Hmax z Hzin) as Hzm. rewrite HP in Hm. apply in_app_or in Hm.
    destruct Hm as [Hm|[Hm|[]]]; [|exact Hm].
    specialize (Hlt m z Hm (or_introl eq_refl)). lia. }
  split; [exact HR|]. intros v. split.
  - intros Hv. split; [rewrite HP; apply in_or_app; left; exact Hv|].
    rewrite <- Hz. apply Hlt; [exact Hv | left; reflexivity].
  - intros [Hv Hvm]. rewrite HP in Hv. apply in_app_or in Hv.
    destruct Hv as [Hv|[Hv|[]]]; [exact Hv | lia].
Qed.

Lemma pos_entries : forall d, nondecreasing d ->
  StronglySorted N.lt (dedup (filter (fun x => 0 <? x) d)) /\
  forall v, In v (dedup (filter (fun x => 0 <? x) d)) <-> In v d /\ 0 < v.
Proof.
  intros d Hnd. split.
  - apply dedup_sorted, filter_sorted, nondec_sorted, Hnd.
  - intros v. rewrite dedup_In, filter_In. split; intros [H1 H2]; (split; [exact H1 | lia]).
Qed.

Lemma curve_step_base_spec : forall d, wf_dmin d ->
  StronglySorted N.lt (curve_step_base d) /\
  forall v, In v (curve_step_base d) <-> v = 0 \/ (In v d /\ 0 < v /\ v < lastN d).
Proof.
  intros d [Hne [Hnd Hlast]]. unfold curve_step_base.
  destruct (pos_entries d Hnd) as [Hs Hin].
  destruct (removelast_max _ (lastN d) Hs) as [HRs HRin].
  { apply Hin. split; [apply lastN_In; exact Hne | exact Hlast]. }
  { intros x Hx. apply Hin in Hx. apply le_lastN; [exact Hnd | apply Hx]. }
  split.
  - constructor; [exact HRs|]. rewrite Forall_forall. intros x Hx. apply HRin in Hx.
    destruct Hx as [Hx _]. apply Hin in Hx. lia.
  - intros v. cbn [In]. rewrite HRin, Hin. split.
    + intros [E|[[H1 H2] H3]]; [left; lia | right; auto].
    + intros [E|[H1 [H2 H3]]]; [left; lia | right; auto].
Qed.

Lemma curve_steps_exact : forall d h, wf_dmin d ->
  steps_spec (curve_na d) (curve_steps_upto d h) h.
Proof.
  intros d h Hwf. pose proof Hwf as [Hne [Hnd Hlast]].
  destruct (curve_step_base_spec d Hwf) as [Hbs Hbin].
  unfold curve_steps_upto. set (L := lastN d) in *. split.
  - apply filter_sorted. apply flat_map_sorted; [apply rangeN_sorted | |].
    + intros k _. apply (map_sorted (fun _ => True)); [rewrite Forall_forall; auto | | exact Hbs].
      intros x y _ _ Hxy. lia.
    + intros k k' x y _ _ Hk Hx Hy. apply in_map_iff in Hx, Hy.
      destruct Hx as [v [<- Hv]]. destruct Hy as [v' [<- Hv']].
      apply Hbin in Hv. assert (Hvl : v < L) by (destruct Hv as [->|[_ [_ Hv]]]; lia).
      assert ((k + 1) * L <= k' * L) by (apply N.mul_le_mono_r; lia). lia.
  - intros x. rewrite filter_In, in_flat_map. split.
    + intros [[k [Hk Hx]] Hxh]. apply in_map_iff in Hx. destruct Hx as [v [<- Hv]].
      apply Hbin in Hv. assert (Hvl : v < L) by (destruct Hv as [->|[_ [_ Hv]]]; lia).
      split; [lia|]. split; [lia|].
      replace (1 + k * L + v) with (1 + k * L + v - 1 + 1) at 2 by lia.
      apply curve_increase; [exact Hwf|]. fold L.
      replace (1 + k * L + v - 1) with (v + k * L) by lia.
      rewrite N.mod_add, N.mod_small by lia.
      destruct Hv as [->|[Hv _]]; [left; reflexivity | right; exact Hv].
    + intros [H1 [H2 H3]]. replace x with (x - 1 + 1) in H3 at 2 by lia.
      apply curve_increase in H3; [|exact Hwf]. fold L in H3.
      pose proof (N.div_mod (x - 1) L ltac:(lia)) as Hdm.
      pose proof (N.mod_lt (x - 1) L ltac:(lia)) as Hlt.
      assert (Hq : (x - 1) / L <= h / L) by (apply N.div_le_mono; lia).
      set (q := (x - 1) / L) in *. set (t := (x - 1) mod L) in *.
      split; [|lia]. exists q. split; [apply rangeN_In; dlia|].
      apply in_map_iff. exists t. split; [lia|]. apply Hbin.
      destruct (N.eq_dec t 0) as [E|E]; [left; exact E|]. right.
      destruct H3 as [H3|H3]; [lia|]. split; [exact H3 | lia].
Qed.

(* ------------------------------------------------------------------------------------------ *)
(* 5. ExtrapolatingCurve                                                                       *)
(* ------------------------------------------------------------------------------------------ *)
Lemma le_sorted_app_inv : forall l1 l2, StronglySorted N.le (l1 ++ l2) ->
  forall x y, In x l1 -> In y l2 -> x <= y.
Proof.
  induction l1 as [|a l1 IH]; intros l2 H x y Hx Hy; [destruct Hx|].
  cbn [app] in H. inversion H as [|? ? Hs Hf]; subst. rewrite Forall_forall in Hf.
  destruct Hx as [<-|Hx]; [apply Hf; apply in_or_app; right; exact Hy|].
  apply (IH l2 Hs); assumption.
Qed.

Section Extension.
  Variable d : list N.
  Hypothesis Hwf : wf_dmin d.
  Let E (k : nat) : list N := Nat.iter k push_next d.

  Lemma ext_wf : forall k, wf_dmin (E k).
  Proof. intros k. apply iter_push_wf. exact Hwf. Qed.

  (* later entries are at least the last entry of an earlier extension *)
  Lemma ext_prefix : forall k1 k2, (k1 <= k2)%nat -> exists l, E k2 = E k1 ++ l /\
    forall y, In y l -> lastN (E k1) <= y.
  Proof.
    intros k1 k2 Hk. unfold E. replace k2 with ((k2 - k1) + k1)%nat by lia. rewrite iter_add.
    fold (E k1). destruct (iter_push_app (k2 - k1) (E k1)) as [l [Hl _]]. exists l. split; [exact Hl|].
    intros y Hy.
    assert (Hw : wf_dmin (E k1 ++ l)).
    { rewrite <- Hl. apply iter_push_wf. apply ext_wf. }
    destruct Hw as [_ [Hnd _]]. apply nondec_sorted in Hnd.
    apply (le_sorted_app_inv _ _ Hnd); [|exact Hy]. apply lastN_In. apply (ext_wf k1).
  Qed.

  Lemma ext_cnt_le : forall k1 k2 t, (k1 <= k2)%nat -> t <= lastN (E k1) -> cnt (E k2) t = cnt (E k1) t.
  Proof.
    intros k1 k2 t Hk Ht. destruct (ext_prefix k1 k2 Hk) as [l [-> Hl]].
    rewrite cnt_app, (cnt_none l); [lia|]. intros y Hy. specialize (Hl y Hy). lia.
  Qed.

  Lemma ext_cnt_stable : forall k1 k2 t, t <= lastN (E k1) -> t <= lastN (E k2) -> cnt (E k1) t = cnt (E k2) t.
  Proof.
    intros k1 k2 t H1 H2. destruct (le_lt_dec k1 k2) as [Hk|Hk].
    - symmetry. apply ext_cnt_le; assumption.
    - apply ext_cnt_le; [lia | assumption].
  Qed.

  Hypothesis Hlen : (2 <= length d)%nat.

  Lemma extrap_na_cnt : forall delta k, delta <> 0 -> delta <= lastN (E k) ->
    extrap_na d delta = 1 + cnt (E k) delta.
  Proof.
    intros delta k Hd Hk. unfold extrap_na. destruct (N.eqb_spec delta 0) as [E0|_]; [congruence|].
    pose proof (extrapolate_reaches d (delta + 1) Hwf Hlen) as Hr.
    destruct (extrapolate_prefix d (delta + 1)) as [k0 Hk0]. rewrite Hk0 in *. fold (E k0) in *.
    destruct (ext_wf k0) as [Hne [Hnd _]].
    rewrite curve_na_small by lia.
    rewrite curve_tail_cnt by (try apply nondec_sorted; assumption).
    destruct (N.eqb_spec delta 0) as [E0|_]; [congruence|].
    rewrite (ext_cnt_stable k0 k delta); [reflexivity | lia | exact Hk].
  Qed.

  Lemma extrap_increase : forall delta k, delta + 1 <= lastN (E k) ->
    (extrap_na d delta < extrap_na d (delta + 1) <-> delta = 0 \/ In delta (E k)).
  Proof.
    intros delta k Hk. rewrite (extrap_na_cnt (delta + 1) k) by lia.
    destruct (N.eq_dec delta 0) as [->|Hd].
    - change (extrap_na d 0) with 0. split; [intros _; left; reflexivity | lia].
    - rewrite (extrap_na_cnt delta k) by lia. destruct (cnt_step (E k) delta) as [_ H2].
      rewrite <- H2. split; [lia|]. intros [E0|E0]; lia.
  Qed.

  Lemma extrap_steps_exact_ext : forall h, steps_spec (extrap_na d) (extrap_steps_upto d h) h.
  Proof.
    intros h. unfold extrap_steps_upto.
    assert (Hc : can_extrapolate d = true) by (unfold can_extrapolate, lenN; lia).
    rewrite Hc.
    pose proof (extrapolate_reaches d h Hwf Hlen) as Hr.
    destruct (extrapolate_prefix d h) as [kh Hkh]. rewrite Hkh in *. fold (E kh) in *.
    destruct (ext_wf kh) as [Hne [Hnd _]].
    destruct (pos_entries (E kh) Hnd) as [Hps Hpin]. split.
    - apply filter_sorted. constructor.
      + apply (map_sorted (fun _ => True)); [rewrite Forall_forall; auto | | exact Hps].
        intros x y _ _ Hxy. lia.
      + rewrite Forall_forall. intros x Hx. apply in_map_iff in Hx. destruct Hx as [v [<- Hv]].
        apply Hpin in Hv. lia.
    - intros x. rewrite filter_In. cbn [In]. rewrite in_map_iff. split.
      + intros [[<-|[v [<- Hv]]] Hxh].
        * split; [lia|]. split; [lia|]. change (1 - 1) with 0. change (extrap_na d 1) with (extrap_na d (0 + 1)).
          apply (extrap_increase 0 kh); [lia | left; reflexivity].
        * apply Hpin in Hv. destruct Hv as [Hv Hv0].
          split; [lia|]. split; [lia|]. replace (1 + v - 1) with v by lia. rewrite (N.add_comm 1 v).
          apply (extrap_increase v kh); [lia | right; exact Hv].
      + intros [H1 [H2 H3]]. replace x with (x - 1 + 1) in H3 at 2 by lia.
        apply (extrap_increase (x - 1) kh) in H3; [|lia].
        split; [|lia]. destruct (N.eq_dec x 1) as [->|Hx1]; [left; reflexivity|]. right.
        exists (x - 1). split; [lia|]. apply Hpin. destruct H3 as [H3|H3]; [lia|]. split; [exact H3 | lia].
  Qed.
End Extension.

Lemma curve_na_singleton : forall p delta, 0 < p -> curve_na [p] delta = div_ceil delta p.
Proof.
  intros p delta Hp.
  destruct (N.eq_dec delta 0) as [->|Hd]; [rewrite div_ceil_0; reflexivity|].
  unfold curve_na. destruct (N.eqb_spec delta 0) as [E|_]; [congruence|]. cbv zeta.
  change (lastN [p]) with p. change (hdN [p]) with p. change (lenN [p]) with 1.
  pose proof (N.mod_lt delta p ltac:(lia)) as Hlt.
  unfold div_ceil, b2n. rewrite N.mul_1_r.
  destruct (N.eqb_spec (delta mod p) 0) as [E|E].
  - rewrite E. cbn [lookup_arrivals]. destruct (N.leb_spec p p) as [_|E']; [|lia].
    destruct (N.ltb_spec 0 0) as [E'|_]; [lia|].
    assert (1 <= delta / p); [|lia].
    pose proof (N.div_mod delta p ltac:(lia)) as Hdm. rewrite E in Hdm.
    destruct (N.eq_dec (delta / p) 0) as [E0|E0]; [rewrite E0 in Hdm; lia | lia].
  - destruct (N.ltb_spec p (delta mod p)) as [E'|_]; [dlia|].
    destruct (N.ltb_spec 0 (delta mod p)) as [_|E']; [reflexivity | dlia].
Qed.

Lemma extrap_na_single : forall p delta, 0 < p -> extrap_na [p] delta = div_ceil delta p.
Proof.
  intros p delta Hp. unfold extrap_na.
  destruct (N.eqb_spec delta 0) as [->|Hd]; [rewrite div_ceil_0; reflexivity|].
  change (extrapolate [p] (delta + 1)) with [p]. apply curve_na_singleton. exact Hp.
Qed.

Lemma extrap_steps_exact : forall d h, wf_dmin d -> steps_spec (extrap_na d) (extrap_steps_upto d h) h.
Proof.
  intros d h Hwf. destruct (le_lt_dec 2 (length d)) as [Hlen|Hlen].
  - apply extrap_steps_exact_ext; assumption.
  - destruct Hwf as [Hne [_ Hlast]]. destruct d as [|p [|q d]]; [congruence | | cbn [length] in Hlen; lia].
    change (lastN [p]) with p in Hlast.
    apply (steps_spec_ext (fun delta => div_ceil delta p)).
    + intros delta. symmetry. apply extrap_na_single. exact Hlast.
    + change (extrap_steps_upto [p] h) with (periodic_steps_upto p h).
      apply periodic_steps_exact. lia.
Qed.

(* ------------------------------------------------------------------------------------------ *)
(* 6. Propagated, sums, and the theorem for arrival bounds                                     *)
(* ------------------------------------------------------------------------------------------ *)
Lemma propagated_steps_exact : forall (f : N -> N) (st : N -> list N) J h,
  (forall H, steps_spec f (st H) H) ->
  steps_spec (fun d => if d =? 0 then 0 else f (d + J))
    (take_while (fun x => x <=? h)
       ((if 0 <? f (1 + J) then [1] else [])
          ++ map (fun x => x - J) (filter (fun x => J + 1 <? x) (st (h + J))))) h.
Proof.
  intros f st J h IH. destruct (IH (h + J)) as [HS HSin].
  set (S := st (h + J)) in *. set (pre := if 0 <? f (1 + J) then [1] else []).
  set (M := map (fun x => x - J) (filter (fun x => J + 1 <? x) S)).
  assert (HMin : forall y, In y M <-> exists x, In x S /\ J + 1 < x /\ y = x - J).
  { intros y. unfold M. rewrite in_map_iff. split.
    - intros [x [<- Hx]]. apply filter_In in Hx. exists x. split; [apply Hx|]. split; [lia | reflexivity].
    - intros [x [H1 [H2 ->]]]. exists x. split; [reflexivity|]. apply filter_In. split; [exact H1 | lia]. }
  assert (Hpre : forall y, In y pre <-> y = 1 /\ 0 < f (1 + J)).
  { intros y. unfold pre. destruct (N.ltb_spec 0 (f (1 + J))); cbn [In]; split; try tauto; try lia.
  }
  assert (Hsorted : StronglySorted N.lt (pre ++ M)).
  { apply app_sorted.
    - unfold pre. destruct (0 <? f (1 + J)); repeat constructor.
    - unfold M. apply (map_sorted (fun x => J + 1 < x)); [| | apply filter_sorted; exact HS].
      + rewrite Forall_forall. intros x Hx. apply filter_In in Hx. lia.
      + intros x y Hx Hy Hxy. lia.
    - intros x y Hx Hy. apply Hpre in Hx. apply HMin in Hy. destruct Hy as [x' [_ [Hx' ->]]]. lia. }
  rewrite take_while_filter by exact Hsorted. split; [apply filter_sorted; exact Hsorted|].
  intros y. rewrite filter_In, in_app_iff, Hpre, HMin. split.
  - intros [[[-> Hf]|[x [Hx [HJ ->]]]] Hyh].
    + split; [lia|]. split; [lia|].
      destruct (N.eqb_spec (1 - 1) 0) as [_|E]; [|lia]. destruct (N.eqb_spec 1 0) as [E|_]; [lia|]. exact Hf.
    + apply HSin in Hx. destruct Hx as [Hx1 [Hx2 Hx3]]. split; [lia|]. split; [lia|].
      destruct (N.eqb_spec (x - J - 1) 0) as [E|_]; [lia|]. destruct (N.eqb_spec (x - J) 0) as [E|_]; [lia|].
      replace (x - J - 1 + J) with (x - 1) by lia. replace (x - J + J) with x by lia. exact Hx3.
  - intros [H1 [H2 H3]]. split; [|lia]. destruct (N.eqb_spec y 0) as [E|_]; [lia|].
    destruct (N.eq_dec y 1) as [->|Hy1].
    + left. split; [reflexivity|]. destruct (N.eqb_spec (1 - 1) 0) as [_|E]; [exact H3 | lia].
    + right. destruct (N.eqb_spec (y - 1) 0) as [E|_]; [lia|].
      exists (y + J). split; [|lia]. apply HSin. split; [lia|]. split; [lia|].
      replace (y + J - 1) with (y - 1 + J) by lia. exact H3.
Qed.

Lemma sec_sum : forall l, steps_exact_class (SumAB l) <-> Forall steps_exact_class l.
Proof.
  induction l as [|a l IH].
  - split; intros _; constructor.
  - split.
    + intros [Ha Hl]. constructor; [exact Ha | apply IH; exact Hl].
    + intros H. inversion H as [|a' l' Ha Hl]; subst. split; [exact Ha | apply IH; exact Hl].
Qed.

Theorem steps_upto_exact : forall ab, wf_ab ab -> steps_exact_class ab ->
  forall h, steps_spec (na ab) (steps_upto ab h) h.
Proof.
  induction ab as [T|T J| |d|d|hz s|J ab' IH|l IH] using AB_ind'; intros Hwf Hc h.
  - apply (steps_spec_ext (fun d => div_ceil d T)); [intros d; reflexivity|].
    apply periodic_steps_exact. exact Hwf.
  - apply (steps_spec_ext (fun d => if d =? 0 then 0 else div_ceil (d + J) T)); [intros d; reflexivity|].
    apply sporadic_steps_exact. exact Hwf.
  - split; [constructor|]. intros d. cbn [steps_upto na In]. split; [tauto | lia].
  - apply (steps_spec_ext (curve_na d)); [intros x; reflexivity|].
    apply curve_steps_exact; exact Hwf.
  - apply (steps_spec_ext (extrap_na d)); [intros x; reflexivity|].
    apply extrap_steps_exact; assumption.
  - destruct Hc.
  - apply (steps_spec_ext (fun d => if d =? 0 then 0 else na ab' (d + J))); [intros d; reflexivity|].
    cbn [steps_upto]. apply (propagated_steps_exact (na ab') (steps_upto ab') J h).
    intros H. apply IH; assumption.
  - apply (steps_spec_ext (fun d => sumN (map (fun a => na a d) l))); [intros d; reflexivity|].
    cbn [steps_upto]. apply (sum_steps na (fun a => steps_upto a h)).
    apply wf_sum in Hwf. apply sec_sum in Hc.
    rewrite Forall_forall in *. intros a Ha. split.
    + intros x y Hxy. apply na_mono; [apply Hwf; exact Ha | exact Hxy].
    + apply IH; [exact Ha | apply Hwf; exact Ha | apply Hc; exact Ha].
Qed.
Print Assumptions steps_upto_exact.

(* ------------------------------------------------------------------------------------------ *)
(* 7. request bounds                                                                           *)
(* ------------------------------------------------------------------------------------------ *)
Lemma inc_pos : forall l, 1 <= nthN l 0 -> (forall i, (S i < length l)%nat -> nthN l i < nthN l (S i)) ->
  forall j, (j < length l)%nat -> 1 <= inc l j.
Proof.
  intros l H0 H j Hj. destruct j as [|j]; cbn [inc]; [exact H0|]. specialize (H j Hj). lia.
Qed.

(* with positive job costs every further job costs something *)
Lemma cost_strict_step : forall cm, wf_cm cm -> positive_cm cm ->
  forall n, cost_of_jobs cm n < cost_of_jobs cm (n + 1).
Proof.
  intros [c|l|l|l] Hwf Hpos n.
  - cbn [cost_of_jobs positive_cm] in *. rewrite N.mul_add_distr_l. lia.
  - cbn [wf_cm positive_cm] in *. rewrite mf_step by exact Hwf.
    pose proof (lenN_pos l Hwf) as HL. pose proof (N.mod_lt n (lenN l) ltac:(lia)) as Hlt.
    rewrite Forall_forall in Hpos.
    assert (1 <= nthN l (N.to_nat (n mod lenN l))); [|lia].
    apply Hpos. apply nth_In. unfold lenN in *. lia.
  - cbn [wf_cm positive_cm cost_of_jobs] in *. destruct Hwf as [Hne Hnd]. destruct Hpos as [H0 Hinc].
    rewrite wcurve_step by assumption.
    pose proof (lenN_pos l Hne) as HL. pose proof (N.mod_lt n (lenN l) ltac:(lia)) as Hlt.
    pose proof (inc_pos l H0 Hinc (N.to_nat (n mod lenN l))) as Hi.
    unfold lenN in *. specialize (Hi ltac:(lia)). lia.
  - cbn [wf_cm positive_cm] in *. destruct Hwf as [Hne [Hnd Hsa]]. destruct Hpos as [H0 Hinc].
    pose proof (lenN_pos l Hne) as HL.
    destruct (N.lt_ge_cases (lenN l) 3) as [Hs|Hb].
    + rewrite !extrap_small by exact Hs. rewrite wcurve_step by assumption.
      pose proof (N.mod_lt n (lenN l) ltac:(lia)) as Hlt.
      pose proof (inc_pos l H0 Hinc (N.to_nat (n mod lenN l))) as Hi.
      unfold lenN in *. specialize (Hi ltac:(lia)). lia.
    + rewrite extrap_step by assumption.
      assert (Hl1 : (1 <= length l)%nat) by (unfold lenN in HL; lia).
      pose proof (ext_inc l 1 Hl1 Hnd Hsa (inc_pos l H0 Hinc)
                    (N.to_nat (n + 1) - length l)%nat (N.to_nat n)) as Hi.
      rewrite ext_length in Hi. specialize (Hi ltac:(lia)). lia.
Qed.

Lemma cost_strict_mono : forall cm, wf_cm cm -> positive_cm cm ->
  forall a b, a < b -> cost_of_jobs cm a < cost_of_jobs cm b.
Proof.
  intros cm Hwf Hpos a b Hab. pose proof (cost_strict_step cm Hwf Hpos a) as H1.
  pose proof (cost_mono cm Hwf (a + 1) b ltac:(lia)) as H2. lia.
Qed.

Lemma rbf_steps : forall (f : N -> N) cm l h, wf_cm cm -> positive_cm cm ->
  steps_spec f l h -> steps_spec (fun d => cost_of_jobs cm (f d)) l h.
Proof.
  intros f cm l h Hwf Hpos [Hs Hin]. split; [exact Hs|]. intros d. rewrite Hin.
  split; intros [H1 [H2 H3]]; (split; [exact H1|]); (split; [exact H2|]).
  - apply cost_strict_mono; assumption.
  - destruct (N.lt_ge_cases (f (d - 1)) (f d)) as [Hlt|Hge]; [exact Hlt|].
    pose proof (cost_mono cm Hwf _ _ Hge). lia.
Qed.

(* request bounds: every arrival bound inside is well-formed and outside the known classes, every
   cost model positive *)
Fixpoint rb_steps_ok (rb : RB) : Prop :=
  match rb with
  | RBF ab cm => wf_ab ab /\ steps_exact_class ab /\ wf_cm cm /\ positive_cm cm
  | Agg l => (fix all (l : list RB) : Prop := match l with [] => True | r :: l' => rb_steps_ok r /\ all l' end) l
  end.

Lemma rb_ok_agg : forall l, rb_steps_ok (Agg l) <-> Forall rb_steps_ok l.
Proof.
  induction l as [|a l IH].
  - split; intros _; constructor.
  - split.
    + intros [Ha Hl]. constructor; [exact Ha | apply IH; exact Hl].
    + intros H. inversion H as [|a' l' Ha Hl]; subst. split; [exact Ha | apply IH; exact Hl].
Qed.

Lemma RB_ind_st : forall P : RB -> Prop,
  (forall ab cm, P (RBF ab cm)) -> (forall l, Forall P l -> P (Agg l)) -> forall rb, P rb.
Proof.
  intros P H1 H2. fix IH 1. intros [ab cm|l].
  - apply H1.
  - apply H2. induction l as [|r l IHl]; constructor; [apply IH | exact IHl].
Qed.

Lemma rb_steps_both : forall rb, rb_steps_ok rb ->
  mono (sn rb) /\ forall h, steps_spec (sn rb) (rb_steps_upto rb h) h.
Proof.
  induction rb as [ab cm|l IH] using RB_ind_st; intros Hok.
  - destruct Hok as [Hwa [Hc [Hwc Hpos]]]. split.
    + intros x y Hxy. cbn [sn]. apply cost_mono; [exact Hwc|]. apply na_mono; assumption.
    + intros h. apply (steps_spec_ext (fun d => cost_of_jobs cm (na ab d))); [intros d; reflexivity|].
      cbn [rb_steps_upto]. apply rbf_steps; [exact Hwc | exact Hpos|]. apply steps_upto_exact; assumption.
  - apply rb_ok_agg in Hok.
    assert (Hall : Forall (fun r => mono (sn r) /\ forall h, steps_spec (sn r) (rb_steps_upto r h) h) l).
    { rewrite Forall_forall in *. intros r Hr. apply IH; [exact Hr | apply Hok; exact Hr]. }
    split.
    + apply (sum_mono sn l). eapply Forall_impl; [|exact Hall]. cbn beta. intros r Hr. apply Hr.
    + intros h. apply (steps_spec_ext (fun d => sumN (map (fun r => sn r d) l))); [intros d; reflexivity|].
      cbn [rb_steps_upto]. apply (sum_steps sn (fun r => rb_steps_upto r h)).
      eapply Forall_impl; [|exact Hall]. cbn beta. intros r [Hm Hs]. split; [exact Hm | apply Hs].
Qed.

Theorem rb_steps_upto_exact : forall rb, rb_steps_ok rb ->
  forall h, steps_spec (sn rb) (rb_steps_upto rb h) h.
Proof. intros rb Hok. apply rb_steps_both. exact Hok. Qed.
Print Assumptions rb_steps_upto_exact.

(* demand::step_offsets: the same points shifted by one, never an underflow *)
Theorem step_offsets_exact : forall rb, rb_steps_ok rb -> forall h,
  exists offs, step_offsets_below (rb_steps_upto rb h) = Some offs /\
    forall A, In A offs <-> (A < h /\ sn rb A < sn rb (A + 1)).
Proof.
  intros rb Hok h. destruct (rb_steps_upto_exact rb Hok h) as [Hs Hin].
  exists (map (fun d => d - 1) (rb_steps_upto rb h)). split.
  - unfold step_offsets_below. rewrite filter_pos_id; [reflexivity|].
    intros x Hx. apply Hin in Hx. lia.
  - intros A. rewrite in_map_iff. split.
    + intros [d [<- Hd]]. apply Hin in Hd. destruct Hd as [H1 [H2 H3]].
      split; [lia|]. replace (d - 1 + 1) with d by lia. exact H3.
    + intros [H1 H2]. exists (A + 1). split; [lia|]. apply Hin.
      split; [lia|]. split; [lia|]. replace (A + 1 - 1) with A by lia. exact H2.
Qed.
Print Assumptions step_offsets_exact.

(* ------------------------------------------------------------------------------------------ *)
(* 8. corollaries and the known classes                                                        *)
(* ------------------------------------------------------------------------------------------ *)
Corollary steps_start_with_one : forall ab, wf_ab ab -> steps_exact_class ab ->
  forall h, 1 <= h -> 0 < na ab 1 -> hd 0 (steps_upto ab h) = 1.
Proof.
  intros ab Hwf Hc h Hh Hna. destruct (steps_upto_exact ab Hwf Hc h) as [Hs Hin].
  assert (H1 : In 1 (steps_upto ab h)).
  { apply Hin. split; [lia|]. split; [exact Hh|]. change (1 - 1) with 0. rewrite na_zero by exact Hwf. exact Hna. }
  destruct (steps_upto ab h) as [|x l]; [destruct H1|]. cbn [hd].
  pose proof (proj1 (Hin x) (or_introl eq_refl)) as [Hx _].
  inversion Hs as [|? ? _ Hf]; subst. rewrite Forall_forall in Hf.
  destruct H1 as [E|H1]; [exact E|]. specialize (Hf 1 H1). lia.
Qed.
Print Assumptions steps_start_with_one.

Corollary steps_empty_when_nothing_arrives : forall ab, wf_ab ab -> steps_exact_class ab ->
  forall h, (forall d, na ab d = 0) -> steps_upto ab h = [].
Proof.
  intros ab Hwf Hc h H0. destruct (steps_upto_exact ab Hwf Hc h) as [_ Hin].
  destruct (steps_upto ab h) as [|x l]; [reflexivity|]. exfalso.
  pose proof (proj1 (Hin x) (or_introl eq_refl)) as [_ [_ Hx]]. rewrite !H0 in Hx. lia.
Qed.
Print Assumptions steps_empty_when_nothing_arrives.

Corollary steps_never_zero : forall ab, wf_ab ab -> steps_exact_class ab ->
  forall h, ~ In 0 (steps_upto ab h).
Proof.
  intros ab Hwf Hc h H. destruct (steps_upto_exact ab Hwf Hc h) as [_ Hin]. apply Hin in H. lia.
Qed.
Print Assumptions steps_never_zero.

(* the former finding C11-plateau-curve: the old witness vector (it ends in a plateau) is covered now *)
Theorem plateau_curve_steps_exact : wf_dmin [5; 10; 10] /\ plateau_end [5; 10; 10] /\
  (forall h, steps_spec (na (CurveAB [5; 10; 10])) (steps_upto (CurveAB [5; 10; 10]) h) h) /\
  na (CurveAB [5; 10; 10]) 10 = 2 /\ In 11 (steps_upto (CurveAB [5; 10; 10]) 12).
Proof.
  assert (Hwf : wf_dmin [5; 10; 10]).
  { split; [discriminate|]. split; [|vm_compute; reflexivity].
    intros [|[|i]] Hi; cbn [length] in Hi; [vm_compute; discriminate | vm_compute; discriminate | lia]. }
  split; [exact Hwf|]. split; [|split; [|split]].
  - split; [cbn [length]; lia | reflexivity].
  - intros h. apply (steps_upto_exact (CurveAB [5; 10; 10])); [exact Hwf | exact I].
  - vm_compute. reflexivity.
  - vm_compute. tauto.
Qed.
Print Assumptions plateau_curve_steps_exact.

(* every well-formed Curve, explicitly (no side condition on plateaus) *)
Theorem curve_ab_steps_exact : forall d, wf_dmin d ->
  forall h, steps_spec (na (CurveAB d)) (steps_upto (CurveAB d) h) h.
Proof. intros d Hwf h. apply (steps_upto_exact (CurveAB d)); [exact Hwf | exact I]. Qed.
Print Assumptions curve_ab_steps_exact.

(* the remaining known class is genuinely outside the theorem *)
Theorem prefix_zero_step_refuted : exists hz s h, wf_prefix hz s /\ In 0 (steps_upto (PrefixAB hz s) h).
Proof.
  exists 10, [(1, 1); (5, 2)], 12. split.
  - unfold wf_prefix. split; [lia|]. split; [discriminate|]. split; [reflexivity|]. split; [cbn; lia|]. split.
    + intros [|[|i]] Hi; cbn [length] in Hi; [vm_compute; discriminate | vm_compute; discriminate | lia].
    + intros [|i] Hi; cbn [length] in Hi; [|lia]. split; vm_compute; reflexivity.
  - vm_compute. left. reflexivity.
Qed.
Print Assumptions prefix_zero_step_refuted.

(* ------------------------------------------------------------------------------------------ *)
(* executable cross-check used before proving (kept as a regression test)                      *)
(* ------------------------------------------------------------------------------------------ *)
Definition check_steps (ab : AB) (h : N) : bool :=
  let spec := filter (fun d => na ab (d - 1) <? na ab d) (rangeN 1 h) in
  (lenN (steps_upto ab h) =? lenN spec) &&
  forallb (fun p => fst p =? snd p) (combine (steps_upto ab h) spec).

Example check_steps_sample :
  forallb (fun ab => forallb (check_steps ab) (rangeN 0 41))
    [Periodic 1; Periodic 7; Sporadic 3 0; Sporadic 3 7; Sporadic 5 13; Never;
     CurveAB [1]; CurveAB [0; 0; 3]; CurveAB [2; 2; 5]; CurveAB [3; 3; 3; 7];
     CurveAB [5; 10; 10]; CurveAB [0; 5; 5]; CurveAB [4; 4]; CurveAB [0; 0; 7; 7]; CurveAB [1; 1; 1];
     ExtrapAB [5]; ExtrapAB [0; 0; 3]; ExtrapAB [5; 10; 10]; ExtrapAB [2; 7; 7];
     Propagated 0 (CurveAB [0; 0; 3]); Propagated 5 (ExtrapAB [2; 7; 7]); Propagated 13 (Sporadic 3 4);
     SumAB []; SumAB [Periodic 3; Sporadic 4 2; CurveAB [0; 0; 3]];
     Propagated 4 (SumAB [Periodic 3; SumAB [Never; ExtrapAB [1; 1; 1; 4]]])] = true.
Proof. vm_compute. reflexivity. Qed.

(* the plateau class passes the same check (it failed before the repair of Curve::number_arrivals) *)
Example check_steps_plateau : check_steps (CurveAB [5; 10; 10]) 12 = true.
Proof. vm_compute. reflexivity. Qed.
