(* SupplyProofs.v — the supply-bound functions of Model/Supply.v are well behaved and their
   service_time functions are their exact inverses. *)
From Coq Require Import List NArith Lia Bool.
From RTA.Model Require Import Base Supply.

(* what a well-behaved supply-bound function and its inverse are *)
Definition sbf_ok (f : N -> N) : Prop :=
  f 0 = 0 /\ (forall a b, a <= b -> f a <= f b) /\ (forall t, f (t + 1) <= f t + 1).
(* g is the exact inverse of f: g d is the least t with f t >= d *)
Definition exact_inverse (f g : N -> N) : Prop := forall d t, g d <= t <-> d <= f t.

(* ------------------------------------------------------------------------------------------ *)
(* generic facts                                                                              *)
(* ------------------------------------------------------------------------------------------ *)

Lemma sp_mono_of_step (f : N -> N) :
  (forall t, f t <= f (t + 1)) -> forall a b, a <= b -> f a <= f b.
Proof.
  intros Hs a b Hab.
  replace b with (a + (b - a)) by lia.
  generalize (b - a) as k. clear b Hab.
  induction k as [|k IH] using N.peano_ind.
  - rewrite N.add_0_r. lia.
  - replace (a + N.succ k) with (a + k + 1) by lia.
    specialize (Hs (a + k)). lia.
Qed.

Lemma sp_ok_of_step (f : N -> N) :
  f 0 = 0 -> (forall t, f t <= f (t + 1) /\ f (t + 1) <= f t + 1) -> sbf_ok f.
Proof.
  intros H0 Hs. split; [exact H0|]. split.
  - apply sp_mono_of_step. intros t. apply Hs.
  - intros t. apply Hs.
Qed.

(* f grows by at most the distance *)
Lemma sp_lipschitz (f : N -> N) :
  sbf_ok f -> forall t k, f (t + k) <= f t + k.
Proof.
  intros (_ & _ & Hl) t k.
  induction k as [|k IH] using N.peano_ind.
  - rewrite N.add_0_r. lia.
  - replace (t + N.succ k) with (t + k + 1) by lia.
    specialize (Hl (t + k)). lia.
Qed.

Lemma sp_below_id (f : N -> N) : sbf_ok f -> forall t, f t <= t.
Proof.
  intros Hok t. pose proof (sp_lipschitz f Hok 0 t) as H.
  destruct Hok as (H0 & _). rewrite N.add_0_l in H. lia.
Qed.

(* the shape used for the closed forms: g 0 = 0 and for d > 0, g d is a successor, f jumps to
   at least d exactly there *)
Lemma sp_exact_inverse_intro (f g : N -> N) :
  (forall a b, a <= b -> f a <= f b) ->
  g 0 = 0 ->
  (forall d, 0 < d -> exists t, g d = t + 1 /\ f t < d /\ d <= f (t + 1)) ->
  exact_inverse f g.
Proof.
  intros Hm H0 Hg d t.
  destruct (N.eq_dec d 0) as [->|Hd].
  - rewrite H0. split; intros; lia.
  - destruct (Hg d ltac:(lia)) as (u & Hu & Hlt & Hge). rewrite Hu. split.
    + intros Hle. pose proof (Hm (u + 1) t Hle). lia.
    + intros Hle. destruct (N.le_gt_cases (u + 1) t) as [|Hgt]; [assumption|].
      pose proof (Hm t u ltac:(lia)). lia.
Qed.

(* the shape obtained for the default service_time: g d is a solution and is the least one *)
Lemma sp_exact_inverse_least (f : N -> N) (g : N -> N) :
  (forall a b, a <= b -> f a <= f b) ->
  (forall d, d <= f (g d) /\ forall s, d <= f s -> g d <= s) ->
  exact_inverse f g.
Proof.
  intros Hm Hg d t. destruct (Hg d) as (Hs & Hl). split.
  - intros Hle. pose proof (Hm _ _ Hle). lia.
  - apply Hl.
Qed.

(* division of [q * P + r] *)
Lemma sp_div_decomp (P q r : N) : r < P -> (q * P + r) / P = q.
Proof.
  intros Hr. symmetry. apply N.div_unique with r; [assumption|lia].
Qed.

Lemma sp_decomp (P x : N) : 0 < P -> exists q r, x = q * P + r /\ r < P.
Proof.
  intros HP. exists (x / P), (x mod P). split.
  - pose proof (N.div_mod x P ltac:(lia)). lia.
  - apply N.mod_lt. lia.
Qed.

(* ------------------------------------------------------------------------------------------ *)
(* Periodic                                                                                   *)
(* ------------------------------------------------------------------------------------------ *)

Lemma periodic_sbf_low Q P delta : delta < P - Q -> periodic_sbf Q P delta = 0.
Proof.
  intros H. unfold periodic_sbf. destruct (N.ltb_spec delta (P - Q)); [reflexivity|lia].
Qed.

Lemma periodic_sbf_char Q P q r :
  1 <= Q -> Q <= P -> r < P ->
  periodic_sbf Q P ((P - Q) + q * P + r) = Q * q + (r - (P - Q)).
Proof.
  intros HQ HP Hr. unfold periodic_sbf.
  destruct (N.ltb_spec (P - Q + q * P + r) (P - Q)) as [Hlt|_]; [lia|].
  replace (P - Q + q * P + r - (P - Q)) with (q * P + r) by lia.
  rewrite (sp_div_decomp P q r Hr).
  destruct (N.ltb_spec (P - Q + (P - Q) + P * q) (P - Q + q * P + r)); lia.
Qed.

Lemma periodic_sbf_step Q P t :
  1 <= Q -> Q <= P ->
  periodic_sbf Q P t <= periodic_sbf Q P (t + 1) /\ periodic_sbf Q P (t + 1) <= periodic_sbf Q P t + 1.
Proof.
  intros HQ HP.
  destruct (N.lt_ge_cases t (P - Q)) as [Hlow|Hhigh].
  - rewrite (periodic_sbf_low Q P t Hlow).
    destruct (N.lt_ge_cases (t + 1) (P - Q)) as [Hlow'|Hhigh'].
    + rewrite (periodic_sbf_low Q P (t + 1) Hlow'). lia.
    + replace (t + 1) with ((P - Q) + 0 * P + 0) by lia.
      rewrite (periodic_sbf_char Q P 0 0 HQ HP ltac:(lia)). lia.
  - destruct (sp_decomp P (t - (P - Q)) ltac:(lia)) as (q & r & Hqr & Hr).
    replace t with ((P - Q) + q * P + r) by lia.
    rewrite (periodic_sbf_char Q P q r HQ HP Hr).
    destruct (N.lt_ge_cases (r + 1) P) as [Hr1|Hr1].
    + replace (P - Q + q * P + r + 1) with ((P - Q) + q * P + (r + 1)) by lia.
      rewrite (periodic_sbf_char Q P q (r + 1) HQ HP Hr1). lia.
    + replace (P - Q + q * P + r + 1) with ((P - Q) + (q + 1) * P + 0) by lia.
      rewrite (periodic_sbf_char Q P (q + 1) 0 HQ HP ltac:(lia)). lia.
Qed.

Lemma periodic_sbf_zero Q P : 1 <= Q -> Q <= P -> periodic_sbf Q P 0 = 0.
Proof.
  intros HQ HP. destruct (N.eq_dec (P - Q) 0) as [E|E].
  - replace 0 with ((P - Q) + 0 * P + 0) at 1 by lia.
    rewrite (periodic_sbf_char Q P 0 0 HQ HP ltac:(lia)). lia.
  - apply periodic_sbf_low. lia.
Qed.

Theorem periodic_sbf_ok : forall Q P, 1 <= Q -> Q <= P -> sbf_ok (periodic_sbf Q P).
Proof.
  intros Q P HQ HP. apply sp_ok_of_step.
  - apply periodic_sbf_zero; assumption.
  - intros t. apply periodic_sbf_step; assumption.
Qed.
Print Assumptions periodic_sbf_ok.

Lemma periodic_st_char Q P q r :
  1 <= Q -> r < Q -> 0 < q * Q + r ->
  periodic_st Q P (q * Q + r) =
  (P - Q) + P * q + (if r =? 0 then 0 else (P - Q) + r).
Proof.
  intros HQ Hr Hd. unfold periodic_st.
  destruct (N.eqb_spec (q * Q + r) 0) as [E|_]; [lia|].
  rewrite (sp_div_decomp Q q r Hr).
  destruct (N.ltb_spec (Q * q) (q * Q + r)); destruct (N.eqb_spec r 0); lia.
Qed.

Lemma periodic_st_zero Q P : periodic_st Q P 0 = 0.
Proof. reflexivity. Qed.

Theorem periodic_st_exact : forall Q P, 1 <= Q -> Q <= P -> exact_inverse (periodic_sbf Q P) (periodic_st Q P).
Proof.
  intros Q P HQ HP.
  apply sp_exact_inverse_intro.
  - apply (periodic_sbf_ok Q P HQ HP).
  - apply periodic_st_zero.
  - intros d Hd.
    destruct (sp_decomp Q d ltac:(lia)) as (q & r & -> & Hr).
    rewrite (periodic_st_char Q P q r HQ Hr Hd).
    destruct (N.eqb_spec r 0) as [->|Hr0].
    + (* a whole number of budgets: q >= 1 *)
      assert (exists q', q = q' + 1) as (q' & ->) by (exists (q - 1); nia).
      exists ((P - Q) + q' * P + (P - 1)). split; [lia|].
      rewrite (periodic_sbf_char Q P q' (P - 1) HQ HP ltac:(lia)).
      replace (P - Q + q' * P + (P - 1) + 1) with ((P - Q) + (q' + 1) * P + 0) by lia.
      rewrite (periodic_sbf_char Q P (q' + 1) 0 HQ HP ltac:(lia)). lia.
    + exists ((P - Q) + q * P + ((P - Q) + r - 1)). split; [lia|].
      rewrite (periodic_sbf_char Q P q (P - Q + r - 1) HQ HP ltac:(lia)).
      replace (P - Q + q * P + (P - Q + r - 1) + 1) with ((P - Q) + q * P + ((P - Q) + r)) by lia.
      rewrite (periodic_sbf_char Q P q (P - Q + r) HQ HP ltac:(lia)). lia.
Qed.
Print Assumptions periodic_st_exact.

(* ------------------------------------------------------------------------------------------ *)
(* Constrained                                                                                *)
(* ------------------------------------------------------------------------------------------ *)

Lemma constrained_sbf_low Q D P delta : delta < P - Q -> constrained_sbf Q D P delta = 0.
Proof.
  intros H. unfold constrained_sbf. destruct (N.ltb_spec delta (P - Q)); [reflexivity|lia].
Qed.

Lemma constrained_sbf_char Q D P q r :
  1 <= Q -> Q <= D -> D <= P -> r < P ->
  constrained_sbf Q D P ((P - Q) + q * P + r) = Q * q + N.min Q (r - (D - Q)).
Proof.
  intros HQ HD HP Hr. unfold constrained_sbf.
  destruct (N.ltb_spec (P - Q + q * P + r) (P - Q)) as [Hlt|_]; [lia|].
  replace (P - Q + q * P + r - (P - Q)) with (q * P + r) by lia.
  rewrite (sp_div_decomp P q r Hr).
  destruct (N.ltb_spec (P - Q + P * q + D - Q) (P - Q + q * P + r)); lia.
Qed.

Lemma constrained_sbf_step Q D P t :
  1 <= Q -> Q <= D -> D <= P ->
  constrained_sbf Q D P t <= constrained_sbf Q D P (t + 1) /\
  constrained_sbf Q D P (t + 1) <= constrained_sbf Q D P t + 1.
Proof.
  intros HQ HD HP.
  destruct (N.lt_ge_cases t (P - Q)) as [Hlow|Hhigh].
  - rewrite (constrained_sbf_low Q D P t Hlow).
    destruct (N.lt_ge_cases (t + 1) (P - Q)) as [Hlow'|Hhigh'].
    + rewrite (constrained_sbf_low Q D P (t + 1) Hlow'). lia.
    + replace (t + 1) with ((P - Q) + 0 * P + 0) by lia.
      rewrite (constrained_sbf_char Q D P 0 0 HQ HD HP ltac:(lia)). lia.
  - destruct (sp_decomp P (t - (P - Q)) ltac:(lia)) as (q & r & Hqr & Hr).
    replace t with ((P - Q) + q * P + r) by lia.
    rewrite (constrained_sbf_char Q D P q r HQ HD HP Hr).
    destruct (N.lt_ge_cases (r + 1) P) as [Hr1|Hr1].
    + replace (P - Q + q * P + r + 1) with ((P - Q) + q * P + (r + 1)) by lia.
      rewrite (constrained_sbf_char Q D P q (r + 1) HQ HD HP Hr1). lia.
    + replace (P - Q + q * P + r + 1) with ((P - Q) + (q + 1) * P + 0) by lia.
      rewrite (constrained_sbf_char Q D P (q + 1) 0 HQ HD HP ltac:(lia)). lia.
Qed.

Lemma constrained_sbf_zero Q D P : 1 <= Q -> Q <= D -> D <= P -> constrained_sbf Q D P 0 = 0.
Proof.
  intros HQ HD HP. destruct (N.eq_dec (P - Q) 0) as [E|E].
  - replace 0 with ((P - Q) + 0 * P + 0) at 1 by lia.
    rewrite (constrained_sbf_char Q D P 0 0 HQ HD HP ltac:(lia)). lia.
  - apply constrained_sbf_low. lia.
Qed.

Theorem constrained_sbf_ok : forall Q D P, 1 <= Q -> Q <= D -> D <= P -> sbf_ok (constrained_sbf Q D P).
Proof.
  intros Q D P HQ HD HP. apply sp_ok_of_step.
  - apply constrained_sbf_zero; assumption.
  - intros t. apply constrained_sbf_step; assumption.
Qed.
Print Assumptions constrained_sbf_ok.

Lemma constrained_st_char Q D P q r :
  1 <= Q -> Q <= D -> D <= P -> r < Q -> 0 < q * Q + r ->
  constrained_st Q D P (q * Q + r) =
  (D - Q) + P * q + (if r =? 0 then 0 else r + (P - Q)).
Proof.
  intros HQ HD HP Hr Hd. unfold constrained_st.
  destruct (N.eqb_spec (q * Q + r) 0) as [E|_]; [lia|].
  rewrite (sp_div_decomp Q q r Hr).
  destruct (N.ltb_spec (Q * q) (q * Q + r)); destruct (N.eqb_spec r 0); lia.
Qed.

Theorem constrained_st_exact : forall Q D P, 1 <= Q -> Q <= D -> D <= P -> exact_inverse (constrained_sbf Q D P) (constrained_st Q D P).
Proof.
  intros Q D P HQ HD HP.
  apply sp_exact_inverse_intro.
  - apply (constrained_sbf_ok Q D P HQ HD HP).
  - reflexivity.
  - intros d Hd.
    destruct (sp_decomp Q d ltac:(lia)) as (q & r & -> & Hr).
    rewrite (constrained_st_char Q D P q r HQ HD HP Hr Hd).
    destruct (N.eqb_spec r 0) as [->|Hr0].
    + assert (exists q', q = q' + 1) as (q' & ->) by (exists (q - 1); nia).
      exists ((P - Q) + q' * P + (D - 1)). split; [lia|].
      rewrite (constrained_sbf_char Q D P q' (D - 1) HQ HD HP ltac:(lia)).
      split; [lia|].
      destruct (N.eq_dec D P) as [E|E].
      * replace (P - Q + q' * P + (D - 1) + 1) with ((P - Q) + (q' + 1) * P + 0) by lia.
        rewrite (constrained_sbf_char Q D P (q' + 1) 0 HQ HD HP ltac:(lia)). lia.
      * replace (P - Q + q' * P + (D - 1) + 1) with ((P - Q) + q' * P + D) by lia.
        rewrite (constrained_sbf_char Q D P q' D HQ HD HP ltac:(lia)). lia.
    + exists ((P - Q) + q * P + ((D - Q) + r - 1)). split; [lia|].
      rewrite (constrained_sbf_char Q D P q (D - Q + r - 1) HQ HD HP ltac:(lia)).
      replace (P - Q + q * P + (D - Q + r - 1) + 1) with ((P - Q) + q * P + ((D - Q) + r)) by lia.
      rewrite (constrained_sbf_char Q D P q (D - Q + r) HQ HD HP ltac:(lia)). lia.
Qed.
Print Assumptions constrained_st_exact.

(* ------------------------------------------------------------------------------------------ *)
(* special cases                                                                              *)
(* ------------------------------------------------------------------------------------------ *)

Theorem constrained_deadline_eq_period : forall Q P x, 1 <= Q -> Q <= P ->
   constrained_sbf Q P P x = periodic_sbf Q P x /\ constrained_st Q P P x = periodic_st Q P x.
Proof.
  intros Q P x HQ HP. split.
  - destruct (N.lt_ge_cases x (P - Q)) as [Hlow|Hhigh].
    + rewrite constrained_sbf_low, periodic_sbf_low by assumption. reflexivity.
    + destruct (sp_decomp P (x - (P - Q)) ltac:(lia)) as (q & r & Hqr & Hr).
      replace x with ((P - Q) + q * P + r) by lia.
      rewrite (constrained_sbf_char Q P P q r HQ HP ltac:(lia) Hr).
      rewrite (periodic_sbf_char Q P q r HQ HP Hr). lia.
  - unfold constrained_st, periodic_st.
    destruct (N.eqb_spec x 0); [reflexivity|].
    pose proof (N.mul_div_le x Q ltac:(lia)).
    destruct (N.ltb_spec (Q * (x / Q)) x); lia.
Qed.
Print Assumptions constrained_deadline_eq_period.

Theorem periodic_full_budget_is_dedicated : forall P x, 1 <= P -> periodic_sbf P P x = x /\ periodic_st P P x = x.
Proof.
  intros P x HP. pose proof (N.mul_div_le x P ltac:(lia)) as Hle. split.
  - unfold periodic_sbf.
    destruct (N.ltb_spec x (P - P)); [lia|].
    replace (x - (P - P)) with x by lia.
    destruct (N.ltb_spec (P - P + (P - P) + P * (x / P)) x); lia.
  - unfold periodic_st.
    destruct (N.eqb_spec x 0); [lia|].
    destruct (N.ltb_spec (P * (x / P)) x); lia.
Qed.
Print Assumptions periodic_full_budget_is_dedicated.

(* ------------------------------------------------------------------------------------------ *)
(* loops: binary fuel = unary fuel (private copies)                                           *)
(* ------------------------------------------------------------------------------------------ *)

Lemma sp_loop_nat_add {S R : Type} (body : S -> S + R) (n m : nat) (s : S) :
  loop_nat (n + m) body s =
  match loop_nat n body s with inl s' => loop_nat m body s' | inr r => inr r end.
Proof.
  revert s. induction n as [|n IH]; intros s; cbn [loop_nat Nat.add]; [reflexivity|].
  destruct (body s) as [s'|r]; [apply IH|reflexivity].
Qed.

Lemma sp_loop_pos_nat {S R : Type} (body : S -> S + R) (p : positive) (s : S) :
  loop_pos p body s = loop_nat (Pos.to_nat p) body s.
Proof.
  revert s. induction p as [p IH|p IH|]; intros s; cbn [loop_pos].
  - rewrite Pnat.Pos2Nat.inj_xI.
    replace (Datatypes.S (2 * Pos.to_nat p)) with (1 + (Pos.to_nat p + Pos.to_nat p))%nat by lia.
    rewrite sp_loop_nat_add. cbn [loop_nat].
    destruct (body s) as [s'|r]; [|reflexivity].
    rewrite sp_loop_nat_add, <- IH.
    destruct (loop_pos p body s') as [s''|r]; [apply IH|reflexivity].
  - rewrite Pnat.Pos2Nat.inj_xO.
    replace (2 * Pos.to_nat p)%nat with (Pos.to_nat p + Pos.to_nat p)%nat by lia.
    rewrite sp_loop_nat_add, <- IH.
    destruct (loop_pos p body s) as [s'|r]; [apply IH|reflexivity].
  - change (Pos.to_nat 1) with 1%nat. cbn [loop_nat].
    destruct (body s); reflexivity.
Qed.

Lemma sp_loopN_nat {S R : Type} (fuel : N) (body : S -> S + R) (s : S) :
  loopN fuel body s = loop_nat (N.to_nat fuel) body s.
Proof.
  destruct fuel as [|p]; [reflexivity|]. cbn [loopN N.to_nat]. apply sp_loop_pos_nat.
Qed.

(* ------------------------------------------------------------------------------------------ *)
(* the trait's default service_time                                                           *)
(* ------------------------------------------------------------------------------------------ *)

(* the loop variable never overshoots a solution, strictly increases, hence reaches the least one *)
Lemma sp_default_loop (f : N -> N) (d tstar : N) :
  sbf_ok f -> d <= f tstar ->
  forall (n : nat) (t : N),
    (forall s, d <= f s -> t <= s) ->
    tstar < t + N.of_nat n ->
    exists r, loop_nat n (default_st_body f d) t = inr r /\
              d <= f r /\ (forall s, d <= f s -> r <= s).
Proof.
  intros Hok Hstar.
  induction n as [|n IH]; intros t Hinv Hfuel.
  - pose proof (Hinv tstar Hstar). lia.
  - cbn [loop_nat]. unfold default_st_body at 1.
    destruct (N.leb_spec d (f t)) as [Hdone|Hmore].
    + exists t. auto.
    + apply IH.
      * intros s Hs.
        pose proof (Hinv s Hs) as Hts.
        pose proof (sp_lipschitz f Hok t (s - t)) as Hl.
        replace (t + (s - t)) with s in Hl by lia. lia.
      * lia.
Qed.

Lemma sp_default_st_spec (f : N -> N) d fuel tstar :
  sbf_ok f -> d <= f tstar -> tstar < fuel ->
  d <= f (default_st f fuel d) /\ forall s, d <= f s -> default_st f fuel d <= s.
Proof.
  intros Hok Hstar Hfuel.
  destruct (sp_default_loop f d tstar Hok Hstar (N.to_nat fuel) d) as (r & Hr & Hsol & Hleast).
  - intros s Hs. pose proof (sp_below_id f Hok s). lia.
  - rewrite Nnat.N2Nat.id. lia.
  - unfold default_st. rewrite sp_loopN_nat, Hr. auto.
Qed.

Theorem default_st_exact : forall (f : N -> N) d fuel tstar,
   sbf_ok f -> d <= f tstar -> tstar < fuel ->
   forall t, default_st f fuel d <= t <-> d <= f t.
Proof.
  intros f d fuel tstar Hok Hstar Hfuel t.
  destruct (sp_default_st_spec f d fuel tstar Hok Hstar Hfuel) as (Hsol & Hleast).
  split.
  - intros Hle. destruct Hok as (_ & Hm & _). pose proof (Hm _ _ Hle). lia.
  - apply Hleast.
Qed.
Print Assumptions default_st_exact.

(* ------------------------------------------------------------------------------------------ *)
(* tables                                                                                     *)
(* ------------------------------------------------------------------------------------------ *)

Definition wf_tbl (tbl : list N) : Prop :=
  tbl <> [] /\ nthN tbl 0 = 0 /\
  forall i, (S i < length tbl)%nat -> nthN tbl i <= nthN tbl (S i) /\ nthN tbl (S i) <= nthN tbl i + 1.

Lemma sp_last_nth (tbl : list N) : lastN tbl = nthN tbl (length tbl - 1).
Proof.
  unfold lastN, nthN.
  induction tbl as [|a l IH]; [reflexivity|].
  destruct l as [|b l']; [reflexivity|].
  change (last (a :: b :: l') 0) with (last (b :: l') 0). rewrite IH.
  cbn [length]. replace (S (S (length l')) - 1)%nat with (S (S (length l') - 1)) by lia.
  reflexivity.
Qed.

Lemma table_sbf_step tbl t : wf_tbl tbl ->
  table_sbf tbl t <= table_sbf tbl (t + 1) /\ table_sbf tbl (t + 1) <= table_sbf tbl t + 1.
Proof.
  intros (Hne & H0 & Hstep). unfold table_sbf.
  assert (Hlen : 0 < lenN tbl).
  { unfold lenN. destruct tbl; [congruence|cbn [length]; lia]. }
  destruct (N.ltb_spec t (lenN tbl)) as [Ht|Ht];
  destruct (N.ltb_spec (t + 1) (lenN tbl)) as [Ht1|Ht1]; try lia.
  - replace (N.to_nat (t + 1)) with (S (N.to_nat t)) by lia.
    apply Hstep. unfold lenN in Ht1. lia.
  - rewrite sp_last_nth.
    replace (length tbl - 1)%nat with (N.to_nat t) by (unfold lenN in *; lia).
    lia.
Qed.

Lemma table_sbf_ok tbl : wf_tbl tbl -> sbf_ok (table_sbf tbl).
Proof.
  intros Hwf. apply sp_ok_of_step.
  - destruct Hwf as (Hne & H0 & _). unfold table_sbf.
    destruct (N.ltb_spec 0 (lenN tbl)) as [_|H]; [exact H0|].
    unfold lenN in H. destruct tbl; [congruence|cbn [length] in H; lia].
  - intros t. apply table_sbf_step. assumption.
Qed.

Lemma table_sbf_reach tbl d : d <= table_sbf tbl (lenN tbl + d).
Proof.
  unfold table_sbf. destruct (N.ltb_spec (lenN tbl + d) (lenN tbl)); lia.
Qed.

(* ------------------------------------------------------------------------------------------ *)
(* the deep embedding                                                                         *)
(* ------------------------------------------------------------------------------------------ *)

Fixpoint wf_sb (sb : SB) : Prop :=
  match sb with
  | Dedicated => True
  | PeriodicS Q P => 1 <= Q /\ Q <= P
  | ConstrainedS Q D P => 1 <= Q /\ Q <= D /\ D <= P
  | DefaultST sb' => wf_sb sb'
  | TableS tbl => tbl <> [] /\ nthN tbl 0 = 0 /\
       forall i, (S i < length tbl)%nat -> nthN tbl i <= nthN tbl (S i) /\ nthN tbl (S i) <= nthN tbl i + 1
  end.

Theorem sbf_wf_ok : forall sb, wf_sb sb -> sbf_ok (sbf sb).
Proof.
  induction sb as [|Q P|Q D P|sb' IH|tbl]; intros Hwf.
  - split; [reflexivity|]. split; intros; cbn [sbf]; lia.
  - destruct Hwf. apply periodic_sbf_ok; assumption.
  - destruct Hwf as (? & ? & ?). apply constrained_sbf_ok; assumption.
  - apply IH. exact Hwf.
  - apply table_sbf_ok. exact Hwf.
Qed.
Print Assumptions sbf_wf_ok.

(* bounds on the closed-form inverses *)
Lemma periodic_st_bound Q P d : 1 <= Q -> Q <= P -> periodic_st Q P d <= P * (d + 2).
Proof.
  intros HQ HP. destruct (N.eq_dec d 0) as [->|Hd].
  - rewrite periodic_st_zero. lia.
  - destruct (sp_decomp Q d ltac:(lia)) as (q & r & -> & Hr).
    rewrite (periodic_st_char Q P q r HQ Hr ltac:(lia)).
    assert (P * q <= P * (q * Q + r)) by nia.
    destruct (N.eqb_spec r 0); lia.
Qed.

Lemma constrained_st_bound Q D P d : 1 <= Q -> Q <= D -> D <= P -> constrained_st Q D P d <= P * (d + 2).
Proof.
  intros HQ HD HP. destruct (N.eq_dec d 0) as [->|Hd].
  - change (constrained_st Q D P 0) with 0. lia.
  - destruct (sp_decomp Q d ltac:(lia)) as (q & r & -> & Hr).
    rewrite (constrained_st_char Q D P q r HQ HD HP Hr ltac:(lia)).
    assert (P * q <= P * (q * Q + r)) by nia.
    destruct (N.eqb_spec r 0); lia.
Qed.

(* some solution lies strictly below the fuel *)
Lemma st_fuel_enough : forall sb, wf_sb sb -> forall d, exists tstar, d <= sbf sb tstar /\ tstar < st_fuel sb d.
Proof.
  induction sb as [|Q P|Q D P|sb' IH|tbl]; intros Hwf d.
  - exists d. cbn [sbf st_fuel]. lia.
  - destruct Hwf as (HQ & HP). exists (periodic_st Q P d). cbn [sbf st_fuel]. split.
    + apply (periodic_st_exact Q P HQ HP). lia.
    + pose proof (periodic_st_bound Q P d HQ HP). lia.
  - destruct Hwf as (HQ & HD & HP). exists (constrained_st Q D P d). cbn [sbf st_fuel]. split.
    + apply (constrained_st_exact Q D P HQ HD HP). lia.
    + pose proof (constrained_st_bound Q D P d HQ HD HP). lia.
  - apply IH. exact Hwf.
  - exists (lenN tbl + d). cbn [sbf st_fuel]. split; [apply table_sbf_reach|lia].
Qed.

Theorem st_wf_exact : forall sb, wf_sb sb -> exact_inverse (sbf sb) (st sb).
Proof.
  intros sb Hwf. destruct sb as [|Q P|Q D P|sb'|tbl].
  - intros d t. cbn [sbf st]. reflexivity.
  - destruct Hwf. apply periodic_st_exact; assumption.
  - destruct Hwf as (? & ? & ?). apply constrained_st_exact; assumption.
  - intros d t. cbn [st sbf].
    destruct (st_fuel_enough sb' Hwf d) as (tstar & Hs & Hf).
    apply (default_st_exact (sbf sb') d (st_fuel sb' d) tstar (sbf_wf_ok sb' Hwf) Hs Hf).
  - intros d t. cbn [st sbf].
    destruct (st_fuel_enough (TableS tbl) Hwf d) as (tstar & Hs & Hf).
    apply (default_st_exact (table_sbf tbl) d (lenN tbl + d + 2) tstar (sbf_wf_ok (TableS tbl) Hwf) Hs Hf).
Qed.
Print Assumptions st_wf_exact.

(* convenient corollaries used elsewhere *)
Corollary sbf_st : forall sb, wf_sb sb -> forall d, d <= sbf sb (st sb d).
Proof.
  intros sb Hwf d. apply (st_wf_exact sb Hwf). lia.
Qed.

Corollary st_least : forall sb, wf_sb sb -> forall d t, d <= sbf sb t -> st sb d <= t.
Proof.
  intros sb Hwf d t H. apply (st_wf_exact sb Hwf). exact H.
Qed.

Corollary st_mono : forall sb, wf_sb sb -> forall a b, a <= b -> st sb a <= st sb b.
Proof.
  intros sb Hwf a b Hab. apply st_least; [assumption|].
  pose proof (sbf_st sb Hwf b). lia.
Qed.

Corollary st_zero : forall sb, wf_sb sb -> st sb 0 = 0.
Proof.
  intros sb Hwf. pose proof (st_least sb Hwf 0 0 ltac:(lia)). lia.
Qed.
Print Assumptions st_mono.
Print Assumptions sbf_st.
Print Assumptions st_least.
Print Assumptions st_zero.
