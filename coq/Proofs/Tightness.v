(* Tightness.v — property C18: the bounds of the FIFO analysis, of the fully preemptive and of the
   fully non-preemptive fixed-priority analysis are ATTAINED for task sets with exact, realisable
   arrival models (Periodic T, Sporadic T J) and scalar WCETs: there is a compliant job set and a
   legal schedule in which some job (of the analysed task) has response time exactly R.  Together
   with the soundness theorems ([fifo_rta_sound], [fp_fully_preemptive_sound],
   [fp_fully_nonpreemptive_sound]) the bounds are tight.

   The lower bounds need no busy-window argument: in the constructed schedule the victim v is the
   job of greatest rank in the set S of jobs the analysis charges to it; in the slot in which v runs
   last (preemptive) resp. first (non-preemptive) every released job of lower rank is complete, so
   the work of S (which the dense releases make EQUAL to the request bound) fits before that slot;
   leastness of the fixed point AF then places that slot at or after AF.

   Contents
   1. an executable rank-driven work-conserving scheduler [rsched] (lowest rank among the pending
      jobs first) with its legality lemmas [rs_valid], [rs_work_conserving], [rs_min];
   2. the generic lower bound [rs_lower];
   3. dense release sequences ([dense]: job m of a task released at O + (m * T - J), all tasks
      synchronised at a common origin O >= every jitter): admissible, and attaining the arrival
      curve in every window starting at O ([dense_admissible], [dense_count]);
   4. the job set [mk_jobs] and its compliance ([mk_respects_curves], [mk_respects_costs]) and exact
      workload ([mk_task_work], [mk_total_work], [mk_hp_work]);
   5. [rs_fifo_policy], [fifo_bound_attained];
   6. [rs_fp_legal], [fp_preemptive_bound_attained];
   7. the non-preemptive variant [np_sched] of the scheduler ([np_valid], [np_work_conserving],
      [np_legal], [np_lower]), the job set [np_jobs] with a blocking job of a lower-priority task
      released one slot before the origin, and [fp_nonpreemptive_bound_attained];
   8. non-vacuity: the three theorems applied to a concrete task set. *)
From Coq Require Import Arith NArith List Lia Bool Permutation.
From RTA.Model Require Import Base Arrival Wcet Demand Analyses Eval WellFormed.
From RTA.Spec Require Import Sched Events TaskModel Policies Exhaustive.
From RTA.Proofs Require Import FixedPointProofs ExhFP ExhCorollaries ArrivalNaProofs WcetProofs StepsProofs
  EntryPoints Workload FifoSound FifoEndToEnd FpSound.
Import ListNotations.
Local Close Scope N_scope.
Local Open Scope nat_scope.

(* ------------------------------------------------------------------------------------------ *)
(* 1. the rank-driven scheduler                                                                *)
(* ------------------------------------------------------------------------------------------ *)
Section RankSched.
  Variable jobs : list job.
  Variable rank : nat -> nat.
  Notation n := (length jobs).

  (* the element of least rank (the first one among equals) *)
  Fixpoint argmin (l : list nat) : option nat :=
    match l with
    | [] => None
    | x :: l' => match argmin l' with
                 | None => Some x
                 | Some y => if rank x <=? rank y then Some x else Some y
                 end
    end.

  (* s = service received so far *)
  Definition pendb (s : nat -> nat) (t j : nat) : bool := (arr jobs j <=? t) && (s j <? cost jobs j).
  Definition pick (s : nat -> nat) (t : nat) : option nat := argmin (filter (pendb s t) (seq 0 n)).
  Definition bump (c : option nat) (j : nat) : nat :=
    match c with Some k => if k =? j then 1 else 0 | None => 0 end.
  Fixpoint srv (t : nat) : nat -> nat :=
    match t with
    | 0 => fun _ => 0
    | S t' => let s := srv t' in let c := pick s t' in fun j => s j + bump c j
    end.
  Definition rsched (t : nat) : option nat := pick (srv t) t.

  (* ---- argmin ---- *)
  Lemma argmin_none : forall l, argmin l = None <-> l = [].
  Proof.
    intros [|x l]; [split; reflexivity|]. cbn [argmin]. split; [|discriminate].
    destruct (argmin l) as [y|]; [destruct (rank x <=? rank y)|]; discriminate.
  Qed.

  Lemma argmin_some : forall l x, argmin l = Some x -> In x l /\ forall y, In y l -> rank x <= rank y.
  Proof.
    induction l as [|a l IH]; intros x H; [discriminate|]. cbn [argmin] in H.
    destruct (argmin l) as [y|] eqn:E.
    - destruct (IH y eq_refl) as [Hin Hmin].
      destruct (Nat.leb_spec (rank a) (rank y)) as [Hle|Hgt]; injection H as <-.
      + split; [left; reflexivity|]. intros z [<-|Hz]; [lia|]. specialize (Hmin z Hz). lia.
      + split; [right; exact Hin|]. intros z [<-|Hz]; [lia|]. apply Hmin; exact Hz.
    - injection H as <-. apply argmin_none in E. subst l. split; [left; reflexivity|].
      intros z [<-|[]]. lia.
  Qed.

  (* ---- the state of the scheduler is the service function of the schedule ---- *)
  Lemma srv_service : forall j t, service rsched j t = srv t j.
  Proof.
    intros j t. induction t as [|t IH]; [reflexivity|]. rewrite service_S, IH.
    change (srv (S t) j) with (srv t j + bump (pick (srv t) t) j). reflexivity.
  Qed.

  Lemma pend_iff : forall j t, pending jobs rsched j t <-> j < n /\ pendb (srv t) t j = true.
  Proof.
    intros j t. unfold pending, pendb. rewrite srv_service, andb_true_iff, Nat.leb_le, Nat.ltb_lt. tauto.
  Qed.

  Theorem rs_valid : valid jobs rsched.
  Proof.
    intros t j E. unfold rsched, pick in E. apply argmin_some in E. destruct E as [Hin _].
    apply filter_In in Hin. destruct Hin as [Hs Hp]. apply in_seq in Hs.
    apply pend_iff. split; [lia|exact Hp].
  Qed.

  Theorem rs_work_conserving : work_conserving jobs rsched.
  Proof.
    intros t j Hp E. apply pend_iff in Hp. destruct Hp as [Hj Hp].
    unfold rsched, pick in E. apply argmin_none in E.
    assert (Hin : In j (filter (pendb (srv t) t) (seq 0 n))).
    { apply filter_In. split; [apply in_seq; lia|exact Hp]. }
    rewrite E in Hin. destruct Hin.
  Qed.

  (* the running job has the least rank among the pending jobs *)
  Theorem rs_min : forall t k k', rsched t = Some k -> pending jobs rsched k' t -> rank k <= rank k'.
  Proof.
    intros t k k' E Hp. apply pend_iff in Hp. destruct Hp as [Hj Hp].
    unfold rsched, pick in E. apply argmin_some in E. destruct E as [_ Hmin].
    apply Hmin. apply filter_In. split; [apply in_seq; lia|exact Hp].
  Qed.

  (* ---------------------------------------------------------------------------------------- *)
  (* 2. the generic lower bound                                                                *)
  (* ---------------------------------------------------------------------------------------- *)
  Hypothesis rank_inj : forall k k', k < n -> k' < n -> rank k = rank k' -> k = k'.
  Variable O : nat.                               (* no job is released before O *)
  Hypothesis arr_ge : forall k, k < n -> O <= arr jobs k.

  (* a complete job ran in some slot at the end of which it was complete *)
  Lemma last_run : forall v t, 1 <= cost jobs v -> cost jobs v <= service rsched v t ->
    exists u, u < t /\ rsched u = Some v /\ cost jobs v <= service rsched v (S u).
  Proof.
    intros v t Hc. induction t as [|t IH]; intros Hs.
    - change (service rsched v 0) with 0 in Hs. lia.
    - destruct (sched_dec rsched t v) as [E|E].
      + exists t. split; [lia|]. split; [exact E|exact Hs].
      + rewrite (service_not_running rsched v t E) in Hs.
        destruct (IH Hs) as (u & Hu & H1 & H2). exists u. split; [lia|]. split; assumption.
  Qed.

  (* at most one unit of service per slot, none before O *)
  Lemma total_service_le : forall t, sumn n (fun k => service rsched k t) <= t - O.
  Proof.
    induction t as [|t IH].
    - rewrite sumn_const0; [lia|]. intros i _. reflexivity.
    - rewrite (sumn_ext n _ (fun k => service rsched k t + runs rsched k t)) by (intros; apply service_S).
      rewrite sumn_add, (runs_total jobs rsched rs_valid t).
      destruct (rsched t) as [k|] eqn:E; [|lia].
      destruct (rs_valid _ _ E) as (Hk & Ha & _). pose proof (arr_ge k Hk). lia.
  Qed.

  (* if v is complete at t then for some y <= t - O the work of all jobs of rank <= rank v released
     in [O, O + y) fits into y slots *)
  Theorem rs_lower : forall v t, v < n -> 1 <= cost jobs v -> cost jobs v <= service rsched v t ->
    exists y, 1 <= y /\ O + y <= t /\ arr jobs v < O + y /\
      workP jobs (fun k => (rank k <=? rank v) && (arr jobs k <? O + y)) <= y.
  Proof.
    intros v t Hv Hc Hs. destruct (last_run v t Hc Hs) as (u & Hu & Eu & Hdone).
    destruct (rs_valid _ _ Eu) as (_ & Hau & _). pose proof (arr_ge v Hv) as HO.
    exists (S u - O). split; [lia|]. split; [lia|]. split; [lia|].
    replace (O + (S u - O)) with (S u) by lia.
    apply Nat.le_trans with (sumn n (fun k => service rsched k (S u))); [|apply total_service_le].
    unfold workP. apply sumn_le. intros k Hk.
    destruct ((rank k <=? rank v) && (arr jobs k <? S u)) eqn:Q; [|lia].
    apply andb_true_iff in Q. destruct Q as [Q1 Q2]. apply Nat.leb_le in Q1. apply Nat.ltb_lt in Q2.
    destruct (Nat.eq_dec k v) as [->|Hne]; [exact Hdone|].
    assert (Hlt : rank k < rank v).
    { destruct (Nat.eq_dec (rank k) (rank v)) as [e|]; [|lia].
      apply rank_inj in e; [contradiction|assumption|assumption]. }
    destruct (Nat.le_gt_cases (cost jobs k) (service rsched k u)) as [Hle|Hgt].
    - eapply Nat.le_trans; [exact Hle|apply service_mono; lia].
    - exfalso. assert (Hp : pending jobs rsched k u) by (split; [exact Hk|split; [lia|exact Hgt]]).
      pose proof (rs_min _ _ _ Eu Hp). lia.
  Qed.
End RankSched.
Print Assumptions rs_valid.
Print Assumptions rs_work_conserving.
Print Assumptions rs_min.
Print Assumptions rs_lower.

(* every non-empty list has an element of greatest rank *)
Lemma argmax_exists : forall (f : nat -> nat) l, l <> [] -> exists x, In x l /\ forall y, In y l -> f y <= f x.
Proof.
  intros f l. induction l as [|a l IH]; intros Hne; [contradiction|].
  destruct l as [|b l].
  - exists a. split; [left; reflexivity|]. intros y [<-|[]]. lia.
  - destruct (IH ltac:(discriminate)) as (x & Hin & Hmax).
    destruct (Nat.le_gt_cases (f a) (f x)) as [Hle|Hgt].
    + exists x. split; [right; exact Hin|]. intros y [<-|Hy]; [exact Hle|apply Hmax; exact Hy].
    + exists a. split; [left; reflexivity|]. intros y [<-|Hy]; [lia|]. specialize (Hmax y Hy). lia.
Qed.

Lemma workP_pos_ex : forall jobs P, 0 < workP jobs P -> exists k, k < length jobs /\ P k = true.
Proof.
  intros jobs P. unfold workP. induction (length jobs) as [|m IH]; cbn [sumn]; intros H; [lia|].
  destruct (P m) eqn:E; [exists m; split; [lia|exact E]|].
  destruct IH as (k & Hk & Pk); [lia|]. exists k. split; [lia|exact Pk].
Qed.

(* the job of greatest rank among those satisfying P *)
Lemma victim_exists : forall jobs (rank : nat -> nat) P, 0 < workP jobs P ->
  exists v, v < length jobs /\ P v = true /\ forall k, k < length jobs -> P k = true -> rank k <= rank v.
Proof.
  intros jobs rank P H. destruct (workP_pos_ex jobs P H) as (k0 & Hk0 & Pk0).
  destruct (argmax_exists rank (filter P (seq 0 (length jobs)))) as (v & Hin & Hmax).
  { intros E. assert (Hin : In k0 (filter P (seq 0 (length jobs)))) by (apply filter_In; split; [apply in_seq; lia|exact Pk0]).
    rewrite E in Hin. destruct Hin. }
  apply filter_In in Hin. destruct Hin as [Hs Pv]. apply in_seq in Hs.
  exists v. split; [lia|]. split; [exact Pv|]. intros k Hk Pk. apply Hmax.
  apply filter_In. split; [apply in_seq; lia|exact Pk].
Qed.

Lemma workP_mono : forall jobs (P Q : nat -> bool),
  (forall k, k < length jobs -> P k = true -> Q k = true) -> workP jobs P <= workP jobs Q.
Proof.
  intros jobs P Q H. unfold workP. apply sumn_le. intros k Hk.
  destruct (P k) eqn:E; [|lia]. rewrite (H k Hk E). lia.
Qed.

Lemma workP_disjoint : forall jobs (P1 P2 Q : nat -> bool),
  (forall k, k < length jobs -> P1 k = true -> Q k = true /\ P2 k = false) ->
  (forall k, k < length jobs -> P2 k = true -> Q k = true) ->
  workP jobs P1 + workP jobs P2 <= workP jobs Q.
Proof.
  intros jobs P1 P2 Q H1 H2. unfold workP. rewrite <- sumn_add. apply sumn_le. intros k Hk.
  destruct (P1 k) eqn:E1.
  - destruct (H1 k Hk E1) as [-> ->]. lia.
  - destruct (P2 k) eqn:E2; [rewrite (H2 k Hk E2)|]; lia.
Qed.


(* ------------------------------------------------------------------------------------------ *)
(* 3. dense release sequences                                                                  *)
(* ------------------------------------------------------------------------------------------ *)
Definition exact_task (tk : task) : Prop :=
  (exists T, fst tk = Periodic T /\ (1 <= T)%N) \/ (exists T J, fst tk = Sporadic T J /\ (1 <= T)%N).

Definition tT (tk : task) : nat :=
  match fst tk with Periodic T => N.to_nat T | Sporadic T _ => N.to_nat T | _ => 1 end.
Definition tJ (tk : task) : nat :=
  match fst tk with Sporadic _ J => N.to_nat J | _ => 0 end.

(* releases of the first na(H) jobs: job m at O + (m * T - J) *)
Definition dense (O : nat) (H : N) (tk : task) : list nat :=
  map (fun m => O + (m * tT tk - tJ tk)) (seq 0 (N.to_nat (na (fst tk) H))).
Definition task_jobs (O : nat) (H : N) (i : nat) (tk : task) : list job :=
  map (fun a => mkJob i a (N.to_nat (snd tk))) (dense O H tk).
(* Hf k = horizon of task k: it releases its first na(Hf k) jobs *)
Fixpoint mk_jobs (O : nat) (Hf : nat -> N) (i0 : nat) (tasks : list task) : list job :=
  match tasks with
  | [] => []
  | tk :: r => task_jobs O (Hf i0) i0 tk ++ mk_jobs O Hf (S i0) r
  end.
Definition origin (tasks : list task) : nat := list_max (map tJ tasks).

Definition fifo_rank (jobs : list job) (k : nat) : nat := arr jobs k * length jobs + k.
Definition arr_bound (jobs : list job) : nat := S (list_max (map j_arr jobs)).
Definition fp_rank (jobs : list job) (prio : nat -> nat) (k : nat) : nat :=
  (prio (j_task (nth k jobs (mkJob 0 0 0))) * arr_bound jobs + arr jobs k) * length jobs + k.


(* ---- arithmetic ---- *)
Lemma dc_lt : forall (T a : N) (m : nat), (1 <= T)%N ->
  (m < N.to_nat (div_ceil a T) <-> m * N.to_nat T < N.to_nat a).
Proof.
  intros T a m HT. split; [apply staircase_bound; exact HT|].
  intros H. destruct (div_ceil_spec a T HT) as [H1 _].
  destruct (Nat.lt_ge_cases m (N.to_nat (div_ceil a T))) as [|Hge]; [assumption|exfalso].
  assert (H2 : N.to_nat (div_ceil a T) * N.to_nat T <= m * N.to_nat T) by (apply Nat.mul_le_mono_r; exact Hge).
  assert (H3 : N.to_nat (div_ceil a T * T) = N.to_nat (div_ceil a T) * N.to_nat T) by apply Nnat.N2Nat.inj_mul.
  lia.
Qed.

(* job m is released before O + d iff m < na d: the dense sequence attains the arrival curve *)
Lemma rel_lt : forall tk m (d : N), exact_task tk ->
  (m * tT tk - tJ tk < N.to_nat d <-> m < N.to_nat (na (fst tk) d)).
Proof.
  intros [ab c] m d [(T & E & HT)|(T & J & E & HT)]; cbn [fst] in E; subst ab; unfold tT, tJ; cbn [fst na].
  - rewrite (dc_lt T d m HT). lia.
  - destruct (N.eqb_spec d 0) as [->|Hd]; [cbn; lia|].
    rewrite (dc_lt T (d + J) m HT). lia.
Qed.

Lemma exact_wf : forall tk, exact_task tk -> wf_ab (fst tk) /\ steps_exact_class (fst tk).
Proof. intros [ab c] [(T & E & HT)|(T & J & E & HT)]; cbn [fst] in E; subst ab; cbn; auto. Qed.

Lemma exact_na1 : forall tk, exact_task tk -> (1 <= na (fst tk) 1)%N.
Proof.
  intros tk He. pose proof (proj1 (rel_lt tk 0 1%N He)) as H. cbn [Nat.mul Nat.sub] in H.
  specialize (H ltac:(lia)). lia.
Qed.

(* ---- counting ---- *)
Lemma filter_map_length : forall {A B} (p : B -> bool) (f : A -> B) l,
  length (filter p (map f l)) = length (filter (fun x => p (f x)) l).
Proof.
  intros A B p f l. induction l as [|x l IH]; [reflexivity|]. cbn [map filter].
  destruct (p (f x)); cbn [length]; rewrite IH; reflexivity.
Qed.

Lemma filter_lt_seq : forall c n, length (filter (fun m => m <? c) (seq 0 n)) = Nat.min c n.
Proof.
  intros c n. induction n as [|n IH]; [cbn; lia|].
  rewrite seq_S, filter_app, app_length, IH. cbn [Nat.add filter].
  destruct (Nat.ltb_spec n c); cbn [length]; lia.
Qed.

Lemma sep_affine : forall T c n a, separated T (map (fun m => c + m * T) (seq a n)).
Proof.
  intros T c n. induction n as [|n IH]; intros a.
  - exact I.
  - cbn [seq map]. specialize (IH (S a)). destruct n as [|n].
    + exact I.
    + cbn [seq map] in *. split; [lia | exact IH].
Qed.

Theorem dense_admissible : forall O H tk, exact_task tk -> tJ tk <= O -> admissible (fst tk) (dense O H tk).
Proof.
  intros O H [ab c] He HJ. unfold dense. generalize (N.to_nat (na (fst (ab, c)) H)). intros n.
  destruct He as [(T & E & HT)|(T & J & E & HT)]; cbn [fst] in E; subst ab; unfold tT, tJ in *; cbn [fst] in *.
  - apply adm_periodic.
    rewrite (map_ext _ (fun m => O + m * N.to_nat T)) by (intros m; lia). apply sep_affine.
  - rewrite (map_ext _ (fun m => (O - N.to_nat J + m * N.to_nat T) + (N.to_nat J - m * N.to_nat T))) by (intros m; lia).
    rewrite <- zip_add_map. apply adm_sporadic.
    + apply sep_affine.
    + rewrite !map_length. reflexivity.
    + rewrite Forall_forall. intros e He. apply in_map_iff in He. destruct He as [m [<- _]]. lia.
Qed.

(* every window [O, O + d) with d <= H contains exactly na d releases *)
Theorem dense_count : forall O H tk d, exact_task tk -> (d <= H)%N ->
  count (dense O H tk) O (N.to_nat d) = N.to_nat (na (fst tk) d).
Proof.
  intros O H tk d He Hd. unfold dense, count. rewrite filter_map_length.
  rewrite (filter_ext _ (fun m => m <? N.to_nat (na (fst tk) d))).
  - rewrite filter_lt_seq. pose proof (na_mono (fst tk) (proj1 (exact_wf tk He)) d H Hd). lia.
  - intros m. pose proof (rel_lt tk m d He) as Hr. unfold in_window.
    destruct (Nat.ltb_spec m (N.to_nat (na (fst tk) d))) as [Hlt|Hge].
    + apply andb_true_iff. split; [apply Nat.leb_le; lia|apply Nat.ltb_lt]. apply Hr in Hlt. lia.
    + apply andb_false_iff. right. apply Nat.ltb_ge.
      destruct (Nat.lt_ge_cases (m * tT tk - tJ tk) (N.to_nat d)) as [Hc|Hc]; [apply Hr in Hc; lia|lia].
Qed.
Print Assumptions dense_admissible.
Print Assumptions dense_count.

(* ------------------------------------------------------------------------------------------ *)
(* 4. the job set                                                                              *)
(* ------------------------------------------------------------------------------------------ *)
Lemma arrivals_const_task : forall i0 c l i,
  arrivals_of (map (fun a => mkJob i0 a c) l) i = if i0 =? i then l else [].
Proof.
  intros i0 c l i. unfold arrivals_of. induction l as [|a l IH]; cbn [map filter j_task].
  - destruct (i0 =? i); reflexivity.
  - destruct (i0 =? i) eqn:E; cbn [map j_arr]; [rewrite IH; reflexivity|exact IH].
Qed.

Lemma arrivals_app : forall a b i, arrivals_of (a ++ b) i = arrivals_of a i ++ arrivals_of b i.
Proof. intros a b i. unfold arrivals_of. rewrite filter_app, map_app. reflexivity. Qed.

Lemma mk_arrivals : forall O Hf tasks i0 i,
  arrivals_of (mk_jobs O Hf i0 tasks) i =
  if (i0 <=? i) && (i <? i0 + length tasks) then dense O (Hf i) (nth (i - i0) tasks (Never, 0%N)) else [].
Proof.
  intros O Hf tasks. induction tasks as [|tk r IH]; intros i0 i; cbn [mk_jobs length].
  - rewrite Nat.add_0_r. destruct (Nat.leb_spec i0 i), (Nat.ltb_spec i i0); try lia; reflexivity.
  - rewrite arrivals_app. unfold task_jobs. rewrite arrivals_const_task, IH.
    destruct (Nat.eqb_spec i0 i) as [->|Hne].
    + rewrite Nat.sub_diag. cbn [nth].
      destruct (Nat.leb_spec (S i) i); [lia|]. cbn [andb]. rewrite app_nil_r.
      destruct (Nat.leb_spec i i); [|lia]. destruct (Nat.ltb_spec i (i + S (length r))); [|lia]. reflexivity.
    + cbn [app].
      destruct (Nat.leb_spec (S i0) i) as [H1|H1], (Nat.leb_spec i0 i) as [H2|H2]; try lia; cbn [andb]; [|reflexivity].
      replace (i0 + S (length r)) with (S i0 + length r) by lia.
      destruct (Nat.ltb_spec i (S i0 + length r)); [|reflexivity].
      replace (i - i0) with (S (i - S i0)) by lia. reflexivity.
Qed.

Lemma mk_in : forall O Hf tasks i0 j, In j (mk_jobs O Hf i0 tasks) ->
  i0 <= j_task j < i0 + length tasks /\
  j_cost j = N.to_nat (snd (nth (j_task j - i0) tasks (Never, 0%N))) /\ O <= j_arr j.
Proof.
  intros O Hf tasks. induction tasks as [|tk r IH]; intros i0 j Hin; [destruct Hin|].
  cbn [mk_jobs length] in *. apply in_app_or in Hin. destruct Hin as [Hin|Hin].
  - unfold task_jobs, dense in Hin. apply in_map_iff in Hin. destruct Hin as (a & <- & Ha).
    apply in_map_iff in Ha. destruct Ha as (m & <- & _). cbn [j_task j_cost j_arr].
    rewrite Nat.sub_diag. cbn [nth]. split; [lia|]. split; [reflexivity|lia].
  - destruct (IH (S i0) j Hin) as (H1 & H2 & H3). split; [lia|]. split; [|exact H3].
    replace (j_task j - i0) with (S (j_task j - S i0)) by lia. exact H2.
Qed.

Lemma sumn_sumN : forall {A} (l : list A) (dflt : A) (g : A -> N),
  sumn (length l) (fun i => N.to_nat (g (nth i l dflt))) = N.to_nat (sumN (map g l)).
Proof.
  intros A l dflt g. induction l as [|x l IH]; [reflexivity|].
  cbn [length]. rewrite sumn_shift. cbn [nth map sumN fold_right]. fold (sumN (map g l)).
  rewrite IH. lia.
Qed.

Lemma sumn_filter_eq : forall (p : nat -> bool) (G : nat -> N) m,
  sumn m (fun x => if p x then N.to_nat (G x) else 0) = N.to_nat (sumN (map G (filter p (seq 0 m)))).
Proof.
  intros p G m. induction m as [|m IH]; [reflexivity|].
  rewrite seq_S, filter_app, map_app, sumN_app. cbn [sumn Nat.add filter]. rewrite IH.
  destruct (p m); cbn [map sumN fold_right]; lia.
Qed.

(* the work of the higher-priority tasks, from the work of each of them *)
Lemma hp_work_gen : forall tasks jobs i prio O (d : N), respects_costs tasks jobs ->
  (forall i', i' < length tasks -> prio i' < prio i ->
     workP jobs (task_in_win jobs i' O (N.to_nat d))
     = N.to_nat (snd (nth i' tasks (Never, 0%N)) * na (fst (nth i' tasks (Never, 0%N))) d)) ->
  workP jobs (hpw i prio jobs O (N.to_nat d)) = N.to_nat (sum_sn (hp_rbs tasks i prio) d).
Proof.
  intros tasks jobs i prio O d Hcosts Hw. rewrite (hpw_split tasks i prio jobs Hcosts), sum_sn_hp.
  unfold hp_idx. rewrite <- sumn_filter_eq. apply sumn_ext. intros i' Hi'.
  destruct (Nat.ltb_spec (prio i') (prio i)); [|reflexivity]. apply Hw; assumption.
Qed.

Section Construction.
  Variable O : nat.
  Variable Hf : nat -> N.
  Variable tasks : list task.
  Hypothesis tasks_exact : Forall (fun tk => exact_task tk /\ (1 <= snd tk)%N) tasks.
  Hypothesis O_ge : forall tk, In tk tasks -> tJ tk <= O.
  Let jobs := mk_jobs O Hf 0 tasks.
  Notation tki i := (nth i tasks (Never, 0%N)).

  Lemma tk_facts : forall i, i < length tasks -> exact_task (tki i) /\ (1 <= snd (tki i))%N /\ tJ (tki i) <= O.
  Proof.
    intros i Hi. assert (Hin : In (tki i) tasks) by (apply nth_In; exact Hi).
    pose proof (proj1 (Forall_forall _ _) tasks_exact _ Hin) as [H1 H2]. split; [exact H1|]. split; [exact H2|].
    apply O_ge. exact Hin.
  Qed.

  Lemma mk_job_facts : forall k, k < length jobs ->
    j_task (nth k jobs (mkJob 0 0 0)) < length tasks /\
    cost jobs k = N.to_nat (snd (tki (j_task (nth k jobs (mkJob 0 0 0))))) /\ O <= arr jobs k.
  Proof.
    intros k Hk. destruct (mk_in O Hf tasks 0 _ (nth_In jobs (mkJob 0 0 0) Hk)) as (H1 & H2 & H3).
    rewrite Nat.sub_0_r in H2. split; [lia|]. split; [exact H2|exact H3].
  Qed.

  Theorem mk_respects_curves : respects_curves tasks jobs.
  Proof.
    intros i Hi. exists (dense O (Hf i) (tki i)). unfold jobs. rewrite mk_arrivals.
    cbn [Nat.leb andb Nat.add]. destruct (Nat.ltb_spec i (length tasks)); [|lia]. rewrite Nat.sub_0_r.
    split; [apply Permutation_refl|]. destruct (tk_facts i Hi) as (H1 & _ & H3). apply dense_admissible; assumption.
  Qed.

  Theorem mk_respects_costs : respects_costs tasks jobs.
  Proof.
    intros j Hin. destruct (mk_in O Hf tasks 0 j Hin) as (H1 & H2 & _). rewrite Nat.sub_0_r in H2.
    split; [lia|]. destruct (tk_facts (j_task j) ltac:(lia)) as (_ & HC & _). rewrite H2. lia.
  Qed.

  (* the work of task i released in [O, O + d) is exactly its request bound *)
  Theorem mk_task_work : forall i (d : N), i < length tasks -> (d <= Hf i)%N ->
    workP jobs (task_in_win jobs i O (N.to_nat d)) = N.to_nat (snd (tki i) * na (fst (tki i)) d).
  Proof.
    intros i d Hi Hd. destruct (tk_facts i Hi) as (He & _ & _).
    unfold workP.
    rewrite (sumn_ext _ _ (fun k => if task_in_win jobs i O (N.to_nat d) k then N.to_nat (snd (tki i)) else 0)).
    - rewrite sumn_scale, task_count_eq. unfold jobs. rewrite mk_arrivals.
      cbn [Nat.leb andb Nat.add]. destruct (Nat.ltb_spec i (length tasks)); [|lia]. rewrite Nat.sub_0_r.
      rewrite (dense_count O (Hf i) (tki i) d He Hd). rewrite Nnat.N2Nat.inj_mul. reflexivity.
    - intros k Hk. destruct (task_in_win jobs i O (N.to_nat d) k) eqn:E; [|reflexivity].
      unfold task_in_win in E. apply andb_true_iff in E. destruct E as [E _].
      apply andb_true_iff in E. destruct E as [E _]. apply Nat.eqb_eq in E.
      destruct (mk_job_facts k Hk) as (_ & Hc & _). rewrite E in Hc. exact Hc.
  Qed.

  (* hence the total work released in [O, O + d) is the total request bound *)
  Theorem mk_total_work : forall d : N, (forall i, i < length tasks -> (d <= Hf i)%N) ->
    workP jobs (fun k => (O <=? arr jobs k) && (arr jobs k <? O + N.to_nat d)) = N.to_nat (total_of tasks d).
  Proof.
    intros d Hd. rewrite (workP_split_tasks tasks jobs O (N.to_nat d) mk_respects_costs).
    rewrite (sumn_ext _ _ (fun i => N.to_nat ((fun tk => (snd tk * na (fst tk) d)%N) (tki i)))).
    - exact (sumn_sumN tasks (Never, 0%N) (fun tk => (snd tk * na (fst tk) d)%N)).
    - intros i Hi. apply mk_task_work; [exact Hi|apply Hd; exact Hi].
  Qed.

  (* and the work of the tasks of higher priority than task i *)
  Theorem mk_hp_work : forall i prio (d : N), (forall i', i' < length tasks -> prio i' < prio i -> (d <= Hf i')%N) ->
    workP jobs (hpw i prio jobs O (N.to_nat d)) = N.to_nat (sum_sn (hp_rbs tasks i prio) d).
  Proof.
    intros i prio d Hd. apply hp_work_gen; [exact mk_respects_costs|].
    intros i' Hi' Hp. apply mk_task_work; [exact Hi'|apply Hd; assumption].
  Qed.
End Construction.
Print Assumptions mk_respects_curves.
Print Assumptions mk_respects_costs.
Print Assumptions mk_task_work.
Print Assumptions mk_total_work.
Print Assumptions mk_hp_work.

(* ------------------------------------------------------------------------------------------ *)
(* 5. FIFO                                                                                     *)
(* ------------------------------------------------------------------------------------------ *)
Lemma origin_ge : forall tasks tk, In tk tasks -> tJ tk <= origin tasks.
Proof.
  intros tasks tk Hin. unfold origin.
  pose proof (proj1 (list_max_le (map tJ tasks) _) (le_n _)) as H.
  rewrite Forall_forall in H. apply H. apply in_map. exact Hin.
Qed.

Lemma lex_le : forall n a b a' b', b < n -> b' < n -> a * n + b <= a' * n + b' -> a < a' \/ (a = a' /\ b <= b').
Proof.
  intros n a b a' b' Hb Hb' H. destruct (Nat.lt_trichotomy a a') as [Hlt|[->|Hgt]].
  - left; exact Hlt.
  - right. split; [reflexivity|lia].
  - exfalso. assert ((a' + 1) * n <= a * n) by (apply Nat.mul_le_mono_r; lia). lia.
Qed.

Lemma fifo_rank_inj : forall jobs k k', k < length jobs -> k' < length jobs ->
  fifo_rank jobs k = fifo_rank jobs k' -> k = k'.
Proof.
  intros jobs k k' Hk Hk' E. unfold fifo_rank in E.
  destruct (lex_le (length jobs) (arr jobs k) k (arr jobs k') k' Hk Hk' ltac:(lia)) as [H1|H1];
  destruct (lex_le (length jobs) (arr jobs k') k' (arr jobs k) k Hk' Hk ltac:(lia)) as [H2|H2]; lia.
Qed.

Lemma fifo_rank_arr : forall jobs k k', k < length jobs -> k' < length jobs ->
  fifo_rank jobs k <= fifo_rank jobs k' -> arr jobs k <= arr jobs k'.
Proof.
  intros jobs k k' Hk Hk' E. unfold fifo_rank in E.
  destruct (lex_le (length jobs) (arr jobs k) k (arr jobs k') k' Hk Hk' E); lia.
Qed.

Theorem rs_fifo_policy : forall jobs, fifo_policy jobs (rsched jobs (fifo_rank jobs)).
Proof.
  intros jobs t k k' E Hp. pose proof (rs_min jobs (fifo_rank jobs) t k k' E Hp) as Hr.
  destruct (rs_valid jobs (fifo_rank jobs) t k E) as (Hk & _). destruct Hp as (Hk' & _).
  apply fifo_rank_arr; assumption.
Qed.

Theorem fifo_bound_attained : forall dbg (tasks : list task) limit R,
  Forall (fun tk => exact_task tk /\ (1 <= snd tk)%N) tasks -> tasks <> [] -> (1 <= R)%N ->
  e_fifo dbg (Agg (map rb_of tasks)) limit = ROk R ->
  exists jobs sched k, valid jobs sched /\ work_conserving jobs sched /\ fifo_policy jobs sched /\
     respects_curves tasks jobs /\ respects_costs tasks jobs /\ k < length jobs /\
     completes_within jobs sched k (N.to_nat R) /\ ~ completes_within jobs sched k (N.to_nat R - 1).
Proof.
  intros dbg tasks limit R Hex Hne HR He.
  assert (Hok : Forall fifo_task_ok tasks).
  { eapply Forall_impl; [|exact Hex]. intros tk [H1 H2]. destruct (exact_wf tk H1). repeat split; assumption. }
  pose proof (rb_of_ok tasks Hok) as Hrb.
  assert (Hpos : (0 < sn (Agg (map rb_of tasks)) 1)%N).
  { rewrite sn_total. destruct tasks as [|tk r]; [contradiction|]. unfold total_of. cbn [map sumN fold_right].
    apply Forall_inv in Hex. destruct Hex as [H1 H2]. pose proof (exact_na1 tk H1) as H3.
    assert (1 * 1 <= snd tk * na (fst tk) 1)%N by (apply N.mul_le_mono; assumption).
    set (rest := fold_right N.add 0%N _). lia. }
  pose proof He as He'. rewrite (e_fifo_exhaustive dbg _ limit Hrb Hpos) in He'. unfold exh_fifo in He'.
  destruct (least_fix limit (sn (Agg (map rb_of tasks)))) as [L|] eqn:HL; [|discriminate].
  injection He' as HRmax.
  apply least_fix_spec in HL. destruct HL as (HL1 & HL2 & HL3 & HL4).
  match type of HRmax with maxN ?l = _ => destruct (ExhFP.maxN_attained l) as [H0|Hin] end;
    [rewrite HRmax in H0; lia|].
  rewrite HRmax in Hin. apply in_map_iff in Hin. destruct Hin as (A & HA & HinA). apply in_rangeN in HinA.
  assert (HA' : (total_of tasks (A + 1) - A = R)%N) by (rewrite <- sn_total; exact HA).
  clear HA; rename HA' into HA.
  (* the construction *)
  set (O := origin tasks). set (jobs := mk_jobs O (fun _ => limit) 0 tasks).
  set (rank := fifo_rank jobs). set (sched := rsched jobs rank).
  pose proof (mk_respects_curves O (fun _ => limit) tasks Hex (origin_ge tasks)) as Hcurves. fold jobs in Hcurves.
  pose proof (mk_respects_costs O (fun _ => limit) tasks Hex (origin_ge tasks)) as Hcosts. fold jobs in Hcosts.
  pose proof (rs_valid jobs rank) as Hv. pose proof (rs_work_conserving jobs rank) as Hwc.
  pose proof (rs_fifo_policy jobs) as Hfifo. fold rank sched in Hv, Hwc, Hfifo.
  assert (Harr : forall k, k < length jobs -> O <= arr jobs k).
  { intros k Hk. apply (mk_job_facts O (fun _ => limit) tasks k Hk). }
  (* the victim: the last-served job among those released in [O, O + A] *)
  set (inS := fun k => (O <=? arr jobs k) && (arr jobs k <? O + N.to_nat (A + 1))).
  assert (HW : workP jobs inS = N.to_nat (total_of tasks (A + 1))).
  { apply (mk_total_work O (fun _ => limit) tasks Hex (origin_ge tasks)). intros; lia. }
  destruct (victim_exists jobs rank inS ltac:(lia)) as (v & Hv1 & Sv & Hmax).
  exists jobs, sched, v.
  split; [exact Hv|]. split; [exact Hwc|]. split; [exact Hfifo|]. split; [exact Hcurves|].
  split; [exact Hcosts|]. split; [exact Hv1|]. split.
  - exact (fifo_rta_sound dbg tasks limit R jobs sched Hok He Hv Hwc Hfifo Hcurves Hcosts v Hv1).
  - intros Hc. unfold completes_within in Hc.
    assert (Hc1 : 1 <= cost jobs v).
    { destruct (Hcosts _ (nth_In jobs (mkJob 0 0 0) Hv1)) as (_ & H1 & _). exact H1. }
    destruct (rs_lower jobs rank (fifo_rank_inj jobs) O Harr v _ Hv1 Hc1 Hc) as (y & Hy1 & Hy2 & Hy3 & Hy4).
    assert (Hsub : workP jobs inS <= workP jobs (fun k => (rank k <=? rank v) && (arr jobs k <? O + y))).
    { apply workP_mono. intros k Hk Sk. apply andb_true_iff. split.
      - apply Nat.leb_le. apply Hmax; assumption.
      - apply Nat.ltb_lt. pose proof (fifo_rank_arr jobs k v Hk Hv1 (Hmax k Hk Sk)). lia. }
    unfold inS in Sv. apply andb_true_iff in Sv. destruct Sv as [_ Sv]. apply Nat.ltb_lt in Sv.
    lia.
Qed.
Print Assumptions fifo_bound_attained.

(* ------------------------------------------------------------------------------------------ *)
(* 6. fully preemptive fixed priority                                                          *)
(* ------------------------------------------------------------------------------------------ *)
Lemma arr_lt_bound : forall jobs k, k < length jobs -> arr jobs k < arr_bound jobs.
Proof.
  intros jobs k Hk. unfold arr_bound, arr.
  pose proof (proj1 (list_max_le (map j_arr jobs) _) (le_n _)) as H. rewrite Forall_forall in H.
  specialize (H (j_arr (nth k jobs (mkJob 0 0 0))) (in_map j_arr _ _ (nth_In _ _ Hk))). lia.
Qed.

Notation tsk jobs k := (j_task (nth k jobs (mkJob 0 0 0))).

Lemma fp_rank_inj : forall jobs prio k k', k < length jobs -> k' < length jobs ->
  fp_rank jobs prio k = fp_rank jobs prio k' -> k = k'.
Proof.
  intros jobs prio k k' Hk Hk' E. unfold fp_rank in E.
  destruct (lex_le (length jobs) _ k _ k' Hk Hk' ltac:(rewrite E; apply le_n)) as [H1|H1];
  destruct (lex_le (length jobs) _ k' _ k Hk' Hk ltac:(rewrite E; apply le_n)) as [H2|H2]; lia.
Qed.

Lemma fp_rank_le : forall jobs prio k k', k < length jobs -> k' < length jobs ->
  fp_rank jobs prio k <= fp_rank jobs prio k' ->
  prio (tsk jobs k) < prio (tsk jobs k') \/ (prio (tsk jobs k) = prio (tsk jobs k') /\ arr jobs k <= arr jobs k').
Proof.
  intros jobs prio k k' Hk Hk' E. unfold fp_rank in E.
  pose proof (arr_lt_bound jobs k Hk) as Hb. pose proof (arr_lt_bound jobs k' Hk') as Hb'.
  assert (Hkey : prio (tsk jobs k) * arr_bound jobs + arr jobs k <= prio (tsk jobs k') * arr_bound jobs + arr jobs k').
  { destruct (lex_le (length jobs) _ k _ k' Hk Hk' E) as [H1|[H1 _]]; lia. }
  exact (lex_le (arr_bound jobs) _ _ _ _ Hb Hb' Hkey).
Qed.

Lemma fp_rank_lt : forall jobs prio k k', k < length jobs -> k' < length jobs ->
  prio (tsk jobs k) < prio (tsk jobs k') -> fp_rank jobs prio k < fp_rank jobs prio k'.
Proof.
  intros jobs prio k k' Hk Hk' Hp.
  destruct (Nat.lt_ge_cases (fp_rank jobs prio k) (fp_rank jobs prio k')) as [|Hge]; [assumption|exfalso].
  destruct (fp_rank_le jobs prio k' k Hk' Hk Hge); lia.
Qed.

(* the rank scheduler with the fixed-priority rank is a legal fully preemptive FP schedule *)
Theorem rs_fp_legal : forall jobs prio,
  legal jobs (rsched jobs (fp_rank jobs prio)) (fp_hp jobs prio) (fun _ _ => true).
Proof.
  intros jobs prio. split; [intros; reflexivity|].
  intros t k k' [E _] Hp Hhp.
  pose proof (rs_min jobs (fp_rank jobs prio) t k k' E Hp) as Hr.
  destruct (rs_valid jobs (fp_rank jobs prio) t k E) as (Hk & _). destruct Hp as (Hk' & _).
  pose proof (fp_rank_le jobs prio k k' Hk Hk' Hr) as Hle.
  unfold fp_hp in Hhp. destruct Hhp as [H1|[H1 H2]]; [lia|]. rewrite H1 in Hle. lia.
Qed.
Print Assumptions rs_fp_legal.

(* what a successful exhaustive evaluation with a positive result says: the maximum is attained *)
Lemma exh_fp_attained : forall B rem tua hp limit R, exh_fp B rem tua hp limit = ROk R -> (1 <= R)%N ->
  exists A AF, (1 <= AF)%N /\ (AF <= limit)%N /\ (AF - A + rem = R)%N /\
    (forall y, 1 <= y -> y < AF -> y < B + (tua (A + 1) - rem) + hp y)%N.
Proof.
  intros B rem tua hp limit R H HR. unfold exh_fp, exhaustive in H.
  destruct (least_fix limit (fun L => B + hp L + tua L)%N) as [L|]; [|discriminate].
  cbv zeta in H.
  destruct (existsb _ _) eqn:EX; [discriminate|]. injection H as HRmax.
  match type of HRmax with maxN ?l = _ => destruct (ExhFP.maxN_attained l) as [H0|Hin] end;
    [rewrite HRmax in H0; lia|].
  rewrite HRmax in Hin. apply in_map_iff in Hin. destruct Hin as (p & Hp & Hin).
  assert (Hin' := Hin). apply in_map_iff in Hin. destruct Hin as (A & <- & HA). cbn [fst snd] in Hp.
  destruct (least_fix limit (fun AF => B + (tua (A + 1) - rem) + hp AF)%N) as [AF|] eqn:E; cbn [oval] in Hp.
  - apply least_fix_spec in E. destruct E as (E1 & E2 & _ & E4).
    exists A, AF. split; [exact E1|]. split; [exact E2|]. split; [exact Hp|exact E4].
  - exfalso. assert (HT : existsb (fun p : N * option N => is_none (snd p))
        (map (fun A => (A, least_fix limit (fun AF => B + (tua (A + 1) - rem) + hp AF)%N)) (rangeN 0 L)) = true);
      [|congruence].
    apply existsb_exists. exists (A, None). split; [|reflexivity].
    apply in_map_iff. exists A. split; [rewrite E; reflexivity|exact HA].
Qed.

Theorem fp_preemptive_bound_attained : forall dbg (tasks : list task) i prio limit R,
  Forall (fun tk => exact_task tk /\ (1 <= snd tk)%N) tasks -> i < length tasks ->
  (forall a b, a < length tasks -> b < length tasks -> prio a = prio b -> a = b) -> (1 <= R)%N ->
  e_fp_fp dbg (RBF (ab_i tasks i) (Scalar (C tasks i))) (hp_rbs tasks i prio) limit = ROk R ->
  exists jobs sched k, valid jobs sched /\ work_conserving jobs sched /\
     respects_curves tasks jobs /\ respects_costs tasks jobs /\
     legal jobs sched (fp_hp jobs prio) (fun _ _ => true) /\
     k < length jobs /\ j_task (nth k jobs (mkJob 0 0 0)) = i /\
     completes_within jobs sched k (N.to_nat R) /\ ~ completes_within jobs sched k (N.to_nat R - 1).
Proof.
  intros dbg tasks i prio limit R Hex Hi Hinj HR He.
  assert (Hok : Forall (fun tk => wf_ab (fst tk) /\ steps_exact_class (fst tk) /\ (1 <= snd tk)%N) tasks).
  { eapply Forall_impl; [|exact Hex]. intros tk [H1 H2]. destruct (exact_wf tk H1). repeat split; assumption. }
  destruct (tk_facts (origin tasks) tasks Hex (origin_ge tasks) i Hi) as (Hexi & HCi & _).
  fold (C tasks i) in HCi.
  assert (Hrb : rb_steps_ok (RBF (ab_i tasks i) (Scalar (C tasks i)))).
  { cbn [rb_steps_ok wf_cm positive_cm]. destruct (exact_wf _ Hexi). unfold ab_i. auto. }
  assert (Hhp : Forall wf_rb (hp_rbs tasks i prio)) by (apply (wf_hp_rbs tasks i prio Hi Hok 1%N); lia).
  assert (Hpos : (0 < sn (RBF (ab_i tasks i) (Scalar (C tasks i))) 1)%N).
  { cbn [sn cost_of_jobs]. pose proof (exact_na1 _ Hexi) as H1. fold (ab_i tasks i) in H1.
    assert (1 * 1 <= C tasks i * na (ab_i tasks i) 1)%N by (apply N.mul_le_mono; assumption). lia. }
  pose proof He as He'. rewrite (e_fp_fp_exhaustive dbg _ _ limit Hrb Hhp Hpos) in He'.
  destruct (exh_fp_attained _ _ _ _ _ _ He' HR) as (A & AF & HAF1 & HAF2 & HAFR & HAFmin).
  change (sn (RBF (ab_i tasks i) (Scalar (C tasks i))) (A + 1)) with (C tasks i * na (ab_i tasks i) (A + 1))%N in HAFmin.
  (* the construction *)
  set (O := origin tasks). set (jobs := mk_jobs O (fun _ => limit) 0 tasks).
  set (rank := fp_rank jobs prio). set (sched := rsched jobs rank).
  pose proof (mk_respects_curves O (fun _ => limit) tasks Hex (origin_ge tasks)) as Hcurves. fold jobs in Hcurves.
  pose proof (mk_respects_costs O (fun _ => limit) tasks Hex (origin_ge tasks)) as Hcosts. fold jobs in Hcosts.
  pose proof (rs_valid jobs rank) as Hv. pose proof (rs_work_conserving jobs rank) as Hwc.
  pose proof (rs_fp_legal jobs prio) as Hlegal. fold rank sched in Hv, Hwc, Hlegal.
  assert (Harr : forall k, k < length jobs -> O <= arr jobs k).
  { intros k Hk. apply (mk_job_facts O (fun _ => limit) tasks k Hk). }
  (* the victim: the latest job of task i released in [O, O + A] *)
  set (inS := task_in_win jobs i O (N.to_nat (A + 1))).
  assert (HW : workP jobs inS = N.to_nat (C tasks i * na (ab_i tasks i) (A + 1))).
  { apply (mk_task_work O (fun _ => limit) tasks Hex (origin_ge tasks) i (A + 1)%N Hi). lia. }
  assert (HWpos : 0 < workP jobs inS).
  { rewrite HW. pose proof (exact_na1 _ Hexi) as H1. fold (ab_i tasks i) in H1.
    pose proof (na_mono (ab_i tasks i) (proj1 (exact_wf _ Hexi)) 1 (A + 1) ltac:(lia))%N as H2.
    assert (1 * 1 <= C tasks i * na (ab_i tasks i) (A + 1))%N by (apply N.mul_le_mono; lia). lia. }
  destruct (victim_exists jobs rank inS HWpos) as (v & Hv1 & Sv & Hmax).
  assert (Sv' := Sv). unfold inS, task_in_win in Sv'.
  apply andb_true_iff in Sv'. destruct Sv' as [Sv' Sv3]. apply andb_true_iff in Sv'. destruct Sv' as [Sv1 _].
  apply Nat.eqb_eq in Sv1. apply Nat.ltb_lt in Sv3.
  exists jobs, sched, v.
  split; [exact Hv|]. split; [exact Hwc|]. split; [exact Hcurves|]. split; [exact Hcosts|].
  split; [exact Hlegal|]. split; [exact Hv1|]. split; [exact Sv1|]. split.
  - apply (fp_fully_preemptive_sound tasks i prio Hi Hok Hinj jobs sched (fun _ _ => true) Hv Hwc Hcurves Hcosts)
      with (dbg := dbg) (limit := limit).
    + intros k. split; reflexivity.
    + exact Hlegal.
    + intros k s. reflexivity.
    + exact He.
    + exact Hv1.
    + exact Sv1.
  - intros Hc. unfold completes_within in Hc.
    assert (Hc1 : 1 <= cost jobs v).
    { destruct (Hcosts _ (nth_In jobs (mkJob 0 0 0) Hv1)) as (_ & H1 & _). exact H1. }
    destruct (rs_lower jobs rank (fp_rank_inj jobs prio) O Harr v _ Hv1 Hc1 Hc) as (y & Hy1 & Hy2 & Hy3 & Hy4).
    assert (Hylt : (N.of_nat y < AF)%N) by lia.
    assert (Hsub : workP jobs inS + workP jobs (hpw i prio jobs O y)
                   <= workP jobs (fun k => (rank k <=? rank v) && (arr jobs k <? O + y))).
    { apply workP_disjoint.
      - intros k Hk Sk. split.
        + apply andb_true_iff. split; [apply Nat.leb_le; apply Hmax; assumption|apply Nat.ltb_lt].
          assert (Etk : tsk jobs k = i).
          { unfold inS, task_in_win in Sk. apply andb_true_iff in Sk. destruct Sk as [Sk _].
            apply andb_true_iff in Sk. destruct Sk as [Sk _]. apply Nat.eqb_eq in Sk. exact Sk. }
          destruct (fp_rank_le jobs prio k v Hk Hv1 (Hmax k Hk Sk)) as [Hlt|[_ Hle]]; [rewrite Etk, Sv1 in Hlt; lia|lia].
        + unfold hpw. unfold inS, task_in_win in Sk. apply andb_true_iff in Sk. destruct Sk as [Sk _].
          apply andb_true_iff in Sk. destruct Sk as [Sk _]. apply Nat.eqb_eq in Sk. rewrite Sk, Nat.ltb_irrefl. reflexivity.
      - intros k Hk Pk. unfold hpw, in_win in Pk. apply andb_true_iff in Pk. destruct Pk as [Pk1 Pk2].
        apply andb_true_iff in Pk2. destruct Pk2 as [_ Pk2]. apply Nat.ltb_lt in Pk1.
        apply andb_true_iff. split; [|exact Pk2]. apply Nat.leb_le. apply Nat.lt_le_incl.
        apply fp_rank_lt; [exact Hk|exact Hv1|]. rewrite Sv1. exact Pk1. }
    pose proof (mk_hp_work O (fun _ => limit) tasks Hex (origin_ge tasks) i prio (N.of_nat y) ltac:(intros; lia)) as Hhpw.
    fold jobs in Hhpw. rewrite Nnat.Nat2N.id in Hhpw.
    specialize (HAFmin (N.of_nat y) ltac:(lia) Hylt).
    lia.
Qed.
Print Assumptions fp_preemptive_bound_attained.

(* ------------------------------------------------------------------------------------------ *)
(* 7. fully non-preemptive fixed priority (stretch)                                            *)
(* ------------------------------------------------------------------------------------------ *)
Section NpSched.
  Variable jobs : list job.
  Variable rank : nat -> nat.
  Notation n := (length jobs).

  (* a started, incomplete job continues; otherwise the pending job of least rank starts *)
  Definition np_pick (s : nat -> nat) (last : option nat) (t : nat) : option nat :=
    match last with
    | Some k => if s k <? cost jobs k then Some k else pick jobs rank s t
    | None => pick jobs rank s t
    end.
  Fixpoint np_state (t : nat) : (nat -> nat) * option nat :=
    match t with
    | 0 => (fun _ => 0, None)
    | S t' => let st := np_state t' in let c := np_pick (fst st) (snd st) t' in
              (fun j => fst st j + bump c j, c)
    end.
  Definition np_sched (t : nat) : option nat := np_pick (fst (np_state t)) (snd (np_state t)) t.

  (* ---- the scheduler state ---- *)
  Lemma np_service : forall j t, service np_sched j t = fst (np_state t) j.
  Proof.
    intros j t. induction t as [|t IH]; [reflexivity|]. rewrite service_S, IH.
    change (fst (np_state (S t)) j)
      with (fst (np_state t) j + bump (np_pick (fst (np_state t)) (snd (np_state t)) t) j).
    reflexivity.
  Qed.

  Lemma np_pend_iff : forall j t, pending jobs np_sched j t <-> j < n /\ pendb jobs (fst (np_state t)) t j = true.
  Proof.
    intros j t. unfold pending, pendb. rewrite np_service, andb_true_iff, Nat.leb_le, Nat.ltb_lt. tauto.
  Qed.

  (* either the job of the previous slot continues, or it is complete (or there is none) and the
     pending job of least rank is picked *)
  Lemma np_cases : forall t,
    (exists k, t <> 0 /\ np_sched (t - 1) = Some k /\ service np_sched k t < cost jobs k /\ np_sched t = Some k) \/
    ((t = 0 \/ forall k, np_sched (t - 1) = Some k -> cost jobs k <= service np_sched k t) /\
     np_sched t = pick jobs rank (fst (np_state t)) t).
  Proof.
    intros [|t].
    - right. split; [left; reflexivity|reflexivity].
    - replace (S t - 1) with t by lia.
      assert (E : np_sched (S t) = np_pick (fst (np_state (S t))) (np_sched t) (S t)) by reflexivity.
      destruct (np_sched t) as [k|] eqn:Ek; unfold np_pick in E.
      + rewrite <- np_service in E. destruct (Nat.ltb_spec (service np_sched k (S t)) (cost jobs k)) as [Hlt|Hge].
        * left. exists k. split; [lia|]. split; [reflexivity|]. split; [exact Hlt|exact E].
        * right. split; [|exact E]. right. intros k' Hk'. injection Hk' as <-. exact Hge.
      + right. split; [|exact E]. right. intros k' Hk'. discriminate Hk'.
  Qed.

  Lemma pick_pending : forall t j, pick jobs rank (fst (np_state t)) t = Some j -> pending jobs np_sched j t.
  Proof.
    intros t j E. unfold pick in E. apply argmin_some in E. destruct E as [Hin _].
    apply filter_In in Hin. destruct Hin as [Hs Hp]. apply in_seq in Hs.
    apply np_pend_iff. split; [lia|exact Hp].
  Qed.

  Theorem np_valid : valid jobs np_sched.
  Proof.
    intros t. induction t as [|t IH]; intros j E.
    - destruct (np_cases 0) as [(k & H0 & _)|[_ E']]; [lia|]. rewrite E' in E. apply pick_pending. exact E.
    - destruct (np_cases (S t)) as [(k & _ & Ek & Hs & E')|[_ E']].
      + rewrite E' in E. injection E as <-. replace (S t - 1) with t in Ek by lia.
        destruct (IH k Ek) as (Hk & Ha & _). split; [exact Hk|]. split; [lia|exact Hs].
      + rewrite E' in E. apply pick_pending. exact E.
  Qed.

  Theorem np_work_conserving : work_conserving jobs np_sched.
  Proof.
    intros t j Hp E. destruct (np_cases t) as [(k & _ & _ & _ & E')|[_ E']]; [congruence|].
    rewrite E' in E. apply np_pend_iff in Hp. destruct Hp as [Hj Hp].
    unfold pick in E. apply argmin_none in E.
    assert (Hin : In j (filter (pendb jobs (fst (np_state t)) t) (seq 0 n))).
    { apply filter_In. split; [apply in_seq; lia|exact Hp]. }
    rewrite E in Hin. destruct Hin.
  Qed.

  (* a job that did not run in the previous slot has the least rank among the pending jobs *)
  Theorem np_fresh_min : forall t k k', np_sched t = Some k -> (t = 0 \/ np_sched (t - 1) <> Some k) ->
    pending jobs np_sched k' t -> rank k <= rank k'.
  Proof.
    intros t k k' E Hfresh Hp. destruct (np_cases t) as [(k0 & Ht & Ek0 & _ & E')|[_ E']].
    - exfalso. rewrite E' in E. injection E as <-. destruct Hfresh as [H0|H0]; [lia|contradiction].
    - rewrite E' in E. apply np_pend_iff in Hp. destruct Hp as [Hj Hp].
      unfold pick in E. apply argmin_some in E. destruct E as [_ Hmin].
      apply Hmin. apply filter_In. split; [apply in_seq; lia|exact Hp].
  Qed.

  (* an incomplete job keeps the processor *)
  Theorem np_continue : forall t k, np_sched t = Some k -> service np_sched k (S t) < cost jobs k ->
    np_sched (S t) = Some k.
  Proof.
    intros t k E Hs. destruct (np_cases (S t)) as [(k0 & _ & Ek0 & _ & E')|[[H0|Hdone] _]].
    - replace (S t - 1) with t in Ek0 by lia. rewrite E in Ek0. injection Ek0 as <-. exact E'.
    - discriminate H0.
    - replace (S t - 1) with t in Hdone by lia. specialize (Hdone k E). lia.
  Qed.

  (* a started, incomplete job is running *)
  Theorem np_started_runs : forall t k, 0 < service np_sched k t -> service np_sched k t < cost jobs k ->
    np_sched t = Some k.
  Proof.
    induction t as [|t IH]; intros k H0 Hc.
    - change (service np_sched k 0) with 0 in H0. lia.
    - destruct (sched_dec np_sched t k) as [E|E]; [apply np_continue; assumption|].
      rewrite (service_not_running np_sched k t E) in H0, Hc. elim E. apply IH; assumption.
  Qed.

  Definition np_pp (k s : nat) : bool := (s =? 0) || (s =? cost jobs k).

  Theorem np_legal : forall hp : nat -> nat -> Prop,
    (forall k k', k < n -> k' < n -> rank k <= rank k' -> ~ hp k' k) -> legal jobs np_sched hp np_pp.
  Proof.
    intros hp Hhp. split.
    - intros t k E Hn Hp. exfalso. apply Hn. apply np_continue; [exact E|apply Hp].
    - intros t k k' [E D] Hp.
      destruct (np_valid t k E) as (Hk & _ & Hs). destruct Hp as (Hk' & Hp2).
      apply Hhp; [exact Hk|exact Hk'|]. apply (np_fresh_min t k k' E); [|split; [exact Hk'|exact Hp2]].
      destruct D as [D|[D|D]]; [left; exact D|right; exact D|].
      unfold np_pp in D. apply orb_true_iff in D. destruct D as [D|D]; apply Nat.eqb_eq in D; [|lia].
      destruct t as [|t]; [left; reflexivity|right]. replace (S t - 1) with t by lia. intros E1.
      rewrite (service_running np_sched k t E1) in D. lia.
  Qed.

  (* ---- the lower bound: the slot in which a job starts ---- *)
  Lemma svc_le_len : forall j t1 d, svc np_sched j t1 d <= d.
  Proof.
    intros j t1 d. unfold svc. induction d as [|d IH]; cbn [sumn]; [lia|].
    assert (runs np_sched j (t1 + d) <= 1); [|lia].
    unfold runs. destruct (np_sched (t1 + d)) as [k|]; [destruct (k =? j)|]; lia.
  Qed.

  Lemma first_run : forall v t, 1 <= service np_sched v t ->
    exists u, u < t /\ np_sched u = Some v /\ service np_sched v u = 0.
  Proof.
    intros v t. induction t as [|t IH]; intros Hs.
    - change (service np_sched v 0) with 0 in Hs. lia.
    - destruct (Nat.eq_dec (service np_sched v t) 0) as [H0|H0].
      + destruct (sched_dec np_sched t v) as [E|E].
        * exists t. split; [lia|]. split; assumption.
        * rewrite (service_not_running np_sched v t E) in Hs. lia.
      + destruct (IH ltac:(lia)) as (u & Hu & H1 & H2). exists u. split; [lia|]. split; assumption.
  Qed.

  Theorem np_lower : forall v t, 1 <= cost jobs v -> cost jobs v <= service np_sched v t ->
    exists u, u + cost jobs v <= t /\ np_sched u = Some v /\
      (forall k, k < n -> rank k < rank v -> arr jobs k <= u -> cost jobs k <= service np_sched k u) /\
      (forall k, 0 < service np_sched k u -> cost jobs k <= service np_sched k u).
  Proof.
    intros v t Hc Hs. destruct (first_run v t ltac:(lia)) as (u & Hu & Eu & H0).
    exists u. split; [|split; [exact Eu|split]].
    - unfold service in Hs. replace t with (u + (t - u)) in Hs by lia. rewrite svc_split in Hs.
      fold (service np_sched v u) in Hs. rewrite H0 in Hs. cbn [Nat.add] in Hs.
      pose proof (svc_le_len v u (t - u)). lia.
    - intros k Hk Hr Ha. destruct (Nat.le_gt_cases (cost jobs k) (service np_sched k u)) as [|Hgt]; [assumption|exfalso].
      assert (Hp : pending jobs np_sched k u) by (split; [exact Hk|split; assumption]).
      assert (Hfresh : u = 0 \/ np_sched (u - 1) <> Some v).
      { destruct u as [|u]; [left; reflexivity|right]. replace (S u - 1) with u by lia. intros E1.
        rewrite (service_running np_sched v u E1) in H0. lia. }
      pose proof (np_fresh_min u v k Eu Hfresh Hp). lia.
    - intros k Hk0. destruct (Nat.le_gt_cases (cost jobs k) (service np_sched k u)) as [|Hgt]; [assumption|exfalso].
      pose proof (np_started_runs u k Hk0 Hgt) as Ek. rewrite Eu in Ek. injection Ek as <-. lia.
  Qed.
End NpSched.
Print Assumptions np_valid.
Print Assumptions np_work_conserving.
Print Assumptions np_legal.
Print Assumptions np_lower.

(* ---- the job set: the dense releases of task i and of the higher-priority tasks from the origin
        O = origin + 1 on, and one job of a lower-priority task l released one slot earlier ---- *)
Definition np_horizon (prio : nat -> nat) (i : nat) (H : N) (k : nat) : N :=
  if prio k <=? prio i then H else 0%N.
Definition np_jobs (tasks : list task) (prio : nat -> nat) (i l : nat) (H : N) : list job :=
  mkJob l (origin tasks) (N.to_nat (snd (nth l tasks (Never, 0%N))))
  :: mk_jobs (S (origin tasks)) (np_horizon prio i H) 0 tasks.

(* at most one unit of service per slot, none before the first release *)
Lemma total_service_le_gen : forall jobs sched O, valid jobs sched ->
  (forall k, k < length jobs -> O <= arr jobs k) ->
  forall t, sumn (length jobs) (fun k => service sched k t) <= t - O.
Proof.
  intros jobs sched O Hv Harr. induction t as [|t IH].
  - rewrite sumn_const0; [lia|]. intros i _. reflexivity.
  - rewrite (sumn_ext _ _ (fun k => service sched k t + runs sched k t)) by (intros; apply service_S).
    rewrite sumn_add, (runs_total jobs sched Hv t).
    destruct (sched t) as [k|] eqn:E; [|lia].
    destruct (Hv _ _ E) as (Hk & Ha & _). pose proof (Harr k Hk). lia.
Qed.

Lemma mk_in_na : forall O Hf tasks i0 j, In j (mk_jobs O Hf i0 tasks) ->
  (0 < na (fst (nth (j_task j - i0) tasks (Never, 0%N))) (Hf (j_task j)))%N.
Proof.
  intros O Hf tasks. induction tasks as [|tk r IH]; intros i0 j Hin; [destruct Hin|].
  cbn [mk_jobs] in Hin. apply in_app_or in Hin. destruct Hin as [Hin|Hin].
  - unfold task_jobs, dense in Hin. apply in_map_iff in Hin. destruct Hin as (a & <- & Ha).
    apply in_map_iff in Ha. destruct Ha as (m & _ & Hm). apply in_seq in Hm. cbn [j_task].
    rewrite Nat.sub_diag. cbn [nth]. lia.
  - pose proof (IH (S i0) j Hin) as H1. destruct (mk_in O Hf r (S i0) j Hin) as (H2 & _).
    replace (j_task j - i0) with (S (j_task j - S i0)) by lia. exact H1.
Qed.

Lemma single_admissible : forall tk x, exact_task tk -> admissible (fst tk) [x].
Proof.
  intros [ab c] x [(T & E & HT)|(T & J & E & HT)]; cbn [fst] in E; subst ab; cbn [fst].
  - apply adm_periodic. exact I.
  - replace [x] with (zip_add [x] [0]) by (cbn [zip_add]; rewrite Nat.add_0_r; reflexivity).
    apply adm_sporadic; [exact I|reflexivity|]. constructor; [lia|constructor].
Qed.

Lemma workP_cons : forall b js P,
  workP (b :: js) P = (if P 0 then j_cost b else 0) + workP js (fun k => P (S k)).
Proof. intros b js P. unfold workP. cbn [length]. rewrite sumn_shift. reflexivity. Qed.

Lemma workP_disjoint3 : forall jobs (P1 P2 P3 Q : nat -> bool),
  (forall k, k < length jobs -> P1 k = true -> Q k = true /\ P2 k = false /\ P3 k = false) ->
  (forall k, k < length jobs -> P2 k = true -> Q k = true /\ P3 k = false) ->
  (forall k, k < length jobs -> P3 k = true -> Q k = true) ->
  workP jobs P1 + workP jobs P2 + workP jobs P3 <= workP jobs Q.
Proof.
  intros jobs P1 P2 P3 Q H1 H2 H3. unfold workP. rewrite <- !sumn_add. apply sumn_le. intros k Hk.
  destruct (P1 k) eqn:E1.
  - destruct (H1 k Hk E1) as (-> & -> & ->). lia.
  - destruct (P2 k) eqn:E2.
    + destruct (H2 k Hk E2) as (-> & ->). lia.
    + destruct (P3 k) eqn:E3; [rewrite (H3 k Hk E3)|]; lia.
Qed.

Lemma fp_rank_not_hp : forall jobs prio k k', k < length jobs -> k' < length jobs ->
  fp_rank jobs prio k <= fp_rank jobs prio k' -> ~ fp_hp jobs prio k' k.
Proof.
  intros jobs prio k k' Hk Hk' Hr Hhp. pose proof (fp_rank_le jobs prio k k' Hk Hk' Hr) as Hle.
  unfold fp_hp in Hhp. destruct Hhp as [H1|[H1 H2]]; [lia|]. rewrite H1 in Hle. lia.
Qed.

Section NpConstruction.
  Variable tasks : list task.
  Variable prio : nat -> nat.
  Variables (i l : nat) (H : N).
  Hypothesis tasks_exact : Forall (fun tk => exact_task tk /\ (1 <= snd tk)%N) tasks.
  Hypothesis Hl : l < length tasks.
  Hypothesis Hpl : prio i < prio l.
  Notation O1 := (origin tasks).
  Notation O := (S (origin tasks)).
  Notation Hf := (np_horizon prio i H).
  Let mj := mk_jobs O Hf 0 tasks.
  Let jobs := np_jobs tasks prio i l H.
  Notation tki k := (nth k tasks (Never, 0%N)).

  Lemma O_ge : forall tk, In tk tasks -> tJ tk <= O.
  Proof. intros tk Hin. pose proof (origin_ge tasks tk Hin). lia. Qed.

  Lemma Hf_lp : Hf l = 0%N.
  Proof. unfold np_horizon. destruct (Nat.leb_spec (prio l) (prio i)); [lia|reflexivity]. Qed.

  Lemma Hf_hep : forall k, prio k <= prio i -> Hf k = H.
  Proof. intros k Hk. unfold np_horizon. destruct (Nat.leb_spec (prio k) (prio i)); [reflexivity|lia]. Qed.

  Lemma np_len : length jobs = S (length mj).
  Proof. reflexivity. Qed.

  Theorem np_respects_costs : respects_costs tasks jobs.
  Proof.
    intros j [<-|Hin].
    - cbn [j_task j_cost]. destruct (tk_facts O tasks tasks_exact O_ge l Hl) as (_ & HC & _). split; [exact Hl|]. lia.
    - apply (mk_respects_costs O Hf tasks tasks_exact O_ge). exact Hin.
  Qed.

  Theorem np_respects_curves : respects_curves tasks jobs.
  Proof.
    intros i' Hi'.
    assert (E : arrivals_of jobs i' = (if l =? i' then [O1] else []) ++ arrivals_of mj i').
    { unfold jobs, np_jobs, arrivals_of. cbn [filter j_task]. fold mj.
      destruct (l =? i'); reflexivity. }
    rewrite E. destruct (Nat.eqb_spec l i') as [<-|Hne].
    - assert (E2 : arrivals_of mj l = []).
      { unfold mj. rewrite mk_arrivals. cbn [Nat.leb andb Nat.add]. destruct (Nat.ltb_spec l (length tasks)); [|lia].
        rewrite Nat.sub_0_r. unfold dense. rewrite Hf_lp.
        destruct (tk_facts O tasks tasks_exact O_ge l Hl) as (He & _ & _).
        rewrite (na_zero _ (proj1 (exact_wf _ He))). reflexivity. }
      rewrite E2. exists [O1]. split; [apply Permutation_refl|].
      apply single_admissible. apply (tk_facts O tasks tasks_exact O_ge l Hl).
    - cbn [app]. apply (mk_respects_curves O Hf tasks tasks_exact O_ge i' Hi').
  Qed.

  Lemma np_arr0 : arr jobs 0 = O1.
  Proof. reflexivity. Qed.
  Lemma np_tsk0 : tsk jobs 0 = l.
  Proof. reflexivity. Qed.
  Lemma np_cost0 : cost jobs 0 = N.to_nat (snd (tki l)).
  Proof. reflexivity. Qed.

  Lemma np_arr_S : forall k, S k < length jobs -> O <= arr jobs (S k).
  Proof. intros k Hk. rewrite np_len in Hk. apply (mk_job_facts O Hf tasks k). fold mj. lia. Qed.

  Lemma np_arr_ge : forall k, k < length jobs -> O1 <= arr jobs k.
  Proof. intros [|k] Hk; [rewrite np_arr0; lia|]. pose proof (np_arr_S k Hk). lia. Qed.

  Lemma np_cost_eq : forall k, k < length jobs -> cost jobs k = N.to_nat (snd (tki (tsk jobs k))).
  Proof.
    intros [|k] Hk; [reflexivity|]. rewrite np_len in Hk.
    destruct (mk_job_facts O Hf tasks k ltac:(fold mj; lia)) as (_ & Hc & _). exact Hc.
  Qed.

  (* apart from the blocker there are no jobs of lower-priority tasks *)
  Lemma np_hep_S : forall k, S k < length jobs -> prio (tsk jobs (S k)) <= prio i.
  Proof.
    intros k Hk. rewrite np_len in Hk.
    assert (Hin : In (nth k mj (mkJob 0 0 0)) mj) by (apply nth_In; lia).
    pose proof (mk_in_na O Hf tasks 0 _ Hin) as Hna. destruct (mk_in O Hf tasks 0 _ Hin) as (Ht & _).
    rewrite Nat.sub_0_r in Hna.
    change (tsk jobs (S k)) with (j_task (nth k mj (mkJob 0 0 0))).
    set (tk := j_task (nth k mj (mkJob 0 0 0))) in *.
    destruct (Nat.le_gt_cases (prio tk) (prio i)) as [|Hgt]; [assumption|exfalso].
    assert (E : Hf tk = 0%N) by (unfold np_horizon; destruct (Nat.leb_spec (prio tk) (prio i)); [lia|reflexivity]).
    rewrite E in Hna.
    destruct (tk_facts O tasks tasks_exact O_ge tk ltac:(lia)) as (He & _ & _).
    rewrite (na_zero _ (proj1 (exact_wf _ He))) in Hna. lia.
  Qed.

  Theorem np_task_work : forall i' (d : N), i' < length tasks -> prio i' <= prio i -> (d <= H)%N ->
    workP jobs (task_in_win jobs i' O (N.to_nat d)) = N.to_nat (snd (tki i') * na (fst (tki i')) d).
  Proof.
    intros i' d Hi' Hp Hd. unfold jobs, np_jobs. rewrite workP_cons. fold mj.
    replace (task_in_win (mkJob l O1 (N.to_nat (snd (tki l))) :: mj) i' O (N.to_nat d) 0) with false.
    2:{ unfold task_in_win, arr. cbn [nth j_task j_arr]. destruct (Nat.leb_spec O O1); [lia|].
        rewrite andb_false_r. reflexivity. }
    cbn [Nat.add].
    change (fun k => task_in_win (mkJob l O1 (N.to_nat (snd (tki l))) :: mj) i' O (N.to_nat d) (S k))
      with (task_in_win mj i' O (N.to_nat d)).
    apply (mk_task_work O Hf tasks tasks_exact O_ge i' d Hi'). rewrite (Hf_hep i' Hp). exact Hd.
  Qed.

  Theorem np_hp_work : forall d : N, (d <= H)%N ->
    workP jobs (hpw i prio jobs O (N.to_nat d)) = N.to_nat (sum_sn (hp_rbs tasks i prio) d).
  Proof.
    intros d Hd. apply hp_work_gen; [exact np_respects_costs|].
    intros i' Hi' Hp. apply np_task_work; [exact Hi'|lia|exact Hd].
  Qed.

  Lemma np_blocker_work : workP jobs (fun k => k =? 0) = N.to_nat (snd (tki l)).
  Proof.
    unfold jobs, np_jobs. rewrite workP_cons. cbn [Nat.eqb j_cost]. unfold workP.
    rewrite sumn_const0; [lia|]. intros k _. reflexivity.
  Qed.
End NpConstruction.

Theorem fp_nonpreemptive_bound_attained : forall dbg (tasks : list task) i l prio limit B R,
  Forall (fun tk => exact_task tk /\ (1 <= snd tk)%N) tasks -> i < length tasks ->
  l < length tasks -> prio i < prio l -> snd (nth l tasks (Never, 0%N)) = (B + 1)%N ->
  (forall a b, a < length tasks -> b < length tasks -> prio a = prio b -> a = b) -> (1 <= R)%N ->
  e_fp_np dbg (ab_i tasks i) (C tasks i) B (hp_rbs tasks i prio) limit = ROk R ->
  exists jobs sched pp k, valid jobs sched /\ work_conserving jobs sched /\
     respects_curves tasks jobs /\ respects_costs tasks jobs /\
     fully_nonpreemptive jobs pp /\ legal jobs sched (fp_hp jobs prio) pp /\
     (forall k', k' < length jobs -> prio i < prio (tsk jobs k') -> cost jobs k' <= N.to_nat B + 1) /\
     k < length jobs /\ tsk jobs k = i /\
     completes_within jobs sched k (N.to_nat R) /\ ~ completes_within jobs sched k (N.to_nat R - 1).
Proof.
  intros dbg tasks i l prio limit B R Hex Hi Hl Hpl HBl Hinj HR He.
  assert (Hok : Forall (fun tk => wf_ab (fst tk) /\ steps_exact_class (fst tk) /\ (1 <= snd tk)%N) tasks).
  { eapply Forall_impl; [|exact Hex]. intros tk [H1 H2]. destruct (exact_wf tk H1). repeat split; assumption. }
  destruct (tk_facts (origin tasks) tasks Hex (origin_ge tasks) i Hi) as (Hexi & HCi & _).
  fold (C tasks i) in HCi. destruct (exact_wf _ Hexi) as [Hwfi Hcli]. fold (ab_i tasks i) in Hwfi, Hcli.
  assert (Hhp : Forall wf_rb (hp_rbs tasks i prio)) by (apply (wf_hp_rbs tasks i prio Hi Hok 1%N); lia).
  pose proof (exact_na1 _ Hexi) as Hna1. fold (ab_i tasks i) in Hna1.
  pose proof He as He'. rewrite (e_fp_np_exhaustive dbg _ _ B _ limit Hwfi Hcli Hhp ltac:(lia) HCi) in He'.
  destruct (exh_fp_attained _ _ _ _ _ _ He' HR) as (A & AF & HAF1 & HAF2 & HAFR & HAFmin).
  cbv beta in HAFmin.
  (* the construction *)
  set (H := N.max limit (A + 1)). set (O1 := origin tasks).
  set (jobs := np_jobs tasks prio i l H). set (rank := fp_rank jobs prio). set (sched := np_sched jobs rank).
  pose proof (np_respects_curves tasks prio i l H Hex Hl Hpl) as Hcurves. fold jobs in Hcurves.
  pose proof (np_respects_costs tasks prio i l H Hex Hl Hpl) as Hcosts. fold jobs in Hcosts.
  pose proof (np_valid jobs rank) as Hv. pose proof (np_work_conserving jobs rank) as Hwc.
  pose proof (np_legal jobs rank (fp_hp jobs prio) (fp_rank_not_hp jobs prio)) as Hlegal.
  fold rank sched in Hv, Hwc, Hlegal.
  assert (Hnp : fully_nonpreemptive jobs (np_pp jobs)) by (intros k s; reflexivity).
  assert (Hpp : pp_sane jobs (np_pp jobs)).
  { intros k. unfold np_pp. split; [reflexivity|]. rewrite Nat.eqb_refl. apply orb_true_r. }
  assert (HB : forall k', k' < length jobs -> prio i < prio (tsk jobs k') -> cost jobs k' <= N.to_nat B + 1).
  { intros [|k'] Hk' Hp.
    - unfold jobs. rewrite np_cost0, HBl. lia.
    - pose proof (np_hep_S tasks prio i l H Hex Hl Hpl k' Hk'). fold jobs in H0. lia. }
  (* the blocker has started before the origin *)
  assert (Hlen0 : 0 < length jobs) by (unfold jobs, np_jobs; cbn [length]; lia).
  assert (Hc0 : cost jobs 0 = N.to_nat B + 1) by (unfold jobs; rewrite np_cost0, HBl; lia).
  assert (Hstart : 1 <= service sched 0 (S O1)).
  { assert (Hz : service sched 0 O1 = 0).
    { pose proof (total_service_le_gen jobs sched O1 Hv (np_arr_ge tasks prio i l H Hl Hpl) O1) as Hs.
      pose proof (sumn_term_le (length jobs) (fun k => service sched k O1) 0 Hlen0) as Ht. cbv beta in Ht. lia. }
    assert (Hp0 : pending jobs sched 0 O1).
    { split; [exact Hlen0|]. split; [unfold jobs; rewrite np_arr0; fold O1; lia|lia]. }
    destruct (sched O1) as [j|] eqn:Ej; [|exfalso; exact (Hwc O1 0 Hp0 Ej)].
    destruct (Hv _ _ Ej) as (Hj & Haj & _).
    destruct j as [|j]; [|pose proof (np_arr_S tasks prio i l H Hl Hpl j Hj) as Hge; fold jobs O1 in Hge; lia].
    rewrite (service_running sched 0 O1 Ej). lia. }
  (* the victim: the latest job of task i released in [O, O + A] *)
  set (inS := task_in_win jobs i (S O1) (N.to_nat (A + 1))).
  assert (HW : workP jobs inS = N.to_nat (C tasks i * na (ab_i tasks i) (A + 1))).
  { apply (np_task_work tasks prio i l H Hex Hl Hpl i (A + 1)%N Hi); unfold H; lia. }
  assert (Hna : (C tasks i * 1 <= C tasks i * na (ab_i tasks i) (A + 1))%N).
  { apply N.mul_le_mono_l. pose proof (na_mono (ab_i tasks i) Hwfi 1 (A + 1) ltac:(lia))%N. lia. }
  destruct (victim_exists jobs rank inS ltac:(lia)) as (v & Hv1 & Sv & Hmax).
  assert (Sv' := Sv). unfold inS, task_in_win in Sv'.
  apply andb_true_iff in Sv'. destruct Sv' as [Sv' Sv3]. apply andb_true_iff in Sv'. destruct Sv' as [Sv1 Sv2].
  apply Nat.eqb_eq in Sv1. apply Nat.ltb_lt in Sv3. apply Nat.leb_le in Sv2.
  assert (Hcv : cost jobs v = N.to_nat (C tasks i)).
  { unfold jobs. rewrite (np_cost_eq tasks prio i l H Hl Hpl v Hv1). fold jobs. rewrite Sv1. reflexivity. }
  exists jobs, sched, (np_pp jobs), v.
  split; [exact Hv|]. split; [exact Hwc|]. split; [exact Hcurves|]. split; [exact Hcosts|].
  split; [exact Hnp|]. split; [exact Hlegal|]. split; [exact HB|]. split; [exact Hv1|]. split; [exact Sv1|]. split.
  - exact (fp_fully_nonpreemptive_sound tasks i prio Hi Hok Hinj jobs sched (np_pp jobs) Hv Hwc Hcurves Hcosts
             Hpp Hlegal dbg B limit R Hnp HB He v Hv1 Sv1).
  - intros Hc. unfold completes_within in Hc.
    destruct (np_lower jobs rank v _ ltac:(lia) Hc) as (u & Hut & Eu & Hlow & Hstarted). fold sched in Eu, Hlow, Hstarted.
    destruct (Hv _ _ Eu) as (_ & Hau & _).
    pose proof (total_service_le_gen jobs sched O1 Hv (np_arr_ge tasks prio i l H Hl Hpl) u) as Hsum.
    set (x := u - O1). assert (Hx : S O1 + x = S u) by lia.
    set (Q := fun k => (k =? 0) || ((rank k <=? rank v) && (arr jobs k <? S O1 + x))).
    assert (HQ : workP jobs Q <= sumn (length jobs) (fun k => service sched k u) + cost jobs v).
    { apply Nat.le_trans with (sumn (length jobs) (fun k => service sched k u + (if v =? k then cost jobs v else 0))).
      - unfold workP. apply sumn_le. intros k Hk. destruct (Q k) eqn:Qk; [|lia].
        unfold Q in Qk. apply orb_true_iff in Qk. destruct Qk as [Qk|Qk].
        + apply Nat.eqb_eq in Qk. subst k.
          assert (cost jobs 0 <= service sched 0 u); [|lia]. apply Hstarted.
          assert (service sched 0 (S O1) <= service sched 0 u) by (apply service_mono; lia). lia.
        + apply andb_true_iff in Qk. destruct Qk as [Q1 Q2]. apply Nat.leb_le in Q1. apply Nat.ltb_lt in Q2.
          destruct (Nat.eqb_spec v k) as [->|Hne]; [lia|].
          assert (Hlt : rank k < rank v).
          { destruct (Nat.eq_dec (rank k) (rank v)) as [e|]; [|lia].
            apply fp_rank_inj in e; [congruence|assumption|assumption]. }
          pose proof (Hlow k Hk Hlt ltac:(lia)). lia.
      - rewrite sumn_add, (sumn_pick (length jobs) v (cost jobs v) Hv1). lia. }
    assert (Hsub : workP jobs (fun k => k =? 0) + workP jobs inS + workP jobs (hpw i prio jobs (S O1) x) <= workP jobs Q).
    { apply workP_disjoint3.
      - intros k Hk Pk. apply Nat.eqb_eq in Pk. subst k. split; [reflexivity|]. split.
        + unfold inS, task_in_win. unfold jobs at 1. rewrite np_tsk0.
          destruct (Nat.eqb_spec l i) as [e|]; [subst l; lia|reflexivity].
        + unfold hpw. unfold jobs at 1. rewrite np_tsk0. destruct (Nat.ltb_spec (prio l) (prio i)); [lia|reflexivity].
      - intros k Hk Sk.
        assert (Etk : tsk jobs k = i).
        { unfold inS, task_in_win in Sk. apply andb_true_iff in Sk. destruct Sk as [Sk _].
          apply andb_true_iff in Sk. destruct Sk as [Sk _]. apply Nat.eqb_eq in Sk. exact Sk. }
        split.
        + unfold Q. apply orb_true_iff. right.
          apply andb_true_iff. split; [apply Nat.leb_le; apply Hmax; assumption|apply Nat.ltb_lt].
          destruct (fp_rank_le jobs prio k v Hk Hv1 (Hmax k Hk Sk)) as [Hlt|[_ Hle]]; [rewrite Etk, Sv1 in Hlt; lia|lia].
        + unfold hpw. rewrite Etk, Nat.ltb_irrefl. reflexivity.
      - intros k Hk Pk. unfold hpw, in_win in Pk. apply andb_true_iff in Pk. destruct Pk as [Pk1 Pk2].
        apply andb_true_iff in Pk2. destruct Pk2 as [_ Pk2]. apply Nat.ltb_lt in Pk1.
        unfold Q. apply orb_true_iff. right.
        apply andb_true_iff. split; [|exact Pk2]. apply Nat.leb_le. apply Nat.lt_le_incl.
        apply fp_rank_lt; [exact Hk|exact Hv1|]. rewrite Sv1. exact Pk1. }
    pose proof (np_blocker_work tasks prio i l H Hl Hpl) as Hbw. fold jobs in Hbw. rewrite HBl in Hbw.
    assert (HAFx : (AF <= N.of_nat x)%N).
    { destruct (N.le_gt_cases AF (N.of_nat x)) as [|Hlt]; [assumption|exfalso].
      pose proof (np_hp_work tasks prio i l H Hex Hl Hpl (N.of_nat x) ltac:(unfold H; lia)) as Hhpw.
      fold jobs O1 in Hhpw. rewrite Nnat.Nat2N.id in Hhpw.
      specialize (HAFmin (N.of_nat x) ltac:(lia) Hlt). lia. }
    lia.
Qed.
Print Assumptions fp_nonpreemptive_bound_attained.

(* ------------------------------------------------------------------------------------------ *)
(* 8. non-vacuity: the three theorems applied to a concrete task set                           *)
(* ------------------------------------------------------------------------------------------ *)
Definition c18_tasks : list task := [(Sporadic 7 9, 2%N); (Periodic 5, 1%N); (Sporadic 11 3, 3%N)].
Definition c18_prio (k : nat) : nat := k.

Lemma c18_tasks_exact : Forall (fun tk => exact_task tk /\ (1 <= snd tk)%N) c18_tasks.
Proof.
  constructor; [split; [right; exists 7%N, 9%N; split; [reflexivity|lia]|cbn; lia]|].
  constructor; [split; [left; exists 5%N; split; [reflexivity|lia]|cbn; lia]|].
  constructor; [split; [right; exists 11%N, 3%N; split; [reflexivity|lia]|cbn; lia]|].
  constructor.
Qed.

Example c18_fifo_ok : e_fifo false (Agg (map rb_of c18_tasks)) 60 = ROk 8.
Proof. vm_compute. reflexivity. Qed.
Example c18_fp_ok : e_fp_fp false (RBF (ab_i c18_tasks 2) (Scalar (C c18_tasks 2))) (hp_rbs c18_tasks 2 c18_prio) 60 = ROk 12.
Proof. vm_compute. reflexivity. Qed.
Example c18_np_ok : e_fp_np false (ab_i c18_tasks 0) (C c18_tasks 0) 2 (hp_rbs c18_tasks 0 c18_prio) 40 = ROk 6.
Proof. vm_compute. reflexivity. Qed.

Example c18_fifo_tight : exists jobs sched k, valid jobs sched /\ work_conserving jobs sched /\ fifo_policy jobs sched /\
  respects_curves c18_tasks jobs /\ respects_costs c18_tasks jobs /\ k < length jobs /\
  completes_within jobs sched k 8 /\ ~ completes_within jobs sched k 7.
Proof.
  exact (fifo_bound_attained false c18_tasks 60 8 c18_tasks_exact ltac:(discriminate) ltac:(lia) c18_fifo_ok).
Qed.

Example c18_fp_tight : exists jobs sched k, valid jobs sched /\ work_conserving jobs sched /\
  respects_curves c18_tasks jobs /\ respects_costs c18_tasks jobs /\
  legal jobs sched (fp_hp jobs c18_prio) (fun _ _ => true) /\
  k < length jobs /\ tsk jobs k = 2 /\ completes_within jobs sched k 12 /\ ~ completes_within jobs sched k 11.
Proof.
  assert (Hi : 2 < length c18_tasks) by (cbn [length c18_tasks]; lia).
  exact (fp_preemptive_bound_attained false c18_tasks 2 c18_prio 60 12 c18_tasks_exact Hi
           (fun a b _ _ E => E) ltac:(lia) c18_fp_ok).
Qed.

Example c18_np_tight : exists jobs sched pp k, valid jobs sched /\ work_conserving jobs sched /\
  respects_curves c18_tasks jobs /\ respects_costs c18_tasks jobs /\
  fully_nonpreemptive jobs pp /\ legal jobs sched (fp_hp jobs c18_prio) pp /\
  (forall k', k' < length jobs -> c18_prio 0 < c18_prio (tsk jobs k') -> cost jobs k' <= 2 + 1) /\
  k < length jobs /\ tsk jobs k = 0 /\ completes_within jobs sched k 6 /\ ~ completes_within jobs sched k 5.
Proof.
  assert (Hi : 0 < length c18_tasks) by (cbn [length c18_tasks]; lia).
  assert (Hl : 2 < length c18_tasks) by (cbn [length c18_tasks]; lia).
  assert (Hp : c18_prio 0 < c18_prio 2) by (unfold c18_prio; lia).
  exact (fp_nonpreemptive_bound_attained false c18_tasks 0 2 c18_prio 40 2 6 c18_tasks_exact Hi Hl Hp eq_refl
           (fun a b _ _ E => E) ltac:(lia) c18_np_ok).
Qed.
Print Assumptions c18_fifo_tight.
Print Assumptions c18_fp_tight.
Print Assumptions c18_np_tight.
