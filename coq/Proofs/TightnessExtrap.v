(* TightnessExtrap.v — property C18 for auto-extrapolating delta-min curves.
   Proofs/Tightness.v shows that the bounds of the FIFO analysis and of the fully preemptive and
   fully non-preemptive fixed-priority analyses are attained for tasks with a Periodic or Sporadic
   arrival model.  This file extends the three theorems to the class [exact_task'] = Periodic |
   Sporadic | ExtrapAB d with a realisable (well-formed, super-additive) delta-min prefix d.

   Contents
   A. the fully extrapolated distance function [Dx d n] (distance of n + 2 events): stable under
      further pushes, non-decreasing, super-additive ([Dx_superadd]);
      [extrap_na_char]: na (ExtrapAB d) delta = 1 + #{n | Dx d n < delta} for EVERY well-formed d;
      the dense sequence O, O + Dx 0, O + Dx 1, ... ([dense_extrap]) is admissible
      ([dense_extrap_admissible], needs super-additivity: [dense_extrap_needs_superadditive]),
      hence bounded by the curve in every window ([dense_extrap_window_bound]), and attains the
      curve in every window that starts at the origin ([dense_extrap_count]);
   B. the class [exact_task'], the generalised dense releases [dense'] with [dense_admissible'],
      [dense_count'], and the job sets [mk_jobs'], [np_jobs'] (Tightness.v, sections 3, 4 and 7,
      re-derived; the class enters only through [exact_wf'], [exact_na1'], [dense_admissible'],
      [dense_count'], [single_admissible']);
   C. [fifo_bound_attained_extrap], [fp_preemptive_bound_attained_extrap],
      [fp_nonpreemptive_bound_attained_extrap];
   D. non-vacuity on a task set with two ExtrapAB tasks (one with a plateau-ended prefix).

   No side condition on plateaus is needed: ExtrapolatingCurve::number_arrivals always looks the
   count up inside the extrapolated vector (delta < last entry), so the wrap-around of
   Curve::number_arrivals (former finding C11-plateau-curve, repaired meanwhile) is never exercised, and
   [steps_exact_class (ExtrapAB d)] holds. *)
From Coq Require Import Arith NArith List Lia Bool Permutation.
From RTA.Model Require Import Base Arrival Wcet Demand Analyses Eval WellFormed.
From RTA.Spec Require Import Sched Events TaskModel Policies Exhaustive.
From RTA.Proofs Require Import FixedPointProofs ExhFP ExhCorollaries ArrivalNaProofs WcetProofs StepsProofs
  EntryPoints Workload FifoSound FifoEndToEnd FpSound ExtrapProofs Tightness.
Import ListNotations.
Local Close Scope N_scope.
Local Open Scope nat_scope.

(* ------------------------------------------------------------------------------------------ *)
(* A. the fully extrapolated distance function                                                 *)
(* ------------------------------------------------------------------------------------------ *)
(* entry n of the vector after enough pushes *)
Definition Dx (d : list N) (n : nat) : N := nthN (Nat.iter (S n - length d) push_next d) n.

Lemma Dx_stable : forall d k i, i < length d + k -> nthN (Nat.iter k push_next d) i = Dx d i.
Proof. intros d k i Hi. unfold Dx. apply iter_nth_stable; lia. Qed.

Lemma Dx_prefix : forall d i, i < length d -> Dx d i = nthN d i.
Proof. intros d i Hi. rewrite <- (Dx_stable d 0 i) by lia. reflexivity. Qed.

Lemma Dx_mono : forall d i j, wf_dmin d -> i <= j -> (Dx d i <= Dx d j)%N.
Proof.
  intros d i j Hwf Hij. rewrite <- (Dx_stable d (S j) i), <- (Dx_stable d (S j) j) by lia.
  destruct (iter_push_wf (S j) d Hwf) as (_ & Hnd & _).
  apply nondecreasing_nth; [exact Hnd|exact Hij|rewrite iter_push_length; lia].
Qed.

(* (a) a window with a + b + 3 events splits into one with a + 2 and one with b + 2 events *)
Theorem Dx_superadd : forall d a b, realisable d -> (Dx d a + Dx d b <= Dx d (a + b + 1))%N.
Proof.
  intros d a b [Hwf Hsup]. destruct (Nat.lt_ge_cases (a + b + 1) (length d)) as [Hlt|Hge].
  - rewrite !Dx_prefix by lia. apply Hsup. exact Hlt.
  - set (n := a + b + 1) in *.
    rewrite <- (Dx_stable d (S n - length d) n) by lia.
    rewrite (iter_nth_new _ d n Hge) by lia.
    set (e := Nat.iter (n - length d) push_next d).
    assert (Hlen : length e = n) by (unfold e; rewrite iter_push_length; lia).
    pose proof (extrapolate_next_lb e a ltac:(lia)) as Hlb. rewrite Hlen in Hlb.
    replace (n - 1 - a) with b in Hlb by lia.
    unfold e in Hlb. rewrite !Dx_stable in Hlb by lia. exact Hlb.
Qed.

(* ---- the value of ExtrapolatingCurve::number_arrivals ---- *)
Lemma lookup_hit_first : forall d x, d <> [] -> (x <= lastN d)%N ->
  exists m, lookup_arrivals d x = (N.of_nat m + 1)%N /\ m < length d /\ (x <= nthN d m)%N /\
            forall i, i < m -> (nthN d i < x)%N.
Proof.
  intros d x. induction d as [|y d IH]; intros Hne Hx; [congruence|].
  cbn [lookup_arrivals]. destruct (N.leb_spec x y) as [Hle|Hgt].
  - exists 0. cbn [length]. unfold nthN. cbn [nth]. split; [reflexivity|]. split; [lia|]. split; [exact Hle|].
    intros i Hi. lia.
  - destruct d as [|z d]; [unfold lastN in Hx; cbn [last] in Hx; lia|].
    rewrite lastN_cons2 in Hx. destruct (IH ltac:(discriminate) Hx) as (m & E & Hm & Hxm & Hlow).
    exists (S m). rewrite E. split; [lia|]. split; [cbn [length] in *; lia|].
    unfold nthN in *. cbn [nth]. split; [exact Hxm|].
    intros [|i] Hi; [exact Hgt|]. cbn [nth]. apply Hlow. lia.
Qed.

Lemma tail_first : forall e x, e <> [] -> x <> 0%N -> (x <= lastN e)%N ->
  exists r, curve_tail e x = (N.of_nat r + 1)%N /\ r < length e /\ (x <= nthN e r)%N /\
            forall i, i < r -> (nthN e i < x)%N.
Proof.
  intros e x Hne H0 Hx. unfold curve_tail. destruct (N.ltb_spec (hdN e) x) as [Hhd|Hhd].
  - apply lookup_hit_first; assumption.
  - exists 0. split; [|split; [|split]].
    + unfold b2n. destruct (N.ltb_spec 0 x); [reflexivity|lia].
    + destruct e; [congruence|cbn [length]; lia].
    + rewrite <- hdN_nth. exact Hhd.
    + intros i Hi. lia.
Qed.

(* the count is looked up in some sufficiently long extension *)
Lemma extrap_na_as_tail : forall d delta, wf_dmin d -> delta <> 0%N ->
  exists k, (delta < lastN (Nat.iter k push_next d))%N /\
            extrap_na d delta = curve_tail (Nat.iter k push_next d) delta.
Proof.
  intros d delta Hwf H0. destruct (le_lt_dec 2 (length d)) as [Hlen|Hlen].
  - unfold extrap_na. destruct (N.eqb_spec delta 0) as [|_]; [congruence|].
    pose proof (extrapolate_reaches d (delta + 1) Hwf Hlen) as Hr.
    destruct (extrapolate_prefix d (delta + 1)) as [k E]. rewrite E in *.
    exists k. split; [lia|]. apply curve_na_small; [exact H0|lia].
  - destruct (wf_len1 d Hwf Hlen) as (T & -> & HT).
    assert (E0 : extrap_na [T] delta = curve_na [T] delta).
    { unfold extrap_na. destruct (N.eqb_spec delta 0) as [|_]; [congruence|]. reflexivity. }
    exists (N.to_nat delta).
    assert (Hl : (delta < lastN (Nat.iter (N.to_nat delta) push_next [T]))%N).
    { rewrite ap_last, Nnat.N2Nat.id.
      assert (1 * (delta + 1) <= T * (delta + 1))%N by (apply N.mul_le_mono_r; lia). lia. }
    split; [exact Hl|]. rewrite E0, <- (ap_curve_na T (N.to_nat delta) delta HT Hl).
    apply curve_na_small; [exact H0|exact Hl].
Qed.

(* release offsets of the dense sequence: event 0 at the origin, event m + 1 at distance Dx m *)
Definition xoff (d : list N) (m : nat) : nat := match m with 0 => 0 | S m' => N.to_nat (Dx d m') end.

(* na (ExtrapAB d) delta = 1 + #{n | Dx d n < delta}: event m of the dense sequence lies within
   delta of the origin iff m < na delta.  Holds for every well-formed prefix. *)
Theorem extrap_na_char : forall d (delta : N) m, wf_dmin d ->
  (xoff d m < N.to_nat delta <-> m < N.to_nat (extrap_na d delta)).
Proof.
  intros d delta m Hwf. destruct (N.eq_dec delta 0) as [->|H0].
  - change (extrap_na d 0) with 0%N. change (N.to_nat 0) with 0. lia.
  - destruct (extrap_na_as_tail d delta Hwf H0) as (k & Hlast & ->).
    set (e := Nat.iter k push_next d) in *.
    destruct (iter_push_wf k d Hwf) as (Hne & _). fold e in Hne.
    destruct (tail_first e delta Hne H0 ltac:(lia)) as (r & -> & Hr & Hxr & Hlow).
    assert (Hle : length e = length d + k) by apply iter_push_length.
    destruct m as [|m']; cbn [xoff]; [lia|]. split.
    + intros Hlt. destruct (Nat.lt_ge_cases m' r) as [|Hge]; [lia|exfalso].
      pose proof (Dx_mono d r m' Hwf Hge) as Hm.
      unfold e in Hxr. rewrite Dx_stable in Hxr by lia. lia.
    + intros Hlt. assert (Hm : m' < r) by lia. specialize (Hlow m' Hm).
      unfold e in Hlow. rewrite Dx_stable in Hlow by lia. lia.
Qed.

Lemma xoff_mono : forall d a b, wf_dmin d -> a <= b -> xoff d a <= xoff d b.
Proof.
  intros d [|a] [|b] Hwf Hab; cbn [xoff]; try lia.
  pose proof (Dx_mono d a b Hwf ltac:(lia)). lia.
Qed.

(* ---- the dense sequence ---- *)
Definition dense_extrap (O n : nat) (d : list N) : list nat := map (fun m => O + xoff d m) (seq 0 n).

Lemma nth_map_seq : forall (f : nat -> nat) n j, j < n -> nth j (map f (seq 0 n)) 0 = f j.
Proof.
  intros f n j Hj. rewrite (nth_indep _ 0 (f 0)) by (rewrite map_length, seq_length; exact Hj).
  rewrite map_nth, seq_nth by exact Hj. reflexivity.
Qed.

Lemma sorted_map_seq : forall (f : nat -> nat) n a, (forall x, f x <= f (S x)) -> sorted (map f (seq a n)).
Proof.
  intros f n. induction n as [|n IH]; intros a Hf; [exact I|].
  cbn [seq map]. specialize (IH (S a) Hf). destruct n as [|n]; [exact I|].
  cbn [seq map] in *. split; [apply Hf|exact IH].
Qed.

(* (b) the dense sequence respects the prefix, i.e. it is admissible for the extrapolating curve *)
Theorem dense_extrap_respects : forall O n d, realisable d -> respects_dmin d (dense_extrap O n d).
Proof.
  intros O n d Hre. pose proof Hre as [Hwf _]. unfold dense_extrap. split.
  - apply sorted_map_seq. intros x. pose proof (xoff_mono d x (S x) Hwf ltac:(lia)). lia.
  - intros i k Hi Hk. rewrite map_length, seq_length in Hk.
    rewrite !nth_map_seq by lia.
    replace (k + i + 1) with (S (k + i)) by lia. cbn [xoff].
    destruct k as [|k]; cbn [xoff].
    + cbn [Nat.add]. rewrite Dx_prefix by exact Hi. lia.
    + pose proof (Dx_superadd d k i Hre) as Hs. rewrite <- (Dx_prefix d i Hi).
      replace (S k + i) with (k + i + 1) by lia. lia.
Qed.

Theorem dense_extrap_admissible : forall O n d, realisable d -> admissible (ExtrapAB d) (dense_extrap O n d).
Proof. intros O n d Hre. apply adm_extrap. apply dense_extrap_respects. exact Hre. Qed.

(* hence every window [t, t + delta) contains at most na delta of its events *)
Corollary dense_extrap_window_bound : forall O n d (t delta : nat), realisable d ->
  (N.of_nat (count (dense_extrap O n d) t delta) <= na (ExtrapAB d) (N.of_nat delta))%N.
Proof.
  intros O n d t delta Hre. cbn [na].
  apply extrapolating_curve_bounds_prefix_sequences; [exact (proj1 Hre)|apply dense_extrap_respects; exact Hre].
Qed.

(* (c) and every window that starts at the origin contains exactly na delta events (as far as the
   sequence has been generated); super-additivity is not needed for this *)
Theorem dense_extrap_count : forall O n d (delta : N), wf_dmin d ->
  count (dense_extrap O n d) O (N.to_nat delta) = Nat.min (N.to_nat (na (ExtrapAB d) delta)) n.
Proof.
  intros O n d delta Hwf. unfold dense_extrap, count. rewrite filter_map_length.
  rewrite (filter_ext _ (fun m => m <? N.to_nat (na (ExtrapAB d) delta))); [apply filter_lt_seq|].
  intros m. pose proof (extrap_na_char d delta m Hwf) as Hr. cbn [na]. unfold in_window.
  destruct (Nat.ltb_spec m (N.to_nat (extrap_na d delta))) as [Hlt|Hge].
  - apply andb_true_iff. split; [apply Nat.leb_le; lia|apply Nat.ltb_lt]. apply Hr in Hlt. lia.
  - apply andb_false_iff. right. apply Nat.ltb_ge.
    destruct (Nat.lt_ge_cases (xoff d m) (N.to_nat delta)) as [Hc|Hc]; [apply Hr in Hc; lia|lia].
Qed.
Print Assumptions Dx_superadd.
Print Assumptions extrap_na_char.
Print Assumptions dense_extrap_admissible.
Print Assumptions dense_extrap_window_bound.
Print Assumptions dense_extrap_count.

(* super-additivity of the prefix is necessary for admissibility: for the well-formed prefix [5;6]
   the third dense event is one time unit after the second although two events must be 5 apart *)
Theorem dense_extrap_needs_superadditive :
  exists d, wf_dmin d /\ ~ admissible (ExtrapAB d) (dense_extrap 0 3 d).
Proof.
  exists [5; 6]%N. split.
  - split; [discriminate|]. split; [|reflexivity].
    intros i Hi. cbn [length] in Hi. assert (i = 0) by lia. subst i. vm_compute. discriminate.
  - intros Ha. inversion Ha as [| | | |d es [_ Hr] E1 E2| | |]. subst.
    specialize (Hr 0 1 ltac:(cbn [length]; lia) ltac:(cbn; lia)). vm_compute in Hr. lia.
Qed.
Print Assumptions dense_extrap_needs_superadditive.

(* ------------------------------------------------------------------------------------------ *)
(* B. the extended class and the dense releases of its tasks                                   *)
(* ------------------------------------------------------------------------------------------ *)
Definition exact_task' (tk : task) : Prop :=
  exact_task tk \/ (exists d, fst tk = ExtrapAB d /\ realisable d).

(* release offset of job m from the origin *)
Definition roff (tk : task) (m : nat) : nat :=
  match fst tk with ExtrapAB d => xoff d m | _ => m * tT tk - tJ tk end.

(* releases of the first na(H) jobs *)
Definition dense' (O : nat) (H : N) (tk : task) : list nat :=
  map (fun m => O + roff tk m) (seq 0 (N.to_nat (na (fst tk) H))).
Definition task_jobs' (O : nat) (H : N) (i : nat) (tk : task) : list job :=
  map (fun a => mkJob i a (N.to_nat (snd tk))) (dense' O H tk).
(* Hf k = horizon of task k: it releases its first na(Hf k) jobs *)
Fixpoint mk_jobs' (O : nat) (Hf : nat -> N) (i0 : nat) (tasks : list task) : list job :=
  match tasks with
  | [] => []
  | tk :: r => task_jobs' O (Hf i0) i0 tk ++ mk_jobs' O Hf (S i0) r
  end.
Definition np_jobs' (tasks : list task) (prio : nat -> nat) (i l : nat) (H : N) : list job :=
  mkJob l (origin tasks) (N.to_nat (snd (nth l tasks (Never, 0%N))))
  :: mk_jobs' (S (origin tasks)) (np_horizon prio i H) 0 tasks.

Lemma roff_exact : forall tk m, exact_task tk -> roff tk m = m * tT tk - tJ tk.
Proof.
  intros [ab c] m [(T & E & _)|(T & J & E & _)]; cbn [fst] in E; subst ab; reflexivity.
Qed.

Lemma dense'_exact : forall O H tk, exact_task tk -> dense' O H tk = dense O H tk.
Proof.
  intros O H tk He. unfold dense', dense. apply map_ext. intros m. rewrite (roff_exact tk m He). reflexivity.
Qed.

Lemma dense'_extrap : forall O H d c, dense' O H (ExtrapAB d, c) = dense_extrap O (N.to_nat (na (ExtrapAB d) H)) d.
Proof. reflexivity. Qed.

Lemma tJ_extrap : forall d c, tJ (ExtrapAB d, c) = 0.
Proof. reflexivity. Qed.

(* job m is released before O + d iff m < na d *)
Lemma rel_lt' : forall tk m (d : N), exact_task' tk ->
  (roff tk m < N.to_nat d <-> m < N.to_nat (na (fst tk) d)).
Proof.
  intros tk m d [He|(v & E & Hre)].
  - rewrite (roff_exact tk m He). apply rel_lt. exact He.
  - destruct tk as [ab c]. cbn [fst] in E. subst ab. unfold roff. cbn [fst na].
    apply extrap_na_char. exact (proj1 Hre).
Qed.

Lemma exact_wf' : forall tk, exact_task' tk -> wf_ab (fst tk) /\ steps_exact_class (fst tk).
Proof.
  intros tk [He|(v & E & Hre)]; [apply exact_wf; exact He|].
  rewrite E. cbn [wf_ab steps_exact_class]. split; [exact (proj1 Hre)|exact I].
Qed.

Lemma exact_na1' : forall tk, exact_task' tk -> (1 <= na (fst tk) 1)%N.
Proof.
  intros tk He. pose proof (proj1 (rel_lt' tk 0 1%N He)) as H.
  assert (H0 : roff tk 0 = 0).
  { destruct He as [He|(v & E & _)]; [rewrite (roff_exact tk 0 He); reflexivity|].
    unfold roff. rewrite E. reflexivity. }
  rewrite H0 in H. specialize (H ltac:(lia)). lia.
Qed.

Theorem dense_admissible' : forall O H tk, exact_task' tk -> tJ tk <= O -> admissible (fst tk) (dense' O H tk).
Proof.
  intros O H tk [He|(v & E & Hre)] HJ.
  - rewrite (dense'_exact O H tk He). apply dense_admissible; assumption.
  - destruct tk as [ab c]. cbn [fst] in E. subst ab. rewrite dense'_extrap. cbn [fst].
    apply dense_extrap_admissible. exact Hre.
Qed.

(* every window [O, O + d) with d <= H contains exactly na d releases *)
Theorem dense_count' : forall O H tk d, exact_task' tk -> (d <= H)%N ->
  count (dense' O H tk) O (N.to_nat d) = N.to_nat (na (fst tk) d).
Proof.
  intros O H tk d He Hd. unfold dense', count. rewrite filter_map_length.
  rewrite (filter_ext _ (fun m => m <? N.to_nat (na (fst tk) d))).
  - rewrite filter_lt_seq. pose proof (na_mono (fst tk) (proj1 (exact_wf' tk He)) d H Hd). lia.
  - intros m. pose proof (rel_lt' tk m d He) as Hr. unfold in_window.
    destruct (Nat.ltb_spec m (N.to_nat (na (fst tk) d))) as [Hlt|Hge].
    + apply andb_true_iff. split; [apply Nat.leb_le; lia|apply Nat.ltb_lt]. apply Hr in Hlt. lia.
    + apply andb_false_iff. right. apply Nat.ltb_ge.
      destruct (Nat.lt_ge_cases (roff tk m) (N.to_nat d)) as [Hc|Hc]; [apply Hr in Hc; lia|lia].
Qed.
Print Assumptions dense_admissible'.
Print Assumptions dense_count'.

Lemma single_admissible' : forall tk x, exact_task' tk -> admissible (fst tk) [x].
Proof.
  intros tk x [He|(v & E & _)]; [apply single_admissible; exact He|].
  rewrite E. apply adm_extrap. split; [exact I|].
  intros i k _ Hk. cbn [length] in Hk. lia.
Qed.

(* ---- the job set (Tightness.v, section 4, over [dense']) ---- *)
Lemma mk_arrivals' : forall O Hf tasks i0 i,
  arrivals_of (mk_jobs' O Hf i0 tasks) i =
  if (i0 <=? i) && (i <? i0 + length tasks) then dense' O (Hf i) (nth (i - i0) tasks (Never, 0%N)) else [].
Proof.
  intros O Hf tasks. induction tasks as [|tk r IH]; intros i0 i; cbn [mk_jobs' length].
  - rewrite Nat.add_0_r. destruct (Nat.leb_spec i0 i), (Nat.ltb_spec i i0); try lia; reflexivity.
  - rewrite arrivals_app. unfold task_jobs'. rewrite arrivals_const_task, IH.
    destruct (Nat.eqb_spec i0 i) as [->|Hne].
    + rewrite Nat.sub_diag. cbn [nth].
      destruct (Nat.leb_spec (S i) i); [lia|]. cbn [andb]. rewrite app_nil_r.
      destruct (Nat.leb_spec i i); [|lia]. destruct (Nat.ltb_spec i (i + S (length r))); [|lia]. reflexivity.
    + cbn [app].
      destruct (Nat.leb_spec (S i0) i) as [H1|H1], (Nat.leb_spec i0 i) as [H2|H2]; try lia; cbn [andb]; [|reflexivity].
      replace (i0 + S (length r)) with (S i0 + length r) by lia.
      destruct (Nat.ltb_spec i (S i0 + length r)); [|reflexivity].
      replace (i - i0) with (S (i - S i0)) by lia. reflexivity.
Qed.

Lemma mk_in' : forall O Hf tasks i0 j, In j (mk_jobs' O Hf i0 tasks) ->
  i0 <= j_task j < i0 + length tasks /\
  j_cost j = N.to_nat (snd (nth (j_task j - i0) tasks (Never, 0%N))) /\ O <= j_arr j.
Proof.
  intros O Hf tasks. induction tasks as [|tk r IH]; intros i0 j Hin; [destruct Hin|].
  cbn [mk_jobs' length] in *. apply in_app_or in Hin. destruct Hin as [Hin|Hin].
  - unfold task_jobs', dense' in Hin. apply in_map_iff in Hin. destruct Hin as (a & <- & Ha).
    apply in_map_iff in Ha. destruct Ha as (m & <- & _). cbn [j_task j_cost j_arr].
    rewrite Nat.sub_diag. cbn [nth]. split; [lia|]. split; [reflexivity|lia].
  - destruct (IH (S i0) j Hin) as (H1 & H2 & H3). split; [lia|]. split; [|exact H3].
    replace (j_task j - i0) with (S (j_task j - S i0)) by lia. exact H2.
Qed.

Section ConstructionX.
  Variable O : nat.
  Variable Hf : nat -> N.
  Variable tasks : list task.
  Hypothesis tasks_exact : Forall (fun tk => exact_task' tk /\ (1 <= snd tk)%N) tasks.
  Hypothesis O_ge' : forall tk, In tk tasks -> tJ tk <= O.
  Let jobs := mk_jobs' O Hf 0 tasks.
  Notation tki i := (nth i tasks (Never, 0%N)).

  Lemma tk_facts' : forall i, i < length tasks -> exact_task' (tki i) /\ (1 <= snd (tki i))%N /\ tJ (tki i) <= O.
  Proof.
    intros i Hi. assert (Hin : In (tki i) tasks) by (apply nth_In; exact Hi).
    pose proof (proj1 (Forall_forall _ _) tasks_exact _ Hin) as [H1 H2]. split; [exact H1|]. split; [exact H2|].
    apply O_ge'. exact Hin.
  Qed.

  Lemma mk_job_facts' : forall k, k < length jobs ->
    j_task (nth k jobs (mkJob 0 0 0)) < length tasks /\
    cost jobs k = N.to_nat (snd (tki (j_task (nth k jobs (mkJob 0 0 0))))) /\ O <= arr jobs k.
  Proof.
    intros k Hk. destruct (mk_in' O Hf tasks 0 _ (nth_In jobs (mkJob 0 0 0) Hk)) as (H1 & H2 & H3).
    rewrite Nat.sub_0_r in H2. split; [lia|]. split; [exact H2|exact H3].
  Qed.

  Theorem mk_respects_curves' : respects_curves tasks jobs.
  Proof.
    intros i Hi. exists (dense' O (Hf i) (tki i)). unfold jobs. rewrite mk_arrivals'.
    cbn [Nat.leb andb Nat.add]. destruct (Nat.ltb_spec i (length tasks)); [|lia]. rewrite Nat.sub_0_r.
    split; [apply Permutation_refl|]. destruct (tk_facts' i Hi) as (H1 & _ & H3). apply dense_admissible'; assumption.
  Qed.

  Theorem mk_respects_costs' : respects_costs tasks jobs.
  Proof.
    intros j Hin. destruct (mk_in' O Hf tasks 0 j Hin) as (H1 & H2 & _). rewrite Nat.sub_0_r in H2.
    split; [lia|]. destruct (tk_facts' (j_task j) ltac:(lia)) as (_ & HC & _). rewrite H2. lia.
  Qed.

  (* the work of task i released in [O, O + d) is exactly its request bound *)
  Theorem mk_task_work' : forall i (d : N), i < length tasks -> (d <= Hf i)%N ->
    workP jobs (task_in_win jobs i O (N.to_nat d)) = N.to_nat (snd (tki i) * na (fst (tki i)) d).
  Proof.
    intros i d Hi Hd. destruct (tk_facts' i Hi) as (He & _ & _).
    unfold workP.
    rewrite (sumn_ext _ _ (fun k => if task_in_win jobs i O (N.to_nat d) k then N.to_nat (snd (tki i)) else 0)).
    - rewrite sumn_scale, task_count_eq. unfold jobs. rewrite mk_arrivals'.
      cbn [Nat.leb andb Nat.add]. destruct (Nat.ltb_spec i (length tasks)); [|lia]. rewrite Nat.sub_0_r.
      rewrite (dense_count' O (Hf i) (tki i) d He Hd). rewrite Nnat.N2Nat.inj_mul. reflexivity.
    - intros k Hk. destruct (task_in_win jobs i O (N.to_nat d) k) eqn:E; [|reflexivity].
      unfold task_in_win in E. apply andb_true_iff in E. destruct E as [E _].
      apply andb_true_iff in E. destruct E as [E _]. apply Nat.eqb_eq in E.
      destruct (mk_job_facts' k Hk) as (_ & Hc & _). rewrite E in Hc. exact Hc.
  Qed.

  (* hence the total work released in [O, O + d) is the total request bound *)
  Theorem mk_total_work' : forall d : N, (forall i, i < length tasks -> (d <= Hf i)%N) ->
    workP jobs (fun k => (O <=? arr jobs k) && (arr jobs k <? O + N.to_nat d)) = N.to_nat (total_of tasks d).
  Proof.
    intros d Hd. rewrite (workP_split_tasks tasks jobs O (N.to_nat d) mk_respects_costs').
    rewrite (sumn_ext _ _ (fun i => N.to_nat ((fun tk => (snd tk * na (fst tk) d)%N) (tki i)))).
    - exact (sumn_sumN tasks (Never, 0%N) (fun tk => (snd tk * na (fst tk) d)%N)).
    - intros i Hi. apply mk_task_work'; [exact Hi|apply Hd; exact Hi].
  Qed.

  (* and the work of the tasks of higher priority than task i *)
  Theorem mk_hp_work' : forall i prio (d : N), (forall i', i' < length tasks -> prio i' < prio i -> (d <= Hf i')%N) ->
    workP jobs (hpw i prio jobs O (N.to_nat d)) = N.to_nat (sum_sn (hp_rbs tasks i prio) d).
  Proof.
    intros i prio d Hd. apply hp_work_gen; [exact mk_respects_costs'|].
    intros i' Hi' Hp. apply mk_task_work'; [exact Hi'|apply Hd; assumption].
  Qed.
End ConstructionX.
Print Assumptions mk_respects_curves'.
Print Assumptions mk_respects_costs'.
Print Assumptions mk_task_work'.
Print Assumptions mk_total_work'.
Print Assumptions mk_hp_work'.

(* ------------------------------------------------------------------------------------------ *)
(* C. the three theorems for the extended class                                                *)
(* ------------------------------------------------------------------------------------------ *)
Theorem fifo_bound_attained_extrap : forall dbg (tasks : list task) limit R,
  Forall (fun tk => exact_task' tk /\ (1 <= snd tk)%N) tasks -> tasks <> [] -> (1 <= R)%N ->
  e_fifo dbg (Agg (map rb_of tasks)) limit = ROk R ->
  exists jobs sched k, valid jobs sched /\ work_conserving jobs sched /\ fifo_policy jobs sched /\
     respects_curves tasks jobs /\ respects_costs tasks jobs /\ k < length jobs /\
     completes_within jobs sched k (N.to_nat R) /\ ~ completes_within jobs sched k (N.to_nat R - 1).
Proof.
  intros dbg tasks limit R Hex Hne HR He.
  assert (Hok : Forall fifo_task_ok tasks).
  { eapply Forall_impl; [|exact Hex]. intros tk [H1 H2]. destruct (exact_wf' tk H1). repeat split; assumption. }
  pose proof (rb_of_ok tasks Hok) as Hrb.
  assert (Hpos : (0 < sn (Agg (map rb_of tasks)) 1)%N).
  { rewrite sn_total. destruct tasks as [|tk r]; [contradiction|]. unfold total_of. cbn [map sumN fold_right].
    apply Forall_inv in Hex. destruct Hex as [H1 H2]. pose proof (exact_na1' tk H1) as H3.
    assert (1 * 1 <= snd tk * na (fst tk) 1)%N by (apply N.mul_le_mono; assumption).
    set (rest := fold_right N.add 0%N _). lia. }
  pose proof He as He'. rewrite (e_fifo_exhaustive dbg _ limit Hrb Hpos) in He'. unfold exh_fifo in He'.
  destruct (least_fix limit (sn (Agg (map rb_of tasks)))) as [L|] eqn:HL; [|discriminate].
  injection He' as HRmax.
  apply least_fix_spec in HL. destruct HL as (HL1 & HL2 & HL3 & HL4).
  match type of HRmax with maxN ?l = _ => destruct (ExhFP.maxN_attained l) as [H0|Hin] end;
    [rewrite HRmax in H0; lia|].
  rewrite HRmax in Hin. apply in_map_iff in Hin. destruct Hin as (A & HA & HinA). apply in_rangeN in HinA.
  assert (HA' : (total_of tasks (A + 1) - A = R)%N) by (rewrite <- sn_total; exact HA).
  clear HA; rename HA' into HA.
  (* the construction *)
  set (O := origin tasks). set (jobs := mk_jobs' O (fun _ => limit) 0 tasks).
  set (rank := fifo_rank jobs). set (sched := rsched jobs rank).
  pose proof (mk_respects_curves' O (fun _ => limit) tasks Hex (origin_ge tasks)) as Hcurves. fold jobs in Hcurves.
  pose proof (mk_respects_costs' O (fun _ => limit) tasks Hex (origin_ge tasks)) as Hcosts. fold jobs in Hcosts.
  pose proof (rs_valid jobs rank) as Hv. pose proof (rs_work_conserving jobs rank) as Hwc.
  pose proof (rs_fifo_policy jobs) as Hfifo. fold rank sched in Hv, Hwc, Hfifo.
  assert (Harr : forall k, k < length jobs -> O <= arr jobs k).
  { intros k Hk. apply (mk_job_facts' O (fun _ => limit) tasks k Hk). }
  (* the victim: the last-served job among those released in [O, O + A] *)
  set (inS := fun k => (O <=? arr jobs k) && (arr jobs k <? O + N.to_nat (A + 1))).
  assert (HW : workP jobs inS = N.to_nat (total_of tasks (A + 1))).
  { apply (mk_total_work' O (fun _ => limit) tasks Hex (origin_ge tasks)). intros; lia. }
  destruct (victim_exists jobs rank inS ltac:(lia)) as (v & Hv1 & Sv & Hmax).
  exists jobs, sched, v.
  split; [exact Hv|]. split; [exact Hwc|]. split; [exact Hfifo|]. split; [exact Hcurves|].
  split; [exact Hcosts|]. split; [exact Hv1|]. split.
  - exact (fifo_rta_sound dbg tasks limit R jobs sched Hok He Hv Hwc Hfifo Hcurves Hcosts v Hv1).
  - intros Hc. unfold completes_within in Hc.
    assert (Hc1 : 1 <= cost jobs v).
    { destruct (Hcosts _ (nth_In jobs (mkJob 0 0 0) Hv1)) as (_ & H1 & _). exact H1. }
    destruct (rs_lower jobs rank (fifo_rank_inj jobs) O Harr v _ Hv1 Hc1 Hc) as (y & Hy1 & Hy2 & Hy3 & Hy4).
    assert (Hsub : workP jobs inS <= workP jobs (fun k => (rank k <=? rank v) && (arr jobs k <? O + y))).
    { apply workP_mono. intros k Hk Sk. apply andb_true_iff. split.
      - apply Nat.leb_le. apply Hmax; assumption.
      - apply Nat.ltb_lt. pose proof (fifo_rank_arr jobs k v Hk Hv1 (Hmax k Hk Sk)). lia. }
    unfold inS in Sv. apply andb_true_iff in Sv. destruct Sv as [_ Sv]. apply Nat.ltb_lt in Sv.
    lia.
Qed.
Print Assumptions fifo_bound_attained_extrap.

Theorem fp_preemptive_bound_attained_extrap : forall dbg (tasks : list task) i prio limit R,
  Forall (fun tk => exact_task' tk /\ (1 <= snd tk)%N) tasks -> i < length tasks ->
  (forall a b, a < length tasks -> b < length tasks -> prio a = prio b -> a = b) -> (1 <= R)%N ->
  e_fp_fp dbg (RBF (ab_i tasks i) (Scalar (C tasks i))) (hp_rbs tasks i prio) limit = ROk R ->
  exists jobs sched k, valid jobs sched /\ work_conserving jobs sched /\
     respects_curves tasks jobs /\ respects_costs tasks jobs /\
     legal jobs sched (fp_hp jobs prio) (fun _ _ => true) /\
     k < length jobs /\ j_task (nth k jobs (mkJob 0 0 0)) = i /\
     completes_within jobs sched k (N.to_nat R) /\ ~ completes_within jobs sched k (N.to_nat R - 1).
Proof.
  intros dbg tasks i prio limit R Hex Hi Hinj HR He.
  assert (Hok : Forall (fun tk => wf_ab (fst tk) /\ steps_exact_class (fst tk) /\ (1 <= snd tk)%N) tasks).
  { eapply Forall_impl; [|exact Hex]. intros tk [H1 H2]. destruct (exact_wf' tk H1). repeat split; assumption. }
  destruct (tk_facts' (origin tasks) tasks Hex (origin_ge tasks) i Hi) as (Hexi & HCi & _).
  fold (C tasks i) in HCi.
  assert (Hrb : rb_steps_ok (RBF (ab_i tasks i) (Scalar (C tasks i)))).
  { cbn [rb_steps_ok wf_cm positive_cm]. destruct (exact_wf' _ Hexi). unfold ab_i. auto. }
  assert (Hhp : Forall wf_rb (hp_rbs tasks i prio)) by (apply (wf_hp_rbs tasks i prio Hi Hok 1%N); lia).
  assert (Hpos : (0 < sn (RBF (ab_i tasks i) (Scalar (C tasks i))) 1)%N).
  { cbn [sn cost_of_jobs]. pose proof (exact_na1' _ Hexi) as H1. fold (ab_i tasks i) in H1.
    assert (1 * 1 <= C tasks i * na (ab_i tasks i) 1)%N by (apply N.mul_le_mono; assumption). lia. }
  pose proof He as He'. rewrite (e_fp_fp_exhaustive dbg _ _ limit Hrb Hhp Hpos) in He'.
  destruct (exh_fp_attained _ _ _ _ _ _ He' HR) as (A & AF & HAF1 & HAF2 & HAFR & HAFmin).
  change (sn (RBF (ab_i tasks i) (Scalar (C tasks i))) (A + 1)) with (C tasks i * na (ab_i tasks i) (A + 1))%N in HAFmin.
  (* the construction *)
  set (O := origin tasks). set (jobs := mk_jobs' O (fun _ => limit) 0 tasks).
  set (rank := fp_rank jobs prio). set (sched := rsched jobs rank).
  pose proof (mk_respects_curves' O (fun _ => limit) tasks Hex (origin_ge tasks)) as Hcurves. fold jobs in Hcurves.
  pose proof (mk_respects_costs' O (fun _ => limit) tasks Hex (origin_ge tasks)) as Hcosts. fold jobs in Hcosts.
  pose proof (rs_valid jobs rank) as Hv. pose proof (rs_work_conserving jobs rank) as Hwc.
  pose proof (rs_fp_legal jobs prio) as Hlegal. fold rank sched in Hv, Hwc, Hlegal.
  assert (Harr : forall k, k < length jobs -> O <= arr jobs k).
  { intros k Hk. apply (mk_job_facts' O (fun _ => limit) tasks k Hk). }
  (* the victim: the latest job of task i released in [O, O + A] *)
  set (inS := task_in_win jobs i O (N.to_nat (A + 1))).
  assert (HW : workP jobs inS = N.to_nat (C tasks i * na (ab_i tasks i) (A + 1))).
  { apply (mk_task_work' O (fun _ => limit) tasks Hex (origin_ge tasks) i (A + 1)%N Hi). lia. }
  assert (HWpos : 0 < workP jobs inS).
  { rewrite HW. pose proof (exact_na1' _ Hexi) as H1. fold (ab_i tasks i) in H1.
    pose proof (na_mono (ab_i tasks i) (proj1 (exact_wf' _ Hexi)) 1 (A + 1) ltac:(lia))%N as H2.
    assert (1 * 1 <= C tasks i * na (ab_i tasks i) (A + 1))%N by (apply N.mul_le_mono; lia). lia. }
  destruct (victim_exists jobs rank inS HWpos) as (v & Hv1 & Sv & Hmax).
  assert (Sv' := Sv). unfold inS, task_in_win in Sv'.
  apply andb_true_iff in Sv'. destruct Sv' as [Sv' Sv3]. apply andb_true_iff in Sv'. destruct Sv' as [Sv1 _].
  apply Nat.eqb_eq in Sv1. apply Nat.ltb_lt in Sv3.
  exists jobs, sched, v.
  split; [exact Hv|]. split; [exact Hwc|]. split; [exact Hcurves|]. split; [exact Hcosts|].
  split; [exact Hlegal|]. split; [exact Hv1|]. split; [exact Sv1|]. split.
  - apply (fp_fully_preemptive_sound tasks i prio Hi Hok Hinj jobs sched (fun _ _ => true) Hv Hwc Hcurves Hcosts)
      with (dbg := dbg) (limit := limit).
    + intros k. split; reflexivity.
    + exact Hlegal.
    + intros k s. reflexivity.
    + exact He.
    + exact Hv1.
    + exact Sv1.
  - intros Hc. unfold completes_within in Hc.
    assert (Hc1 : 1 <= cost jobs v).
    { destruct (Hcosts _ (nth_In jobs (mkJob 0 0 0) Hv1)) as (_ & H1 & _). exact H1. }
    destruct (rs_lower jobs rank (fp_rank_inj jobs prio) O Harr v _ Hv1 Hc1 Hc) as (y & Hy1 & Hy2 & Hy3 & Hy4).
    assert (Hylt : (N.of_nat y < AF)%N) by lia.
    assert (Hsub : workP jobs inS + workP jobs (hpw i prio jobs O y)
                   <= workP jobs (fun k => (rank k <=? rank v) && (arr jobs k <? O + y))).
    { apply workP_disjoint.
      - intros k Hk Sk. split.
        + apply andb_true_iff. split; [apply Nat.leb_le; apply Hmax; assumption|apply Nat.ltb_lt].
          assert (Etk : tsk jobs k = i).
          { unfold inS, task_in_win in Sk. apply andb_true_iff in Sk. destruct Sk as [Sk _].
            apply andb_true_iff in Sk. destruct Sk as [Sk _]. apply Nat.eqb_eq in Sk. exact Sk. }
          destruct (fp_rank_le jobs prio k v Hk Hv1 (Hmax k Hk Sk)) as [Hlt|[_ Hle]]; [rewrite Etk, Sv1 in Hlt; lia|lia].
        + unfold hpw. unfold inS, task_in_win in Sk. apply andb_true_iff in Sk. destruct Sk as [Sk _].
          apply andb_true_iff in Sk. destruct Sk as [Sk _]. apply Nat.eqb_eq in Sk. rewrite Sk, Nat.ltb_irrefl. reflexivity.
      - intros k Hk Pk. unfold hpw, in_win in Pk. apply andb_true_iff in Pk. destruct Pk as [Pk1 Pk2].
        apply andb_true_iff in Pk2. destruct Pk2 as [_ Pk2]. apply Nat.ltb_lt in Pk1.
        apply andb_true_iff. split; [|exact Pk2]. apply Nat.leb_le. apply Nat.lt_le_incl.
        apply fp_rank_lt; [exact Hk|exact Hv1|]. rewrite Sv1. exact Pk1. }
    pose proof (mk_hp_work' O (fun _ => limit) tasks Hex (origin_ge tasks) i prio (N.of_nat y) ltac:(intros; lia)) as Hhpw.
    fold jobs in Hhpw. rewrite Nnat.Nat2N.id in Hhpw.
    specialize (HAFmin (N.of_nat y) ltac:(lia) Hylt).
    lia.
Qed.
Print Assumptions fp_preemptive_bound_attained_extrap.

(* ---- non-preemptive: the job set with a blocking job (Tightness.v, section 7, over [dense']) ---- *)
Lemma mk_in_na' : forall O Hf tasks i0 j, In j (mk_jobs' O Hf i0 tasks) ->
  (0 < na (fst (nth (j_task j - i0) tasks (Never, 0%N))) (Hf (j_task j)))%N.
Proof.
  intros O Hf tasks. induction tasks as [|tk r IH]; intros i0 j Hin; [destruct Hin|].
  cbn [mk_jobs'] in Hin. apply in_app_or in Hin. destruct Hin as [Hin|Hin].
  - unfold task_jobs', dense' in Hin. apply in_map_iff in Hin. destruct Hin as (a & <- & Ha).
    apply in_map_iff in Ha. destruct Ha as (m & _ & Hm). apply in_seq in Hm. cbn [j_task].
    rewrite Nat.sub_diag. cbn [nth]. lia.
  - pose proof (IH (S i0) j Hin) as H1. destruct (mk_in' O Hf r (S i0) j Hin) as (H2 & _).
    replace (j_task j - i0) with (S (j_task j - S i0)) by lia. exact H1.
Qed.

Section NpConstructionX.
  Variable tasks : list task.
  Variable prio : nat -> nat.
  Variables (i l : nat) (H : N).
  Hypothesis tasks_exact : Forall (fun tk => exact_task' tk /\ (1 <= snd tk)%N) tasks.
  Hypothesis Hl : l < length tasks.
  Hypothesis Hpl : prio i < prio l.
  Notation O1 := (origin tasks).
  Notation O := (S (origin tasks)).
  Notation Hf := (np_horizon prio i H).
  Let mj := mk_jobs' O Hf 0 tasks.
  Let jobs := np_jobs' tasks prio i l H.
  Notation tki k := (nth k tasks (Never, 0%N)).

  Lemma O_ge' : forall tk, In tk tasks -> tJ tk <= O.
  Proof. intros tk Hin. pose proof (origin_ge tasks tk Hin). lia. Qed.

  Lemma Hf_lp' : Hf l = 0%N.
  Proof. unfold np_horizon. destruct (Nat.leb_spec (prio l) (prio i)); [lia|reflexivity]. Qed.

  Lemma Hf_hep' : forall k, prio k <= prio i -> Hf k = H.
  Proof. intros k Hk. unfold np_horizon. destruct (Nat.leb_spec (prio k) (prio i)); [reflexivity|lia]. Qed.

  Lemma np_len' : length jobs = S (length mj).
  Proof. reflexivity. Qed.

  Theorem np_respects_costs' : respects_costs tasks jobs.
  Proof.
    intros j [<-|Hin].
    - cbn [j_task j_cost]. destruct (tk_facts' O tasks tasks_exact O_ge' l Hl) as (_ & HC & _). split; [exact Hl|]. lia.
    - apply (mk_respects_costs' O Hf tasks tasks_exact O_ge'). exact Hin.
  Qed.

  Theorem np_respects_curves' : respects_curves tasks jobs.
  Proof.
    intros i' Hi'.
    assert (E : arrivals_of jobs i' = (if l =? i' then [O1] else []) ++ arrivals_of mj i').
    { unfold jobs, np_jobs', arrivals_of. cbn [filter j_task]. fold mj.
      destruct (l =? i'); reflexivity. }
    rewrite E. destruct (Nat.eqb_spec l i') as [<-|Hne].
    - assert (E2 : arrivals_of mj l = []).
      { unfold mj. rewrite mk_arrivals'. cbn [Nat.leb andb Nat.add]. destruct (Nat.ltb_spec l (length tasks)); [|lia].
        rewrite Nat.sub_0_r. unfold dense'. rewrite Hf_lp'.
        destruct (tk_facts' O tasks tasks_exact O_ge' l Hl) as (He & _ & _).
        rewrite (na_zero _ (proj1 (exact_wf' _ He))). reflexivity. }
      rewrite E2. exists [O1]. split; [apply Permutation_refl|].
      apply single_admissible'. apply (tk_facts' O tasks tasks_exact O_ge' l Hl).
    - cbn [app]. apply (mk_respects_curves' O Hf tasks tasks_exact O_ge' i' Hi').
  Qed.

  Lemma np_arr0' : arr jobs 0 = O1.
  Proof. reflexivity. Qed.
  Lemma np_tsk0' : tsk jobs 0 = l.
  Proof. reflexivity. Qed.
  Lemma np_cost0' : cost jobs 0 = N.to_nat (snd (tki l)).
  Proof. reflexivity. Qed.

  Lemma np_arr_S' : forall k, S k < length jobs -> O <= arr jobs (S k).
  Proof. intros k Hk. rewrite np_len' in Hk. apply (mk_job_facts' O Hf tasks k). fold mj. lia. Qed.

  Lemma np_arr_ge' : forall k, k < length jobs -> O1 <= arr jobs k.
  Proof. intros [|k] Hk; [rewrite np_arr0'; lia|]. pose proof (np_arr_S' k Hk). lia. Qed.

  Lemma np_cost_eq' : forall k, k < length jobs -> cost jobs k = N.to_nat (snd (tki (tsk jobs k))).
  Proof.
    intros [|k] Hk; [reflexivity|]. rewrite np_len' in Hk.
    destruct (mk_job_facts' O Hf tasks k ltac:(fold mj; lia)) as (_ & Hc & _). exact Hc.
  Qed.

  (* apart from the blocker there are no jobs of lower-priority tasks *)
  Lemma np_hep_S' : forall k, S k < length jobs -> prio (tsk jobs (S k)) <= prio i.
  Proof.
    intros k Hk. rewrite np_len' in Hk.
    assert (Hin : In (nth k mj (mkJob 0 0 0)) mj) by (apply nth_In; lia).
    pose proof (mk_in_na' O Hf tasks 0 _ Hin) as Hna. destruct (mk_in' O Hf tasks 0 _ Hin) as (Ht & _).
    rewrite Nat.sub_0_r in Hna.
    change (tsk jobs (S k)) with (j_task (nth k mj (mkJob 0 0 0))).
    set (tk := j_task (nth k mj (mkJob 0 0 0))) in *.
    destruct (Nat.le_gt_cases (prio tk) (prio i)) as [|Hgt]; [assumption|exfalso].
    assert (E : Hf tk = 0%N) by (unfold np_horizon; destruct (Nat.leb_spec (prio tk) (prio i)); [lia|reflexivity]).
    rewrite E in Hna.
    destruct (tk_facts' O tasks tasks_exact O_ge' tk ltac:(lia)) as (He & _ & _).
    rewrite (na_zero _ (proj1 (exact_wf' _ He))) in Hna. lia.
  Qed.

  Theorem np_task_work' : forall i' (d : N), i' < length tasks -> prio i' <= prio i -> (d <= H)%N ->
    workP jobs (task_in_win jobs i' O (N.to_nat d)) = N.to_nat (snd (tki i') * na (fst (tki i')) d).
  Proof.
    intros i' d Hi' Hp Hd. unfold jobs, np_jobs'. rewrite workP_cons. fold mj.
    replace (task_in_win (mkJob l O1 (N.to_nat (snd (tki l))) :: mj) i' O (N.to_nat d) 0) with false.
    2:{ unfold task_in_win, arr. cbn [nth j_task j_arr]. destruct (Nat.leb_spec O O1); [lia|].
        rewrite andb_false_r. reflexivity. }
    cbn [Nat.add].
    change (fun k => task_in_win (mkJob l O1 (N.to_nat (snd (tki l))) :: mj) i' O (N.to_nat d) (S k))
      with (task_in_win mj i' O (N.to_nat d)).
    apply (mk_task_work' O Hf tasks tasks_exact O_ge' i' d Hi'). rewrite (Hf_hep' i' Hp). exact Hd.
  Qed.

  Theorem np_hp_work' : forall d : N, (d <= H)%N ->
    workP jobs (hpw i prio jobs O (N.to_nat d)) = N.to_nat (sum_sn (hp_rbs tasks i prio) d).
  Proof.
    intros d Hd. apply hp_work_gen; [exact np_respects_costs'|].
    intros i' Hi' Hp. apply np_task_work'; [exact Hi'|lia|exact Hd].
  Qed.

  Lemma np_blocker_work' : workP jobs (fun k => k =? 0) = N.to_nat (snd (tki l)).
  Proof.
    unfold jobs, np_jobs'. rewrite workP_cons. cbn [Nat.eqb j_cost]. unfold workP.
    rewrite sumn_const0; [lia|]. intros k _. reflexivity.
  Qed.
End NpConstructionX.

Theorem fp_nonpreemptive_bound_attained_extrap : forall dbg (tasks : list task) i l prio limit B R,
  Forall (fun tk => exact_task' tk /\ (1 <= snd tk)%N) tasks -> i < length tasks ->
  l < length tasks -> prio i < prio l -> snd (nth l tasks (Never, 0%N)) = (B + 1)%N ->
  (forall a b, a < length tasks -> b < length tasks -> prio a = prio b -> a = b) -> (1 <= R)%N ->
  e_fp_np dbg (ab_i tasks i) (C tasks i) B (hp_rbs tasks i prio) limit = ROk R ->
  exists jobs sched pp k, valid jobs sched /\ work_conserving jobs sched /\
     respects_curves tasks jobs /\ respects_costs tasks jobs /\
     fully_nonpreemptive jobs pp /\ legal jobs sched (fp_hp jobs prio) pp /\
     (forall k', k' < length jobs -> prio i < prio (tsk jobs k') -> cost jobs k' <= N.to_nat B + 1) /\
     k < length jobs /\ tsk jobs k = i /\
     completes_within jobs sched k (N.to_nat R) /\ ~ completes_within jobs sched k (N.to_nat R - 1).
Proof.
  intros dbg tasks i l prio limit B R Hex Hi Hl Hpl HBl Hinj HR He.
  assert (Hok : Forall (fun tk => wf_ab (fst tk) /\ steps_exact_class (fst tk) /\ (1 <= snd tk)%N) tasks).
  { eapply Forall_impl; [|exact Hex]. intros tk [H1 H2]. destruct (exact_wf' tk H1). repeat split; assumption. }
  destruct (tk_facts' (origin tasks) tasks Hex (origin_ge tasks) i Hi) as (Hexi & HCi & _).
  fold (C tasks i) in HCi. destruct (exact_wf' _ Hexi) as [Hwfi Hcli]. fold (ab_i tasks i) in Hwfi, Hcli.
  assert (Hhp : Forall wf_rb (hp_rbs tasks i prio)) by (apply (wf_hp_rbs tasks i prio Hi Hok 1%N); lia).
  pose proof (exact_na1' _ Hexi) as Hna1. fold (ab_i tasks i) in Hna1.
  pose proof He as He'. rewrite (e_fp_np_exhaustive dbg _ _ B _ limit Hwfi Hcli Hhp ltac:(lia) HCi) in He'.
  destruct (exh_fp_attained _ _ _ _ _ _ He' HR) as (A & AF & HAF1 & HAF2 & HAFR & HAFmin).
  cbv beta in HAFmin.
  (* the construction *)
  set (H := N.max limit (A + 1)). set (O1 := origin tasks).
  set (jobs := np_jobs' tasks prio i l H). set (rank := fp_rank jobs prio). set (sched := np_sched jobs rank).
  pose proof (np_respects_curves' tasks prio i l H Hex Hl Hpl) as Hcurves. fold jobs in Hcurves.
  pose proof (np_respects_costs' tasks prio i l H Hex Hl Hpl) as Hcosts. fold jobs in Hcosts.
  pose proof (np_valid jobs rank) as Hv. pose proof (np_work_conserving jobs rank) as Hwc.
  pose proof (np_legal jobs rank (fp_hp jobs prio) (fp_rank_not_hp jobs prio)) as Hlegal.
  fold rank sched in Hv, Hwc, Hlegal.
  assert (Hnp : fully_nonpreemptive jobs (np_pp jobs)) by (intros k s; reflexivity).
  assert (Hpp : pp_sane jobs (np_pp jobs)).
  { intros k. unfold np_pp. split; [reflexivity|]. rewrite Nat.eqb_refl. apply orb_true_r. }
  assert (HB : forall k', k' < length jobs -> prio i < prio (tsk jobs k') -> cost jobs k' <= N.to_nat B + 1).
  { intros [|k'] Hk' Hp.
    - unfold jobs. rewrite np_cost0', HBl. lia.
    - pose proof (np_hep_S' tasks prio i l H Hex Hl Hpl k' Hk'). fold jobs in H0. lia. }
  (* the blocker has started before the origin *)
  assert (Hlen0 : 0 < length jobs) by (unfold jobs, np_jobs'; cbn [length]; lia).
  assert (Hc0 : cost jobs 0 = N.to_nat B + 1) by (unfold jobs; rewrite np_cost0', HBl; lia).
  assert (Hstart : 1 <= service sched 0 (S O1)).
  { assert (Hz : service sched 0 O1 = 0).
    { pose proof (total_service_le_gen jobs sched O1 Hv (np_arr_ge' tasks prio i l H Hl Hpl) O1) as Hs.
      pose proof (sumn_term_le (length jobs) (fun k => service sched k O1) 0 Hlen0) as Ht. cbv beta in Ht. lia. }
    assert (Hp0 : pending jobs sched 0 O1).
    { split; [exact Hlen0|]. split; [unfold jobs; rewrite np_arr0'; fold O1; lia|lia]. }
    destruct (sched O1) as [j|] eqn:Ej; [|exfalso; exact (Hwc O1 0 Hp0 Ej)].
    destruct (Hv _ _ Ej) as (Hj & Haj & _).
    destruct j as [|j]; [|pose proof (np_arr_S' tasks prio i l H Hl Hpl j Hj) as Hge; fold jobs O1 in Hge; lia].
    rewrite (service_running sched 0 O1 Ej). lia. }
  (* the victim: the latest job of task i released in [O, O + A] *)
  set (inS := task_in_win jobs i (S O1) (N.to_nat (A + 1))).
  assert (HW : workP jobs inS = N.to_nat (C tasks i * na (ab_i tasks i) (A + 1))).
  { apply (np_task_work' tasks prio i l H Hex Hl Hpl i (A + 1)%N Hi); unfold H; lia. }
  assert (Hna : (C tasks i * 1 <= C tasks i * na (ab_i tasks i) (A + 1))%N).
  { apply N.mul_le_mono_l. pose proof (na_mono (ab_i tasks i) Hwfi 1 (A + 1) ltac:(lia))%N. lia. }
  destruct (victim_exists jobs rank inS ltac:(lia)) as (v & Hv1 & Sv & Hmax).
  assert (Sv' := Sv). unfold inS, task_in_win in Sv'.
  apply andb_true_iff in Sv'. destruct Sv' as [Sv' Sv3]. apply andb_true_iff in Sv'. destruct Sv' as [Sv1 Sv2].
  apply Nat.eqb_eq in Sv1. apply Nat.ltb_lt in Sv3. apply Nat.leb_le in Sv2.
  assert (Hcv : cost jobs v = N.to_nat (C tasks i)).
  { unfold jobs. rewrite (np_cost_eq' tasks prio i l H Hl Hpl v Hv1). fold jobs. rewrite Sv1. reflexivity. }
  exists jobs, sched, (np_pp jobs), v.
  split; [exact Hv|]. split; [exact Hwc|]. split; [exact Hcurves|]. split; [exact Hcosts|].
  split; [exact Hnp|]. split; [exact Hlegal|]. split; [exact HB|]. split; [exact Hv1|]. split; [exact Sv1|]. split.
  - exact (fp_fully_nonpreemptive_sound tasks i prio Hi Hok Hinj jobs sched (np_pp jobs) Hv Hwc Hcurves Hcosts
             Hpp Hlegal dbg B limit R Hnp HB He v Hv1 Sv1).
  - intros Hc. unfold completes_within in Hc.
    destruct (np_lower jobs rank v _ ltac:(lia) Hc) as (u & Hut & Eu & Hlow & Hstarted). fold sched in Eu, Hlow, Hstarted.
    destruct (Hv _ _ Eu) as (_ & Hau & _).
    pose proof (total_service_le_gen jobs sched O1 Hv (np_arr_ge' tasks prio i l H Hl Hpl) u) as Hsum.
    set (x := u - O1). assert (Hx : S O1 + x = S u) by lia.
    set (Q := fun k => (k =? 0) || ((rank k <=? rank v) && (arr jobs k <? S O1 + x))).
    assert (HQ : workP jobs Q <= sumn (length jobs) (fun k => service sched k u) + cost jobs v).
    { apply Nat.le_trans with (sumn (length jobs) (fun k => service sched k u + (if v =? k then cost jobs v else 0))).
      - unfold workP. apply sumn_le. intros k Hk. destruct (Q k) eqn:Qk; [|lia].
        unfold Q in Qk. apply orb_true_iff in Qk. destruct Qk as [Qk|Qk].
        + apply Nat.eqb_eq in Qk. subst k.
          assert (cost jobs 0 <= service sched 0 u); [|lia]. apply Hstarted.
          assert (service sched 0 (S O1) <= service sched 0 u) by (apply service_mono; lia). lia.
        + apply andb_true_iff in Qk. destruct Qk as [Q1 Q2]. apply Nat.leb_le in Q1. apply Nat.ltb_lt in Q2.
          destruct (Nat.eqb_spec v k) as [->|Hne]; [lia|].
          assert (Hlt : rank k < rank v).
          { destruct (Nat.eq_dec (rank k) (rank v)) as [e|]; [|lia].
            apply fp_rank_inj in e; [congruence|assumption|assumption]. }
          pose proof (Hlow k Hk Hlt ltac:(lia)). lia.
      - rewrite sumn_add, (sumn_pick (length jobs) v (cost jobs v) Hv1). lia. }
    assert (Hsub : workP jobs (fun k => k =? 0) + workP jobs inS + workP jobs (hpw i prio jobs (S O1) x) <= workP jobs Q).
    { apply workP_disjoint3.
      - intros k Hk Pk. apply Nat.eqb_eq in Pk. subst k. split; [reflexivity|]. split.
        + unfold inS, task_in_win. unfold jobs at 1. rewrite np_tsk0'.
          destruct (Nat.eqb_spec l i) as [e|]; [subst l; lia|reflexivity].
        + unfold hpw. unfold jobs at 1. rewrite np_tsk0'. destruct (Nat.ltb_spec (prio l) (prio i)); [lia|reflexivity].
      - intros k Hk Sk.
        assert (Etk : tsk jobs k = i).
        { unfold inS, task_in_win in Sk. apply andb_true_iff in Sk. destruct Sk as [Sk _].
          apply andb_true_iff in Sk. destruct Sk as [Sk _]. apply Nat.eqb_eq in Sk. exact Sk. }
        split.
        + unfold Q. apply orb_true_iff. right.
          apply andb_true_iff. split; [apply Nat.leb_le; apply Hmax; assumption|apply Nat.ltb_lt].
          destruct (fp_rank_le jobs prio k v Hk Hv1 (Hmax k Hk Sk)) as [Hlt|[_ Hle]]; [rewrite Etk, Sv1 in Hlt; lia|lia].
        + unfold hpw. rewrite Etk, Nat.ltb_irrefl. reflexivity.
      - intros k Hk Pk. unfold hpw, in_win in Pk. apply andb_true_iff in Pk. destruct Pk as [Pk1 Pk2].
        apply andb_true_iff in Pk2. destruct Pk2 as [_ Pk2]. apply Nat.ltb_lt in Pk1.
        unfold Q. apply orb_true_iff. right.
        apply andb_true_iff. split; [|exact Pk2]. apply Nat.leb_le. apply Nat.lt_le_incl.
        apply fp_rank_lt; [exact Hk|exact Hv1|]. rewrite Sv1. exact Pk1. }
    pose proof (np_blocker_work' tasks prio i l H Hl Hpl) as Hbw. fold jobs in Hbw. rewrite HBl in Hbw.
    assert (HAFx : (AF <= N.of_nat x)%N).
    { destruct (N.le_gt_cases AF (N.of_nat x)) as [|Hlt]; [assumption|exfalso].
      pose proof (np_hp_work' tasks prio i l H Hex Hl Hpl (N.of_nat x) ltac:(unfold H; lia)) as Hhpw.
      fold jobs O1 in Hhpw. rewrite Nnat.Nat2N.id in Hhpw.
      specialize (HAFmin (N.of_nat x) ltac:(lia) Hlt). lia. }
    lia.
Qed.
Print Assumptions fp_nonpreemptive_bound_attained_extrap.

(* ------------------------------------------------------------------------------------------ *)
(* D. non-vacuity                                                                              *)
(* ------------------------------------------------------------------------------------------ *)
(* a decision procedure for [realisable] *)
Definition nondecb (d : list N) : bool :=
  forallb (fun i => (nthN d i <=? nthN d (S i))%N) (seq 0 (length d - 1)).
Definition superaddb (d : list N) : bool :=
  forallb (fun i => forallb (fun j =>
      if i + j + 1 <? length d then (nthN d i + nthN d j <=? nthN d (i + j + 1))%N else true)
    (seq 0 (length d))) (seq 0 (length d)).
Definition realisableb (d : list N) : bool :=
  negb (length d =? 0) && nondecb d && (0 <? lastN d)%N && superaddb d.

Lemma realisableb_ok : forall d, realisableb d = true -> realisable d.
Proof.
  intros d H. unfold realisableb in H. apply andb_true_iff in H. destruct H as [H H4].
  apply andb_true_iff in H. destruct H as [H H3]. apply andb_true_iff in H. destruct H as [H1 H2].
  split; [split; [|split]|].
  - intros ->. discriminate H1.
  - intros i Hi. unfold nondecb in H2. rewrite forallb_forall in H2.
    specialize (H2 i ltac:(apply in_seq; lia)). apply N.leb_le. exact H2.
  - apply N.ltb_lt. exact H3.
  - intros i j Hij. unfold superaddb in H4. rewrite forallb_forall in H4.
    specialize (H4 i ltac:(apply in_seq; lia)). rewrite forallb_forall in H4.
    specialize (H4 j ltac:(apply in_seq; lia)).
    destruct (Nat.ltb_spec (i + j + 1) (length d)); [|lia]. apply N.leb_le. exact H4.
Qed.

(* two tasks with extrapolating curves, one of them with a plateau-ended prefix *)
Definition c18x_tasks : list task := [(ExtrapAB [0; 5; 5]%N, 1%N); (Periodic 6, 1%N); (ExtrapAB [1; 10; 11]%N, 2%N)].
Definition c18x_prio (k : nat) : nat := k.

Lemma c18x_tasks_exact : Forall (fun tk => exact_task' tk /\ (1 <= snd tk)%N) c18x_tasks.
Proof.
  constructor; [split; [right; exists [0; 5; 5]%N; split; [reflexivity|apply realisableb_ok; reflexivity]|cbn; lia]|].
  constructor; [split; [left; left; exists 6%N; split; [reflexivity|lia]|cbn; lia]|].
  constructor; [split; [right; exists [1; 10; 11]%N; split; [reflexivity|apply realisableb_ok; reflexivity]|cbn; lia]|].
  constructor.
Qed.

(* no side condition on plateaus: the first task's prefix ends in a plateau *)
Example c18x_plateau : plateau_end [0; 5; 5]%N.
Proof. split; [cbn [length]; lia|reflexivity]. Qed.

Example c18x_fifo_ok : e_fifo false (Agg (map rb_of c18x_tasks)) 60 = ROk 6.
Proof. vm_compute. reflexivity. Qed.
Example c18x_fp_ok : e_fp_fp false (RBF (ab_i c18x_tasks 2) (Scalar (C c18x_tasks 2))) (hp_rbs c18x_tasks 2 c18x_prio) 60 = ROk 9.
Proof. vm_compute. reflexivity. Qed.
Example c18x_fp0_ok : e_fp_fp false (RBF (ab_i c18x_tasks 0) (Scalar (C c18x_tasks 0))) (hp_rbs c18x_tasks 0 c18x_prio) 60 = ROk 2.
Proof. vm_compute. reflexivity. Qed.
Example c18x_np_ok : e_fp_np false (ab_i c18x_tasks 0) (C c18x_tasks 0) 1 (hp_rbs c18x_tasks 0 c18x_prio) 60 = ROk 3.
Proof. vm_compute. reflexivity. Qed.

Example c18x_fifo_tight : exists jobs sched k, valid jobs sched /\ work_conserving jobs sched /\ fifo_policy jobs sched /\
  respects_curves c18x_tasks jobs /\ respects_costs c18x_tasks jobs /\ k < length jobs /\
  completes_within jobs sched k 6 /\ ~ completes_within jobs sched k 5.
Proof.
  exact (fifo_bound_attained_extrap false c18x_tasks 60 6 c18x_tasks_exact ltac:(discriminate) ltac:(lia) c18x_fifo_ok).
Qed.

(* the analysed task has an extrapolating curve and suffers interference from a plateau-ended one *)
Example c18x_fp_tight : exists jobs sched k, valid jobs sched /\ work_conserving jobs sched /\
  respects_curves c18x_tasks jobs /\ respects_costs c18x_tasks jobs /\
  legal jobs sched (fp_hp jobs c18x_prio) (fun _ _ => true) /\
  k < length jobs /\ tsk jobs k = 2 /\ completes_within jobs sched k 9 /\ ~ completes_within jobs sched k 8.
Proof.
  assert (Hi : 2 < length c18x_tasks) by (cbn [length c18x_tasks]; lia).
  exact (fp_preemptive_bound_attained_extrap false c18x_tasks 2 c18x_prio 60 9 c18x_tasks_exact Hi
           (fun a b _ _ E => E) ltac:(lia) c18x_fp_ok).
Qed.

(* the analysed task has the plateau-ended curve (two simultaneous releases, then every 5) *)
Example c18x_fp0_tight : exists jobs sched k, valid jobs sched /\ work_conserving jobs sched /\
  respects_curves c18x_tasks jobs /\ respects_costs c18x_tasks jobs /\
  legal jobs sched (fp_hp jobs c18x_prio) (fun _ _ => true) /\
  k < length jobs /\ tsk jobs k = 0 /\ completes_within jobs sched k 2 /\ ~ completes_within jobs sched k 1.
Proof.
  assert (Hi : 0 < length c18x_tasks) by (cbn [length c18x_tasks]; lia).
  exact (fp_preemptive_bound_attained_extrap false c18x_tasks 0 c18x_prio 60 2 c18x_tasks_exact Hi
           (fun a b _ _ E => E) ltac:(lia) c18x_fp0_ok).
Qed.

Example c18x_np_tight : exists jobs sched pp k, valid jobs sched /\ work_conserving jobs sched /\
  respects_curves c18x_tasks jobs /\ respects_costs c18x_tasks jobs /\
  fully_nonpreemptive jobs pp /\ legal jobs sched (fp_hp jobs c18x_prio) pp /\
  (forall k', k' < length jobs -> c18x_prio 0 < c18x_prio (tsk jobs k') -> cost jobs k' <= 1 + 1) /\
  k < length jobs /\ tsk jobs k = 0 /\ completes_within jobs sched k 3 /\ ~ completes_within jobs sched k 2.
Proof.
  assert (Hi : 0 < length c18x_tasks) by (cbn [length c18x_tasks]; lia).
  assert (Hl : 2 < length c18x_tasks) by (cbn [length c18x_tasks]; lia).
  assert (Hp : c18x_prio 0 < c18x_prio 2) by (unfold c18x_prio; lia).
  exact (fp_nonpreemptive_bound_attained_extrap false c18x_tasks 0 2 c18x_prio 60 1 3 c18x_tasks_exact Hi Hl Hp eq_refl
           (fun a b _ _ E => E) ltac:(lia) c18x_np_ok).
Qed.
Print Assumptions c18x_fifo_tight.
Print Assumptions c18x_fp_tight.
Print Assumptions c18x_fp0_tight.
Print Assumptions c18x_np_tight.
