(* Totality.v — property C20 ("analyses are total and independent of the build profile") for the six
   ROS 2 entry points of Model/Eval.v (e_es, e_timer, e_pp, e_chain, e_rr, e_bw), for the fixed-point search
   and for the model-query level (service_time).  The nine dedicated-processor entry points are covered in
   Proofs/EntryPoints.v (e_dedicated_no_panic, e_edf_no_panic, *_profile_independent).

   [RPanic] models: a checked subtraction underflows, an assertion or a debug-only cross-check fails, or a
   loop runs out of its fuel.  [dbg] = compiled with debug assertions.

   Every theorem has the shape
        e_X dbg ... <> RPanic  /\  e_X dbg ... = e_X (negb dbg) ...
   and is obtained from a characterisation of e_X that mentions neither RPanic nor dbg
   (Proofs/ExhRos.v: event_source_exhaustive, rr_exhaustive, timer/pp/chain_step_offsets,
   search_least_sol, bw_debug_check_passes), once the function-level hypotheses are discharged from
   well-formedness of the inputs.

   Contents
   1. helpers: the naive evaluators never panic; max_response_time of non-panicking results;
   2. e_search_total, st_total;
   3. e_es_total; e_es_prefix_no_panic (ArrivalCurvePrefix, whose first step is 0: no panic since zero-length steps are skipped);
   4. callbacks built by cb_of from well-formed workloads;
   5. e_rr_total_gen / e_rr_total;
   6. e_bw_total_gen / e_bw_total: no hypothesis on the subchain or on the arrivals of the end of chain is
      needed for totality (it is needed for exhaustiveness: bw_exhaustive_needs_arrival_refuted);
   7. lw_scalar_const, ii_mono_scalar; e_timer_total, e_pp_total, e_chain_total. *)
From Coq Require Import List NArith Lia Bool Sorting.Sorted.
From RTA.Model Require Import Base Arrival Wcet Demand Supply FixedPoint Analyses Ros2 Eval WellFormed.
From RTA.Spec Require Import Exhaustive ExhaustiveRos.
From RTA.Proofs Require Import FixedPointProofs SupplyProofs ArrivalNaProofs WcetProofs DemandProofs StepsProofs ExhFP ExhEDF ExhRos EntryPoints.
Import ListNotations.
Local Open Scope N_scope.

(* ExhFP and StepsProofs both define [mono] (convertible); the ExhRos theorems use the one of ExhFP *)
Local Notation mono := ExhFP.mono.

(* ------------------------------------------------------------------------------------------ *)
(* 1. helpers                                                                                  *)
(* ------------------------------------------------------------------------------------------ *)

Lemma exh_ecrts_not_panic : forall sbf limit bw_rhs rhs, exh_ecrts sbf limit bw_rhs rhs <> RPanic.
Proof.
  intros sbf limit bw_rhs rhs. unfold exh_ecrts.
  destruct (least_sol sbf limit 0 bw_rhs); [|discriminate].
  cbv zeta. destruct (find _ _); discriminate.
Qed.

Lemma exh_ecrts_steps_not_panic : forall sbf limit demand bw_rhs rhs,
  exh_ecrts_steps sbf limit demand bw_rhs rhs <> RPanic.
Proof.
  intros sbf limit demand bw_rhs rhs. unfold exh_ecrts_steps.
  destruct (least_sol sbf limit 0 bw_rhs); [|discriminate].
  cbv zeta. destruct (find _ _); discriminate.
Qed.

Lemma exh_rr_not_panic : forall sbf bound wl sc limit, exh_rr sbf bound wl sc limit <> RPanic.
Proof.
  intros sbf bound wl sc limit. unfold exh_rr.
  destruct (least_sol sbf limit 0 (rr_rhs wl sc)); discriminate.
Qed.

Lemma mrt_not_panic : forall l, existsb is_panic l = false -> max_response_time l <> RPanic.
Proof.
  intros l H. rewrite (mrt_spec l H). destruct (find is_err l) as [e|] eqn:E; [|discriminate].
  apply find_some in E. destruct E as (_ & E).
  destruct e as [r|o li|]; [discriminate|discriminate|discriminate E].
Qed.

(* ------------------------------------------------------------------------------------------ *)
(* 2. the fixed-point search and service_time                                                  *)
(* ------------------------------------------------------------------------------------------ *)

(* the search itself, for every well-formed supply incl. user-defined ones through the default service_time *)
Theorem e_search_total : forall dbg sb limit w, wf_sb sb -> (forall a b, a <= b -> w a <= w b) ->
  e_search dbg sb limit w <> RPanic /\ e_search dbg sb limit w = e_search (negb dbg) sb limit w.
Proof.
  intros dbg sb limit w Hsb Hw.
  destruct (sbf_wf_ok sb Hsb) as (H0 & _ & Hl). pose proof (st_wf_exact sb Hsb) as Hinv.
  unfold e_search. rewrite !(search_dbg_irrelevant (sbf sb) (st sb) Hinv H0 Hl w Hw).
  split; [|reflexivity].
  apply (swo_no_panic (sbf sb) (st sb) Hinv w Hw 0 limit). apply N.le_0_l.
Qed.
Print Assumptions e_search_total.

(* loops never run out of fuel on well-formed inputs: service_time terminates with the exact inverse *)
Theorem st_total : forall sb d, wf_sb sb -> d <= sbf sb (st sb d).
Proof. intros sb d Hsb. apply sbf_st. exact Hsb. Qed.
Print Assumptions st_total.

(* ... and it is the least such point (what "out of fuel" would violate) *)
Theorem st_total_least : forall sb d t, wf_sb sb -> d <= sbf sb t -> st sb d <= t.
Proof. intros sb d t Hsb H. apply st_least; assumption. Qed.
Print Assumptions st_total_least.

(* ------------------------------------------------------------------------------------------ *)
(* 3. event source                                                                             *)
(* ------------------------------------------------------------------------------------------ *)

Lemma e_es_exh : forall sb rb limit, wf_sb sb -> rb_steps_ok rb ->
  forall dbg, e_es dbg sb rb limit = exh_event_source (sbf sb) limit (sn rb).
Proof.
  intros sb rb limit Hsb Hrb dbg. unfold e_es.
  pose proof (rb_steps_ok_wf rb Hrb) as Hwf.
  apply (event_source_exhaustive (sbf sb) (st sb) (sbf_wf_ok sb Hsb) (st_wf_exact sb Hsb)).
  - apply sn_mono. exact Hwf.
  - apply sn_zero. exact Hwf.
  - apply rb_steps_exact. exact Hrb.
Qed.

Theorem e_es_total : forall dbg sb rb limit, wf_sb sb -> rb_steps_ok rb ->
  e_es dbg sb rb limit <> RPanic /\ e_es dbg sb rb limit = e_es (negb dbg) sb rb limit.
Proof.
  intros dbg sb rb limit Hsb Hrb. pose proof (e_es_exh sb rb limit Hsb Hrb) as E.
  rewrite (E dbg), (E (negb dbg)). split; [|reflexivity].
  unfold exh_event_source. apply exh_ecrts_not_panic.
Qed.
Print Assumptions e_es_total.

(* An ArrivalCurvePrefix is a well-formed arrival bound that does not satisfy [rb_steps_ok]: its step enumeration
   starts with 0 (known finding C11/C20-prefix-step-zero).  In earlier revisions of the crate
   [Offset::closed_from_time_zero] underflowed on that step (a panic in the debug build); the defect was fixed by
   skipping zero-length steps when interval lengths are converted to offsets, so the analysis no longer panics
   and its debug and release builds agree. *)
Theorem e_es_prefix_no_panic : exists sb rb limit, wf_sb sb /\ wf_rb rb /\
  e_es true sb rb limit <> RPanic /\ e_es true sb rb limit = e_es false sb rb limit.
Proof.
  exists Dedicated, (RBF (PrefixAB 10 [(1, 1); (4, 2)]) (Scalar 1)), 50.
  split; [exact I|]. split.
  - cbn [wf_rb wf_ab wf_cm]. split; [|exact I]. unfold wf_prefix.
    split; [lia|]. split; [discriminate|]. split; [reflexivity|]. split; [cbn [hd snd]; lia|]. split.
    + intros i Hi. destruct i as [|[|i]]; cbn [nth fst]; [lia|lia|].
      cbn [length] in Hi. lia.
    + intros i Hi. destruct i as [|i]; cbn [nth fst snd]; [lia|].
      cbn [length] in Hi. lia.
  - split; vm_compute; [discriminate|reflexivity].
Qed.
Print Assumptions e_es_prefix_no_panic.

(* ------------------------------------------------------------------------------------------ *)
(* 4. callbacks of well-formed workloads                                                       *)
(* ------------------------------------------------------------------------------------------ *)

(* rr / bw subchain: workload of callbacks with well-formed arrival bounds and cost models, non-empty
   subchain inside the workload *)
Definition wl_ok (wl : list (N * AB * CM * kind)) : Prop :=
  Forall (fun x => let '(R, ab, cm, k) := x in wf_ab ab /\ steps_exact_class ab /\ wf_cm cm) wl.
Definition sc_ok (wl : list (N * AB * CM * kind)) (sc : list nat) : Prop :=
  sc <> [] /\ Forall (fun i => (i < length wl)%nat) sc.

Definition cb_good (cb : callback) : Prop :=
  mono (cb_na cb) /\ mono (cb_cost cb) /\ forall h, steps_spec (cb_na cb) (cb_steps cb h) h.

Lemma cb_of_good : forall wl, wl_ok wl -> forall cb, In cb (map cb_of wl) -> cb_good cb.
Proof.
  intros wl Hwl cb Hcb. apply in_map_iff in Hcb. destruct Hcb as ([[[R ab] cm] k] & <- & Hin).
  unfold wl_ok in Hwl. rewrite Forall_forall in Hwl. specialize (Hwl _ Hin).
  cbv beta iota in Hwl. destruct Hwl as (Hab & Hsc & Hcm).
  unfold cb_good. cbn [cb_of cb_na cb_cost cb_steps]. split; [apply na_mono'; exact Hab|]. split.
  - intros a b Hle. apply cost_mono; assumption.
  - apply steps_upto_exact; assumption.
Qed.

(* the end-of-chain callback is a callback of the workload, or the (harmless) default of [nth] *)
Lemma eoc_cases : forall wl sc,
  In (eoc wl sc) wl \/ eoc wl sc = mkCb 0 (fun _ => 0) (fun _ => []) (fun _ => 0) KTimer.
Proof.
  intros wl sc. unfold eoc, cb_at.
  destruct (nth_in_or_default (eoc_idx sc) wl (mkCb 0 (fun _ => 0) (fun _ => []) (fun _ => 0) KTimer)) as [H|H];
    [left|right]; exact H.
Qed.

Lemma eoc_mono : forall wl sc, (forall cb, In cb wl -> mono (cb_na cb) /\ mono (cb_cost cb)) ->
  mono (cb_na (eoc wl sc)) /\ mono (cb_cost (eoc wl sc)).
Proof.
  intros wl sc H. destruct (eoc_cases wl sc) as [Hin|E].
  - apply H. exact Hin.
  - rewrite E. cbn [cb_na cb_cost]. split; intros a b _; apply N.le_refl.
Qed.

(* ------------------------------------------------------------------------------------------ *)
(* 5. rr subchain                                                                              *)
(* ------------------------------------------------------------------------------------------ *)

Lemma e_rr_exh : forall sb wl sc limit, wf_sb sb -> wl_ok wl ->
  forall dbg, e_rr dbg sb wl sc limit = exh_rr (sbf sb) (fun d => st sb d + 1) (map cb_of wl) sc limit.
Proof.
  intros sb wl sc limit Hsb Hwl dbg. unfold e_rr.
  assert (Hm : forall cb, In cb (map cb_of wl) -> mono (cb_na cb) /\ mono (cb_cost cb)).
  { intros cb Hcb. destruct (cb_of_good wl Hwl cb Hcb) as (H1 & H2 & _). split; assumption. }
  destruct (eoc_mono (map cb_of wl) sc Hm) as (He1 & He2).
  apply (rr_exhaustive (sbf sb) (st sb) (sbf_wf_ok sb Hsb) (st_wf_exact sb Hsb)); try assumption.
  intros d. lia.
Qed.

(* no hypothesis on the subchain is needed *)
Theorem e_rr_total_gen : forall dbg sb wl sc limit, wf_sb sb -> wl_ok wl ->
  e_rr dbg sb wl sc limit <> RPanic /\ e_rr dbg sb wl sc limit = e_rr (negb dbg) sb wl sc limit.
Proof.
  intros dbg sb wl sc limit Hsb Hwl. pose proof (e_rr_exh sb wl sc limit Hsb Hwl) as E.
  rewrite (E dbg), (E (negb dbg)). split; [apply exh_rr_not_panic|reflexivity].
Qed.
Print Assumptions e_rr_total_gen.

Theorem e_rr_total : forall dbg sb wl sc limit, wf_sb sb -> wl_ok wl -> sc_ok wl sc ->
  e_rr dbg sb wl sc limit <> RPanic /\ e_rr dbg sb wl sc limit = e_rr (negb dbg) sb wl sc limit.
Proof. intros dbg sb wl sc limit Hsb Hwl _. apply e_rr_total_gen; assumption. Qed.
Print Assumptions e_rr_total.

(* ------------------------------------------------------------------------------------------ *)
(* 6. bw subchain                                                                              *)
(* ------------------------------------------------------------------------------------------ *)

Section BwTotal.
  Variables (sbf st : N -> N).
  Hypothesis Hok : sbf_ok sbf.
  Hypothesis Hinv : exact_inverse sbf st.
  Variables (wl : list callback) (sc : list nat) (limit : N).
  Hypothesis Hwl : forall cb, In cb wl -> cb_good cb.

  Lemma t_eoc_mono : mono (cb_na (eoc wl sc)) /\ mono (cb_cost (eoc wl sc)).
  Proof.
    apply eoc_mono. intros cb Hcb. destruct (Hwl cb Hcb) as (H1 & H2 & _). split; assumption.
  Qed.

  Lemma t_bw_interference_mono2 : forall a a' b b', a <= a' -> b <= b' ->
    bw_interference wl sc a b <= bw_interference wl sc a' b'.
  Proof.
    intros a a' b b' Ha Hb. unfold bw_interference. apply sumN_map_le.
    intros cb Hcb. apply in_others in Hcb. destruct (Hwl cb Hcb) as (Hn & Hk & _).
    unfold bw_rbf. apply Hk, capped_mono2; [apply Hn; exact Ha|].
    pose proof (Hn b b' Hb). lia.
  Qed.

  Lemma t_bw_max_rhs_mono : mono (bw_max_rhs wl sc).
  Proof.
    intros a b Hab. unfold bw_max_rhs.
    pose proof (t_bw_interference_mono2 a b a b Hab Hab).
    destruct t_eoc_mono as (Hn & Hk). pose proof (Hk _ _ (Hn a b Hab)). lia.
  Qed.

  (* the analysis of one activation offset with the search replaced by its linear scan *)
  Definition t_bw_at (singleton : bool) (act : N) : result :=
    match least_sol sbf limit 0
            (fun x => 1 + bw_interference wl sc x act + cb_cost (eoc wl sc) (bw_self_instances wl sc act)) with
    | None => RErr 0 limit
    | Some x =>
        ROk (if singleton
             then st (sbf x - 1 + (cb_cost (eoc wl sc) (bw_self_instances wl sc act + 1)
                                   - cb_cost (eoc wl sc) (bw_self_instances wl sc act))) - act
             else st (sbf x - 1 + (cb_cost (eoc wl sc) (bw_self_instances wl sc act + 1)
                                   - cb_cost (eoc wl sc) (bw_self_instances wl sc act))))
    end.

  Lemma t_bw_rta : forall dbg singleton act,
    bw_rta dbg sbf st wl sc limit singleton act = t_bw_at singleton act.
  Proof.
    intros dbg singleton act. unfold bw_rta, t_bw_at. cbv zeta.
    rewrite (search_least_sol sbf st Hok Hinv dbg limit).
    2:{ intros a b Hab. pose proof (t_bw_interference_mono2 a b act act Hab (N.le_refl _)). lia. }
    destruct (least_sol sbf limit 0 _) as [x|]; cbn [rbind]; [|reflexivity].
    destruct t_eoc_mono as (_ & Hk).
    destruct (N.ltb_spec (cb_cost (eoc wl sc) (bw_self_instances wl sc act + 1))
                         (cb_cost (eoc wl sc) (bw_self_instances wl sc act))) as [Hlt|_].
    - pose proof (Hk (bw_self_instances wl sc act) (bw_self_instances wl sc act + 1)). lia.
    - reflexivity.
  Qed.

  Lemma t_bw_at_not_panic : forall s l, existsb is_panic (map (t_bw_at s) l) = false.
  Proof.
    intros s l. induction l as [|A l IH]; [reflexivity|].
    cbn [map existsb]. rewrite IH. unfold t_bw_at. destruct (least_sol _ _ _ _); reflexivity.
  Qed.

  (* the whole analysis: mentions neither dbg nor RPanic *)
  Definition t_bw : result :=
    match least_sol sbf limit 0 (bw_max_rhs wl sc) with
    | None => RErr 0 limit
    | Some m => max_response_time (map (t_bw_at (Nat.eqb (length sc) 1))
                                       (filter (fun a => a <? m) (bw_all_steps wl sc m)))
    end.

  Lemma t_bw_subchain : forall dbg, bw_subchain dbg sbf st wl sc limit = t_bw.
  Proof.
    intros dbg. unfold bw_subchain, t_bw. cbv zeta.
    rewrite (search_least_sol sbf st Hok Hinv dbg limit _ t_bw_max_rhs_mono).
    destruct (least_sol sbf limit 0 (bw_max_rhs wl sc)) as [m|]; cbn [rbind]; [|reflexivity].
    rewrite bw_debug_check_passes.
    2:{ intros cb Hcb. destruct (Hwl cb Hcb) as (H1 & _ & H3). split; assumption. }
    change (negb true) with false. rewrite andb_false_r.
    f_equal. apply map_ext. intros a. apply t_bw_rta.
  Qed.

  Lemma t_bw_not_panic : t_bw <> RPanic.
  Proof.
    unfold t_bw. destruct (least_sol sbf limit 0 (bw_max_rhs wl sc)) as [m|]; [|discriminate].
    apply mrt_not_panic. apply t_bw_at_not_panic.
  Qed.
End BwTotal.

(* no hypothesis on the subchain and none on the arrivals of the end-of-chain callback is needed: when it
   never arrives the Lemma-19 step set is empty, no offset is analysed and both builds return Ok 0.
   (Modelling note: the debug cross-check of the crate peeks at an unbounded brute-force enumeration, which
   does not terminate when no step exists at all; the model bounds that enumeration, see first_at_or_above.) *)
Theorem e_bw_total_gen : forall dbg sb wl sc limit, wf_sb sb -> wl_ok wl ->
  e_bw dbg sb wl sc limit <> RPanic /\ e_bw dbg sb wl sc limit = e_bw (negb dbg) sb wl sc limit.
Proof.
  intros dbg sb wl sc limit Hsb Hwl.
  pose proof (t_bw_subchain (sbf sb) (st sb) (sbf_wf_ok sb Hsb) (st_wf_exact sb Hsb)
                            (map cb_of wl) sc limit (cb_of_good wl Hwl)) as E.
  unfold e_bw. rewrite (E dbg), (E (negb dbg)). split; [|reflexivity].
  apply (t_bw_not_panic (sbf sb) (st sb)).
Qed.
Print Assumptions e_bw_total_gen.

(* bw subchain, as requested: additionally the end-of-chain callback can arrive *)
Theorem e_bw_total : forall dbg sb wl sc limit, wf_sb sb -> wl_ok wl -> sc_ok wl sc ->
  (let '(_, ab, _, _) := nth (last sc 0%nat) wl (0, Never, Scalar 0, KTimer) in 0 < na ab 1) ->
  e_bw dbg sb wl sc limit <> RPanic /\ e_bw dbg sb wl sc limit = e_bw (negb dbg) sb wl sc limit.
Proof. intros dbg sb wl sc limit Hsb Hwl _ _. apply e_bw_total_gen; assumption. Qed.
Print Assumptions e_bw_total.

(* under the hypotheses of [e_bw_total] the result is moreover the exhaustive one (every activation offset) *)
Theorem e_bw_exh : forall dbg sb wl sc limit, wf_sb sb -> wl_ok wl ->
  (let '(_, ab, _, _) := nth (last sc 0%nat) wl (0, Never, Scalar 0, KTimer) in 0 < na ab 1) ->
  e_bw dbg sb wl sc limit = exh_bw (sbf sb) (fun d => st sb d + 1) (map cb_of wl) sc limit.
Proof.
  intros dbg sb wl sc limit Hsb Hwl Harr. unfold e_bw.
  pose proof (cb_of_good wl Hwl) as Hg.
  assert (He : cb_na (eoc (map cb_of wl) sc) 0 < cb_na (eoc (map cb_of wl) sc) 1).
  { unfold eoc, cb_at, eoc_idx.
    change (mkCb 0 (fun _ => 0) (fun _ => []) (fun _ => 0) KTimer) with (cb_of (0, Never, Scalar 0, KTimer)).
    rewrite map_nth.
    destruct (nth (last sc 0%nat) wl (0, Never, Scalar 0, KTimer)) as [[[R ab] cm] k] eqn:En.
    cbn [cb_of cb_na].
    assert (Hwf : wf_ab ab).
    { destruct (nth_in_or_default (last sc 0%nat) wl (0, Never, Scalar 0, KTimer)) as [Hin|Hd].
      - unfold wl_ok in Hwl. rewrite Forall_forall in Hwl. specialize (Hwl _ Hin). rewrite En in Hwl.
        cbv beta iota in Hwl. apply Hwl.
      - rewrite En in Hd. inversion Hd. exact I. }
    rewrite (na_zero ab Hwf). exact Harr. }
  assert (Hge : cb_good (eoc (map cb_of wl) sc)).
  { destruct (eoc_cases (map cb_of wl) sc) as [Hin|E]; [apply Hg; exact Hin|].
    rewrite E in He. cbn [cb_na] in He. lia. }
  apply (bw_exhaustive_any_build (sbf sb) (st sb) (sbf_wf_ok sb Hsb) (st_wf_exact sb Hsb)).
  - exact Hg.
  - exact Hge.
  - intros d. lia.
  - exact He.
Qed.
Print Assumptions e_bw_exh.

(* ------------------------------------------------------------------------------------------ *)
(* 7. timer / polling point / chain with a single scalar-cost own callback                     *)
(* ------------------------------------------------------------------------------------------ *)

(* least_wcet_in_interval of an RBF with a scalar cost is that cost in every interval in which something can
   arrive: constant on d >= 1 when an arrival is possible in an interval of length 1 *)
Lemma lw_scalar_const : forall ab c d, wf_ab ab -> 0 < na ab 1 -> 1 <= d -> lw (RBF ab (Scalar c)) d = c.
Proof.
  intros ab c d Hab Hpos Hd. cbn [lw least_wcet].
  pose proof (na_mono ab Hab 1 d Hd) as Hle.
  destruct (N.ltb_spec 0 (na ab d)) as [_|H]; [reflexivity|lia].
Qed.

Lemma ii_mono_scalar : forall ab c, wf_ab ab -> 0 < na ab 1 ->
  forall off, mono (interference_interval (lw (RBF ab (Scalar c))) off).
Proof.
  intros ab c Hab Hpos off. apply (ii_mono_const _ c). intros d Hd. apply lw_scalar_const; assumption.
Qed.
Print Assumptions ii_mono_scalar.

Lemma scalar_steps_ok : forall ab c, wf_ab ab -> steps_exact_class ab -> 1 <= c -> rb_steps_ok (RBF ab (Scalar c)).
Proof.
  intros ab c Hab Hsc Hc. cbn [rb_steps_ok wf_cm positive_cm].
  split; [exact Hab|]. split; [exact Hsc|]. split; [exact I|exact Hc].
Qed.

Lemma scalar_wf : forall ab c, wf_ab ab -> wf_rb (RBF ab (Scalar c)).
Proof. intros ab c Hab. cbn [wf_rb wf_cm]. split; [exact Hab|exact I]. Qed.

Lemma e_timer_steps : forall sb ab c intf B limit, wf_sb sb -> wf_ab ab -> steps_exact_class ab -> 1 <= c ->
  0 < na ab 1 -> wf_rb intf ->
  forall dbg, e_timer dbg sb (RBF ab (Scalar c)) intf B limit =
    exh_ecrts_steps (sbf sb) limit (sn (RBF ab (Scalar c)))
      (fun d => sn (RBF ab (Scalar c)) d + B + sn intf d)
      (fun off resp => sn (RBF ab (Scalar c)) (off + 1)
                       + sn intf (interference_interval (lw (RBF ab (Scalar c))) off resp) + B).
Proof.
  intros sb ab c intf B limit Hsb Hab Hsc Hc Hpos Hintf dbg. unfold e_timer.
  apply (timer_step_offsets (sbf sb) (st sb) (sbf_wf_ok sb Hsb) (st_wf_exact sb Hsb)).
  - apply rb_steps_upto_exact. apply scalar_steps_ok; assumption.
  - apply sn_mono. apply scalar_wf. exact Hab.
  - apply sn_mono. exact Hintf.
  - apply ii_mono_scalar; assumption.
Qed.

Theorem e_timer_total : forall dbg sb ab c intf B limit, wf_sb sb -> wf_ab ab -> steps_exact_class ab -> 1 <= c ->
  0 < na ab 1 -> wf_rb intf ->
  e_timer dbg sb (RBF ab (Scalar c)) intf B limit <> RPanic /\
  e_timer dbg sb (RBF ab (Scalar c)) intf B limit = e_timer (negb dbg) sb (RBF ab (Scalar c)) intf B limit.
Proof.
  intros dbg sb ab c intf B limit Hsb Hab Hsc Hc Hpos Hintf.
  pose proof (e_timer_steps sb ab c intf B limit Hsb Hab Hsc Hc Hpos Hintf) as E.
  rewrite (E dbg), (E (negb dbg)). split; [apply exh_ecrts_steps_not_panic|reflexivity].
Qed.
Print Assumptions e_timer_total.

Lemma e_pp_steps : forall sb ab c intf limit, wf_sb sb -> wf_ab ab -> steps_exact_class ab -> 1 <= c ->
  0 < na ab 1 -> wf_rb intf ->
  forall dbg, e_pp dbg sb (RBF ab (Scalar c)) intf limit =
    exh_ecrts_steps (sbf sb) limit (sn (RBF ab (Scalar c)))
      (fun d => sn (RBF ab (Scalar c)) d + sn intf d)
      (fun off resp => sn (RBF ab (Scalar c)) (off + 1)
                       + sn intf (interference_interval (lw (RBF ab (Scalar c))) off resp)).
Proof.
  intros sb ab c intf limit Hsb Hab Hsc Hc Hpos Hintf dbg. unfold e_pp.
  apply (pp_step_offsets (sbf sb) (st sb) (sbf_wf_ok sb Hsb) (st_wf_exact sb Hsb)).
  - apply rb_steps_upto_exact. apply scalar_steps_ok; assumption.
  - apply sn_mono. apply scalar_wf. exact Hab.
  - apply sn_mono. exact Hintf.
  - apply ii_mono_scalar; assumption.
Qed.

Theorem e_pp_total : forall dbg sb ab c intf limit, wf_sb sb -> wf_ab ab -> steps_exact_class ab -> 1 <= c ->
  0 < na ab 1 -> wf_rb intf ->
  e_pp dbg sb (RBF ab (Scalar c)) intf limit <> RPanic /\
  e_pp dbg sb (RBF ab (Scalar c)) intf limit = e_pp (negb dbg) sb (RBF ab (Scalar c)) intf limit.
Proof.
  intros dbg sb ab c intf limit Hsb Hab Hsc Hc Hpos Hintf.
  pose proof (e_pp_steps sb ab c intf limit Hsb Hab Hsc Hc Hpos Hintf) as E.
  rewrite (E dbg), (E (negb dbg)). split; [apply exh_ecrts_steps_not_panic|reflexivity].
Qed.
Print Assumptions e_pp_total.

(* chain: last callback RBF ab (Scalar c), prefix callbacks on the same arrival bound,
   full = Agg (prefix ++ [last]) *)
Lemma e_chain_steps : forall sb ab c (pcs : list N) other limit, wf_sb sb -> wf_ab ab -> steps_exact_class ab ->
  1 <= c -> Forall (fun x => 1 <= x) pcs -> 0 < na ab 1 -> wf_rb other ->
  forall dbg,
  e_chain dbg sb (RBF ab (Scalar c)) (Agg (map (fun x => RBF ab (Scalar x)) pcs))
          (Agg (map (fun x => RBF ab (Scalar x)) pcs ++ [RBF ab (Scalar c)])) other limit =
  exh_ecrts_steps (sbf sb) limit
    (sn (Agg (map (fun x => RBF ab (Scalar x)) pcs ++ [RBF ab (Scalar c)])))
    (fun d => sn (Agg (map (fun x => RBF ab (Scalar x)) pcs ++ [RBF ab (Scalar c)])) d + sn other d)
    (fun off resp =>
       let ii := interference_interval (lw (RBF ab (Scalar c))) off resp in
       sn (RBF ab (Scalar c)) (off + 1) + sn (Agg (map (fun x => RBF ab (Scalar x)) pcs)) ii + sn other ii).
Proof.
  intros sb ab c pcs other limit Hsb Hab Hsc Hc Hpcs Hpos Hother dbg. unfold e_chain.
  apply (chain_step_offsets (sbf sb) (st sb) (sbf_wf_ok sb Hsb) (st_wf_exact sb Hsb)).
  - apply rb_steps_upto_exact. apply rb_ok_agg. apply Forall_app. split.
    + rewrite Forall_map. eapply Forall_impl; [|exact Hpcs]. cbv beta.
      intros x Hx. apply scalar_steps_ok; assumption.
    + constructor; [apply scalar_steps_ok; assumption|constructor].
  - intros d. rewrite !agg_service_needed. rewrite map_app, sumN_app.
    cbn [map sumN fold_right]. lia.
  - apply sn_mono. apply scalar_wf. exact Hab.
  - apply sn_mono. apply wf_rb_agg. rewrite Forall_map. rewrite Forall_forall.
    intros x _. apply scalar_wf. exact Hab.
  - apply sn_mono. exact Hother.
  - apply ii_mono_scalar; assumption.
Qed.

Theorem e_chain_total : forall dbg sb ab c (pcs : list N) other limit, wf_sb sb -> wf_ab ab -> steps_exact_class ab -> 1 <= c ->
  Forall (fun x => 1 <= x) pcs -> 0 < na ab 1 -> wf_rb other ->
  let lastcb := RBF ab (Scalar c) in
  let prefix := Agg (map (fun x => RBF ab (Scalar x)) pcs) in
  let full := Agg (map (fun x => RBF ab (Scalar x)) pcs ++ [lastcb]) in
  e_chain dbg sb lastcb prefix full other limit <> RPanic /\
  e_chain dbg sb lastcb prefix full other limit = e_chain (negb dbg) sb lastcb prefix full other limit.
Proof.
  intros dbg sb ab c pcs other limit Hsb Hab Hsc Hc Hpcs Hpos Hother lastcb prefix full.
  subst lastcb prefix full.
  pose proof (e_chain_steps sb ab c pcs other limit Hsb Hab Hsc Hc Hpcs Hpos Hother) as E.
  rewrite (E dbg), (E (negb dbg)). split; [apply exh_ecrts_steps_not_panic|reflexivity].
Qed.
Print Assumptions e_chain_total.
