(* WcetProofs.v — every cost model bounds consecutive jobs consistently (part of property C14):
   cost_of_jobs is monotone, is the sum of the first n items of job_cost_iter, least_wcet is a lower
   bound of these items, and job_cost_iter().take(n) is prefix-closed. *)
From Coq Require Import List NArith Arith Lia Bool.
From RTA.Model Require Import Base Wcet WellFormed.


(* [lia] does not know that N.div and N.modulo are non-negative: hide them first *)
Ltac hide_divmod :=
  repeat match goal with
  | |- context [N.div ?a ?b] => let q := fresh "q" in set (q := N.div a b) in *; clearbody q
  | |- context [N.modulo ?a ?b] => let q := fresh "r" in set (q := N.modulo a b) in *; clearbody q
  | H : context [N.div ?a ?b] |- _ => let q := fresh "q" in set (q := N.div a b) in *; clearbody q
  | H : context [N.modulo ?a ?b] |- _ => let q := fresh "r" in set (q := N.modulo a b) in *; clearbody q
  end.
Ltac dlia := hide_divmod; lia.

(* ------------------------------------------------------------------ lists of numbers *)

Lemma sumN_app : forall l l', sumN (l ++ l') = sumN l + sumN l'.
Proof.
  unfold sumN. induction l as [|a l IH]; intros l'; cbn [fold_right app].
  - lia.
  - rewrite IH. lia.
Qed.

Lemma firstn_seq' : forall m a n, firstn m (seq a n) = seq a (Nat.min m n).
Proof.
  induction m as [|m IH]; intros a n.
  - reflexivity.
  - destruct n as [|n]; [reflexivity|]. cbn [seq firstn Nat.min]. now rewrite IH.
Qed.

Lemma rangeN_length : forall a n, length (rangeN a n) = N.to_nat n.
Proof. intros. unfold rangeN. now rewrite map_length, seq_length. Qed.

Lemma rangeN_succ : forall a n, rangeN a (N.succ n) = rangeN a n ++ [a + n].
Proof.
  intros. unfold rangeN. rewrite Nnat.N2Nat.inj_succ, seq_S, map_app.
  cbn [map Nat.add]. now rewrite Nnat.N2Nat.id.
Qed.

Lemma rangeN_firstn : forall a m n, m <= n -> rangeN a m = firstn (N.to_nat m) (rangeN a n).
Proof.
  intros a m n H. unfold rangeN. rewrite firstn_map, firstn_seq'. do 2 f_equal. lia.
Qed.

Lemma In_rangeN : forall a n x, In x (rangeN a n) -> exists k, x = a + k /\ k < n.
Proof.
  intros a n x H. unfold rangeN in H. apply in_map_iff in H. destruct H as (i & <- & Hi).
  apply in_seq in Hi. exists (N.of_nat i). split; [reflexivity|lia].
Qed.

Lemma rangeN_shift : forall n, rangeN 1 n = map (fun k => k + 1) (rangeN 0 n).
Proof.
  intros. unfold rangeN. rewrite map_map. apply map_ext. intros i. lia.
Qed.

Lemma nth_firstn_lt : forall (l : list N) m k, (k < m)%nat -> nth k (firstn m l) 0 = nth k l 0.
Proof.
  induction l as [|a l IH]; intros m k H.
  - now rewrite firstn_nil.
  - destruct m as [|m]; [lia|]. cbn [firstn]. destruct k as [|k]; [reflexivity|].
    cbn [nth]. apply IH. lia.
Qed.

Lemma sum_firstn_S : forall (l : list N) p, (p < length l)%nat ->
  sumN (firstn (S p) l) = sumN (firstn p l) + nthN l p.
Proof.
  unfold nthN, sumN. induction l as [|a l IH]; intros p H; cbn [length] in H; [lia|].
  destruct p as [|p].
  - cbn [firstn fold_right nth]. lia.
  - change (firstn (S (S p)) (a :: l)) with (a :: firstn (S p) l).
    change (firstn (S p) (a :: l)) with (a :: firstn p l).
    cbn [fold_right nth]. rewrite IH by lia. lia.
Qed.

Lemma nthN_app_old : forall c v i, (i < length c)%nat -> nthN (c ++ [v]) i = nthN c i.
Proof. intros. unfold nthN. now apply app_nth1. Qed.

Lemma nthN_app_new : forall c v, nthN (c ++ [v]) (length c) = v.
Proof. intros. unfold nthN. rewrite app_nth2 by lia. now rewrite Nat.sub_diag. Qed.

Lemma nondec_le : forall l, nondecreasing l -> forall j i, (i <= j)%nat -> (j < length l)%nat ->
  nthN l i <= nthN l j.
Proof.
  intros l Hl. induction j as [|j IH]; intros i Hi Hj.
  - replace i with 0%nat by lia. lia.
  - destruct (Nat.eq_dec i (S j)) as [->|Hne]; [lia|].
    specialize (IH i ltac:(lia) ltac:(lia)). specialize (Hl j Hj). lia.
Qed.

(* ------------------------------------------------------------------ Iterator::min *)

Lemma fold_min_spec : forall l x,
  (fold_left N.min l x = x \/ In (fold_left N.min l x) l) /\
  fold_left N.min l x <= x /\ forall y, In y l -> fold_left N.min l x <= y.
Proof.
  induction l as [|a l IH]; intros x; cbn [fold_left].
  - split; [now left|]. split; [lia|]. intros y [].
  - destruct (IH (N.min x a)) as (H1 & H2 & H3). split; [|split].
    + destruct H1 as [H1|H1].
      * rewrite H1. destruct (N.min_spec x a) as [[_ E]|[_ E]]; rewrite E;
          [now left|right; now left].
      * right; now right.
    + lia.
    + intros y [<-|Hy]; [lia|now apply H3].
Qed.

Lemma minN_or_spec : forall d l, l <> [] ->
  In (minN_or d l) l /\ forall y, In y l -> minN_or d l <= y.
Proof.
  intros d [|x l] H; [congruence|]. cbn [minN_or].
  destruct (fold_min_spec l x) as (H1 & H2 & H3). split.
  - destruct H1 as [H1|H1]; [left; now rewrite H1|now right].
  - intros y [<-|Hy]; [assumption|now apply H3].
Qed.

(* ------------------------------------------------------------------ increments of a cumulative cost vector *)

Definition inc (l : list N) (j : nat) : N :=
  match j with O => nthN l 0 | S j' => nthN l j - nthN l j' end.

Lemma wcurve_least_le : forall l n j, (j < length l)%nat -> (j < N.to_nat n)%nat ->
  wcurve_least l n <= inc l j.
Proof.
  intros l n j Hl Hn. unfold wcurve_least.
  destruct (N.ltb_spec 0 n) as [_|H0]; [|lia].
  set (g := fun i : nat => nthN l i - nthN l (i - 1)).
  assert (G : forall s a, fold_left (fun least i => N.min least (g i)) s a <= a /\
                          forall i, In i s -> fold_left (fun least i => N.min least (g i)) s a <= g i).
  { induction s as [|i s IH]; intros a; cbn [fold_left].
    - split; [lia|]. intros i [].
    - destruct (IH (N.min a (g i))) as [H1 H2]. split; [lia|].
      intros i' [<-|Hi]; [lia|now apply H2]. }
  destruct (G (seq 1 (Nat.min (length l) (N.to_nat n) - 1)) (nthN l 0)) as [G1 G2].
  destruct j as [|j]; cbn [inc].
  - exact G1.
  - specialize (G2 (S j)). unfold g in G2 at 2. replace (S j - 1)%nat with j in G2 by lia.
    apply G2. apply in_seq. lia.
Qed.

(* ------------------------------------------------------------------ wcet::Curve::cost_of_jobs *)

Definition wg (l : list N) (y : N) : N := if 0 <? y then nthN l (N.to_nat (y - 1)) else 0.

Lemma wcurve_cost_alt : forall l n, l <> [] ->
  wcurve_cost l n = nthN l (length l - 1) * (n / lenN l) + wg l (n mod lenN l).
Proof.
  intros l n Hl. unfold wcurve_cost, wg.
  assert (HL : lenN l <> 0) by (unfold lenN; destruct l; [congruence|cbn [length]; dlia]).
  destruct (N.eqb_spec (lenN l) 0) as [E|_]; [congruence|]. cbn [negb andb].
  destruct (N.ltb_spec 0 n) as [Hn|Hn].
  - destruct (N.ltb_spec 0 (n / lenN l)) as [Hx|Hx]; [reflexivity|].
    replace (n / lenN l) with 0 by dlia. dlia.
  - replace n with 0 by dlia. rewrite N.div_0_l, N.mod_0_l by assumption.
    destruct (N.ltb_spec 0 0); dlia.
Qed.

Lemma divmod_succ : forall n L, 0 < L ->
  (n mod L + 1 < L /\ (n + 1) / L = n / L /\ (n + 1) mod L = n mod L + 1) \/
  (n mod L + 1 = L /\ (n + 1) / L = n / L + 1 /\ (n + 1) mod L = 0).
Proof.
  intros n L HL.
  pose proof (N.div_mod n L ltac:(dlia)) as E.
  pose proof (N.mod_lt n L ltac:(dlia)) as Hy.
  destruct (N.lt_ge_cases (n mod L + 1) L) as [H|H].
  - left. split; [assumption|]. split; symmetry.
    + apply (N.div_unique _ _ _ (n mod L + 1)); dlia.
    + apply (N.mod_unique _ _ (n / L)); dlia.
  - right. split; [dlia|]. split; symmetry.
    + apply (N.div_unique _ _ _ 0); dlia.
    + apply (N.mod_unique _ _ (n / L + 1)); dlia.
Qed.

Lemma wg_succ : forall l y, nondecreasing l -> y + 1 <= lenN l ->
  wg l (y + 1) = wg l y + inc l (N.to_nat y).
Proof.
  intros l y Hl Hy. unfold wg, lenN in *.
  destruct (N.ltb_spec 0 (y + 1)) as [_|?]; [|lia].
  rewrite N.add_sub.
  destruct (N.ltb_spec 0 y) as [H0|H0].
  - replace (N.to_nat y) with (S (N.to_nat (y - 1))) by lia. cbn [inc].
    specialize (Hl (N.to_nat (y - 1)) ltac:(lia)). lia.
  - replace y with 0 by lia. cbn [N.to_nat inc]. lia.
Qed.

Lemma wg_last : forall l, l <> [] -> wg l (lenN l) = nthN l (length l - 1).
Proof.
  intros l Hl. unfold wg, lenN.
  destruct (N.ltb_spec 0 (N.of_nat (length l))) as [_|H].
  - f_equal. lia.
  - destruct l; [congruence|cbn [length] in H; lia].
Qed.

(* one more job costs the next increment; the increments cycle through the vector *)
Lemma wcurve_step : forall l n, l <> [] -> nondecreasing l ->
  wcurve_cost l (n + 1) = wcurve_cost l n + inc l (N.to_nat (n mod lenN l)).
Proof.
  intros l n Hl Hnd. rewrite !wcurve_cost_alt by assumption.
  assert (HL : 0 < lenN l) by (unfold lenN; destruct l; [congruence|cbn [length]; dlia]).
  destruct (divmod_succ n (lenN l) HL) as [(H1 & H2 & H3)|(H1 & H2 & H3)]; rewrite H2, H3.
  - rewrite wg_succ by (assumption || dlia). dlia.
  - pose proof (wg_succ l (n mod lenN l) Hnd ltac:(dlia)) as E.
    rewrite H1, wg_last in E by assumption.
    replace (wg l 0) with 0 by reflexivity. dlia.
Qed.

Lemma wcurve_cost_in : forall c n, 1 <= n -> n <= lenN c ->
  wcurve_cost c n = nthN c (N.to_nat (n - 1)).
Proof.
  intros c n H1 H2.
  assert (Hc : c <> []) by (intros ->; cbn in H2; dlia).
  rewrite wcurve_cost_alt by assumption.
  destruct (N.eq_dec n (lenN c)) as [->|Hne].
  - rewrite N.div_same, N.mod_same by dlia. replace (wg c 0) with 0 by reflexivity.
    unfold lenN. replace (N.to_nat (N.of_nat (length c) - 1)) with (length c - 1)%nat by dlia. dlia.
  - rewrite N.div_small, N.mod_small by dlia. unfold wg.
    destruct (N.ltb_spec 0 n); dlia.
Qed.

(* ------------------------------------------------------------------ wcet::Curve::extrapolate_next *)

Lemma pair_sum_nth : forall (a b : list N) k, length a = length b -> (k < length a)%nat ->
  nth k (map (fun p => fst p + snd p) (combine a b)) 0 = nth k a 0 + nth k b 0.
Proof.
  induction a as [|x a IH]; intros [|y b] k Hl Hk; cbn [length] in *; try lia.
  destruct k as [|k]; cbn [combine map nth fst snd]; [reflexivity|]. apply IH; lia.
Qed.

Lemma wnext_spec : forall c, (1 <= length c)%nat ->
  (exists k, (2 * k <= length c)%nat /\ (k < length c)%nat /\
             wextrapolate_next c = nthN c k + nthN c (length c - 1 - k)) /\
  (forall k, (2 * k <= length c)%nat -> (k < length c)%nat ->
             wextrapolate_next c <= nthN c k + nthN c (length c - 1 - k)).
Proof.
  intros c Hc. unfold wextrapolate_next.
  set (n := length c) in *.
  rewrite rev_append_rev, app_nil_r.
  set (M := map (fun p => fst p + snd p) (combine c (rev c))).
  set (P := firstn (S (n / 2)) M).
  assert (HM : length M = n) by (unfold M; rewrite map_length, combine_length, rev_length; fold n; lia).
  assert (HP : length P = Nat.min (S (n / 2)) n) by (unfold P; rewrite firstn_length; lia).
  pose proof (Nat.mul_div_le n 2 ltac:(lia)) as Hd.
  assert (Hnth : forall k, (k < S (n / 2))%nat -> (k < n)%nat ->
                   nth k P 0 = nthN c k + nthN c (n - 1 - k)).
  { intros k Hk1 Hk2. unfold P. rewrite nth_firstn_lt by assumption. unfold M.
    rewrite pair_sum_nth by (rewrite ?rev_length; fold n; lia).
    rewrite rev_nth by (fold n; lia). fold n. unfold nthN. do 2 f_equal. lia. }
  assert (Hne : P <> []) by (intros E; rewrite E in HP; cbn [length] in HP; lia).
  destruct (minN_or_spec 0 P Hne) as [H1 H2]. split.
  - destruct (In_nth P _ 0 H1) as (k & Hk & Ek). exists k.
    split; [lia|]. split; [lia|]. rewrite <- Ek. apply Hnth; lia.
  - intros k Hk1 Hk2.
    assert (Hk : (k <= n / 2)%nat) by (apply Nat.div_le_lower_bound; lia).
    rewrite <- Hnth by lia. apply H2. apply nth_In. lia.
Qed.

(* the invariants of the cache: sub-additivity and monotonicity survive an extrapolation step, and no
   increment of the extended vector is smaller than [m] if none of the old ones is *)
Lemma push_nondec : forall c, (1 <= length c)%nat -> nondecreasing c -> subadditive c ->
  nondecreasing (wpush_next c).
Proof.
  intros c Hc Hnd Hsa i Hi. unfold wpush_next in *. rewrite app_length in Hi. cbn [length] in Hi.
  destruct (Nat.eq_dec (S i) (length c)) as [E|Hne].
  - rewrite nthN_app_old by lia. rewrite E, nthN_app_new.
    destruct (wnext_spec c Hc) as [(k & Hk1 & Hk2 & ->) _].
    destruct (Nat.eq_dec (length c - 1 - k) 0) as [E0|Hn0].
    + replace k with i in * by lia. lia.
    + pose proof (Hsa k (length c - 1 - k - 1)%nat ltac:(lia)) as H.
      replace (k + (length c - 1 - k - 1) + 1)%nat with i in H by lia.
      pose proof (Hnd (length c - 1 - k - 1)%nat ltac:(lia)) as H'.
      replace (S (length c - 1 - k - 1)) with (length c - 1 - k)%nat in H' by lia. lia.
  - rewrite !nthN_app_old by lia. apply Hnd. lia.
Qed.

Lemma push_subadd : forall c, (1 <= length c)%nat -> subadditive c -> subadditive (wpush_next c).
Proof.
  intros c Hc Hsa i j Hij. unfold wpush_next in *. rewrite app_length in Hij. cbn [length] in Hij.
  destruct (Nat.eq_dec (i + j + 1) (length c)) as [E|Hne].
  - rewrite E, nthN_app_new. rewrite !nthN_app_old by lia.
    destruct (wnext_spec c Hc) as [_ H].
    destruct (Nat.le_ge_cases i j) as [Hle|Hle].
    + specialize (H i ltac:(lia) ltac:(lia)).
      replace (length c - 1 - i)%nat with j in H by lia. exact H.
    + specialize (H j ltac:(lia) ltac:(lia)).
      replace (length c - 1 - j)%nat with i in H by lia. lia.
  - rewrite !nthN_app_old by lia. apply Hsa. lia.
Qed.

Lemma inc_app_old : forall c v j, (j < length c)%nat -> inc (c ++ [v]) j = inc c j.
Proof.
  intros c v [|j] H; cbn [inc]; now rewrite !nthN_app_old by lia.
Qed.

Lemma push_inc : forall c m, (1 <= length c)%nat -> subadditive c ->
  (forall j, (j < length c)%nat -> m <= inc c j) ->
  forall j, (j < length (wpush_next c))%nat -> m <= inc (wpush_next c) j.
Proof.
  intros c m Hc Hsa Hm j Hj. unfold wpush_next in *. rewrite app_length in Hj. cbn [length] in Hj.
  destruct (Nat.eq_dec j (length c)) as [->|Hne].
  - destruct (wnext_spec c Hc) as [(k & Hk1 & Hk2 & Ev) _].
    assert (En : exists n, length c = S n) by (destruct (length c); [lia|eauto]).
    destruct En as [n En]. rewrite En. cbn [inc].
    rewrite <- En, nthN_app_new. rewrite nthN_app_old by lia. rewrite Ev.
    replace (length c - 1 - k)%nat with (n - k)%nat by lia.
    destruct (Nat.eq_dec (n - k) 0) as [E0|Hn0].
    + replace k with n in * by lia. rewrite Nat.sub_diag.
      specialize (Hm 0%nat ltac:(lia)). cbn [inc] in Hm. lia.
    + destruct (n - k)%nat as [|t] eqn:Et; [lia|].
      specialize (Hm (S t) ltac:(lia)). cbn [inc] in Hm.
      pose proof (Hsa k t ltac:(lia)) as H. replace (k + t + 1)%nat with n in H by lia. lia.
  - rewrite inc_app_old by lia. apply Hm. lia.
Qed.

(* [k] extrapolation steps *)
Definition ext (l : list N) (k : nat) : list N := Nat.iter k wpush_next l.

Lemma ext_S : forall l k, ext l (S k) = wpush_next (ext l k).
Proof. reflexivity. Qed.

Lemma ext_length : forall l k, length (ext l k) = (length l + k)%nat.
Proof.
  intros l. induction k as [|k IH]; [cbn; lia|].
  rewrite ext_S. unfold wpush_next. rewrite app_length, IH. cbn [length]. lia.
Qed.

Lemma ext_inv : forall l, (1 <= length l)%nat -> nondecreasing l -> subadditive l ->
  forall k, nondecreasing (ext l k) /\ subadditive (ext l k).
Proof.
  intros l Hl Hnd Hsa. induction k as [|k [IH1 IH2]]; [now split|].
  rewrite ext_S. pose proof (ext_length l k). split.
  - apply push_nondec; [lia|assumption..].
  - apply push_subadd; [lia|assumption].
Qed.

Lemma ext_inc : forall l m, (1 <= length l)%nat -> nondecreasing l -> subadditive l ->
  (forall j, (j < length l)%nat -> m <= inc l j) ->
  forall k j, (j < length (ext l k))%nat -> m <= inc (ext l k) j.
Proof.
  intros l m Hl Hnd Hsa Hm. induction k as [|k IH]; [exact Hm|].
  rewrite ext_S. pose proof (ext_length l k).
  apply push_inc; [lia|now apply ext_inv|exact IH].
Qed.

(* extension is deterministic: earlier entries never change *)
Lemma ext_nth_stable : forall l k k' i, (i < length l + k)%nat -> (k <= k')%nat ->
  nthN (ext l k') i = nthN (ext l k) i.
Proof.
  intros l k k' i Hi Hk. induction k' as [|k' IH].
  - now replace k with 0%nat by lia.
  - destruct (Nat.eq_dec k (S k')) as [->|Hne]; [reflexivity|].
    rewrite ext_S. unfold wpush_next. rewrite nthN_app_old by (rewrite ext_length; lia).
    apply IH. lia.
Qed.

Theorem cost_zero : forall cm, cost_of_jobs cm 0 = 0.
Proof.
  intros [c|l|l|l]; cbn [cost_of_jobs].
  - dlia.
  - destruct (N.eqb_spec (lenN l) 0) as [|H]; [reflexivity|].
    rewrite N.div_0_l, N.mod_0_l by assumption. cbn [N.to_nat firstn]. unfold sumN at 2. cbn [fold_right]. dlia.
  - unfold wcurve_cost. rewrite andb_false_r. reflexivity.
  - unfold wcache_cost. cbn [snd]. unfold wcurve_cost. rewrite andb_false_r. reflexivity.
Qed.
Print Assumptions cost_zero.

(* ------------------------------------------------------------------ ExtrapolatingCurve::cost_of_jobs *)

Lemma extrap_small : forall l n, lenN l < 3 -> cost_of_jobs (ExtrapCM l) n = wcurve_cost l n.
Proof.
  intros l n H. cbn [cost_of_jobs]. unfold wcache_cost, wextrapolate. cbn [snd].
  destruct (N.leb_spec 3 (lenN l)); [lia|reflexivity].
Qed.

Lemma extrap_cost : forall l n, 3 <= lenN l -> 1 <= n ->
  cost_of_jobs (ExtrapCM l) n = nthN (ext l (N.to_nat n - length l)) (N.to_nat n - 1).
Proof.
  intros l n HL Hn. cbn [cost_of_jobs]. unfold wcache_cost, wextrapolate. cbn [snd].
  destruct (N.leb_spec 3 (lenN l)) as [_|?]; [|lia].
  replace (N.to_nat (n + 1 - 1 - lenN l)) with (N.to_nat n - length l)%nat by (unfold lenN; lia).
  fold (ext l (N.to_nat n - length l)).
  rewrite wcurve_cost_in; [f_equal; lia|assumption|].
  unfold lenN. rewrite ext_length. lia.
Qed.

Lemma extrap_step : forall l n, 3 <= lenN l -> nondecreasing l -> subadditive l ->
  cost_of_jobs (ExtrapCM l) (n + 1) =
  cost_of_jobs (ExtrapCM l) n + inc (ext l (N.to_nat (n + 1) - length l)) (N.to_nat n).
Proof.
  intros l n HL Hnd Hsa.
  assert (Hlen : (3 <= length l)%nat) by (unfold lenN in HL; lia).
  rewrite extrap_cost by lia.
  destruct (N.eq_dec n 0) as [->|Hn].
  - rewrite cost_zero. cbn [N.to_nat inc].
    replace (N.to_nat (0 + 1) - 1)%nat with 0%nat by lia. lia.
  - rewrite extrap_cost by lia.
    set (k' := (N.to_nat (n + 1) - length l)%nat).
    rewrite <- (ext_nth_stable l (N.to_nat n - length l) k' (N.to_nat n - 1)) by (unfold k'; lia).
    replace (N.to_nat (n + 1) - 1)%nat with (N.to_nat n) by lia.
    destruct (N.to_nat n) as [|p] eqn:Ep; [lia|]. cbn [inc].
    replace (S p - 1)%nat with p by lia.
    destruct (ext_inv l ltac:(lia) Hnd Hsa k') as [Hnd' _].
    specialize (Hnd' p). rewrite ext_length in Hnd'. specialize (Hnd' ltac:(unfold k'; lia)). lia.
Qed.

(* ------------------------------------------------------------------ Multiframe *)

Lemma lenN_pos : forall (l : list N), l <> [] -> 0 < lenN l.
Proof. intros [|a l] H; [congruence|]. unfold lenN. cbn [length]. lia. Qed.

Lemma mf_step : forall l n, l <> [] ->
  cost_of_jobs (Multiframe l) (n + 1) =
  cost_of_jobs (Multiframe l) n + nthN l (N.to_nat (n mod lenN l)).
Proof.
  intros l n Hl. cbn [cost_of_jobs]. pose proof (lenN_pos l Hl) as HL.
  destruct (N.eqb_spec (lenN l) 0) as [?|_]; [dlia|].
  pose proof (N.mod_lt n (lenN l) ltac:(dlia)) as Hy.
  assert (Hp : (N.to_nat (n mod lenN l) < length l)%nat) by (unfold lenN in *; dlia).
  pose proof (sum_firstn_S l _ Hp) as E.
  destruct (divmod_succ n (lenN l) HL) as [(H1 & H2 & H3)|(H1 & H2 & H3)]; rewrite H2, H3.
  - replace (N.to_nat (n mod lenN l + 1)) with (S (N.to_nat (n mod lenN l))) by dlia. dlia.
  - rewrite firstn_all2 in E by (unfold lenN in *; dlia).
    cbn [N.to_nat firstn]. replace (sumN []) with 0 by reflexivity. dlia.
Qed.

(* ------------------------------------------------------------------ the trait methods *)


(* the cost of the job after the first [k] *)
Definition item (cm : CM) (k : N) : N := cost_of_jobs cm (k + 1) - cost_of_jobs cm k.

Lemma cost_step : forall cm, wf_cm cm -> forall n, cost_of_jobs cm n <= cost_of_jobs cm (n + 1).
Proof.
  intros [c|l|l|l] Hwf n.
  - cbn [cost_of_jobs]. rewrite N.mul_add_distr_l. lia.
  - rewrite mf_step by exact Hwf. lia.
  - destruct Hwf as [Hl Hnd]. cbn [cost_of_jobs]. rewrite wcurve_step by assumption. lia.
  - destruct Hwf as (Hl & Hnd & Hsa). destruct (N.lt_ge_cases (lenN l) 3) as [H|H].
    + rewrite !extrap_small by assumption. rewrite wcurve_step by assumption. lia.
    + rewrite extrap_step by assumption. lia.
Qed.

Theorem cost_mono : forall cm, wf_cm cm -> forall a b, a <= b -> cost_of_jobs cm a <= cost_of_jobs cm b.
Proof.
  intros cm Hwf a b Hab. replace b with (a + (b - a)) by lia.
  generalize (b - a). intros d. induction d as [|d IH] using N.peano_ind.
  - rewrite N.add_0_r. lia.
  - pose proof (cost_step cm Hwf (a + d)) as H.
    replace (a + N.succ d) with (a + d + 1) by lia. lia.
Qed.
Print Assumptions cost_mono.

Lemma job_costs_item : forall cm, wf_cm cm -> forall n, job_costs cm n = map (item cm) (rangeN 0 n).
Proof.
  intros [c|l|l|l] Hwf n; cbn [job_costs].
  - apply map_ext. intros k. unfold item. cbn [cost_of_jobs]. rewrite N.mul_add_distr_l. lia.
  - pose proof (lenN_pos l Hwf). destruct (N.eqb_spec (lenN l) 0) as [?|_]; [lia|].
    apply map_ext. intros k. unfold item. rewrite mf_step by exact Hwf. lia.
  - rewrite rangeN_shift, map_map. apply map_ext. intros k. unfold item. cbn [cost_of_jobs].
    now rewrite N.add_sub.
  - rewrite rangeN_shift, map_map. apply map_ext. intros k. unfold item. cbn [cost_of_jobs].
    now rewrite N.add_sub.
Qed.

Theorem job_costs_length : forall cm, wf_cm cm -> forall n, length (job_costs cm n) = N.to_nat n.
Proof. intros cm Hwf n. now rewrite job_costs_item, map_length, rangeN_length. Qed.
Print Assumptions job_costs_length.

(* cost_of_jobs n is the sum of the first n items of job_cost_iter *)
Theorem cost_sum_job_costs : forall cm, wf_cm cm -> forall n, sumN (job_costs cm n) = cost_of_jobs cm n.
Proof.
  intros cm Hwf n. rewrite job_costs_item by assumption.
  induction n as [|n IH] using N.peano_ind.
  - now rewrite cost_zero.
  - rewrite rangeN_succ, map_app, sumN_app, IH. cbn [map]. unfold sumN at 1. cbn [fold_right].
    unfold item. rewrite N.add_0_l. pose proof (cost_step cm Hwf n).
    replace (N.succ n) with (n + 1) by lia. lia.
Qed.
Print Assumptions cost_sum_job_costs.

Lemma In_job_costs : forall cm, wf_cm cm -> forall n c, In c (job_costs cm n) ->
  exists k, k < n /\ c = item cm k.
Proof.
  intros cm Hwf n c H. rewrite job_costs_item in H by assumption.
  apply in_map_iff in H. destruct H as (k & <- & Hk).
  apply In_rangeN in Hk. destruct Hk as (k' & -> & Hk'). exists k'. split; [assumption|].
  now rewrite N.add_0_l.
Qed.

Lemma curve_least_le_item : forall l, l <> [] -> nondecreasing l -> forall n k, k < n ->
  wcurve_least l n <= wcurve_cost l (k + 1) - wcurve_cost l k.
Proof.
  intros l Hl Hnd n k Hk. rewrite wcurve_step by assumption.
  pose proof (lenN_pos l Hl) as HL.
  pose proof (N.mod_lt k (lenN l) ltac:(dlia)) as Hy.
  pose proof (N.mod_le k (lenN l) ltac:(dlia)) as Hy'.
  pose proof (wcurve_least_le l n (N.to_nat (k mod lenN l))
                ltac:(unfold lenN in *; dlia) ltac:(dlia)). dlia.
Qed.

(* least_wcet n is no larger than any of these items *)
Theorem least_le_job_costs : forall cm, wf_cm cm -> forall n c, In c (job_costs cm n) -> least_wcet cm n <= c.
Proof.
  intros cm Hwf n c H. destruct (In_job_costs cm Hwf n c H) as (k & Hk & ->). clear H.
  unfold item. destruct cm as [c|l|l|l]; cbn [least_wcet].
  - destruct (N.ltb_spec 0 n); [|dlia]. cbn [cost_of_jobs]. rewrite N.mul_add_distr_l. dlia.
  - rewrite mf_step by exact Hwf. pose proof (lenN_pos l Hwf) as HL.
    pose proof (N.mod_lt k (lenN l) ltac:(dlia)) as Hy.
    pose proof (N.mod_le k (lenN l) ltac:(dlia)) as Hy'.
    assert (Hin : In (nthN l (N.to_nat (k mod lenN l))) (firstn (N.to_nat n) l)).
    { unfold nthN. rewrite <- (nth_firstn_lt l (N.to_nat n)) by dlia.
      apply nth_In. rewrite firstn_length. unfold lenN in *. dlia. }
    assert (Hne : firstn (N.to_nat n) l <> []) by (intros E; rewrite E in Hin; exact Hin).
    destruct (minN_or_spec 0 _ Hne) as [_ H2]. specialize (H2 _ Hin). dlia.
  - destruct Hwf as [Hl Hnd]. cbn [cost_of_jobs]. now apply curve_least_le_item.
  - destruct Hwf as (Hl & Hnd & Hsa). destruct (N.lt_ge_cases (lenN l) 3) as [HL|HL].
    + rewrite !extrap_small by assumption. now apply curve_least_le_item.
    + rewrite extrap_step by assumption.
      assert (Hlen : (3 <= length l)%nat) by (unfold lenN in HL; dlia).
      set (k' := (N.to_nat (k + 1) - length l)%nat).
      enough (wcurve_least l n <= inc (ext l k') (N.to_nat k)) by dlia.
      destruct (Nat.lt_ge_cases (N.to_nat k) (length l)) as [Hlt|Hge].
      * replace k' with 0%nat by (unfold k'; dlia). change (ext l 0) with l. apply wcurve_least_le; dlia.
      * apply ext_inc; try assumption; [dlia| |rewrite ext_length; unfold k'; dlia].
        intros j Hj. apply wcurve_least_le; dlia.
Qed.
Print Assumptions least_le_job_costs.

(* job_costs is prefix-closed: the first m items of the first n items *)
Theorem job_costs_prefix : forall cm, wf_cm cm -> forall m n, m <= n -> job_costs cm m = firstn (N.to_nat m) (job_costs cm n).
Proof.
  intros cm Hwf m n H. rewrite !job_costs_item by assumption.
  now rewrite firstn_map, <- rangeN_firstn.
Qed.
Print Assumptions job_costs_prefix.
