(* WcetTraceProofs.v — rest of property C14 "job-cost models bound every run of consecutive jobs":
   wcet::Curve::from_trace records, for every n up to min(max_n, trace length), exactly the maximum
   total cost of n consecutive jobs of the trace; the resulting curve (and every extrapolation of it,
   and the caching ExtrapolatingCurve over it) bounds EVERY run of consecutive jobs of the trace;
   extrapolation keeps the prefix and never raises a bound inside the extrapolated vector (but may
   raise one beyond it); the cache of ExtrapolatingCurve is invisible. *)
From Coq Require Import List NArith Arith Lia Bool.
From RTA.Model Require Import Base Wcet WellFormed Eval.
From RTA.Proofs Require Import WcetProofs.

(* total cost of the run of n consecutive jobs starting at position i of the trace *)
Definition run_cost (costs : list N) (i n : nat) : N := sumN (firstn n (skipn i costs)).

(* ------------------------------------------------------------------ sums and runs *)

Lemma sumN_nil : sumN [] = 0.
Proof. reflexivity. Qed.

Lemma sumN_cons : forall a l, sumN (a :: l) = a + sumN l.
Proof. reflexivity. Qed.

Lemma sumN_rev : forall l, sumN (rev l) = sumN l.
Proof.
  induction l as [|a l IH]; [reflexivity|].
  cbn [rev]. rewrite sumN_app, !sumN_cons, sumN_nil, IH. lia.
Qed.

Lemma sum_firstn_add : forall a b (X : list N),
  sumN (firstn (a + b) X) = sumN (firstn a X) + sumN (firstn b (skipn a X)).
Proof.
  induction a as [|a IH]; intros b X.
  - cbn [Nat.add firstn skipn]. rewrite sumN_nil. lia.
  - destruct X as [|x X].
    + rewrite skipn_nil, !firstn_nil, sumN_nil. lia.
    + cbn [Nat.add firstn skipn]. rewrite !sumN_cons, IH. lia.
Qed.

Lemma skipn_skipn' : forall b a (X : list N), skipn a (skipn b X) = skipn (b + a) X.
Proof.
  induction b as [|b IH]; intros a X; [reflexivity|].
  destruct X as [|x X]; [now rewrite !skipn_nil|]. cbn [Nat.add skipn]. apply IH.
Qed.

Lemma run_zero : forall l i, run_cost l i 0 = 0.
Proof. reflexivity. Qed.

(* a run of a + b jobs is a run of a jobs followed by a run of b jobs *)
Lemma run_split : forall l i a b, run_cost l i (a + b) = run_cost l i a + run_cost l (i + a) b.
Proof. intros. unfold run_cost. now rewrite sum_firstn_add, skipn_skipn'. Qed.

Lemma run_app_old : forall l c i n, (i + n <= length l)%nat -> run_cost (l ++ c) i n = run_cost l i n.
Proof.
  intros l c i n H. unfold run_cost. rewrite skipn_app, firstn_app, skipn_length.
  replace (n - (length l - i))%nat with 0%nat by lia. cbn [firstn]. now rewrite app_nil_r.
Qed.

Lemma run_suffix : forall l n, (n <= length l)%nat -> run_cost l (length l - n) n = sumN (firstn n (rev l)).
Proof.
  intros l n H. unfold run_cost. rewrite firstn_rev, sumN_rev.
  rewrite firstn_all2 by (rewrite skipn_length; lia). reflexivity.
Qed.

Lemma run_mono_r : forall l i n, run_cost l i n <= run_cost l i (S n).
Proof. intros. replace (S n) with (n + 1)%nat by lia. rewrite run_split. lia. Qed.

Lemma run_mono_l : forall l i n, run_cost l (S i) n <= run_cost l i (S n).
Proof.
  intros. change (S n) with (1 + n)%nat. rewrite run_split.
  replace (i + 1)%nat with (S i) by lia. lia.
Qed.

(* ------------------------------------------------------------------ the pieces of from_trace *)

Lemma prefix_sums_length : forall l acc, length (prefix_sums acc l) = length l.
Proof. induction l as [|a l IH]; intros acc; cbn [prefix_sums length]; [reflexivity|now rewrite IH]. Qed.

Lemma prefix_sums_nth : forall l acc j, (j < length l)%nat ->
  nthN (prefix_sums acc l) j = acc + sumN (firstn (S j) l).
Proof.
  unfold nthN. induction l as [|a l IH]; intros acc j H; cbn [length] in H; [lia|].
  cbn [prefix_sums]. destruct j as [|j].
  - cbn [nth firstn]. rewrite sumN_cons, sumN_nil. lia.
  - cbn [nth]. rewrite IH by lia.
    change (firstn (S (S j)) (a :: l)) with (a :: firstn (S j) l). rewrite sumN_cons. lia.
Qed.

Lemma upd_max_length : forall d t, length (upd_max d t) = Nat.max (length d) (length t).
Proof.
  induction d as [|x d IH]; intros [|g t]; cbn [upd_max length Nat.max]; try reflexivity.
  now rewrite IH.
Qed.

Lemma upd_max_nth : forall d t j, nthN (upd_max d t) j = N.max (nthN d j) (nthN t j).
Proof.
  unfold nthN. induction d as [|x d IH]; intros [|g t] j; cbn [upd_max].
  - destruct j; cbn [nth]; lia.
  - destruct j; cbn [nth]; lia.
  - destruct j; cbn [nth]; lia.
  - destruct j as [|j]; cbn [nth]; [reflexivity|apply IH].
Qed.

Lemma firstn_cons_firstn : forall k (c : N) X, firstn k (c :: firstn k X) = firstn k (c :: X).
Proof.
  intros [|k] c X; [reflexivity|]. rewrite !firstn_cons. f_equal.
  rewrite firstn_firstn. f_equal. lia.
Qed.

(* ------------------------------------------------------------------ the loop invariant of from_trace *)

(* entry n - 1 is exactly the maximum total cost of n consecutive jobs of [done] *)
Definition exact_upto (done cost_of : list N) : Prop :=
  forall n, (1 <= n)%nat -> (n <= length cost_of)%nat ->
    (forall i, (i + n <= length done)%nat -> run_cost done i n <= nthN cost_of (n - 1)) /\
    (exists i, (i + n <= length done)%nat /\ run_cost done i n = nthN cost_of (n - 1)).

Lemma go_step : forall k done cost_of c,
  length cost_of = Nat.min k (length done) -> exact_upto done cost_of ->
  let w := firstn k (rev (done ++ [c])) in
  let r := upd_max cost_of (prefix_sums 0 w) in
  length r = Nat.min k (length (done ++ [c])) /\ exact_upto (done ++ [c]) r.
Proof.
  intros k done cost_of c Hlen Hex w r.
  assert (Hd' : length (done ++ [c]) = S (length done)) by (rewrite app_length; cbn [length]; lia).
  assert (Hw : length w = Nat.min k (S (length done)))
    by (unfold w; rewrite firstn_length, rev_length, Hd'; reflexivity).
  assert (Hr : length r = Nat.min k (S (length done)))
    by (unfold r; rewrite upd_max_length, prefix_sums_length, Hw, Hlen; lia).
  split; [now rewrite Hd'|].
  intros n Hn1 Hn2. rewrite Hr in Hn2.
  (* the total of the n most recent jobs is the cost of the run that ends the trace *)
  set (s := run_cost (done ++ [c]) (length (done ++ [c]) - n) n).
  assert (Es : nthN (prefix_sums 0 w) (n - 1) = s).
  { rewrite prefix_sums_nth by lia. replace (S (n - 1)) with n by lia.
    unfold w. rewrite firstn_firstn. replace (Nat.min n k) with n by lia.
    unfold s. rewrite run_suffix by lia. lia. }
  assert (Er : nthN r (n - 1) = N.max (nthN cost_of (n - 1)) s)
    by (unfold r; now rewrite upd_max_nth, Es).
  rewrite Er. split.
  - intros i Hi. rewrite Hd' in Hi.
    destruct (Nat.le_gt_cases (i + n) (length done)) as [Hin|Hout].
    + rewrite run_app_old by assumption.
      destruct (Hex n Hn1 ltac:(lia)) as [Hup _]. specialize (Hup i Hin). lia.
    + replace i with (length (done ++ [c]) - n)%nat by lia. fold s. lia.
  - destruct (Nat.le_gt_cases n (length cost_of)) as [Hin|Hout].
    + destruct (Hex n Hn1 Hin) as [_ (i0 & Hi0 & Ei0)].
      destruct (N.le_gt_cases s (nthN cost_of (n - 1))) as [Hle|Hgt].
      * exists i0. split; [lia|]. rewrite run_app_old by assumption. lia.
      * exists (length (done ++ [c]) - n)%nat. split; [lia|]. fold s. lia.
    + exists (length (done ++ [c]) - n)%nat. split; [lia|]. fold s.
      unfold nthN at 1. rewrite nth_overflow by lia. lia.
Qed.

Lemma go_inv : forall k cs done cost_of,
  length cost_of = Nat.min k (length done) -> exact_upto done cost_of ->
  length (wfrom_trace_go k cost_of (firstn k (rev done)) cs) = Nat.min k (length (done ++ cs)) /\
  exact_upto (done ++ cs) (wfrom_trace_go k cost_of (firstn k (rev done)) cs).
Proof.
  intros k. induction cs as [|c cs IH]; intros done cost_of Hlen Hex.
  - cbn [wfrom_trace_go]. rewrite app_nil_r. now split.
  - cbn [wfrom_trace_go]. rewrite firstn_cons_firstn.
    replace (c :: rev done) with (rev (done ++ [c])) by (rewrite rev_app_distr; reflexivity).
    replace (done ++ c :: cs) with ((done ++ [c]) ++ cs) by (rewrite <- app_assoc; reflexivity).
    destruct (go_step k done cost_of c Hlen Hex) as [H1 H2].
    apply IH; assumption.
Qed.

Lemma from_trace_spec : forall costs k,
  length (wcurve_from_trace costs k) = Nat.min (N.to_nat k) (length costs) /\
  exact_upto costs (wcurve_from_trace costs k).
Proof.
  intros costs k. unfold wcurve_from_trace.
  assert (H0 : exact_upto [] []) by (intros n H1 H2; cbn [length] in H2; lia).
  pose proof (go_inv (N.to_nat k) costs [] [] ltac:(cbn [length]; lia) H0) as H.
  cbn [rev app] in H. rewrite firstn_nil in H. exact H.
Qed.

(* ------------------------------------------------------------------ from_trace: shape and exactness *)

Theorem from_trace_length : forall costs k,
  length (wcurve_from_trace costs k) = Nat.min (N.to_nat k) (length costs).
Proof. intros. apply from_trace_spec. Qed.
Print Assumptions from_trace_length.

Theorem from_trace_upper : forall costs k i n, (1 <= n)%nat -> (n <= N.to_nat k)%nat -> (i + n <= length costs)%nat ->
  run_cost costs i n <= nthN (wcurve_from_trace costs k) (n - 1).
Proof.
  intros costs k i n H1 H2 H3. destruct (from_trace_spec costs k) as [Hl Hex].
  destruct (Hex n H1 ltac:(lia)) as [Hup _]. now apply Hup.
Qed.
Print Assumptions from_trace_upper.

Theorem from_trace_attained : forall costs k n, (1 <= n)%nat -> (n <= N.to_nat k)%nat -> (n <= length costs)%nat ->
  exists i, (i + n <= length costs)%nat /\ run_cost costs i n = nthN (wcurve_from_trace costs k) (n - 1).
Proof.
  intros costs k n H1 H2 H3. destruct (from_trace_spec costs k) as [Hl Hex].
  destruct (Hex n H1 ltac:(lia)) as [_ Hat]. exact Hat.
Qed.
Print Assumptions from_trace_attained.

Theorem from_trace_wf : forall costs k, costs <> [] -> 1 <= k ->
  wf_cm (CurveCM (wcurve_from_trace costs k)) /\ subadditive (wcurve_from_trace costs k).
Proof.
  intros costs k Hne Hk. destruct (from_trace_spec costs k) as [Hl Hex].
  set (l := wcurve_from_trace costs k) in *.
  assert (Hc : (1 <= length costs)%nat) by (destruct costs; [congruence|cbn [length]; lia]).
  split; [split|].
  - intros E. rewrite E in Hl. cbn [length] in Hl. lia.
  - (* a run of n jobs extends to a run of n + 1 jobs on one of its two sides *)
    intros i Hi.
    destruct (Hex (S i) ltac:(lia) ltac:(lia)) as [_ (i0 & Hi0 & Ei0)].
    destruct (Hex (S (S i)) ltac:(lia) ltac:(lia)) as [Hup _].
    replace (S i - 1)%nat with i in Ei0 by lia. replace (S (S i) - 1)%nat with (S i) in Hup by lia.
    rewrite <- Ei0.
    destruct (Nat.le_gt_cases (i0 + S (S i)) (length costs)) as [Hin|Hout].
    + specialize (Hup i0 Hin). pose proof (run_mono_r costs i0 (S i)). lia.
    + destruct i0 as [|i0]; [lia|].
      specialize (Hup i0 ltac:(lia)). pose proof (run_mono_l costs i0 (S i)). lia.
  - (* a run of a + b jobs is a run of a jobs followed by a run of b jobs *)
    intros i j Hij.
    destruct (Hex (S (i + j + 1)) ltac:(lia) ltac:(lia)) as [_ (i0 & Hi0 & Ei0)].
    replace (S (i + j + 1) - 1)%nat with (i + j + 1)%nat in Ei0 by lia.
    rewrite <- Ei0. replace (S (i + j + 1)) with (S i + S j)%nat by lia. rewrite run_split.
    destruct (Hex (S i) ltac:(lia) ltac:(lia)) as [Hi' _].
    destruct (Hex (S j) ltac:(lia) ltac:(lia)) as [Hj' _].
    specialize (Hi' i0 ltac:(lia)). specialize (Hj' (i0 + S i)%nat ltac:(lia)).
    replace (S i - 1)%nat with i in Hi' by lia. replace (S j - 1)%nat with j in Hj' by lia. lia.
Qed.
Print Assumptions from_trace_wf.

(* ------------------------------------------------------------------ vectors that bound every run *)

(* entry n - 1 bounds every run of n jobs (as far as the vector reaches) *)
Definition bounds_runs (costs c : list N) : Prop :=
  forall i n, (1 <= n)%nat -> (n <= length c)%nat -> (i + n <= length costs)%nat ->
    run_cost costs i n <= nthN c (n - 1).

Lemma wg_nat : forall c y, wg c (N.of_nat y) = match y with O => 0 | S y' => nthN c y' end.
Proof.
  intros c [|y]; [reflexivity|]. unfold wg.
  destruct (N.ltb_spec 0 (N.of_nat (S y))) as [_|H]; [|lia]. f_equal. lia.
Qed.

Lemma divmod_nat : forall (L x y : nat), (y < L)%nat ->
  N.of_nat (x * L + y) / N.of_nat L = N.of_nat x /\ N.of_nat (x * L + y) mod N.of_nat L = N.of_nat y.
Proof.
  intros L x y H.
  assert (E : N.of_nat (x * L + y) = N.of_nat L * N.of_nat x + N.of_nat y) by lia.
  split; symmetry.
  - apply (N.div_unique _ _ _ (N.of_nat y)); [lia|exact E].
  - apply (N.mod_unique _ _ (N.of_nat x)); [lia|exact E].
Qed.

(* beyond the vector: a run of x * len + y jobs is x runs of len jobs and one of y jobs *)
Lemma bounds_runs_curve : forall costs c, c <> [] -> bounds_runs costs c ->
  forall i n, (i + n <= length costs)%nat -> run_cost costs i n <= wcurve_cost c (N.of_nat n).
Proof.
  intros costs c Hc Hb i n Hi.
  assert (HL : (1 <= length c)%nat) by (destruct c; [congruence|cbn [length]; lia]).
  set (L := length c) in *.
  assert (G : forall x y i, (y < L)%nat -> (i + (x * L + y) <= length costs)%nat ->
            run_cost costs i (x * L + y) <= nthN c (L - 1) * N.of_nat x + wg c (N.of_nat y)).
  { induction x as [|x IH]; intros y i0 Hy Hi0.
    - cbn [Nat.mul Nat.add]. rewrite wg_nat. destruct y as [|y]; [rewrite run_zero; lia|].
      pose proof (Hb i0 (S y) ltac:(lia) ltac:(fold L; lia) ltac:(lia)) as H.
      replace (S y - 1)%nat with y in H by lia. lia.
    - replace (S x * L + y)%nat with (L + (x * L + y))%nat by lia. rewrite run_split.
      pose proof (Hb i0 L ltac:(lia) ltac:(fold L; lia) ltac:(lia)) as H.
      specialize (IH y (i0 + L)%nat Hy ltac:(lia)).
      rewrite Nnat.Nat2N.inj_succ, N.mul_succ_r. lia. }
  rewrite wcurve_cost_alt by assumption. unfold lenN. fold L.
  pose proof (Nat.div_mod n L ltac:(lia)) as E.
  pose proof (Nat.mod_upper_bound n L ltac:(lia)) as Hy.
  set (x := (n / L)%nat) in *. set (y := (n mod L)%nat) in *.
  replace n with (x * L + y)%nat in * by lia.
  destruct (divmod_nat L x y Hy) as [-> ->]. apply G; assumption.
Qed.

(* every extension entry min_k (c[k] + c[n-k-1]) still bounds every run of n + 1 jobs *)
Lemma bounds_push : forall costs c, (1 <= length c)%nat -> bounds_runs costs c ->
  bounds_runs costs (wpush_next c).
Proof.
  intros costs c Hc Hb i n Hn1 Hn2 Hi. unfold wpush_next in *.
  rewrite app_length in Hn2. cbn [length] in Hn2.
  destruct (Nat.eq_dec n (S (length c))) as [->|Hne].
  - replace (S (length c) - 1)%nat with (length c) by lia. rewrite nthN_app_new.
    destruct (wnext_spec c Hc) as [(k & Hk1 & Hk2 & ->) _].
    replace (S (length c)) with (S k + (length c - k))%nat by lia. rewrite run_split.
    pose proof (Hb i (S k) ltac:(lia) ltac:(lia) ltac:(lia)) as H1.
    pose proof (Hb (i + S k)%nat (length c - k)%nat ltac:(lia) ltac:(lia) ltac:(lia)) as H2.
    replace (S k - 1)%nat with k in H1 by lia.
    replace (length c - k - 1)%nat with (length c - 1 - k)%nat in H2 by lia. lia.
  - rewrite nthN_app_old by lia. apply Hb; lia.
Qed.

Lemma bounds_ext : forall costs l, (1 <= length l)%nat -> bounds_runs costs l ->
  forall j, bounds_runs costs (ext l j).
Proof.
  intros costs l Hl Hb. induction j as [|j IH]; [exact Hb|].
  rewrite ext_S. apply bounds_push; [rewrite ext_length; lia|exact IH].
Qed.

Lemma from_trace_bounds_runs : forall costs k, bounds_runs costs (wcurve_from_trace costs k).
Proof.
  intros costs k i n H1 H2 H3. rewrite from_trace_length in H2. apply from_trace_upper; lia.
Qed.

Lemma from_trace_nil : forall costs k i n, 1 <= k -> (i + n <= length costs)%nat ->
  wcurve_from_trace costs k = [] -> run_cost costs i n = 0.
Proof.
  intros costs k i n Hk Hi E. pose proof (from_trace_length costs k) as Hl.
  rewrite E in Hl. cbn [length] in Hl. replace n with 0%nat by lia. apply run_zero.
Qed.

(* the central statement *)
Theorem from_trace_bounds_every_run : forall costs k i n, 1 <= k -> (i + n <= length costs)%nat ->
  run_cost costs i n <= wcurve_cost (wcurve_from_trace costs k) (N.of_nat n).
Proof.
  intros costs k i n Hk Hi.
  destruct (wcurve_from_trace costs k) as [|a l'] eqn:E.
  - rewrite (from_trace_nil costs k i n Hk Hi E). lia.
  - rewrite <- E. apply bounds_runs_curve; [congruence|apply from_trace_bounds_runs|exact Hi].
Qed.
Print Assumptions from_trace_bounds_every_run.

(* ------------------------------------------------------------------ extrapolation *)

Lemma wextrapolate_ext : forall l m, exists j, wextrapolate l m = ext l j.
Proof.
  intros l m. unfold wextrapolate. destruct (3 <=? lenN l).
  - eexists. reflexivity.
  - exists 0%nat. reflexivity.
Qed.

Lemma ext_app : forall l j, exists tl, ext l j = l ++ tl.
Proof.
  intros l. induction j as [|j [tl IH]].
  - exists []. cbn. now rewrite app_nil_r.
  - rewrite ext_S, IH. unfold wpush_next. eexists. rewrite <- app_assoc. reflexivity.
Qed.

Theorem wextrapolate_keeps_prefix : forall l m, exists tl, wextrapolate l m = l ++ tl.
Proof. intros l m. destruct (wextrapolate_ext l m) as [j ->]. apply ext_app. Qed.
Print Assumptions wextrapolate_keeps_prefix.

Lemma wcurve_cost_0 : forall l, wcurve_cost l 0 = 0.
Proof. intros. unfold wcurve_cost. now rewrite andb_false_r. Qed.

Lemma wcurve_cost_add_len : forall l n, l <> [] ->
  wcurve_cost l (n + lenN l) = nthN l (length l - 1) + wcurve_cost l n.
Proof.
  intros l n Hl. rewrite !wcurve_cost_alt by assumption.
  pose proof (lenN_pos l Hl) as HL.
  replace (n + lenN l) with (n + 1 * lenN l) by lia.
  rewrite N.div_add, N.mod_add by lia. dlia.
Qed.

(* Inside the extended vector no entry exceeds what the original curve answers by repetition.
   No hypothesis on [l] is needed: the new entry for n + 1 jobs is at most
   [c[len l - 1] + c[n - len l]] by construction. *)
Lemma ext_never_raises : forall l, l <> [] -> forall n j, (1 <= n)%nat -> (n <= length l + j)%nat ->
  nthN (ext l j) (n - 1) <= wcurve_cost l (N.of_nat n).
Proof.
  intros l Hl.
  assert (HL : (1 <= length l)%nat) by (destruct l; [congruence|cbn [length]; lia]).
  set (L := length l) in *.
  induction n as [n IH] using lt_wf_ind. intros j Hn1 Hn2.
  destruct (Nat.le_gt_cases n L) as [Hin|Hout].
  - rewrite (ext_nth_stable l 0 j (n - 1)) by (fold L; lia). change (ext l 0) with l.
    rewrite wcurve_cost_in by (unfold lenN; fold L; lia).
    replace (N.to_nat (N.of_nat n - 1)) with (n - 1)%nat by lia. lia.
  - (* entry n - 1 was pushed onto c = ext l (n - 1 - L), of length n - 1 *)
    rewrite (ext_nth_stable l (n - L) j (n - 1)) by (fold L; lia).
    replace (n - L)%nat with (S (n - 1 - L)) by lia. rewrite ext_S.
    set (c := ext l (n - 1 - L)).
    assert (Hc : length c = (n - 1)%nat) by (unfold c; rewrite ext_length; fold L; lia).
    unfold wpush_next. rewrite <- Hc, nthN_app_new.
    destruct (wnext_spec c ltac:(lia)) as [_ Hmin].
    assert (Hb : wextrapolate_next c <= nthN c (L - 1) + nthN c (n - 1 - L)).
    { destruct (Nat.le_gt_cases (2 * (L - 1)) (n - 1)) as [H|H].
      - specialize (Hmin (L - 1)%nat ltac:(lia) ltac:(lia)).
        replace (length c - 1 - (L - 1))%nat with (n - 1 - L)%nat in Hmin by lia. exact Hmin.
      - specialize (Hmin (n - 1 - L)%nat ltac:(lia) ltac:(lia)).
        replace (length c - 1 - (n - 1 - L))%nat with (L - 1)%nat in Hmin by lia. lia. }
    assert (E1 : nthN c (L - 1) = nthN l (L - 1)).
    { unfold c. rewrite (ext_nth_stable l 0 _ (L - 1)) by (fold L; lia). reflexivity. }
    pose proof (IH (n - L)%nat ltac:(lia) (n - 1 - L)%nat ltac:(lia) ltac:(fold L; lia)) as E2.
    fold c in E2. replace (n - L - 1)%nat with (n - 1 - L)%nat in E2 by lia.
    replace (N.of_nat n) with (N.of_nat (n - L) + lenN l) by (unfold lenN; fold L; lia).
    rewrite wcurve_cost_add_len by assumption. fold L. lia.
Qed.

(* the general form: no hypothesis on the prefix at all *)
Lemma wextrapolate_never_raises_gen : forall l m n,
  n <= lenN (wextrapolate l m) -> wcurve_cost (wextrapolate l m) n <= wcurve_cost l n.
Proof.
  intros l m n Hn. destruct (N.eq_dec n 0) as [->|Hn0]; [rewrite !wcurve_cost_0; lia|].
  destruct l as [|a l']; [change (wextrapolate [] m) with (@nil N); lia|].
  destruct (wextrapolate_ext (a :: l') m) as [j E]. rewrite E in *.
  unfold lenN in Hn. rewrite ext_length in Hn.
  rewrite wcurve_cost_in by (unfold lenN; rewrite ?ext_length; lia).
  pose proof (ext_never_raises (a :: l') ltac:(congruence) (N.to_nat n) j ltac:(lia) ltac:(lia)) as H.
  replace (N.to_nat n - 1)%nat with (N.to_nat (n - 1)) in H by lia.
  now rewrite Nnat.N2Nat.id in H.
Qed.

Theorem wextrapolate_never_raises : forall l m n, l <> [] -> nondecreasing l -> subadditive l ->
  n <= lenN (wextrapolate l m) -> wcurve_cost (wextrapolate l m) n <= wcurve_cost l n.
Proof. intros l m n _ _ _. apply wextrapolate_never_raises_gen. Qed.
Print Assumptions wextrapolate_never_raises.

(* The bound [n <= lenN (wextrapolate l m)] is needed: beyond the extended vector the two curves
   repeat different blocks and the extrapolated one can be LARGER.  [1; 2; 2] is the curve of the
   trace [1; 1; 0]; extrapolate(5) gives [1; 2; 2; 3], which answers 5 for 6 jobs instead of 4. *)
Theorem wextrapolate_never_raises_beyond_refuted :
  exists costs k m n, let l := wcurve_from_trace costs k in
    l <> [] /\ nondecreasing l /\ subadditive l /\ lenN (wextrapolate l m) < n /\
    wcurve_cost l n < wcurve_cost (wextrapolate l m) n.
Proof.
  exists [1; 1; 0], 3, 5, 6.
  destruct (from_trace_wf [1; 1; 0] 3 ltac:(congruence) ltac:(lia)) as [[H1 H2] H3].
  cbv zeta. repeat split; try assumption; vm_compute; reflexivity.
Qed.
Print Assumptions wextrapolate_never_raises_beyond_refuted.

Theorem wextrapolate_bounds_every_run : forall costs k m i n, 1 <= k -> (i + n <= length costs)%nat ->
  run_cost costs i n <= wcurve_cost (wextrapolate (wcurve_from_trace costs k) m) (N.of_nat n).
Proof.
  intros costs k m i n Hk Hi.
  destruct (wextrapolate_ext (wcurve_from_trace costs k) m) as [j ->].
  destruct (wcurve_from_trace costs k) as [|a l'] eqn:E.
  - rewrite (from_trace_nil costs k i n Hk Hi E). lia.
  - rewrite <- E.
    assert (Hl : (1 <= length (wcurve_from_trace costs k))%nat) by (rewrite E; cbn [length]; lia).
    apply bounds_runs_curve.
    + intros E'. pose proof (ext_length (wcurve_from_trace costs k) j) as H.
      rewrite E' in H. cbn [length] in H. lia.
    + apply bounds_ext; [exact Hl|apply from_trace_bounds_runs].
    + exact Hi.
Qed.
Print Assumptions wextrapolate_bounds_every_run.

Theorem extrapolating_curve_bounds_every_run : forall costs k i n, 1 <= k -> (i + n <= length costs)%nat ->
  run_cost costs i n <= cost_of_jobs (ExtrapCM (wcurve_from_trace costs k)) (N.of_nat n).
Proof.
  intros costs k i n Hk Hi. cbn [cost_of_jobs]. unfold wcache_cost. cbn [snd].
  now apply wextrapolate_bounds_every_run.
Qed.
Print Assumptions extrapolating_curve_bounds_every_run.

(* ------------------------------------------------------------------ the cache is invisible *)

Definition fresh_answers (l : list N) (op : cop) : list N :=
  match op with
  | CClone _ => []
  | CCost _ n => [cost_of_jobs (ExtrapCM l) n]
  | CLeast _ n => [least_wcet (ExtrapCM l) n]
  | CJc _ n => job_costs (ExtrapCM l) n
  end.

(* the states of the cache of an ExtrapolatingCurve over [l] *)
Definition cache (l c : list N) : Prop :=
  (lenN l < 3 /\ c = l) \/ (3 <= lenN l /\ exists j, c = ext l j).

Lemma ext_ext : forall l j k, ext (ext l j) k = ext l (k + j).
Proof.
  intros l j. induction k as [|k IH]; [reflexivity|].
  cbn [Nat.add]. rewrite !ext_S. now rewrite IH.
Qed.

Lemma cache_init : forall l, cache l l.
Proof.
  intros l. destruct (N.lt_ge_cases (lenN l) 3) as [H|H]; [left; now split|].
  right. split; [assumption|]. exists 0%nat. reflexivity.
Qed.

Lemma cache_extrapolate : forall l c m, cache l c -> cache l (wextrapolate c m).
Proof.
  intros l c m [[H ->]|[H [j ->]]].
  - left. split; [assumption|]. unfold wextrapolate. destruct (N.leb_spec 3 (lenN l)); [lia|reflexivity].
  - right. split; [assumption|]. destruct (wextrapolate_ext (ext l j) m) as [j' ->].
    rewrite ext_ext. eexists. reflexivity.
Qed.

(* every lookup inside a long enough cache is the answer of a fresh ExtrapolatingCurve *)
Lemma cache_cost : forall l c m i, cache l c -> i + 1 <= m ->
  wcurve_cost (wextrapolate c m) i = cost_of_jobs (ExtrapCM l) i.
Proof.
  intros l c m i Hc Him. destruct Hc as [[H ->]|[H [j ->]]].
  - rewrite extrap_small by assumption. unfold wextrapolate.
    destruct (N.leb_spec 3 (lenN l)); [lia|reflexivity].
  - destruct (N.eq_dec i 0) as [->|Hi0]; [now rewrite wcurve_cost_0, cost_zero|].
    unfold wextrapolate. unfold lenN in *. rewrite ext_length.
    destruct (N.leb_spec 3 (N.of_nat (length l + j))) as [_|?]; [|lia].
    fold (ext (ext l j) (N.to_nat (m - 1 - N.of_nat (length l + j)))). rewrite ext_ext.
    set (j' := (N.to_nat (m - 1 - N.of_nat (length l + j)) + j)%nat).
    rewrite wcurve_cost_in by (unfold lenN; rewrite ?ext_length; unfold j'; lia).
    rewrite extrap_cost by (unfold lenN; lia).
    replace (N.to_nat (i - 1)) with (N.to_nat i - 1)%nat by lia.
    apply ext_nth_stable; unfold j'; lia.
Qed.

(* wcurve_least is attained by one of the increments it looks at *)
Lemma wcurve_least_attained : forall l n, l <> [] -> 0 < n ->
  exists j, (j < length l)%nat /\ (j < N.to_nat n)%nat /\ wcurve_least l n = inc l j.
Proof.
  intros l n Hl Hn. unfold wcurve_least.
  destruct (N.ltb_spec 0 n) as [_|?]; [|lia].
  assert (HL : (1 <= length l)%nat) by (destruct l; [congruence|cbn [length]; lia]).
  set (b := Nat.min (length l) (N.to_nat n)).
  set (g := fun i : nat => nthN l i - nthN l (i - 1)).
  assert (G : forall s a, (forall i, In i s -> (1 <= i < b)%nat) ->
            (exists j, (j < b)%nat /\ a = inc l j) ->
            exists j, (j < b)%nat /\ fold_left (fun least i => N.min least (g i)) s a = inc l j).
  { induction s as [|i s IH]; intros a Hs Ha; cbn [fold_left]; [exact Ha|].
    apply IH; [intros i' Hi'; apply Hs; now right|].
    destruct Ha as (j & Hj & ->).
    destruct (N.min_spec (inc l j) (g i)) as [[_ ->]|[_ ->]]; [now exists j|].
    exists i. split; [apply (Hs i); now left|].
    pose proof (Hs i ltac:(now left)) as Hi. unfold g.
    destruct i as [|i]; [lia|]. cbn [inc]. now replace (S i - 1)%nat with i by lia. }
  destruct (G (seq 1 (b - 1)) (nthN l 0)) as (j & Hj & E).
  - intros i Hi. apply in_seq in Hi. lia.
  - exists 0%nat. split; [unfold b; lia|reflexivity].
  - exists j. unfold b in Hj. split; [lia|]. split; [lia|exact E].
Qed.

Lemma ext_inc_old : forall l k j, (j < length l)%nat -> inc (ext l k) j = inc l j.
Proof.
  intros l k j Hj. destruct j as [|j]; cbn [inc];
    rewrite !(ext_nth_stable l 0 k) by lia; reflexivity.
Qed.

(* least_wcet on an extended cache: every increment the cache exposes beyond the prefix is at least
   the least increment of the prefix *)
Lemma cache_least : forall l c n, wf_cm (ExtrapCM l) -> cache l c -> wcurve_least c n = wcurve_least l n.
Proof.
  intros l c n (Hl & Hnd & Hsa) [[_ ->]|[H3 [k ->]]]; [reflexivity|].
  destruct (N.eq_dec n 0) as [->|Hn0]; [reflexivity|].
  assert (HL : (1 <= length l)%nat) by (destruct l; [congruence|cbn [length]; lia]).
  assert (Hne : ext l k <> []).
  { intros E. pose proof (ext_length l k) as H. rewrite E in H. cbn [length] in H. lia. }
  apply N.le_antisymm.
  - destruct (wcurve_least_attained l n Hl ltac:(lia)) as (j & Hj1 & Hj2 & ->).
    rewrite <- (ext_inc_old l k j Hj1). apply wcurve_least_le; [rewrite ext_length; lia|assumption].
  - destruct (wcurve_least_attained (ext l k) n Hne ltac:(lia)) as (j & Hj1 & Hj2 & ->).
    destruct (Nat.lt_ge_cases j (length l)) as [Hin|Hout].
    + rewrite ext_inc_old by assumption. now apply wcurve_least_le.
    + apply ext_inc; try assumption. intros j' Hj'. apply wcurve_least_le; lia.
Qed.

Lemma chist_go_invisible : forall l, wf_cm (ExtrapCM l) -> forall ops c, cache l c ->
  chist_go c ops = flat_map (fresh_answers l) ops.
Proof.
  intros l Hwf. induction ops as [|op ops IH]; intros c Hc; [reflexivity|].
  destruct op as [k|k n|k n|k n]; cbn [chist_go flat_map fresh_answers app].
  - now apply IH.
  - unfold wcache_cost. f_equal.
    + apply cache_cost; [assumption|lia].
    + apply IH. now apply cache_extrapolate.
  - cbn [least_wcet]. f_equal; [now apply cache_least|now apply IH].
  - f_equal.
    + cbn [job_costs]. apply map_ext_in. intros i Hi.
      apply In_rangeN in Hi. destruct Hi as (d & -> & Hd).
      unfold wcache_cost. cbn [snd].
      rewrite !(cache_cost l c (n + 1)) by (assumption || lia). reflexivity.
    + apply IH. now apply cache_extrapolate.
Qed.

(* the caching variant answers every query exactly like a fresh one, regardless of the query history *)
Theorem chist_invisible : forall l ops, wf_cm (ExtrapCM l) -> chist l ops = flat_map (fresh_answers l) ops.
Proof. intros l ops Hwf. unfold chist. apply chist_go_invisible; [assumption|apply cache_init]. Qed.
Print Assumptions chist_invisible.

(* [wf_cm] is needed (only for the CLeast queries): on the non-sub-additive prefix [5; 6; 20] the
   cache exposes the "increment" 12 - 20 (truncated to 0) after a query for 10 jobs *)
Theorem chist_invisible_needs_subadditive :
  exists l ops, l <> [] /\ nondecreasing l /\ chist l ops <> flat_map (fresh_answers l) ops.
Proof.
  exists [5; 6; 20], [CCost 0 10; CLeast 0 10]. split; [congruence|]. split.
  - intros i Hi. cbn [length] in Hi. destruct i as [|[|i]]; [vm_compute; congruence..|lia].
  - vm_compute. congruence.
Qed.
Print Assumptions chist_invisible_needs_subadditive.
