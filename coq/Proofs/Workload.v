(* Workload.v — from the task-level model (Spec/TaskModel.v: arrival curves and WCETs) to the
   schedule-level workload bounds used by the busy-window arguments (FifoSound.v, Jlfp.v):
   the cost of the jobs released in any window [t1, t1 + d) is bounded by the request-bound
   functions of the tasks.  Shared by the FIFO, FP and EDF end-to-end soundness proofs.

   1. finite sums over job indices vs. sums over the job list: [sumn_shift], [sumn_nth],
      [sumn_scale], [sumn_pick], [sumn_ofnat_sumN];
   2. counting: [count_perm], [count_arrivals_of], [task_count_eq];
   3. [task_jobs_in_window_bounded], [task_workload_bounded], [workP_split_tasks],
      [total_workload_bounded]. *)
From Coq Require Import Arith NArith List Lia Bool Permutation.
From RTA.Model Require Import Base Arrival WellFormed.
From RTA.Spec Require Import Sched Events TaskModel.
From RTA.Proofs Require Import ArrivalNaProofs.
Import ListNotations.
Local Close Scope N_scope. Local Open Scope nat_scope.

(* ------------------------------------------------------------------------------------------ *)
(* 1. finite sums                                                                              *)
(* ------------------------------------------------------------------------------------------ *)
Lemma sumn_shift : forall n f, sumn (S n) f = f 0 + sumn n (fun k => f (S k)).
Proof.
  induction n as [|n IH]; intros f; [simpl; lia|].
  change (sumn (S (S n)) f) with (sumn (S n) f + f (S n)). rewrite IH. simpl. lia.
Qed.

Lemma sumn_nth : forall {A} (l : list A) (dflt : A) (f : A -> nat),
  sumn (length l) (fun k => f (nth k l dflt)) = list_sum (map f l).
Proof.
  intros A l dflt f. induction l as [|x l IH]; [reflexivity|].
  cbn [length]. rewrite sumn_shift. cbn [nth map list_sum fold_right].
  unfold list_sum in IH. rewrite IH. reflexivity.
Qed.

Lemma sumn_scale : forall n (P : nat -> bool) C,
  sumn n (fun k => if P k then C else 0) = C * sumn n (fun k => if P k then 1 else 0).
Proof.
  intros n P C. induction n as [|n IH]; simpl; [lia|]. rewrite IH. destruct (P n); lia.
Qed.

(* a sum with exactly one non-zero term *)
Lemma sumn_pick : forall m a c, a < m -> sumn m (fun i => if a =? i then c else 0) = c.
Proof.
  induction m as [|m IH]; intros a c Ha; [lia|]. simpl.
  destruct (Nat.eqb_spec a m) as [->|Hne].
  - rewrite sumn_const0; [lia|]. intros i Hi. destruct (Nat.eqb_spec m i); [lia|reflexivity].
  - rewrite IH; lia.
Qed.

(* a nat sum over indices against an N sum over the list *)
Lemma sumn_ofnat_sumN : forall {A} (l : list A) (dflt : A) (g : A -> N) (f : nat -> nat),
  (forall i, i < length l -> (N.of_nat (f i) <= g (nth i l dflt))%N) ->
  (N.of_nat (sumn (length l) f) <= sumN (map g l))%N.
Proof.
  intros A l dflt g. induction l as [|x l IH]; intros f H; [simpl; lia|].
  cbn [length]. rewrite sumn_shift. cbn [map sumN fold_right].
  rewrite Nnat.Nat2N.inj_add.
  assert (H0 := H 0 ltac:(cbn [length]; lia)). cbn [nth] in H0.
  assert (H1 : (N.of_nat (sumn (length l) (fun k => f (S k))) <= sumN (map g l))%N).
  { apply IH. intros i Hi. apply (H (S i)). cbn [length]. lia. }
  unfold sumN in H1. lia.
Qed.

(* ------------------------------------------------------------------------------------------ *)
(* 2. counting                                                                                 *)
(* ------------------------------------------------------------------------------------------ *)
Lemma count_perm : forall es es' t d, Permutation es es' -> count es t d = count es' t d.
Proof.
  intros es es' t d H. unfold count.
  induction H as [|x l l' _ IH|x y l|l l' l'' _ IH1 _ IH2]; cbn [filter].
  - reflexivity.
  - destruct (in_window t d x); cbn [length]; rewrite IH; reflexivity.
  - destruct (in_window t d x), (in_window t d y); reflexivity.
  - rewrite IH1. exact IH2.
Qed.

Lemma count_arrivals_of : forall jobs i t1 d,
  count (arrivals_of jobs i) t1 d =
  list_sum (map (fun j => if (j_task j =? i) && in_window t1 d (j_arr j) then 1 else 0) jobs).
Proof.
  intros jobs i t1 d. unfold count, arrivals_of.
  induction jobs as [|j jobs IH]; [reflexivity|].
  cbn [filter map list_sum fold_right]. unfold list_sum in IH. rewrite <- IH.
  destruct (j_task j =? i); cbn [andb map filter]; [|reflexivity].
  destruct (in_window t1 d (j_arr j)); reflexivity.
Qed.

(* jobs of task i released in the window [t1, t1 + d) *)
Definition task_in_win (jobs : list job) (i t1 d : nat) (k : nat) : bool :=
  (j_task (nth k jobs (mkJob 0 0 0)) =? i) && (t1 <=? arr jobs k) && (arr jobs k <? t1 + d).

Lemma task_count_eq : forall jobs i t1 d,
  sumn (length jobs) (fun k => if task_in_win jobs i t1 d k then 1 else 0)
  = count (arrivals_of jobs i) t1 d.
Proof.
  intros jobs i t1 d. rewrite count_arrivals_of.
  rewrite <- (sumn_nth jobs (mkJob 0 0 0)).
  apply sumn_ext. intros k _. unfold task_in_win, arr, in_window. rewrite andb_assoc. reflexivity.
Qed.

(* ------------------------------------------------------------------------------------------ *)
(* 3. workload bounds                                                                          *)
(* ------------------------------------------------------------------------------------------ *)

(* the number of such jobs is bounded by the task's arrival curve ... *)
Theorem task_jobs_in_window_bounded : forall tasks jobs i t1 d,
  i < length tasks -> wf_ab (fst (nth i tasks (Never, 0%N))) -> respects_curves tasks jobs ->
  (N.of_nat (sumn (length jobs) (fun k => if task_in_win jobs i t1 d k then 1%nat else 0%nat))
   <= na (fst (nth i tasks (Never, 0%N))) (N.of_nat d))%N.
Proof.
  intros tasks jobs i t1 d Hi Hwf Hc.
  destruct (Hc i Hi) as (es & Hperm & Hadm).
  rewrite task_count_eq, <- (count_perm _ _ t1 d Hperm).
  apply na_bounds_admissible; assumption.
Qed.

(* ... hence their total cost by WCET * arrivals (the task's RBF) *)
Theorem task_workload_bounded : forall tasks jobs i t1 d,
  i < length tasks -> wf_ab (fst (nth i tasks (Never, 0%N))) ->
  respects_curves tasks jobs -> respects_costs tasks jobs ->
  (N.of_nat (workP jobs (task_in_win jobs i t1 d))
   <= snd (nth i tasks (Never, 0%N)) * na (fst (nth i tasks (Never, 0%N))) (N.of_nat d))%N.
Proof.
  intros tasks jobs i t1 d Hi Hwf Hc Hcost.
  assert (Hcnt := task_jobs_in_window_bounded tasks jobs i t1 d Hi Hwf Hc).
  set (C := snd (nth i tasks (Never, 0%N))) in *.
  set (cnt := sumn (length jobs) (fun k => if task_in_win jobs i t1 d k then 1 else 0)) in *.
  assert (Hw : workP jobs (task_in_win jobs i t1 d) <= N.to_nat C * cnt).
  { unfold workP, cnt. rewrite <- sumn_scale. apply sumn_le. intros k Hk.
    destruct (task_in_win jobs i t1 d k) eqn:E; [|lia].
    unfold task_in_win in E. apply andb_true_iff in E. destruct E as [E _].
    apply andb_true_iff in E. destruct E as [E _]. apply Nat.eqb_eq in E.
    destruct (Hcost (nth k jobs (mkJob 0 0 0)) (nth_In _ _ Hk)) as (_ & _ & Hle).
    rewrite E in Hle. unfold cost, C. exact Hle. }
  apply N.le_trans with (N.of_nat (N.to_nat C * cnt)); [lia|].
  rewrite Nnat.Nat2N.inj_mul, Nnat.N2Nat.id.
  apply N.mul_le_mono_l. exact Hcnt.
Qed.

(* every job belongs to exactly one task: the window workload splits by task *)
Lemma workP_split_tasks : forall tasks jobs t1 d, respects_costs tasks jobs ->
  workP jobs (fun k => (t1 <=? arr jobs k) && (arr jobs k <? t1 + d))
  = sumn (length tasks) (fun i => workP jobs (task_in_win jobs i t1 d)).
Proof.
  intros tasks jobs t1 d Hcost. unfold workP. rewrite sumn_exch.
  apply sumn_ext. intros k Hk.
  destruct (Hcost (nth k jobs (mkJob 0 0 0)) (nth_In _ _ Hk)) as (Ht & _ & _).
  unfold task_in_win.
  destruct ((t1 <=? arr jobs k) && (arr jobs k <? t1 + d)) eqn:E.
  - rewrite <- (sumn_pick (length tasks) (j_task (nth k jobs (mkJob 0 0 0))) (cost jobs k) Ht) at 1.
    apply sumn_ext. intros i _. rewrite <- andb_assoc, E, andb_true_r. reflexivity.
  - symmetry. apply sumn_const0. intros i _. rewrite <- andb_assoc, E, andb_false_r. reflexivity.
Qed.

(* the total workload released in a window is bounded by the sum of the RBFs *)
Theorem total_workload_bounded : forall tasks jobs t1 d,
  (forall i, i < length tasks -> wf_ab (fst (nth i tasks (Never, 0%N)))) ->
  respects_curves tasks jobs -> respects_costs tasks jobs ->
  (N.of_nat (workP jobs (fun k => ((t1 <=? arr jobs k) && (arr jobs k <? t1 + d))%nat))
   <= sumN (map (fun tk => snd tk * na (fst tk) (N.of_nat d)) tasks))%N.
Proof.
  intros tasks jobs t1 d Hwf Hc Hcost.
  rewrite (workP_split_tasks tasks jobs t1 d Hcost).
  apply (sumn_ofnat_sumN tasks (Never, 0%N) (fun tk => (snd tk * na (fst tk) (N.of_nat d))%N)).
  intros i Hi. apply task_workload_bounded; auto.
Qed.

Print Assumptions task_jobs_in_window_bounded.
Print Assumptions task_workload_bounded.
Print Assumptions total_workload_bounded.
