(* C01 — Fixed-priority RTAs are safe for every legal schedule.  Statements only.
   Setting (Spec/Sched.v, TaskModel.v, Policies.v): a finite job set whose releases are admissible for
   the tasks' arrival models and whose costs lie in [1, WCET]; a valid, work-conserving schedule that is
   LEGAL for the fixed-priority policy fp_hp and the preemption points pp (a job is preempted only at its
   preemption points; every scheduling decision picks a job that no pending job strictly precedes). *)
From Coq Require Import Arith NArith List Lia Bool.
From RTA.Model Require Import Base Arrival Wcet Demand Analyses Eval WellFormed.
From RTA.Spec Require Import Sched Events TaskModel Policies.
From RTA.Proofs Require Import FpSound.
From RTA.Proofs Require Import GeneralCosts.

Definition job_of (jobs : list job) (k i : nat) : Prop := j_task (nth k jobs (mkJob 0 0 0)) = i.
Definition lower_priority_job (jobs : list job) (prio : nat -> nat) (k i : nat) : Prop :=
  (prio i < prio (j_task (nth k jobs (mkJob 0 0 0))))%nat.
Definition fp_setting (tasks : list task) (i : nat) (prio : nat -> nat) jobs sched pp : Prop :=
  (i < length tasks)%nat /\
  Forall (fun tk => wf_ab (fst tk) /\ steps_exact_class (fst tk) /\ 1 <= snd tk) tasks /\
  (forall a b, (a < length tasks)%nat -> (b < length tasks)%nat -> prio a = prio b -> a = b) /\
  valid jobs sched /\ work_conserving jobs sched /\ respects_curves tasks jobs /\ respects_costs tasks jobs /\
  pp_sane jobs pp /\ legal jobs sched (fp_hp jobs prio) pp.

(* fully preemptive *)
Theorem C01_fully_preemptive_sound : forall tasks i prio jobs sched pp dbg limit R,
  fp_setting tasks i prio jobs sched pp -> fully_preemptive pp ->
  e_fp_fp dbg (RBF (ab_i tasks i) (Scalar (C tasks i))) (hp_rbs tasks i prio) limit = ROk R ->
  forall k, (k < length jobs)%nat -> job_of jobs k i -> completes_within jobs sched k (N.to_nat R).
Proof.
  intros tasks i prio jobs sched pp dbg limit R (H1 & H2 & H3 & H4 & H5 & H6 & H7 & H8 & H9) Hp He.
  exact (fp_fully_preemptive_sound tasks i prio H1 H2 H3 jobs sched pp H4 H5 H6 H7 H8 H9 dbg limit R Hp He).
Qed.
(* fully non-preemptive: blocking bound B >= (cost of any lower-priority job) - 1 *)
Theorem C01_fully_nonpreemptive_sound : forall tasks i prio jobs sched pp dbg B limit R,
  fp_setting tasks i prio jobs sched pp -> fully_nonpreemptive jobs pp ->
  (forall k, (k < length jobs)%nat -> lower_priority_job jobs prio k i -> (cost jobs k <= N.to_nat B + 1)%nat) ->
  e_fp_np dbg (ab_i tasks i) (C tasks i) B (hp_rbs tasks i prio) limit = ROk R ->
  forall k, (k < length jobs)%nat -> job_of jobs k i -> completes_within jobs sched k (N.to_nat R).
Proof.
  intros tasks i prio jobs sched pp dbg B limit R (H1 & H2 & H3 & H4 & H5 & H6 & H7 & H8 & H9) Hp Hb He.
  exact (fp_fully_nonpreemptive_sound tasks i prio H1 H2 H3 jobs sched pp H4 H5 H6 H7 H8 H9 dbg B limit R Hp Hb He).
Qed.
(* limited-preemptive (fixed preemption points): every non-preemptive segment of a lower-priority job is at most
   B + 1 long; the last segment of every job of the analysed task begins after at most C - last units of service *)
Theorem C01_limited_preemptive_sound : forall tasks i prio jobs sched pp dbg B last limit R,
  fp_setting tasks i prio jobs sched pp -> 1 <= last /\ last <= C tasks i ->
  (forall k, (k < length jobs)%nat -> lower_priority_job jobs prio k i -> segments_le jobs pp k (N.to_nat B + 1)) ->
  (forall k, (k < length jobs)%nat -> job_of jobs k i -> last_segment_starts_by jobs pp k (N.to_nat (C tasks i - last))) ->
  e_fp_lp dbg (ab_i tasks i) (C tasks i) last B (hp_rbs tasks i prio) limit = ROk R ->
  forall k, (k < length jobs)%nat -> job_of jobs k i -> completes_within jobs sched k (N.to_nat R).
Proof.
  intros tasks i prio jobs sched pp dbg B last limit R (H1 & H2 & H3 & H4 & H5 & H6 & H7 & H8 & H9) Hl Hs Ht He.
  exact (fp_limited_preemptive_sound tasks i prio H1 H2 H3 jobs sched pp H4 H5 H6 H7 H8 H9 dbg B last limit R Hl Hs Ht He).
Qed.
(* floating non-preemptive regions: only the lower-priority segments are bounded *)
Theorem C01_floating_nonpreemptive_sound : forall tasks i prio jobs sched pp dbg B limit R,
  fp_setting tasks i prio jobs sched pp ->
  (forall k, (k < length jobs)%nat -> lower_priority_job jobs prio k i -> segments_le jobs pp k (N.to_nat B + 1)) ->
  e_fp_fnp dbg (RBF (ab_i tasks i) (Scalar (C tasks i))) B (hp_rbs tasks i prio) limit = ROk R ->
  forall k, (k < length jobs)%nat -> job_of jobs k i -> completes_within jobs sched k (N.to_nat R).
Proof.
  intros tasks i prio jobs sched pp dbg B limit R (H1 & H2 & H3 & H4 & H5 & H6 & H7 & H8 & H9) Hs He.
  exact (fp_floating_nonpreemptive_sound tasks i prio H1 H2 H3 jobs sched pp H4 H5 H6 H7 H8 H9 dbg B limit R Hs He).
Qed.

(* ---- GENERAL JOB-COST MODELS (Proofs/GeneralCosts.v).  gtask = arrival bound * cost model (Scalar | Multiframe | cost curve |
        extrapolating cost curve); respects_cost_models: every job costs at least 1 and, in some release-ordered enumeration of a
        task's jobs, every block of m consecutive jobs costs at most cost_of_jobs(m) -- what JobCostModel::cost_of_jobs promises
        (for trace-derived curves C14 proves it; for Multiframe it is an obligation on the frame vector, see
        multiframe_first_frames_refuted).  The scalar theorems above are corollaries (scalar_respects_cost_models). ---- *)
(* statements: Proofs/GeneralCosts.v (same shape as the scalar theorems with gtask / grb_of / respects_cost_models); the analysed task
   may have any cost model in the fully preemptive and floating non-preemptive analyses, a scalar WCET (as the entry points demand) in the
   fully non-preemptive and limited-preemptive ones; interfering tasks are general everywhere *)
Definition C01_fully_preemptive_sound_general_costs := fp_fp_sound_gen.
Definition C01_floating_nonpreemptive_sound_general_costs := fp_fnp_sound_gen.
Definition C01_fully_nonpreemptive_sound_general_interferers := fp_np_sound_gen.
Definition C01_limited_preemptive_sound_general_interferers := fp_lp_sound_gen.
Definition C01_general_costs_nonvacuous := gx_fp_completes.
