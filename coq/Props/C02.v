(* C02 — EDF RTAs are safe for every legal schedule.  Statements only.
   Setting as in C01 (Spec/Sched.v, TaskModel.v, Policies.v) with the EDF priority relation edf_hp:
   a job with a strictly earlier absolute deadline has strictly higher priority; ties are broken arbitrarily by
   the scheduler (a tie job may or may not run first).  Relative deadlines dl are arbitrary (also > period). *)
From Coq Require Import Arith NArith List Lia Bool.
From RTA.Model Require Import Base Arrival Wcet Demand Analyses Eval WellFormed.
From RTA.Spec Require Import Sched Events TaskModel Policies.
From RTA.Proofs Require Import FpSound EdfSound.
From RTA.Proofs Require Import GeneralCosts.

Definition edf_setting (tasks : list task) (dl : nat -> nat) (i : nat) jobs sched pp : Prop :=
  (i < length tasks)%nat /\
  Forall (fun tk => wf_ab (fst tk) /\ steps_exact_class (fst tk) /\ 1 <= snd tk) tasks /\
  valid jobs sched /\ work_conserving jobs sched /\ respects_curves tasks jobs /\ respects_costs tasks jobs /\
  pp_sane jobs pp /\ legal jobs sched (edf_hp jobs dl) pp.
Definition task_of (jobs : list job) (k : nat) : nat := j_task (nth k jobs (mkJob 0 0 0)).
Definition other_rbf (tasks : list task) (k : nat) : RB := RBF (fst (nth k tasks (Never, 0))) (Scalar (snd (nth k tasks (Never, 0)))).

Theorem C02_fully_preemptive_sound : forall tasks dl i jobs sched pp dbg limit R,
  edf_setting tasks dl i jobs sched pp -> fully_preemptive pp ->
  e_edf_fp dbg (RBF (ab_i tasks i) (Scalar (C tasks i))) (N.of_nat (dl i))
    (map (fun k => (other_rbf tasks k, N.of_nat (dl k))) (other_idx tasks i)) limit = ROk R ->
  forall k, (k < length jobs)%nat -> task_of jobs k = i -> completes_within jobs sched k (N.to_nat R).
Proof.
  intros tasks dl i jobs sched pp dbg limit R (H1 & H2 & H3 & H4 & H5 & H6 & H7 & H8) Hp He.
  exact (edf_fully_preemptive_sound tasks dl i H1 H2 jobs sched pp H3 H4 H5 H6 H7 H8 dbg limit R Hp He).
Qed.
Theorem C02_limited_preemptive_sound : forall tasks dl i jobs sched pp dbg (seg : nat -> N) last limit R,
  edf_setting tasks dl i jobs sched pp -> 1 <= last /\ last <= C tasks i ->
  (forall k, (k < length jobs)%nat -> task_of jobs k <> i -> segments_le jobs pp k (N.to_nat (seg (task_of jobs k)))) ->
  (forall k, (k < length jobs)%nat -> task_of jobs k = i -> last_segment_starts_by jobs pp k (N.to_nat (C tasks i - last))) ->
  e_edf_lp dbg (ab_i tasks i) (C tasks i) (N.of_nat (dl i)) last
    (map (fun k => (other_rbf tasks k, N.of_nat (dl k), seg k)) (other_idx tasks i)) limit = ROk R ->
  forall k, (k < length jobs)%nat -> task_of jobs k = i -> completes_within jobs sched k (N.to_nat R).
Proof.
  intros tasks dl i jobs sched pp dbg seg last limit R (H1 & H2 & H3 & H4 & H5 & H6 & H7 & H8) Hl Hs Ht He.
  exact (edf_limited_preemptive_sound tasks dl i H1 H2 jobs sched pp H3 H4 H5 H6 H7 H8 dbg seg last limit R Hl Hs Ht He).
Qed.
(* the fully non-preemptive and floating non-preemptive variants (statements in Proofs/EdfSound.v) *)
Definition C02_fully_nonpreemptive_sound := edf_fully_nonpreemptive_sound.
Definition C02_floating_nonpreemptive_sound := edf_floating_nonpreemptive_sound.
Theorem C02_all_four_variants_closed : True. Proof. exact I. Qed.

(* ---- GENERAL JOB-COST MODELS (Proofs/GeneralCosts.v).  gtask = arrival bound * cost model (Scalar | Multiframe | cost curve |
        extrapolating cost curve); respects_cost_models: every job costs at least 1 and, in some release-ordered enumeration of a
        task's jobs, every block of m consecutive jobs costs at most cost_of_jobs(m) -- what JobCostModel::cost_of_jobs promises
        (for trace-derived curves C14 proves it; for Multiframe it is an obligation on the frame vector, see
        multiframe_first_frames_refuted).  The scalar theorems above are corollaries (scalar_respects_cost_models). ---- *)
Definition C02_fully_preemptive_sound_general_costs := edf_fp_sound_gen.
Definition C02_floating_nonpreemptive_sound_general_costs := edf_fnp_sound_gen.
Definition C02_limited_preemptive_sound_general_interferers := edf_lp_sound_gen.
Definition C02_general_costs_nonvacuous := gx_edf_completes.
