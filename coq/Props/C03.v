(* C03 — FIFO RTA is safe for every task and every legal schedule.  Statements only. *)
From Coq Require Import Arith NArith List Lia Bool.
From RTA.Model Require Import Base Arrival Wcet Demand Eval WellFormed.
From RTA.Spec Require Import Sched Events TaskModel.
From RTA.Proofs Require Import FifoSound Workload FifoEndToEnd.
From RTA.Proofs Require Import GeneralCosts MultiframeWindow MultiframeBridge.

(* End to end: if the analysis (public entry point, either build profile) returns Ok R for a task set, then
   for EVERY finite job set whose releases are admissible for the tasks' arrival models (Spec/Events.v) and
   whose execution times are within [1, WCET], and EVERY valid, work-conserving FIFO schedule (ties among
   simultaneous releases broken arbitrarily), every job completes within R of its release. *)
Theorem C03_fifo_rta_sound : forall dbg (tasks : list task) limit R jobs sched,
  Forall fifo_task_ok tasks ->
  e_fifo dbg (Agg (map rb_of tasks)) limit = ROk R ->
  valid jobs sched -> work_conserving jobs sched -> fifo_policy jobs sched ->
  respects_curves tasks jobs -> respects_costs tasks jobs ->
  forall k, (k < length jobs)%nat -> completes_within jobs sched k (N.to_nat R).
Proof. exact fifo_rta_sound. Qed.

(* the workload released in any window is bounded by the sum of the tasks' request-bound functions *)
Theorem C03_workload_bounded_by_rbf : forall tasks jobs t1 d,
  (forall i, (i < length tasks)%nat -> wf_ab (fst (nth i tasks (Never, 0)))) ->
  respects_curves tasks jobs -> respects_costs tasks jobs ->
  N.of_nat (workP jobs (fun k => (t1 <=? arr jobs k)%nat && (arr jobs k <? t1 + d)%nat))
  <= sumN (map (fun tk => snd tk * na (fst tk) (N.of_nat d)) tasks).
Proof. exact total_workload_bounded. Qed.

(* non-vacuity: a concrete task set, job set and schedule satisfy all hypotheses, and the bound is attained *)
Example C03_example :
  e_fifo false (Agg (map rb_of ex_tasks)) 100 = ROk 8 /\ Forall fifo_task_ok ex_tasks /\
  completes_within ex_jobs ex_sched 1 8 /\ ~ completes_within ex_jobs ex_sched 1 7.
Proof.
  split; [exact ex_fifo_ok|]. split; [exact ex_tasks_ok|]. split; [|exact ex_tight].
  apply ex_completes. cbn. lia.
Qed.

(* ---- GENERAL JOB-COST MODELS (Proofs/GeneralCosts.v).  gtask = arrival bound * cost model (Scalar | Multiframe | cost curve |
        extrapolating cost curve); respects_cost_models: every job costs at least 1 and, in some release-ordered enumeration of a
        task's jobs, every block of m consecutive jobs costs at most cost_of_jobs(m) -- what JobCostModel::cost_of_jobs promises
        (for trace-derived curves C14 proves it; for Multiframe it is an obligation on the frame vector, see
        multiframe_first_frames_refuted).  The scalar theorems above are corollaries (scalar_respects_cost_models). ---- *)
Theorem C03_fifo_rta_sound_general_costs : forall dbg (tasks : list gtask) limit R jobs sched,
  Forall gtask_ok tasks ->
  e_fifo dbg (Agg (map grb_of tasks)) limit = ROk R ->
  valid jobs sched -> work_conserving jobs sched -> fifo_policy jobs sched ->
  respects_gcurves tasks jobs -> respects_cost_models tasks jobs ->
  forall k, (k < length jobs)%nat -> completes_within jobs sched k (N.to_nat R).
Proof. exact fifo_rta_sound_gen. Qed.
Definition C03_workload_bounded_by_rbf_general_costs := gtotal_workload_bounded.
Definition C03_general_costs_nonvacuous := gx_fifo_completes.
Definition C03_general_costs_bound_attained := gx_fifo_tight.
(* Multiframe [1;3]: cost_of_jobs charges the FIRST n frames; a job set costing 1,3 (the frames in order) violates
   respects_cost_models (the second job alone costs 3 > cost_of_jobs 1 = 1) and exceeds the FIFO bound Ok 1 *)
Definition C03_multiframe_needs_accumulatively_monotonic_frames := multiframe_first_frames_refuted.
(* ... and the positive counterpart (Proofs/MultiframeWindow.v, MultiframeBridge.v): for a NON-INCREASING frame vector
   cost_of_jobs n = the first n frames of the cycle bounds EVERY run of n consecutive frames, whatever frame the run starts at,
   so jobs cycling through the frames from any starting frame, each costing at most its frame, satisfy blocks_bounded -- the
   hypothesis respects_cost_models of the general-cost theorems is dischargeable for such Multiframe tasks *)
Theorem C03_multiframe_nonincreasing_every_window_bounded : forall l s n, l <> [] -> nonincreasing l ->
  sumN (map (fun i => frame_at l (s + i)) (rangeN 0 n)) <= cost_of_jobs (Multiframe l) n.
Proof. exact multiframe_window_bound. Qed.
Theorem C03_multiframe_cost_is_first_window : forall l n, l <> [] ->
  cost_of_jobs (Multiframe l) n = sumN (map (frame_at l) (rangeN 0 n)).
Proof. exact multiframe_cost_is_first_window. Qed.
Theorem C03_multiframe_nonincreasing_jobs_respect_cost_model : forall (l : list N) (s : N) (js : list job),
  l <> [] -> nonincreasing l ->
  (forall p, (p < length js)%nat -> N.of_nat (j_cost (nth p js jd)) <= frame_at l (s + N.of_nat p)) ->
  blocks_bounded (Multiframe l) js.
Proof. exact multiframe_jobs_blocks_bounded. Qed.
Definition C03_multiframe_nonincreasing_nonvacuous := multiframe_bridge_example.
(* end to end for Multiframe task sets, no hypothesis about cost models left: every task carries a non-increasing frame vector and its
   jobs, in some release order, cycle through the frames from some starting frame (each costing between 1 and its frame) *)
Theorem C03_fifo_rta_sound_multiframe : forall dbg (tasks : list gtask) limit R jobs sched,
  Forall gtask_ok tasks ->
  e_fifo dbg (Agg (map grb_of tasks)) limit = ROk R ->
  valid jobs sched -> work_conserving jobs sched -> fifo_policy jobs sched ->
  respects_gcurves tasks jobs ->
  (forall j, In j jobs -> (j_task j < length tasks)%nat /\ (1 <= j_cost j)%nat) ->
  (forall i, (i < length tasks)%nat ->
     exists js l s, Permutation.Permutation js (jobs_of jobs i) /\ release_sorted js /\
       snd (nth i tasks gdflt) = Multiframe l /\ l <> [] /\ nonincreasing l /\
       forall p, (p < length js)%nat -> N.of_nat (j_cost (nth p js jd)) <= frame_at l (s + N.of_nat p)) ->
  forall k, (k < length jobs)%nat -> completes_within jobs sched k (N.to_nat R).
Proof. exact fifo_rta_sound_multiframe. Qed.
