(* C04 — ROS 2 executor analyses (ECRTS'19) are safe under reservation supply.  Statements only.
   Proved sound under EVERY legal budget placement of a periodic / deadline-constrained reservation:
   - the event-source analysis (Lemma 1) against FIFO service;
   - the polling-point-callback analysis (Lemmas 4/5) and the timer analysis (Lemma 3) against an ABSTRACT
     non-preemptive dispatcher class (Spec/NonPreemptive.v) that contains the ROS 2 executor: instances run to
     completion once started (only supplied slots), the dispatcher never idles in a supplied slot while an instance
     is pending, instances of one callback are served in arrival order, and (timer) an instance outside the class
     {analysed timer, higher-priority timers} never starts while a class instance is pending.
   PARTIAL: the processing-chain analysis (Lemma 8) is NOT proved sound (release-on-completion semantics of chains
   is not mechanised); for it the development proves its exact characterisation (C07) only, and its safety is
   exercised by the executor simulation oracle of this check. *)
From Coq Require Import Arith NArith List Lia Bool.
From RTA.Model Require Import Base Arrival Wcet Demand Supply Eval WellFormed.
From RTA.Spec Require Import Sched Events TaskModel Reservation SupplySched.
From RTA.Spec Require Import NonPreemptive.
From RTA.Proofs Require Import SupplyProofs ReservationProofs FifoEndToEnd EsSound PpSound.

(* every reservation schedule a supply model admits delivers at least provided_service in EVERY window *)
Theorem C04_supply_bound_holds_for_every_budget_placement : forall sb sigma, wf_sb sb -> supply_admits sb sigma ->
  forall t d : nat, (N.to_nat (sbf sb (N.of_nat d)) <= supplied sigma t d)%nat.
Proof. exact supply_admits_sbf. Qed.

(* event source: Ok R is never exceeded, for every budget placement, compliant job set and FIFO schedule that is
   work-conserving relative to the supply *)
Theorem C04_event_source_sound : forall dbg sb (tasks : list task) limit R jobs sched sigma,
  wf_sb sb -> supply_admits sb sigma ->
  Forall fifo_task_ok tasks ->
  e_es dbg sb (Agg (map rb_of tasks)) limit = ROk R ->
  valid jobs sched -> uses_supply sched sigma -> work_conserving_under jobs sched sigma -> fifo_policy jobs sched ->
  respects_curves tasks jobs -> respects_costs tasks jobs ->
  forall k, (k < length jobs)%nat -> completes_within jobs sched k (N.to_nat R).
Proof. exact event_source_sound. Qed.

(* the schedule-level core, for an abstract supply-bound function *)
Definition C04_fifo_under_supply_bound := fifo_under_supply_bound.


(* polling-point callback: the interfering demand is the aggregate of ALL other callbacks *)
Theorem C04_polling_point_callback_sound : forall dbg sb (tasks : list task) i limit R jobs sched sigma,
  wf_sb sb -> supply_admits sb sigma -> Forall fifo_task_ok tasks -> (i < length tasks)%nat ->
  e_pp dbg sb (rb_of (nth i tasks (Never, 0))) (Agg (map rb_of (remove_nth i tasks))) limit = ROk R ->
  valid jobs sched -> uses_supply sched sigma -> work_conserving_under jobs sched sigma ->
  runs_to_completion_under jobs sched sigma -> fifo_within_task jobs sched ->
  respects_curves tasks jobs -> respects_costs tasks jobs ->
  forall k, (k < length jobs)%nat -> j_task (nth k jobs (mkJob 0 0 0)) = i -> completes_within jobs sched k (N.to_nat R).
Proof. exact pp_sound. Qed.
(* timer: interference = the higher-priority timers (hp), blocking bound B >= the WCET of every other callback *)
Theorem C04_timer_sound : forall dbg sb (tasks : list task) i (hp : nat -> bool) B limit R jobs sched sigma,
  wf_sb sb -> supply_admits sb sigma -> Forall fifo_task_ok tasks -> (i < length tasks)%nat -> hp i = false ->
  (forall i', (i' < length tasks)%nat -> i' <> i -> hp i' = false -> snd (nth i' tasks (Never, 0)) <= B) ->
  e_timer dbg sb (rb_of (nth i tasks (Never, 0))) (Agg (map rb_of (select_tasks hp tasks))) B limit = ROk R ->
  valid jobs sched -> uses_supply sched sigma -> work_conserving_under jobs sched sigma ->
  runs_to_completion_under jobs sched sigma -> fifo_within_task jobs sched ->
  precedence_respected jobs sched (fun i' => (i' =? i)%nat || hp i') ->
  respects_curves tasks jobs -> respects_costs tasks jobs ->
  forall k, (k < length jobs)%nat -> j_task (nth k jobs (mkJob 0 0 0)) = i -> completes_within jobs sched k (N.to_nat R).
Proof. exact timer_sound. Qed.
(* the witness of known finding C07-ecrts19-pruning is NOT an unsoundness: real arrival offsets are strictly below the
   maximum busy window, the pruned analysis' bound 5 holds for every compliant job set and abstract schedule *)
Definition C04_c07_witness_is_sound := c07_witness_sound.
