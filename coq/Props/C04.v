(* C04 — ROS 2 executor analyses (ECRTS'19) are safe under reservation supply.  Statements only.
   PARTIAL: proved for the event-source analysis (Lemma 1) against FIFO service under EVERY legal budget
   placement of a periodic / deadline-constrained reservation.  The timer, polling-point-callback and
   processing-chain analyses (Lemmas 3, 4/5, 8) are NOT proved sound against an executor model; for them the
   development proves only their exact characterisation as maxima over step offsets (C07) and the supply
   theorems they rest on (C08, C09); their safety is exercised by the executor simulation oracle of this check. *)
From Coq Require Import Arith NArith List Lia Bool.
From RTA.Model Require Import Base Arrival Wcet Demand Supply Eval WellFormed.
From RTA.Spec Require Import Sched Events TaskModel Reservation SupplySched.
From RTA.Proofs Require Import SupplyProofs ReservationProofs FifoEndToEnd EsSound.

(* every reservation schedule a supply model admits delivers at least provided_service in EVERY window *)
Theorem C04_supply_bound_holds_for_every_budget_placement : forall sb sigma, wf_sb sb -> supply_admits sb sigma ->
  forall t d : nat, (N.to_nat (sbf sb (N.of_nat d)) <= supplied sigma t d)%nat.
Proof. exact supply_admits_sbf. Qed.

(* event source: Ok R is never exceeded, for every budget placement, compliant job set and FIFO schedule that is
   work-conserving relative to the supply *)
Theorem C04_event_source_sound : forall dbg sb (tasks : list task) limit R jobs sched sigma,
  wf_sb sb -> supply_admits sb sigma ->
  Forall fifo_task_ok tasks ->
  e_es dbg sb (Agg (map rb_of tasks)) limit = ROk R ->
  valid jobs sched -> uses_supply sched sigma -> work_conserving_under jobs sched sigma -> fifo_policy jobs sched ->
  respects_curves tasks jobs -> respects_costs tasks jobs ->
  forall k, (k < length jobs)%nat -> completes_within jobs sched k (N.to_nat R).
Proof. exact event_source_sound. Qed.

(* the schedule-level core, for an abstract supply-bound function *)
Definition C04_fifo_under_supply_bound := fifo_under_supply_bound.

