(* C04 — ROS 2 executor analyses (ECRTS'19) are safe under reservation supply.  Statements only.
   Proved sound under EVERY legal budget placement of a periodic / deadline-constrained reservation:
   - the event-source analysis (Lemma 1) against FIFO service;
   - the polling-point-callback analysis (Lemmas 4/5) and the timer analysis (Lemma 3) against an ABSTRACT
     non-preemptive dispatcher class (Spec/NonPreemptive.v) that contains the ROS 2 executor: instances run to
     completion once started (only supplied slots), the dispatcher never idles in a supplied slot while an instance
     is pending, instances of one callback are served in arrival order, and (timer) an instance outside the class
     {analysed timer, higher-priority timers} never starts while a class instance is pending.
   and, through Proofs/ExecutorBridge.v and Proofs/ChainBridge.v, against the OPERATIONAL executor models Spec/Executor.v and
   Spec/ExecutorChains.v (every run of which is proved to be a member of the abstract class);
   - the processing-chain analysis (Lemma 8) against the same dispatcher class with RELEASE-ON-COMPLETION semantics
     (Proofs/ChainSound.v: chain_jobs): every source event gives rise to one instance per callback of the chain, the
     instance of the first callback is released when the source event arrives, the instance of callback l+1 exactly
     when the instance of callback l for the same event completes; only the source events (not the chain's
     instances) comply with the chain's arrival bound.  The end-to-end response time -- from the arrival of the
     source event to the completion of the last callback's instance -- is at most the returned bound; if the job
     set is closed under succession, that instance exists for EVERY source event. *)
From Coq Require Import Arith NArith List Lia Bool.
From RTA.Model Require Import Base Arrival Wcet Demand Supply Eval WellFormed.
From RTA.Spec Require Import Sched Events TaskModel Reservation SupplySched.
From RTA.Spec Require Import NonPreemptive.
From Coq Require Import Permutation.
From RTA.Spec Require Import Executor ExecutorChains.
From RTA.Proofs Require Import SupplyProofs ReservationProofs FifoEndToEnd EsSound PpSound ChainSound RrSound ExecutorBridge ChainBridge.
From RTA.Proofs Require Import GeneralCosts EcrtsGeneralCosts.

(* every reservation schedule a supply model admits delivers at least provided_service in EVERY window *)
Theorem C04_supply_bound_holds_for_every_budget_placement : forall sb sigma, wf_sb sb -> supply_admits sb sigma ->
  forall t d : nat, (N.to_nat (sbf sb (N.of_nat d)) <= supplied sigma t d)%nat.
Proof. exact supply_admits_sbf. Qed.

(* event source: Ok R is never exceeded, for every budget placement, compliant job set and FIFO schedule that is
   work-conserving relative to the supply *)
Theorem C04_event_source_sound : forall dbg sb (tasks : list task) limit R jobs sched sigma,
  wf_sb sb -> supply_admits sb sigma ->
  Forall fifo_task_ok tasks ->
  e_es dbg sb (Agg (map rb_of tasks)) limit = ROk R ->
  valid jobs sched -> uses_supply sched sigma -> work_conserving_under jobs sched sigma -> fifo_policy jobs sched ->
  respects_curves tasks jobs -> respects_costs tasks jobs ->
  forall k, (k < length jobs)%nat -> completes_within jobs sched k (N.to_nat R).
Proof. exact event_source_sound. Qed.

(* the schedule-level core, for an abstract supply-bound function *)
Definition C04_fifo_under_supply_bound := fifo_under_supply_bound.


(* polling-point callback: the interfering demand is the aggregate of ALL other callbacks *)
Theorem C04_polling_point_callback_sound : forall dbg sb (tasks : list task) i limit R jobs sched sigma,
  wf_sb sb -> supply_admits sb sigma -> Forall fifo_task_ok tasks -> (i < length tasks)%nat ->
  e_pp dbg sb (rb_of (nth i tasks (Never, 0))) (Agg (map rb_of (remove_nth i tasks))) limit = ROk R ->
  valid jobs sched -> uses_supply sched sigma -> work_conserving_under jobs sched sigma ->
  runs_to_completion_under jobs sched sigma -> fifo_within_task jobs sched ->
  respects_curves tasks jobs -> respects_costs tasks jobs ->
  forall k, (k < length jobs)%nat -> j_task (nth k jobs (mkJob 0 0 0)) = i -> completes_within jobs sched k (N.to_nat R).
Proof. exact pp_sound. Qed.
(* timer: interference = the higher-priority timers (hp), blocking bound B >= the WCET of every other callback *)
Theorem C04_timer_sound : forall dbg sb (tasks : list task) i (hp : nat -> bool) B limit R jobs sched sigma,
  wf_sb sb -> supply_admits sb sigma -> Forall fifo_task_ok tasks -> (i < length tasks)%nat -> hp i = false ->
  (forall i', (i' < length tasks)%nat -> i' <> i -> hp i' = false -> snd (nth i' tasks (Never, 0)) <= B) ->
  e_timer dbg sb (rb_of (nth i tasks (Never, 0))) (Agg (map rb_of (select_tasks hp tasks))) B limit = ROk R ->
  valid jobs sched -> uses_supply sched sigma -> work_conserving_under jobs sched sigma ->
  runs_to_completion_under jobs sched sigma -> fifo_within_task jobs sched ->
  precedence_respected jobs sched (fun i' => (i' =? i)%nat || hp i') ->
  respects_curves tasks jobs -> respects_costs tasks jobs ->
  forall k, (k < length jobs)%nat -> j_task (nth k jobs (mkJob 0 0 0)) = i -> completes_within jobs sched k (N.to_nat R).
Proof. exact timer_sound. Qed.
(* the witness of known finding C07-ecrts19-pruning is NOT an unsoundness: real arrival offsets are strictly below the
   maximum busy window, the pruned analysis' bound 5 holds for every compliant job set and abstract schedule *)
Definition C04_c07_witness_is_sound := c07_witness_sound.

(* processing chain (Lemma 8): chain = pre ++ [i] (indices into tasks, all with the source's arrival bound ab), srcs = arrival
   times of the source events, ev k = the source event instance k stems from *)
Theorem C04_processing_chain_sound : forall dbg sb (tasks : list task) (pre : list nat) (i : nat) (ab : AB) limit R
    jobs sched sigma (srcs : list nat) (ev : nat -> nat),
  wf_sb sb -> supply_admits sb sigma -> Forall fifo_task_ok tasks ->
  NoDup (pre ++ [i]) ->
  (forall c, In c (pre ++ [i]) -> (c < length tasks)%nat /\ fst (nth c tasks (Never, 0)) = ab) ->
  e_chain dbg sb (chain_rb ab tasks i) (Agg (map (chain_rb ab tasks) pre))
    (Agg (map (chain_rb ab tasks) pre ++ [chain_rb ab tasks i]))
    (Agg (map rb_of (select_tasks (off_chain (pre ++ [i])) tasks))) limit = ROk R ->
  valid jobs sched -> uses_supply sched sigma -> work_conserving_under jobs sched sigma ->
  runs_to_completion_under jobs sched sigma -> fifo_within_task jobs sched ->
  (exists es, Permutation es srcs /\ admissible ab es) ->
  chain_jobs jobs sched (pre ++ [i]) srcs ev ->
  respects_curves_off tasks (pre ++ [i]) jobs -> respects_costs tasks jobs ->
  forall k, (k < length jobs)%nat -> j_task (nth k jobs (mkJob 0 0 0)) = i ->
    (cost jobs k <= service sched k (nth (ev k) srcs 0%nat + N.to_nat R))%nat.
Proof. exact chain_sound. Qed.
Theorem C04_processing_chain_sound_for_every_source_event : forall dbg sb (tasks : list task) (pre : list nat) (i : nat) (ab : AB) limit R
    jobs sched sigma (srcs : list nat) (ev : nat -> nat),
  wf_sb sb -> supply_admits sb sigma -> Forall fifo_task_ok tasks ->
  NoDup (pre ++ [i]) ->
  (forall c, In c (pre ++ [i]) -> (c < length tasks)%nat /\ fst (nth c tasks (Never, 0)) = ab) ->
  e_chain dbg sb (chain_rb ab tasks i) (Agg (map (chain_rb ab tasks) pre))
    (Agg (map (chain_rb ab tasks) pre ++ [chain_rb ab tasks i]))
    (Agg (map rb_of (select_tasks (off_chain (pre ++ [i])) tasks))) limit = ROk R ->
  valid jobs sched -> uses_supply sched sigma -> work_conserving_under jobs sched sigma ->
  runs_to_completion_under jobs sched sigma -> fifo_within_task jobs sched ->
  (exists es, Permutation es srcs /\ admissible ab es) ->
  chain_jobs jobs sched (pre ++ [i]) srcs ev -> chain_jobs_complete jobs sched (pre ++ [i]) srcs ev ->
  respects_curves_off tasks (pre ++ [i]) jobs -> respects_costs tasks jobs ->
  forall e, (e < length srcs)%nat ->
    exists k, (k < length jobs)%nat /\ j_task (nth k jobs (mkJob 0 0 0)) = i /\ ev k = e /\
      (cost jobs k <= service sched k (nth e srcs 0%nat + N.to_nat R))%nat.
Proof. exact chain_sound_total. Qed.
(* non-vacuity (Proofs/ChainSound.v, all hypotheses proved for concrete systems): PeriodicS 2 5, chain c0 (1) -> c1 (2) on
   Sporadic 20 0 plus one other callback: bound 13, attained (ch_completes, ch_tight); dedicated processor, source Sporadic 4 3,
   two events: bound 7, observed 5 and 6 (d_total, d_observed) *)

(* ---- the OPERATIONAL executor (Spec/Executor.v, the model C05 is proved against) is a member of the abstract dispatcher class:
        Proofs/ExecutorBridge.v constructs the job list and the schedule of a run and proves valid / uses_supply / work_conserving_under /
        runs_to_completion_under / fifo_within_task / precedence_respected for them (run_prefix_in_class and the run_* lemmas), so the
        polling-point and timer theorems above hold for every run of the executor.  executor_meets_bound cbs cost_of arr sigma i R:
        for every horizon H, every finished instance (i, a, f) has f - a <= R, and every instance of i released at a with
        a + R <= H does finish by a + R. ---- *)
Theorem C04_polling_point_callback_sound_for_the_executor : forall dbg sb (tasks : list task) i limit R cbs cost_of arr sigma,
  wf_sb sb -> supply_admits sb sigma -> Forall fifo_task_ok tasks -> length cbs = length tasks -> (i < length tasks)%nat ->
  arrivals_ok_t tasks arr -> costs_ok_t tasks cost_of ->
  e_pp dbg sb (rb_of (nth i tasks (Never, 0))) (Agg (map rb_of (remove_nth i tasks))) limit = ROk R ->
  executor_meets_bound cbs cost_of arr sigma i (N.to_nat R).
Proof. exact pp_sound_executor. Qed.
(* timers: hp = any set of timers such that {i} + hp is closed under the executor's dispatch order (smaller priority number first,
   ties by index) -- the least such set is "the timers that precede i"; every other callback has WCET <= B *)
Theorem C04_timer_sound_for_the_executor : forall dbg sb (tasks : list task) i (hp : nat -> bool) B limit R cbs cost_of arr sigma,
  wf_sb sb -> supply_admits sb sigma -> Forall fifo_task_ok tasks -> length cbs = length tasks -> (i < length tasks)%nat ->
  arrivals_ok_t tasks arr -> costs_ok_t tasks cost_of ->
  is_timer (cb cbs i) = true -> hp i = false ->
  (forall c, (c < length tasks)%nat -> hp c = true -> is_timer (cb cbs c) = true) ->
  (forall c c', (c < length tasks)%nat -> (c' < length tasks)%nat -> is_timer (cb cbs c) = true ->
     c' = i \/ hp c' = true -> precedes cbs c c' -> c = i \/ hp c = true) ->
  (forall i', (i' < length tasks)%nat -> i' <> i -> hp i' = false -> snd (nth i' tasks (Never, 0)) <= B) ->
  e_timer dbg sb (rb_of (nth i tasks (Never, 0))) (Agg (map rb_of (select_tasks hp tasks))) B limit = ROk R ->
  executor_meets_bound cbs cost_of arr sigma i (N.to_nat R).
Proof. exact timer_sound_executor. Qed.
Definition C04_executor_is_in_the_dispatcher_class := run_prefix_in_class.
Definition C04_pp_for_the_executor_nonvacuous := pp_sound_executor_nonvacuous.
Definition C04_timer_for_the_executor_nonvacuous := timer_sound_executor_nonvacuous_hp.

(* processing chains on the operational executor WITH chains (Spec/ExecutorChains.v: on completion of an instance of callback c one
   instance of next c is released, carrying the source event's arrival time; cross-checked against Spec/Executor.v and tools/sim.py):
   Proofs/ChainBridge.v proves chain_jobs / chain_jobs_complete and the dispatcher hypotheses for its runs.  chain_arrivals_ok: the
   first callback's and the off-chain callbacks' external arrivals are admissible, the other chain callbacks have no external arrivals
   (necessary: chain_checks_external_arrivals).  chain_executor_meets_bound ... i R: for every horizon H every finished instance of the
   last callback completes within R of its SOURCE event's arrival, and for every source event at a with a + R <= H it does finish. *)
Theorem C04_processing_chain_sound_for_the_executor : forall dbg sb (tasks : list task) (pre : list nat) (i : nat) (ab : AB) limit R
    cbs cost_of arr sigma,
  wf_sb sb -> supply_admits sb sigma -> Forall fifo_task_ok tasks -> NoDup (pre ++ [i]) ->
  (forall c, In c (pre ++ [i]) -> (c < length tasks)%nat /\ fst (nth c tasks (Never, 0)) = ab) ->
  length cbs = length tasks -> chain_arrivals_ok tasks (pre ++ [i]) arr -> costs_ok_t tasks cost_of ->
  e_chain dbg sb (chain_rb ab tasks i) (Agg (map (chain_rb ab tasks) pre))
    (Agg (map (chain_rb ab tasks) pre ++ [chain_rb ab tasks i]))
    (Agg (map rb_of (select_tasks (off_chain (pre ++ [i])) tasks))) limit = ROk R ->
  chain_executor_meets_bound cbs cost_of (pre ++ [i]) arr sigma i (N.to_nat R).
Proof. exact chain_sound_executor. Qed.
Definition C04_chain_for_the_executor_nonvacuous := chain_sound_executor_nonvacuous.
Definition C04_executor_without_chains_is_the_executor := run_chains_no_chain.

(* ---- GENERAL JOB-COST MODELS (Proofs/EcrtsGeneralCosts.v; gtask, grb_of, respects_gcurves, respects_cost_models as in Props/C03.v):
        event source exactly as above; polling-point and timer analyses with the analysed AND the interfering callbacks general.
        own_wcet = least_wcet_in_interval is sound although a job may cost less than any frame: the argument only needs
        cost_of_jobs k + least_wcet m <= cost_of_jobs (k + 1) for k < m (least_wcet_item).  tie_free: the analysed callback's
        releases are pairwise distinct or its cost model is scalar -- needed because respects_cost_models lets the enumeration order
        of simultaneous releases be chosen freely while fifo_within_task lets the dispatcher serve them in any order
        (C04_general_costs_tie_order_witness).  The scalar theorems are corollaries (pp_sound_from_gen, ...). ---- *)
Definition C04_event_source_sound_general_costs := event_source_sound_gen.
Definition C04_polling_point_callback_sound_general_costs := pp_sound_gen.
Definition C04_timer_sound_general_costs := timer_sound_gen.
Definition C04_general_costs_nonvacuous := pp_sound_gen_nonvacuous.
Definition C04_general_costs_tie_order_witness := pp_tie_order_witness.
Definition C04_ecrts19_total_for_general_cost_models := e_pp_total_gen.
