(* C05 — ROS 2 round-robin and busy-window analyses (RTSS'21) are safe.  Statements only.
   PROVED for the round-robin-aware analysis (rr, Theorem 2) against the OPERATIONAL model of the single-threaded
   executor (Spec/Executor.v: timers first in priority order, polled callbacks from a ready set that is refreshed
   only when it is empty, non-preemptive, processor time from a reservation): for every self-consistent vector of
   assumed bounds (e_rr applied to every callback as a singleton subchain reproduces the vector; any limit, either
   build profile), every legal budget placement, every arrival function whose per-callback release sequences are
   admissible, every execution time in [1, WCET] and every executor priority order that is arbitrary for timers and
   unknown-priority callbacks and strictly agrees with the known priorities, every completed instance has a response
   time of at most its bound (C05_rr_sound).  Known priorities must be pairwise distinct ("all priority ORDERS"; they
   stand for the registration order): for two callbacks sharing a known priority the bound is exceeded
   (C05_rr_equal_known_priorities_refuted, replayed on the crate: rr returns 5, the executor needs 7).
   PROVED likewise for the busy-window-aware analysis (bw, Theorem 3): C05_bw_sound, for arrival models whose step
   enumeration is exact (steps_exact_class: excludes only ArrivalCurvePrefix, the remaining known class of C11); for bw
   the priority order among polled callbacks is irrelevant (C05_bw_sound_any_priority_order).
   For both analyses the development also proves that they compute exactly what their defining inequalities say (every offset, least fixed points, exact
   inverse of the supply-bound function); rr is monotone in workload, assumed bounds and supply. *)
From Coq Require Import List NArith Lia Bool.
From RTA.Model Require Import Base FixedPoint Ros2.
From RTA.Spec Require Import Exhaustive ExhaustiveRos.
From RTA.Model Require Import Supply Eval.
From RTA.Spec Require Import Reservation Executor.
From RTA.Proofs Require Import SupplyProofs StepsProofs ExhFP ExhRos MonoProofs EsSound RrSound BwSound RrBwGeneralCosts.

Theorem C05_partial_rr_is_its_defining_inequalities : forall sbf st, sbf_ok sbf -> exact_inverse sbf st ->
  forall dbg wl sc limit (bound : N -> N),
  (forall cb, In cb wl -> mono (cb_na cb) /\ mono (cb_cost cb)) ->
  mono (cb_na (eoc wl sc)) -> mono (cb_cost (eoc wl sc)) -> (forall d, st d < bound d) ->
  rr_subchain dbg sbf st wl sc limit = exh_rr sbf bound wl sc limit.
Proof. exact rr_exhaustive. Qed.
Theorem C05_partial_bw_is_its_defining_inequalities : forall sbf st, sbf_ok sbf -> exact_inverse sbf st ->
  forall dbg wl sc limit (bound : N -> N),
  (forall cb, In cb wl -> mono (cb_na cb) /\ mono (cb_cost cb) /\ (forall h, steps_spec (cb_na cb) (cb_steps cb h) h)) ->
  (let e := eoc wl sc in mono (cb_na e) /\ mono (cb_cost e) /\ (forall h, steps_spec (cb_na e) (cb_steps e h) h)) ->
  (forall d, st d < bound d) -> cb_na (eoc wl sc) 0 < cb_na (eoc wl sc) 1 ->
  bw_subchain dbg sbf st wl sc limit = exh_bw sbf bound wl sc limit.
Proof. exact bw_exhaustive_any_build. Qed.
(* iterating the analysis upwards is meaningful: larger assumed bounds / workload / weaker supply never give a smaller result *)
Theorem C05_partial_rr_monotone : forall sbf st sbf' st',
  (forall d t, st d <= t <-> d <= sbf t) -> (forall d t, st' d <= t <-> d <= sbf' t) -> ple sbf' sbf ->
  sbf 0 = 0 -> sbf' 0 = 0 -> (forall t, sbf (t + 1) <= sbf t + 1) -> (forall t, sbf' (t + 1) <= sbf' t + 1) ->
  forall dbg wl wl' sc limit, Forall2 cb_le wl wl' -> (forall cb, In cb wl -> cb_mono cb) -> (forall cb, In cb wl' -> cb_mono cb) ->
  rle (rr_subchain dbg sbf st wl sc limit) (rr_subchain dbg sbf' st' wl' sc limit).
Proof. exact rr_subchain_mono. Qed.

(* ---- rr: semantic soundness against the operational executor (definitions wl_ok, cbs_match, arrivals_ok, costs_ok, wl_R
        in Proofs/RrSound.v; run / finished in Spec/Executor.v) ---- *)
Theorem C05_rr_sound : forall dbg sb (wl : wlT) limit cbs cost_of arr sigma,
  wf_sb sb -> supply_admits sb sigma ->
  wl_ok wl -> cbs_match wl cbs -> arrivals_ok wl arr -> costs_ok wl cost_of ->
  (forall i, (i < length wl)%nat -> e_rr dbg sb wl [i] limit = ROk (wl_R wl i)) ->
  forall H c a f, In (c, a, f) (finished (run cbs cost_of H arr sigma)) -> (f - a <= N.to_nat (wl_R wl c))%nat.
Proof. exact rr_sound. Qed.
(* the premises are satisfiable (bounds 11 and 8, an instance with response time 7) *)
Definition C05_rr_sound_nonvacuous := rr_sound_nonvacuous.
(* two distinct callbacks with the SAME known priority: every other premise holds, the bound 5 is exceeded (7) *)
Definition C05_rr_equal_known_priorities_refuted := rr_unsound_witness.

(* ---- bw: semantic soundness against the operational executor ---- *)
Theorem C05_bw_sound : forall dbg sb (wl : wlT) limit cbs cost_of arr sigma,
  wf_sb sb -> supply_admits sb sigma ->
  wl_ok wl -> wl_steps_ok wl -> cbs_match wl cbs -> arrivals_ok wl arr -> costs_ok wl cost_of ->
  (forall i, (i < length wl)%nat -> e_bw dbg sb wl [i] limit = ROk (wl_R wl i)) ->
  forall H c a f, In (c, a, f) (finished (run cbs cost_of H arr sigma)) -> (f - a <= N.to_nat (wl_R wl c))%nat.
Proof. exact bw_sound. Qed.
(* the executor's priority order among polled callbacks is irrelevant for bw (ties, disagreement with the known priorities) *)
Theorem C05_bw_sound_any_priority_order : forall dbg sb (wl : wlT) limit cbs cost_of arr sigma,
  wf_sb sb -> supply_admits sb sigma ->
  wl_ok wl -> wl_steps_ok wl -> cbs_timers_match wl cbs -> arrivals_ok wl arr -> costs_ok wl cost_of ->
  (forall i, (i < length wl)%nat -> e_bw dbg sb wl [i] limit = ROk (wl_R wl i)) ->
  forall H c a f, In (c, a, f) (finished (run cbs cost_of H arr sigma)) -> (f - a <= N.to_nat (wl_R wl c))%nat.
Proof. exact bw_sound_any_order. Qed.
Definition C05_bw_sound_nonvacuous := bw_sound_nonvacuous.

(* ---- GENERAL JOB-COST MODELS (Proofs/RrBwGeneralCosts.v): wl_ok_gen replaces the scalar requirement by wf_cm; costs_ok_gen: every
        instance costs at least 1 and every block of m consecutive instances of a callback costs at most cost_of_jobs(m).  The marginal
        cost cost(n+1) - cost(n) of the instance under analysis is never charged on its own: together with the n earlier instances it
        forms one block of n + 1 consecutive instances.  Non-concave models included; the scalar theorems are corollaries. ---- *)
Theorem C05_rr_sound_general_costs : forall dbg sb (wl : wlT) limit cbs cost_of arr sigma,
  wf_sb sb -> supply_admits sb sigma ->
  wl_ok_gen wl -> cbs_match wl cbs -> arrivals_ok wl arr -> costs_ok_gen wl cost_of ->
  (forall i, (i < length wl)%nat -> e_rr dbg sb wl [i] limit = ROk (wl_R wl i)) ->
  forall H c a f, In (c, a, f) (finished (run cbs cost_of H arr sigma)) -> (f - a <= N.to_nat (wl_R wl c))%nat.
Proof. exact rr_sound_gen. Qed.
Definition C05_bw_sound_general_costs := bw_sound_gen.
Definition C05_bw_sound_general_costs_any_priority_order := bw_sound_gen_any_order.
Definition C05_rr_general_costs_nonvacuous := rr_sound_gen_nonvacuous.
Definition C05_bw_general_costs_nonvacuous := bw_sound_gen_nonvacuous.
