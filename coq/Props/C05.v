(* C05 — ROS 2 round-robin and busy-window analyses (RTSS'21) are safe.  Statements only.
   PARTIAL.  The full statement — for every self-consistent vector of assumed bounds no instance of any callback
   exceeds its bound in any execution of the executor model — requires mechanising the polling-window invariants
   of the RTSS'21 appendix and is NOT proved here (its semantic soundness rests on the paper and is exercised by
   the executor simulation oracle of this check).  Proved: the two analyses compute exactly what their defining
   inequalities say (every offset, least fixed points, exact inverse of the supply-bound function), the rr analysis
   is monotone in workload, assumed bounds and supply, and an Ok result is independent of the limit. *)
From Coq Require Import List NArith Lia Bool.
From RTA.Model Require Import Base FixedPoint Ros2.
From RTA.Spec Require Import Exhaustive ExhaustiveRos.
From RTA.Proofs Require Import SupplyProofs StepsProofs ExhFP ExhRos MonoProofs.

Theorem C05_partial_rr_is_its_defining_inequalities : forall sbf st, sbf_ok sbf -> exact_inverse sbf st ->
  forall dbg wl sc limit (bound : N -> N),
  (forall cb, In cb wl -> mono (cb_na cb) /\ mono (cb_cost cb)) ->
  mono (cb_na (eoc wl sc)) -> mono (cb_cost (eoc wl sc)) -> (forall d, st d < bound d) ->
  rr_subchain dbg sbf st wl sc limit = exh_rr sbf bound wl sc limit.
Proof. exact rr_exhaustive. Qed.
Theorem C05_partial_bw_is_its_defining_inequalities : forall sbf st, sbf_ok sbf -> exact_inverse sbf st ->
  forall dbg wl sc limit (bound : N -> N),
  (forall cb, In cb wl -> mono (cb_na cb) /\ mono (cb_cost cb) /\ (forall h, steps_spec (cb_na cb) (cb_steps cb h) h)) ->
  (let e := eoc wl sc in mono (cb_na e) /\ mono (cb_cost e) /\ (forall h, steps_spec (cb_na e) (cb_steps e h) h)) ->
  (forall d, st d < bound d) -> cb_na (eoc wl sc) 0 < cb_na (eoc wl sc) 1 ->
  bw_subchain dbg sbf st wl sc limit = exh_bw sbf bound wl sc limit.
Proof. exact bw_exhaustive_any_build. Qed.
(* iterating the analysis upwards is meaningful: larger assumed bounds / workload / weaker supply never give a smaller result *)
Theorem C05_partial_rr_monotone : forall sbf st sbf' st',
  (forall d t, st d <= t <-> d <= sbf t) -> (forall d t, st' d <= t <-> d <= sbf' t) -> ple sbf' sbf ->
  sbf 0 = 0 -> sbf' 0 = 0 -> (forall t, sbf (t + 1) <= sbf t + 1) -> (forall t, sbf' (t + 1) <= sbf' t + 1) ->
  forall dbg wl wl' sc limit, Forall2 cb_le wl wl' -> (forall cb, In cb wl -> cb_mono cb) -> (forall cb, In cb wl' -> cb_mono cb) ->
  rle (rr_subchain dbg sbf st wl sc limit) (rr_subchain dbg sbf' st' wl' sc limit).
Proof. exact rr_subchain_mono. Qed.
