(* C06 — FP/EDF/FIFO bounds equal exhaustive evaluation of their defining equations.  Statements only.
   exh_fp / exh_fifo (Spec/Exhaustive.v): L = least positive solution of the busy-window inequality by
   linear scan; for EVERY offset A in [0, L) the least solution of the offset equation by linear scan;
   maximum over all A; Err exactly when one of these least solutions does not exist within the limit. *)
From Coq Require Import List NArith Lia Bool.
From RTA.Model Require Import Base FixedPoint Analyses.
From RTA.Spec Require Import Exhaustive.
From RTA.Proofs Require Import ExhFP ExhCorollaries ExhEDF ExhEdfCorollaries.

(* hypotheses on the curves (all are consequences of well-formed inputs: C10, C11, C14):
   the RBFs are monotone and 0 at 0, the task under analysis can release a job, and the step
   enumerator of its RBF is exact *)
Theorem C06_fully_preemptive_fp : forall tua hp steps limit dbg,
  mono tua -> mono hp -> tua 0 = 0 -> 0 < tua 1 -> steps_exact tua steps ->
  fp_fp dbg tua hp steps limit = exh_fp 0 0 tua hp limit.
Proof. intros; apply fp_fp_exhaustive; assumption. Qed.
Theorem C06_floating_nonpreemptive_fp : forall tua hp steps limit dbg B,
  mono tua -> mono hp -> tua 0 = 0 -> 0 < tua 1 -> steps_exact tua steps ->
  fp_fnp dbg B tua hp steps limit = exh_fp B 0 tua hp limit.
Proof. intros; apply fp_fnp_exhaustive; assumption. Qed.
Theorem C06_fully_nonpreemptive_fp : forall arr hp steps limit dbg C B,
  mono arr -> mono hp -> arr 0 = 0 -> 0 < arr 1 -> steps_exact arr steps -> 1 <= C ->
  fp_np dbg C B arr hp steps limit = exh_fp B (C - 1) (fun d => C * arr d) hp limit.
Proof. intros; apply fp_np_exhaustive; assumption. Qed.
Theorem C06_limited_preemptive_fp : forall arr hp steps limit dbg C last B,
  mono arr -> mono hp -> arr 0 = 0 -> 0 < arr 1 -> steps_exact arr steps -> 1 <= last -> last <= C ->
  fp_lp dbg C last B arr hp steps limit = exh_fp B (last - 1) (fun d => C * arr d) hp limit.
Proof. intros; apply fp_lp_exhaustive; assumption. Qed.
Theorem C06_fifo : forall total steps limit dbg,
  mono total -> steps_exact total steps -> 0 < total 1 -> total 0 = 0 ->
  fifo_rta dbg total steps limit = exh_fifo total limit.
Proof. intros; apply fifo_exhaustive; assumption. Qed.
(* the iterative fixed-point search on a dedicated processor is the linear-scan least fixed point *)
Theorem C06_search_is_linear_scan : forall dbg limit w, mono w -> 0 < w 1 ->
  ded_search dbg limit w = match least_fix limit w with Some x => ROk x | None => RErr 0 limit end.
Proof. exact ded_search_least_fix. Qed.

(* the four EDF analyses are edf_generic with: use_blocking = false, rem = 0 (fully preemptive);
   use_blocking = true, rem = 0 (floating); rem = C - 1 (non-preemptive); rem = last - 1 (limited-preemptive) *)
Theorem C06_edf_rbf_task : forall use_blocking tua steps D others limit dbg,
  mono tua -> steps_exact tua steps -> tua 0 = 0 -> 0 < tua 1 ->
  (forall o, In o others -> mono (o_rbf o) /\ steps_exact (o_rbf o) (o_steps o)) ->
  edf_generic dbg use_blocking true 0 tua steps D others limit
  = exh_edf use_blocking 0 tua D (map other_triple others) limit.
Proof.
  intros ub tua steps D others limit dbg H1 H2 H3 H4 H5.
  apply edf_generic_exhaustive; try assumption. intros d Hd. lia.
Qed.
Theorem C06_edf_scalar_task : forall arr steps D others limit dbg C rem,
  mono arr -> arr 0 = 0 -> 0 < arr 1 -> steps_exact arr steps ->
  (forall o, In o others -> mono (o_rbf o) /\ steps_exact (o_rbf o) (o_steps o)) ->
  1 <= C -> rem < C ->
  edf_generic dbg true true rem (fun d => C * arr d) steps D others limit
  = exh_edf true rem (fun d => C * arr d) D (map other_triple others) limit.
Proof. intros; apply edf_scalar_exhaustive; assumption. Qed.

Example C06_example :
  fp_np true 3 1 (fun d => (d + 19) / 20) (fun d => 2 * ((d + 6) / 7)) (fun h => filter (fun d => ((d - 1 + 19) / 20) <? ((d + 19) / 20)) (rangeN 1 h)) 100
  = exh_fp 1 2 (fun d => 3 * ((d + 19) / 20)) (fun d => 2 * ((d + 6) / 7)) 100
  /\ exh_fp 1 2 (fun d => 3 * ((d + 19) / 20)) (fun d => 2 * ((d + 6) / 7)) 100 = ROk 6.
Proof. split; vm_compute; reflexivity. Qed.
