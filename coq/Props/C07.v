(* C07 — ROS 2 bounds equal exhaustive evaluation of their defining equations.  Statements only.
   Spec/ExhaustiveRos.v: every offset up to the maximum busy-window / offset bound, linear-scan fixed
   points (least_sol), and the supply-bound function only (its inverse by scanning: inv_scan). *)
From Coq Require Import List NArith Lia Bool Sorting.Sorted.
From RTA.Model Require Import Base FixedPoint Ros2 Arrival.
From RTA.Spec Require Import Exhaustive ExhaustiveRos.
From RTA.Proofs Require Import SupplyProofs StepsProofs ExhFP ExhRos.

(* for every supply-bound function that is 0 at 0, monotone and 1-Lipschitz, with exact inverse st
   (true of every well-formed supply of the crate by C09): *)
Theorem C07_search_is_linear_scan : forall sbf st, exact_inverse sbf st -> forall off limit w,
  mono w -> off <= st (w 1) ->
  search_with_offset st off limit w = match least_sol sbf limit off w with Some r => ROk r | None => RErr off limit end.
Proof. exact search_with_offset_least_sol. Qed.
Theorem C07_service_time_is_scan_of_sbf : forall sbf st, exact_inverse sbf st -> forall bound d,
  st d < bound -> st d = inv_scan sbf bound d.
Proof. exact st_is_inv_scan. Qed.

(* event source (Lemma 1): exhaustive over every offset A <= max busy window *)
Theorem C07_event_source : forall sbf st, sbf_ok sbf -> exact_inverse sbf st -> forall dbg limit demand steps,
  mono demand -> demand 0 = 0 -> steps_exact demand steps ->
  rta_event_source dbg sbf st limit demand steps = exh_event_source sbf limit demand.
Proof. exact event_source_exhaustive. Qed.
(* rr subchain (Theorem 2) *)
Theorem C07_rr_subchain : forall sbf st, sbf_ok sbf -> exact_inverse sbf st -> forall dbg wl sc limit (bound : N -> N),
  (forall cb, In cb wl -> mono (cb_na cb) /\ mono (cb_cost cb)) ->
  mono (cb_na (eoc wl sc)) -> mono (cb_cost (eoc wl sc)) -> (forall d, st d < bound d) ->
  rr_subchain dbg sbf st wl sc limit = exh_rr sbf bound wl sc limit.
Proof. exact rr_exhaustive. Qed.
(* bw subchain (Theorem 3, Lemma 19 offsets): exhaustive over every activation offset below the maximum
   offset, in both build profiles; the end-of-chain callback must be able to arrive *)
Theorem C07_bw_subchain : forall sbf st, sbf_ok sbf -> exact_inverse sbf st -> forall dbg wl sc limit (bound : N -> N),
  (forall cb, In cb wl -> mono (cb_na cb) /\ mono (cb_cost cb) /\ (forall h, steps_spec (cb_na cb) (cb_steps cb h) h)) ->
  (let e := eoc wl sc in mono (cb_na e) /\ mono (cb_cost e) /\ (forall h, steps_spec (cb_na e) (cb_steps e h) h)) ->
  (forall d, st d < bound d) -> cb_na (eoc wl sc) 0 < cb_na (eoc wl sc) 1 ->
  bw_subchain dbg sbf st wl sc limit = exh_bw sbf bound wl sc limit.
Proof. exact bw_exhaustive_any_build. Qed.
Theorem C07_bw_needs_arrival_refuted : exists wl sc limit,
  (forall cb, In cb wl -> mono (cb_na cb) /\ mono (cb_cost cb) /\ steps_exact (cb_na cb) (cb_steps cb)) /\
  bw_subchain false (fun d => d) (fun d => d) wl sc limit = ROk 0 /\
  exh_bw (fun d => d) (fun d => d + 1) wl sc limit = ROk 1.
Proof. exact bw_exhaustive_needs_arrival_refuted. Qed.

(* timer / polling-point callback / processing chain (Lemmas 3, 4/5, 8): the implementation is EXACTLY the
   maximum over the step offsets of the own demand curve (exh_ecrts_steps) ... *)
Theorem C07_pp_is_step_offset_maximum : forall sbf st, sbf_ok sbf -> exact_inverse sbf st ->
  forall dbg limit own own_lw steps intf,
  (forall h, steps_spec own (steps h) h) -> mono own -> mono intf -> (forall off, mono (interference_interval own_lw off)) ->
  rta_pp dbg sbf st limit own own_lw steps intf =
  exh_ecrts_steps sbf limit own (fun d => own d + intf d)
    (fun off resp => own (off + 1) + intf (interference_interval own_lw off resp)).
Proof. exact pp_step_offsets. Qed.
Theorem C07_timer_is_step_offset_maximum : forall sbf st, sbf_ok sbf -> exact_inverse sbf st ->
  forall dbg limit own own_lw steps intf B,
  (forall h, steps_spec own (steps h) h) -> mono own -> mono intf -> (forall off, mono (interference_interval own_lw off)) ->
  rta_timer dbg sbf st limit own own_lw steps intf B =
  exh_ecrts_steps sbf limit own (fun d => own d + B + intf d)
    (fun off resp => own (off + 1) + intf (interference_interval own_lw off resp) + B).
Proof. exact timer_step_offsets. Qed.
Definition C07_chain_is_step_offset_maximum := chain_step_offsets.
(* ... which is NOT the exhaustive maximum over all offsets (known finding C07-ecrts19-pruning): witness *)
Theorem C07_pp_not_exhaustive_refuted : exists own own_lw intf steps limit,
  rta_pp true (fun d => d) (fun d => d) limit own own_lw steps intf = ROk 5 /\
  exh_ecrts (fun d => d) limit (fun d => own d + intf d)
     (fun off resp => own (off + 1) + intf (interference_interval own_lw off resp)) = ROk 8.
Proof. exact pp_not_exhaustive_refuted. Qed.
