(* C08 — Fixed-point search returns the least solution or reports divergence.
   Statements only; each is closed by a lemma proved in Proofs/. *)
From Coq Require Import List NArith Lia Bool.
From RTA.Model Require Import Base Supply FixedPoint.
From RTA.Proofs Require Import SupplyProofs FixedPointProofs.

(* r solves the problem: the service guaranteed within off + r covers w (max r 1) *)
Definition solves (sb : SB) (w : N -> N) (off r : N) : Prop := w (N.max r 1) <= sbf sb (off + r).
Definition monotone (w : N -> N) : Prop := forall a b, a <= b -> w a <= w b.

(* For every well-formed supply of the crate — dedicated, periodic, constrained, and user-defined
   supplies that rely on the trait's default service_time (DefaultST, TableS) — every monotone
   workload, every offset inside the busy window and every limit: *)
Theorem C08_ok_is_least_solution :
  forall sb w off limit r, wf_sb sb -> monotone w -> off <= st sb (w 1) ->
  search_with_offset (st sb) off limit w = ROk r ->
  r <= limit /\ solves sb w off r /\ forall r', r' < r -> ~ solves sb w off r'.
Proof.
  intros sb w off limit r Hwf Hm Hoff H.
  exact (swo_ok (sbf sb) (st sb) (st_wf_exact sb Hwf) w Hm off limit Hoff r H).
Qed.

Theorem C08_err_iff_no_solution_within_limit :
  forall sb w off limit o l, wf_sb sb -> monotone w -> off <= st sb (w 1) -> 1 <= limit ->
  search_with_offset (st sb) off limit w = RErr o l ->
  o = off /\ l = limit /\ forall r, r <= limit -> ~ solves sb w off r.
Proof.
  intros sb w off limit o l Hwf Hm Hoff Hl H.
  destruct (swo_err (sbf sb) (st sb) (st_wf_exact sb Hwf) w Hm off limit Hoff o l H) as (A & B & C).
  split; [exact A|]. split; [exact B|]. exact (C Hl).
Qed.

Theorem C08_least_solution_is_found :
  forall sb w off limit r, wf_sb sb -> monotone w -> off <= st sb (w 1) -> 1 <= limit -> r <= limit ->
  solves sb w off r -> (forall r', r' < r -> ~ solves sb w off r') ->
  search_with_offset (st sb) off limit w = ROk r.
Proof.
  intros sb w off limit r Hwf Hm Hoff Hl Hr Hs Hleast.
  exact (swo_complete (sbf sb) (st sb) (st_wf_exact sb Hwf) w Hm off limit Hoff r Hl Hr Hs Hleast).
Qed.

Theorem C08_never_panics :
  forall sb w off limit, wf_sb sb -> monotone w -> off <= st sb (w 1) ->
  search_with_offset (st sb) off limit w <> RPanic.
Proof.
  intros sb w off limit Hwf Hm Hoff.
  exact (swo_no_panic (sbf sb) (st sb) (st_wf_exact sb Hwf) w Hm off limit Hoff).
Qed.

Theorem C08_ok_is_independent_of_the_limit :
  forall sb w off limit limit' r, wf_sb sb -> monotone w -> off <= st sb (w 1) -> limit <= limit' ->
  search_with_offset (st sb) off limit w = ROk r -> search_with_offset (st sb) off limit' w = ROk r.
Proof.
  intros sb w off limit limit' r Hwf Hm Hoff Hl H.
  exact (swo_limit_mono (sbf sb) (st sb) (st_wf_exact sb Hwf) w Hm off limit Hoff r limit' Hl H).
Qed.

(* `search` (offset 0): the debug-only brute-force cross-check never fires, so both build profiles
   compute search_with_offset at offset 0 *)
Theorem C08_search_profile_independent :
  forall sb w dbg limit, wf_sb sb -> monotone w ->
  search (sbf sb) (st sb) dbg limit w = search_with_offset (st sb) 0 limit w.
Proof.
  intros sb w dbg limit Hwf Hm.
  destruct (sbf_wf_ok sb Hwf) as (H0 & _ & Hlip).
  exact (search_dbg_irrelevant (sbf sb) (st sb) (st_wf_exact sb Hwf) H0 Hlip w Hm dbg limit).
Qed.

(* max_response_time: first error if there is one, otherwise the maximum, zero for the empty sequence *)
Theorem C08_max_response_time :
  max_response_time [] = ROk 0 /\
  forall l, existsb is_panic l = false ->
    max_response_time l = match find is_err l with Some e => e | None => ROk (maxN (map val_of l)) end.
Proof. split; [exact mrt_nil | exact mrt_spec]. Qed.

(* known corner (recorded in known_findings.json): with limit = 0 and no demand the search reports
   divergence although r = 0 is a solution within the limit *)
Theorem C08_limit_zero_refuted :
  exists w : N -> N, search_with_offset (fun d => d) 0 0 w = RErr 0 0 /\ w 1 <= 0.
Proof. exact swo_limit0_refuted. Qed.

(* non-vacuity: a concrete non-trivial instance of the hypotheses and of each outcome *)
Example C08_example :
  wf_sb (PeriodicS 2 5) /\ 3 <= st (PeriodicS 2 5) 1 /\
  search_with_offset (st (PeriodicS 2 5)) 3 100 (fun r => 1 + r / 4) = ROk 5 /\
  search_with_offset (st (PeriodicS 2 5)) 3 100 (fun r => 1 + r) = RErr 3 100.
Proof. repeat split; try (vm_compute; congruence); vm_compute; reflexivity. Qed.
