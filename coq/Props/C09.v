(* C09 — Supply-bound functions are exact and service_time is their exact inverse.
   Statements only; each is closed by a lemma proved in Proofs/. *)
From Coq Require Import List NArith Lia Bool.
From RTA.Model Require Import Base Supply.
From RTA.Spec Require Import Reservation.
From RTA.Proofs Require Import SupplyProofs ReservationProofs.

(* zero at zero, non-decreasing, at most one unit of service per time unit — for every well-formed
   supply, including user-defined ones *)
Theorem C09_sbf_shape : forall sb, wf_sb sb ->
  sbf sb 0 = 0 /\ (forall a b, a <= b -> sbf sb a <= sbf sb b) /\ (forall t, sbf sb (t + 1) <= sbf sb t + 1).
Proof. exact sbf_wf_ok. Qed.

(* service_time d is the smallest t with provided_service t >= d — for the closed forms of Periodic
   and Constrained and for the trait's default implementation alike *)
Theorem C09_service_time_exact_inverse : forall sb, wf_sb sb -> forall d t, st sb d <= t <-> d <= sbf sb t.
Proof. exact st_wf_exact. Qed.

Theorem C09_default_service_time_exact : forall (f : N -> N) d fuel tstar,
  sbf_ok f -> d <= f tstar -> tstar < fuel -> forall t, default_st f fuel d <= t <-> d <= f t.
Proof. exact default_st_exact. Qed.

(* constrained with deadline = period is the periodic reservation; budget = period is a dedicated processor *)
Theorem C09_constrained_deadline_eq_period : forall Q P x, 1 <= Q -> Q <= P ->
  sbf (ConstrainedS Q P P) x = sbf (PeriodicS Q P) x /\ st (ConstrainedS Q P P) x = st (PeriodicS Q P) x.
Proof. exact constrained_deadline_eq_period. Qed.
Theorem C09_full_budget_is_dedicated : forall P x, 1 <= P ->
  sbf (PeriodicS P P) x = sbf Dedicated x /\ st (PeriodicS P P) x = st Dedicated x.
Proof. exact periodic_full_budget_is_dedicated. Qed.

(* exactness against actual reservation schedules (Spec/Reservation.v): provided_service(delta) is
   the minimum service delivered in any window of length delta over all legal placements of the
   budget inside each period — no placement delivers less, and some placement delivers exactly it *)
Theorem C09_no_placement_delivers_less : forall (Q D P : N) (sigma : rsched),
  1 <= Q -> Q <= D -> D <= P ->
  valid_reservation (N.to_nat Q) (N.to_nat D) (N.to_nat P) sigma ->
  forall t delta : nat, (N.to_nat (sbf (ConstrainedS Q D P) (N.of_nat delta)) <= supplied sigma t delta)%nat.
Proof. exact constrained_sbf_lower_bound. Qed.
Theorem C09_some_placement_delivers_exactly : forall (Q D P : N), 1 <= Q -> Q <= D -> D <= P ->
  valid_reservation (N.to_nat Q) (N.to_nat D) (N.to_nat P) (worst_sigma (N.to_nat Q) (N.to_nat D) (N.to_nat P)) /\
  forall delta : nat,
    supplied (worst_sigma (N.to_nat Q) (N.to_nat D) (N.to_nat P)) (N.to_nat Q) delta
    = N.to_nat (sbf (ConstrainedS Q D P) (N.of_nat delta)).
Proof.
  intros Q D P HQ HD HP. split.
  - apply worst_sigma_valid; lia.
  - exact (constrained_sbf_attained Q D P HQ HD HP).
Qed.
Theorem C09_periodic_no_placement_delivers_less : forall (Q P : N) (sigma : rsched), 1 <= Q -> Q <= P ->
  valid_reservation (N.to_nat Q) (N.to_nat P) (N.to_nat P) sigma ->
  forall t delta : nat, (N.to_nat (sbf (PeriodicS Q P) (N.of_nat delta)) <= supplied sigma t delta)%nat.
Proof. exact periodic_sbf_lower_bound. Qed.
Theorem C09_periodic_some_placement_delivers_exactly : forall (Q P : N), 1 <= Q -> Q <= P -> forall delta : nat,
  supplied (worst_sigma (N.to_nat Q) (N.to_nat P) (N.to_nat P)) (N.to_nat Q) delta
  = N.to_nat (sbf (PeriodicS Q P) (N.of_nat delta)).
Proof. exact periodic_sbf_attained. Qed.

Example C09_example : wf_sb (ConstrainedS 2 3 5) /\ sbf (ConstrainedS 2 3 5) 9 = 2 /\ st (ConstrainedS 2 3 5) 3 = 10
  /\ wf_sb (DefaultST (ConstrainedS 2 3 5)) /\ st (DefaultST (ConstrainedS 2 3 5)) 3 = 10.
Proof. repeat split; try (vm_compute; congruence); vm_compute; reflexivity. Qed.
