(* C10 — Arrival models never undercount the event processes they describe.  Statements only. *)
From Coq Require Import List NArith Arith Lia Bool.
From RTA.Model Require Import Base Arrival WellFormed.
From RTA.Spec Require Import Events.
From RTA.Proofs Require Import ArrivalNaProofs.

Theorem C10_zero_at_zero : forall ab, wf_ab ab -> na ab 0 = 0.
Proof. exact na_zero. Qed.
Theorem C10_non_decreasing : forall ab, wf_ab ab -> forall a b, a <= b -> na ab a <= na ab b.
Proof. exact na_mono. Qed.
(* no window of any admissible event sequence (Spec/Events.v) holds more events than the bound:
   periodic/sporadic arrivals with per-event jitter, sequences respecting a delta-min prefix (also for
   the extrapolating curve), delayed sequences, superpositions *)
Theorem C10_admissible_sequences_are_covered : forall ab es, wf_ab ab -> admissible ab es ->
  forall t d : nat, N.of_nat (count es t d) <= na ab (N.of_nat d).
Proof. exact na_bounds_admissible. Qed.
Theorem C10_sporadic_attained : forall T J d, 1 <= T -> exists es t,
  admissible (Sporadic T J) es /\ N.of_nat (count es t (N.to_nat d)) = na (Sporadic T J) d.
Proof. exact sporadic_attained. Qed.
Theorem C10_periodic_attained : forall T d, 1 <= T -> exists es t,
  admissible (Periodic T) es /\ N.of_nat (count es t (N.to_nat d)) = na (Periodic T) d.
Proof. exact periodic_attained. Qed.
Theorem C10_sporadic_subadditive : forall T J a b, 1 <= T -> na (Sporadic T J) (a + b) <= na (Sporadic T J) a + na (Sporadic T J) b.
Proof. exact sporadic_subadditive. Qed.
Theorem C10_periodic_subadditive : forall T a b, 1 <= T -> na (Periodic T) (a + b) <= na (Periodic T) a + na (Periodic T) b.
Proof. exact periodic_subadditive. Qed.
(* clone_with_jitter admits every sequence delayed by at most the added jitter, stays well-formed, and composes additively *)
Theorem C10_clone_with_jitter_admits_delays : forall ab es jit j, admissible ab es -> length jit = length es ->
  Forall (fun x => (x <= N.to_nat j)%nat) jit -> admissible (clone_with_jitter ab j) (zip_add es jit).
Proof. exact clone_with_jitter_admits_delays. Qed.
Theorem C10_clone_with_jitter_wf : forall ab j, wf_ab ab -> wf_ab (clone_with_jitter ab j).
Proof. exact clone_with_jitter_wf. Qed.
Theorem C10_jitter_composes : forall ab a b, clone_with_jitter (clone_with_jitter ab a) b = clone_with_jitter ab (a + b).
Proof. exact clone_with_jitter_compose. Qed.

Example C10_example :
  admissible (Sporadic 10 3) (zip_add [0; 10; 20]%nat [3; 0; 1]%nat) /\ count (zip_add [0; 10; 20]%nat [3; 0; 1]%nat) 3 8 = 2%nat /\ na (Sporadic 10 3) 8 = 2.
Proof.
  split; [|split; vm_compute; reflexivity].
  apply adm_sporadic; [cbn; lia | reflexivity | repeat constructor; cbn; lia].
Qed.
