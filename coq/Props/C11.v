(* C11 — steps_iter yields exactly the points where a bound increases.  Statements only. *)
From Coq Require Import List NArith Arith Lia Bool Sorting.Sorted.
From RTA.Model Require Import Base Arrival Wcet Demand WellFormed.
From RTA.Proofs Require Import StepsProofs.

(* steps_spec f l h: l lists, in strictly increasing order, exactly the points d of [1, h] with f (d-1) < f d.
   steps_exact_class excludes the known class ArrivalCurvePrefix only: since the repair of Curve::number_arrivals at
   exact multiples of the largest known distance, every well-formed Curve is covered (steps_exact_class (CurveAB d) = True),
   also those whose delta-min vector ends in a plateau (former finding C11-plateau-curve). *)
Theorem C11_arrival_steps_exact : forall ab, wf_ab ab -> steps_exact_class ab ->
  forall h, steps_spec (na ab) (steps_upto ab h) h.
Proof. exact steps_upto_exact. Qed.
Theorem C11_request_bound_steps_exact : forall rb, rb_steps_ok rb -> forall h, steps_spec (sn rb) (rb_steps_upto rb h) h.
Proof. exact rb_steps_upto_exact. Qed.
Theorem C11_step_offsets_exact : forall rb, rb_steps_ok rb -> forall h,
  exists offs, step_offsets_below (rb_steps_upto rb h) = Some offs /\
    forall A, In A offs <-> (A < h /\ sn rb A < sn rb (A + 1)).
Proof. exact step_offsets_exact. Qed.
Theorem C11_starts_with_one : forall ab, wf_ab ab -> steps_exact_class ab -> forall h, 1 <= h -> 0 < na ab 1 -> hd 0 (steps_upto ab h) = 1.
Proof. exact steps_start_with_one. Qed.
Theorem C11_empty_when_nothing_arrives : forall ab, wf_ab ab -> steps_exact_class ab -> forall h, (forall d, na ab d = 0) -> steps_upto ab h = [].
Proof. exact steps_empty_when_nothing_arrives. Qed.
Theorem C11_never_zero : forall ab, wf_ab ab -> steps_exact_class ab -> forall h, ~ In 0 (steps_upto ab h).
Proof. exact steps_never_zero. Qed.
(* every well-formed Curve: no side condition on plateaus *)
Theorem C11_curve_steps_exact : forall d, wf_dmin d -> forall h, steps_spec (na (CurveAB d)) (steps_upto (CurveAB d) h) h.
Proof. exact curve_ab_steps_exact. Qed.
(* regression for the repaired finding C11-plateau-curve: the former witness [5; 10; 10] (a plateau-ended vector) meets the
   specification at every horizon; number_arrivals(10) = 2 (3 jobs need a window longer than 10) and the step is at 11 *)
Theorem C11_plateau_curve_steps_exact : wf_dmin [5; 10; 10] /\ plateau_end [5; 10; 10] /\
  (forall h, steps_spec (na (CurveAB [5; 10; 10])) (steps_upto (CurveAB [5; 10; 10]) h) h) /\
  na (CurveAB [5; 10; 10]) 10 = 2 /\ In 11 (steps_upto (CurveAB [5; 10; 10]) 12).
Proof. exact plateau_curve_steps_exact. Qed.
(* the remaining known class (known_findings.json: C11-prefix-zero-step) is genuinely outside *)
Theorem C11_prefix_zero_step_refuted : exists hz s h, wf_prefix hz s /\ In 0 (steps_upto (PrefixAB hz s) h).
Proof. exact prefix_zero_step_refuted. Qed.

Example C11_example :
  let ab := SumAB [Propagated 4 (CurveAB [0; 3; 9]); Sporadic 7 10] in
  steps_upto ab 20 = [1; 5; 6; 9; 12; 15; 18; 19] /\ map (na ab) [0; 1; 4; 5; 6] = [0; 5; 5; 6; 8].
Proof. cbv zeta. split; vm_compute; reflexivity. Qed.
