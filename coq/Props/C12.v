(* C12 — Derived arrival curves dominate their source and are exact on the covered prefix.  Statements only. *)
From Coq Require Import List NArith Arith Lia Bool.
From RTA.Model Require Import Base Arrival WellFormed.
From RTA.Spec Require Import Events.
From RTA.Proofs Require Import ArrivalNaProofs StepsProofs ConvProofs.
From RTA.Proofs Require Import ConvLink.

(* --- Curve::from_trace: entry i is exactly the minimum span of i + 2 consecutive events; the inferred curve
       bounds the trace in EVERY window of EVERY length --- *)
Theorem C12_from_trace_exact_minimum : forall ts k i, sorted ts -> (i < N.to_nat k)%nat -> (i + 1 < length ts)%nat ->
  (forall j, (j + i + 1 < length ts)%nat ->
     nthN (curve_from_trace (trace_N ts) k) i <= N.of_nat (nth (j + i + 1) ts 0%nat - nth j ts 0%nat)) /\
  exists j, (j + i + 1 < length ts)%nat /\
     nthN (curve_from_trace (trace_N ts) k) i = N.of_nat (nth (j + i + 1) ts 0%nat - nth j ts 0%nat).
Proof.
  intros ts k i Hs Hi Hl. split.
  - intros j Hj. exact (from_trace_lower ts k i j Hs Hi Hj).
  - exact (from_trace_attained ts k i Hs Hi Hl).
Qed.
Theorem C12_from_trace_bounds_every_window : forall ts k, sorted ts -> wf_dmin (curve_from_trace (trace_N ts) k) ->
  forall t d : nat, N.of_nat (count ts t d) <= curve_na (curve_from_trace (trace_N ts) k) (N.of_nat d).
Proof. exact from_trace_bounds_trace. Qed.
(* known finding C12-zero-last (from_trace only; from_arrival_bound is repaired, see below): k + 1 simultaneous events
   give a vector ending in 0 *)
Theorem C12_from_trace_zero_last_refuted : exists ts k, sorted ts /\ (2 <= length ts)%nat /\ ~ wf_dmin (curve_from_trace (trace_N ts) k).
Proof. exact from_trace_zero_last_refuted. Qed.

(* --- delta_min_iter is the exact dual of number_arrivals --- *)
Theorem C12_delta_min_dual : forall ab h n x, wf_ab ab -> steps_exact_class ab ->
  In (n, x) (dmins_upto ab h) <-> (2 <= n /\ x + 1 <= h /\ n <= na ab (x + 1) /\ na ab x < n).
Proof. exact dmins_dual. Qed.

(* --- a delta-min vector read off a source: dominates it everywhere (sub-additive source), exact on its prefix --- *)
Theorem C12_exact_vector_dominates_source : forall f d, (forall a b, a <= b -> f a <= f b) -> f 0 = 0 ->
  (forall a b, f (a + b) <= f a + f b) -> (forall x, 0 < x -> 1 <= f x) -> wf_dmin d -> exact_dmin_of f d ->
  forall delta, f delta <= curve_na d delta.
Proof. exact exact_dmin_dominates. Qed.
Theorem C12_exact_vector_exact_on_prefix : forall f d, (forall a b, a <= b -> f a <= f b) -> f 0 = 0 ->
  (forall x, 0 < x -> 1 <= f x) -> f 1 = 1 -> wf_dmin d -> exact_dmin_of f d ->
  forall delta, delta <= lastN d -> curve_na d delta = f delta.
Proof. exact exact_dmin_exact_on_prefix. Qed.
(* the conversions produce exact vectors *)
Theorem C12_from_arrival_bound_until_exact : forall ab hz, wf_ab ab -> steps_exact_class ab -> ~ is_never ab = true ->
  (forall h, exists x, h < x /\ na ab (x - 1) < na ab x) -> exact_dmin_of (na ab) (curve_from_ab_until ab hz).
Proof. exact curve_from_ab_until_exact. Qed.
Theorem C12_from_arrival_bound_exact : forall ab n, wf_ab ab -> steps_exact_class ab -> ~ is_never ab = true ->
  (forall h, exists x, h < x /\ na ab (x - 1) < na ab x) -> exact_dmin_of (na ab) (curve_from_ab ab n).
Proof. exact curve_from_ab_exact. Qed.
Theorem C12_from_periodic : forall T, 1 <= T -> forall delta, na (Periodic T) delta <= curve_na (curve_of_periodic T) delta /\
  (delta <= T -> curve_na (curve_of_periodic T) delta = na (Periodic T) delta).
Proof. exact curve_of_periodic_exact. Qed.
(* the conversions are exact up to AND INCLUDING the largest recorded distance *)
Theorem C12_from_arrival_bound_until_exact_upto_last : forall ab hz, wf_ab ab -> steps_exact_class ab ->
  (forall x, 0 < x -> 1 <= na ab x) ->
  forall delta, delta <= lastN (curve_from_ab_until ab hz) -> curve_na (curve_from_ab_until ab hz) delta = na ab delta.
Proof. exact curve_from_ab_until_exact_upto_last. Qed.
Theorem C12_from_arrival_bound_exact_upto_last : forall ab n, wf_ab ab -> steps_exact_class ab ->
  (forall x, 0 < x -> 1 <= na ab x) ->
  forall delta, delta <= lastN (curve_from_ab ab n) -> curve_na (curve_from_ab ab n) delta = na ab delta.
Proof. exact curve_from_ab_exact_upto_last. Qed.
(* regression for the repaired finding C12-plateau-at-last (exactness at delta = last entry failed for plateau-ended
   vectors): the former witness is exact on its whole prefix *)
Theorem C12_plateau_at_last_repaired :
  let ab := SumAB [Periodic 3; Sporadic 4 2] in let d := [0; 2; 3; 6; 6] in
  wf_ab ab /\ wf_dmin d /\ plateau_end d /\ exact_dmin_of (na ab) d /\
  curve_na d (lastN d) = na ab (lastN d) /\ forall delta, delta <= lastN d -> curve_na d delta = na ab delta.
Proof. exact exact_plateau_repaired. Qed.
(* repaired finding C12-zero-last (from_arrival_bound): the conversions keep going until a non-zero distance is
   included.  Whenever the horizon-doubling loop of the model finds a cut of the delta-min iterator inside which the
   take_while stops ([njobs_enough] / [until_enough], j-th doubling), the result is a well-formed delta-min vector
   (non-empty, non-decreasing, last entry positive) -- for every burst size of the source *)
Theorem C12_from_arrival_bound_usable : forall ab n j, wf_ab ab -> steps_exact_class ab -> is_never ab = false -> (j < 64)%nat ->
  njobs_enough n (dmins_upto ab (N.max 4 1 * 2 ^ N.of_nat j)) = true -> wf_dmin (curve_from_ab ab n).
Proof. exact curve_from_ab_wf. Qed.
Theorem C12_from_arrival_bound_until_usable : forall ab hz j, wf_ab ab -> steps_exact_class ab -> is_never ab = false -> (j < 64)%nat ->
  until_enough hz (dmins_upto ab (N.max (hz + 2) 1 * 2 ^ N.of_nat j)) = true -> wf_dmin (curve_from_ab_until ab hz).
Proof. exact curve_from_ab_until_wf. Qed.
(* regression: the former witness (three simultaneous events: Sporadic period 3 jitter 7) *)
Theorem C12_from_arrival_bound_zero_last_repaired : wf_dmin (curve_from_ab (Sporadic 3 7) 3) /\
  forall delta, delta <= 40 -> na (Sporadic 3 7) delta <= curve_na (curve_from_ab (Sporadic 3 7) 3) delta.
Proof. exact curve_from_ab_zero_last_repaired. Qed.
Theorem C12_from_arrival_bound_until_zero_last_repaired : wf_dmin (curve_from_ab_until (Sporadic 3 7) 0) /\
  forall delta, delta <= 40 -> na (Sporadic 3 7) delta <= curve_na (curve_from_ab_until (Sporadic 3 7) 0) delta.
Proof. exact curve_from_ab_until_zero_last_repaired. Qed.

(* --- ArrivalCurvePrefix recorded from a source --- *)
Theorem C12_prefix_exact_within_horizon : forall ab hz h s, wf_ab ab -> steps_exact_class ab -> 1 <= hz -> 0 < na ab 1 ->
  prefix_from_ab_until ab hz = Some (h, s) -> h = hz /\ forall delta, delta < hz -> prefix_na h s delta = na ab delta.
Proof. exact prefix_from_exact_within_horizon. Qed.
Theorem C12_prefix_dominates : forall ab hz h s, wf_ab ab -> steps_exact_class ab -> 1 <= hz -> 0 < na ab 1 ->
  (forall a b, na ab (a + b) <= na ab a + na ab b) ->
  prefix_from_ab_until ab hz = Some (h, s) -> forall delta, na ab delta <= prefix_na h s delta.
Proof. exact prefix_from_dominates. Qed.

Example C12_example : curve_from_trace (trace_N [0; 4; 4; 9; 20]%nat) 3 = [0; 4; 9] /\
  curve_from_ab_until (Sporadic 10 3) 25 = [7; 17] /\ map (na (Sporadic 10 3)) [7; 8; 17; 18] = [1; 2; 2; 3].
Proof. repeat split; vm_compute; reflexivity. Qed.
Example C12_example_repaired : curve_from_ab (Sporadic 3 7) 3 = [0; 0; 2] /\ curve_from_ab_until (Sporadic 3 7) 0 = [0; 0; 2] /\
  curve_from_ab (Sporadic 5 10) 2 = [0; 0; 5] /\ map (na (Sporadic 3 7)) [1; 2; 3] = [3; 3; 4].
Proof. repeat split; vm_compute; reflexivity. Qed.

(* ---- no loop hypothesis left (Proofs/ConvLink.v): for sources that keep stepping within a bounded gap the model's horizon-doubling
        loop provably finds the iterator prefix under an explicit magnitude bound; instances Periodic / Sporadic (parameters < 2^31),
        From<Sporadic> for Curve included ---- *)
Theorem C12_from_sporadic_usable : forall T J n, 1 <= T -> T < 2 ^ 31 -> J < 2 ^ 31 -> n < 2 ^ 31 ->
  wf_dmin (curve_from_ab (Sporadic T J) n).
Proof. exact curve_from_ab_sporadic_wf. Qed.
Theorem C12_from_sporadic_dominates : forall T J n, 1 <= T -> T < 2 ^ 31 -> J < 2 ^ 31 -> n < 2 ^ 31 ->
  forall delta, na (Sporadic T J) delta <= curve_na (curve_from_ab (Sporadic T J) n) delta.
Proof. exact curve_from_ab_sporadic_dominates. Qed.
Theorem C12_from_sporadic_until_dominates : forall T J hz, 1 <= T -> T < 2 ^ 31 -> J < 2 ^ 31 -> hz < 2 ^ 31 ->
  forall delta, na (Sporadic T J) delta <= curve_na (curve_from_ab_until (Sporadic T J) hz) delta.
Proof. exact curve_from_ab_until_sporadic_dominates. Qed.
Theorem C12_curve_of_sporadic_dominates : forall T J, 1 <= T -> T < 2 ^ 31 -> J < 2 ^ 31 ->
  forall delta, na (Sporadic T J) delta <= curve_na (curve_of_sporadic T J) delta.
Proof. exact curve_of_sporadic_dominates. Qed.
Definition C12_from_sporadic_exact_upto_last := curve_from_ab_sporadic_exact_upto_last.
Definition C12_from_periodic_dominates := curve_from_ab_periodic_dominates.
Definition C12_from_any_source_with_bounded_gaps_usable := curve_from_ab_wf_gap.
Definition C12_from_any_source_with_bounded_gaps_until_usable := curve_from_ab_until_wf_gap.
