(* C13 — Curve extrapolation is conservative, only tightens, and is invisible as a cache.  Statements only. *)
From Coq Require Import List NArith Arith Lia Bool.
From RTA.Model Require Import Base Arrival WellFormed.
From RTA.Spec Require Import Events.
From RTA.Proofs Require Import ArrivalNaProofs ExtrapProofs.

(* the original prefix and all values inside it are unchanged *)
Theorem C13_extrapolate_keeps_prefix : forall d h, exists tl, extrapolate d h = d ++ tl.
Proof. exact extrapolate_keeps_prefix. Qed.
Theorem C13_extrapolate_steps_keeps_prefix : forall d n, exists tl, extrapolate_steps d n = d ++ tl.
Proof. exact extrapolate_steps_keeps_prefix. Qed.
Theorem C13_extrapolate_with_bound_keeps_prefix : forall d delta n d', extrapolate_with_bound d delta n = Some d' -> exists tl, d' = d ++ tl.
Proof. exact extrapolate_with_bound_keeps_prefix. Qed.
Theorem C13_values_inside_prefix_unchanged : forall d h delta, wf_dmin d -> delta <= lastN d ->
  curve_na (extrapolate d h) delta = curve_na d delta.
Proof. exact extrapolate_unchanged_inside_horizon. Qed.
Theorem C13_values_inside_prefix_unchanged_steps : forall d n delta, wf_dmin d -> delta <= lastN d ->
  curve_na (extrapolate_steps d n) delta = curve_na d delta.
Proof. exact extrapolate_steps_unchanged_inside. Qed.
(* extrapolation only tightens, up to the extrapolated horizon (no super-additivity needed) *)
Theorem C13_only_tightens_within_horizon : forall d h delta, wf_dmin d ->
  delta <= lastN (extrapolate d h) -> curve_na (extrapolate d h) delta <= curve_na d delta.
Proof. exact extrapolate_only_tightens_wf. Qed.
(* the same for extrapolate_steps, whose result may end in a plateau (e.g. [0; 2] extended to 13 entries): the last entry
   of the extrapolated vector is included since the repair of Curve::number_arrivals at exact multiples of the last entry
   (this was the "last entry of a plateau-ended extrapolated vector" part of the finding C13-beyond-horizon) *)
Theorem C13_only_tightens_within_horizon_steps : forall d n delta, wf_dmin d ->
  delta <= lastN (extrapolate_steps d n) -> curve_na (extrapolate_steps d n) delta <= curve_na d delta.
Proof. exact extrapolate_steps_only_tightens_wf. Qed.
Theorem C13_plateau_ended_horizon_repaired :
  lastN (extrapolate_steps [0; 2] 13) = 12 /\ plateau_end (extrapolate_steps [0; 2] 13) /\
  curve_na (extrapolate_steps [0; 2] 13) 12 = 12 /\ curve_na [0; 2] 12 = 12.
Proof. exact plateau_ended_horizon_repaired. Qed.
(* known finding C13-beyond-horizon (remaining part): beyond the horizon the inequality fails, because the two vectors
   repeat in different blocks *)
Theorem C13_tightening_fails_beyond_horizon_refuted :
  exists d h delta, realisable d /\ lastN (extrapolate d h) < delta /\ curve_na d delta < curve_na (extrapolate d h) delta.
Proof. exact tightening_fails_beyond_horizon_refuted. Qed.
(* the extrapolated curve still bounds every event sequence that respects the ORIGINAL prefix *)
Theorem C13_extrapolated_curve_bounds_prefix_sequences : forall d h es, wf_dmin d -> respects_dmin d es ->
  forall t delta : nat, N.of_nat (count es t delta) <= curve_na (extrapolate d h) (N.of_nat delta).
Proof. exact extrapolated_curve_bounds_prefix_sequences. Qed.
Theorem C13_extrapolating_curve_bounds_prefix_sequences : forall d es, wf_dmin d -> respects_dmin d es ->
  forall t delta : nat, N.of_nat (count es t delta) <= extrap_na d (N.of_nat delta).
Proof. exact extrapolating_curve_bounds_prefix_sequences. Qed.
(* extrapolation terminates: the horizon is reached without running out of fuel *)
Theorem C13_extrapolate_reaches_horizon : forall d h, wf_dmin d -> (2 <= length d)%nat -> h <= lastN (extrapolate d h).
Proof. exact extrapolate_reaches. Qed.
(* ExtrapolatingCurve answers like an eagerly extrapolated Curve *)
Theorem C13_lazy_equals_eager : forall d delta H, wf_dmin d -> (2 <= length d)%nat -> delta <= H ->
  extrap_na d delta = curve_na (extrapolate d H) delta.
Proof. exact extrap_na_is_eager. Qed.
(* the shared cache is invisible: for every history of queries (number_arrivals / steps) on clones sharing
   the cache, every answer equals the answer of a fresh curve *)
Theorem C13_cache_invisible_number_arrivals : forall d c delta, wf_dmin d -> reachable d c ->
  snd (cache_na c delta) = extrap_na d delta /\ reachable d (fst (cache_na c delta)).
Proof. exact cache_na_invisible. Qed.
Theorem C13_cache_invisible_steps : forall d c h, wf_dmin d -> reachable d c ->
  snd (cache_steps c h) = extrap_steps_upto d h /\ reachable d (fst (cache_steps c h)).
Proof. exact cache_steps_invisible. Qed.
Theorem C13_history_invisible : forall d qs, wf_dmin d -> hrun d qs = map (fun q => snd (hstep d q)) qs.
Proof. exact history_invisible. Qed.

Example C13_example :
  extrapolate [2; 5] 12 = [2; 5; 7; 10; 12] /\ realisable [2; 5] /\
  hrun [2; 5] [HNa 30; HStepsUpto 9; HNa 4] = [ANa 12; ASteps [1; 3; 6; 8]; ANa 2].
Proof.
  split; [vm_compute; reflexivity|]. split; [|vm_compute; reflexivity].
  destruct C13_tightening_fails_beyond_horizon_refuted as [d _]. clear d.
  split; [split; [discriminate|split; [intros i Hi; cbn in Hi; destruct i as [|i]; [vm_compute; discriminate|lia] | vm_compute; reflexivity]]|].
  intros i j Hij. cbn in Hij. assert (i = 0%nat /\ j = 0%nat) as [-> ->] by lia. vm_compute. discriminate.
Qed.
