(* C14 — Job-cost models bound every run of consecutive jobs.  Statements only. *)
From Coq Require Import List NArith Arith Lia Bool.
From RTA.Model Require Import Base Wcet WellFormed Eval.
From RTA.Proofs Require Import WcetProofs WcetTraceProofs MultiframeWindow.

Theorem C14_cost_zero : forall cm, cost_of_jobs cm 0 = 0.
Proof. exact cost_zero. Qed.
Theorem C14_cost_monotone : forall cm, wf_cm cm -> forall a b, a <= b -> cost_of_jobs cm a <= cost_of_jobs cm b.
Proof. exact cost_mono. Qed.
Theorem C14_cost_is_sum_of_job_costs : forall cm, wf_cm cm -> forall n, sumN (job_costs cm n) = cost_of_jobs cm n.
Proof. exact cost_sum_job_costs. Qed.
Theorem C14_least_wcet_below_every_item : forall cm, wf_cm cm -> forall n c, In c (job_costs cm n) -> least_wcet cm n <= c.
Proof. exact least_le_job_costs. Qed.
(* a curve inferred from a trace bounds EVERY run of n consecutive jobs, for every n (also beyond the prefix);
   inside the prefix it is exact *)
Theorem C14_from_trace_bounds_every_run : forall costs k i n, 1 <= k -> (i + n <= length costs)%nat ->
  run_cost costs i n <= wcurve_cost (wcurve_from_trace costs k) (N.of_nat n).
Proof. exact from_trace_bounds_every_run. Qed.
Theorem C14_from_trace_exact_inside_prefix : forall costs k n, (1 <= n)%nat -> (n <= N.to_nat k)%nat -> (n <= length costs)%nat ->
  exists i, (i + n <= length costs)%nat /\ run_cost costs i n = nthN (wcurve_from_trace costs k) (n - 1).
Proof. exact from_trace_attained. Qed.
Theorem C14_from_trace_well_formed : forall costs k, costs <> [] -> 1 <= k ->
  wf_cm (CurveCM (wcurve_from_trace costs k)) /\ subadditive (wcurve_from_trace costs k).
Proof. exact from_trace_wf. Qed.
(* extrapolation never raises a bound (inside the extrapolated vector), keeps the prefix, keeps dominating the trace *)
Theorem C14_extrapolate_keeps_prefix : forall l m, exists tl, wextrapolate l m = l ++ tl.
Proof. exact wextrapolate_keeps_prefix. Qed.
Theorem C14_extrapolation_never_raises : forall l m n, n <= lenN (wextrapolate l m) -> wcurve_cost (wextrapolate l m) n <= wcurve_cost l n.
Proof. exact wextrapolate_never_raises_gen. Qed.
Theorem C14_extrapolation_bounds_every_run : forall costs k m i n, 1 <= k -> (i + n <= length costs)%nat ->
  run_cost costs i n <= wcurve_cost (wextrapolate (wcurve_from_trace costs k) m) (N.of_nat n).
Proof. exact wextrapolate_bounds_every_run. Qed.
Theorem C14_extrapolating_curve_bounds_every_run : forall costs k i n, 1 <= k -> (i + n <= length costs)%nat ->
  run_cost costs i n <= cost_of_jobs (ExtrapCM (wcurve_from_trace costs k)) (N.of_nat n).
Proof. exact extrapolating_curve_bounds_every_run. Qed.
(* known finding C14-beyond-extrapolated: beyond the extrapolated vector an eagerly extrapolated curve can exceed the original *)
Theorem C14_never_raises_fails_beyond_refuted :
  exists costs k m n, let l := wcurve_from_trace costs k in
    l <> [] /\ nondecreasing l /\ subadditive l /\ lenN (wextrapolate l m) < n /\ wcurve_cost l n < wcurve_cost (wextrapolate l m) n.
Proof. exact wextrapolate_never_raises_beyond_refuted. Qed.
(* the caching variant answers every query like a fresh one, whatever the query history *)
Theorem C14_cache_invisible : forall l ops, wf_cm (ExtrapCM l) -> chist l ops = flat_map (fresh_answers l) ops.
Proof. exact chist_invisible. Qed.
(* ... which needs the documented sub-additivity of the prefix for least_wcet *)
Theorem C14_cache_visible_without_subadditivity_refuted :
  exists l ops, l <> [] /\ nondecreasing l /\ chist l ops <> flat_map (fresh_answers l) ops.
Proof. exact chist_invisible_needs_subadditive. Qed.

Example C14_example : wcurve_from_trace [1; 1; 5] 2 = [5; 6] /\ run_cost [1; 1; 5] 2 1 = 5 /\
  cost_of_jobs (CurveCM (wcurve_from_trace [1; 1; 5] 2)) 3 = 11.
Proof. repeat split; vm_compute; reflexivity. Qed.

(* ---- wcet::Multiframe and "every run of consecutive jobs" (Proofs/MultiframeWindow.v): job_cost_iter is the cyclic frame sequence
        from the first frame; cost_of_jobs n is the cost of the run that STARTS AT THE FIRST FRAME (any vector); it bounds the run of n
        consecutive jobs from EVERY starting frame s iff no cyclic window beats the first n frames -- proved for non-increasing frame
        vectors, refuted for [1;3] (a run of one job entering the cycle at the second frame costs 3 > cost_of_jobs 1 = 1) ---- *)
Theorem C14_multiframe_job_costs_cycle : forall l n, l <> [] ->
  job_costs (Multiframe l) n = map (frame_at l) (rangeN 0 n).
Proof. exact job_costs_multiframe. Qed.
Theorem C14_multiframe_nonincreasing_bounds_every_run : forall l s n, l <> [] -> nonincreasing l ->
  sumN (map (fun i => frame_at l (s + i)) (rangeN 0 n)) <= cost_of_jobs (Multiframe l) n.
Proof. exact multiframe_window_bound. Qed.
Definition C14_multiframe_increasing_frames_refuted := mfw_example.
