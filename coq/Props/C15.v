(* C15 — The approximated Poisson bound is the (1 - epsilon) quantile.  Statements only.
   PARTIAL in one respect only: the Rust code computes in f64 (libm exp / ln are not specified bit-for-bit), so no
   theorem speaks about the floating-point program itself.  Proved: the real-number specification (mass function,
   cumulative distribution, existence / uniqueness / monotonicity of the quantile — hence termination of the
   accumulate-until loop over the reals) and the soundness of the executable checker `poisson_check` (exact
   integer arithmetic with a certified enclosure of e^m) that decides, for the implementation's answer n, whether n
   lies in the tolerance band  cdf(n) >= 1 - eps - tau  and  cdf(n - 1) < 1 - eps + tau  (tau = 1e-9 in the check).
   AXIOMS: these theorems use the real numbers of the standard library and Coquelicot and therefore depend on
   ClassicalDedekindReals.sig_forall_dec, ClassicalDedekindReals.sig_not_dec,
   FunctionalExtensionality.functional_extensionality_dep and (mean-monotonicity only) Classical_Prop.classic. *)
From Coq Require Import Reals ZArith NArith List.
From RTA.Model Require Import Poisson.
From RTA.Proofs Require Import PoissonProofs.
Local Open Scope R_scope.

(* arrival_probability is specified as the Poisson mass function; the cumulative distribution tends to 1 *)
Theorem C15_mass_function_nonnegative : forall m k, 0 <= m -> 0 <= pmf m k.
Proof. exact pmf_nonneg. Qed.
Theorem C15_cdf_tends_to_one : forall m, Un_cv (cdf m) 1.
Proof. exact cdf_tends_to_1. Qed.
(* the smallest n with P[N <= n] >= 1 - eps exists and is unique for every mean >= 0 and eps in (0,1):
   the accumulate-until loop terminates (over the reals) with a well-defined answer *)
Theorem C15_quantile_exists_unique : forall m eps, 0 <= m -> 0 < eps < 1 -> exists! n, is_quantile m eps n.
Proof. exact quantile_exists_unique. Qed.
(* it is 0 for delta = 0 and non-decreasing in the mean rate * delta *)
Theorem C15_zero_for_zero_mean : forall eps, 0 < eps < 1 -> is_quantile 0 eps 0.
Proof. exact quantile_zero_mean. Qed.
Theorem C15_monotone_in_mean : forall eps m1 m2 n1 n2, 0 <= m1 <= m2 ->
  is_quantile m1 eps n1 -> is_quantile m2 eps n2 -> (n1 <= n2)%nat.
Proof. exact quantile_monotone_in_mean. Qed.
(* the executable checker is sound: an accepted n lies in the tolerance band of the quantile *)
Theorem C15_checker_sound : forall rn rd en ed tn td delta n : N,
  poisson_check rn rd en ed tn td delta n = true ->
  let m := NR rn * NR delta / NR rd in let eps := NR en / NR ed in let tau := NR tn / NR td in
  (rd <> 0%N /\ ed <> 0%N /\ td <> 0%N) /\
  1 - eps - tau <= cdf m (N.to_nat n) /\
  (n = 0%N \/ cdf m (N.to_nat n - 1) < 1 - eps + tau).
Proof. exact poisson_check_sound. Qed.
(* and an accepted n lies between the exact quantiles for eps + tau and eps - tau *)
Theorem C15_band_between_quantiles : forall m eps tau (n nlo nhi : nat), 0 <= m ->
  1 - eps - tau <= cdf m n -> (n = 0%nat \/ cdf m (n - 1) < 1 - eps + tau) ->
  is_quantile m (eps + tau) nlo -> is_quantile m (eps - tau) nhi -> (nlo <= n <= nhi)%nat.
Proof. exact band_between_quantiles. Qed.

Example C15_example : poisson_check 1 1 1 100 1 1000000000 200 234 = true /\ poisson_check 1 1 1 100 1 1000000000 200 233 = false
  /\ poisson_check 1 1 1 100 1 1000000000 200 235 = false.
Proof. repeat split; vm_compute; reflexivity. Qed.
