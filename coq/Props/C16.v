(* C16 — Request-bound functions compose arrival and cost models additively.  Statements only. *)
From Coq Require Import List NArith Lia Bool Permutation.
From RTA.Model Require Import Base Arrival Wcet Demand WellFormed.
From RTA.Proofs Require Import WcetProofs DemandProofs.

Theorem C16_rbf_is_cost_of_arrivals : forall ab cm delta, sn (RBF ab cm) delta = cost_of_jobs cm (na ab delta).
Proof. exact rbf_service_needed. Qed.
Theorem C16_job_costs_sum_to_service_needed : forall rb, cm_wf_rb rb -> forall delta, sumN (jc rb delta) = sn rb delta.
Proof. exact jc_sums_to_sn. Qed.
Theorem C16_aggregate_is_sum : forall l delta, sn (Agg l) delta = sumN (map (fun r => sn r delta) l).
Proof. exact agg_service_needed. Qed.
Theorem C16_aggregate_jobs_are_component_jobs : forall l delta,
  Permutation (jc (Agg l) delta) (concat (map (fun r => jc r delta) l)).
Proof. exact jc_agg_permutation. Qed.
Theorem C16_least_wcet_below_every_job : forall rb, cm_wf_rb rb -> forall delta c, In c (jc rb delta) -> lw rb delta <= c.
Proof. exact lw_le_every_job_cost. Qed.
Theorem C16_by_n_jobs_monotone : forall rb delta n m, n <= m -> snn rb delta n <= snn rb delta m.
Proof. exact snn_mono. Qed.
Theorem C16_by_n_jobs_below_total : forall rb, cm_wf_rb rb -> forall delta n, snn rb delta n <= sn rb delta.
Proof. exact snn_le_sn. Qed.
Theorem C16_by_n_jobs_saturates : forall rb, cm_wf_rb rb -> forall delta n, lenN (jc rb delta) <= n -> snn rb delta n = sn rb delta.
Proof. exact snn_saturates. Qed.
Theorem C16_by_n_jobs_is_n_largest_upper : forall rb delta n l1 l2,
  Permutation (l1 ++ l2) (jc rb delta) -> (length l1 <= N.to_nat n)%nat -> sumN l1 <= snn rb delta n.
Proof. exact snn_upper. Qed.
Theorem C16_by_n_jobs_is_n_largest_attained : forall rb delta n, exists l1 l2,
  Permutation (l1 ++ l2) (jc rb delta) /\ length l1 = Nat.min (N.to_nat n) (length (jc rb delta)) /\ sumN l1 = snn rb delta n.
Proof. exact snn_attained. Qed.
Theorem C16_per_component : forall l delta n, snc (Agg l) delta n = Some (sumN (map (fun r => snn r delta n) l)).
Proof. exact snc_components. Qed.
Theorem C16_nesting_invisible_sn : forall l1 l2 l3 delta, sn (Agg (l1 ++ Agg l2 :: l3)) delta = sn (Agg (l1 ++ l2 ++ l3)) delta.
Proof. exact sn_flatten. Qed.
Theorem C16_nesting_invisible_jobs : forall l1 l2 l3 delta,
  Permutation (jc (Agg (l1 ++ Agg l2 :: l3)) delta) (jc (Agg (l1 ++ l2 ++ l3)) delta).
Proof. exact jc_flatten. Qed.
Theorem C16_nesting_invisible_by_n_jobs : forall l1 l2 l3 delta n,
  snn (Agg (l1 ++ Agg l2 :: l3)) delta n = snn (Agg (l1 ++ l2 ++ l3)) delta n.
Proof. exact snn_flatten. Qed.

Example C16_example :
  let rb := Agg [RBF (Sporadic 5 2) (Multiframe [7; 4]); RBF (CurveAB [2; 9]) (CurveCM [9; 13])] in
  cm_wf_rb rb /\ sn rb 12 = 44 /\ snn rb 12 2 = 18 /\ lw rb 12 = 4.
Proof. cbv zeta. split; [|vm_compute; repeat split; reflexivity].
  cbn. repeat split; try discriminate; intros i Hi; destruct i as [|[|i]]; cbn in *; try lia; vm_compute; discriminate. Qed.
