(* C17 — Response-time bounds are monotone in workload and supply.  Statements only.
   rle a b: a is at most as pessimistic as b (Ok x <= Ok y for x <= y; Ok below Err; Err only below Err).
   ple f g: pointwise order on curves (a larger WCET, more jitter, a shorter period, an added task all make
   the request-bound function pointwise larger: C10 / C14 / C16). *)
From Coq Require Import List NArith Lia Bool.
From RTA.Model Require Import Base FixedPoint Analyses Ros2 Supply.
From RTA.Spec Require Import Exhaustive.
From RTA.Proofs Require Import ExhFP ExhEDF SupplyProofs MonoProofs.

(* ---- fixed priority: larger blocking, larger RBFs (tua and interfering), all four analyses ---- *)
Theorem C17_fp_generic_monotone : forall dbg B B' rem tua tua' hp hp' steps steps' limit,
  B <= B' -> ple tua tua' -> ple hp hp' ->
  mono tua -> mono hp -> steps_exact tua steps -> 0 < tua 1 -> tua 0 = 0 -> (forall d, tua (d - 1) < tua d -> tua (d - 1) + rem < tua d) ->
  mono tua' -> mono hp' -> steps_exact tua' steps' -> tua' 0 = 0 -> (forall d, tua' (d - 1) < tua' d -> tua' (d - 1) + rem < tua' d) ->
  rle (fp_generic dbg true B rem tua hp steps limit) (fp_generic dbg true B' rem tua' hp' steps' limit).
Proof. exact fp_generic_mono. Qed.
(* a larger WCET of the analysed task in the non-preemptive / limited-preemptive analyses (rem changes with C) *)
Theorem C17_fp_np_monotone : forall arr arr' hp hp' steps steps' limit,
  ple arr arr' -> ple hp hp' -> mono arr -> mono arr' -> mono hp -> mono hp' -> arr 0 = 0 -> arr' 0 = 0 -> 0 < arr 1 ->
  steps_exact arr steps -> steps_exact arr' steps' ->
  forall dbg C C' B B', 1 <= C -> C <= C' -> B <= B' ->
  rle (fp_np dbg C B arr hp steps limit) (fp_np dbg C' B' arr' hp' steps' limit).
Proof. exact fp_np_mono. Qed.
Theorem C17_fp_lp_monotone : forall arr arr' hp hp' steps steps' limit,
  ple arr arr' -> ple hp hp' -> mono arr -> mono arr' -> mono hp -> mono hp' -> arr 0 = 0 -> arr' 0 = 0 -> 0 < arr 1 ->
  steps_exact arr steps -> steps_exact arr' steps' ->
  forall dbg C C' last B B', 1 <= last -> last <= C -> C <= C' -> B <= B' ->
  rle (fp_lp dbg C last B arr hp steps limit) (fp_lp dbg C' last B' arr' hp' steps' limit).
Proof. exact fp_lp_mono. Qed.
Theorem C17_fp_limit_independent : forall dbg B rem tua hp steps limit limit' R, limit <= limit' ->
  mono tua -> mono hp -> steps_exact tua steps -> 0 < tua 1 -> tua 0 = 0 -> (forall d, tua (d - 1) < tua d -> tua (d - 1) + rem < tua d) ->
  fp_generic dbg true B rem tua hp steps limit = ROk R -> fp_generic dbg true B rem tua hp steps limit' = ROk R.
Proof. exact fp_generic_limit. Qed.

(* ---- EDF: larger RBFs, longer segments of other tasks (same deadlines), an added task, the limit ---- *)
Theorem C17_edf_monotone : forall dbg ub rem tua tua' steps steps' D others others' limit,
  ple tua tua' -> Forall2 other_rec_le others others' ->
  mono tua -> steps_exact tua steps -> tua 0 = 0 -> 0 < tua 1 -> (forall d, tua (d - 1) < tua d -> tua (d - 1) + rem < tua d) -> others_wf others ->
  mono tua' -> steps_exact tua' steps' -> tua' 0 = 0 -> (forall d, tua' (d - 1) < tua' d -> tua' (d - 1) + rem < tua' d) -> others_wf others' ->
  rle (edf_generic dbg ub true rem tua steps D others limit) (edf_generic dbg ub true rem tua' steps' D others' limit).
Proof. exact edf_generic_mono. Qed.
Theorem C17_edf_added_task : forall dbg ub rem tua steps D others o limit,
  mono tua -> steps_exact tua steps -> tua 0 = 0 -> 0 < tua 1 -> (forall d, tua (d - 1) < tua d -> tua (d - 1) + rem < tua d) ->
  others_wf (o :: others) ->
  rle (edf_generic dbg ub true rem tua steps D others limit) (edf_generic dbg ub true rem tua steps D (o :: others) limit).
Proof. exact edf_generic_add_task. Qed.
Theorem C17_edf_limit_independent : forall dbg ub rem tua steps D others limit limit' R, limit <= limit' ->
  mono tua -> steps_exact tua steps -> tua 0 = 0 -> 0 < tua 1 -> (forall d, tua (d - 1) < tua d -> tua (d - 1) + rem < tua d) -> others_wf others ->
  edf_generic dbg ub true rem tua steps D others limit = ROk R -> edf_generic dbg ub true rem tua steps D others limit' = ROk R.
Proof. exact edf_generic_limit. Qed.

(* ---- FIFO ---- *)
Theorem C17_fifo_monotone : forall dbg total total' steps steps' limit,
  ple total total' -> mono total -> mono total' -> steps_exact total steps -> steps_exact total' steps' ->
  0 < total 1 -> total 0 = 0 -> total' 0 = 0 ->
  rle (fifo_rta dbg total steps limit) (fifo_rta dbg total' steps' limit).
Proof. exact fifo_rta_mono. Qed.
Theorem C17_fifo_limit_independent : forall dbg total steps limit limit' R, limit <= limit' ->
  mono total -> steps_exact total steps -> 0 < total 1 -> total 0 = 0 ->
  fifo_rta dbg total steps limit = ROk R -> fifo_rta dbg total steps limit' = ROk R.
Proof. exact fifo_rta_limit. Qed.

(* ---- ROS 2: a supply that provides less service in every window (sbf' <= sbf pointwise) and a harder
        workload (larger arrival curves, costs, assumed bounds of any callback) ---- *)
Definition galois (sbf st : N -> N) : Prop := forall d t, st d <= t <-> d <= sbf t.
Definition lipschitz (sbf : N -> N) : Prop := forall t, sbf (t + 1) <= sbf t + 1.
Theorem C17_rr_subchain_monotone : forall sbf st sbf' st', galois sbf st -> galois sbf' st' -> ple sbf' sbf ->
  sbf 0 = 0 -> sbf' 0 = 0 -> lipschitz sbf -> lipschitz sbf' ->
  forall dbg wl wl' sc limit, Forall2 cb_le wl wl' -> (forall cb, In cb wl -> cb_mono cb) -> (forall cb, In cb wl' -> cb_mono cb) ->
  rle (rr_subchain dbg sbf st wl sc limit) (rr_subchain dbg sbf' st' wl' sc limit).
Proof. exact rr_subchain_mono. Qed.
Theorem C17_rr_subchain_limit_independent : forall dbg sbf st wl sc limit limit' R, galois sbf st -> sbf 0 = 0 -> lipschitz sbf ->
  (forall cb, In cb wl -> cb_mono cb) -> limit <= limit' ->
  rr_subchain dbg sbf st wl sc limit = ROk R -> rr_subchain dbg sbf st wl sc limit' = ROk R.
Proof. exact rr_subchain_limit. Qed.
Theorem C17_event_source_monotone : forall sbf st sbf' st', galois sbf st -> galois sbf' st' -> ple sbf' sbf ->
  sbf 0 = 0 -> sbf' 0 = 0 -> lipschitz sbf -> lipschitz sbf' ->
  forall dbg demand demand' steps steps' limit, ple demand demand' -> mono demand -> mono demand' ->
  steps_exact demand steps -> steps_exact demand' steps' -> demand' 0 = 0 ->
  rle (rta_event_source dbg sbf st limit demand steps) (rta_event_source dbg sbf' st' limit demand' steps').
Proof. exact rta_event_source_mono. Qed.
Theorem C17_event_source_limit_independent : forall sbf st, galois sbf st -> sbf 0 = 0 -> lipschitz sbf ->
  forall demand steps, mono demand -> steps_exact demand steps -> forall dbg limit limit' R, limit <= limit' ->
  rta_event_source dbg sbf st limit demand steps = ROk R -> rta_event_source dbg sbf st limit' demand steps = ROk R.
Proof. exact rta_event_source_limit. Qed.
(* not covered by a theorem: monotonicity of rta_timer / rta_polling_point_callback / rta_processing_chain and of the
   bw subchain analysis (their pruned offset sets: see C07); these are exercised by the pair oracle of this check only *)
