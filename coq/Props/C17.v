(* C17 — Response-time bounds are monotone in workload and supply.  Statements only.
   rle a b: a is at most as pessimistic as b (Ok x <= Ok y for x <= y; Ok below Err; Err only below Err).
   ple f g: pointwise order on curves (a larger WCET, more jitter, a shorter period, an added task all make
   the request-bound function pointwise larger: C10 / C14 / C16). *)
From Coq Require Import List NArith Lia Bool.
From RTA.Model Require Import Base FixedPoint Analyses Ros2 Supply.
From RTA.Spec Require Import Exhaustive.
From RTA.Model Require Import Arrival Wcet Demand Eval WellFormed.
From RTA.Proofs Require Import ExhFP ExhEDF SupplyProofs MonoProofs MonoRos.

(* ---- fixed priority: larger blocking, larger RBFs (tua and interfering), all four analyses ---- *)
Theorem C17_fp_generic_monotone : forall dbg B B' rem tua tua' hp hp' steps steps' limit,
  B <= B' -> ple tua tua' -> ple hp hp' ->
  mono tua -> mono hp -> steps_exact tua steps -> 0 < tua 1 -> tua 0 = 0 -> (forall d, tua (d - 1) < tua d -> tua (d - 1) + rem < tua d) ->
  mono tua' -> mono hp' -> steps_exact tua' steps' -> tua' 0 = 0 -> (forall d, tua' (d - 1) < tua' d -> tua' (d - 1) + rem < tua' d) ->
  rle (fp_generic dbg true B rem tua hp steps limit) (fp_generic dbg true B' rem tua' hp' steps' limit).
Proof. exact fp_generic_mono. Qed.
(* a larger WCET of the analysed task in the non-preemptive / limited-preemptive analyses (rem changes with C) *)
Theorem C17_fp_np_monotone : forall arr arr' hp hp' steps steps' limit,
  ple arr arr' -> ple hp hp' -> mono arr -> mono arr' -> mono hp -> mono hp' -> arr 0 = 0 -> arr' 0 = 0 -> 0 < arr 1 ->
  steps_exact arr steps -> steps_exact arr' steps' ->
  forall dbg C C' B B', 1 <= C -> C <= C' -> B <= B' ->
  rle (fp_np dbg C B arr hp steps limit) (fp_np dbg C' B' arr' hp' steps' limit).
Proof. exact fp_np_mono. Qed.
Theorem C17_fp_lp_monotone : forall arr arr' hp hp' steps steps' limit,
  ple arr arr' -> ple hp hp' -> mono arr -> mono arr' -> mono hp -> mono hp' -> arr 0 = 0 -> arr' 0 = 0 -> 0 < arr 1 ->
  steps_exact arr steps -> steps_exact arr' steps' ->
  forall dbg C C' last B B', 1 <= last -> last <= C -> C <= C' -> B <= B' ->
  rle (fp_lp dbg C last B arr hp steps limit) (fp_lp dbg C' last B' arr' hp' steps' limit).
Proof. exact fp_lp_mono. Qed.
Theorem C17_fp_limit_independent : forall dbg B rem tua hp steps limit limit' R, limit <= limit' ->
  mono tua -> mono hp -> steps_exact tua steps -> 0 < tua 1 -> tua 0 = 0 -> (forall d, tua (d - 1) < tua d -> tua (d - 1) + rem < tua d) ->
  fp_generic dbg true B rem tua hp steps limit = ROk R -> fp_generic dbg true B rem tua hp steps limit' = ROk R.
Proof. exact fp_generic_limit. Qed.

(* ---- EDF: larger RBFs, longer segments of other tasks (same deadlines), an added task, the limit ---- *)
Theorem C17_edf_monotone : forall dbg ub rem tua tua' steps steps' D others others' limit,
  ple tua tua' -> Forall2 other_rec_le others others' ->
  mono tua -> steps_exact tua steps -> tua 0 = 0 -> 0 < tua 1 -> (forall d, tua (d - 1) < tua d -> tua (d - 1) + rem < tua d) -> others_wf others ->
  mono tua' -> steps_exact tua' steps' -> tua' 0 = 0 -> (forall d, tua' (d - 1) < tua' d -> tua' (d - 1) + rem < tua' d) -> others_wf others' ->
  rle (edf_generic dbg ub true rem tua steps D others limit) (edf_generic dbg ub true rem tua' steps' D others' limit).
Proof. exact edf_generic_mono. Qed.
Theorem C17_edf_added_task : forall dbg ub rem tua steps D others o limit,
  mono tua -> steps_exact tua steps -> tua 0 = 0 -> 0 < tua 1 -> (forall d, tua (d - 1) < tua d -> tua (d - 1) + rem < tua d) ->
  others_wf (o :: others) ->
  rle (edf_generic dbg ub true rem tua steps D others limit) (edf_generic dbg ub true rem tua steps D (o :: others) limit).
Proof. exact edf_generic_add_task. Qed.
Theorem C17_edf_limit_independent : forall dbg ub rem tua steps D others limit limit' R, limit <= limit' ->
  mono tua -> steps_exact tua steps -> tua 0 = 0 -> 0 < tua 1 -> (forall d, tua (d - 1) < tua d -> tua (d - 1) + rem < tua d) -> others_wf others ->
  edf_generic dbg ub true rem tua steps D others limit = ROk R -> edf_generic dbg ub true rem tua steps D others limit' = ROk R.
Proof. exact edf_generic_limit. Qed.

(* ---- FIFO ---- *)
Theorem C17_fifo_monotone : forall dbg total total' steps steps' limit,
  ple total total' -> mono total -> mono total' -> steps_exact total steps -> steps_exact total' steps' ->
  0 < total 1 -> total 0 = 0 -> total' 0 = 0 ->
  rle (fifo_rta dbg total steps limit) (fifo_rta dbg total' steps' limit).
Proof. exact fifo_rta_mono. Qed.
Theorem C17_fifo_limit_independent : forall dbg total steps limit limit' R, limit <= limit' ->
  mono total -> steps_exact total steps -> 0 < total 1 -> total 0 = 0 ->
  fifo_rta dbg total steps limit = ROk R -> fifo_rta dbg total steps limit' = ROk R.
Proof. exact fifo_rta_limit. Qed.

(* ---- ROS 2: a supply that provides less service in every window (sbf' <= sbf pointwise) and a harder
        workload (larger arrival curves, costs, assumed bounds of any callback) ---- *)
Definition galois (sbf st : N -> N) : Prop := forall d t, st d <= t <-> d <= sbf t.
Definition lipschitz (sbf : N -> N) : Prop := forall t, sbf (t + 1) <= sbf t + 1.
Theorem C17_rr_subchain_monotone : forall sbf st sbf' st', galois sbf st -> galois sbf' st' -> ple sbf' sbf ->
  sbf 0 = 0 -> sbf' 0 = 0 -> lipschitz sbf -> lipschitz sbf' ->
  forall dbg wl wl' sc limit, Forall2 cb_le wl wl' -> (forall cb, In cb wl -> cb_mono cb) -> (forall cb, In cb wl' -> cb_mono cb) ->
  rle (rr_subchain dbg sbf st wl sc limit) (rr_subchain dbg sbf' st' wl' sc limit).
Proof. exact rr_subchain_mono. Qed.
Theorem C17_rr_subchain_limit_independent : forall dbg sbf st wl sc limit limit' R, galois sbf st -> sbf 0 = 0 -> lipschitz sbf ->
  (forall cb, In cb wl -> cb_mono cb) -> limit <= limit' ->
  rr_subchain dbg sbf st wl sc limit = ROk R -> rr_subchain dbg sbf st wl sc limit' = ROk R.
Proof. exact rr_subchain_limit. Qed.
Theorem C17_event_source_monotone : forall sbf st sbf' st', galois sbf st -> galois sbf' st' -> ple sbf' sbf ->
  sbf 0 = 0 -> sbf' 0 = 0 -> lipschitz sbf -> lipschitz sbf' ->
  forall dbg demand demand' steps steps' limit, ple demand demand' -> mono demand -> mono demand' ->
  steps_exact demand steps -> steps_exact demand' steps' -> demand' 0 = 0 ->
  rle (rta_event_source dbg sbf st limit demand steps) (rta_event_source dbg sbf' st' limit demand' steps').
Proof. exact rta_event_source_mono. Qed.
Theorem C17_event_source_limit_independent : forall sbf st, galois sbf st -> sbf 0 = 0 -> lipschitz sbf ->
  forall demand steps, mono demand -> steps_exact demand steps -> forall dbg limit limit' R, limit <= limit' ->
  rta_event_source dbg sbf st limit demand steps = ROk R -> rta_event_source dbg sbf st limit' demand steps = ROk R.
Proof. exact rta_event_source_limit. Qed.
(* ---- ECRTS'19 timer / polling-point / processing-chain analyses.  They are NOT monotone in general: with a NON-SCALAR cost
        model of the analysed callback, raising the WCET of one frame raises least_wcet_in_interval, which shortens the interval
        A + R - own_wcet + 1 in which other callbacks interfere, and the bound DROPS (known finding C17-least-wcet; replayed on
        the crate: pp/timer/chain 6 -> 5).  For scalar cost models -- larger WCETs of the analysed callback and of the chain's
        prefix, larger arrival curve (more jitter, shorter period), more interference (added callbacks), larger blocking bound,
        weaker supply -- they are monotone, and an Ok result never depends on the limit. ---- *)
Theorem C17_timer_monotone_scalar : forall sbf st sbf' st', galois sbf st -> galois sbf' st' -> ple sbf' sbf ->
  sbf 0 = 0 -> sbf' 0 = 0 -> lipschitz sbf -> lipschitz sbf' ->
  forall dbg (na na' : N -> N) C C' steps steps' intf intf' B B' limit,
  ple na na' -> ple intf intf' -> B <= B' -> mono na -> mono na' -> mono intf -> mono intf' ->
  steps_exact na steps -> steps_exact na' steps' -> na' 0 = 0 -> 0 < na 1 -> 1 <= C -> C <= C' ->
  rle (rta_timer dbg sbf st limit (fun d => C * na d) (fun d => if 0 <? na d then C else 0) steps intf B)
      (rta_timer dbg sbf' st' limit (fun d => C' * na' d) (fun d => if 0 <? na' d then C' else 0) steps' intf' B').
Proof. exact timer_mono_scalar. Qed.
Theorem C17_polling_point_monotone_scalar : forall sbf st sbf' st', galois sbf st -> galois sbf' st' -> ple sbf' sbf ->
  sbf 0 = 0 -> sbf' 0 = 0 -> lipschitz sbf -> lipschitz sbf' ->
  forall dbg (na na' : N -> N) C C' steps steps' intf intf' limit,
  ple na na' -> ple intf intf' -> mono na -> mono na' -> mono intf -> mono intf' ->
  steps_exact na steps -> steps_exact na' steps' -> na' 0 = 0 -> 0 < na 1 -> 1 <= C -> C <= C' ->
  rle (rta_pp dbg sbf st limit (fun d => C * na d) (fun d => if 0 <? na d then C else 0) steps intf)
      (rta_pp dbg sbf' st' limit (fun d => C' * na' d) (fun d => if 0 <? na' d then C' else 0) steps' intf').
Proof. exact pp_mono_scalar. Qed.
(* a chain whose callbacks share the source's arrival curve (as every real chain does) *)
Theorem C17_chain_monotone_scalar : forall sbf st sbf' st', galois sbf st -> galois sbf' st' -> ple sbf' sbf ->
  sbf 0 = 0 -> sbf' 0 = 0 -> lipschitz sbf -> lipschitz sbf' ->
  forall dbg (na na' : N -> N) Cl Cl' Cp Cp' (full full' : N -> N) fsteps fsteps' (other other' : N -> N) limit,
  (forall d, full d = Cp * na d + Cl * na d) -> (forall d, full' d = Cp' * na' d + Cl' * na' d) ->
  ple na na' -> ple other other' -> mono na -> mono na' -> mono other -> mono other' ->
  steps_exact full fsteps -> steps_exact full' fsteps' -> na' 0 = 0 -> 0 < na 1 -> 1 <= Cl -> Cl <= Cl' -> Cp <= Cp' ->
  rle (rta_chain dbg sbf st limit (fun d => Cl * na d) (fun d => if 0 <? na d then Cl else 0) (fun d => Cp * na d) full fsteps other)
      (rta_chain dbg sbf' st' limit (fun d => Cl' * na' d) (fun d => if 0 <? na' d then Cl' else 0) (fun d => Cp' * na' d) full' fsteps' other').
Proof. exact chain_mono_scalar. Qed.
(* the same on the public entry points *)
Theorem C17_pp_entry_point_monotone : forall dbg sb sb' ab ab' C C' intf intf' limit,
  wf_sb sb -> wf_sb sb' -> ple (Supply.sbf sb') (Supply.sbf sb) -> wf_ab ab -> wf_ab ab' -> steps_exact_class ab -> steps_exact_class ab' ->
  ple (na ab) (na ab') -> 0 < na ab 1 -> wf_rb intf -> wf_rb intf' -> ple (sn intf) (sn intf') -> 1 <= C -> C <= C' ->
  rle (e_pp dbg sb (RBF ab (Scalar C)) intf limit) (e_pp dbg sb' (RBF ab' (Scalar C')) intf' limit).
Proof. exact e_pp_mono_scalar. Qed.
Theorem C17_timer_entry_point_monotone : forall dbg sb sb' ab ab' C C' intf intf' B B' limit,
  wf_sb sb -> wf_sb sb' -> ple (Supply.sbf sb') (Supply.sbf sb) -> wf_ab ab -> wf_ab ab' -> steps_exact_class ab -> steps_exact_class ab' ->
  ple (na ab) (na ab') -> 0 < na ab 1 -> wf_rb intf -> wf_rb intf' -> ple (sn intf) (sn intf') -> 1 <= C -> C <= C' -> B <= B' ->
  rle (e_timer dbg sb (RBF ab (Scalar C)) intf B limit) (e_timer dbg sb' (RBF ab' (Scalar C')) intf' B' limit).
Proof. exact e_timer_mono_scalar. Qed.
(* the limit: any cost model whose interference interval is monotone (the C07 hypothesis) *)
Theorem C17_timer_limit_independent : forall sbf st, galois sbf st -> sbf 0 = 0 -> lipschitz sbf ->
  forall dbg own lw steps intf B limit limit' R, mono own -> mono intf -> steps_exact own steps ->
  (forall off, mono (interference_interval lw off)) -> limit <= limit' ->
  rta_timer dbg sbf st limit own lw steps intf B = ROk R -> rta_timer dbg sbf st limit' own lw steps intf B = ROk R.
Proof. exact timer_limit. Qed.
Theorem C17_polling_point_limit_independent : forall sbf st, galois sbf st -> sbf 0 = 0 -> lipschitz sbf ->
  forall dbg own lw steps intf limit limit' R, mono own -> mono intf -> steps_exact own steps ->
  (forall off, mono (interference_interval lw off)) -> limit <= limit' ->
  rta_pp dbg sbf st limit own lw steps intf = ROk R -> rta_pp dbg sbf st limit' own lw steps intf = ROk R.
Proof. exact pp_limit. Qed.
Theorem C17_chain_limit_independent : forall sbf st, galois sbf st -> sbf 0 = 0 -> lipschitz sbf ->
  forall dbg lastcb lw prefix full fsteps other limit limit' R, (forall d, full d = prefix d + lastcb d) ->
  mono lastcb -> mono prefix -> mono other -> steps_exact full fsteps ->
  (forall off, mono (interference_interval lw off)) -> limit <= limit' ->
  rta_chain dbg sbf st limit lastcb lw prefix full fsteps other = ROk R -> rta_chain dbg sbf st limit' lastcb lw prefix full fsteps other = ROk R.
Proof. exact chain_limit. Qed.
(* known finding C17-least-wcet: multiframe (2 1 1) -> (2 2 1) on Periodic 3 against (Sporadic 5 2, cost 2): Ok 6 -> Ok 5 *)
Definition C17_polling_point_nonscalar_refuted := pp_mono_refuted.
Definition C17_timer_nonscalar_refuted := timer_mono_refuted.
Definition C17_chain_nonscalar_refuted := chain_mono_multiframe_refuted.
(* outside the well-formed inputs (a "chain" whose callbacks have different arrival curves, a non-super-additive interfering curve):
   shortening the prefix callback's period 10 -> 9 lowers the bound 14 -> 10; kept as a witness that the step hypothesis of
   chain_mono (every step of the chain's demand is a step of the last callback's demand) is needed *)
Definition C17_chain_mixed_curves_refuted := chain_mono_refuted.

(* ---- RTSS'21 busy-window-aware subchain analysis ---- *)
Theorem C17_bw_subchain_monotone : forall sbf st sbf' st', galois sbf st -> galois sbf' st' -> ple sbf' sbf ->
  sbf 0 = 0 -> sbf' 0 = 0 -> lipschitz sbf -> lipschitz sbf' ->
  forall wl wl' sc, Forall2 cb_le wl wl' -> (forall cb, In cb wl -> cb_mono cb) -> (forall cb, In cb wl' -> cb_mono cb) ->
  forall dbg limit, bw_wf wl sc -> bw_wf wl' sc ->
  rle (bw_subchain dbg sbf st wl sc limit) (bw_subchain dbg sbf' st' wl' sc limit).
Proof. exact bw_subchain_mono. Qed.
Theorem C17_bw_subchain_limit_independent : forall dbg sbf st wl sc limit limit' R, galois sbf st -> sbf 0 = 0 -> lipschitz sbf ->
  bw_wf wl sc -> limit <= limit' ->
  bw_subchain dbg sbf st wl sc limit = ROk R -> bw_subchain dbg sbf st wl sc limit' = ROk R.
Proof. exact bw_subchain_limit. Qed.
