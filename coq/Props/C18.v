(* C18 — Fully preemptive FP, non-preemptive FP and FIFO bounds are attained.  Statements only.
   For task sets whose arrival curves are exact and realisable — Periodic, Sporadic (with release jitter) and
   auto-extrapolating delta-min curves ExtrapAB d with a realisable (well-formed, super-additive) vector d
   (exact_task', Proofs/TightnessExtrap.v; plateau-ended vectors included) — the returned bound R >= 1 is attained:
   there is a compliant job set and a legal schedule in which some job (for FP: of the analysed task) completes
   within R but not within R - 1.  With the soundness theorems (C01, C03) the bounds are therefore exact.
   The first three theorems are the Periodic/Sporadic versions (Proofs/Tightness.v), the last three the general ones;
   super-additivity is needed (only) for the maximal-rate release sequence to be admissible
   (dense_extrap_needs_superadditive). *)
From Coq Require Import Arith NArith List Lia Bool.
From RTA.Model Require Import Base Arrival Wcet Demand Eval.
From RTA.Spec Require Import Sched TaskModel Policies.
From RTA.Model Require Import WellFormed.
From RTA.Proofs Require Import FifoEndToEnd FpSound Tightness TightnessExtrap.

Theorem C18_fifo_bound_attained : forall dbg (tasks : list task) limit R,
  Forall (fun tk => exact_task tk /\ 1 <= snd tk) tasks -> tasks <> [] -> 1 <= R ->
  e_fifo dbg (Agg (map rb_of tasks)) limit = ROk R ->
  exists jobs sched k, valid jobs sched /\ work_conserving jobs sched /\ fifo_policy jobs sched /\
     respects_curves tasks jobs /\ respects_costs tasks jobs /\ (k < length jobs)%nat /\
     completes_within jobs sched k (N.to_nat R) /\ ~ completes_within jobs sched k (N.to_nat R - 1).
Proof. exact fifo_bound_attained. Qed.

Theorem C18_fp_preemptive_bound_attained : forall dbg (tasks : list task) i prio limit R,
  Forall (fun tk => exact_task tk /\ 1 <= snd tk) tasks -> (i < length tasks)%nat ->
  (forall a b, (a < length tasks)%nat -> (b < length tasks)%nat -> prio a = prio b -> a = b) -> 1 <= R ->
  e_fp_fp dbg (RBF (ab_i tasks i) (Scalar (C tasks i))) (hp_rbs tasks i prio) limit = ROk R ->
  exists jobs sched k, valid jobs sched /\ work_conserving jobs sched /\ respects_curves tasks jobs /\ respects_costs tasks jobs /\
     legal jobs sched (fp_hp jobs prio) (fun _ _ => true) /\ (k < length jobs)%nat /\ tsk jobs k = i /\
     completes_within jobs sched k (N.to_nat R) /\ ~ completes_within jobs sched k (N.to_nat R - 1).
Proof. exact fp_preemptive_bound_attained. Qed.

(* non-preemptive: some lower-priority task must actually have WCET B + 1, otherwise the blocking term cannot be realised *)
Theorem C18_fp_nonpreemptive_bound_attained : forall dbg (tasks : list task) i l prio limit B R,
  Forall (fun tk => exact_task tk /\ 1 <= snd tk) tasks -> (i < length tasks)%nat -> (l < length tasks)%nat ->
  (prio i < prio l)%nat -> snd (nth l tasks (Never, 0)) = B + 1 ->
  (forall a b, (a < length tasks)%nat -> (b < length tasks)%nat -> prio a = prio b -> a = b) -> 1 <= R ->
  e_fp_np dbg (ab_i tasks i) (C tasks i) B (hp_rbs tasks i prio) limit = ROk R ->
  exists jobs sched pp k, valid jobs sched /\ work_conserving jobs sched /\ respects_curves tasks jobs /\ respects_costs tasks jobs /\
     fully_nonpreemptive jobs pp /\ legal jobs sched (fp_hp jobs prio) pp /\
     (forall k', (k' < length jobs)%nat -> (prio i < prio (tsk jobs k'))%nat -> (cost jobs k' <= N.to_nat B + 1)%nat) /\
     (k < length jobs)%nat /\ tsk jobs k = i /\
     completes_within jobs sched k (N.to_nat R) /\ ~ completes_within jobs sched k (N.to_nat R - 1).
Proof. exact fp_nonpreemptive_bound_attained. Qed.

(* ---- the same three statements for the extended class: Periodic | Sporadic | ExtrapAB d with realisable d ---- *)
Theorem C18_exact_task_class : forall tk, exact_task' tk <-> exact_task tk \/ (exists d, fst tk = ExtrapAB d /\ realisable d).
Proof. intros tk. reflexivity. Qed.

Theorem C18_fifo_bound_attained_extrap : forall dbg (tasks : list task) limit R,
  Forall (fun tk => exact_task' tk /\ 1 <= snd tk) tasks -> tasks <> [] -> 1 <= R ->
  e_fifo dbg (Agg (map rb_of tasks)) limit = ROk R ->
  exists jobs sched k, valid jobs sched /\ work_conserving jobs sched /\ fifo_policy jobs sched /\
     respects_curves tasks jobs /\ respects_costs tasks jobs /\ (k < length jobs)%nat /\
     completes_within jobs sched k (N.to_nat R) /\ ~ completes_within jobs sched k (N.to_nat R - 1).
Proof. exact fifo_bound_attained_extrap. Qed.

Theorem C18_fp_preemptive_bound_attained_extrap : forall dbg (tasks : list task) i prio limit R,
  Forall (fun tk => exact_task' tk /\ 1 <= snd tk) tasks -> (i < length tasks)%nat ->
  (forall a b, (a < length tasks)%nat -> (b < length tasks)%nat -> prio a = prio b -> a = b) -> 1 <= R ->
  e_fp_fp dbg (RBF (ab_i tasks i) (Scalar (C tasks i))) (hp_rbs tasks i prio) limit = ROk R ->
  exists jobs sched k, valid jobs sched /\ work_conserving jobs sched /\ respects_curves tasks jobs /\ respects_costs tasks jobs /\
     legal jobs sched (fp_hp jobs prio) (fun _ _ => true) /\ (k < length jobs)%nat /\ tsk jobs k = i /\
     completes_within jobs sched k (N.to_nat R) /\ ~ completes_within jobs sched k (N.to_nat R - 1).
Proof. exact fp_preemptive_bound_attained_extrap. Qed.

Theorem C18_fp_nonpreemptive_bound_attained_extrap : forall dbg (tasks : list task) i l prio limit B R,
  Forall (fun tk => exact_task' tk /\ 1 <= snd tk) tasks -> (i < length tasks)%nat -> (l < length tasks)%nat ->
  (prio i < prio l)%nat -> snd (nth l tasks (Never, 0)) = B + 1 ->
  (forall a b, (a < length tasks)%nat -> (b < length tasks)%nat -> prio a = prio b -> a = b) -> 1 <= R ->
  e_fp_np dbg (ab_i tasks i) (C tasks i) B (hp_rbs tasks i prio) limit = ROk R ->
  exists jobs sched pp k, valid jobs sched /\ work_conserving jobs sched /\ respects_curves tasks jobs /\ respects_costs tasks jobs /\
     fully_nonpreemptive jobs pp /\ legal jobs sched (fp_hp jobs prio) pp /\
     (forall k', (k' < length jobs)%nat -> (prio i < prio (tsk jobs k'))%nat -> (cost jobs k' <= N.to_nat B + 1)%nat) /\
     (k < length jobs)%nat /\ tsk jobs k = i /\
     completes_within jobs sched k (N.to_nat R) /\ ~ completes_within jobs sched k (N.to_nat R - 1).
Proof. exact fp_nonpreemptive_bound_attained_extrap. Qed.
