(* C19 — Analyses agree with each other on their common special cases.  Statements only. *)
From Coq Require Import List NArith Lia Bool.
From RTA.Model Require Import Base Arrival Wcet Demand Supply FixedPoint Analyses Ros2 Eval.
From RTA.Proofs Require Import AgreeProofs.

(* fixed priority *)
Theorem C19_fp_lp_last1_is_floating : forall dbg C B arr hp steps limit,
  fp_lp dbg C 1 B arr hp steps limit = fp_fnp dbg B (fun d => C * arr d) hp steps limit.
Proof. exact fp_lp_last1_is_fnp. Qed.
Theorem C19_fp_lp_last1_noblocking_is_preemptive : forall dbg C arr hp steps limit,
  fp_lp dbg C 1 0 arr hp steps limit = fp_fp dbg (fun d => C * arr d) hp steps limit.
Proof. exact fp_lp_last1_noblocking_is_fp. Qed.
Theorem C19_fp_lp_lastC_is_nonpreemptive : forall dbg C B arr hp steps limit, 1 <= C ->
  fp_lp dbg C C B arr hp steps limit = fp_np dbg C B arr hp steps limit.
Proof. exact fp_lp_lastC_is_np. Qed.

(* EDF, over the public entry points *)
Theorem C19_edf_lp_segments1_is_floating : forall dbg ab C D others limit,
  e_edf_lp dbg ab C D 1 others limit = e_edf_fnp dbg (RBF ab (Scalar C)) D others limit.
Proof. exact edf_lp_segs1_is_fnp. Qed.
Theorem C19_edf_floating_segments1_is_preemptive : forall dbg tua D (others : list (RB * N)) limit,
  e_edf_fnp dbg tua D (map (fun o => (fst o, snd o, 1)) others) limit = e_edf_fp dbg tua D others limit.
Proof. exact edf_fnp_segs1_is_fp. Qed.
Theorem C19_edf_lp_segmentsC_is_nonpreemptive : forall dbg ab C D (others : list (AB * N * N)) limit, 1 <= C ->
  e_edf_lp dbg ab C D C (map (fun o => let '(a, c, d) := o in (RBF a (Scalar c), d, c)) others) limit
  = e_edf_np dbg ab C D others limit.
Proof. exact edf_lp_segsC_is_np. Qed.

(* with equal relative deadlines the largest NP-EDF bound over all tasks is the FIFO bound *)
Theorem C19_np_edf_equal_deadlines_is_fifo : forall dbg D ts limit, ts <> [] -> Forall np_task_ok ts ->
  max_response_time (np_edf_bounds dbg D ts limit) = e_fifo dbg (Agg (map rb_of_task ts)) limit.
Proof. exact np_edf_equal_deadlines_is_fifo. Qed.

(* supplies: dedicated = periodic with budget = period = constrained with budget = deadline = period,
   for every ROS 2 analysis *)
Theorem C19_supplies_equal_full_budget : forall P x, 1 <= P ->
  sbf (PeriodicS P P) x = sbf Dedicated x /\ st (PeriodicS P P) x = st Dedicated x /\
  sbf (ConstrainedS P P P) x = sbf Dedicated x /\ st (ConstrainedS P P P) x = st Dedicated x.
Proof. exact supplies_equal_full_budget. Qed.
Theorem C19_event_source_full_budget : forall P dbg rb limit, 1 <= P ->
  e_es dbg (PeriodicS P P) rb limit = e_es dbg Dedicated rb limit /\
  e_es dbg (ConstrainedS P P P) rb limit = e_es dbg Dedicated rb limit.
Proof. exact ros2_full_budget_is_dedicated. Qed.
Definition C19_timer_full_budget := e_timer_full_budget.
Definition C19_pp_full_budget := e_pp_full_budget.
Definition C19_chain_full_budget := e_chain_full_budget.
Definition C19_rr_full_budget := e_rr_full_budget.
Definition C19_bw_full_budget := e_bw_full_budget.

(* the event-source analysis on a dedicated processor is the FIFO analysis (sub-additive demand) *)
Theorem C19_event_source_dedicated_is_fifo : forall (total : N -> N) (steps : N -> list N) (limit : N),
  (forall a b, a <= b -> total a <= total b) -> total 0 = 0 -> 0 < total 1 ->
  (forall a b, total (a + b) <= total a + total b) ->
  (forall h d, In d (steps h) <-> (1 <= d /\ d <= h /\ total (d - 1) < total d)) ->
  forall dbg, rta_event_source dbg (fun d => d) (fun d => d) limit total steps = fifo_rta dbg total steps limit.
Proof. exact event_source_dedicated_is_fifo. Qed.

Example C19_example :
  e_edf_np true (Sporadic 10 0) 2 20 [(Sporadic 15 3, 4, 20)] 200 = ROk 6 /\
  max_response_time (np_edf_bounds true 20 [(Sporadic 10 0, 2); (Sporadic 15 3, 4)] 200)
  = e_fifo true (Agg [RBF (Sporadic 10 0) (Scalar 2); RBF (Sporadic 15 3) (Scalar 4)]) 200.
Proof. split; vm_compute; reflexivity. Qed.
