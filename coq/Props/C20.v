(* C20 — Analyses are total and independent of the build profile.  Statements only.
   In the model, RPanic stands for: a checked subtraction underflows, an assertion or a debug-only cross-check
   (brute-force fixed point, brute-force ROS 2 step enumeration) fails, or a loop exhausts its fuel; dbg = true is
   the build with debug assertions, dbg = false the release build.  On well-formed inputs (rb_steps_ok: well-formed
   arrival bounds outside the known step class of C11, ArrivalCurvePrefix, well-formed positive cost models) no analysis returns
   RPanic and the result does not depend on dbg.  NOT covered by these theorems: overflow of u64 additions and
   multiplications (unbounded N in the model) and the RefCell borrow discipline — exercised by running both build
   profiles of the real crate in the correspondence check. *)
From Coq Require Import List NArith Lia Bool.
From RTA.Model Require Import Base Arrival Wcet Demand Supply FixedPoint Analyses Ros2 Eval WellFormed.
From RTA.Proofs Require Import SupplyProofs StepsProofs EntryPoints Totality.

(* the nine dedicated-processor analyses *)
Theorem C20_fp_fifo_never_panic : forall dbg limit,
  (forall tua hp, rb_steps_ok tua -> Forall wf_rb hp -> 0 < sn tua 1 -> e_fp_fp dbg tua hp limit <> RPanic) /\
  (forall tua B hp, rb_steps_ok tua -> Forall wf_rb hp -> 0 < sn tua 1 -> e_fp_fnp dbg tua B hp limit <> RPanic) /\
  (forall ab C B hp, wf_ab ab -> steps_exact_class ab -> Forall wf_rb hp -> 0 < na ab 1 -> 1 <= C -> e_fp_np dbg ab C B hp limit <> RPanic) /\
  (forall ab C last B hp, wf_ab ab -> steps_exact_class ab -> Forall wf_rb hp -> 0 < na ab 1 -> 1 <= last -> last <= C -> e_fp_lp dbg ab C last B hp limit <> RPanic) /\
  (forall rb, rb_steps_ok rb -> 0 < sn rb 1 -> e_fifo dbg rb limit <> RPanic).
Proof. exact e_dedicated_no_panic. Qed.
Definition C20_edf_never_panic := e_edf_no_panic.
Theorem C20_fp_fp_profile_independent : forall limit tua hp, rb_steps_ok tua -> Forall wf_rb hp -> 0 < sn tua 1 ->
  e_fp_fp true tua hp limit = e_fp_fp false tua hp limit.
Proof. exact e_dedicated_profile_independent. Qed.
Definition C20_fp_fnp_profile_independent := e_fp_fnp_profile_independent.
Definition C20_fp_np_profile_independent := e_fp_np_profile_independent.
Definition C20_fp_lp_profile_independent := e_fp_lp_profile_independent.
Definition C20_fifo_profile_independent := e_fifo_profile_independent.
Definition C20_edf_fp_profile_independent := e_edf_fp_profile_independent.
Definition C20_edf_fnp_profile_independent := e_edf_fnp_profile_independent.
Definition C20_edf_np_profile_independent := e_edf_np_profile_independent.
Definition C20_edf_lp_profile_independent := e_edf_lp_profile_independent.

(* the six ROS 2 analyses *)
Theorem C20_event_source_total : forall dbg sb rb limit, wf_sb sb -> rb_steps_ok rb ->
  e_es dbg sb rb limit <> RPanic /\ e_es dbg sb rb limit = e_es (negb dbg) sb rb limit.
Proof. exact e_es_total. Qed.
Theorem C20_rr_total : forall dbg sb wl sc limit, wf_sb sb -> wl_ok wl -> sc_ok wl sc ->
  e_rr dbg sb wl sc limit <> RPanic /\ e_rr dbg sb wl sc limit = e_rr (negb dbg) sb wl sc limit.
Proof. exact e_rr_total. Qed.
Theorem C20_bw_total : forall dbg sb wl sc limit, wf_sb sb -> wl_ok wl -> sc_ok wl sc ->
  (let '(_, ab, _, _) := nth (last sc 0%nat) wl (0, Never, Scalar 0, KTimer) in 0 < na ab 1) ->
  e_bw dbg sb wl sc limit <> RPanic /\ e_bw dbg sb wl sc limit = e_bw (negb dbg) sb wl sc limit.
Proof. exact e_bw_total. Qed.
Theorem C20_timer_total : forall dbg sb ab c intf B limit, wf_sb sb -> wf_ab ab -> steps_exact_class ab -> 1 <= c -> 0 < na ab 1 -> wf_rb intf ->
  e_timer dbg sb (RBF ab (Scalar c)) intf B limit <> RPanic /\
  e_timer dbg sb (RBF ab (Scalar c)) intf B limit = e_timer (negb dbg) sb (RBF ab (Scalar c)) intf B limit.
Proof. exact e_timer_total. Qed.
Theorem C20_pp_total : forall dbg sb ab c intf limit, wf_sb sb -> wf_ab ab -> steps_exact_class ab -> 1 <= c -> 0 < na ab 1 -> wf_rb intf ->
  e_pp dbg sb (RBF ab (Scalar c)) intf limit <> RPanic /\
  e_pp dbg sb (RBF ab (Scalar c)) intf limit = e_pp (negb dbg) sb (RBF ab (Scalar c)) intf limit.
Proof. exact e_pp_total. Qed.
Definition C20_chain_total := e_chain_total.

(* the fixed-point search and the generic inverse, for every well-formed supply incl. user-defined ones *)
Theorem C20_search_total : forall dbg sb limit w, wf_sb sb -> (forall a b, a <= b -> w a <= w b) ->
  e_search dbg sb limit w <> RPanic /\ e_search dbg sb limit w = e_search (negb dbg) sb limit w.
Proof. exact e_search_total. Qed.
Theorem C20_service_time_terminates : forall sb d, wf_sb sb -> d <= sbf sb (st sb d).
Proof. exact st_total. Qed.

(* former finding C20-prefix-zero-step: with an ArrivalCurvePrefix (steps_iter yields 0 first) the analyses used to
   panic (0 - 1 underflow in Offset::closed_from_time_zero); fixed by skipping zero-length steps: the analysis no
   longer panics and the debug and release builds agree *)
Theorem C20_prefix_in_analysis_no_longer_panics : exists sb rb limit, wf_sb sb /\ wf_rb rb /\
  e_es true sb rb limit <> RPanic /\ e_es true sb rb limit = e_es false sb rb limit.
Proof. exact e_es_prefix_no_panic. Qed.

(* former finding C20-edf-never-tua: the search space of the EDF analyses also contains offsets stemming from the
   other tasks' steps; if the task under analysis has no arrival there (arrival::Never, sparse
   ApproximatedPoisson), self_interference - rem_cost underflowed in edf::fully_nonpreemptive and
   edf::limited_preemptive (debug: panic; release: wrap-around, Ok(12) on both witnesses); fixed by saturating_sub.
   The four EDF analyses are now total and profile-independent on every well-formed input: no hypothesis that the
   task under analysis can release a job, no step-class hypothesis *)
Theorem C20_edf_fp_total : forall dbg tua D others limit, wf_rb tua ->
  Forall (fun o : RB * N => wf_rb (fst o)) others ->
  e_edf_fp dbg tua D others limit <> RPanic /\
  e_edf_fp dbg tua D others limit = e_edf_fp (negb dbg) tua D others limit.
Proof. exact e_edf_fp_total. Qed.
Theorem C20_edf_fnp_total : forall dbg tua D (others : list (RB * N * N)) limit, wf_rb tua ->
  Forall (fun o => wf_rb (fst (fst o))) others ->
  e_edf_fnp dbg tua D others limit <> RPanic /\
  e_edf_fnp dbg tua D others limit = e_edf_fnp (negb dbg) tua D others limit.
Proof. exact e_edf_fnp_total. Qed.
Theorem C20_edf_np_total : forall dbg ab C D (others : list (AB * N * N)) limit, wf_ab ab -> 1 <= C ->
  Forall (fun o => wf_ab (fst (fst o))) others ->
  e_edf_np dbg ab C D others limit <> RPanic /\
  e_edf_np dbg ab C D others limit = e_edf_np (negb dbg) ab C D others limit.
Proof. exact e_edf_np_total. Qed.
Theorem C20_edf_lp_total : forall dbg ab C D last (others : list (RB * N * N)) limit, wf_ab ab ->
  1 <= last -> last <= C -> Forall (fun o => wf_rb (fst (fst o))) others ->
  e_edf_lp dbg ab C D last others limit <> RPanic /\
  e_edf_lp dbg ab C D last others limit = e_edf_lp (negb dbg) ab C D last others limit.
Proof. exact e_edf_lp_total. Qed.
(* the two witnesses: (edf_np ((never) 9 93) (((periodic 30) 12 17)) 200) = Ok(20) and
   (edf_lp ((never) 9 93 4) (((rbf (periodic 30) (scalar 12)) 17 3)) 200) = Ok(15) in both build profiles *)
Definition C20_edf_np_never_tua_repaired := edf_np_never_tua_repaired.
Definition C20_edf_lp_never_tua_repaired := edf_lp_never_tua_repaired.
