(* Events.v — event sequences and what it means for them to be admissible for an arrival model
   (semantic layer of C10, C12, C13; independent of how the crate computes its bounds). *)
From Coq Require Import Arith List Bool NArith.
From RTA.Model Require Import Base Arrival.
Local Close Scope N_scope.
Local Open Scope nat_scope.

(* an event sequence is a finite list of event times (not necessarily sorted);
   the number of events inside the window [t, t + d) *)
Definition in_window (t d e : nat) : bool := (t <=? e) && (e <? t + d).
Definition count (es : list nat) (t d : nat) : nat := length (filter (in_window t d) es).

(* pointwise sum of two lists of equal length (release = arrival + jitter) *)
Fixpoint zip_add (a j : list nat) : list nat :=
  match a, j with
  | x :: a', y :: j' => (x + y) :: zip_add a' j'
  | _, _ => []
  end.

(* consecutive arrivals at least T apart *)
Fixpoint separated (T : nat) (a : list nat) : Prop :=
  match a with
  | [] => True
  | x :: a' => match a' with [] => True | y :: _ => x + T <= y /\ separated T a' end
  end.

Fixpoint sorted (es : list nat) : Prop :=
  match es with
  | [] => True
  | x :: es' => match es' with [] => True | y :: _ => x <= y /\ sorted es' end
  end.

(* es respects a delta-min vector d (entry i = minimum distance of i + 2 events):
   any i + 2 consecutive events span at least d[i] *)
Definition respects_dmin (d : list N) (es : list nat) : Prop :=
  sorted es /\
  forall i k, i < length d -> k + i + 1 < length es ->
    N.to_nat (nthN d i) <= nth (k + i + 1) es 0 - nth k es 0.

(* the event sequences each arrival model documents as admissible *)
Inductive admissible : AB -> list nat -> Prop :=
| adm_periodic : forall T arr,                      (* strictly periodic or sporadic arrivals, no jitter *)
    separated (N.to_nat T) arr -> admissible (Periodic T) arr
| adm_sporadic : forall T J arr jit,                (* arrivals >= T apart, each released after a jitter <= J *)
    separated (N.to_nat T) arr -> length jit = length arr -> Forall (fun j => j <= N.to_nat J) jit ->
    admissible (Sporadic T J) (zip_add arr jit)
| adm_never : admissible Never []
| adm_curve : forall d es, respects_dmin d es -> admissible (CurveAB d) es
| adm_extrap : forall d es, respects_dmin d es -> admissible (ExtrapAB d) es
| adm_propagated : forall J ab es jit,              (* every event of an admissible input delayed by <= J *)
    admissible ab es -> length jit = length es -> Forall (fun j => j <= N.to_nat J) jit ->
    admissible (Propagated J ab) (zip_add es jit)
| adm_sum_nil : admissible (SumAB []) []
| adm_sum_cons : forall a l es1 es2,                (* superposition *)
    admissible a es1 -> admissible (SumAB l) es2 -> admissible (SumAB (a :: l)) (es1 ++ es2).
