(* Executor.v — an operational model of the ROS 2 single-threaded executor on a reservation (semantic layer of
   C05 / C04).  Discrete time; one step per slot.  The executor, when the reservation supplies the slot and no
   callback is running:
     1. runs the highest-priority timer that has a pending instance, else
     2. runs the highest-priority polled callback of the ready set and removes it from the set, else
     3. (the ready set is empty: POLLING POINT) refreshes the ready set with every polled callback that has a
        pending instance and retries 2; if there is none the slot idles.
   Callbacks run non-preemptively (only in supplied slots); instances of one callback are served in arrival order;
   smaller priority number = higher priority.  (tools/sim.py: executor is the same machine, used as test oracle.) *)
From Coq Require Import Arith List Bool.
Import ListNotations.

Record cbdef := mkCbdef { is_timer : bool; prio : nat }.

Record estate := mkEstate {
  pending : list (list nat);                (* per callback: arrival times of its pending instances, oldest first *)
  ready : list nat;                         (* polled callbacks admitted at the last polling point *)
  running : option (nat * nat * nat);       (* callback, remaining cost, arrival time of the running instance *)
  served : list nat;                        (* per callback: number of instances started so far *)
  finished : list (nat * nat * nat)         (* completed instances: callback, arrival, completion time *)
}.

Section Executor.
  Variable cbs : list cbdef.
  (* cost of the k-th started instance of callback c *)
  Variable cost_of : nat -> nat -> nat.

  Definition cb (c : nat) : cbdef := nth c cbs (mkCbdef false 0).

  Fixpoint add_arrivals (t : nat) (arrs : list nat) (p : list (list nat)) : list (list nat) :=
    match arrs with
    | [] => p
    | c :: arrs' =>
        add_arrivals t arrs' (map (fun ic => if Nat.eqb (fst ic) c then snd ic ++ [t] else snd ic)
                                  (combine (seq 0 (length p)) p))
    end.

  Definition has_pending (p : list (list nat)) (c : nat) : bool :=
    match nth c p [] with [] => false | _ => true end.

  (* the candidate of least priority number, first index among ties *)
  Fixpoint best (l : list nat) : option nat :=
    match l with
    | [] => None
    | c :: l' => match best l' with
                 | Some c' => if Nat.ltb (prio (cb c')) (prio (cb c)) then Some c' else Some c
                 | None => Some c
                 end
    end.

  Definition pop_pending (p : list (list nat)) (c : nat) : list (list nat) :=
    map (fun ic => if Nat.eqb (fst ic) c then tl (snd ic) else snd ic) (combine (seq 0 (length p)) p).
  Definition bump (s : list nat) (c : nat) : list nat :=
    map (fun ic => if Nat.eqb (fst ic) c then S (snd ic) else snd ic) (combine (seq 0 (length s)) s).

  (* choose what to start in a supplied slot with nothing running: (callback, new ready set) *)
  Definition dispatch (p : list (list nat)) (rdy : list nat) : option nat * list nat :=
    let all := seq 0 (length cbs) in
    match best (filter (fun c => is_timer (cb c) && has_pending p c) all) with
    | Some c => (Some c, rdy)
    | None =>
        let rdy' := match rdy with
                    | [] => filter (fun c => negb (is_timer (cb c)) && has_pending p c) all     (* polling point *)
                    | _ => rdy
                    end in
        match best rdy' with
        | Some c => (Some c, filter (fun c' => negb (Nat.eqb c' c)) rdy')
        | None => (None, rdy')
        end
    end.

  Definition step (t : nat) (arrs : list nat) (supplied : bool) (s : estate) : estate :=
    let p := add_arrivals t arrs (pending s) in
    if negb supplied then mkEstate p (ready s) (running s) (served s) (finished s) else
    let '(run, p1, rdy1, srv1) :=
      match running s with
      | Some r => (Some r, p, ready s, served s)
      | None =>
          match dispatch p (ready s) with
          | (Some c, rdy') =>
              let a := hd 0 (nth c p []) in
              (Some (c, cost_of c (nth c (served s) 0), a), pop_pending p c, rdy', bump (served s) c)
          | (None, rdy') => (None, p, rdy', served s)
          end
      end in
    match run with
    | None => mkEstate p1 rdy1 None srv1 (finished s)
    | Some (c, rem, a) =>
        if Nat.leb rem 1 then mkEstate p1 rdy1 None srv1 (finished s ++ [(c, a, S t)])
        else mkEstate p1 rdy1 (Some (c, rem - 1, a)) srv1 (finished s)
    end.

  Definition init : estate :=
    mkEstate (map (fun _ => []) cbs) [] None (map (fun _ => 0) cbs) [].

  (* run for H slots with arrivals arr t (callbacks arriving at time t) and supply sigma *)
  Fixpoint run_from (t H : nat) (arr : nat -> list nat) (sigma : nat -> bool) (s : estate) : estate :=
    match H with
    | 0 => s
    | S H' => run_from (S t) H' arr sigma (step t (arr t) (sigma t) s)
    end.
  Definition run (H : nat) (arr : nat -> list nat) (sigma : nat -> bool) : estate := run_from 0 H arr sigma init.
End Executor.
