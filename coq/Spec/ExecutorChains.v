(* ExecutorChains.v — the operational ROS 2 single-threaded executor of Spec/Executor.v WITH processing chains
   (semantic layer of the chain part of C04).  Definitions only.

   The machine is the one of Executor.v (discrete time, one step per slot; in a supplied slot with nothing running:
   the highest-priority timer with a pending instance, else the highest-priority polled callback of the ready set,
   the ready set being refreshed -- polling point -- only when it is empty; callbacks run non-preemptively, only in
   supplied slots; instances of one callback are served in release order), plus a successor function
     next : nat -> option nat.
   When an instance of callback c COMPLETES in slot t (completion time S t) and next c = Some c', one instance of c'
   is released: it is appended to the queue of c' with release time S t and the SOURCE ARRIVAL of the completing
   instance (an instance released by the external arrival function [arr] at time t has source arrival t).  The
   successor instance is in the queue from the end of slot t, i.e. it can be dispatched from slot S t = its release
   time on; external arrivals of slot S t are queued behind it.  This is what tools/sim.py [executor] does with
   its [chains] argument (its [done] entries are (cb, arrival, completion, source_arrival) = our [cfinished]
   entries); like Executor.v, costs are assumed >= 1 (an instance of cost 0 or 1 occupies one supplied slot).

   The dispatching rule is literally [Executor.dispatch], applied to the queues with the source arrivals erased. *)
From Coq Require Import Arith List Bool.
From RTA.Spec Require Import Executor.
Import ListNotations.

Record cstate := mkCstate {
  cpending : list (list (nat * nat));          (* per callback: (release time, source arrival) of its pending instances, oldest first *)
  cready : list nat;                           (* polled callbacks admitted at the last polling point *)
  crunning : option (nat * nat * nat * nat);   (* callback, remaining cost, release time, source arrival of the running instance *)
  cserved : list nat;                          (* per callback: number of instances started so far *)
  cfinished : list (nat * nat * nat * nat)     (* completed instances: callback, release time, completion time, source arrival *)
}.

Section ExecutorChains.
  Variable cbs : list cbdef.
  (* cost of the k-th started instance of callback c *)
  Variable cost_of : nat -> nat -> nat.
  (* the callback triggered by the completion of an instance of c *)
  Variable next : nat -> option nat.

  (* append entry e to the queue of callback c (nothing happens if c is not a callback of the executor) *)
  Definition push (c : nat) (e : nat * nat) (p : list (list (nat * nat))) : list (list (nat * nat)) :=
    map (fun ic => if Nat.eqb (fst ic) c then snd ic ++ [e] else snd ic) (combine (seq 0 (length p)) p).

  (* external arrivals of slot t: release time = source arrival = t *)
  Fixpoint cadd_arrivals (t : nat) (arrs : list nat) (p : list (list (nat * nat))) : list (list (nat * nat)) :=
    match arrs with
    | [] => p
    | c :: arrs' => cadd_arrivals t arrs' (push c (t, t) p)
    end.

  Definition cpop (p : list (list (nat * nat))) (c : nat) : list (list (nat * nat)) :=
    map (fun ic => if Nat.eqb (fst ic) c then tl (snd ic) else snd ic) (combine (seq 0 (length p)) p).

  (* the queues as Executor.v sees them *)
  Definition erase_q (p : list (list (nat * nat))) : list (list nat) := map (map fst) p.

  (* the release caused by the completion, at time f, of an instance of c with source arrival src *)
  Definition release (c f src : nat) (p : list (list (nat * nat))) : list (list (nat * nat)) :=
    match next c with Some c' => push c' (f, src) p | None => p end.

  (* the instance (c, rem, a, src) executes in slot t: it completes (at S t, releasing its successor) or continues *)
  Definition advance (t : nat) (p : list (list (nat * nat))) (rdy srv : list nat) (fin : list (nat * nat * nat * nat))
      (c rem a src : nat) : cstate :=
    if Nat.leb rem 1 then mkCstate (release c (S t) src p) rdy None srv (fin ++ [(c, a, S t, src)])
    else mkCstate p rdy (Some (c, rem - 1, a, src)) srv fin.

  Definition cstep (t : nat) (arrs : list nat) (supplied : bool) (s : cstate) : cstate :=
    let p := cadd_arrivals t arrs (cpending s) in
    if negb supplied then mkCstate p (cready s) (crunning s) (cserved s) (cfinished s) else
    match crunning s with
    | Some (c, rem, a, src) => advance t p (cready s) (cserved s) (cfinished s) c rem a src
    | None =>
        match dispatch cbs (erase_q p) (cready s) with
        | (Some c, rdy') =>
            let e := hd (0, 0) (nth c p []) in
            advance t (cpop p c) rdy' (bump (cserved s) c) (cfinished s) c (cost_of c (nth c (cserved s) 0)) (fst e) (snd e)
        | (None, rdy') => mkCstate p rdy' None (cserved s) (cfinished s)
        end
    end.

  Definition cinit : cstate :=
    mkCstate (map (fun _ => []) cbs) [] None (map (fun _ => 0) cbs) [].

  (* run for H slots with external arrivals arr t (callbacks released at time t) and supply sigma *)
  Fixpoint crun_from (t H : nat) (arr : nat -> list nat) (sigma : nat -> bool) (s : cstate) : cstate :=
    match H with
    | 0 => s
    | S H' => crun_from (S t) H' arr sigma (cstep t (arr t) (sigma t) s)
    end.
  Definition crun (H : nat) (arr : nat -> list nat) (sigma : nat -> bool) : cstate := crun_from 0 H arr sigma cinit.
End ExecutorChains.

(* the successor function that follows one chain c_1 -> c_2 -> ... -> c_m *)
Fixpoint next_of (chain : list nat) (c : nat) : option nat :=
  match chain with
  | c1 :: ((c2 :: _) as rest) => if Nat.eqb c c1 then Some c2 else next_of rest c
  | _ => None
  end.

(* ------------------------------------------------------------------------------------------ *)
(* Cross-checks                                                                                *)
(* ------------------------------------------------------------------------------------------ *)
Definition erase_fin (e : nat * nat * nat * nat) : nat * nat * nat :=
  let '(c, a, f, _) := e in (c, a, f).

(* (a) without chains the machine is Executor.v: three systems (the systems x1, x2, x3 of Proofs/ExecutorBridge.v).
   The general statement [run_chains_no_chain] is proved in Proofs/ChainBridge.v. *)
Definition k1_cbs : list cbdef := [mkCbdef true 1; mkCbdef true 0; mkCbdef false 0; mkCbdef false 1].
Definition k1_arr (t : nat) : list nat :=
  match t with 0 => [3; 2] | 1 => [0; 3] | 2 => [1; 2] | 4 => [2; 2; 0] | 5 => [1; 3] | 9 => [0; 1; 2; 3] | 10 => [7] | _ => [] end.
Definition k1_cost (c k : nat) : nat := 1 + (c + k) mod 3.
Definition k1_sigma (t : nat) : bool := negb (t mod 3 =? 1).
Definition k2_cbs : list cbdef := [mkCbdef false 2; mkCbdef false 1; mkCbdef false 0; mkCbdef true 5].
Definition k2_arr (t : nat) : list nat := if t mod 2 =? 0 then [0; 1; 2] else if t mod 5 =? 0 then [3; 1] else [2].
Definition k2_cost (c k : nat) : nat := 1 + (2 * c + k) mod 4.
Definition k2_sigma (t : nat) : bool := negb (t mod 4 =? 2).
Definition k3_cbs : list cbdef := [mkCbdef true 0; mkCbdef true 0; mkCbdef false 0].
Definition k3_arr (t : nat) : list nat := match t with 0 => [2; 1; 0] | 2 => [0; 1] | 3 => [2] | 5 => [1; 0] | _ => [] end.
Definition k3_cost (c k : nat) : nat := 1 + (c + k) mod 2.

Example no_chain_agrees :
  map erase_fin (cfinished (crun k1_cbs k1_cost (fun _ => None) 60 k1_arr k1_sigma))
    = finished (run k1_cbs k1_cost 60 k1_arr k1_sigma) /\
  map erase_fin (cfinished (crun k2_cbs k2_cost (fun _ => None) 40 k2_arr k2_sigma))
    = finished (run k2_cbs k2_cost 40 k2_arr k2_sigma) /\
  map erase_fin (cfinished (crun k3_cbs k3_cost (fun _ => None) 30 k3_arr (fun _ => true)))
    = finished (run k3_cbs k3_cost 30 k3_arr (fun _ => true)) /\
  length (finished (run k1_cbs k1_cost 60 k1_arr k1_sigma)) = 15 /\
  length (finished (run k2_cbs k2_cost 40 k2_arr k2_sigma)) = 13 /\
  length (finished (run k3_cbs k3_cost 30 k3_arr (fun _ => true))) = 8.
Proof. vm_compute. repeat split. Qed.

(* (b) against tools/sim.py [executor] (python3 -c "import sim; print(sim.executor(callbacks, chains, releases, supply, horizon))").
   worst_supply(2,5,5,.) = supplied slots 0, 1, 8, 9, 13, 14, 18, 19, ... *)
Definition ws25 (t : nat) : bool := if t <? 5 then t <? 2 else 3 <=? t mod 5.
Definition fixed_cost (l : list nat) (c k : nat) : nat := nth c l 0.

(* sim.executor([polled prio 1 cost 1, polled prio 2 cost 2, polled prio 0 cost 1], {0:1}, [(2,0),(2,2)], worst_supply(2,5,5,20), 20)
   = [(2, 2, 9, 2), (0, 2, 10, 2), (1, 10, 15, 2)]     (the chain system of ChainSound.v, witness 1) *)
Example sim_py_1 :
  cfinished (crun [mkCbdef false 1; mkCbdef false 2; mkCbdef false 0] (fixed_cost [1; 2; 1]) (next_of [0; 1]) 20
               (fun t => if t =? 2 then [0; 2] else []) ws25)
  = [(2, 2, 9, 2); (0, 2, 10, 2); (1, 10, 15, 2)].
Proof. vm_compute. reflexivity. Qed.

(* sim.executor([timer prio 0 cost 1, polled prio 1 cost 2, polled prio 0 cost 1, polled prio 2 cost 2], {0:1, 1:2},
                [(0,0),(0,3),(3,0),(4,3),(7,0),(8,0)], [t%4 != 2 for t in range(40)], 40)   -- a chain of three, headed by a timer *)
Example sim_py_2 :
  cfinished (crun [mkCbdef true 0; mkCbdef false 1; mkCbdef false 0; mkCbdef false 2] (fixed_cost [1; 2; 1; 2]) (next_of [0; 1; 2]) 40
               (fun t => match t with 0 => [0; 3] | 3 => [0] | 4 => [3] | 7 => [0] | 8 => [0] | _ => [] end)
               (fun t => negb (t mod 4 =? 2)))
  = [(0, 0, 1, 0); (1, 1, 4, 0); (0, 3, 5, 3); (3, 0, 8, 0); (0, 7, 9, 7); (0, 8, 10, 8); (2, 4, 12, 0); (1, 5, 14, 3);
     (3, 4, 17, 4); (2, 14, 18, 3); (1, 9, 21, 7); (2, 21, 22, 7); (1, 10, 25, 8); (2, 25, 26, 8)].
Proof. vm_compute. reflexivity. Qed.

(* sim.executor([polled prio 1 cost 1, polled prio 0 cost 2, timer prio 0 cost 3], {0:1},
                [(0,0),(0,1),(1,0),(1,2),(2,1),(5,0),(5,0),(6,2)], [t%3 != 1 for t in range(40)], 40)
   -- callback 1 is released both by the chain and externally: the two kinds of instances share one FIFO queue *)
Example sim_py_3 :
  cfinished (crun [mkCbdef false 1; mkCbdef false 0; mkCbdef true 0] (fixed_cost [1; 2; 3]) (next_of [0; 1]) 40
               (fun t => match t with 0 => [0; 1] | 1 => [0; 2] | 2 => [1] | 5 => [0; 0] | 6 => [2] | _ => [] end)
               (fun t => negb (t mod 3 =? 1)))
  = [(1, 0, 3, 0); (2, 1, 7, 1); (2, 6, 12, 6); (0, 0, 13, 0); (1, 2, 16, 2); (0, 1, 18, 1); (1, 13, 21, 0); (0, 5, 22, 5);
     (1, 18, 25, 1); (0, 5, 27, 5); (1, 22, 30, 5); (1, 27, 33, 5)].
Proof. vm_compute. reflexivity. Qed.
