(* Exhaustive.v — the "naive evaluators" of C06: the published equations evaluated by linear scan
   over every candidate, with no pruning and no iteration. *)
From Coq Require Import List NArith Bool.
From RTA.Model Require Import Base.

(* the least x in [1, limit] with f x <= x, by linear scan *)
Definition least_fix (limit : N) (f : N -> N) : option N :=
  find (fun x => f x <=? x) (rangeN 1 limit).

Definition is_none {A} (o : option A) : bool := match o with None => true | Some _ => false end.
Definition oval (o : option N) : N := match o with Some x => x | None => 0 end.

(* the common shape: L = least busy-window solution; for EVERY offset A in [0, L) the least
   solution AF of the offset equation; bound(A, AF); Err iff some least solution does not exist *)
Definition exhaustive (limit : N) (bw_rhs : N -> N) (rhs : N -> N -> N) (bound : N -> N -> N) : result :=
  match least_fix limit bw_rhs with
  | None => RErr 0 limit
  | Some L =>
      let sols := map (fun A => (A, least_fix limit (rhs A))) (rangeN 0 L) in
      if existsb (fun p => is_none (snd p)) sols then RErr 0 limit
      else ROk (maxN (map (fun p => bound (fst p) (oval (snd p))) sols))
  end.

(* fixed-priority analyses (aRTA Theorem 31 instances): blocking B, remaining cost rem *)
Definition exh_fp (B rem : N) (tua hp : N -> N) (limit : N) : result :=
  exhaustive limit (fun L => B + hp L + tua L)
             (fun A AF => B + (tua (A + 1) - rem) + hp AF)
             (fun A AF => AF - A + rem).

(* EDF analyses: other tasks given as (rbf, relative deadline, max non-preemptive segment) *)
Definition exh_edf_blocking (use_blocking : bool) (D : N) (others : list ((N -> N) * N * N)) (A : N) : N :=
  if use_blocking then
    maxN (map (fun o => snd o - 1)
            (filter (fun o => (D + A <? snd (fst o)) && (0 <? fst (fst o) 1)) others))
  else 0.
Definition exh_edf (use_blocking : bool) (rem : N) (tua : N -> N) (D : N)
           (others : list ((N -> N) * N * N)) (limit : N) : result :=
  exhaustive limit (fun L => sumN (map (fun o => fst (fst o) L) others) + tua L)
             (fun A AF => exh_edf_blocking use_blocking D others A + (tua (A + 1) - rem)
                          + sumN (map (fun o => fst (fst o) (N.min AF ((A + 1 + D) - snd (fst o)))) others))
             (fun A AF => AF - A + rem).

(* FIFO: the offset "equation" is F = total (A + 1) - A *)
Definition exh_fifo (total : N -> N) (limit : N) : result :=
  match least_fix limit total with
  | None => RErr 0 limit
  | Some L => ROk (maxN (map (fun A => total (A + 1) - A) (rangeN 0 L)))
  end.
