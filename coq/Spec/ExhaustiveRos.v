(* ExhaustiveRos.v — naive evaluators of the ROS 2 analyses (C07): every offset up to the maximum
   busy-window / offset bound, linear-scan fixed points, and a supply-bound function only (the inverse
   is obtained by scanning the supply-bound function, not by a closed form). *)
From Coq Require Import List NArith Bool.
From RTA.Model Require Import Base Ros2.
From RTA.Spec Require Import Exhaustive.

Section Scan.
  Variable sbf : N -> N.

  (* least r in [0, limit] such that the service guaranteed in offset + r covers w (max r 1);
     with limit = 0 nothing is searched (the searches of the crate start at 1) *)
  Definition least_sol (limit off : N) (w : N -> N) : option N :=
    if limit =? 0 then None
    else find (fun r => w (N.max r 1) <=? sbf (off + r)) (rangeN 0 (limit + 1)).

  (* least t < bound with sbf t >= d: the inverse of the supply-bound function by linear scan *)
  Definition inv_scan (bound d : N) : N :=
    match find (fun t => d <=? sbf t) (rangeN 0 bound) with Some t => t | None => bound end.

  (* ECRTS'19 driver: max busy window, then EVERY offset A <= max_bw (inclusive, as coded) *)
  Definition exh_ecrts (limit : N) (bw_rhs : N -> N) (rhs : N -> N -> N) : result :=
    match least_sol limit 0 bw_rhs with
    | None => RErr 0 limit
    | Some max_bw =>
        let sols := map (fun A => (A, least_sol limit A (rhs A))) (rangeN 0 (max_bw + 1)) in
        match find (fun p => is_none (snd p)) sols with
        | Some p => RErr (fst p) limit            (* the first offset without a solution *)
        | None => ROk (maxN (map (fun p => oval (snd p)) sols))
        end
    end.

  Definition exh_event_source (limit : N) (demand : N -> N) : result :=
    exh_ecrts limit demand (fun A _ => demand (A + 1)).
End Scan.

(* rr / bw subchain analyses, exhaustive form; [bound d] = an upper bound on the inverse used for the scan *)
Section Subchains.
  Variables (sbf : N -> N) (bound : N -> N).
  Variable workload : list callback.
  Variable subchain : list nat.
  Variable limit : N.

  Definition exh_rr : result :=
    match least_sol sbf limit 0 (rr_rhs workload subchain) with
    | None => RErr 0 limit
    | Some Sst =>
        let n := rr_self_instances workload subchain Sst in
        let omega := cb_cost (eoc workload subchain) (n + 1) - cb_cost (eoc workload subchain) n in
        let d := (sbf Sst - 1) + omega in
        ROk (inv_scan sbf (bound d) d)
    end.

  Definition exh_bw_at (singleton : bool) (ta : N) : option N :=
    let si := cb_cost (eoc workload subchain) (bw_self_instances workload subchain ta) in
    match least_sol sbf limit 0 (fun x => 1 + bw_interference workload subchain x ta + si) with
    | None => None
    | Some Sst =>
        let n := bw_self_instances workload subchain ta in
        let omega := cb_cost (eoc workload subchain) (n + 1) - cb_cost (eoc workload subchain) n in
        let d := (sbf Sst - 1) + omega in
        let F := inv_scan sbf (bound d) d in
        Some (if singleton then F - ta else F)
    end.

  (* EVERY activation offset t_a in [0, max_offset) *)
  Definition exh_bw : result :=
    let singleton := Nat.eqb (length subchain) 1 in
    match least_sol sbf limit 0 (bw_max_rhs workload subchain) with
    | None => RErr 0 limit
    | Some m =>
        let sols := map (exh_bw_at singleton) (rangeN 0 m) in
        if existsb is_none sols then RErr 0 limit else ROk (maxN (map oval sols))
    end.
End Subchains.
