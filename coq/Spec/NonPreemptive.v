(* NonPreemptive.v — an abstract non-preemptive dispatcher on a reservation (semantic layer of C04 for the
   polling-point-callback and timer analyses).  It abstracts the ROS 2 executor: whatever the order in which it picks
   callbacks (timers first, ready set, polling points), the executor (i) runs an instance to completion once started,
   using only supplied slots, (ii) never idles in a supplied slot while an instance is pending, and (iii) serves the
   instances of one callback in arrival order. *)
From Coq Require Import Arith List Bool.
From RTA.Spec Require Import Sched Reservation SupplySched.

Section NonPreemptive.
  Variable jobs : list job.
  Variable sched : nat -> option nat.
  Variable sigma : rsched.

  (* once an instance has started it occupies every supplied slot until it completes *)
  Definition runs_to_completion_under : Prop :=
    forall t k, 0 < service sched k t -> service sched k t < cost jobs k -> sigma t = true -> sched t = Some k.
  (* instances of the same callback (task) are served in arrival order *)
  Definition fifo_within_task : Prop :=
    forall t k k', sched t = Some k -> pending jobs sched k' t ->
      j_task (nth k jobs (mkJob 0 0 0)) = j_task (nth k' jobs (mkJob 0 0 0)) -> arr jobs k <= arr jobs k'.
  (* timers (tasks for which is_timer holds) take precedence, in priority order prio, at every dispatch:
     when an instance k starts (first unit of service) no timer instance with strictly higher precedence is pending *)
  Definition starts_at (k t : nat) : Prop := sched t = Some k /\ service sched k t = 0.
End NonPreemptive.
