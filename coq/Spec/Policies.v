(* Policies.v — job-level priority policies and the limited-preemption discipline
   (semantic layer of C01, C02, C18).  A schedule is legal for a policy and a preemption model if
   (a) a job is preempted only at one of its preemption points, and
   (b) whenever the scheduler makes a decision (the processor was idle or ran another job in the
       previous slot, or the running job is at a preemption point) it picks a job that no pending
       job strictly precedes in priority. *)
From Coq Require Import Arith List Bool NArith.
From RTA.Spec Require Import Sched.
Local Open Scope nat_scope.

Section Policy.
  Variable jobs : list job.
  Variable sched : nat -> option nat.

  (* strict job-level priority: [hp k k'] = job k has strictly higher priority than job k' *)
  Variable hp : nat -> nat -> Prop.

  (* preemption points of a job, as amounts of received service at which it may be preempted;
     0 (not yet started) and the job's cost (completed) are always preemption points *)
  Variable pp : nat -> nat -> bool.
  Definition pp_sane : Prop := forall k, pp k 0 = true /\ pp k (cost jobs k) = true.

  (* the scheduler makes a decision at t in favour of k *)
  Definition decision (k t : nat) : Prop :=
    sched t = Some k /\ (t = 0 \/ sched (t - 1) <> Some k \/ pp k (service sched k t) = true).

  Definition legal : Prop :=
    (* (a) no preemption inside a non-preemptive segment *)
    (forall t k, sched t = Some k -> sched (S t) <> Some k -> pending jobs sched k (S t) ->
       pp k (service sched k (S t)) = true) /\
    (* (b) priority-compliant decisions *)
    (forall t k k', decision k t -> pending jobs sched k' t -> ~ hp k' k).

  (* every non-preemptive segment of job k is at most m long: from every preemption point below the
     cost, the next preemption point is at most m units of service away *)
  Definition segments_le (k m : nat) : Prop :=
    forall s, pp k s = true -> s < cost jobs k ->
      exists s', s < s' /\ s' <= s + m /\ s' <= cost jobs k /\ pp k s' = true.

  (* the last non-preemptive segment of job k begins after at most b units of service: from service b
     on there is no preemption point before completion *)
  Definition last_segment_starts_by (k b : nat) : Prop :=
    forall s, b < s -> s < cost jobs k -> pp k s = false.
End Policy.

(* the preemption models *)
Definition fully_preemptive (pp : nat -> nat -> bool) : Prop := forall k s, pp k s = true.
Definition fully_nonpreemptive (jobs : list job) (pp : nat -> nat -> bool) : Prop :=
  forall k s, pp k s = (s =? 0) || (s =? cost jobs k).

(* the policies *)
Section Priorities.
  Variable jobs : list job.
  (* fixed priority: smaller number = higher priority; jobs of the same task in release order *)
  Definition fp_hp (prio : nat -> nat) (k k' : nat) : Prop :=
    prio (j_task (nth k jobs (mkJob 0 0 0))) < prio (j_task (nth k' jobs (mkJob 0 0 0))) \/
    (j_task (nth k jobs (mkJob 0 0 0)) = j_task (nth k' jobs (mkJob 0 0 0)) /\ arr jobs k < arr jobs k').
  (* EDF: earlier absolute deadline first, ties arbitrary *)
  Definition edf_hp (dl : nat -> nat) (k k' : nat) : Prop :=
    arr jobs k + dl (j_task (nth k jobs (mkJob 0 0 0))) < arr jobs k' + dl (j_task (nth k' jobs (mkJob 0 0 0))).
  (* FIFO *)
  Definition fifo_hp (k k' : nat) : Prop := arr jobs k < arr jobs k'.
End Priorities.
