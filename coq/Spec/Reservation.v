(* Reservation.v — what a periodic / deadline-constrained reservation is (semantic layer, C09, C04).
   Independent of the model of the code. Discrete time: slot t is the interval [t, t+1). *)
From Coq Require Import Arith List.

(* a reservation schedule: true = the reservation delivers one unit of service in slot t *)
Definition rsched := nat -> bool.

(* service delivered in the window [t, t + d) *)
Fixpoint supplied (sigma : rsched) (t d : nat) : nat :=
  match d with
  | 0 => 0
  | S d' => supplied sigma t d' + (if sigma (t + d') then 1 else 0)
  end.

(* a legal placement of the budget: in every period k (which starts at k * P) at least Q units
   are delivered before the relative deadline D, i.e. inside [k*P, k*P + D).
   The periodic resource model of Shin & Lee is the case D = P. *)
Definition valid_reservation (Q D P : nat) (sigma : rsched) : Prop :=
  forall k, Q <= supplied sigma (k * P) D.
