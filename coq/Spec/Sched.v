From Coq Require Import List Arith Lia Bool.
Import ListNotations.

(* ---------- finite sums ---------- *)
Fixpoint sumn (n : nat) (f : nat -> nat) : nat :=
  match n with 0 => 0 | S n' => sumn n' f + f n' end.

Lemma sumn_ext n f g : (forall i, i < n -> f i = g i) -> sumn n f = sumn n g.
Proof. induction n as [|n IH]; intros H; simpl; [reflexivity|]. rewrite IH, H; auto. Qed.

Lemma sumn_le n f g : (forall i, i < n -> f i <= g i) -> sumn n f <= sumn n g.
Proof. induction n as [|n IH]; intros H; simpl; [lia|]. specialize (IH (fun i Hi => H i (Nat.lt_lt_succ_r _ _ Hi))). specialize (H n (Nat.lt_succ_diag_r n)). lia. Qed.

Lemma sumn_add n f g : sumn n (fun i => f i + g i) = sumn n f + sumn n g.
Proof. induction n as [|n IH]; simpl; lia. Qed.

Lemma sumn_exch n m (f : nat -> nat -> nat) :
  sumn n (fun i => sumn m (fun j => f i j)) = sumn m (fun j => sumn n (fun i => f i j)).
Proof.
  induction m as [|m IH]; simpl.
  - induction n; simpl; lia.
  - rewrite sumn_add, IH. reflexivity.
Qed.

Lemma sumn_const0 n f : (forall i, i < n -> f i = 0) -> sumn n f = 0.
Proof. induction n as [|n IH]; intros H; simpl; [reflexivity|]. rewrite IH, H; auto. Qed.

Lemma sumn_lt n f g : (forall i, i < n -> f i <= g i) -> (exists i, i < n /\ f i < g i) -> sumn n f < sumn n g.
Proof.
  induction n as [|n IH]; intros H [i [Hi Hlt]]; [lia|]. simpl.
  assert (Hn := H n (Nat.lt_succ_diag_r n)).
  assert (Hle : sumn n f <= sumn n g) by (apply sumn_le; intros; apply H; lia).
  destruct (Nat.eq_dec i n) as [->|Hne]; [lia|].
  assert (sumn n f < sumn n g) by (apply IH; [intros; apply H; lia | exists i; split; [lia|assumption]]). lia.
Qed.

(* ---------- jobs and schedules ---------- *)
Record job := mkJob { j_task : nat; j_arr : nat; j_cost : nat }.

Section Schedule.
  Variable jobs : list job.
  Variable sched : nat -> option nat.
  Notation n := (length jobs).
  Definition arr (j : nat) := j_arr (nth j jobs (mkJob 0 0 0)).
  Definition cost (j : nat) := j_cost (nth j jobs (mkJob 0 0 0)).

  Definition runs (j t : nat) : nat :=
    match sched t with Some k => if Nat.eqb k j then 1 else 0 | None => 0 end.
  (* service received by j in [t1, t1+d) *)
  Definition svc (j t1 d : nat) : nat := sumn d (fun i => runs j (t1 + i)).
  Definition service (j t : nat) := svc j 0 t.

  Definition pending (j t : nat) := j < n /\ arr j <= t /\ service j t < cost j.
  Definition completed (j t : nat) := cost j <= service j t.

  Definition valid := forall t j, sched t = Some j -> pending j t.
  Definition work_conserving := forall t j, pending j t -> sched t <> None.

  Lemma svc_split j t1 d1 d2 : svc j t1 (d1 + d2) = svc j t1 d1 + svc j (t1 + d1) d2.
  Proof.
    unfold svc. induction d2 as [|d2 IH]; simpl; [rewrite Nat.add_0_r; lia|].
    replace (d1 + S d2) with (S (d1 + d2)) by lia. simpl. rewrite IH.
    replace (t1 + d1 + d2) with (t1 + (d1 + d2)) by lia. lia.
  Qed.

  Lemma service_mono j t t' : t <= t' -> service j t <= service j t'.
  Proof. intros H. unfold service. replace t' with (t + (t' - t)) by lia. rewrite svc_split. lia. Qed.

  Lemma service_S j t : service j (S t) = service j t + runs j t.
  Proof. reflexivity. Qed.

  Hypothesis Hvalid : valid.

  Lemma service_le_cost j t : j < n -> service j t <= cost j.
  Proof.
    intros Hj. induction t as [|t IH]; [unfold service, svc; simpl; lia|].
    rewrite service_S. unfold runs. destruct (sched t) as [k|] eqn:E; [|lia].
    destruct (Nat.eqb_spec k j) as [->|]; [|lia].
    destruct (Hvalid _ _ E) as (_ & _ & Hlt). lia.
  Qed.

  Lemma runs_total t : sumn n (fun j => runs j t) = match sched t with Some _ => 1 | None => 0 end.
  Proof.
    unfold runs. destruct (sched t) as [k|] eqn:E.
    - assert (Hk : k < n) by (destruct (Hvalid _ _ E); assumption).
      clear E. revert Hk. generalize n. intros m. induction m as [|m IH]; intros Hk; [lia|]. simpl.
      destruct (Nat.eq_dec k m) as [->|Hne].
      + rewrite Nat.eqb_refl. rewrite sumn_const0; [lia|]. intros i Hi. destruct (Nat.eqb_spec m i); lia.
      + destruct (Nat.eqb_spec k m); [lia|]. rewrite IH; lia.
    - apply sumn_const0; auto.
  Qed.

  (* service delivered in [t1,t1+d) to jobs satisfying P *)
  Definition svcP (P : nat -> bool) (t1 d : nat) :=
    sumn n (fun j => if P j then svc j t1 d else 0).

  Definition busyP (P : nat -> bool) (t : nat) := exists k, sched t = Some k /\ P k = true.

  Lemma svcP_busy P t1 d : (forall i, i < d -> busyP P (t1 + i)) -> svcP P t1 d = d.
  Proof.
    intros H. unfold svcP, svc.
    rewrite (sumn_ext n _ (fun j => sumn d (fun i => if P j then runs j (t1 + i) else 0))).
    2:{ intros j _. destruct (P j); [reflexivity|]. symmetry. apply sumn_const0; auto. }
    rewrite sumn_exch.
    rewrite (sumn_ext d _ (fun _ => 1)).
    { clear. induction d; simpl; lia. }
    intros i Hi. destruct (H i Hi) as [k [Ek Pk]].
    assert (Hk : k < n) by (destruct (Hvalid _ _ Ek); assumption).
    rewrite <- (sumn_ext n (fun j => runs j (t1 + i))).
    { rewrite runs_total, Ek. reflexivity. }
    intros j Hj. unfold runs. rewrite Ek. destruct (Nat.eqb_spec k j) as [<-|]; [rewrite Pk|destruct (P j)]; reflexivity.
  Qed.

  Definition workP (P : nat -> bool) := sumn n (fun j => if P j then cost j else 0).

  Lemma svcP_le_work P t1 d : svcP P t1 d + sumn n (fun j => if P j then service j t1 else 0) <= workP P.
  Proof.
    unfold svcP, workP. rewrite <- sumn_add. apply sumn_le. intros j Hj. destruct (P j); [|lia].
    assert (H := service_le_cost j (t1 + d) Hj). unfold service in *. rewrite svc_split in H. simpl in H. lia.
  Qed.
End Schedule.
