(* SupplySched.v — schedules on a processor that is only available when a reservation supplies service
   (semantic layer of C04).  sigma t = true: the reservation delivers a unit of service in slot t
   (Spec/Reservation.v); the dedicated processor is sigma = fun _ => true. *)
From Coq Require Import Arith List Bool.
From RTA.Spec Require Import Sched Reservation.

Section SupplySched.
  Variable jobs : list job.
  Variable sched : nat -> option nat.
  Variable sigma : rsched.

  (* the schedule only uses supplied slots *)
  Definition uses_supply : Prop := forall t k, sched t = Some k -> sigma t = true.
  (* work-conserving relative to the supply: never idle in a supplied slot while a job is pending *)
  Definition work_conserving_under : Prop := forall t k, pending jobs sched k t -> sigma t = true -> sched t <> None.
End SupplySched.
