(* TaskModel.v — how a finite set of jobs relates to a task set with arrival curves and WCETs
   (semantic layer of C01-C03, C18).  Jobs, schedules, service, pending: Spec/Sched.v. *)
From Coq Require Import Arith List Bool NArith Permutation.
From RTA.Model Require Import Base Arrival.
From RTA.Spec Require Import Sched Events.
Local Close Scope N_scope.
Local Open Scope nat_scope.

(* release times of the jobs of task i, in job-list order *)
Definition arrivals_of (jobs : list job) (i : nat) : list nat :=
  map j_arr (filter (fun j => j_task j =? i) jobs).

(* a task: arrival bound and scalar WCET *)
Definition task := (AB * N)%type.

(* every task's releases form (up to reordering) an event sequence admissible for its arrival model *)
Definition respects_curves (tasks : list task) (jobs : list job) : Prop :=
  forall i, i < length tasks ->
    exists es, Permutation es (arrivals_of jobs i) /\ admissible (fst (nth i tasks (Never, 0%N))) es.

(* every job belongs to a task and executes for at least one and at most WCET time units *)
Definition respects_costs (tasks : list task) (jobs : list job) : Prop :=
  forall j, In j jobs -> j_task j < length tasks /\ 1 <= j_cost j /\
    j_cost j <= N.to_nat (snd (nth (j_task j) tasks (Never, 0%N))).

(* response time bound R for job index k: it has received its full cost by arr k + R *)
Definition completes_within (jobs : list job) (sched : nat -> option nat) (k R : nat) : Prop :=
  cost jobs k <= service sched k (arr jobs k + R).

(* FIFO: the running job arrived no later than any pending job (ties broken arbitrarily) *)
Definition fifo_policy (jobs : list job) (sched : nat -> option nat) : Prop :=
  forall t k k', sched t = Some k -> pending jobs sched k' t -> arr jobs k <= arr jobs k'.
