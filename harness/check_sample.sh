#!/bin/sh
# Runs both builds of rta_oracle on sample.cases and compares against the "# expect" annotations.
cd "$(dirname "$0")" || exit 1
status=0
for profile in debug release; do
    bin=target/$profile/rta_oracle
    [ -x "$bin" ] || { echo "missing $bin"; status=1; continue; }
    "$bin" sample.cases > "sample.out.$profile"
    awk -v profile="$profile" '
        FNR == NR {
            if ($0 ~ /^# expect /)                 { exp_all = substr($0, 10) ; have_all = 1 }
            else if ($0 ~ "^# expect-" profile " ") { exp_p = substr($0, 11 + length(profile)); have_p = 1 }
            else if ($0 !~ /^#/ && $0 !~ /^[ \t]*$/) {
                n++
                if (have_p) { want[n] = exp_p; has[n] = 1 } else if (have_all) { want[n] = exp_all; has[n] = 1 }
                have_all = have_p = 0
            }
            next
        }
        {
            m++
            got = $0; sub(/^[^ ]+ /, "", got)
            if (has[m]) {
                checked++
                ok = (want[m] == "parseerror") ? (got ~ /^parseerror /) : (got == want[m])
                if (!ok) { bad++; print profile ": MISMATCH case line " m ": got \"" $0 "\", expected \"" want[m] "\"" }
            }
        }
        END {
            if (m != n) { print profile ": expected " n " output lines, got " m; bad++ }
            print profile ": " checked " of " m " outputs checked against expectations, " bad + 0 " mismatches"
            exit (bad > 0)
        }
    ' sample.cases "sample.out.$profile" || status=1
done
cmp -s sample.out.debug sample.out.release || { echo "debug/release differences:"; diff sample.out.debug sample.out.release; }
exit $status
