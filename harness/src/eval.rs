//! Evaluator: S-expression => library objects => result.
//!
//! Malformed input yields `Err(msg)` (printed as `parseerror`); panics raised by the library (or
//! by deliberately panicking oracle code, e.g. `snc` on a non-aggregate) are caught in `main`.

use std::fmt;
use std::rc::Rc;

use response_time_analysis as rta;
use rta::arrival::{self, ArrivalBound, ArrivalCurvePrefix};
use rta::demand::{self, AggregateRequestBound, RequestBound};
use rta::fixed_point::{self, SearchFailure, SearchResult};
use rta::ros2::{self, rr::CallbackType};
use rta::supply::{self, SupplyBound};
use rta::time::{Duration, Offset, Service};
use rta::wcet::{self, JobCostModel};
use rta::{edf, fifo, fixed_priority as fp};

use crate::sexp::{Sx, R};

// `#[auto_impl(&, Box, Rc)]` covers `T: ?Sized`, so these are themselves ArrivalBound (+ Clone +
// 'static), JobCostModel, RequestBound and SupplyBound; every trait method is forwarded.
type AB = Rc<dyn ArrivalBound>;
type CM = Rc<dyn JobCostModel>;
type RB = Rc<dyn RequestBound>;
type SB = Rc<dyn SupplyBound>;
type W = Box<dyn Fn(Duration) -> Service>;

// ---------------------------------------------------------------------------------------------
// results

pub enum Out {
    N(u64),
    L(Vec<u64>),
    Res(SearchResult),
    F(f64),
}

impl fmt::Display for Out {
    fn fmt(&self, f: &mut fmt::Formatter) -> fmt::Result {
        match self {
            Out::N(n) => write!(f, "n {n}"),
            Out::L(l) => {
                write!(f, "l")?;
                l.iter().try_for_each(|x| write!(f, " {x}"))
            }
            Out::Res(Ok(r)) => write!(f, "ok {}", u64::from(*r)),
            Out::Res(Err(SearchFailure::DivergenceLimitExceeded { offset, limit })) => {
                write!(f, "err {} {}", u64::from(*offset), u64::from(*limit))
            }
            Out::Res(Err(SearchFailure::AssumptionViolated)) => write!(f, "errav"),
            Out::F(v) if v.is_nan() => write!(f, "f nan"),
            Out::F(v) if v.is_infinite() => write!(f, "f inf"),
            Out::F(v) if *v == 0.0 => write!(f, "f 0 0 0"),
            Out::F(v) => {
                // raw IEEE-754 decomposition: value = (-1)^sign * mant * 2^exp2
                let bits = v.to_bits();
                let (sign, e, frac) = (bits >> 63, ((bits >> 52) & 0x7ff) as i64, bits & ((1 << 52) - 1));
                let (mant, exp2) = if e == 0 { (frac, -1074) } else { (frac | (1 << 52), e - 1075) };
                write!(f, "f {mant} {exp2} {sign}")
            }
        }
    }
}

fn durs_out(it: impl Iterator<Item = Duration>) -> Out {
    Out::L(it.map(u64::from).collect())
}

fn svcs_out(it: impl Iterator<Item = Service>) -> Out {
    Out::L(it.map(u64::from).collect())
}

/// All decimal numbers occurring in a `Debug` rendering, in order.
fn debug_numbers(dbg: &str) -> Vec<u64> {
    dbg.split(|c: char| !c.is_ascii_digit())
        .filter(|s| !s.is_empty())
        .map(|s| s.parse().unwrap())
        .collect()
}

// ---------------------------------------------------------------------------------------------
// scalars and lists

fn dur(x: &Sx) -> R<Duration> {
    x.num().map(Duration::from)
}

fn svc(x: &Sx) -> R<Service> {
    x.num().map(Service::from)
}

fn off(x: &Sx) -> R<Offset> {
    x.num().map(Offset::from)
}

fn usz(x: &Sx) -> R<usize> {
    x.num().map(|n| n as usize)
}

fn durs(x: &Sx) -> R<Vec<Duration>> {
    Ok(x.nums()?.into_iter().map(Duration::from).collect())
}

fn svcs(x: &Sx) -> R<Vec<Service>> {
    Ok(x.nums()?.into_iter().map(Service::from).collect())
}

fn each<T>(x: &Sx, f: impl Fn(&Sx) -> R<T>) -> R<Vec<T>> {
    x.list()?.iter().map(f).collect()
}

fn bad<T>(what: &str, head: &str, args: &[Sx]) -> R<T> {
    Err(format!("unknown {what} form ({head} ...) with {} argument(s)", args.len()))
}

// ---------------------------------------------------------------------------------------------
// AB, CURVE, PREFIX

fn ab(x: &Sx) -> R<AB> {
    let (h, a) = x.form()?;
    let v: AB = match (h, a) {
        ("periodic", [t]) => Rc::new(arrival::Periodic::new(dur(t)?)),
        // jitter 0 and an odd period: through the second public constructor (same model value: Sporadic T 0)
        ("sporadic", [t, j]) if j.num()? == 0 && t.num()? % 2 == 1 => {
            Rc::new(arrival::Sporadic::new_zero_jitter(dur(t)?))
        }
        ("sporadic", [t, j]) => Rc::new(arrival::Sporadic::new(dur(t)?, dur(j)?)),
        ("never", []) => Rc::new(arrival::Never {}),
        // ApproximatedPoisson::new(RN / RD, EN / ED): not part of the Coq model (floating point); used by
        // direct oracles only
        // (odd RN: through Poisson::approximate, the other public way to construct it)
        ("apoisson", [rn, rd, en, ed]) if rn.num()? % 2 == 1 => Rc::new(
            arrival::Poisson { rate: rn.num()? as f64 / rd.num()? as f64 }.approximate(en.num()? as f64 / ed.num()? as f64),
        ),
        ("apoisson", [rn, rd, en, ed]) => Rc::new(arrival::ApproximatedPoisson::new(
            rn.num()? as f64 / rd.num()? as f64,
            en.num()? as f64 / ed.num()? as f64,
        )),
        ("curve", [c]) => Rc::new(curve(c)?),
        ("extrap", [c]) => Rc::new(arrival::ExtrapolatingCurve::new(curve(c)?)),
        ("prefix", [p]) => Rc::new(prefix(p)?),
        ("propagated", [j, inner]) => {
            let (j, inner) = (dur(j)?, ab(inner)?);
            Rc::new(arrival::Propagated::with_jitter(&inner, j))
        }
        ("jitter", [j, inner]) => {
            let (j, inner) = (dur(j)?, ab(inner)?);
            Rc::from(inner.clone_with_jitter(j))
        }
        // an even number of components: through the implementation for slices (`impl ArrivalBound for [T]`), otherwise the one for Vec
        ("sum", [l]) => {
            let v = each(l, ab)?;
            if v.len() % 2 == 0 { Rc::new(ViaSlice(v)) } else { Rc::new(v) }
        }
        ("sum2", [x1, x2]) => Rc::new(arrival::sum_of(ab(x1)?, ab(x2)?)),
        _ => return bad("AB", h, a),
    };
    Ok(v)
}

/// Routes every query through `impl<T: ArrivalBound> ArrivalBound for [T]`.
struct ViaSlice(Vec<AB>);

impl ArrivalBound for ViaSlice {
    fn number_arrivals(&self, delta: Duration) -> usize {
        self.0[..].number_arrivals(delta)
    }
    fn steps_iter<'a>(&'a self) -> Box<dyn Iterator<Item = Duration> + 'a> {
        self.0[..].steps_iter()
    }
    fn clone_with_jitter(&self, jitter: Duration) -> Box<dyn ArrivalBound> {
        self.0[..].clone_with_jitter(jitter)
    }
}

fn curve(x: &Sx) -> R<arrival::Curve> {
    use arrival::Curve;
    let (h, a) = x.form()?;
    Ok(match (h, a) {
        ("dmin", [l]) => Curve::new(durs(l)?),
        ("fromiter", [l]) => durs(l)?.into_iter().collect::<Curve>(),
        ("from_trace", [l, k]) => {
            let (trace, k) = (l.nums()?, usz(k)?);
            Curve::from_trace(trace.into_iter().map(Offset::from), k)
        }
        ("from_ab", [b, n]) => {
            let (b, n) = (ab(b)?, usz(n)?);
            Curve::from_arrival_bound(&b, n)
        }
        ("from_ab_until", [b, hz]) => {
            let (b, hz) = (ab(b)?, dur(hz)?);
            Curve::from_arrival_bound_until(&b, hz)
        }
        ("of_periodic", [t]) => Curve::from(arrival::Periodic::new(dur(t)?)),
        ("of_sporadic", [t, j]) => Curve::from(arrival::Sporadic::new(dur(t)?, dur(j)?)),
        ("of_prefix", [p]) => Curve::from(&prefix(p)?),
        ("extrapolate", [c, hz]) => {
            let (mut c, hz) = (curve(c)?, dur(hz)?);
            c.extrapolate(hz);
            c
        }
        ("extrapolate_steps", [c, n]) => {
            let (mut c, n) = (curve(c)?, usz(n)?);
            c.extrapolate_steps(n);
            c
        }
        ("extrapolate_with_bound", [c, d, n]) => {
            let (mut c, d, n) = (curve(c)?, dur(d)?, usz(n)?);
            c.extrapolate_with_bound((d, n));
            c
        }
        _ => return bad("CURVE", h, a),
    })
}

fn prefix(x: &Sx) -> R<ArrivalCurvePrefix> {
    let (h, a) = x.form()?;
    Ok(match (h, a) {
        ("steps", [hz, l]) => {
            let step = |s: &Sx| match s.list()? {
                [d, n] => Ok((dur(d)?, usz(n)?)),
                _ => Err("expected step (d n)".to_string()),
            };
            let (hz, steps) = (dur(hz)?, each(l, step)?);
            ArrivalCurvePrefix::new(hz, steps)
        }
        ("prefix_from", [b, hz]) => {
            let (b, hz) = (ab(b)?, dur(hz)?);
            ArrivalCurvePrefix::from_arrival_bound_until(&b, hz)
        }
        _ => return bad("PREFIX", h, a),
    })
}

// ---------------------------------------------------------------------------------------------
// CM, WCURVE

fn cm(x: &Sx) -> R<CM> {
    let (h, a) = x.form()?;
    let v: CM = match (h, a) {
        ("scalar", [c]) => Rc::new(wcet::Scalar::new(svc(c)?)),
        ("multiframe", [l]) => Rc::new(wcet::Multiframe::new(svcs(l)?)),
        ("ccurve", [c]) => Rc::new(wcurve(c)?),
        ("cextrap", [c]) => Rc::new(wcet::ExtrapolatingCurve::new(wcurve(c)?)),
        // forwards job_cost_iter only: the trait's provided cost_of_jobs / least_wcet run
        ("default_cm", [c]) => Rc::new(DefaultCostModel(cm(c)?)),
        _ => return bad("CM", h, a),
    };
    Ok(v)
}

struct DefaultCostModel(CM);

impl JobCostModel for DefaultCostModel {
    fn job_cost_iter<'a>(&'a self) -> Box<dyn Iterator<Item = Service> + 'a> {
        self.0.job_cost_iter()
    }
}

/// Forwards the required methods only: the trait's provided service_needed / service_needed_by_n_jobs run.
struct DefaultRequestBound(RB);

impl RequestBound for DefaultRequestBound {
    fn least_wcet_in_interval(&self, delta: Duration) -> Service {
        self.0.least_wcet_in_interval(delta)
    }
    fn steps_iter<'a>(&'a self) -> Box<dyn Iterator<Item = Duration> + 'a> {
        self.0.steps_iter()
    }
    fn job_cost_iter<'a>(&'a self, delta: Duration) -> Box<dyn Iterator<Item = Service> + 'a> {
        self.0.job_cost_iter(delta)
    }
}

fn wcurve(x: &Sx) -> R<wcet::Curve> {
    let (h, a) = x.form()?;
    Ok(match (h, a) {
        ("costs", [l]) => wcet::Curve::new(svcs(l)?),
        ("cfromiter", [l]) => svcs(l)?.into_iter().collect::<wcet::Curve>(),
        ("cfrom_trace", [l, k]) => {
            let (trace, k) = (svcs(l)?, usz(k)?);
            wcet::Curve::from_trace(trace.into_iter(), k)
        }
        ("cextrapolate", [c, n]) => {
            let (mut c, n) = (wcurve(c)?, usz(n)?);
            c.extrapolate(n);
            c
        }
        _ => return bad("WCURVE", h, a),
    })
}

// ---------------------------------------------------------------------------------------------
// RB

/// A `demand::Slice` together with the vector it borrows from.
struct OwnedSlice {
    slice: demand::Slice<'static, RB>, // points into the heap buffer of `_owner`
    _owner: Vec<RB>,
}

impl OwnedSlice {
    fn new(owner: Vec<RB>) -> Self {
        // SAFETY: the Vec's heap buffer is never modified or freed while `slice` exists (both
        // live and die together, and moving a Vec does not move its buffer).
        let items: &'static [RB] = unsafe { &*(owner.as_slice() as *const [RB]) };
        OwnedSlice { slice: demand::Slice::of(items), _owner: owner }
    }
}

impl RequestBound for OwnedSlice {
    fn service_needed(&self, delta: Duration) -> Service {
        self.slice.service_needed(delta)
    }
    fn service_needed_by_n_jobs(&self, delta: Duration, max_jobs: usize) -> Service {
        self.slice.service_needed_by_n_jobs(delta, max_jobs)
    }
    fn least_wcet_in_interval(&self, delta: Duration) -> Service {
        self.slice.least_wcet_in_interval(delta)
    }
    fn steps_iter<'a>(&'a self) -> Box<dyn Iterator<Item = Duration> + 'a> {
        self.slice.steps_iter()
    }
    fn job_cost_iter<'a>(&'a self, delta: Duration) -> Box<dyn Iterator<Item = Service> + 'a> {
        self.slice.job_cost_iter(delta)
    }
}

enum RBV {
    Plain(RB),
    Agg(Rc<demand::Aggregate<RB>>),
    SliceOf(Rc<OwnedSlice>),
}

impl RBV {
    fn rb(&self) -> RB {
        match self {
            RBV::Plain(r) => r.clone(),
            RBV::Agg(a) => a.clone(),
            RBV::SliceOf(s) => s.clone(),
        }
    }

    fn per_component(&self, delta: Duration, max_jobs: usize) -> Service {
        match self {
            RBV::Plain(_) => panic!("not an aggregate request bound"),
            RBV::Agg(a) => a.service_needed_by_n_jobs_per_component(delta, max_jobs),
            RBV::SliceOf(s) => s.slice.service_needed_by_n_jobs_per_component(delta, max_jobs),
        }
    }
}

fn rbv(x: &Sx) -> R<RBV> {
    let (h, a) = x.form()?;
    Ok(match (h, a) {
        ("rbf", [b, c]) => RBV::Plain(Rc::new(demand::RBF::new(ab(b)?, cm(c)?))),
        ("agg", [l]) => RBV::Agg(Rc::new(demand::Aggregate::new(each(l, rb)?))),
        ("slice", [l]) => RBV::SliceOf(Rc::new(OwnedSlice::new(each(l, rb)?))),
        ("default_rb", [r]) => RBV::Plain(Rc::new(DefaultRequestBound(rb(r)?))),
        ("boxed", [r]) => {
            let boxed: Box<dyn RequestBound> = Box::new(rb(r)?);
            RBV::Plain(Rc::new(boxed))
        }
        _ => return bad("RB", h, a),
    })
}

fn rb(x: &Sx) -> R<RB> {
    Ok(rbv(x)?.rb())
}

// ---------------------------------------------------------------------------------------------
// SB

/// Forwards `provided_service` only, so that the trait's default `service_time` runs.
struct DefaultServiceTime(SB);

impl SupplyBound for DefaultServiceTime {
    fn provided_service(&self, delta: Duration) -> Service {
        self.0.provided_service(delta)
    }
}

/// User-defined supply given by a table, continued with slope 1.
struct TableSupply(Vec<u64>);

impl SupplyBound for TableSupply {
    fn provided_service(&self, delta: Duration) -> Service {
        let (d, k) = (u64::from(delta), self.0.len() as u64 - 1);
        let v = if d <= k {
            self.0[d as usize]
        } else {
            self.0[k as usize].checked_add(d - k).expect("table_s overflow")
        };
        Service::from(v)
    }
}

fn sb(x: &Sx) -> R<SB> {
    let (h, a) = x.form()?;
    let v: SB = match (h, a) {
        ("dedicated", []) => Rc::new(supply::Dedicated::new()),
        ("periodic_s", [q, p]) => Rc::new(supply::Periodic::new(svc(q)?, dur(p)?)),
        ("constrained_s", [q, d, p]) => Rc::new(supply::Constrained::new(svc(q)?, dur(d)?, dur(p)?)),
        ("default_st", [s]) => Rc::new(DefaultServiceTime(sb(s)?)),
        ("table_s", [l]) => {
            let table = l.nums()?;
            if table.is_empty() {
                return Err("table_s needs at least one entry".into());
            }
            Rc::new(TableSupply(table))
        }
        _ => return bad("SB", h, a),
    };
    Ok(v)
}

// ---------------------------------------------------------------------------------------------
// W, R, KIND

fn workload(x: &Sx) -> R<W> {
    let (h, a) = x.form()?;
    Ok(match (h, a) {
        ("wtable", [l, num, den]) => {
            let (table, num, den) = (l.nums()?, num.num()?, den.num()?);
            if table.is_empty() {
                return Err("wtable needs at least one entry".into());
            }
            Box::new(move |r: Duration| {
                let (r, k) = (u64::from(r), table.len() as u64);
                let v = if r == 0 {
                    table[0]
                } else if r <= k {
                    table[(r - 1) as usize]
                } else {
                    // exact arithmetic (same in both profiles); division by zero if den = 0
                    let extra = ((r - k) as u128 * num as u128) / den as u128;
                    u64::try_from(table[(k - 1) as usize] as u128 + extra).expect("wtable overflow")
                };
                Service::from(v)
            })
        }
        ("wrbf", [r]) => {
            let r = rb(r)?;
            Box::new(move |delta: Duration| r.service_needed(delta))
        }
        _ => return bad("W", h, a),
    })
}

fn search_result(x: &Sx) -> R<SearchResult> {
    let (h, a) = x.form()?;
    Ok(match (h, a) {
        ("ok", [n]) => Ok(dur(n)?),
        ("err", [o, l]) => Err(SearchFailure::DivergenceLimitExceeded { offset: off(o)?, limit: dur(l)? }),
        _ => return bad("R", h, a),
    })
}

fn kind(x: &Sx) -> R<CallbackType> {
    Ok(match x {
        Sx::Sym(s) if s == "timer" => CallbackType::Timer,
        Sx::Sym(s) if s == "es" => CallbackType::EventSource,
        Sx::Sym(s) if s == "pu" => CallbackType::PolledUnknownPrio,
        Sx::List(_) => match x.form()? {
            ("p", [prio]) => CallbackType::Polled(prio.num()? as i32),
            (h, a) => return bad("KIND", h, a),
        },
        _ => return Err("expected KIND: timer | es | pu | (p PRIO)".into()),
    })
}

/// `((R AB CM KIND) ...)`
fn callbacks(x: &Sx) -> R<Vec<(Duration, AB, CM, CallbackType)>> {
    each(x, |c| match c.list()? {
        [r, b, c, k] => Ok((dur(r)?, ab(b)?, cm(c)?, kind(k)?)),
        _ => Err("expected callback (R AB CM KIND)".to_string()),
    })
}

fn indices(x: &Sx, len: usize) -> R<Vec<usize>> {
    each(x, |i| match usz(i)? {
        i if i < len => Ok(i),
        i => Err(format!("subchain index {i} out of range")),
    })
}

// ---------------------------------------------------------------------------------------------
// C13 / C14 histories

type ECurve = arrival::ExtrapolatingCurve;

/// Clones live in leaked boxes so that iterators can borrow them for `'static`; the boxes are
/// reclaimed on drop (after the iterators).
#[derive(Default)]
struct History {
    clones: Vec<*mut ECurve>,
    iters: Vec<Box<dyn Iterator<Item = Duration>>>,
}

impl History {
    fn push(&mut self, c: ECurve) {
        self.clones.push(Box::into_raw(Box::new(c)));
    }

    fn clone_ref(&self, k: &Sx) -> R<&'static ECurve> {
        let p = self.clones.get(usz(k)?).ok_or("clone index out of range")?;
        // SAFETY: points to a live Box that is only freed in `drop`, after all iterators.
        Ok(unsafe { &**p })
    }
}

impl Drop for History {
    fn drop(&mut self) {
        self.iters.clear();
        for p in self.clones.drain(..) {
            // SAFETY: obtained from Box::into_raw, freed exactly once, no borrowers left.
            drop(unsafe { Box::from_raw(p) });
        }
    }
}

fn hist(c: &Sx, ops: &Sx) -> R<Out> {
    let mut h = History::default();
    h.push(ECurve::new(curve(c)?));
    let mut out = vec![];
    for op in ops.list()? {
        match op.form()? {
            ("hclone", [k]) => {
                let c = h.clone_ref(k)?.clone();
                h.push(c)
            }
            ("hna", [k, d]) => {
                let (e, d) = (h.clone_ref(k)?, dur(d)?);
                out.push(e.number_arrivals(d) as u64)
            }
            ("hopen", [k]) => {
                let e = h.clone_ref(k)?;
                h.iters.push(e.steps_iter())
            }
            ("hnext", [i]) => {
                let it = h.iters.get_mut(usz(i)?).ok_or("iterator index out of range")?;
                out.push(u64::from(it.next().unwrap()))
            }
            (hd, a) => return bad("HOP", hd, a),
        }
    }
    Ok(Out::L(out))
}

fn chist(c: &Sx, ops: &Sx) -> R<Out> {
    let mut clones = vec![wcet::ExtrapolatingCurve::new(wcurve(c)?)];
    let mut out = vec![];
    for op in ops.list()? {
        let (hd, a) = op.form()?;
        let get = |k: &Sx| Ok::<_, String>(clones.get(usz(k)?).ok_or("clone index out of range")?.clone());
        match (hd, a) {
            ("hclone", [k]) => {
                let c = get(k)?;
                clones.push(c)
            }
            ("hcost", [k, n]) => out.push(u64::from(get(k)?.cost_of_jobs(usz(n)?))),
            ("hleast", [k, n]) => out.push(u64::from(get(k)?.least_wcet(usz(n)?))),
            ("hjc", [k, n]) => {
                let (e, n) = (get(k)?, usz(n)?);
                out.extend(e.job_cost_iter().take(n).map(u64::from))
            }
            _ => return bad("COP", hd, a),
        }
    }
    Ok(Out::L(out))
}

// ---------------------------------------------------------------------------------------------
// queries

pub fn query(x: &Sx) -> R<Out> {
    let (h, a) = x.form()?;
    Ok(match (h, a) {
        // --- arrival side
        ("na", [b, d]) => {
            let (b, d) = (ab(b)?, dur(d)?);
            Out::N(b.number_arrivals(d) as u64)
        }
        ("natab", [b, hz]) => {
            let (b, hz) = (ab(b)?, hz.num()?);
            Out::L((0..=hz).map(|d| b.number_arrivals(Duration::from(d)) as u64).collect())
        }
        ("steps", [b, hz, cap]) => {
            let (b, hz, cap) = (ab(b)?, dur(hz)?, usz(cap)?);
            durs_out(b.steps_iter().take_while(|x| *x <= hz).take(cap))
        }
        ("bfsteps", [b, hz]) => {
            let (b, hz) = (ab(b)?, hz.num()?);
            let na = |d: u64| b.number_arrivals(Duration::from(d));
            let k = (1..=hz).filter(|d| na(d - 1) != na(*d)).count();
            durs_out(b.brute_force_steps_iter().take(k))
        }
        ("dmins", [b, k]) => {
            let (b, k) = (ab(b)?, usz(k)?);
            Out::L(arrival::delta_min_iter(&b).take(k).flat_map(|(n, d)| [n as u64, u64::from(d)]).collect())
        }
        ("nzdmins", [b, k]) => {
            let (b, k) = (ab(b)?, usz(k)?);
            Out::L(arrival::nonzero_delta_min_iter(&b).take(k).flat_map(|(n, d)| [n as u64, u64::from(d)]).collect())
        }
        ("curvevec", [c]) => Out::L(debug_numbers(&format!("{:?}", curve(c)?))),
        ("mindist", [c, n]) => {
            let (c, n) = (curve(c)?, usz(n)?);
            Out::N(u64::from(c.min_distance(n)))
        }
        ("prefixsteps", [p]) => Out::L(debug_numbers(&format!("{:?}", prefix(p)?))),
        ("hist", [c, ops]) => hist(c, ops)?,

        // --- cost side
        ("cost", [c, n]) => {
            let (c, n) = (cm(c)?, usz(n)?);
            Out::N(u64::from(c.cost_of_jobs(n)))
        }
        ("least", [c, n]) => {
            let (c, n) = (cm(c)?, usz(n)?);
            Out::N(u64::from(c.least_wcet(n)))
        }
        ("jobcosts", [c, n]) => {
            let (c, n) = (cm(c)?, usz(n)?);
            svcs_out(c.job_cost_iter().take(n))
        }
        ("wcurvevec", [c]) => Out::L(debug_numbers(&format!("{:?}", wcurve(c)?))),
        ("chist", [c, ops]) => chist(c, ops)?,

        // --- demand side
        ("sn", [r, d]) => {
            let (r, d) = (rb(r)?, dur(d)?);
            Out::N(u64::from(r.service_needed(d)))
        }
        ("sntab", [r, hz]) => {
            let (r, hz) = (rb(r)?, hz.num()?);
            svcs_out((0..=hz).map(|d| r.service_needed(Duration::from(d))))
        }
        ("snn", [r, d, n]) => {
            let (r, d, n) = (rb(r)?, dur(d)?, usz(n)?);
            Out::N(u64::from(r.service_needed_by_n_jobs(d, n)))
        }
        ("snc", [r, d, n]) => {
            let (r, d, n) = (rbv(r)?, dur(d)?, usz(n)?);
            Out::N(u64::from(r.per_component(d, n)))
        }
        ("lw", [r, d]) => {
            let (r, d) = (rb(r)?, dur(d)?);
            Out::N(u64::from(r.least_wcet_in_interval(d)))
        }
        ("rbsteps", [r, hz, cap]) => {
            let (r, hz, cap) = (rb(r)?, dur(hz)?, usz(cap)?);
            durs_out(r.steps_iter().take_while(|x| *x <= hz).take(cap))
        }
        ("jc", [r, d]) => {
            let (r, d) = (rb(r)?, dur(d)?);
            svcs_out(r.job_cost_iter(d))
        }
        ("stepoff", [r, hz, cap]) => {
            let (r, hz, cap) = (rb(r)?, off(hz)?, usz(cap)?);
            Out::L(demand::step_offsets(&r).take_while(|a| *a < hz).take(cap).map(u64::from).collect())
        }

        // --- supply / fixed point
        ("sbf", [s, d]) => {
            let (s, d) = (sb(s)?, dur(d)?);
            Out::N(u64::from(s.provided_service(d)))
        }
        ("sbftab", [s, hz]) => {
            let (s, hz) = (sb(s)?, hz.num()?);
            svcs_out((0..=hz).map(|d| s.provided_service(Duration::from(d))))
        }
        ("st", [s, d]) => {
            let (s, d) = (sb(s)?, svc(d)?);
            Out::N(u64::from(s.service_time(d)))
        }
        ("search", [s, limit, w]) => {
            let (s, limit, w) = (sb(s)?, dur(limit)?, workload(w)?);
            Out::Res(fixed_point::search(&s, limit, w))
        }
        ("searchoff", [s, o, limit, w]) => {
            let (s, o, limit, w) = (sb(s)?, off(o)?, dur(limit)?, workload(w)?);
            Out::Res(fixed_point::search_with_offset(&s, o, limit, &w))
        }
        ("maxrt", [l]) => Out::Res(fixed_point::max_response_time(each(l, search_result)?.into_iter())),

        // --- Poisson
        ("poisson_na", [rn, rd, en, ed, delta]) => {
            let (rate, eps) = (rn.num()? as f64 / rd.num()? as f64, en.num()? as f64 / ed.num()? as f64);
            let delta = dur(delta)?;
            Out::N(arrival::ApproximatedPoisson::new(rate, eps).number_arrivals(delta) as u64)
        }
        ("poisson_pmf", [rn, rd, delta, k]) => {
            let rate = rn.num()? as f64 / rd.num()? as f64;
            let (delta, k) = (dur(delta)?, usz(k)?);
            Out::F(arrival::Poisson { rate }.arrival_probability(delta, k))
        }

        // --- analyses
        _ => Out::Res(analysis(h, a)?),
    })
}

fn analysis(h: &str, a: &[Sx]) -> R<SearchResult> {
    Ok(match (h, a) {
        ("fp_fp", [tua, hp, limit]) => {
            let (tua, hp, limit) = (rb(tua)?, each(hp, rb)?, dur(limit)?);
            fp::fully_preemptive::dedicated_uniproc_rta(&tua, &hp, limit)
        }
        ("fp_np", [b, c, blocking, hp, limit]) => {
            use fp::fully_nonpreemptive::{dedicated_uniproc_rta, TaskUnderAnalysis};
            let (b, c, blocking, hp, limit) = (ab(b)?, svc(c)?, svc(blocking)?, each(hp, rb)?, dur(limit)?);
            let tua = TaskUnderAnalysis { wcet: wcet::Scalar::new(c), arrivals: &b, blocking_bound: blocking };
            dedicated_uniproc_rta(&tua, &hp, limit)
        }
        ("fp_lp", [b, c, last, blocking, hp, limit]) => {
            use fp::limited_preemptive::{dedicated_uniproc_rta, TaskUnderAnalysis};
            let (b, c, last, blocking) = (ab(b)?, svc(c)?, svc(last)?, svc(blocking)?);
            let (hp, limit) = (each(hp, rb)?, dur(limit)?);
            let tua = TaskUnderAnalysis {
                wcet: wcet::Scalar::new(c),
                arrivals: &b,
                last_np_segment: last,
                blocking_bound: blocking,
            };
            dedicated_uniproc_rta(&tua, &hp, limit)
        }
        ("fp_fnp", [r, blocking, hp, limit]) => {
            use fp::floating_nonpreemptive::{dedicated_uniproc_rta, TaskUnderAnalysis};
            let (r, blocking, hp, limit) = (rb(r)?, svc(blocking)?, each(hp, rb)?, dur(limit)?);
            let tua = TaskUnderAnalysis { rbf: &r, blocking_bound: blocking };
            dedicated_uniproc_rta(&tua, &hp, limit)
        }
        ("edf_fp", [tua, others, limit]) => {
            use edf::fully_preemptive::{dedicated_uniproc_rta, Task};
            let task = |t: &Sx| match t.list()? {
                [r, d] => Ok((rb(r)?, dur(d)?)),
                _ => Err("expected task (RB D)".to_string()),
            };
            let (tua, others, limit) = (task(tua)?, each(others, task)?, dur(limit)?);
            let tua = Task { rbf: &tua.0, deadline: tua.1 };
            let others: Vec<_> = others.iter().map(|(r, d)| Task { rbf: r, deadline: *d }).collect();
            dedicated_uniproc_rta(&tua, &others, limit)
        }
        ("edf_np", [tua, others, limit]) => {
            use edf::fully_nonpreemptive::{dedicated_uniproc_rta, Task};
            let task = |t: &Sx| match t.list()? {
                [b, c, d] => Ok((ab(b)?, svc(c)?, dur(d)?)),
                _ => Err("expected task (AB C D)".to_string()),
            };
            let (tua, others, limit) = (task(tua)?, each(others, task)?, dur(limit)?);
            fn mk(t: &(AB, Service, Duration)) -> Task<'_, AB> {
                Task { wcet: wcet::Scalar::new(t.1), arrivals: &t.0, deadline: t.2 }
            }
            let others: Vec<Task<AB>> = others.iter().map(mk).collect();
            dedicated_uniproc_rta(&mk(&tua), &others, limit)
        }
        ("edf_lp", [tua, others, limit]) => {
            use edf::limited_preemptive::{dedicated_uniproc_rta, InterferingTask, TaskUnderAnalysis};
            let (b, c, d, last) = match tua.list()? {
                [b, c, d, last] => (ab(b)?, svc(c)?, dur(d)?, svc(last)?),
                _ => return Err("expected task (AB C D LAST)".into()),
            };
            let (others, limit) = (each(others, interfering_task)?, dur(limit)?);
            let tua = TaskUnderAnalysis { wcet: wcet::Scalar::new(c), arrivals: &b, deadline: d, last_np_segment: last };
            let others: Vec<_> = others
                .iter()
                .map(|(r, d, seg)| InterferingTask { rbf: r, deadline: *d, max_np_segment: *seg })
                .collect();
            dedicated_uniproc_rta(&tua, &others, limit)
        }
        ("edf_fnp", [tua, others, limit]) => {
            use edf::floating_nonpreemptive::{dedicated_uniproc_rta, InterferingTask, TaskUnderAnalysis};
            let (r, d) = match tua.list()? {
                [r, d] => (rb(r)?, dur(d)?),
                _ => return Err("expected task (RB D)".into()),
            };
            let (others, limit) = (each(others, interfering_task)?, dur(limit)?);
            let tua = TaskUnderAnalysis { rbf: &r, deadline: d };
            let others: Vec<_> = others
                .iter()
                .map(|(r, d, seg)| InterferingTask { rbf: r, deadline: *d, max_np_segment: *seg })
                .collect();
            dedicated_uniproc_rta(&tua, &others, limit)
        }
        ("fifo", [r, limit]) => {
            let (r, limit) = (rb(r)?, dur(limit)?);
            fifo::dedicated_uniproc_rta(&r, limit)
        }
        ("es", [s, r, limit]) => {
            let (s, r, limit) = (sb(s)?, rb(r)?, dur(limit)?);
            ros2::rta_event_source(&s, &r, limit)
        }
        ("timer", [s, own, interfering, blocking, limit]) => {
            let (s, own, interfering) = (sb(s)?, rb(own)?, rb(interfering)?);
            let (blocking, limit) = (svc(blocking)?, dur(limit)?);
            ros2::rta_timer(&s, &own, &interfering, blocking, limit)
        }
        ("pp", [s, own, interfering, limit]) => {
            let (s, own, interfering, limit) = (sb(s)?, rb(own)?, rb(interfering)?, dur(limit)?);
            ros2::rta_polling_point_callback(&s, &own, &interfering, limit)
        }
        ("chain", [s, last, pre, full, other, limit]) => {
            let (s, last, pre) = (sb(s)?, rb(last)?, rb(pre)?);
            let (full, other, limit) = (rb(full)?, rb(other)?, dur(limit)?);
            ros2::rta_processing_chain(&s, &last, &pre, &full, &other, limit)
        }
        ("rr", [s, cbs, idx, limit]) => {
            let (s, cbs) = (sb(s)?, callbacks(cbs)?);
            let (idx, limit) = (indices(idx, cbs.len())?, dur(limit)?);
            let wl: Vec<ros2::rr::Callback<AB, CM>> =
                cbs.iter().map(|(r, b, c, k)| ros2::rr::Callback::new(*r, b, c, *k)).collect();
            let subchain: Vec<&ros2::rr::Callback<AB, CM>> = idx.iter().map(|i| &wl[*i]).collect();
            ros2::rr::rta_subchain(&s, &wl, &subchain, limit)
        }
        ("bw", [s, cbs, idx, limit]) => {
            let (s, cbs) = (sb(s)?, callbacks(cbs)?);
            let (idx, limit) = (indices(idx, cbs.len())?, dur(limit)?);
            let wl: Vec<ros2::bw::Callback<AB, CM>> =
                cbs.iter().map(|(r, b, c, k)| ros2::bw::Callback::new(*r, b, c, *k)).collect();
            let subchain: Vec<&ros2::bw::Callback<AB, CM>> = idx.iter().map(|i| &wl[*i]).collect();
            ros2::bw::rta_subchain(&s, &wl, &subchain, limit)
        }
        _ => return bad("query", h, a),
    })
}

/// `(RB D SEG)`
fn interfering_task(t: &Sx) -> R<(RB, Duration, Service)> {
    match t.list()? {
        [r, d, seg] => Ok((rb(r)?, dur(d)?, svc(seg)?)),
        _ => Err("expected task (RB D SEG)".to_string()),
    }
}
