//! rta_oracle: evaluates cases of the case language (docs/CASELANG.md) against the public API of
//! the `response_time_analysis` crate.  Usage: `rta_oracle <casefile> [START_LINE]`.

mod eval;
mod sexp;

use std::io::Write;
use std::panic::{catch_unwind, AssertUnwindSafe};

fn run_case(line: &str) -> String {
    let sx = match sexp::parse(line) {
        Ok(sx) => sx,
        Err(e) => return format!("{} parseerror {}", sexp::guess_id(line), e),
    };
    let (id, query) = match sx.list() {
        Ok([sexp::Sx::Num(id), query]) => (*id, query),
        _ => return format!("{} parseerror expected (ID QUERY)", sexp::guess_id(line)),
    };
    match catch_unwind(AssertUnwindSafe(|| eval::query(query))) {
        Ok(Ok(out)) => format!("{id} {out}"),
        Ok(Err(msg)) => format!("{id} parseerror {msg}"),
        Err(_) => format!("{id} panic"),
    }
}

fn main() {
    let args: Vec<String> = std::env::args().collect();
    let usage = || -> ! {
        eprintln!("usage: rta_oracle <casefile> [START_LINE]");
        std::process::exit(2)
    };
    let path = args.get(1).unwrap_or_else(|| usage());
    let start: usize = match args.get(2) {
        Some(s) => s.parse().unwrap_or_else(|_| usage()),
        None => 0,
    };
    let bytes = std::fs::read(path).unwrap_or_else(|e| {
        eprintln!("rta_oracle: cannot read {path}: {e}");
        std::process::exit(2)
    });
    let text = String::from_utf8_lossy(&bytes);

    // all panics are reported as `ID panic`; keep stderr silent
    std::panic::set_hook(Box::new(|_| {}));

    let stdout = std::io::stdout();
    let cases = text
        .lines()
        .map(str::trim)
        .filter(|l| !l.is_empty() && !l.starts_with('#'))
        .skip(start);
    for line in cases {
        let res = run_case(line);
        let mut out = stdout.lock();
        if writeln!(out, "{res}").and_then(|_| out.flush()).is_err() {
            std::process::exit(1); // e.g., broken pipe
        }
    }
}
