//! Minimal S-expression reader for the case language (see docs/CASELANG.md).

pub type R<T> = Result<T, String>;

#[derive(Debug, Clone)]
pub enum Sx {
    Num(u64),
    Sym(String),
    List(Vec<Sx>),
}

/// Parse exactly one form from `line` (non-recursive, so deep nesting is harmless).
pub fn parse(line: &str) -> R<Sx> {
    let b = line.as_bytes();
    let mut stack: Vec<Vec<Sx>> = vec![vec![]];
    let mut i = 0;
    while i < b.len() {
        match b[i] {
            b'(' => {
                stack.push(vec![]);
                i += 1;
            }
            b')' => {
                let l = stack.pop().unwrap();
                let up = stack.last_mut().ok_or("unbalanced ')'")?;
                up.push(Sx::List(l));
                i += 1;
            }
            c if c.is_ascii_whitespace() => i += 1,
            c if c.is_ascii_lowercase() || c.is_ascii_digit() || c == b'_' => {
                let s = i;
                while i < b.len() && (b[i].is_ascii_lowercase() || b[i].is_ascii_digit() || b[i] == b'_') {
                    i += 1;
                }
                let t = &line[s..i];
                let tok = if t.bytes().all(|c| c.is_ascii_digit()) {
                    Sx::Num(t.parse().map_err(|_| format!("number too large: {t}"))?)
                } else {
                    Sx::Sym(t.to_string())
                };
                stack.last_mut().unwrap().push(tok);
            }
            c => return Err(format!("bad character {:?}", c as char)),
        }
    }
    if stack.len() != 1 {
        return Err("unbalanced '('".into());
    }
    let mut top = stack.pop().unwrap();
    if top.len() != 1 {
        return Err("expected exactly one form per line".into());
    }
    Ok(top.pop().unwrap())
}

/// Best-effort extraction of the case ID from a line that failed to parse.
pub fn guess_id(line: &str) -> String {
    let id: String = line
        .trim_start_matches(|c: char| c.is_whitespace() || c == '(')
        .chars()
        .take_while(|c| c.is_ascii_digit())
        .collect();
    if id.is_empty() { "?".into() } else { id }
}

impl Sx {
    pub fn num(&self) -> R<u64> {
        match self {
            Sx::Num(n) => Ok(*n),
            _ => Err(format!("expected number, got {}", self.brief())),
        }
    }

    pub fn list(&self) -> R<&[Sx]> {
        match self {
            Sx::List(l) => Ok(l),
            _ => Err(format!("expected list, got {}", self.brief())),
        }
    }

    /// `(head arg ...)` => `("head", [arg, ...])`
    pub fn form(&self) -> R<(&str, &[Sx])> {
        match self.list()? {
            [Sx::Sym(h), args @ ..] => Ok((h, args)),
            _ => Err(format!("expected (symbol ...), got {}", self.brief())),
        }
    }

    pub fn nums(&self) -> R<Vec<u64>> {
        self.list()?.iter().map(Sx::num).collect()
    }

    fn brief(&self) -> String {
        match self {
            Sx::Num(n) => n.to_string(),
            Sx::Sym(s) => s.clone(),
            Sx::List(l) => match l.first() {
                Some(Sx::Sym(s)) => format!("({s} ...)"),
                Some(_) => "(...)".into(),
                None => "()".into(),
            },
        }
    }
}
