#!/bin/sh
# MANIFEST.setup_cmd: build the framework from files on disk only (offline).
set -e
cd "$(dirname "$0")"
export CARGO_NET_OFFLINE=true
(cd coq && coq_makefile -f _CoqProject -o Makefile >/dev/null && timeout 3000 make -j16 2>&1 | grep -v '^Closed under' | tail -5)
(cd harness && cargo build --offline 2>&1 | tail -2 && cargo build --offline --release 2>&1 | tail -2)
mkdir -p evidence replays .work
echo setup done
