#!/usr/bin/env python3
"""Single entry point of every registered check:  python3 tools/check.py <id> --tier quick|thorough
   1. proof obligations of coq/Props/<id>.v (full make, Print Assumptions, pinned statement hash)
   2. correspondence: the Coq model (vm_compute) and /repo's current working tree (debug and
      release builds of harness/) on the same generated inputs
   3. direct property oracles on the implementation's outputs (search for a concrete failing input)
   4. verdict (VIOLATION / KNOWN-FINDING lines, exit code) and evidence/<id>.json
"""
import sys, os, re, json, time, random, argparse, hashlib, subprocess
sys.path.insert(0, os.path.dirname(os.path.abspath(__file__)))
import rta
import props
import srcpins

VERIF = rta.VERIF
ALLOWED_AXIOMS = {
    # standard-library axioms that may appear (C15 only: Reals / Coquelicot)
    "ClassicalDedekindReals.sig_forall_dec", "ClassicalDedekindReals.sig_not_dec",
    "FunctionalExtensionality.functional_extensionality_dep", "Classical_Prop.classic",
}
FORBIDDEN = re.compile(r"\bAdmitted\b|\badmit\b|^\s*Axiom\b|^\s*Parameter\b|^\s*Conjecture\b|Admit Obligations|"
                       r"Unset Guard Checking|bypass_check|Unset Positivity Checking|Unset Universe Checking|type-in-type|impredicative-set", re.M)

def strip_comments(s):
    out = []; depth = 0; i = 0
    while i < len(s):
        if s.startswith("(*", i): depth += 1; i += 2
        elif s.startswith("*)", i) and depth > 0: depth -= 1; i += 2
        else:
            if depth == 0: out.append(s[i])
            i += 1
    return "".join(out)

C15_AXIOMS = ALLOWED_AXIOMS
def proof_obligations(pid, tier="quick"):
    """returns dict(ok, theorems, discharged, problems[])"""
    t0 = time.time()
    problems = []
    coq = rta.COQDIR
    pf = os.path.join(coq, "Props", pid + ".v")
    if not os.path.exists(pf):
        return dict(ok=False, theorems=[], discharged=0, problems=["no Props/%s.v" % pid], wall=0)
    # full build (no-op when up to date)
    if not os.path.exists(os.path.join(coq, "Makefile")):
        rta.sh("coq_makefile -f _CoqProject -o Makefile", cwd=coq, timeout=120)
    r = rta.sh("timeout 3000 make -j16 2>&1 | grep -v '^Closed under\\|^COQC\\|^COQDEP' | tail -40", cwd=coq, timeout=3100)
    build_out = r.stdout
    vo = os.path.join(coq, "Props", pid + ".vo")
    if "Error" in build_out or not os.path.exists(vo):
        problems.append("coq build failed: " + build_out[-1500:])
    src = open(pf).read()
    # theorems closed by `exact <lemma>` and aliases `Definition Cxx_name := <lemma>.` (refutation witnesses, non-vacuity): both are
    # proof obligations whose axioms are printed
    theorems = re.findall(r"^(?:Theorem|Lemma|Corollary)\s+(\w+)", strip_comments(src), re.M)
    theorems += re.findall(r"^Definition\s+(C\d\d_\w+)\s*:=", strip_comments(src), re.M)
    examples = re.findall(r"^Example\s+(\w+)", strip_comments(src), re.M)
    # pinned statements
    pins = {}
    pinfile = os.path.join(coq, "props.sha256")
    if os.path.exists(pinfile):
        for line in open(pinfile):
            a = line.split()
            if len(a) == 2: pins[a[1]] = a[0]
    h = hashlib.sha256(src.encode()).hexdigest()
    if pins.get("Props/%s.v" % pid) != h:
        problems.append("Props/%s.v does not match its pinned hash in coq/props.sha256" % pid)
    # forbidden constructs anywhere in the development
    for root, _, files in os.walk(coq):
        for fn in files:
            if fn.endswith(".v"):
                body = strip_comments(open(os.path.join(root, fn)).read())
                m = FORBIDDEN.search(body)
                if m: problems.append("forbidden construct %r in %s" % (m.group(0).strip(), os.path.relpath(os.path.join(root, fn), coq)))
    # axioms of every theorem
    discharged = 0
    assumptions = {}
    if os.path.exists(vo) and theorems:
        script = "From RTA.Props Require Import %s.\n" % pid + "".join("Print Assumptions %s.\n" % t for t in theorems + examples)
        p = subprocess.run(["coqtop", "-quiet", "-Q", "Model", "RTA.Model", "-Q", "Spec", "RTA.Spec", "-Q", "Proofs", "RTA.Proofs", "-Q", "Props", "RTA.Props"],
                           input=script, cwd=coq, capture_output=True, text=True, timeout=600)
        chunks = re.split(r"(?=Closed under the global context|Axioms:)", p.stdout)
        chunks = [c for c in chunks if c.startswith("Closed") or c.startswith("Axioms:")]
        names = theorems + examples
        if len(chunks) != len(names):
            problems.append("Print Assumptions produced %d answers for %d theorems: %s" % (len(chunks), len(names), (p.stdout + p.stderr)[-800:]))
        for name, c in zip(names, chunks):
            if c.startswith("Closed"):
                assumptions[name] = []
                if name in theorems: discharged += 1
            else:
                ax = [a for a in re.findall(r"^([A-Za-z_][\w.']*)\s*(?::|$)", c, re.M) if a != "Axioms"]
                assumptions[name] = ax
                bad = [a for a in ax if a not in ALLOWED_AXIOMS or pid != "C15"]
                if bad: problems.append("theorem %s depends on axioms outside the allow-list: %s" % (name, bad))
                elif name in theorems: discharged += 1
    # thorough tier: independent re-check of the compiled closure of the property file
    coqchk = None
    if tier == "thorough" and os.path.exists(vo):
        r = rta.sh("timeout 1500 coqchk -silent -o -Q Model RTA.Model -Q Spec RTA.Spec -Q Proofs RTA.Proofs -Q Props RTA.Props RTA.Props.%s 2>&1 | tail -25" % pid, cwd=coq, timeout=1600)
        coqchk = r.stdout[-1500:]
        m = re.search(r"\* Axioms:(.*?)\* Constants/Inductives relying on type-in-type:(.*?)\* Constants/Inductives relying on unsafe", coqchk, re.S)
        if not m: problems.append("coqchk did not produce a context summary: " + coqchk[-400:])
        else:
            ax = [a.strip() for a in m.group(1).split("\n") if a.strip() and a.strip() != "<none>"]
            bad = [a for a in ax if not any(a.startswith(x) or x in a for x in ALLOWED_AXIOMS) and pid != "C15"]
            if bad: problems.append("coqchk reports axioms outside the allow-list: %s" % bad)
            if "<none>" not in m.group(2): problems.append("coqchk reports type-in-type")
    return dict(ok=not problems, theorems=theorems, examples=examples, discharged=discharged, assumptions=assumptions,
                problems=problems, wall=time.time() - t0, coqchk=coqchk)

# ----------------------------------------------------------------------------- known findings
def load_known():
    p = os.path.join(VERIF, "known_findings.json")
    if not os.path.exists(p): return []
    return json.load(open(p)).get("findings", [])

# ----------------------------------------------------------------------------- main
def main():
    ap = argparse.ArgumentParser()
    ap.add_argument("pid")
    ap.add_argument("--tier", default=os.environ.get("VERIF_TIER", "quick"))
    ap.add_argument("--replay")
    ap.add_argument("--n", type=int)
    a = ap.parse_args()
    pid = a.pid
    tier = a.tier if a.tier in ("quick", "thorough") else "quick"
    seed = int(os.environ.get("VERIF_SEED", "20261001"))
    t0 = time.time()
    P = props.REGISTRY[pid]
    os.makedirs(os.path.join(VERIF, "evidence"), exist_ok=True)
    os.makedirs(os.path.join(VERIF, "replays"), exist_ok=True)

    if a.replay:
        rp = json.load(open(a.replay))
        ok, log, _ = rta.build_harness()
        print("harness build ok:", ok)
        cases = [(i, q) for i, q in enumerate(rp.get("queries", []))]
        if cases:
            d = rta.run_oracle("debug", cases, "replay"); r = rta.run_oracle("release", cases, "replay")
            m, _ = rta.run_model(cases, "replay")
            for i, q in cases:
                print(rta.sx(q)); print("   impl(debug)  ", rta.show(d.get(i))); print("   impl(release)", rta.show(r.get(i))); print("   model        ", rta.show(m.get(i)))
        ctx = props.Ctx(pid, tier, seed, replay=rp)
        for v in P.replay(ctx, rp) if hasattr(P, "replay") else []:
            print("   oracle:", v)
        return 0

    # 1. proof obligations
    po = proof_obligations(pid, tier)

    # 2./3. correspondence and oracles on /repo's current tree
    built, blog, bwall = rta.build_harness()
    ctx = props.Ctx(pid, tier, seed, n=a.n)
    # a modelled source file changed since the model was last validated: not a violation, but the moment to look harder
    src_changed = srcpins.changed_in_cone(pid) if os.path.exists(srcpins.PINS) else []
    if src_changed and tier == "quick":
        # the slowest quick checks (C05, C07, C20: 45-100 s on the pinned tree) are doubled, the others tripled
        ctx.escalation = int(os.environ.get("VERIF_ESCALATION", "2" if pid in ("C05", "C07", "C20") else "3"))
        print("NOTE: %s differ(s) from source_pins.json (the tree the model was validated against): quick case counts x%d" % (", ".join(src_changed[:4]), ctx.escalation))
    violations = []          # dicts: kind, what, queries, details, failing_input(bool)
    if not built:
        violations.append(dict(kind="build", what="the oracle harness does not build against /repo's current tree",
                               queries=[], details=blog[-2000:], failing_input=False))
    else:
        P.run(ctx)
        violations.extend(ctx.violations)
    for pr in po["problems"]:
        violations.append(dict(kind="proof", what=pr, queries=[], details="", failing_input=False))

    # 4. verdict
    known = [k for k in load_known() if k.get("property") == pid and k.get("status") == "known"]
    printed_known = set()
    real = []
    for v in violations:
        kf = None
        for k in known:
            if props.matches_known(k, v): kf = k; break
        if kf:
            if kf["id"] not in printed_known:
                printed_known.add(kf["id"])
                print("KNOWN-FINDING: property=%s %s [%s]" % (pid, kf["what"], kf["id"]))
        else:
            real.append(v)
    # group the real violations: one VIOLATION line per distinct (kind, what-class)
    exit_code = 0
    seen = set()
    nrep = 0
    for v in real:
        key = (v["kind"], v.get("cls", v["what"][:60]))
        if key in seen: continue
        seen.add(key)
        nrep += 1
        path = os.path.join(VERIF, "replays", "%s-%d-%d.json" % (pid, seed, nrep))
        json.dump(dict(property=pid, seed=seed, tier=tier, kind=v["kind"], what=v["what"], queries=v.get("queries", []),
                       details=v.get("details", ""), extra=v.get("extra", {}),
                       replay_cmd="python3 tools/check.py %s --replay %s" % (pid, path)), open(path, "w"), indent=1)
        suffix = "" if v.get("failing_input") else " no-failing-input-found"
        print("VIOLATION property=%s replay=%s%s" % (pid, path, suffix))
        exit_code = 1
    wall = time.time() - t0
    cov = dict(
        obligations=len(po["theorems"]), discharged=po["discharged"],
        checker_cmd="make -C coq -j16 (coqc 8.16.1, full .vo build) + Print Assumptions on every theorem of Props/%s.v" % pid,
        trusted_base=props.TRUSTED_BASE + P.trusted_extra,
        theorems=po["theorems"], examples=po.get("examples", []), assumptions=po.get("assumptions", {}),
        evaluations=ctx.evaluations, distinct_nontrivial=ctx.distinct_nontrivial(),
        rule=P.rule, samples=ctx.samples[:6],
        correspondence=ctx.corr_stats, oracle=ctx.oracle_stats, distribution=ctx.distribution,
        known_findings_reproduced=sorted(printed_known),
        source_files_changed_since_validation=src_changed, escalation=ctx.escalation,
        proof_status=P.proof_status, harness_build_s=round(bwall, 1), coq_s=round(po["wall"], 1), coqchk=po.get("coqchk"),
    )
    ev = dict(property_id=pid, tier=tier, seed=seed, level="proof", coverage=cov,
              assumptions=P.assumptions, wall_s=round(wall, 2), violations=len(real))
    json.dump(ev, open(os.path.join(VERIF, "evidence", pid + ".json"), "w"), indent=1)
    print("%s: %d/%d obligations, %d cases, %d correspondence disagreements, %d oracle failures, %d known findings, %.1fs"
          % (pid, po["discharged"], len(po["theorems"]), ctx.evaluations, ctx.corr_stats.get("disagreements", 0),
             ctx.oracle_stats.get("failures", 0), len(printed_known), wall))
    return exit_code

if __name__ == "__main__":
    sys.exit(main())
