#!/usr/bin/env python3
"""development aid (not a registered check): confirm a seeded change in a scratch worktree and run checks against it.
usage: evalmut.py <worktree> <patch> <demo.rs> <prop> [more props...]"""
import sys, subprocess, os, json, shutil
wt, patch, demo = sys.argv[1:4]; props = sys.argv[4:]
def sh(cmd, cwd=None):
    r = subprocess.run(cmd, shell=True, cwd=cwd, stdout=subprocess.PIPE, stderr=subprocess.STDOUT, text=True, env=dict(os.environ, CARGO_NET_OFFLINE="true"))
    return r.returncode, r.stdout
out = {}
sh("git checkout -- . && rm -f tests/demo.rs", wt)
os.makedirs(os.path.join(wt, "tests"), exist_ok=True)
shutil.copy(demo, os.path.join(wt, "tests", "demo.rs"))
rc, o = sh("cargo test --offline --test demo 2>&1 | tail -5", wt); out["pristine_demo_passes"] = "test result: ok" in o
rc, o = sh("git apply %s" % patch, wt); out["applies"] = rc == 0
rc, o = sh("cargo test --offline --test demo 2>&1 | tail -8", wt); out["mutant_demo_fails"] = "test result: FAILED" in o or "panicked" in o
os.remove(os.path.join(wt, "tests", "demo.rs"))
rc, o = sh("cargo test --offline 2>&1 | grep 'test result'", wt); out["mutant_suite_passes"] = o.count("ok.") >= 2 and "FAILED" not in o
sh("git checkout -- .", wt)
# now the real checks against /repo
rc, o = sh("git status --short | grep -v '^??' | head -3", "/repo")
assert o.strip() == "", "/repo not clean: " + o
rc, o = sh("git apply %s" % patch, "/repo"); assert rc == 0, o
res = {}
try:
    for p in props:
        rc, o = sh("python3 tools/check.py %s --tier quick 2>&1 | grep -v KNOWN-FINDING | tail -4" % p, "/verif")
        res[p] = dict(exit=rc, violation="VIOLATION" in o, nofail="no-failing-input-found" in o, tail=o.strip().splitlines()[-3:])
finally:
    sh("git checkout -- .", "/repo")
out["checks"] = res
print(json.dumps(out, indent=1))
