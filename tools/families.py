#!/usr/bin/env python3
"""Query generators per cone of the crate (which entry points a property's correspondence covers)."""
import gen
from gen import *

AB_ALL = ["periodic", "sporadic", "never", "curve", "extrap", "prefix", "propagated", "jitter", "sum", "sum2"]
AB_ANALYSIS = ["periodic", "sporadic", "curve", "extrap", "propagated", "jitter", "sum"]
AB_EXACT = ["periodic", "sporadic", "extrap"]          # exact, realisable curves (C18, C19)

def q_arrival(rng, kinds=None, realisable=True, allow_plateau_end=True):
    """queries on one arrival bound"""
    ab = gen_ab(rng, rng.choice([0, 1, 1, 2]), kinds or AB_ALL, realisable, allow_plateau_end)
    H = rng.choice([rng.randint(0, 30), rng.randint(20, 150), rng.randint(100, 400)])
    out = [["natab", ab, H], ["steps", ab, H, 1000], ["bfsteps", ab, H]]
    r = rng.random()
    if r < 0.3: out.append(["na", ab, rng.randint(0, 5000)])
    if r > 0.6: out.append(["dmins", ab, rng.randint(1, 12)])
    return out

def gen_trace(rng):
    t = 0; out = []
    for _ in range(rng.randint(2, 14)):
        out.append(t)
        t += rng.choice([0, 0, 1, 2, rng.randint(1, 15)])
    return out

def gen_curve_expr(rng, depth=1):
    r = rng.random()
    if r < 0.25 or depth == 0: return ["dmin", gen_dmin(rng, True, True)]
    if r < 0.35:
        v = [rng.randint(0, 20) for _ in range(rng.randint(1, 6))]
        if max(v) == 0: v[-1] = rng.randint(1, 9)          # a curve whose distances are all 0 is unusable (division by zero)
        return ["fromiter", v]
    if r < 0.5:
        for _ in range(30):                                # the recorded events must not all be simultaneous (C12: from_trace zero-last class)
            tr = gen_trace(rng); K = rng.randint(2, 6)
            d = dmin_of_trace(tr, K)
            if d and d[-1] > 0: return ["from_trace", tr, K]
        return ["dmin", gen_dmin(rng, True, True)]
    if r < 0.62: return ["from_ab", gen_ab(rng, 1, AB_ANALYSIS, True, True), rng.randint(1, 12)]
    if r < 0.72: return ["from_ab_until", gen_ab(rng, 1, AB_ANALYSIS, True, True), rng.randint(0, 80)]
    if r < 0.76: return ["of_periodic", rng.randint(1, 30)]
    if r < 0.80: return ["of_prefix", gen_prefix(rng)]
    if r < 0.88: return ["extrapolate", gen_curve_expr(rng, depth - 1), rng.randint(0, 120)]
    if r < 0.95: return ["extrapolate_steps", gen_curve_expr(rng, depth - 1), rng.randint(0, 14)]
    return ["extrapolate_with_bound", gen_curve_expr(rng, depth - 1), rng.randint(1, 60), rng.randint(2, 9)]

def q_curve(rng):
    c = gen_curve_expr(rng, 2)
    out = [["curvevec", c], ["mindist", c, rng.randint(0, 12)]]
    H = rng.randint(0, 200)
    out.append(["natab", ["curve", c], H])
    return out

def gen_hist_ops(rng):
    ops = []; nclones = 1; niters = 0
    for _ in range(rng.randint(2, 14)):
        r = rng.random()
        if r < 0.15: ops.append(["hclone", rng.randrange(nclones)]); nclones += 1
        elif r < 0.55: ops.append(["hna", rng.randrange(nclones), rng.choice([0, rng.randint(1, 40), rng.randint(30, 300)])])
        elif r < 0.7 or niters == 0: ops.append(["hopen", rng.randrange(nclones)]); niters += 1
        else: ops.append(["hnext", rng.randrange(niters)])
    return ops

def q_hist(rng):
    for _ in range(50):
        d = gen_dmin(rng, True, True)
        if len(d) >= 1: break
    return [["hist", ["dmin", d], gen_hist_ops(rng)]]

def q_cost(rng):
    cm = gen_cm(rng)
    n = rng.choice([rng.randint(0, 8), rng.randint(5, 40)])
    out = [["cost", cm, n], ["least", cm, n], ["jobcosts", cm, rng.randint(0, 25)]]
    return out

def q_wcurve(rng):
    costs = [rng.randint(1, 12) for _ in range(rng.randint(1, 14))]
    k = rng.randint(1, 6)
    w = ["cfrom_trace", costs, k]
    out = [["wcurvevec", w]]
    out.append(["jobcosts", ["ccurve", w], rng.randint(1, 20)])
    if rng.random() < 0.5:
        out.append(["wcurvevec", ["cextrapolate", ["costs", gen_costcurve(rng, 3)], rng.randint(1, 15)]])
    if rng.random() < 0.4:
        out.append(["wcurvevec", ["cfromiter", [rng.randint(0, 15) for _ in range(rng.randint(0, 6))]]])
    return out

def q_chist(rng):
    ops = []; nclones = 1
    for _ in range(rng.randint(2, 10)):
        r = rng.random()
        if r < 0.15: ops.append(["hclone", rng.randrange(nclones)]); nclones += 1
        elif r < 0.5: ops.append(["hcost", rng.randrange(nclones), rng.randint(0, 25)])
        elif r < 0.8: ops.append(["hleast", rng.randrange(nclones), rng.randint(0, 25)])
        else: ops.append(["hjc", rng.randrange(nclones), rng.randint(0, 12)])
    return [["chist", ["costs", gen_costcurve(rng, 3)], ops]]

def q_demand(rng):
    rb = gen_rb(rng, rng.choice([0, 1, 2]), False, AB_ANALYSIS + ["never"], True)
    H = rng.randint(0, 120)
    d = rng.randint(0, 150)
    out = [["sntab", rb, H], ["lw", rb, d], ["rbsteps", rb, H, 1000], ["jc", rb, rng.randint(0, 60)],
           ["snn", rb, d, rng.randint(0, 8)], ["stepoff", rb, H, 1000]]
    if rb[0] in ("agg", "slice"): out.append(["snc", rb, d, rng.randint(0, 5)])
    return out

def q_supply(rng):
    sb = gen_sb(rng)
    return [["sbftab", sb, rng.randint(0, 120)], ["st", sb, rng.randint(0, 80)], ["st", sb, rng.randint(0, 2000)]]

def q_search(rng):
    sb = gen_sb(rng)
    w = gen_wtable(rng, sb_rate(sb))
    limit = rng.choice([rng.randint(0, 6), rng.randint(1, 60), rng.randint(50, 600)])
    out = [["search", sb, limit, w]]
    # offsets inside the busy window: off <= st(w(1)); the caller passes candidates, filtered later
    out.append(["searchoff", sb, 0, limit, w])
    if rng.random() < 0.3:
        rs = [rng.choice([["ok", rng.randint(0, 50)], ["ok", rng.randint(0, 50)], ["err", rng.randint(0, 9), rng.randint(1, 99)]]) for _ in range(rng.randint(0, 6))]
        out.append(["maxrt", rs])
    return out

# ----------------------------------------------------------------------------- dedicated-processor analyses
def pick_limit(rng):
    return rng.choice([rng.randint(1, 30), rng.randint(20, 200), rng.randint(100, 500)])

def gen_ded_system(rng, abkinds=None, scalar_only=True, realisable=True):
    n = rng.randint(0, 3)
    util = rng.choice([0.3, 0.5, 0.7, 0.85, 0.95, 1.1])
    ts = gen_taskset(rng, n + 1, util, abkinds or AB_ANALYSIS, scalar_only, realisable)
    others = ts[1:]
    if rng.random() < 0.12:          # a task that never releases a job (arrival::Never), anywhere among the other tasks
        others.insert(rng.randint(0, len(others)), ["rbf", ["never"], ["scalar", rng.randint(1, 9)]])
    tua = ts[0]
    if rng.random() < 0.04:          # an analysed task whose arrival curve does not step at delta = 1 (nothing ever arrives)
        tua = ["rbf", ["never"] if rng.random() < 0.7 else ["propagated", rng.randint(0, 9), ["never"]], ["scalar", rng.randint(2, 9)]]
    return tua, others

def q_fp(rng, which=None, abkinds=None, realisable=True):
    tua, hp = gen_ded_system(rng, abkinds, True, realisable)
    C = tua[2][1]
    B = rng.choice([0, 0, rng.randint(0, 6)])
    limit = pick_limit(rng)
    which = which or rng.choice(["fp_fp", "fp_np", "fp_lp", "fp_fnp"])
    if which == "fp_fp": return [["fp_fp", tua, hp, limit]]
    if which == "fp_np": return [["fp_np", tua[1], C, B, hp, limit]]
    if which == "fp_lp": return [["fp_lp", tua[1], C, rng.choice([1, C, rng.randint(1, C)]), B, hp, limit]]
    return [["fp_fnp", tua, B, hp, limit]]

def q_edf(rng, which=None, abkinds=None, realisable=True):
    tua, others = gen_ded_system(rng, abkinds, True, realisable)
    C = tua[2][1]
    def dl(): return rng.choice([rng.randint(1, 20), rng.randint(10, 80), rng.randint(50, 200)])
    D = dl()
    same = rng.random() < 0.25
    limit = pick_limit(rng)
    which = which or rng.choice(["edf_fp", "edf_np", "edf_lp", "edf_fnp"])
    od = [D if same else dl() for _ in others]
    if which == "edf_fp": return [["edf_fp", [tua, D], [[o, d] for o, d in zip(others, od)], limit]]
    if which == "edf_np": return [["edf_np", [tua[1], C, D], [[o[1], o[2][1], d] for o, d in zip(others, od)], limit]]
    segs = [rng.choice([1, o[2][1], rng.randint(1, o[2][1])]) for o in others]
    if which == "edf_lp":
        return [["edf_lp", [tua[1], C, D, rng.choice([1, C, rng.randint(1, C)])], [[o, d, s] for o, d, s in zip(others, od, segs)], limit]]
    return [["edf_fnp", [tua, D], [[o, d, s] for o, d, s in zip(others, od, segs)], limit]]

def q_fifo(rng, abkinds=None, realisable=True):
    tua, others = gen_ded_system(rng, abkinds, True, realisable)
    return [["fifo", ["agg", [tua] + others], pick_limit(rng)]]

def q_ded(rng):
    r = rng.random()
    if r < 0.45: return q_fp(rng)
    if r < 0.9: return q_edf(rng)
    return q_fifo(rng)

# ----------------------------------------------------------------------------- ROS 2
def gen_ros_sb(rng):
    return gen_sb(rng, ["dedicated", "dedicated", "periodic_s", "constrained_s"])

def q_ecrts(rng, which=None, scalar_only=False):
    sb = gen_ros_sb(rng)
    rate = sb_rate(sb)
    n = rng.randint(1, 3)
    util = rng.choice([0.3, 0.5, 0.7, 0.9, 1.05]) * rate
    ts = gen_taskset(rng, n + 1, util, AB_ANALYSIS, scalar_only, True)
    own, rest = ts[0], ts[1:]
    limit = pick_limit(rng) * 2
    which = which or rng.choice(["es", "timer", "pp", "chain"])
    if which == "es": return [["es", sb, ["agg", ts], limit]]
    if which == "timer": return [["timer", sb, own, ["agg", rest], rng.choice([0, rng.randint(0, 5)]), limit]]
    if which == "pp": return [["pp", sb, own, ["agg", rest], limit]]
    # chain: last callback `own`, prefix callbacks share the arrival curve (same chain), others = rest
    ab = own[1]
    k = rng.randint(0, 2)
    prefix = [["rbf", ab, gen_cm(rng, True)] for _ in range(k)]
    full = ["agg", prefix + [own]]
    return [["chain", sb, own, ["agg", prefix], full, ["agg", rest], limit]]

def gen_kind(rng):
    r = rng.random()
    if r < 0.25: return "timer"
    if r < 0.35: return "es"
    if r < 0.65: return "pu"
    return ["p", rng.randint(0, 5)]

def q_rtss(rng, which=None, scalar_only=False):
    sb = gen_ros_sb(rng)
    rate = sb_rate(sb)
    n = rng.randint(1, 4)
    util = rng.choice([0.2, 0.4, 0.6, 0.8, 1.0]) * rate
    ts = gen_taskset(rng, n, util, ["periodic", "sporadic", "curve", "extrap", "propagated", "jitter"], scalar_only, True)
    wl = []
    for rb in ts:
        cmax = cm_max(rb[2])
        R = rng.choice([cmax, cmax + rng.randint(0, 10), rng.randint(cmax, cmax + 60)])
        wl.append([R, rb[1], rb[2], gen_kind(rng)])
    if rng.random() < 0.3:
        # bursty polled callbacks with pairwise distinct KNOWN priorities: the caps eta(t_a) + polling points (+1 for a
        # higher-priority callback) of Def. 1 / Def. 5 bind only when the interferer releases several instances close together
        n = rng.randint(2, 4); pr = list(range(n)); rng.shuffle(pr); wl = []
        for i in range(n):
            T = rng.randint(4, 30); J = rng.choice([rng.randint(0, T), rng.randint(T, 3 * T)])
            C = rng.randint(1, max(1, int(T * util / n) + 1))
            wl.append([rng.choice([C, C + rng.randint(0, 12)]), ["sporadic", T, J], ["scalar", C], ["p", pr[i]] if rng.random() < 0.85 else "pu"])
    idxs = list(range(n)); rng.shuffle(idxs)
    sc = idxs[:rng.choice([1, 1, rng.randint(1, n)])]
    if rng.random() < 0.12:
        # a two-callback subchain whose end-of-chain callback has a short period and fills about half of it: arrival steps
        # fall exactly onto the maximum activation offset of Lemma 18
        P = rng.randint(3, 9); c = max(1, P // 2)
        wl = [[rng.randint(1, 12), rng.choice([["periodic", rng.randint(60, 200)], ["sporadic", rng.randint(60, 200), rng.randint(0, 20)]]), ["scalar", rng.randint(1, 2)], rng.choice(["es", "pu", "timer"])],
              [rng.randint(c, c + 8), ["periodic", P], ["scalar", c], rng.choice(["timer", "pu", ["p", 1]])]]
        sc = [0, 1]; sb = rng.choice([["dedicated"], sb])
    limit = pick_limit(rng) * 2
    which = which or rng.choice(["rr", "bw"])
    return [[which, sb, wl, sc, limit]]

def q_ros(rng):
    return q_ecrts(rng) if rng.random() < 0.55 else q_rtss(rng)


# ----------------------------------------------------------------------------- small dense task sets: long busy windows, many offsets
def gen_dense_system(rng):
    """2-4 sporadic/periodic tasks with small periods and a total utilisation of 0.6..0.98: the busy window spans
    many releases, so the per-offset search space (shifted EDF steps, jittered steps) really matters"""
    n = rng.randint(2, 4)
    ts = []
    target = rng.choice([0.6, 0.75, 0.85, 0.92, 0.98])
    for _ in range(n):
        T = rng.randint(3, 24)
        C = max(1, int(T * target / n * rng.uniform(0.6, 1.4)))
        J = rng.choice([0, 0, rng.randint(0, T - 1), rng.randint(T, 2 * T)])
        ab = ["periodic", T] if (J == 0 and rng.random() < 0.4) else ["sporadic", T, J]
        ts.append(["rbf", ab, ["scalar", C]])
    return ts

def q_dense(rng, which=None):
    ts = gen_dense_system(rng)
    tua, others = ts[0], ts[1:]
    C = tua[2][1]; T = tua[1][1]
    limit = rng.choice([rng.randint(5, 60), rng.randint(40, 400)])
    which = which or rng.choice(["fp_fp", "fp_np", "fp_lp", "fp_fnp", "edf_fp", "edf_np", "edf_lp", "edf_fnp", "edf_fp", "edf_np", "edf_lp", "edf_fnp", "fifo"])
    B = rng.choice([0, rng.randint(0, 5)])
    if which == "fp_fp": return [["fp_fp", tua, others, limit]]
    if which == "fp_np": return [["fp_np", tua[1], C, B, others, limit]]
    if which == "fp_lp": return [["fp_lp", tua[1], C, rng.randint(1, C), B, others, limit]]
    if which == "fp_fnp": return [["fp_fnp", tua, B, others, limit]]
    if which == "fifo": return [["fifo", ["agg", ts], limit]]
    dl = lambda rb: rng.choice([rng.randint(rb[2][1], max(rb[2][1], rb[1][1])), rng.randint(rb[2][1], 2 * rb[1][1] + 2)])
    D = dl(tua); od = [dl(o) for o in others]
    if rng.random() < 0.2: od = [D for _ in others]
    segs = [rng.choice([1, o[2][1], rng.randint(1, o[2][1])]) for o in others]
    if which == "edf_fp": return [["edf_fp", [tua, D], [[o, d] for o, d in zip(others, od)], limit]]
    if which == "edf_np": return [["edf_np", [tua[1], C, D], [[o[1], o[2][1], d] for o, d in zip(others, od)], limit]]
    if which == "edf_lp": return [["edf_lp", [tua[1], C, D, rng.randint(1, C)], [[o, d, s] for o, d, s in zip(others, od, segs)], limit]]
    return [["edf_fnp", [tua, D], [[o, d, s] for o, d, s in zip(others, od, segs)], limit]]
