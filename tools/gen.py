#!/usr/bin/env python3
"""Seeded generators of structured, mostly-valid cases (see docs/CASELANG.md).  Every random
choice derives from the one random.Random instance passed in."""
import random

# ----------------------------------------------------------------------------- delta-min vectors
def trace_from_gaps(gaps, reps):
    t = 0; out = [0]
    for _ in range(reps):
        for g in gaps:
            t += g; out.append(t)
    return out

def dmin_of_trace(trace, k):
    """true minimum distances of 2..k+1 consecutive events (super-additive by construction)"""
    out = []
    for n in range(2, k + 2):
        if len(trace) < n: break
        out.append(min(trace[i + n - 1] - trace[i] for i in range(len(trace) - n + 1)))
    return out

def gen_dmin(rng, realisable=True, allow_plateau_end=True, maxlen=6):
    """a delta-min vector; realisable = super-additive, non-decreasing, last > 0"""
    for _ in range(100):
        m = rng.randint(1, 5)
        style = rng.random()
        if style < 0.35:    # bursty: some zero / tiny gaps and one long gap
            gaps = [rng.choice([0, 1, 1, 2]) for _ in range(m)] + [rng.randint(3, 25)]
        elif style < 0.7:
            gaps = [rng.randint(1, 12) for _ in range(m)]
        else:
            gaps = [rng.randint(2, 30)] * rng.randint(1, 2) + [rng.randint(1, 6) for _ in range(m - 1)]
        rng.shuffle(gaps)
        k = rng.randint(1, maxlen)
        d = dmin_of_trace(trace_from_gaps(gaps, 4), k)
        if not d or d[-1] == 0: continue
        if not realisable and rng.random() < 0.5:
            # arbitrary non-decreasing vector with positive last entry
            d = sorted(rng.randint(0, 20) for _ in range(len(d)))
            if d[-1] == 0: d[-1] = rng.randint(1, 9)
        if not allow_plateau_end and len(d) >= 2 and d[-1] == d[-2]: continue
        return d
    return [rng.randint(2, 9)]

def plateau_end(d): return len(d) >= 2 and d[-1] == d[-2]

# ----------------------------------------------------------------------------- arrival bounds
def gen_sporadic(rng):
    T = rng.choice([rng.randint(1, 6), rng.randint(5, 40), rng.randint(20, 120)])
    r = rng.random()
    if r < 0.4: J = 0
    elif r < 0.7: J = rng.randint(0, max(0, T - 1))
    elif r < 0.9: J = rng.randint(T, 3 * T)
    else: J = T * rng.randint(1, 3)
    return ["sporadic", T, J]

def gen_prefix(rng):
    """well-formed ArrivalCurvePrefix: first step at 1, distances strictly increasing <= horizon"""
    hz = rng.randint(2, 40)
    steps = [(1, rng.randint(1, 2))]
    d, n = 1, steps[0][1]
    for _ in range(rng.randint(0, 4)):
        d += rng.randint(1, 9); n += rng.randint(1, 2)
        if d > hz: break
        steps.append((d, n))
    return ["steps", hz, [list(s) for s in steps]]

def gen_ab(rng, depth=1, kinds=None, realisable=True, allow_plateau_end=True):
    """kinds: subset of periodic sporadic never curve extrap prefix propagated jitter sum"""
    kinds = kinds or ["periodic", "sporadic", "curve", "extrap", "propagated", "jitter", "sum"]
    leaf = [k for k in kinds if k in ("periodic", "sporadic", "never", "curve", "extrap", "prefix")]
    comp = [k for k in kinds if k in ("propagated", "jitter", "sum", "sum2")]
    k = rng.choice(comp) if (depth > 0 and comp and rng.random() < 0.45) else rng.choice(leaf)
    if k == "periodic": return ["periodic", rng.choice([rng.randint(1, 8), rng.randint(5, 60)])]
    if k == "sporadic": return gen_sporadic(rng)
    if k == "never": return ["never"]
    if k == "curve": return ["curve", ["dmin", gen_dmin(rng, realisable, allow_plateau_end)]]
    if k == "extrap":
        for _ in range(50):
            d = gen_dmin(rng, True, True)
            if len(d) >= 2: return ["extrap", ["dmin", d]]
        return ["extrap", ["dmin", [3, 7]]]
    if k == "prefix": return ["prefix", gen_prefix(rng)]
    sub = lambda: gen_ab(rng, depth - 1, kinds, realisable, allow_plateau_end)
    if k == "propagated": return ["propagated", rng.choice([0, rng.randint(1, 10), rng.randint(5, 60)]), sub()]
    if k == "jitter": return ["jitter", rng.choice([0, rng.randint(1, 10), rng.randint(5, 60)]), sub()]
    if k == "sum": return ["sum", [sub() for _ in range(rng.randint(1, 3))]]
    if k == "sum2": return ["sum2", sub(), sub()]
    raise ValueError(k)

def ab_kind_hist(ab, h):
    h[ab[0]] = h.get(ab[0], 0) + 1
    if ab[0] in ("propagated", "jitter"): ab_kind_hist(ab[2], h)
    if ab[0] == "sum":
        for x in ab[1]: ab_kind_hist(x, h)
    if ab[0] == "sum2":
        ab_kind_hist(ab[1], h); ab_kind_hist(ab[2], h)

def ab_has(ab, pred):
    if pred(ab): return True
    if ab[0] in ("propagated", "jitter"): return ab_has(ab[2], pred)
    if ab[0] == "sum": return any(ab_has(x, pred) for x in ab[1])
    if ab[0] == "sum2": return ab_has(ab[1], pred) or ab_has(ab[2], pred)
    return False

def ab_plateau(ab):
    return ab_has(ab, lambda a: a[0] == "curve" and a[1][0] == "dmin" and plateau_end(a[1][1]))

# rough long-run rate (events per time unit) for utilisation steering
def ab_rate(ab):
    k = ab[0]
    if k in ("periodic", "sporadic"): return 1.0 / ab[1]
    if k == "never": return 0.0
    if k in ("curve", "extrap"):
        d = ab[1][1] if ab[1][0] == "dmin" else [1]
        return len(d) / max(1, d[-1])
    if k == "prefix":
        st = ab[1]
        return st[2][-1][1] / st[1] if st[0] == "steps" and st[2] else 1.0
    if k in ("propagated", "jitter"): return ab_rate(ab[2])
    if k == "sum": return sum(ab_rate(x) for x in ab[1])
    if k == "sum2": return ab_rate(ab[1]) + ab_rate(ab[2])
    return 1.0

# ----------------------------------------------------------------------------- cost models
def gen_costcurve(rng, minlen=1, positive=True):
    costs = [(rng.randint(1, 9) if positive else rng.choice([0, rng.randint(1, 9), rng.randint(1, 9), rng.randint(1, 9)])) for _ in range(rng.randint(3, 8))]
    if max(costs) == 0: costs[0] = rng.randint(1, 9)
    k = rng.randint(minlen, 5)
    out = []
    for n in range(1, k + 1):
        if n > len(costs): break
        out.append(max(sum(costs[i:i + n]) for i in range(len(costs) - n + 1)))
    return out

def gen_cm(rng, scalar_only=False, positive=True):
    r = rng.random()
    if scalar_only or r < 0.45: return ["scalar", rng.choice([1, rng.randint(1, 5), rng.randint(2, 12)])]
    if r < 0.65:
        fr = [rng.randint(1, 9) for _ in range(rng.randint(1, 4))]
        if not positive and rng.random() < 0.25: fr[rng.randrange(len(fr))] = 0           # a legal zero-cost frame
        if sum(fr) == 0: fr[0] = 1
        return ["multiframe", fr]
    if r < 0.85: return ["ccurve", ["costs", gen_costcurve(rng, 1, positive)]]
    return ["cextrap", ["costs", gen_costcurve(rng, 3, positive)]]

def cm_max(cm):
    if cm[0] == "scalar": return cm[1]
    if cm[0] == "multiframe": return max(cm[1])
    return cm[1][1][0]

def gen_rb(rng, depth=1, scalar_only=False, abkinds=None, realisable=True, positive=True):
    if depth > 0 and rng.random() < 0.3:
        return [rng.choice(["agg", "slice"]), [gen_rb(rng, depth - 1, scalar_only, abkinds, realisable, positive) for _ in range(rng.randint(1, 3))]]
    rb = ["rbf", gen_ab(rng, 1, abkinds, realisable), gen_cm(rng, scalar_only, positive)]
    return ["boxed", rb] if rng.random() < 0.1 else rb

def rb_util(rb):
    if rb[0] == "rbf": return ab_rate(rb[1]) * cm_max(rb[2])
    if rb[0] == "boxed": return rb_util(rb[1])
    return sum(rb_util(x) for x in rb[1])

# ----------------------------------------------------------------------------- supplies
def gen_sb(rng, kinds=None):
    kinds = kinds or ["dedicated", "periodic_s", "constrained_s", "default_st", "table_s"]
    k = rng.choice(kinds)
    if k == "dedicated": return ["dedicated"]
    if k == "periodic_s":
        P = rng.randint(1, 20); Q = rng.choice([P, rng.randint(1, P), rng.randint(1, P)])
        return ["periodic_s", Q, P]
    if k == "constrained_s":
        P = rng.randint(1, 20); D = rng.choice([P, rng.randint(1, P)]); Q = rng.choice([D, rng.randint(1, D)])
        return ["constrained_s", Q, D, P]
    if k == "default_st":
        return ["default_st", gen_sb(rng, ["dedicated", "periodic_s", "constrained_s"])]
    if k == "table_s":
        v = [0]
        for _ in range(rng.randint(0, 25)): v.append(v[-1] + rng.choice([0, 0, 1]))
        return ["table_s", v]
    raise ValueError(k)

def sb_rate(sb):
    if sb[0] == "dedicated": return 1.0
    if sb[0] == "periodic_s": return sb[1] / sb[2]
    if sb[0] == "constrained_s": return sb[1] / sb[3]
    if sb[0] == "default_st": return sb_rate(sb[1])
    return 1.0

# ----------------------------------------------------------------------------- workloads for the search
def gen_wtable(rng, rate):
    """monotone step table; long-run slope num/den steered relative to the supply rate"""
    k = rng.randint(1, 12)
    w = [rng.choice([0, 0, 1, rng.randint(1, 6)])]
    for _ in range(k - 1): w.append(w[-1] + rng.choice([0, 0, 0, 1, 2, rng.randint(0, 5)]))
    den = rng.randint(1, 8)
    r = rng.random()
    if r < 0.6: num = int(den * rate * rng.uniform(0.0, 0.9))
    elif r < 0.8: num = int(den * rate)
    else: num = int(den * rate * rng.uniform(1.0, 1.6)) + 1
    return ["wtable", w, num, den]

# ----------------------------------------------------------------------------- task sets
def gen_taskset(rng, n, target_util, abkinds=None, scalar_only=True, realisable=True):
    """n rbfs whose total utilisation is about target_util"""
    rbs = []
    for _ in range(n):
        rbs.append(["rbf", gen_ab(rng, 1, abkinds, realisable), gen_cm(rng, scalar_only)])
    u = sum(rb_util(r) for r in rbs)
    # scale periods: replace leaf periods to approach the target (coarse)
    if u > 0:
        f = u / target_util
        def scale(ab):
            k = ab[0]
            if k == "periodic": return ["periodic", max(1, int(ab[1] * f + 0.5))]
            if k == "sporadic": return ["sporadic", max(1, int(ab[1] * f + 0.5)), ab[2]]
            if k in ("propagated", "jitter"): return [k, ab[1], scale(ab[2])]
            if k == "sum": return ["sum", [scale(x) for x in ab[1]]]
            return ab
        rbs = [["rbf", scale(r[1]), r[2]] for r in rbs]
    return rbs
