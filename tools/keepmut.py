#!/usr/bin/env python3
"""store a confirmed seeded change under /verif/seeded/<prop>-<variant>/ (development aid)"""
import sys, os, json, shutil
prop, var = sys.argv[1], sys.argv[2]; caught = sys.argv[3:]      # e.g. C06:input C17:corr
# MUT_TAG=r4: worktree /tmp/mut/<prop>r4, stored as seeded/<prop>-<var>4
tag = os.environ.get("MUT_TAG", "")
src = "/tmp/mut/%s%s/mut" % (prop, tag)
dst = "/verif/seeded/%s-%s%s" % (prop, var, tag.lstrip("r"))
os.makedirs(dst, exist_ok=True)
shutil.copy(os.path.join(src, var + ".diff"), os.path.join(dst, "patch.diff"))
shutil.copy(os.path.join(src, var + "_demo.rs"), os.path.join(dst, "demo.rs"))
m = json.load(open(os.path.join(src, var + ".json")))
meta = dict(breaks_property=prop, what=m.get("what"), needs=m.get("needs"), why_existing_tests_pass=m.get("why_tests_pass"), files=m.get("files"),
            source="written by an independent sub-agent that saw only the property text and a scratch worktree",
            confirmed=["scratch worktree: pristine tree + demo passes; change applied: 80 unit + 3 doc tests pass, demo fails (tools/evalmut.py)",
                       "applied to /repo (git apply), quick checks run, reverted (git checkout -- .)"],
            detected_by={c.split(":")[0]: ("VIOLATION with a concrete failing input" if c.split(":")[1] == "input" else "VIOLATION no-failing-input-found (correspondence broken)" if c.split(":")[1] == "corr" else "not detected") for c in caught})
json.dump(meta, open(os.path.join(dst, "meta.json"), "w"), indent=1)
print(dst)
