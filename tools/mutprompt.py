#!/usr/bin/env python3
"""development aid: write the prompt for a fresh mutation sub-agent (it gets ONLY the property text and a scratch worktree).
usage: mutprompt.py <prop> <round-tag>   -> prints the prompt; creates the worktree /tmp/mut/<prop><tag>"""
import sys, os, json, subprocess
V = os.path.dirname(os.path.dirname(os.path.abspath(__file__)))
pid, tag = sys.argv[1], sys.argv[2]
wt = "/tmp/mut/%s%s" % (pid, tag)
P = [json.loads(l) for l in open(os.path.join(V, "properties.jsonl"))]
p = [x for x in P if x["id"] == pid][0]
used = []
for d in sorted(os.listdir(os.path.join(V, "seeded"))):
    m = json.load(open(os.path.join(V, "seeded", d, "meta.json")))
    if m["breaks_property"] == pid or set(m.get("files", [])) & set(p["anchors"]["files"]): used.append("- " + " ".join(m["what"].split())[:220])
os.makedirs("/tmp/mut", exist_ok=True)
if not os.path.exists(wt):
    subprocess.run("git -C /repo worktree add --detach %s HEAD -f" % wt, shell=True, check=True, stdout=subprocess.DEVNULL, stderr=subprocess.DEVNULL)
mech = "; ".join("%s (%s)" % (m["name"], m["where"]) for m in p["anchors"].get("mechanism", []))
print(f"""You are testing how well a verification effort can detect subtle regressions in a Rust library. You get ONE semantic property of the library and your own scratch git worktree of it. Your job: produce TWO different, realistic code changes ("mutants" A and B) to the library that each BREAK the property while the crate still compiles and its existing test suite still passes, each with a small demonstration that fails with the change and passes without it.

The library: `response-time-analysis` (Rust; response-time analyses for real-time systems: arrival curves, cost models, request-bound functions, supply-bound functions, fixed-point search, FP/EDF/FIFO/ROS 2 analyses). Your worktree: {wt} (a git worktree; work ONLY inside it; never touch /repo or /verif; do not read anything under /verif). Build and test offline: `cd {wt} && CARGO_NET_OFFLINE=true cargo test --offline 2>&1 | tail -5` (80 unit tests + 3 doc tests must pass).

The property (read it carefully — your changes must violate THIS property, on inputs that are legal for it):

Property {pid} — {p['title']}

Statement: {p['statement']}

Quantified over: {p['quantifier']['text']}

Why the existing tests cannot settle it: {p['why_tests_cant']}

Code the property is anchored in: {', '.join(p['anchors']['files'])}
Mechanisms: {mech}

Requirements for each change:
- It must be the kind of slip a maintainer could plausibly make or that could survive code review (an off-by-one in an interval convention, `<` vs `<=`, a dropped or swapped term, a wrong index, a boundary case handled wrongly, an "optimisation" that is wrong for bursty/jittered inputs, ...), NOT an obvious sabotage (no `if input == magic`, no random behaviour, no panics inserted on purpose).
- It should need something SPECIFIC to manifest: an unusual but legal input (release jitter larger than the period, bursty delta-min curves, plateaus, deadlines larger than periods, equal deadlines, a limit equal to the fixed point, budget = period, a multi-step query sequence on shared clones, ...), or two cooperating sites that each look fine alone — not something that ordinary use would expose at once. Prefer changes whose effect is small (off by one or two time units, one missed step) and only on some inputs.
- The crate must still compile without new warnings about unused code where avoidable, and ALL existing tests must still pass (run them!).
- Keep each change small (a few lines, one or two files under src/, never the tests).
- A and B must be at different places / of different nature.

Deliverables, all inside {wt}/mut/ (create the directory):
- `A.diff` and `B.diff`: each produced with `git diff` against the pristine checkout with ONLY that change applied (check with `git apply --check` on a clean tree that each applies on its own).
- `A_demo.rs` and `B_demo.rs`: for each change a self-contained Rust test file usable as an integration test: copy it to `{wt}/tests/demo.rs` and `cargo test --offline --test demo` must FAIL (assertion failure, not a compile error) with the change applied and PASS on the pristine tree. The test must exercise only the crate's public API (`response_time_analysis::...`) and should state in a comment what the correct value is and why (e.g. by brute-force recomputation inside the test, or by hand reasoning). Remove `tests/demo.rs` again afterwards.
- `A.json` and `B.json`: {{"property": "{pid}", "files": [...], "what": "one-paragraph description of the change", "needs": "what specific input/sequence is needed for it to manifest", "why_tests_pass": "why the existing suite does not notice", "ran": ["commands you ran and their outcomes"]}}.
At the end leave the worktree's tracked files pristine (`git checkout -- . && git status --short` shows only the untracked mut/ directory).

Verify everything yourself before reporting: pristine tree + demo passes; change applied + existing suite passes + demo fails. Report a short summary of both changes.

Ideas ALREADY USED by others in this area — do NOT repeat them or close variants; find different places and different kinds of slips:
""" + "\n".join(used))
