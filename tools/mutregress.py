#!/usr/bin/env python3
"""development aid (not a registered check): re-run the quick check of the property each stored seeded change breaks,
with the change applied to /repo (reverted afterwards). usage: mutregress.py [ids...]; writes .work/mutregress.json"""
import sys, subprocess, os, json, time
V = os.path.dirname(os.path.dirname(os.path.abspath(__file__)))
def sh(cmd, cwd=None):
    r = subprocess.run(cmd, shell=True, cwd=cwd, stdout=subprocess.PIPE, stderr=subprocess.STDOUT, text=True, env=dict(os.environ, CARGO_NET_OFFLINE="true"))
    return r.returncode, r.stdout
ids = sys.argv[1:] or sorted(os.listdir(os.path.join(V, "seeded")))
rc, o = sh("git status --short | grep -v '^??' | head -3", "/repo"); assert o.strip() == "", "/repo not clean: " + o
res = {}
outp = os.path.join(V, ".work", "mutregress.json"); os.makedirs(os.path.dirname(outp), exist_ok=True)
for d in ids:
    m = json.load(open(os.path.join(V, "seeded", d, "meta.json")))
    pid = m.get("checked_by", m["breaks_property"])
    if m.get("obsolete"):
        res[d] = dict(prop=pid, obsolete=True, violation=None, failing_input=None, n=0, wall=0); print(d, "obsolete (equivalent since a later fix)", flush=True); continue
    rc, o = sh("git apply %s" % os.path.join(V, "seeded", d, "patch.diff"), "/repo")
    if rc != 0:
        # the patched lines were changed by a later fix: commit in /repo; try a three-way merge, otherwise record the change as stale
        sh("git checkout -- .", "/repo")
        rc, o = sh("git apply --3way %s" % os.path.join(V, "seeded", d, "patch.diff"), "/repo")
        if rc != 0 or "conflict" in o.lower():
            sh("git reset -q --hard HEAD", "/repo")
            res[d] = dict(prop=pid, stale=True, violation=None, failing_input=None, n=0, wall=0)
            print(d, "STALE (no longer applies to the repaired tree)", flush=True)
            json.dump(res, open(outp, "w"), indent=1); continue
        sh("git reset -q", "/repo")
    t0 = time.time()
    try:
        rc, o = sh("python3 tools/check.py %s --tier quick 2>&1 | grep -v KNOWN-FINDING | tail -6" % pid, V)
    finally:
        sh("git checkout -- .", "/repo")
    viol = [l for l in o.splitlines() if l.startswith("VIOLATION")]
    res[d] = dict(prop=pid, violation=bool(viol), failing_input=any("no-failing-input-found" not in l for l in viol), n=len(viol), wall=round(time.time() - t0, 1))
    print(d, res[d], flush=True)
    json.dump(res, open(outp, "w"), indent=1)
